#!/bin/sh
# usage: try_benign.sh <patch.diff> <check ids...>   — like try_mutant.sh; a behaviour-preserving patch must leave every check green
exec "$(dirname "$0")/try_mutant.sh" "$@"
