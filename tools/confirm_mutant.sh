#!/bin/sh
# usage: confirm_mutant.sh <worktree>   (worktree has the change applied + tests/seeded_demo.rs)
# Confirms: suite passes with the change (only source_unreadable + the demo fail), demo fails with / passes without.
wt="$1"; cd "$wt" || exit 2
export CARGO_NET_OFFLINE=true
feat=""; grep -q 'feature = "verif_hooks"' tests/seeded_demo.rs && feat="--features verif_hooks"
echo "## $wt suite with change:"; cargo nextest run --workspace --no-fail-fast --offline $feat 2>&1 | grep -E "Summary|FAIL \[" | sort -u | head -8
echo "## demo with change:"; cargo test --offline $feat --test seeded_demo 2>&1 | grep -E "^test result|panicked at" | head -3
git stash push -q -- src; touch src/lib.rs
echo "## demo without change:"; cargo test --offline $feat --test seeded_demo 2>&1 | grep -E "^test result|panicked at" | head -3
git stash pop -q; rm -rf target
