#!/bin/sh
# usage: confirm_mutant.sh <worktree>   (worktree has the change applied + tests/seeded_demo.rs)
# Confirms: suite passes with the change (only source_unreadable + the demo fail), demo fails with / passes without.
# NOTE: never `git stash` here: refs/stash is shared by all worktrees of a repository.
wt="$1"; cd "$wt" || exit 2
export CARGO_NET_OFFLINE=true
feat=""; grep -q 'feature = "verif_hooks"' tests/seeded_demo.rs && feat="--features verif_hooks"
git diff -- src > .confirm.patch
cmp -s .confirm.patch patch.diff || echo "## NOTE: git diff -- src differs from patch.diff"
echo "## $wt suite with change:"; cargo nextest run --workspace --no-fail-fast --offline $feat 2>&1 | grep -E "Summary|FAIL \[" | sort -u | head -8
echo "## demo with change:"; cargo test --offline $feat --test seeded_demo 2>&1 | grep -E "^test result|panicked at" | head -3
git checkout -- src; touch src/lib.rs
echo "## demo without change:"; cargo test --offline $feat --test seeded_demo 2>&1 | grep -E "^test result|panicked at" | head -3
git apply .confirm.patch; rm -f .confirm.patch; rm -rf target
