#!/bin/sh
# usage: try_mutant.sh <patch.diff> <check ids...>
# Applies a seeded change to /repo, runs the given checks (quick), and undoes it straight afterwards.
patch="$1"; shift
cd /repo || exit 2
if ! git apply --check "$patch" 2>/dev/null; then echo "PATCH DOES NOT APPLY: $patch"; exit 2; fi
git apply "$patch"
cd /verif
for c in "$@"; do
  out=$(VERIF_EVIDENCE_DIR=/tmp/mutant-evidence VERIF_SEED=${VERIF_SEED:-20260925} ./check "$c" --tier ${TIER:-quick} 2>&1 | grep -v GC_LOCK)
  rc=$?
  echo "== $c: $(echo "$out" | grep -c '^VIOLATION') violation line(s); $(echo "$out" | grep 'theorems checked' | sed 's/.*: //')"
  echo "$out" | grep '^VIOLATION' | head -4
  python3 - "$c" <<'PY'
import json,sys,glob,collections
c=sys.argv[1]
try:
    r=json.load(open(f'/verif/reports/{c}-quick.json'))
except Exception as e:
    print('   no report', e); sys.exit(0)
o=collections.Counter(x['signature'] for x in r.get('oracle_failures',[]))
d=collections.Counter(x['signature'] for x in r.get('disagreements',[]))
print('    oracle:', dict(o)); print('    model-vs-impl:', dict(d))
PY
done
cd /repo && git checkout -- . && git status --short | head -3
