#!/usr/bin/env python3
"""record_mutant.py <worktree> <name> <property> <json-meta-file>  — copy patch.diff, demo, NOTES.md into /verif/seeded/<name>/ with meta.json."""
import json, os, shutil, sys
wt, name, prop, metaf = sys.argv[1:5]
d = f"/verif/seeded/{name}"
os.makedirs(d, exist_ok=True)
for src, dst in [("patch.diff", "patch.diff"), ("tests/seeded_demo.rs", "seeded_demo.rs"), ("NOTES.md", "NOTES.md")]:
    shutil.copy(os.path.join(wt, src), os.path.join(d, dst))
meta = json.load(open(metaf))
meta.setdefault("property", prop)
meta.update({
    "written_by": "independent sub-agent given only the property text and a scratch worktree (nothing from /verif)",
    "confirmed": "tools/confirm_mutant.sh in the scratch worktree: suite 212 passed (+ the baseline failure source_unreadable + the demo), demo fails with the change and passes without",
    "ran": "tools/try_mutant.sh <patch> <checks>  (git -C /repo apply, ./check quick, git -C /repo checkout -- .)",
})
json.dump(meta, open(os.path.join(d, "meta.json"), "w"), indent=1)
print("recorded", d)
