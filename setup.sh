#!/bin/sh
# Build the framework from files on disk only (offline).
set -e
cd "$(dirname "$0")"
export CARGO_NET_OFFLINE=true
(cd lean && lake build ConserveModel cvmodel)
cp /repo/Cargo.lock harness/Cargo.lock
(cd harness && cargo build --release --offline)
# the command-line binary of /repo's working tree (the checks rebuild it when /repo changes)
(cd harness && cargo build --release --offline --bin conserve --manifest-path "${VERIF_REPO:-/repo}/Cargo.toml" --target-dir target/repo-bin)
echo setup-ok
