#!/bin/sh
# Probe (not a check): a REAL kill -9 in the middle of one large block write leaves a TRUNCATED, non-empty block
# file; a later backup of the same source dedups against it, reports success, and the new complete version cannot
# be restored.  Outside C03 as stated (its crash points are between storage operations, plus the empty-file state).
# usage: sigkill_partial_block.sh <path to conserve binary>     (run in an empty scratch directory)
B=$1
mkdir S && head -c 60000000 /dev/urandom > S/video
for d in 0.08 0.12 0.16 0.20; do
  rm -rf A; $B init A >/dev/null 2>&1
  $B backup A S --no-stats --no-progress >/dev/null 2>&1 & pid=$!
  sleep $d; kill -9 $pid; wait $pid 2>/dev/null
  n=$(find A/d -type f -size +0 -size -20000k 2>/dev/null | wc -l)
  [ "$n" -ge 1 ] && break
done
echo "truncated block files after the kill: $n"; find A/d -type f -printf "%s bytes\n"
$B backup A S --no-stats --no-progress; echo "follow-up backup exit code: $?"
$B validate A --no-progress; echo "validate exit code: $?"
$B restore A R --no-stats --no-progress; echo "restore exit code: $?"
cmp S/video R/video && echo "restored file identical" || echo "RESTORED FILE DIFFERS"
