use conserve::monitor::test::TestMonitor;
use conserve::*;
use std::path::Path;

fn find_hunk(dir: &Path) -> std::path::PathBuf {
    // b0000/i/00000/000000000
    dir.join("b0000").join("i").join("00000").join("000000000")
}

#[tokio::main(flavor = "current_thread")]
async fn main() {
    let tmp = tempfile::tempdir().unwrap();
    let root = tmp.path();
    let src = root.join("src");
    let arch = root.join("arch");
    let sandbox = root.join("sandbox");
    std::fs::create_dir_all(&src).unwrap();
    std::fs::create_dir_all(sandbox.join("dest")).unwrap();
    std::fs::create_dir_all(sandbox.join("outside")).unwrap();
    std::os::unix::fs::symlink("../outside/b", src.join("a")).unwrap();
    let archive = Archive::create_path(&arch).await.unwrap();
    let monitor = TestMonitor::arc();
    backup(&archive, &src, &BackupOptions::default(), monitor.clone()).await.unwrap();
    // rewrite the hunk: after the symlink entry `/a`, add `/a` again as a file
    let hp = find_hunk(&arch);
    let bytes = std::fs::read(&hp).unwrap();
    let raw = snap::raw::Decoder::new().decompress_vec(&bytes).unwrap();
    let mut v: serde_json::Value = serde_json::from_slice(&raw).unwrap();
    println!("before: {}", v);
    let arr = v.as_array_mut().unwrap();
    let mut dup = arr.iter().find(|e| e["apath"] == "/a").unwrap().clone();
    dup["kind"] = "File".into();
    dup.as_object_mut().unwrap().remove("target");
    dup["addrs"] = serde_json::json!([]);
    arr.push(dup);
    println!("after:  {}", v);
    let out = snap::raw::Encoder::new().compress_vec(&serde_json::to_vec(&v).unwrap()).unwrap();
    std::fs::write(&hp, out).unwrap();
    let archive = Archive::open_path(&arch).await.unwrap();
    let monitor = TestMonitor::arc();
    let r = restore(&archive, &sandbox.join("dest"), RestoreOptions::default(), monitor.clone()).await;
    println!("restore result: {:?}", r);
    println!("monitor errors: {:?}", monitor.take_errors());
    println!("outside/b exists: {}", sandbox.join("outside").join("b").exists());
    for e in std::fs::read_dir(sandbox.join("outside")).unwrap() { println!("outside entry: {:?}", e.unwrap().file_name()); }
    for e in std::fs::read_dir(sandbox.join("dest")).unwrap() { let e = e.unwrap(); println!("dest entry: {:?} {:?}", e.file_name(), e.file_type().unwrap()); }
}
