import ConserveModel.Apath
import ConserveModel.ApathSpec
