import ConserveModel.Apath
/-
Entries: what the index stores (src/index/entry.rs `IndexEntry`, src/blockdir.rs `Address`)
and what the source walk yields (src/source/entry.rs `Entry`).
-/
namespace Conserve

inductive Kind
  | file | dir | symlink | unknown
  deriving DecidableEq, Repr, Inhabited

/-- `blockdir::Address`: `len` bytes starting at `start` inside the block named `hash`
(the name is the 128 lowercase hex characters, as bytes). -/
structure Addr where
  hash : Str
  start : Nat
  len : Nat
  deriving DecidableEq, Repr, Inhabited

/-- `IndexEntry` as (de)serialised in an index hunk.  `mtime` is whole seconds (i64 in the
code), `mtimeNanos` the u32 fraction.  `unixMode = none` is JSON `null`. -/
structure IndexEntry where
  apath : Str
  kind : Kind
  mtime : Int
  mtimeNanos : Nat
  unixMode : Option Nat
  user : Option Str
  group : Option Str
  addrs : List Addr
  target : Option Str
  deriving DecidableEq, Repr, Inhabited

/-- `IndexEntry::size` — the sum of the address lengths, for every kind. -/
def IndexEntry.size (e : IndexEntry) : Nat := (e.addrs.map (·.len)).sum

/-- `source::Entry` plus the file content the backup will read.  `mtimeNs` is the
modification time in nanoseconds since the epoch (what `SystemTime → jiff::Timestamp`
holds); `size` is `st_size` for files, `content` what reading the file returns. -/
structure SrcEntry where
  apath : Str
  kind : Kind
  mtimeNs : Int
  unixMode : Nat                 -- already masked with 0o7777
  user : Option Str
  group : Option Str
  size : Nat := 0                -- files only
  content : Str := []            -- files only
  target : Option Str := none    -- symlinks only
  deriving DecidableEq, Repr, Inhabited

def nanosPerSec : Int := 1000000000

/-- `IndexEntry::mtime()` as nanoseconds since the epoch: `Timestamp::new(mtime, nanos as i32)`.
`none` = `try_into::<i32>().unwrap()` or the range `expect` panics. -/
def entryTimeNs (sec : Int) (nanos : Nat) : Option Int :=
  if nanos ≥ 2147483648 then none
  else if nanos > 999999999 then none
  else if sec < -377705023201 ∨ sec > 253402207200 then none
  else some (sec * nanosPerSec + nanos)

end Conserve
