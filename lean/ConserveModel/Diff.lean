import ConserveModel.Entry
import ConserveModel.Mtime
/-
Model of src/change.rs (`EntryChange::diff_metadata`), src/merge.rs (`MergeTrees::next`) and
src/diff.rs (`Diff::next` / `collect`), plus the change events of src/backup.rs.

`diff(st, lt)` merges the stitched index of a stored version (entries `IndexEntry`, the
"A" side) with the walk of a live tree (entries `source::Entry`, the "B" side); both streams
are consumed through `EntryTrait`, whose view is `EntryMeta` below.
-/
namespace Conserve.DM

/-- The four cases of `Change<E>` (sigils `.`, `+`, `-`, `*`). -/
inductive ChangeKind
  | unchanged | added | deleted | changed
  deriving DecidableEq, Repr, Inhabited

/-- What `EntryTrait` exposes of an entry besides its apath: `kind()`, `mtime()` (a
`Timestamp`, modelled by its total nanoseconds), `size()`, `unix_mode()` (`UnixMode(Option<u32>)`),
`owner()` (`Owner { user, group }`), `symlink_target()`. -/
structure EntryMeta where
  kind : Kind
  mtime : Int
  size : Option Nat
  mode : Option Nat
  user : Option Str
  group : Option Str
  target : Option Str
  deriving DecidableEq, Repr, Inhabited

/-- `impl EntryTrait for source::Entry` (src/source/entry.rs): `size()` is `Some` only for
`KindMeta::File`, `symlink_target()` is `Some` only for `KindMeta::Symlink`, the mode is always
`Some(mode & 0o7777)`. -/
def _root_.Conserve.SrcEntry.meta (s : SrcEntry) : EntryMeta :=
  { kind := s.kind
    mtime := s.mtimeNs
    size := if s.kind = .file then some s.size else none
    mode := some s.unixMode
    user := s.user
    group := s.group
    target := if s.kind = .symlink then s.target else none }

/-- The `Timestamp` denoted by the stored pair, when `IndexEntry::mtime()` does not panic
(`Timestamp::new` normalises to `mtime·10⁹ + mtime_nanos`, see Mtime.lean `indexMtime`). -/
def _root_.Conserve.IndexEntry.ts (e : IndexEntry) : Int := e.mtime * nsPerSec + e.mtimeNanos

/-- `impl EntryTrait for IndexEntry` (src/index/entry.rs): `size()` is
`Some(Σ addrs.len)` FOR EVERY KIND (not only files), `symlink_target()` is the stored `target`
whatever the kind, `unix_mode()` may be `None` (old indexes). -/
def _root_.Conserve.IndexEntry.meta (e : IndexEntry) : EntryMeta :=
  { kind := e.kind
    mtime := e.ts
    size := some e.size
    mode := e.unixMode
    user := e.user
    group := e.group
    target := e.target }

/-- `EntryChange::diff_metadata(a, b)`, literally: `Changed` iff
`ak != b.kind() || a.owner() != b.owner() || a.unix_mode() != b.unix_mode()
 || (ak == File && (a.size() != b.size() || a.mtime() != b.mtime()))
 || (ak == Symlink && a.symlink_target() != b.symlink_target())`. -/
def diffMetadata (a b : EntryMeta) : ChangeKind :=
  if a.kind != b.kind
      || (a.user, a.group) != (b.user, b.group)
      || a.mode != b.mode
      || (a.kind == .file && (a.size != b.size || a.mtime != b.mtime))
      || (a.kind == .symlink && a.target != b.target)
  then .changed else .unchanged

/-- `MatchedEntries<IndexEntry, source::Entry>`. -/
inductive Matched
  | left (a : IndexEntry)
  | right (b : SrcEntry)
  | both (a : IndexEntry) (b : SrcEntry)
  deriving DecidableEq, Repr

def Matched.apath : Matched → Str
  | .left a => a.apath
  | .right b => b.apath
  | .both a _ => a.apath

/-- `MergeTrees::next`, called until it returns `None`.  The two lists are what the two
iterators still hold, their heads the peeked `next_a` / `next_b`:
(None, None) ⇒ end; (Some, None) ⇒ Left; (None, Some) ⇒ Right; otherwise compare the apaths
with `Apath::cmp`: Equal ⇒ Both (advance both), Less ⇒ Left (advance A), Greater ⇒ Right. -/
def mergeEntries : List IndexEntry → List SrcEntry → List Matched
  | [], [] => []
  | a :: as, [] => .left a :: mergeEntries as []
  | [], b :: bs => .right b :: mergeEntries [] bs
  | a :: as, b :: bs =>
    match apathCmp a.apath b.apath with
    | .eq => .both a b :: mergeEntries as bs
    | .lt => .left a :: mergeEntries as (b :: bs)
    | .gt => .right b :: mergeEntries (a :: as) bs
termination_by A B => A.length + B.length

/-- `MatchedEntries::to_entry_change`, reduced to (apath, classification). -/
def Matched.toEntryChange : Matched → Str × ChangeKind
  | .both a b => (a.apath, diffMetadata a.meta b.meta)
  | .left a => (a.apath, .deleted)
  | .right b => (b.apath, .added)

/-- `Diff::collect`: repeated `Diff::next`, which skips `Unchanged` results unless
`include_unchanged`. -/
def diffLoop (includeUnchanged : Bool) : List Matched → List (Str × ChangeKind)
  | [] => []
  | m :: ms =>
    let ec := m.toEntryChange
    if includeUnchanged || ec.2 != .unchanged then ec :: diffLoop includeUnchanged ms
    else diffLoop includeUnchanged ms

/-- `diff(st, lt, options).collect()` with `exclude = nothing`: `A` is the stored version's
listing, `B` the live tree's walk. -/
def diff (A : List IndexEntry) (B : List SrcEntry) (includeUnchanged : Bool) :
    List (Str × ChangeKind) :=
  diffLoop includeUnchanged (mergeEntries A B)

/-! ### Panics on the way (`EntryMetadata::from`, `IndexEntry::mtime`)
`EntryChange::{changed, unchanged, deleted, added}` build an `EntryMetadata` of the entries,
which evaluates `KindMetadata::from` (panics on `Kind::Unknown`, `unwrap`s the symlink target)
and then `mtime()`.  These fire only for index entries no backup writes (damage, foreign
writers); the checked functions below make them explicit and `diffChecked_ok`
(Props/C18.lean) shows they are the only way `diff` differs from `diffChecked`. -/

def siteKindUnknown : String := "change.rs:KindMetadata::from:Kind::Unknown"
def siteTargetNone : String := "change.rs:KindMetadata::from:symlink_target-unwrap"

/-- First panic met when the code describes index entry `e`, if any. -/
def _root_.Conserve.IndexEntry.panicSite (e : IndexEntry) : Option String :=
  if e.kind = .unknown then some siteKindUnknown
  else if e.kind = .symlink ∧ e.target = none then some siteTargetNone
  else match indexMtime e.mtime e.mtimeNanos with
    | .ok _ => none
    | .panic s => some s

/-- `source::Entry` cannot hold `Unknown` (the walk skips such files) and a `Symlink` always
has its target; the model type can, so the same sites are charged. -/
def _root_.Conserve.SrcEntry.panicSite (s : SrcEntry) : Option String :=
  if s.kind = .unknown then some siteKindUnknown
  else if s.kind = .symlink ∧ s.target = none then some siteTargetNone
  else none

def Matched.toEntryChangeChecked (m : Matched) : Outcome (Str × ChangeKind) :=
  let site : Option String := match m with
    | .left a => a.panicSite
    | .right b => b.panicSite
    | .both a b => match a.panicSite with
      | some s => some s
      | none => b.panicSite
  match site with
  | some s => .panic s
  | none => .ok m.toEntryChange

def diffLoopChecked (includeUnchanged : Bool) : List Matched → Outcome (List (Str × ChangeKind))
  | [] => .ok []
  | m :: ms =>
    m.toEntryChangeChecked.bind fun ec =>
      (diffLoopChecked includeUnchanged ms).bind fun rest =>
        .ok (if includeUnchanged || ec.2 != .unchanged then ec :: rest else rest)

def diffChecked (A : List IndexEntry) (B : List SrcEntry) (includeUnchanged : Bool) :
    Outcome (List (Str × ChangeKind)) :=
  diffLoopChecked includeUnchanged (mergeEntries A B)

/-! ### What a backup writes for a source entry, and the events it reports -/

/-- `IndexEntry::metadata_from(source)`: everything but the addresses.  `enc` is the mtime
encoding (`toIndex` for the code as it is, `toIndexPre` for the code before commit 6ea0861). -/
def metadataFromWith (enc : Int → Outcome (Int × Nat)) (s : SrcEntry) : Outcome IndexEntry :=
  (enc s.mtimeNs).bind fun p =>
    .ok { apath := s.apath, kind := s.kind, mtime := p.1, mtimeNanos := p.2,
          unixMode := some s.unixMode, user := s.user, group := s.group, addrs := [],
          target := s.meta.target }

def metadataFrom (s : SrcEntry) : Outcome IndexEntry := metadataFromWith toIndex s
def metadataFromPre (s : SrcEntry) : Outcome IndexEntry := metadataFromWith toIndexPre s

/-- `content_heuristically_unchanged(source, basis)` in backup.rs. -/
def heuristicallyUnchanged (basis : IndexEntry) (s : SrcEntry) : Bool :=
  basis.kind == s.kind && basis.ts == s.mtimeNs && basis.meta.size == s.meta.size

/-- The `change_callback` event of `backup` for one merged pair (basis version × source tree),
with `options.owner = true` and all basis blocks present: `Deleted` for every basis entry
missing from the source (any kind); for a source FILE `Added` / `Changed` / `Unchanged` as
`copy_file` decides; nothing for source directories and symlinks (`copy_dir` and
`copy_symlink` return `Ok(None)`, "TODO: Emit the actual change"). -/
def backupEvent : Matched → Outcome (Option (Str × ChangeKind))
  | .left a => .ok (some (a.apath, .deleted))
  | .right b => .ok (if b.kind = .file then some (b.apath, .added) else none)
  | .both a b =>
    if b.kind = .file then
      if heuristicallyUnchanged a b then
        (metadataFrom b).bind fun ne =>
          .ok (some (a.apath, if { ne with addrs := a.addrs } = a then .unchanged else .changed))
      else .ok (some (a.apath, .changed))
    else .ok none

/-- Is an event reported at all for this pair?  (Everything missing from the source, and
source files.) -/
def reportedByBackup : Matched → Bool
  | .left _ => true
  | .right b => b.kind == .file
  | .both _ b => b.kind == .file

/-- All `change_callback` events of one backup, in order. -/
def backupEventsLoop : List Matched → Outcome (List (Str × ChangeKind))
  | [] => .ok []
  | m :: ms =>
    (backupEvent m).bind fun e =>
      (backupEventsLoop ms).bind fun rest =>
        .ok (match e with
          | some x => x :: rest
          | none => rest)

def backupEvents (A : List IndexEntry) (B : List SrcEntry) : Outcome (List (Str × ChangeKind)) :=
  backupEventsLoop (mergeEntries A B)

end Conserve.DM
