import ConserveModel.Gc
/-
`Archive::validate` (src/archive.rs, src/validate.rs, `BlockDir::validate`).
Problems are reported as `Event.error`s; the result is `()` unless validation cannot go on.
-/
namespace Conserve
open Prog

/-- (hash, needed length) association list with `max` on collision. -/
def lensInsert (m : List (Str × Nat)) (h : Str) (n : Nat) : List (Str × Nat) :=
  match m with
  | [] => [(h, n)]
  | (h', n') :: rest => if h' = h then (h', max n' n) :: rest else (h', n') :: lensInsert rest h n

def entryLens (m : List (Str × Nat)) (es : List IndexEntry) : List (Str × Nat) :=
  es.foldl (fun m e =>
    if e.kind == .file then e.addrs.foldl (fun m a => lensInsert m a.hash (a.start + a.len)) m else m) m

/-- `validate_bands`: per band open, directory check, stitched walk. -/
def validateBands : List Nat → List (Str × Nat) → Prog (List (Str × Nat))
  | [], m => pure m
  | b :: bs, m => do
    match ← (bandOpen b).attempt with
    | .error e =>
      logError e
      validateBands bs m
    | .ok () =>
      -- Band::validate
      match ← perform (.listDir (.bandDir b)) with
      | .err e =>
        logError (.transport e)
        validateBands bs m
      | .listing xs =>
        if !(xs.any fun e => e.key == .bandHead b) then logError (.bandHeadMissing b)
        -- open_stored_tree(Specified(b))
        match ← (bandOpen b).attempt with
        | .error e =>
          logError e
          validateBands bs m
        | .ok () =>
          let es ← listEntries b [slash] (fun _ => false)
          validateBands bs (entryLens m es)
      | _ =>
        logError (.transport .other)
        validateBands bs m

section
variable (H : Str → Str)

/-- `BlockDir::validate`: read, decompress and hash every present block. -/
def validateBlocks : List Str → Prog (List (Str × Nat))
  | [] => pure []
  | h :: hs => do
    match ← getBlockContent H h with
    | .ok c =>
      let rest ← validateBlocks hs
      pure ((h, c.length) :: rest)
    | .error e =>
      logError e
      validateBlocks hs

/-- `Archive::validate`. `quick` = `skip_block_hashes`. -/
def validate (quick : Bool) : Prog Unit := do
  match ← perform (.listDir .root) with            -- validate_archive_dir
  | .err e => .fail (.transport e)
  | _ => pure ()
  let bands ← listBandIds
  let referenced ← validateBands bands []
  let present ← listBlocks
  if quick then
    for (h, _) in referenced do
      if !present.contains h then logError (.blockMissing h)
  else
    let lens ← validateBlocks H (present.mergeSort strLe)
    for (h, need) in referenced do
      match lens.lookup h with
      | some actual => if need > actual then logError (.blockTooShort h)
      | none => logError (.blockMissing h)

end
end Conserve
