import ConserveModel.Entry
import ConserveModel.ApathSpec
/-
Model of the source walk, src/source.rs (`Iter::new`, `Iterator::next`,
`visit_next_directory`), over an abstract source tree.

* `Node`/`Forest`: the filesystem below the source root.  A `Forest` is the listing of one
  directory in the ARBITRARY order in which `fs::read_dir` returns it.
* `walkDeque`: the iterator as written, with its two deques.
* `walkRec`:   the recursive specification (directory contents sorted by name, then the
  contents of every subdirectory in apath order).

Not modelled (the harness keeps away from them): names that are not UTF-8 (skipped by the
code with an error), directories tagged with CACHEDIR.TAG (skipped silently), fifos/sockets
(skipped), I/O errors and races while listing.
-/
namespace Conserve

/-- What `lstat` says about any kind of file, as far as `source::Entry` keeps it. -/
structure FsMeta where
  mtimeNs : Int := 0
  unixMode : Nat := 0
  user : Option Str := none
  group : Option Str := none
  deriving DecidableEq, Repr, Inhabited

mutual
/-- One file, symlink or directory of the source tree (without its name). -/
inductive Node
  | file (m : FsMeta) (size : Nat) (content : Str)
  | symlink (m : FsMeta) (target : Str)
  | dir (m : FsMeta) (kids : Forest)
/-- The listing of a directory: (name, node) pairs in `read_dir` order. -/
inductive Forest
  | nil
  | cons (name : Str) (node : Node) (rest : Forest)
end

instance : Inhabited Node := ⟨.file {} 0 []⟩
instance : Inhabited Forest := ⟨.nil⟩

def Forest.toList : Forest → List (Str × Node)
  | .nil => []
  | .cons name n rest => (name, n) :: rest.toList

def Forest.ofList : List (Str × Node) → Forest
  | [] => .nil
  | (name, n) :: rest => .cons name n (Forest.ofList rest)

def Node.isDir : Node → Bool
  | .dir _ _ => true
  | _ => false

/-- What `read_dir` on this node yields.  On a non-directory `read_dir` fails, the error is
logged and `visit_next_directory` returns without adding anything. -/
def Node.kids : Node → Forest
  | .dir _ kids => kids
  | _ => .nil

def Node.fsMeta : Node → FsMeta
  | .file m _ _ => m
  | .symlink m _ => m
  | .dir m _ => m

/-- `entry_from_fs_metadata`. -/
def Node.entry (n : Node) (apath : Str) : SrcEntry :=
  match n with
  | .file m size content =>
    { apath, kind := .file, mtimeNs := m.mtimeNs, unixMode := m.unixMode, user := m.user,
      group := m.group, size, content }
  | .symlink m target =>
    { apath, kind := .symlink, mtimeNs := m.mtimeNs, unixMode := m.unixMode, user := m.user,
      group := m.group, target := some target }
  | .dir m _ =>
    { apath, kind := .dir, mtimeNs := m.mtimeNs, unixMode := m.unixMode, user := m.user,
      group := m.group }

mutual
def Node.size : Node → Nat
  | .dir _ kids => 1 + kids.size
  | _ => 1
def Forest.size : Forest → Nat
  | .nil => 0
  | .cons _ n rest => n.size + rest.size
end

/-! ### Sorting

`sort_unstable` / `sort_unstable_by` are modelled by insertion sort (structurally recursive,
so that closed examples evaluate in the kernel).  On lists whose keys are pairwise distinct —
which is the case for every real directory — all correct sorts return the same list
(`Conserve.sortBy_eq_of_perm`). -/

def insertBy {α : Type} (le : α → α → Bool) (x : α) : List α → List α
  | [] => [x]
  | y :: ys => if le x y then x :: y :: ys else y :: insertBy le x ys

def sortBy {α : Type} (le : α → α → Bool) : List α → List α
  | [] => []
  | x :: xs => insertBy le x (sortBy le xs)



/-! ### The iterator as written -/

/-- The `for dir_entry in dir_iter` loop of `visit_next_directory`: the `children`
vector of (name, entry) and the `subdir_apaths` vector, both in `read_dir` order.
The exclusion test on the child apath comes before anything else.  A subdirectory apath is
paired with the listing that the later `read_dir` on it will return. -/
def scanDir (excl : Str → Bool) (parent : Str) :
    Forest → List (Str × SrcEntry) × List (Str × Forest)
  | .nil => ([], [])
  | .cons name n rest =>
    let r := scanDir excl parent rest
    let childApath := apathAppend parent name
    if excl childApath then r
    else ((name, n.entry childApath) :: r.1,
          if n.isDir then (childApath, n.kids) :: r.2 else r.2)

/-- `for a in subdir_apaths.into_iter().rev() { dir_deque.push_front(a) }`. -/
def pushFrontRev {α : Type} (xs : List α) (deque : List α) : List α :=
  xs.reverse.foldl (fun dq a => a :: dq) deque

/-- `visit_next_directory(parent)`; `listing` is what `read_dir(parent)` returns.
Result: the new (entry_deque, dir_deque). -/
def visitNextDirectory (excl : Str → Bool) (parent : Str) (listing : Forest)
    (entryDeque : List SrcEntry) (dirDeque : List (Str × Forest)) :
    List SrcEntry × List (Str × Forest) :=
  let r := scanDir excl parent listing
  let subdirs := sortBy (fun a b => apathLe a.1 b.1) r.2          -- subdir_apaths.sort_unstable()
  let dirDeque := pushFrontRev subdirs dirDeque
  let children := sortBy (fun a b => strLe a.1 b.1) r.1           -- sort_unstable_by name
  (entryDeque ++ children.map (·.2), dirDeque)

/-- Repeated `Iterator::next` until it returns `None`, collecting the entries.  Each unit of
fuel is one turn of the `loop` in `next`: pop an entry, or pop and visit a directory. -/
def iterRun (excl : Str → Bool) : Nat → List SrcEntry → List (Str × Forest) → List SrcEntry
  | 0, _, _ => []
  | fuel + 1, e :: es, ds => e :: iterRun excl fuel es ds
  | fuel + 1, [], (parent, listing) :: ds =>
    let st := visitNextDirectory excl parent listing [] ds
    iterRun excl fuel st.1 st.2
  | _ + 1, [], [] => []

/-- Fuel that always suffices (`Conserve.C11.iterRun_fuel_irrelevant`): at most one turn per
emitted entry, one per visited directory, one to see both deques empty. -/
def walkFuel (root : Node) : Nat := 2 * root.size + 2

/-- `Iter::new(root, "/", excl)` then collect: the root entry is preloaded (and never tested
against `excl`), the root is the first directory to visit.

Only a directory root corresponds to a successful `iter_entries`: `Iter::new` lstats
`Apath("/").below(root)` = the root path with a trailing slash, so a root that is a file or a
symlink to a file makes `iter_entries` return `Err`, and a root that is a symlink to a
directory is seen as that directory.  For a non-directory root this function describes what
the loop would do had `Iter::new` succeeded (the root entry alone). -/
def walkDeque (root : Node) (excl : Str → Bool) : List SrcEntry :=
  iterRun excl (walkFuel root) [root.entry [slash]] [([slash], root.kids)]

/-! ### The recursive specification -/

/-- A non-excluded child (name, node) together with the walk of what is below it. -/
abbrev Item := (Str × Node) × List SrcEntry

/-- Children sorted by name, then what is below each child directory, in apath order. -/
def assemble (parent : Str) (its : List Item) : List SrcEntry :=
  (sortBy (fun a b => strLe a.1.1 b.1.1) its).map
      (fun i => i.1.2.entry (apathAppend parent i.1.1))
    ++ (sortBy (fun a b => apathLe (apathAppend parent a.1.1) (apathAppend parent b.1.1))
          (its.filter (·.1.2.isDir))).flatMap (·.2)

mutual
/-- The walk of everything strictly below node `n` whose apath is `ap`. -/
def Node.walkBelow (excl : Str → Bool) : Node → Str → List SrcEntry
  | .dir _ kids, ap => assemble ap (kids.items excl ap)
  | .file _ _ _, _ => []
  | .symlink _ _, _ => []
/-- The non-excluded children of the directory `ap`, each with the walk below it. -/
def Forest.items (excl : Str → Bool) : Forest → Str → List Item
  | .nil, _ => []
  | .cons name n rest, ap =>
    if excl (apathAppend ap name) then rest.items excl ap
    else ((name, n), n.walkBelow excl (apathAppend ap name)) :: rest.items excl ap
end

/-- The walk below directory `ap` whose listing is `f`. -/
def Forest.walkBelow (excl : Str → Bool) (f : Forest) (ap : Str) : List SrcEntry :=
  assemble ap (f.items excl ap)

def walkRec (root : Node) (excl : Str → Bool) : List SrcEntry :=
  root.entry [slash] :: root.walkBelow excl [slash]

/-! ### Well-formed trees -/

/-- A name `read_dir` can return and `Apath` accepts: non-empty, no '/', no NUL, not "." or "..". -/
def goodName (s : Str) : Bool :=
  !s.isEmpty && !s.contains slash && !s.contains 0 && s != [dot] && s != [dot, dot]

def Forest.hasName (name : Str) : Forest → Bool
  | .nil => false
  | .cons nm _ rest => nm == name || rest.hasName name

mutual
def Node.WF : Node → Bool
  | .dir _ kids => kids.WF
  | .file _ _ _ => true
  | .symlink _ _ => true
def Forest.WF : Forest → Bool
  | .nil => true
  | .cons name n rest => goodName name && !rest.hasName name && n.WF && rest.WF
end

/-! ### Relations used in the statements about the walk -/

/-- `a` is a proper ancestor directory of `p`, by whole components. -/
def StrictDesc (a p : Str) : Prop := isAncestorOrSelf a p = true ∧ a ≠ p

instance (a p : Str) : Decidable (StrictDesc a p) := by unfold StrictDesc; infer_instance

/-- Two listings are the same up to the order in which `read_dir` returns the names, here and
in every directory below. -/
inductive Forest.PermEq : Forest → Forest → Prop
  | nil : PermEq .nil .nil
  | cons (name : Str) (n : Node) {r₁ r₂ : Forest} :
      PermEq r₁ r₂ → PermEq (.cons name n r₁) (.cons name n r₂)
  | consDir (name : Str) (m : FsMeta) {k₁ k₂ r₁ r₂ : Forest} :
      PermEq k₁ k₂ → PermEq r₁ r₂ → PermEq (.cons name (.dir m k₁) r₁) (.cons name (.dir m k₂) r₂)
  | swap (a : Str) (n : Node) (b : Str) (m : Node) (r : Forest) :
      PermEq (.cons a n (.cons b m r)) (.cons b m (.cons a n r))
  | trans {f g h : Forest} : PermEq f g → PermEq g h → PermEq f h

/-- Two trees are the same up to the order of every directory listing. -/
def Node.PermEq (a b : Node) : Prop :=
  a = b ∨ ∃ m k₁ k₂, a = .dir m k₁ ∧ b = .dir m k₂ ∧ Forest.PermEq k₁ k₂

end Conserve
