/-
BLAKE2b-512, unkeyed (RFC 7693), as an executable model.

conserve names a block by the BLAKE2b-512 hash of its uncompressed content
(/repo/src/blockhash.rs `BlockHash::hash_bytes`: `blake2b(BLAKE_HASH_SIZE_BYTES = 64, &[], bytes)`,
crate blake2-rfc) and stores it under the 128 lowercase hex characters of that hash
(`impl Display for BlockHash`: `hex::encode`).

No imports: core only.  Everything is total and structurally recursive (folds over fixed tables and a
fuel-indexed block loop), no `partial`, no well-founded recursion, so it also reduces in the kernel.
Compiled, the state and message words are `Array UInt64`, the input is converted once to a zero-padded
`ByteArray`, and the 128-byte blocks are processed in a tail-recursive loop.
-/
namespace Conserve
namespace Blake2b

/-- RFC 7693 §2.6: initialisation vector (the SHA-512 IV). -/
def iv : Array UInt64 := #[
  0x6a09e667f3bcc908, 0xbb67ae8584caa73b, 0x3c6ef372fe94f82b, 0xa54ff53a5f1d36f1,
  0x510e527fade682d1, 0x9b05688c2b3e6c1f, 0x1f83d9abfb41bd6b, 0x5be0cd19137e2179]

/-- RFC 7693 §2.7: message word schedule; BLAKE2b has 12 rounds, rounds 10 and 11 reuse rows 0 and 1. -/
def sigma : Array (Array Nat) := #[
  #[ 0,  1,  2,  3,  4,  5,  6,  7,  8,  9, 10, 11, 12, 13, 14, 15],
  #[14, 10,  4,  8,  9, 15, 13,  6,  1, 12,  0,  2, 11,  7,  5,  3],
  #[11,  8, 12,  0,  5,  2, 15, 13, 10, 14,  3,  6,  7,  1,  9,  4],
  #[ 7,  9,  3,  1, 13, 12, 11, 14,  2,  6,  5, 10,  4,  0, 15,  8],
  #[ 9,  0,  5,  7,  2,  4, 10, 15, 14,  1, 11, 12,  6,  8,  3, 13],
  #[ 2, 12,  6, 10,  0, 11,  8,  3,  4, 13,  7,  5, 15, 14,  1,  9],
  #[12,  5,  1, 15, 14, 13,  4, 10,  0,  7,  6,  3,  9,  2,  8, 11],
  #[13, 11,  7, 14, 12,  1,  3,  9,  5,  0, 15,  4,  8,  6,  2, 10],
  #[ 6, 15, 14,  9, 11,  3,  0,  8, 12,  2, 13,  7,  1,  4, 10,  5],
  #[10,  2,  8,  4,  7,  6,  1,  5, 15, 11,  9, 14,  3, 12, 13,  0],
  #[ 0,  1,  2,  3,  4,  5,  6,  7,  8,  9, 10, 11, 12, 13, 14, 15],
  #[14, 10,  4,  8,  9, 15, 13,  6,  1, 12,  0,  2, 11,  7,  5,  3]]

/-- Rotate right by `n`, `0 < n < 64`. -/
@[inline] def rotr (x n : UInt64) : UInt64 := (x >>> n) ||| (x <<< (64 - n))

/-- RFC 7693 §3.1: the mixing function G, rotations 32, 24, 16, 63. -/
@[inline] def g (v : Array UInt64) (a b c d : Nat) (x y : UInt64) : Array UInt64 :=
  let va := v[a]!
  let vb := v[b]!
  let vc := v[c]!
  let vd := v[d]!
  let va := va + vb + x
  let vd := rotr (vd ^^^ va) 32
  let vc := vc + vd
  let vb := rotr (vb ^^^ vc) 24
  let va := va + vb + y
  let vd := rotr (vd ^^^ va) 16
  let vc := vc + vd
  let vb := rotr (vb ^^^ vc) 63
  (((v.set! a va).set! b vb).set! c vc).set! d vd

/-- One round: four column steps, then four diagonal steps, message words chosen by the row `s` of `sigma`. -/
def round (m : Array UInt64) (v : Array UInt64) (s : Array Nat) : Array UInt64 :=
  let v := g v 0 4  8 12 m[s[ 0]!]! m[s[ 1]!]!
  let v := g v 1 5  9 13 m[s[ 2]!]! m[s[ 3]!]!
  let v := g v 2 6 10 14 m[s[ 4]!]! m[s[ 5]!]!
  let v := g v 3 7 11 15 m[s[ 6]!]! m[s[ 7]!]!
  let v := g v 0 5 10 15 m[s[ 8]!]! m[s[ 9]!]!
  let v := g v 1 6 11 12 m[s[10]!]! m[s[11]!]!
  let v := g v 2 7  8 13 m[s[12]!]! m[s[13]!]!
  let v := g v 3 4  9 14 m[s[14]!]! m[s[15]!]!
  v

/-- RFC 7693 §3.2: compression function F.  `h`: 8 chaining words, `m`: 16 message words,
`t0`/`t1`: low/high word of the 128-bit byte counter, `last`: final-block flag (f0 = all ones). -/
def compress (h m : Array UInt64) (t0 t1 : UInt64) (last : Bool) : Array UInt64 :=
  let v : Array UInt64 := h ++ iv
  let v := v.set! 12 (v[12]! ^^^ t0)
  let v := v.set! 13 (v[13]! ^^^ t1)
  let v := if last then v.set! 14 (v[14]! ^^^ 0xFFFFFFFFFFFFFFFF) else v
  let v := sigma.foldl (round m) v
  Array.ofFn (n := 8) fun i => h[i.val]! ^^^ v[i.val]! ^^^ v[i.val + 8]!

@[inline] def byteAt (data : ByteArray) (i : Nat) : UInt64 := (data.get! i).toUInt64

/-- Little-endian 64-bit word at byte offset `off`. -/
@[inline] def loadWord (data : ByteArray) (off : Nat) : UInt64 :=
  byteAt data off
    ||| (byteAt data (off + 1) <<< 8)
    ||| (byteAt data (off + 2) <<< 16)
    ||| (byteAt data (off + 3) <<< 24)
    ||| (byteAt data (off + 4) <<< 32)
    ||| (byteAt data (off + 5) <<< 40)
    ||| (byteAt data (off + 6) <<< 48)
    ||| (byteAt data (off + 7) <<< 56)

/-- The 16 message words of the 128-byte block starting at byte offset `off`. -/
def loadBlock (data : ByteArray) (off : Nat) : Array UInt64 :=
  Array.ofFn (n := 16) fun i => loadWord data (off + 8 * i.val)

/-- Number of 128-byte blocks for a message of `len` bytes: at least one (the empty message is one
all-zero block), and a positive multiple of 128 does not get an extra empty block. -/
def numBlocks (len : Nat) : Nat := if len = 0 then 1 else (len + 127) / 128

/-- Parameter block for digest length 64, key length 0, fanout 1, depth 1: `h[0] ^= 0x01010000 ^ 64`. -/
def initState : Array UInt64 := iv.set! 0 (iv[0]! ^^^ 0x01010040)

/-- Process blocks `i, i+1, …, i+k-1` of the zero-padded `data`; the last of them is the final block,
whose counter is the true message length `len`; every earlier block `j` has counter `128 * (j + 1)`. -/
def blocks (data : ByteArray) (len : Nat) : (k i : Nat) → Array UInt64 → Array UInt64
  | 0, _, h => h
  | k + 1, i, h =>
    let last := k == 0
    let t := if last then len else 128 * (i + 1)
    blocks data len k (i + 1)
      (compress h (loadBlock data (128 * i)) t.toUInt64 (t / 18446744073709551616).toUInt64 last)

/-- `msg` as bytes, followed by zeros up to `total` bytes. -/
def padded (msg : List Nat) (total : Nat) : ByteArray :=
  let data := msg.foldl (fun acc b => acc.push b.toUInt8) (ByteArray.emptyWithCapacity total)
  Nat.fold (total - data.size) (fun _ _ acc => acc.push 0) data

/-- The 8 bytes of `w`, little-endian, consed onto `acc`. -/
def wordBytes (w : UInt64) (acc : List Nat) : List Nat :=
  (w &&& 0xff).toNat :: ((w >>> 8) &&& 0xff).toNat :: ((w >>> 16) &&& 0xff).toNat ::
  ((w >>> 24) &&& 0xff).toNat :: ((w >>> 32) &&& 0xff).toNat :: ((w >>> 40) &&& 0xff).toNat ::
  ((w >>> 48) &&& 0xff).toNat :: (w >>> 56).toNat :: acc

/-- ASCII code of the lowercase hex digit for `n < 16`. -/
def hexDigitCode (n : Nat) : Nat := if n < 10 then 48 + n else 87 + n

end Blake2b

open Blake2b in
/-- BLAKE2b-512, unkeyed: bytes in (each < 256), 64 bytes out. -/
def blake2b512 (msg : List Nat) : List Nat :=
  let len := msg.length
  let nb := numBlocks len
  let h := blocks (padded msg (128 * nb)) len nb 0 initState
  h.foldr wordBytes []

open Blake2b in
/-- 128 lowercase hex characters as bytes (ASCII codes), i.e. the file name conserve gives a block. -/
def blake2bHex (msg : List Nat) : List Nat :=
  (blake2b512 msg).flatMap fun b => [hexDigitCode (b / 16), hexDigitCode (b % 16)]

end Conserve
