import ConserveModel.Validate
/-
Interleavings: two programs sharing one store, advanced one storage operation at a time
according to a schedule.  An actor is always either finished or parked *before* its next
storage operation, which is how the real harness parks the two threads.
-/
namespace Conserve

structure Actor (α : Type) where
  prog : Prog α
  trace : List TraceEv := []        -- newest first
  events : List Event := []         -- newest first
  deriving Inhabited

/-- Run through `emit`s until the program is at an operation or finished. -/
def Actor.settle {α : Type} : Prog α → List Event → Prog α × List Event
  | .emit ev k, evs => Actor.settle k (ev :: evs)
  | p, evs => (p, evs)

def Actor.start {α : Type} (p : Prog α) : Actor α :=
  let (p', evs) := Actor.settle p []
  { prog := p', events := evs }

def Actor.finished {α : Type} (a : Actor α) : Bool :=
  match a.prog with
  | .op _ _ => false
  | _ => true

/-- Perform the actor's pending operation on the shared store (no faults, no crash). -/
def Actor.step {α : Type} (enforce : Bool) (s : Store) (a : Actor α) : Store × Actor α :=
  match a.prog with
  | .op o k =>
    let (s', r) := applyOp enforce s o
    let (p', evs) := Actor.settle (k r) a.events
    (s', { prog := p', trace := ⟨o, r⟩ :: a.trace, events := evs })
  | _ => (s, a)

/-- Run an actor to completion on its own. -/
def Actor.finish {α : Type} (enforce : Bool) (s : Store) (a : Actor α) : Store × Actor α :=
  let w : World := { store := s, enforceCreateNew := enforce }
  let (out, w') := a.prog.run w
  let p' : Prog α := match out with
    | .ok x => .ret x
    | .err e => .fail e
    | .panic site => .panic site
  (w'.store, { prog := p', trace := w'.trace ++ a.trace, events := w'.events ++ a.events })

def Actor.outcome {α : Type} (a : Actor α) : Option (Outcome α) :=
  match a.prog with
  | .ret x => some (.ok x)
  | .fail e => some (.err e)
  | .panic s => some (.panic s)
  | _ => none

/-- Follow the schedule (`false` = actor A moves, `true` = actor B moves; a finished actor's
turns are skipped), then let A run to completion, then B. -/
def runSched {α β : Type} (enforce : Bool) : List Bool → Store → Actor α → Actor β → Store × Actor α × Actor β
  | [], s, a, b =>
    let (s1, a') := a.finish enforce s
    let (s2, b') := b.finish enforce s1
    (s2, a', b')
  | false :: rest, s, a, b =>
    let (s', a') := a.step enforce s
    runSched enforce rest s' a' b
  | true :: rest, s, a, b =>
    let (s', b') := b.step enforce s
    runSched enforce rest s' a b'

end Conserve
