import ConserveModel.Proofs.FrameOps
/-
"What does X return on a clean world" lemmas.  A world is `Clean` when it has no injected
faults, no crash point, is alive and honours `CreateNew` (`World.clean s` is one; so is every world
reached from it).  On such a world `exec` is `applyOp`, and the readers of Archive.lean /
IndexRead.lean return what the store says.
-/
namespace Conserve
open Prog

/-- Fault-free, crash-free, alive, `CreateNew` honoured. -/
def World.Clean (w : World) : Prop :=
  w.enforceCreateNew = true ∧ w.faults = [] ∧ w.crashAt = none ∧ w.dead = false

theorem World.clean_Clean (s : Store) : (World.clean s).Clean := ⟨rfl, rfl, rfl, rfl⟩

@[simp] theorem World.clean_store (s : Store) : (World.clean s).store = s := rfl

/-- On a clean world `exec` applies the operation and records it. -/
theorem World.exec_clean {w : World} (h : w.Clean) (o : Op) :
    w.exec o = ({ w with store := (applyOp true w.store o).1, steps := (w.exec o).1.steps,
                         trace := ⟨o, (applyOp true w.store o).2⟩ :: w.trace },
                (applyOp true w.store o).2) := by
  obtain ⟨he, hf, hc, hd⟩ := h
  have hff : w.faultFor o = none := by simp [World.faultFor, hf]
  have hcc : ∀ n, w.crashesAt n = false := by intro n; simp [World.crashesAt, hc]
  by_cases hm : o.isMutating = true
  · cases o with
    | write k v m =>
      rw [World.exec_write_eq w k v m hd hff (hcc _)]
      rcases applyOp_write_store true w.store k v m with ⟨hr, hs⟩ | ⟨⟨err, hr⟩, hs⟩
      · simp [he, hr, hs, hcc]
      · simp [he, hr, hs]
    | createDir k => simp [World.exec, hd, hff, Op.isMutating, hcc, he]
    | removeFile k => simp [World.exec, hd, hff, Op.isMutating, hcc, he]
    | removeDirAll k => simp [World.exec, hd, hff, Op.isMutating, hcc, he]
    | read k => simp [Op.isMutating] at hm
    | listDir k => simp [Op.isMutating] at hm
    | metadata k => simp [Op.isMutating] at hm
  · have hro : ReadOnly o := by cases o <;> simp_all [Op.isMutating, ReadOnly]
    simp [World.exec, hd, hff, hm, he, applyOp_readOnly_store hro]

theorem World.exec_clean_resp {w : World} (h : w.Clean) (o : Op) : (w.exec o).2 = (applyOp true w.store o).2 := by
  rw [World.exec_clean h o]

theorem World.exec_clean_store {w : World} (h : w.Clean) (o : Op) :
    (w.exec o).1.store = (applyOp true w.store o).1 := by
  rw [World.exec_clean h o]

theorem World.exec_clean_Clean {w : World} (h : w.Clean) (o : Op) : (w.exec o).1.Clean := by
  rw [World.exec_clean h o]; exact h

/-- Every world reached from a clean world is clean. -/
theorem Prog.run_clean {α : Type} (p : Prog α) {w : World} (h : w.Clean) : (p.run w).2.Clean := by
  induction p generalizing w with
  | ret a => exact h
  | fail e => exact h
  | panic s => exact h
  | emit ev k ih => exact ih (w := { w with events := ev :: w.events }) h
  | op o k ih => rw [Prog.run_op]; exact ih _ (World.exec_clean_Clean h o)

/-- Sequencing when the first part is known to return. -/
theorem Prog.run_bind_ok {α β : Type} {p : Prog α} {f : α → Prog β} {w : World} {a : α}
    (h : (p.run w).1 = .ok a) : (p.bind f).run w = (f a).run (p.run w).2 := by
  rw [Prog.run_bind]
  rcases hp : p.run w with ⟨out, w'⟩
  rw [hp] at h
  simp only at h
  subst h
  rfl

theorem Prog.run_bind_err {α β : Type} {p : Prog α} {f : α → Prog β} {w : World} {e : Err}
    (h : (p.run w).1 = .err e) : (p.bind f).run w = (.err e, (p.run w).2) := by
  rw [Prog.run_bind]
  rcases hp : p.run w with ⟨out, w'⟩
  rw [hp] at h
  simp only at h
  subst h
  rfl

/-- If a sequence returns, its first part returned. -/
theorem Prog.run_bind_ok_inv {α β : Type} {p : Prog α} {f : α → Prog β} {w : World} {b : β}
    (h : ((p.bind f).run w).1 = .ok b) :
    ∃ a, (p.run w).1 = .ok a ∧ ((f a).run (p.run w).2).1 = .ok b := by
  rw [Prog.run_bind] at h
  rcases hp : p.run w with ⟨out, w'⟩
  rw [hp] at h
  cases out with
  | ok a => exact ⟨a, rfl, h⟩
  | err e => cases h
  | panic s => cases h

/-! ### Listings -/

/-- Band ids a root listing shows (what `listBandIds` computes from the response). -/
def listingBandIds (xs : List DirEnt) : List Nat :=
  sortNat <| xs.filterMap fun e =>
    match e.key with
    | .bandDir b => if e.isDir then some b else none
    | _ => none

theorem filterMap_map_filter {α β γ : Type} (p : α → Bool) (f : α → β) (g : β → Option γ) (h : α → Option γ)
    (hh : ∀ a, (if p a then g (f a) else none) = h a) (l : List α) :
    ((l.filter p).map f).filterMap g = l.filterMap h := by
  induction l with
  | nil => rfl
  | cons a l ih =>
    have := hh a
    by_cases hp : p a = true
    · simp only [hp, if_true] at this
      simp [hp, List.filterMap_cons, this, ih]
    · simp only [hp] at this
      simp [hp, ← this, ih]

theorem listingBandIds_children_root (s : Store) : listingBandIds (s.children .root) = bandIdsOf s := by
  unfold listingBandIds bandIdsOf Store.children
  congr 1
  apply filterMap_map_filter
  rintro ⟨k, v⟩
  cases k <;> simp [Key.parent]
  cases v <;> simp [FileVal.isDir]

/-- Response of `listDir root` on a store whose root is a directory. -/
theorem applyOp_listDir_root {e : Bool} {s : Store} (h : s.get? .root = some .dir) :
    (applyOp e s (.listDir .root)).2 = .listing (s.children .root) := by
  simp [applyOp, h]

/-- `listBandIds` in any world: it returns exactly when the listing came back, with the ids shown. -/
theorem listBandIds_run_ok {w : World} {ids : List Nat} (h : (listBandIds.run w).1 = .ok ids) :
    ∃ xs, (w.exec (.listDir .root)).2 = .listing xs ∧ ids = listingBandIds xs := by
  unfold listBandIds at h
  simp only [Prog.bind_def, Prog.perform, Prog.op_bind, Prog.run_op, Prog.ret_bind] at h
  split at h
  · rename_i xs hx
    refine ⟨xs, hx, ?_⟩
    simp only [Prog.pure_def, Prog.run_ret, Outcome.ok.injEq] at h
    exact h.symm
  · simp at h
  · simp at h

/-- On a clean world whose root is a directory, `listBandIds` returns `bandIdsOf`. -/
theorem listBandIds_run_clean {w : World} (h : w.Clean) (hroot : w.store.get? .root = some .dir) :
    (listBandIds.run w).1 = .ok (bandIdsOf w.store) := by
  unfold listBandIds
  simp only [Prog.bind_def, Prog.perform, Prog.op_bind, Prog.run_op, Prog.ret_bind]
  rw [World.exec_clean_resp h, applyOp_listDir_root hroot]
  simp only [Prog.pure_def, Prog.run_ret]
  exact congrArg _ (listingBandIds_children_root w.store)

theorem lastBandId_run_clean {w : World} (h : w.Clean) (hroot : w.store.get? .root = some .dir) :
    (lastBandId.run w).1 = .ok (maxNat? (bandIdsOf w.store)) := by
  unfold lastBandId
  simp only [Prog.bind_def]
  rw [Prog.run_bind_ok (listBandIds_run_clean h hroot)]
  rfl

/-! ### Single-file readers -/

/-- `isFile` on a clean world: is there something at `k` that is not a directory? -/
theorem isFile_run_clean {w : World} (h : w.Clean) (k : Key) :
    ((isFile k).run w).1 = .ok (match w.store.get? k with | some v => !v.isDir | none => false) := by
  unfold isFile
  simp only [Prog.bind_def, Prog.perform, Prog.op_bind, Prog.run_op, Prog.ret_bind]
  rw [World.exec_clean_resp h]
  simp only [applyOp]
  cases w.store.get? k <;> simp

/-- `bandIsClosed` on a clean world is `isComplete`. -/
theorem bandIsClosed_run_clean {w : World} (h : w.Clean) (b : Nat) :
    ((bandIsClosed b).run w).1 = .ok (isComplete w.store b) := by
  unfold bandIsClosed isComplete
  exact isFile_run_clean h _

theorem bandExists_run_clean {w : World} (h : w.Clean) (b : Nat) :
    ((bandExists b).run w).1 =
      .ok (match w.store.get? (.bandHead b) with | some v => !v.isDir | none => false) :=
  isFile_run_clean h _

theorem gcIsLocked_run_clean {w : World} (h : w.Clean) :
    (gcIsLocked.run w).1 = .ok (match w.store.get? .gcLock with | some v => !v.isDir | none => false) :=
  isFile_run_clean h _

/-- `unwrapOr` of a program that returns. -/
theorem unwrapOr_run_ok {α : Type} {p : Prog α} {w : World} {a : α} (d : α) (h : (p.run w).1 = .ok a) :
    ((unwrapOr p d).run w).1 = .ok a ∧ ((unwrapOr p d).run w).2 = (p.run w).2 := by
  unfold unwrapOr
  simp only [Prog.bind_def]
  rw [Prog.run_bind, Prog.run_attempt]
  rcases hp : p.run w with ⟨out, w'⟩
  rw [hp] at h
  simp only at h
  subst h
  exact ⟨rfl, rfl⟩

theorem archiveOpen_run_clean {w : World} (h : w.Clean)
    (hh : w.store.get? .header = some (.header [48, 46, 54])) : (archiveOpen.run w).1 = .ok () := by
  unfold archiveOpen
  simp only [Prog.bind_def, Prog.perform, Prog.op_bind, Prog.run_op, Prog.ret_bind]
  rw [World.exec_clean_resp h]
  simp [applyOp, hh]

/-- A well-formed band head opens. -/
theorem bandOpen_run_clean {w : World} (h : w.Clean) {b : Nat} {ver : VerClass}
    (hh : w.store.get? (.bandHead b) = some (.head ver [])) (hv : ver = .ok ∨ ver = .absent) :
    ((bandOpen b).run w).1 = .ok () := by
  unfold bandOpen
  simp only [Prog.bind_def, Prog.perform, Prog.op_bind, Prog.run_op, Prog.ret_bind]
  rw [World.exec_clean_resp h]
  rcases hv with rfl | rfl <;> simp [applyOp, hh]

/-- `readHunk` on a clean world: a decodable hunk whose entries are all usable is returned, a
missing file is `none`. -/
theorem readHunk_run_clean_some {w : World} (h : w.Clean) {b n : Nat} {es : List IndexEntry}
    (hh : hunkAt w.store b n = some es) (hu : es.all entryUsable = true) :
    ((readHunk b n).run w).1 = .ok (some es) := by
  unfold readHunk
  simp only [Prog.bind_def, Prog.perform, Prog.op_bind, Prog.run_op, Prog.ret_bind]
  rw [World.exec_clean_resp h]
  unfold hunkAt at hh
  split at hh
  · rename_i es' hg
    cases hh
    simp [applyOp, hg, hu]
  · cases hh

theorem readHunk_run_clean_none {w : World} (h : w.Clean) {b n : Nat}
    (hh : w.store.get? (.hunk b n) = none) : ((readHunk b n).run w).1 = .ok none := by
  unfold readHunk
  simp only [Prog.bind_def, Prog.perform, Prog.op_bind, Prog.run_op, Prog.ret_bind]
  rw [World.exec_clean_resp h]
  simp [applyOp, hh]

/-- Read-only programs on a clean world: same store, still clean. -/
theorem Prog.run_readOnly_clean {α : Type} {p : Prog α} (hp : Prog.AllOps ReadOnly p) {w : World} (h : w.Clean) :
    (p.run w).2.store = w.store ∧ (p.run w).2.Clean :=
  ⟨Prog.run_readOnly_store hp w, Prog.run_clean p h⟩

/-! ### `maxNat?` -/

theorem foldl_max_ge (xs : List Nat) (x : Nat) : x ≤ xs.foldl max x ∧ ∀ y ∈ xs, y ≤ xs.foldl max x := by
  induction xs generalizing x with
  | nil => simp
  | cons a xs ih =>
    simp only [List.foldl_cons, List.mem_cons]
    obtain ⟨h1, h2⟩ := ih (max x a)
    refine ⟨by omega, ?_⟩
    rintro y (rfl | hy)
    · omega
    · exact h2 y hy

theorem maxNat?_none {xs : List Nat} (h : maxNat? xs = none) : xs = [] := by
  cases xs <;> simp_all [maxNat?]

theorem maxNat?_ge {xs : List Nat} {m : Nat} (h : maxNat? xs = some m) : ∀ y ∈ xs, y ≤ m := by
  cases xs with
  | nil => simp [maxNat?] at h
  | cons x xs =>
    simp only [maxNat?, Option.some.injEq] at h
    subst h
    intro y hy
    rcases List.mem_cons.mp hy with rfl | hy
    · exact (foldl_max_ge xs _).1
    · exact (foldl_max_ge xs _).2 y hy

theorem foldl_max_mem (xs : List Nat) (x : Nat) : xs.foldl max x = x ∨ xs.foldl max x ∈ xs := by
  induction xs generalizing x with
  | nil => simp
  | cons a xs ih =>
    simp only [List.foldl_cons, List.mem_cons]
    rcases ih (max x a) with h | h
    · rw [h]
      rcases Nat.le_total x a with hxa | hxa
      · right; left; omega
      · left; omega
    · right; right; exact h

theorem maxNat?_mem {xs : List Nat} {m : Nat} (h : maxNat? xs = some m) : m ∈ xs := by
  cases xs with
  | nil => simp [maxNat?] at h
  | cons x xs =>
    simp only [maxNat?, Option.some.injEq] at h
    subst h
    rcases foldl_max_mem xs x with h | h
    · rw [h]; simp
    · simp [h]

/-- The id `bandCreate` picks from a list of existing ids. -/
def nextBandId (ids : List Nat) : Nat :=
  match maxNat? ids with
  | none => 0
  | some l => l + 1

theorem nextBandId_gt (ids : List Nat) : ∀ b ∈ ids, b < nextBandId ids := by
  intro b hb
  unfold nextBandId
  cases h : maxNat? ids with
  | none => rw [maxNat?_none h] at hb; simp at hb
  | some m => have := maxNat?_ge h b hb; simp only; omega

end Conserve
