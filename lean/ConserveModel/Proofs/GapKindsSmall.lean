import ConserveModel.Proofs.ProducedBackup
/-
C14p residuals, part 2: `BlocksSmall` — every block shorter than 2^64 bytes — ALONE is kept by
`backup` in EVERY world, provided the contents of the source's regular files add up to less than
2^64 bytes (`srcBytes src < u64`), and by `delete_bands` in every world unconditionally.

`Rng.backup_irs` proves this together with `entriesInRange` and needs `entriesInRange` of the store
and representable source times; neither matters for the length of a block: a block is either a
chunk of one file (`chunks_le`) or the combiner's buffer, which holds a concatenation of (prefixes
of) distinct source files — also after a failed flush, when the buffer is put back and keeps growing,
which is why the bound is on the SUM of the file sizes and not on `maxBlockSize + smallFileCap`.
The Hoare logic `BSat` is `Rng.RSat` with store invariant `BlocksSmall` and the writer invariant cut
down to `WB`: buffer length + bytes still to be read < 2^64.  No property statements here.
-/
namespace Conserve.Gaps.Kinds
open Conserve Conserve.Inv Conserve.Conf Conserve.Rng Prog

/-! ### Programs built from `SmallOp` operations -/

/-- A program all of whose operations are `SmallOp` keeps `BlocksSmall`, in every world. -/
theorem run_small {α : Type} {p : Prog α} (hp : Prog.AllOps SmallOp p) (w : World)
    (h : Exact.BlocksSmall w.store) : Exact.BlocksSmall (p.run w).2.store :=
  Prog.run_world_inv (P := SmallOp) (I := fun w' => Exact.BlocksSmall w'.store)
    (fun _ _ h => h) (fun w' _ ho h' => exec_small w' ho h') hp w h

theorem AllOps.good_small {α : Type} {p : Prog α} (h : Prog.AllOps GoodOp p) : Prog.AllOps SmallOp p :=
  h.mono fun _ ho => ho.2

theorem AllOps.ndw_small {α : Type} {p : Prog α} (h : Prog.AllOps NoDataWrite p) : Prog.AllOps SmallOp p :=
  AllOps.good_small (AllOps.ndw_good h)

theorem AllOps.ro_small {α : Type} {p : Prog α} (h : Prog.AllOps ReadOnly p) : Prog.AllOps SmallOp p :=
  AllOps.ndw_small (AllOps.ro_ndw h)

/-- **`delete_bands` (either mode) keeps `BlocksSmall` in every world**: it writes no block. -/
theorem delete_small (strict : Bool) (D : List Nat) (o : DeleteOpts) (w : World)
    (h : Exact.BlocksSmall w.store) : Exact.BlocksSmall ((deleteBands strict D o).run w).2.store :=
  run_small (AllOps.ndw_small (deleteBands_nhw strict D o)) w h

/-! ### The Hoare logic -/

/-- `BSat p Q`: from any world whose blocks are small, `p` ends — whatever the outcome, whatever
faults, wherever the world is killed — in a store whose blocks are small; if it returns `a`, `Q a`. -/
def BSat {α : Type} (p : Prog α) (Q : α → Prop) : Prop :=
  ∀ w : World, Exact.BlocksSmall w.store →
    Exact.BlocksSmall (p.run w).2.store ∧ ∀ a, (p.run w).1 = .ok a → Q a

namespace BSat

theorem of_ops {α : Type} {p : Prog α} {Q : α → Prop} (hp : Prog.AllOps SmallOp p) (hr : RetSpec p Q) :
    BSat p Q := fun w h => ⟨run_small hp w h, fun a ha => hr w a ha⟩

theorem ret {α : Type} {a : α} {Q : α → Prop} (h : Q a) : BSat (.ret a) Q :=
  fun _ hw => ⟨hw, fun _ h' => by cases h'; exact h⟩

theorem fail {α : Type} {e : Err} {Q : α → Prop} : BSat (.fail e : Prog α) Q :=
  fun _ hw => ⟨hw, fun _ h' => nomatch h'⟩

theorem emit {α : Type} {ev : Event} {k : Prog α} {Q : α → Prop} (h : BSat k Q) : BSat (.emit ev k) Q :=
  fun w hw => h { w with events := ev :: w.events } hw

theorem bind {α β : Type} {p : Prog α} {f : α → Prog β} {Q1 : α → Prop} {Q : β → Prop}
    (hp : BSat p Q1) (hf : ∀ a, Q1 a → BSat (f a) Q) : BSat (p.bind f) Q := by
  intro w hw
  rw [Prog.run_bind]
  obtain ⟨h1, h2⟩ := hp w hw
  cases hrun : p.run w with
  | mk out w1 =>
    rw [hrun] at h1 h2
    cases out with
    | ok a => exact hf a (h2 a rfl) w1 h1
    | err e => exact ⟨h1, fun _ h' => nomatch h'⟩
    | panic m => exact ⟨h1, fun _ h' => nomatch h'⟩

end BSat

/-! ### The writer invariant -/

/-- Buffer length plus `rem` — the bytes of the files still to be read — stays below 2^64. -/
def WB (rem : Nat) (wr : Writer) : Prop := wr.buf.length + rem < u64

theorem WB.weaken {rem rem' : Nat} {wr : Writer} (h : WB rem wr) (hle : rem' ≤ rem) : WB rem' wr := by
  unfold WB at *; omega

section
variable (H : Str → Str)

/-! ### The block-level functions: the writer they return -/

theorem combinerFlush_wb {rem : Nat} (wr : Writer) (hwr : WB rem wr) :
    RetSpec (combinerFlush H wr) (fun x => WB rem x.1) := by
  unfold combinerFlush
  simp only [Prog.bind_def, Prog.pure_def]
  split
  · exact RetSpec.ret hwr
  · refine RetSpec.bind (storeOrDedup_ret H _ _) ?_
    rintro ⟨w1, r⟩ ⟨ex, st, hw1⟩
    simp only at hw1
    subst hw1
    cases r with
    | error e => exact RetSpec.ret hwr
    | ok h =>
      refine RetSpec.ret ?_
      unfold WB at *
      simp only [List.length_nil]
      omega

theorem WB.pushQueue {rem : Nat} {wr : Writer} (o : BackupOpts) {sf : SrcEntry}
    (hwr : WB (sf.content.length + rem) wr) :
    WB rem { wr with buf := wr.buf ++ sf.content.take sf.size,
                     queue := wr.queue ++ [(wr.buf.length, (sf.content.take sf.size).length, metaOf o sf)],
                     stats := { wr.stats with smallCombinedFiles := wr.stats.smallCombinedFiles + 1 } } := by
  have hlen : (sf.content.take sf.size).length ≤ sf.content.length := by
    rw [List.length_take]; omega
  unfold WB at *
  simp only [List.length_append]
  omega

theorem combinerPush_wb {rem : Nat} (o : BackupOpts) (wr : Writer) (sf : SrcEntry)
    (hwr : WB (sf.content.length + rem) wr) :
    RetSpec (combinerPush H o wr sf) (fun x => WB rem x.1) := by
  unfold combinerPush
  simp only [metadataFrom_eq, Prog.pure_def]
  split
  · exact RetSpec.ret (hwr.weaken (by omega))
  · split
    · exact combinerFlush_wb H _ (hwr.pushQueue o)
    · exact RetSpec.ret (hwr.pushQueue o)

theorem copyFileStore_wb {rem : Nat} (o : BackupOpts) (wr : Writer) (ck : ChangeKind) (sf : SrcEntry)
    (hwr : WB (sf.content.length + rem) wr) :
    RetSpec (copyFileStore H o wr ck sf) (fun x => WB rem x.1) := by
  have hw0 : WB rem wr := hwr.weaken (by omega)
  unfold copyFileStore
  simp only [metadataFrom_eq, Prog.pure_def, Prog.bind_def]
  split
  · exact RetSpec.ret hw0
  · split
    · refine RetSpec.bind (combinerPush_wb H o wr sf hwr) ?_
      rintro ⟨w1, r⟩ hwr1
      cases r with
      | error e => exact RetSpec.ret hwr1
      | ok u => exact RetSpec.ret hwr1
    · refine RetSpec.bind (storeFileContent_addrs H o wr sf (by unfold WB at hwr; omega)) ?_
      rintro ⟨w1, r⟩ ⟨⟨ex, st, hw1⟩, _⟩
      simp only at hw1
      subst hw1
      cases r with
      | error e => exact RetSpec.ret hw0
      | ok addrs => exact RetSpec.ret hw0

theorem copyFile_wb {rem : Nat} (o : BackupOpts) (wr : Writer) (basis : Option IndexEntry) (sf : SrcEntry)
    (hwr : WB (sf.content.length + rem) wr) :
    RetSpec (copyFile H o wr basis sf) (fun x => WB rem x.1) := by
  cases basis with
  | none =>
    rw [copyFile_none]
    exact copyFileStore_wb H o _ _ sf hwr
  | some b =>
    cases hh : heuristicallyUnchanged sf b with
    | none => rw [copyFile_panic o wr b sf hh]; exact RetSpec.panic
    | some t =>
      cases t with
      | false =>
        rw [copyFile_changed o wr b sf hh]
        exact copyFileStore_wb H o _ _ sf hwr
      | true =>
        cases hall : b.addrs.all (fun a => wr.exists_.contains a.hash) with
        | false =>
          rw [copyFile_damaged o wr b sf hh hall]
          exact copyFileStore_wb H o _ _ sf hwr
        | true =>
          obtain ⟨st', ck, heq⟩ := copyFile_unchanged (H := H) o wr b sf hh hall
          rw [heq]
          exact RetSpec.ret (hwr.weaken (by omega))

theorem copyEntry_wb {rem : Nat} (o : BackupOpts) (wr : Writer) (basis : Option IndexEntry) (sf : SrcEntry)
    (hwr : WB (fileBytes sf + rem) wr) :
    RetSpec (copyEntry H o wr basis sf) (fun x => WB rem x.1) := by
  have hw0 : WB rem wr := hwr.weaken (by omega)
  unfold copyEntry
  simp only [metadataFrom_eq, Prog.pure_def]
  cases hk : sf.kind with
  | file =>
    have : fileBytes sf = sf.content.length := by simp [fileBytes, hk]
    rw [this] at hwr
    exact copyFile_wb H o wr basis sf hwr
  | dir => exact RetSpec.ret hw0
  | symlink => exact RetSpec.ret hw0
  | unknown => exact RetSpec.ret hw0

/-! ### The block-level functions: which operations they issue -/

theorem storeOrDedup_small (wr : Writer) (data : Str) (hd : data.length < u64) :
    Prog.AllOps SmallOp (storeOrDedup H wr data) :=
  AllOps.good_small (storeOrDedup_good H wr data hd)

theorem combinerFlush_small {rem : Nat} (wr : Writer) (hwr : WB rem wr) :
    Prog.AllOps SmallOp (combinerFlush H wr) := by
  unfold combinerFlush
  simp only [Prog.bind_def, Prog.pure_def]
  split
  · exact .ret _
  · refine Prog.AllOps.bind (storeOrDedup_small H _ _ (by unfold WB at hwr; omega)) ?_
    rintro ⟨w1, r⟩
    cases r <;> exact .ret _

theorem combinerPush_small {rem : Nat} (o : BackupOpts) (wr : Writer) (sf : SrcEntry)
    (hwr : WB (sf.content.length + rem) wr) :
    Prog.AllOps SmallOp (combinerPush H o wr sf) := by
  unfold combinerPush
  simp only [metadataFrom_eq, Prog.pure_def]
  split
  · exact .ret _
  · split
    · exact combinerFlush_small H _ (hwr.pushQueue o)
    · exact .ret _

theorem copyFileStore_small {rem : Nat} (o : BackupOpts) (wr : Writer) (ck : ChangeKind) (sf : SrcEntry)
    (hwr : WB (sf.content.length + rem) wr) :
    Prog.AllOps SmallOp (copyFileStore H o wr ck sf) := by
  unfold copyFileStore
  simp only [metadataFrom_eq, Prog.pure_def, Prog.bind_def]
  split
  · exact .ret _
  · split
    · refine Prog.AllOps.bind (combinerPush_small H o wr sf hwr) ?_
      rintro ⟨w1, r⟩
      cases r <;> exact .ret _
    · refine Prog.AllOps.bind
        (AllOps.good_small (storeFileContent_good H o wr sf (by unfold WB at hwr; omega))) ?_
      rintro ⟨w1, r⟩
      cases r <;> exact .ret _

theorem copyFile_small {rem : Nat} (o : BackupOpts) (wr : Writer) (basis : Option IndexEntry) (sf : SrcEntry)
    (hwr : WB (sf.content.length + rem) wr) :
    Prog.AllOps SmallOp (copyFile H o wr basis sf) := by
  cases basis with
  | none =>
    rw [copyFile_none]
    exact copyFileStore_small H o _ _ sf hwr
  | some b =>
    cases hh : heuristicallyUnchanged sf b with
    | none => rw [copyFile_panic o wr b sf hh]; exact .panic _
    | some t =>
      cases t with
      | false =>
        rw [copyFile_changed o wr b sf hh]
        exact copyFileStore_small H o _ _ sf hwr
      | true =>
        cases hall : b.addrs.all (fun a => wr.exists_.contains a.hash) with
        | false =>
          rw [copyFile_damaged o wr b sf hh hall]
          exact copyFileStore_small H o _ _ sf hwr
        | true =>
          obtain ⟨st', ck, heq⟩ := copyFile_unchanged (H := H) o wr b sf hh hall
          rw [heq]
          exact .ret _

theorem copyEntry_small {rem : Nat} (o : BackupOpts) (wr : Writer) (basis : Option IndexEntry) (sf : SrcEntry)
    (hwr : WB (fileBytes sf + rem) wr) :
    Prog.AllOps SmallOp (copyEntry H o wr basis sf) := by
  unfold copyEntry
  simp only [metadataFrom_eq, Prog.pure_def]
  cases hk : sf.kind with
  | file =>
    have : fileBytes sf = sf.content.length := by simp [fileBytes, hk]
    rw [this] at hwr
    exact copyFile_small H o wr basis sf hwr
  | dir => exact .ret _
  | symlink => exact .ret _
  | unknown => exact .ret _

/-! ### Every world -/

/-- `copy_entry` in every world. -/
theorem copyEntry_bsat {rem : Nat} (o : BackupOpts) (wr : Writer) (basis : Option IndexEntry) (sf : SrcEntry)
    (hwr : WB (fileBytes sf + rem) wr) :
    BSat (copyEntry H o wr basis sf) (fun x => WB rem x.1) :=
  BSat.of_ops (copyEntry_small H o wr basis sf hwr) (copyEntry_wb H o wr basis sf hwr)

/-- `FileCombiner::flush` in every world. -/
theorem combinerFlush_bsat {rem : Nat} (wr : Writer) (hwr : WB rem wr) :
    BSat (combinerFlush H wr) (fun x => WB rem x.1) :=
  BSat.of_ops (combinerFlush_small H wr hwr) (combinerFlush_wb H wr hwr)

end

theorem performUnit_bsat {o : Op} (ho : SmallOp o) : BSat (performUnit o) (fun _ => True) :=
  BSat.of_ops (performUnit_allOps ho) (fun _ _ _ => trivial)

/-- `IndexWriter::finish_hunk` in every world: it writes an index hunk, no block, and leaves the
combiner's buffer alone. -/
theorem finishHunk_bsat {rem : Nat} (wr : Writer) (hwr : WB rem wr) :
    BSat (finishHunk wr) (fun wr' => WB rem wr') := by
  unfold finishHunk
  simp only [Prog.bind_def, Prog.pure_def]
  have hdone : WB rem { wr with pending := [], sequence := wr.sequence + 1, hunksWritten := wr.hunksWritten + 1 } :=
    hwr
  have hwrite : SmallOp (.write (.hunk wr.band wr.sequence)
      (.hunk (wr.pending.mergeSort fun a b => apathLe a.apath b.apath)) .createNew) :=
    fun _ _ _ ho => (nomatch ho)
  have hdir : SmallOp (.createDir (.hunkDir wr.band (wr.sequence / hunksPerSubdir))) :=
    fun _ _ _ ho => (nomatch ho)
  split
  · exact BSat.ret hwr
  · split
    · refine BSat.bind (performUnit_bsat hdir) fun _ _ => ?_
      exact BSat.bind (performUnit_bsat hwrite) fun _ _ => BSat.ret hdone
    · exact BSat.bind (performUnit_bsat hwrite) fun _ _ => BSat.ret hdone

section
variable (H : Str → Str)

/-- `BackupWriter::flush_group` in every world. -/
theorem flushGroup_bsat {rem : Nat} (wr : Writer) (hwr : WB rem wr) :
    BSat (flushGroup H wr) (fun wr' => WB rem wr') := by
  unfold flushGroup
  simp only [Prog.bind_def]
  refine BSat.bind (combinerFlush_bsat H wr hwr) ?_
  rintro ⟨wr1, r⟩ hwr1
  cases r with
  | error e => exact BSat.fail
  | ok u => exact finishHunk_bsat _ hwr1

/-- After `copy_entry`: log or report, maybe flush the group, go on. -/
theorem loopCont_bsat (o : BackupOpts) (sf : SrcEntry) (rest : List Matched) {rem : Nat}
    (ih : ∀ wr, WB rem wr → BSat (backupLoop H o wr rest) (fun wr' => WB 0 wr'))
    (x : Writer × Except Err (Option ChangeKind)) (hx : WB rem x.1) :
    BSat (loopCont H o sf rest x) (fun wr' => WB 0 wr') := by
  obtain ⟨wr, r⟩ := x
  cases r with
  | error e =>
    simp only [loopCont, logError, Prog.emit_bind, Prog.ret_bind]
    exact BSat.emit (ih _ hx)
  | ok ch =>
    have hrest : BSat ((if wr.pending.length + wr.queue.length ≥ o.maxEntriesPerHunk then flushGroup H wr
        else Prog.ret wr).bind fun w => backupLoop H o w rest) (fun wr' => WB 0 wr') := by
      refine BSat.bind (Q1 := fun w => WB rem w) ?_ (fun w hw => ih w hw)
      split
      · exact flushGroup_bsat H wr hx
      · exact BSat.ret hx
    cases ch with
    | none =>
      simp only [loopCont, Prog.ret_bind]
      exact hrest
    | some ck =>
      simp only [loopCont, report, Prog.emit_bind, Prog.ret_bind]
      exact BSat.emit hrest

/-- The main loop of `backup()` in every world. -/
theorem backupLoop_bsat (o : BackupOpts) (ms : List Matched) :
    ∀ (wr : Writer), WB (srcBytes (srcOf ms)) wr → BSat (backupLoop H o wr ms) (fun wr' => WB 0 wr') := by
  induction ms with
  | nil =>
    intro wr hwr
    rw [backupLoop]
    exact BSat.ret (hwr.weaken (Nat.zero_le _))
  | cons m rest ih =>
    intro wr hwr
    cases m with
    | left b =>
      rw [backupLoop_left]
      simp only [report, Prog.emit_bind, Prog.ret_bind]
      exact BSat.emit (ih wr hwr)
    | right sf =>
      have hwr' : WB (fileBytes sf + srcBytes (srcOf rest)) wr := by
        simpa [srcOf, srcBytes] using hwr
      rw [backupLoop_right]
      refine BSat.bind (copyEntry_bsat H o wr none sf hwr') ?_
      intro x hx
      exact loopCont_bsat H o sf rest ih x hx
    | both b sf =>
      have hwr' : WB (fileBytes sf + srcBytes (srcOf rest)) wr := by
        simpa [srcOf, srcBytes] using hwr
      rw [backupLoop_both]
      refine BSat.bind (copyEntry_bsat H o wr (some b) sf hwr') ?_
      intro x hx
      exact loopCont_bsat H o sf rest ih x hx

/-- The main part of `backup()` in every world. -/
theorem backupMain_bsat (o : BackupOpts) {src : List SrcEntry} (hsrc : srcBytes src < u64)
    (x : Nat × List Str × List IndexEntry) : BSat (backupMain H o src x) (fun _ => True) := by
  unfold backupMain
  have hwr0 : WB (srcBytes (srcOf (mergeTrees x.2.2 src))) { band := x.1, exists_ := x.2.1 } := by
    rw [srcOf_mergeTrees]
    unfold WB
    simpa using hsrc
  refine BSat.bind (backupLoop_bsat H o _ _ hwr0) ?_
  intro wr1 hwr1
  refine BSat.bind (flushGroup_bsat H wr1 hwr1) ?_
  intro wr2 hwr2
  refine BSat.bind (finishHunk_bsat wr2 hwr2) ?_
  intro wr3 _
  unfold bandClose
  exact BSat.bind (performUnit_bsat (fun _ _ _ h => (nomatch h))) fun _ _ => BSat.ret trivial

end

/-- The prelude writes no block: `AllOps NoDataWrite`. -/
theorem backupPrelude_nhw : Prog.AllOps NoDataWrite backupPrelude := by
  unfold backupPrelude
  refine Prog.AllOps.bind (AllOps.ro_ndw _root_.Conserve.gcIsLocked_ro) fun locked => ?_
  split
  · exact .fail _
  · refine Prog.AllOps.bind (AllOps.ro_ndw _root_.Conserve.lastBandId_ro) fun basisBand => ?_
    refine Prog.AllOps.bind bandCreate_nhw fun band => ?_
    refine Prog.AllOps.bind (AllOps.ro_ndw _root_.Conserve.gcLockListed_ro) fun locked2 => ?_
    split
    · exact .fail _
    refine Prog.AllOps.bind (AllOps.ro_ndw _root_.Conserve.listBlocks_ro) fun blocks => ?_
    cases basisBand with
    | none => exact .ret _
    | some b =>
      exact Prog.AllOps.bind (AllOps.ro_ndw (_root_.Conserve.listEntries_ro b _ _)) fun basis => .ret _

/-- **`backup` keeps `BlocksSmall` in every world**: any faults, any crash point, dead or alive, any
options, any hash function, any store (no format invariant, no `entriesInRange`), sorted source or
not, whatever its modification times — provided the contents of its regular files add up to less
than 2^64 bytes. -/
theorem backup_small (H : Str → Str) (o : BackupOpts) {src : List SrcEntry} (hsrc : srcBytes src < u64)
    (w : World) (h : Exact.BlocksSmall w.store) : Exact.BlocksSmall ((backup H o src).run w).2.store := by
  rw [backup_eq]
  exact ((BSat.bind (Q1 := fun _ => True)
    (BSat.of_ops (AllOps.ndw_small backupPrelude_nhw) (fun _ _ _ => trivial))
    fun x _ => backupMain_bsat H o hsrc x) w h).1

end Conserve.Gaps.Kinds
