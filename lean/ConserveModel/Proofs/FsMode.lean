import ConserveModel.Proofs.FsTree
/-
Modes of restored files (C01 c): with the order owner-then-mode a file ends with exactly the
stored mode, and nothing restore does later changes it.
-/
namespace Conserve

theorem restoreLoopFs_grows {uidOf gidOf : Str → Option Nat} {old : Bool} {D : Path} :
    ∀ (rest : List RNode) (fs : Fs) (S : List Str → Prop), Inv D S fs →
      (∀ n ∈ rest, isValid n.apath = true) →
      (∀ n ∈ rest, ∀ pre, pre <+: comps n → ¬ S pre) →
      rest.Pairwise NotBelowNonDir →
      Grows D (fun c => ∃ n ∈ rest, c <+: comps n) (nonDirAt rest) fs
        (restoreLoopFs uidOf gidOf old D fs rest).1 := by
  intro rest
  induction rest with
  | nil => intro fs S _ _ _ _; exact Grows.refl _ _ _ _
  | cons n rest ih =>
    intro fs S hI hv hcl hp
    obtain ⟨hpn, hpr⟩ := List.pairwise_cons.1 hp
    obtain ⟨G, _⟩ := restoreNodeFs_grows (uidOf := uidOf) (gidOf := gidOf) (old := old) hI
      (hv n List.mem_cons_self) (hcl n List.mem_cons_self)
    have I1 := hI.grows G
    have G2 := ih (restoreNodeFs uidOf gidOf old D fs n).1 _ I1
      (fun m hm => hv m (List.mem_cons_of_mem _ hm))
      (fun m hm pre hpre hS => by
        rcases hS with ⟨rfl, hk⟩ | hS
        · exact hpn m hm hk hpre
        · exact hcl m (List.mem_cons_of_mem _ hm) pre hpre hS)
      hpr
    simp only [restoreLoopFs]
    refine Grows.trans (G.mono ?_ ?_) (G2.mono ?_ ?_)
    · exact fun c h => ⟨n, List.mem_cons_self, h⟩
    · exact fun c h => ⟨n, List.mem_cons_self, h.2, h.1.symm⟩
    · exact fun c ⟨m, hm, h⟩ => ⟨m, List.mem_cons_of_mem _ hm, h⟩
    · exact fun c ⟨m, hm, h⟩ => ⟨m, List.mem_cons_of_mem _ hm, h⟩

theorem applyDeferralsFs_grows {uidOf gidOf : Str → Option Nat} {D : Path} {S : List Str → Prop} :
    ∀ (ds : List Deferral) (fs : Fs), Inv D S fs →
      (∀ d ∈ ds, isValid d.node.apath = true ∧ d.path = joinDest D d.node.apath ∧
        ∀ pre, pre <+: comps d.node → ¬ S pre) →
      Grows D (fun c => ∃ d ∈ ds, c = comps d.node) (fun _ => False) fs
        (applyDeferralsFs uidOf gidOf fs ds).1 := by
  intro ds
  induction ds with
  | nil => intro fs _ _; exact Grows.refl _ _ _ _
  | cons d ds ih =>
    intro fs hI hd
    obtain ⟨hv, hp, hcl⟩ := hd d List.mem_cons_self
    obtain ⟨hctx, hfull⟩ := ctx_of_inv hI hv hcl
    have L := applyDeferralFs_local (uidOf := uidOf) (gidOf := gidOf) (n := d.node) hctx
      (FinalNotLink.of_noneOrDir (hfull _ (List.prefix_refl _)))
    have hj : d.path = D ++ comps d.node ++ (if d.node.apath = [slash] then [[]] else []) := by
      rw [hp, joinDest_valid D hv]; rfl
    rw [← hj] at L
    have L' : Local .dir fs (applyDeferralFs uidOf gidOf fs d).1 (D ++ comps d.node) := L
    have G := L'.grows hI.dest_ne_none
    have I1 : Inv D S (applyDeferralFs uidOf gidOf fs d).1 :=
      (hI.grows G).mono fun c h => h.elim (fun h => absurd rfl h.2) id
    have G2 := ih _ I1 (fun d' hd' => hd d' (List.mem_cons_of_mem _ hd'))
    simp only [applyDeferralsFs]
    refine Grows.trans (G.mono ?_ ?_) (G2.mono ?_ (fun _ h => h))
    · exact fun c h => ⟨d, List.mem_cons_self, h⟩
    · exact fun c h => absurd rfl h.2
    · exact fun c ⟨d', hd', h⟩ => ⟨d', List.mem_cons_of_mem _ hd', h⟩

theorem Fs.chmod_ok {fs fs1 : Fs} {path : List Str} {m : Nat} (h : fs.chmod path m = (fs1, .ok ())) :
    ∃ p x, fs.resolve true path = .ok p ∧ fs.node p = some x ∧
      fs1 = fs.set p { x with mode := m % 0o10000 } := by
  unfold Fs.chmod at h
  cases hr : fs.resolve true path with
  | error e => rw [hr] at h; simp at h
  | ok p =>
    rw [hr] at h
    dsimp only at h
    cases hn : fs.node p with
    | none => rw [hn] at h; simp at h
    | some x =>
      rw [hn] at h
      simp only [Prod.mk.injEq, and_true] at h
      exact ⟨p, x, rfl, hn, h.symm⟩

theorem errIf_eq_nil {w : RWhat} {a : Str} {e : Option Errno} (h : errIf w a e = []) : e = none := by
  cases e with
  | none => rfl
  | some e => simp [errIf] at h

/-- One file, new order, no error reported: the file is there with exactly the stored mode. -/
theorem restoreFileFs_mode {uidOf gidOf : Str → Option Nat} {fs : Fs} {D : Path}
    {cs trail : List Str} {n : RNode} {m : Nat} (hc : Ctx fs D cs trail)
    (hf : NoneOrDir (fs.node (D ++ cs)))
    (herr : (restoreFileFs uidOf gidOf false fs (D ++ cs ++ trail) n).2 = [])
    (hcomp : n.complete = true) (hm : n.unixMode = some m) (hlt : m < 0o10000) :
    ∃ x, (restoreFileFs uidOf gidOf false fs (D ++ cs ++ trail) n).1.node (D ++ cs) = some x ∧
      x.kind = .file ∧ x.mode = m := by
  have hf0 := FinalNotLink.of_noneOrDir hf
  have hfile : FKind.file ≠ .symlink := by decide
  obtain ⟨L1, hh⟩ := Fs.create_local (hc.res true hf0)
  unfold restoreFileFs at herr ⊢
  rcases hcr : fs.create (D ++ cs ++ trail) with ⟨fs1, r⟩
  rw [hcr] at L1 hh herr
  cases r with
  | error e => simp at herr
  | ok h =>
    obtain ⟨rfl, x0, hx0, hk0⟩ := hh h rfl
    simp only [hcomp, Bool.not_true, Bool.false_eq_true, if_false] at herr ⊢
    have L2 : Local .file fs (fs1.writeAt (D ++ cs) n.content) (D ++ cs) :=
      L1.trans (Fs.writeAt_local _ _ _)
    have L3 : Local .file fs ((fs1.writeAt (D ++ cs) n.content).futimensAt (D ++ cs) n.mtimeNs) (D ++ cs) :=
      L2.trans (Fs.futimensAt_local _ _ _)
    have L34 := setOwnerFs_local (k := .file) (uidOf := uidOf) (gidOf := gidOf) (n := n) (L3.ctx hc)
    have L4 := L3.trans L34
    have L14 : Local .file fs1 _ (D ++ cs) :=
      ((Fs.writeAt_local (k := .file) fs1 (D ++ cs) n.content).trans
        (Fs.futimensAt_local _ _ _)).trans L34
    obtain ⟨x4, hx4, hk4⟩ := L14.self x0 hx0
    have hperm := errIf_eq_nil (List.append_eq_nil_iff.1 herr).2
    unfold setPermsFs at hperm ⊢
    rw [hm] at hperm ⊢
    dsimp only at hperm ⊢
    rcases hch : Fs.chmod _ (D ++ cs ++ trail) m with ⟨fs5, rr⟩
    rw [hch] at hperm
    cases rr with
    | error e => simp at hperm
    | ok u =>
      dsimp only
      obtain ⟨p, x, hres, hnode, rfl⟩ := Fs.chmod_ok hch
      have hp := (L4.ctx hc).res true (L4.finalNotLink hfile hf0) p hres
      subst hp
      rw [hx4] at hnode
      cases hnode
      exact ⟨{ x4 with mode := m % 0o10000 }, by rw [Fs.node_set, if_pos rfl], hk4.trans hk0,
        Nat.mod_eq_of_lt hlt⟩

theorem restoreLoopFs_mode {uidOf gidOf : Str → Option Nat} {D : Path} {m : Nat} :
    ∀ (rest : List RNode) (fs : Fs) (S : List Str → Prop), Inv D S fs →
      (∀ n ∈ rest, isValid n.apath = true) →
      (∀ n ∈ rest, ∀ pre, pre <+: comps n → ¬ S pre) →
      rest.Pairwise NotBelowNonDir →
      (restoreLoopFs uidOf gidOf false D fs rest).2.1 = [] →
      ∀ n ∈ rest, n.kind = .file → n.complete = true → n.unixMode = some m → m < 0o10000 →
        ∃ x, (restoreLoopFs uidOf gidOf false D fs rest).1.node (D ++ comps n) = some x ∧
          x.kind = .file ∧ x.mode = m := by
  intro rest
  induction rest with
  | nil => intro _ _ _ _ _ _ _ n hn; cases hn
  | cons n0 rest ih =>
    intro fs S hI hv hcl hp herr n hn hk hcomp hm hlt
    obtain ⟨hpn, hpr⟩ := List.pairwise_cons.1 hp
    obtain ⟨G, _⟩ := restoreNodeFs_grows (uidOf := uidOf) (gidOf := gidOf) (old := false) hI
      (hv n0 List.mem_cons_self) (hcl n0 List.mem_cons_self)
    have I1 := hI.grows G
    have hv' : ∀ m ∈ rest, isValid m.apath = true := fun m hm => hv m (List.mem_cons_of_mem _ hm)
    have hcl' : ∀ m ∈ rest, ∀ pre, pre <+: comps m →
        ¬ ((pre = comps n0 ∧ n0.kind ≠ .dir) ∨ S pre) := fun m hm pre hpre hS => by
      rcases hS with ⟨rfl, hk⟩ | hS
      · exact hpn m hm hk hpre
      · exact hcl m (List.mem_cons_of_mem _ hm) pre hpre hS
    simp only [restoreLoopFs] at herr ⊢
    obtain ⟨herr0, herr1⟩ := List.append_eq_nil_iff.1 herr
    rcases List.mem_cons.1 hn with rfl | hn'
    · -- the file restored in this turn
      obtain ⟨hctx, hfull⟩ := ctx_of_inv hI (hv n List.mem_cons_self) (hcl n List.mem_cons_self)
      have hpath : joinDest D n.apath = D ++ comps n ++ (if n.apath = [slash] then [[]] else []) :=
        joinDest_valid D (hv n List.mem_cons_self)
      have e1 : (restoreNodeFs uidOf gidOf false D fs n).1 =
          (restoreFileFs uidOf gidOf false fs (joinDest D n.apath) n).1 := by
        unfold restoreNodeFs; rw [hk]
      have e2 : (restoreNodeFs uidOf gidOf false D fs n).2.1 =
          (restoreFileFs uidOf gidOf false fs (joinDest D n.apath) n).2 := by
        unfold restoreNodeFs; rw [hk]
      rw [e2, hpath] at herr0
      obtain ⟨x, hx, hxk, hxm⟩ := restoreFileFs_mode hctx (hfull _ (List.prefix_refl _)) herr0 hcomp hm hlt
      rw [← hpath, ← e1] at hx
      have G2 := restoreLoopFs_grows (uidOf := uidOf) (gidOf := gidOf) (old := false) rest _ _ I1 hv' hcl' hpr
      have hst := G2.stable (comps n) (fun ⟨m', hm', hpre⟩ => hpn m' hm' (by rw [hk]; decide) hpre)
      obtain ⟨y, hy, hyk, hym, _⟩ := hst.some_left hx
      exact ⟨y, hy, hyk.trans hxk, hym.trans hxm⟩
    · exact ih _ _ I1 hv' hcl' hpr herr1 n hn' hk hcomp hm hlt

/-- The whole restore, new order, into an empty or absent destination, no error reported:
every complete file entry with a stored mode ends with exactly that mode. -/
theorem restoreToFs_mode {uidOf gidOf : Str → Option Nat} {fs : Fs} {D : Path} {nodes : List RNode}
    {m : Nat} (hC : Confinable nodes) (hwf : fs.wf = true) (hP : DestPlain fs D)
    (hres : (restoreToFs fs D false nodes uidOf gidOf false).2 = ([], none)) :
    ∀ n ∈ nodes, n.kind = .file → n.complete = true → n.unixMode = some m → m < 0o10000 →
      ∃ x, (restoreToFs fs D false nodes uidOf gidOf false).1.node (D ++ comps n) = some x ∧
        x.kind = .file ∧ x.mode = m := by
  intro n hn hk hcomp hm hlt
  have L := ensureDir_local hP
  unfold restoreToFs at hres ⊢
  rcases he : fs.ensureDir D with ⟨fs0, r⟩
  rw [he] at L hres
  cases r with
  | error e => simp at hres
  | ok u =>
    dsimp only at hres ⊢
    cases hr : fs0.readDirEmpty D with
    | error e => rw [hr] at hres; simp at hres
    | ok empty =>
      rw [hr] at hres
      dsimp only at hres ⊢
      cases empty with
      | false => simp at hres
      | true =>
        simp only [Bool.not_false, Bool.not_true, Bool.and_false, Bool.false_eq_true, if_false,
          Prod.mk.injEq, and_true] at hres ⊢
        have hI := inv_initial hwf hP L hr
        have hp : nodes.Pairwise NotBelowNonDir :=
          hC.distinct.imp_of_mem fun {a b} ha hb hne hk hpre => hk (hC.anc a ha b hb hpre hne)
        obtain ⟨herr0, _⟩ := List.append_eq_nil_iff.1 hres
        obtain ⟨x, hx, hxk, hxm⟩ := restoreLoopFs_mode (uidOf := uidOf) (gidOf := gidOf) nodes fs0 _ hI
          hC.valid (fun _ _ _ _ h => h) hp herr0 n hn hk hcomp hm hlt
        obtain ⟨I1, _, hdefs⟩ := restoreLoopFs_inv (uidOf := uidOf) (gidOf := gidOf) (old := false)
          nodes fs0 _ hI hC.valid (fun _ _ _ _ h => h) hp
        have G := applyDeferralsFs_grows (uidOf := uidOf) (gidOf := gidOf) _ _ I1 (fun d hd => by
          obtain ⟨hm', hk', hpath⟩ := hdefs d hd
          refine ⟨hC.valid _ hm', hpath, fun pre hpre hS => ?_⟩
          rcases hS with ⟨m', hmm, hmk, e⟩ | hS
          · subst e
            by_cases heq : comps m' = comps d.node
            · rw [pairwise_inj hC.distinct m' hmm d.node hm' heq] at hmk
              exact hmk hk'
            · exact hmk (hC.anc m' hmm d.node hm' hpre heq)
          · exact hS)
        have hst := G.stable (comps n) (fun ⟨d, hd, e⟩ => by
          obtain ⟨hm', hk', _⟩ := hdefs d hd
          have := pairwise_inj hC.distinct n hn d.node hm' e
          rw [← this, hk] at hk'
          cases hk')
        obtain ⟨y, hy, hyk, hym, _⟩ := hst.some_left hx
        exact ⟨y, hy, hyk.trans hxk, hym.trans hxm⟩

end Conserve
