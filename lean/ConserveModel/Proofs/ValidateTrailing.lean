import ConserveModel.Proofs.ValidateDetect
/-
Losing the last hunk of a version without tail turns a healthy archive into a healthy archive
(the one an interruption one hunk earlier would have left).  For that: the converse of
`bandOK_of_conforms`.  No property statements.
-/
set_option linter.unusedSimpArgs false
namespace Conserve

theorem filterMap_length_of_all {α β : Type} {f : α → Option β} {l : List α}
    (h : ∀ x ∈ l, (f x).isSome = true) : (l.filterMap f).length = l.length := by
  induction l with
  | nil => rfl
  | cons a l ih =>
    have ha := h a (List.mem_cons_self ..)
    obtain ⟨y, hy⟩ := Option.isSome_iff_exists.mp ha
    simp [List.filterMap_cons, hy, ih (fun x hx => h x (List.mem_cons_of_mem _ hx))]

/-- The clauses of `BandOK`, plus a decodable head, are all `bandConforms` asks. -/
theorem bandConforms_of_bandOK {H : Str → Str} {s : Store} {b : Nat} (ok : BandOK H s b)
    (hhead : ∃ ver flags, s.get? (.bandHead b) = some (.head ver flags)) : bandConforms H s b = true := by
  obtain ⟨ver, flags, hh⟩ := hhead
  have hdec : ∀ v ∈ (hunkNumsOf s b).map (fun n => s.get? (.hunk b n)), ∀ es, selHunk v = some es →
      ∃ n ∈ hunkNumsOf s b, s.get? (.hunk b n) = some (.hunk es) := by
    intro v hv es hs
    obtain ⟨n, hn, rfl⟩ := List.mem_map.mp hv
    refine ⟨n, hn, ?_⟩
    unfold selHunk at hs
    split at hs
    · rename_i es' heq; cases hs; exact heq
    · cases hs
  have hallLen : (∀ n ∈ hunkNumsOf s b, ∃ es, s.get? (.hunk b n) = some (.hunk es)) →
      (((hunkNumsOf s b).map fun n => s.get? (.hunk b n)).filterMap selHunk).length =
        ((hunkNumsOf s b).map fun n => s.get? (.hunk b n)).length := by
    intro hall
    apply filterMap_length_of_all
    intro v hv
    obtain ⟨n, hn, rfl⟩ := List.mem_map.mp hv
    obtain ⟨es, he⟩ := hall n hn
    simp [he, selHunk]
  rw [bandConforms_unfold]
  simp only [Bool.and_eq_true, beq_iff_eq]
  refine ⟨⟨⟨⟨⟨⟨ok.range, ?_⟩, ?_⟩, ?_⟩, ?_⟩, ?_⟩, by rw [hh]⟩
  · -- how many hunks decode
    simp only [Bool.or_eq_true, beq_iff_eq, Bool.and_eq_true, Bool.not_eq_true']
    by_cases hall : ∀ n ∈ hunkNumsOf s b, ∃ es, s.get? (.hunk b n) = some (.hunk es)
    · exact Or.inl (hallLen hall)
    · right
      have hex : ∃ n ∈ hunkNumsOf s b, ¬ ∃ es, s.get? (.hunk b n) = some (.hunk es) := by
        apply Classical.byContradiction
        intro hno
        exact hall (fun n hn => Classical.byContradiction fun h => hno ⟨n, hn, h⟩)
      obtain ⟨n, hn, hnd⟩ := hex
      rcases ok.vals n hn with hd | ⟨hemp, htail, hlast⟩
      · exact absurd hd hnd
      · have hrange := ok.range
        rw [← hlast] at hrange
        have hvals : ((hunkNumsOf s b).map fun m => s.get? (.hunk b m)) =
            ((List.range n).map fun m => s.get? (.hunk b m)) ++ [some .empty] := by
          rw [hrange, List.range_succ, List.map_append, List.map_singleton, hemp]
        have hinit : ∀ v ∈ (List.range n).map (fun m => s.get? (.hunk b m)), (selHunk v).isSome = true := by
          intro v hv
          obtain ⟨m, hm, rfl⟩ := List.mem_map.mp hv
          have hm' := List.mem_range.mp hm
          have hmem : m ∈ hunkNumsOf s b := by rw [hrange]; exact List.mem_range.mpr (by omega)
          rcases ok.vals m hmem with ⟨es, he⟩ | ⟨_, _, hl⟩
          · simp [he, selHunk]
          · omega
        refine ⟨⟨by simp [isComplete, htail], ?_⟩, ?_⟩
        · rw [hvals]; simp
        · rw [hvals, List.filterMap_append, List.length_append, filterMap_length_of_all hinit]
          simp [selHunk]
  · -- no empty decoded hunk
    rw [List.all_eq_true]
    intro es hes
    obtain ⟨v, hv, hs⟩ := List.mem_filterMap.mp hes
    obtain ⟨n, hn, hg⟩ := hdec v hv es hs
    have := ok.nonempty n hn es hg
    cases es with
    | nil => exact absurd rfl this
    | cons _ _ => rfl
  · -- entries conform
    rw [List.all_eq_true]
    intro e he
    obtain ⟨es, hes, hee⟩ := List.mem_flatten.mp he
    obtain ⟨v, hv, hs⟩ := List.mem_filterMap.mp hes
    obtain ⟨n, hn, hg⟩ := hdec v hv es hs
    exact ok.entries n hn es hg e hee
  · rw [List.filterMap_map]; exact ok.sorted
  · rcases ok.tail with ht | ⟨ht | ht, hall⟩
    · rw [ht]
    · rw [ht]; simp only [Bool.and_eq_true, beq_iff_eq]; exact ⟨trivial, hallLen hall⟩
    · rw [ht]; simp only [beq_iff_eq]; exact hallLen hall

/-- **Healthy stays healthy** when the last hunk of a version without tail disappears. -/
theorem good_of_trailing_hunk_loss {H : Str → Str} {s s' : Store} {b n : Nat} (g : Good H s)
    (dm : DamagedAt (.hunk b n) none s s') (hopen : s.get? (.bandTail b) = none)
    (hlast : n + 1 = (hunkNumsOf s b).length) : Good H s' := by
  have hn := g.uniqueKeys
  have hn' := dm.uniqueKeys'
  have hd' := dm.dirsOk' (Key.isLeaf_hunk b n) g.dirsOk
  have hids := dm.bandIdsOf_eq hn
  have hsub : ∀ kv ∈ s', kv ∈ s := by
    rintro ⟨k1, v1⟩ hm
    have hg := Store.get?_of_mem_unique hn' hm
    by_cases hk : k1 = .hunk b n
    · subst hk; rw [dm.now] at hg; cases hg
    · rw [dm.same _ hk] at hg; exact Store.mem_of_get?' hg
  have hentry : ∀ e, entryConforms H s' e = entryConforms H s e := by
    intro e
    have : ∀ a, readAddrPure H s' a = readAddrPure H s a := by
      intro a
      simp only [readAddrPure, blockContent, dm.same (.block a.hash) (by simp)]
    simp only [entryConforms, this]
  have hconf := g.conforms
  simp only [Conforms, Bool.and_eq_true, beq_iff_eq, List.all_eq_true] at hconf
  obtain ⟨⟨⟨⟨hheader, hroot⟩, hbroot⟩, hblocks⟩, _⟩ := hconf
  have hheadsame : ∀ b', s'.get? (.bandHead b') = s.get? (.bandHead b') := fun b' => dm.same _ (by simp)
  have hidirsame : ∀ b', s'.get? (.indexDir b') = s.get? (.indexDir b') := fun b' => dm.same _ (by simp)
  have htailsame : ∀ b', s'.get? (.bandTail b') = s.get? (.bandTail b') := fun b' => dm.same _ (by simp)
  have hheads : AllHeadsReadable s' := by
    intro b' hb'
    rw [hids] at hb'
    have := g.heads b' hb'
    simpa only [bandReadable, hheadsame, hidirsame] using this
  refine ⟨?_, dm.nodup, by simp only [treeShaped, List.all_eq_true]; exact hd', hheads, ?_⟩
  · simp only [Conforms, Bool.and_eq_true, beq_iff_eq, List.all_eq_true]
    refine ⟨⟨⟨⟨by rw [dm.same _ (by simp)]; exact hheader, by rw [dm.same _ (by simp)]; exact hroot⟩,
      by rw [dm.same _ (by simp)]; exact hbroot⟩, ?_⟩, ?_⟩
    · simp only [blocksConform, List.all_eq_true] at hblocks ⊢
      exact fun kv hm => hblocks kv (hsub kv hm)
    · intro b' hb'
      have hb0 : b' ∈ bandIdsOf s := by rw [← hids]; exact hb'
      have ok := g.bandOK hb0
      apply bandConforms_of_bandOK
      · by_cases hbb : b' = b
        · subst hbb
          -- the version that lost its last hunk
          have hrange := ok.range
          rw [← hlast] at hrange
          have hnot : n ∉ hunkNumsOf s' b' := by
            rw [mem_hunkNumsOf_get? hn', dm.now]; simp
          have hsame : ∀ m, m ≠ n → s'.get? (.hunk b' m) = s.get? (.hunk b' m) :=
            fun m hm => dm.same _ (by simpa using hm)
          have hnums' : hunkNumsOf s' b' = List.range n := by
            apply eq_of_sorted_lt (hunkNumsOf_sorted_lt hn' b') List.pairwise_lt_range
            intro m
            rw [List.mem_range]
            constructor
            · intro hm
              have h1 := dm.hunkNumsOf_sub hn hm
              rw [hrange, List.mem_range] at h1
              have : m ≠ n := fun e => hnot (e ▸ hm)
              omega
            · intro hm
              have h1 : m ∈ hunkNumsOf s b' := by rw [hrange]; exact List.mem_range.mpr (by omega)
              rw [mem_hunkNumsOf_get? hn] at h1
              rw [mem_hunkNumsOf_get? hn', hsame m (by omega)]
              exact h1
          have hmem : ∀ m, m ∈ List.range n → m ∈ hunkNumsOf s b' ∧ m ≠ n := by
            intro m hm
            have := List.mem_range.mp hm
            exact ⟨by rw [hrange]; exact List.mem_range.mpr (by omega), by omega⟩
          have hdecoded : ∀ m ∈ List.range n, ∃ es, s.get? (.hunk b' m) = some (.hunk es) := by
            intro m hm
            obtain ⟨h1, h2⟩ := hmem m hm
            rcases ok.vals m h1 with hd | ⟨_, _, hl⟩
            · exact hd
            · omega
          refine ⟨by rw [hnums']; simp, ?_, ?_, ?_, ?_, Or.inl (by rw [htailsame]; exact hopen)⟩
          · intro m hm
            rw [hnums'] at hm
            left
            rw [hsame m (hmem m hm).2]
            exact hdecoded m hm
          · intro m hm es hg e he
            rw [hnums'] at hm
            rw [hsame m (hmem m hm).2] at hg
            rw [hentry]
            exact ok.entries m (hmem m hm).1 es hg e he
          · intro m hm es hg
            rw [hnums'] at hm
            rw [hsame m (hmem m hm).2] at hg
            exact ok.nonempty m (hmem m hm).1 es hg
          · rw [hnums']
            have hcongr : (List.range n).filterMap (fun m => selHunk (s'.get? (.hunk b' m))) =
                (List.range n).filterMap (fun m => selHunk (s.get? (.hunk b' m))) := by
              apply filterMap_congr'
              intro m hm
              rw [hsame m (hmem m hm).2]
            rw [hcongr]
            have hs := ok.sorted
            rw [hrange, List.range_succ, List.filterMap_append, List.flatten_append, List.map_append,
              strictlySorted_iff] at hs
            rw [strictlySorted_iff]
            exact hs.sublist (List.sublist_append_left _ _)
        · -- every other version is untouched
          have e1 : hunkNumsOf s' b' = hunkNumsOf s b' :=
            dm.hunkNumsOf_eq hn b' (Or.inl fun m => by simp; intro h; exact absurd h.symm hbb)
          have e2 : ∀ m, s'.get? (.hunk b' m) = s.get? (.hunk b' m) :=
            fun m => dm.same _ (by simp; intro h; exact absurd h hbb)
          refine ⟨by rw [e1]; exact ok.range, ?_, ?_, ?_, ?_, ?_⟩
          · intro m hm; rw [e1] at hm ⊢; rw [e2, htailsame]; exact ok.vals m hm
          · intro m hm es hg e he; rw [e1] at hm; rw [e2] at hg; rw [hentry]; exact ok.entries m hm es hg e he
          · intro m hm es hg; rw [e1] at hm; rw [e2] at hg; exact ok.nonempty m hm es hg
          · simp only [e1, e2]; exact ok.sorted
          · simp only [e1, e2, htailsame]; exact ok.tail
      · have := (bandReadable_iff s b').mp (g.heads b' hb0)
        have := (bandOpenP_ok_iff s b').mp this.1
        rw [hheadsame]
        cases hg : s.get? (.bandHead b') with
        | none => simp [hg] at this
        | some v =>
          cases v with
          | head ver flags => exact ⟨ver, flags, rfl⟩
          | _ => simp [hg] at this
  · have hr := g.inRange
    simp only [entriesInRange, List.all_eq_true] at hr ⊢
    exact fun kv hm => hr kv (hsub kv hm)

end Conserve
