import ConserveModel.Proofs.StoreNoDup
/-
Helper lemmas for C17: stores as association lists up to reordering.

`StoreEquiv s t` = the same file at every path; `Store.NoDupKeys` = every path occurs once.  Both are
preserved by every storage operation, and on equivalent stores every operation answers the same,
except that a directory listing may come in another order (`Resp.Equiv`).
-/
namespace Conserve

/- `Store.NoDupKeys` (every path occurs at most once) and its preservation by `put`/`erase`/
`eraseTree`/`applyOp` come from Proofs/StoreNoDup.lean. -/
instance (s : Store) : Decidable (Store.NoDupKeys s) := inferInstanceAs (Decidable (List.Nodup _))

/-- The same file (or none) at every path. -/
def StoreEquiv (s t : Store) : Prop := ∀ k, s.get? k = t.get? k

theorem StoreEquiv.refl (s : Store) : StoreEquiv s s := fun _ => rfl
theorem StoreEquiv.symm {s t : Store} (h : StoreEquiv s t) : StoreEquiv t s := fun k => (h k).symm
theorem StoreEquiv.trans {s t u : Store} (h₁ : StoreEquiv s t) (h₂ : StoreEquiv t u) : StoreEquiv s u :=
  fun k => (h₁ k).trans (h₂ k)

/-! ### `get?` after the three store updates -/

theorem Store.get?_nil (k : Key) : Store.get? [] k = none := rfl

theorem Store.get?_cons (j : Key) (v : FileVal) (s : Store) (k : Key) :
    Store.get? ((j, v) :: s) k = if k = j then some v else Store.get? s k := by
  unfold Store.get?
  by_cases h : k = j
  · subst h; simp [List.lookup]
  · have : (k == j) = false := by simpa using h
    simp [List.lookup, this, h]

theorem Store.get?_filter (p : Key → Bool) (s : Store) (k : Key) :
    Store.get? (s.filter fun kv => p kv.1) k = if p k then Store.get? s k else none := by
  induction s with
  | nil => simp [Store.get?_nil]
  | cons kv s ih =>
    obtain ⟨j, v⟩ := kv
    by_cases hj : p j = true
    · rw [List.filter_cons_of_pos (by simpa using hj), Store.get?_cons, Store.get?_cons, ih]
      by_cases hk : k = j
      · subst hk; simp [hj]
      · simp [hk]
    · rw [List.filter_cons_of_neg (by simpa using hj), Store.get?_cons, ih]
      by_cases hk : k = j
      · subst hk; simp [hj]
      · simp [hk]

theorem Store.get?_eraseTree (s : Store) (k j : Key) :
    (s.eraseTree k).get? j = if Key.isUnder k j then none else s.get? j := by
  have := Store.get?_filter (fun x => !Key.isUnder k x) s j
  unfold Store.eraseTree
  rw [this]
  cases Key.isUnder k j <;> simp

theorem Store.get?_append (s t : Store) (k : Key) :
    Store.get? (s ++ t) k = (Store.get? s k).or (Store.get? t k) := by
  unfold Store.get?
  exact List.lookup_append

/-! ### `Store.NoDupKeys` is preserved -/

theorem Store.NoDupKeys.cons_iff (k : Key) (v : FileVal) (s : Store) :
    Store.NoDupKeys ((k, v) :: s) ↔ (∀ v', (k, v') ∉ s) ∧ Store.NoDupKeys s := by
  unfold Store.NoDupKeys
  rw [List.map_cons, List.nodup_cons]
  constructor
  · rintro ⟨h1, h2⟩
    refine ⟨fun v' hm => h1 (List.mem_map.2 ⟨(k, v'), hm, rfl⟩), h2⟩
  · rintro ⟨h1, h2⟩
    refine ⟨fun hm => ?_, h2⟩
    obtain ⟨⟨k', v'⟩, hm', rfl⟩ := List.mem_map.1 hm
    exact h1 v' hm'

/-- In a store without duplicate paths, membership of a pair is `get?`. -/
theorem Store.NoDupKeys.mem_iff {s : Store} (h : Store.NoDupKeys s) (k : Key) (v : FileVal) :
    (k, v) ∈ s ↔ s.get? k = some v := by
  induction s with
  | nil => simp [Store.get?_nil]
  | cons kv s ih =>
    obtain ⟨j, u⟩ := kv
    rw [Store.NoDupKeys.cons_iff] at h
    rw [Store.get?_cons, List.mem_cons]
    by_cases hk : k = j
    · subst hk
      simp only [if_true, Option.some.injEq, Prod.mk.injEq, true_and]
      constructor
      · rintro (rfl | hm)
        · rfl
        · exact absurd hm (h.1 v)
      · rintro rfl; exact Or.inl rfl
    · simp only [hk, if_false, Prod.mk.injEq, false_and, false_or]
      exact ih h.2

theorem Store.NoDupKeys.nodup {s : Store} (h : Store.NoDupKeys s) : s.Nodup := by
  unfold Store.NoDupKeys List.Nodup at h
  rw [List.pairwise_map] at h
  exact h.imp fun hne he => hne (by rw [he])

/-- Equivalent stores without duplicate paths are permutations of each other. -/
theorem StoreEquiv.perm {s t : Store} (h : StoreEquiv s t) (hs : Store.NoDupKeys s) (ht : Store.NoDupKeys t) :
    s.Perm t := by
  rw [List.perm_ext_iff_of_nodup hs.nodup ht.nodup]
  rintro ⟨k, v⟩
  rw [hs.mem_iff, ht.mem_iff, h k]

theorem Store.NoDupKeys.of_perm {s t : Store} (h : s.Perm t) (hs : Store.NoDupKeys s) : Store.NoDupKeys t :=
  ((h.map (fun kv : Key × FileVal => kv.1)).nodup_iff).1 hs

/-- **Reordering the association list does not change the store**: a permutation of a store
without duplicate paths has the same file at every path. -/
theorem StoreEquiv.of_perm {s t : Store} (h : s.Perm t) (hs : Store.NoDupKeys s) : StoreEquiv s t := by
  have ht := hs.of_perm h
  intro k
  apply Option.ext
  intro v
  rw [← hs.mem_iff, ← ht.mem_iff]
  exact h.mem_iff

theorem StoreEquiv.erase {s t : Store} (h : StoreEquiv s t) (k : Key) : StoreEquiv (s.erase k) (t.erase k) := by
  intro j; rw [Store.get?_erase, Store.get?_erase, h j]

theorem StoreEquiv.eraseTree {s t : Store} (h : StoreEquiv s t) (k : Key) :
    StoreEquiv (s.eraseTree k) (t.eraseTree k) := by
  intro j; rw [Store.get?_eraseTree, Store.get?_eraseTree, h j]

theorem StoreEquiv.put {s t : Store} (h : StoreEquiv s t) (k : Key) (v : FileVal) :
    StoreEquiv (s.put k v) (t.put k v) := by
  intro j; rw [Store.get?_put, Store.get?_put, h j]

theorem StoreEquiv.has {s t : Store} (h : StoreEquiv s t) (k : Key) : s.has k = t.has k := by
  unfold Store.has; rw [h k]

theorem StoreEquiv.parentOk {s t : Store} (h : StoreEquiv s t) (k : Key) : s.parentOk k = t.parentOk k := by
  unfold Store.parentOk; cases k.parent <;> simp [h _]

/-- Listings of equivalent stores are permutations of each other. -/
theorem StoreEquiv.children {s t : Store} (h : StoreEquiv s t) (hs : Store.NoDupKeys s) (ht : Store.NoDupKeys t)
    (k : Key) : (s.children k).Perm (t.children k) :=
  ((h.perm hs ht).filter _).map _

/-! ### Removals commute -/

/-- Removing two files in either order gives the same list (not only an equivalent store). -/
theorem Store.erase_comm (s : Store) (a b : Key) : (s.erase a).erase b = (s.erase b).erase a := by
  unfold Store.erase
  rw [List.filter_filter, List.filter_filter]
  congr 1; funext kv; exact Bool.and_comm _ _

/-- Removing a list of paths one after another. -/
def Store.eraseAll (s : Store) (ks : List Key) : Store := ks.foldl Store.erase s

theorem Store.get?_eraseAll (s : Store) (ks : List Key) (j : Key) :
    (s.eraseAll ks).get? j = if j ∈ ks then none else s.get? j := by
  unfold Store.eraseAll
  induction ks generalizing s with
  | nil => simp
  | cons k ks ih =>
    rw [List.foldl_cons, ih, Store.get?_erase]
    by_cases h1 : j = k <;> by_cases h2 : j ∈ ks <;> simp [h1, h2]

/-- **Removals in any order**: removing the same set of paths from equivalent stores, in any two
orders (e.g. two iteration orders of a hash set), yields equivalent stores. -/
theorem Store.eraseAll_perm {s t : Store} (h : StoreEquiv s t) {ks ks' : List Key} (hp : ks.Perm ks') :
    StoreEquiv (s.eraseAll ks) (t.eraseAll ks') := by
  intro j
  rw [Store.get?_eraseAll, Store.get?_eraseAll, h j]
  by_cases hj : j ∈ ks
  · simp [hj, hp.mem_iff.1 hj]
  · have : j ∉ ks' := fun h' => hj (hp.mem_iff.2 h')
    simp [hj, this]

theorem Store.NoDupKeys.eraseAll {s : Store} (h : Store.NoDupKeys s) (ks : List Key) : Store.NoDupKeys (s.eraseAll ks) := by
  unfold Store.eraseAll
  induction ks generalizing s with
  | nil => exact h
  | cons k ks ih => exact ih (h.erase k)

/-! ### Responses up to the order of listings; `applyOp` respects equivalence -/

/-- Two responses are the same except that a directory listing may be permuted. -/
inductive Resp.Equiv : Resp → Resp → Prop
  | listing {xs ys : List DirEnt} : xs.Perm ys → Resp.Equiv (.listing xs) (.listing ys)
  | refl (r : Resp) : Resp.Equiv r r

/-- What every real listing of directory `k` satisfies: no path twice, and every entry is a
child of `k`. -/
def GoodListing (k : Key) (xs : List DirEnt) : Prop :=
  (xs.map (·.key)).Nodup ∧ ∀ e ∈ xs, e.key.parent = some k

theorem GoodListing.of_perm {k : Key} {xs ys : List DirEnt} (h : GoodListing k xs) (hp : xs.Perm ys) :
    GoodListing k ys :=
  ⟨((hp.map (fun e : DirEnt => e.key)).nodup_iff).1 h.1, fun e he => h.2 e (hp.mem_iff.2 he)⟩

/-- Entries of a good listing are determined by their path. -/
theorem GoodListing.eq_of_key {k : Key} {xs : List DirEnt} (h : GoodListing k xs) {a b : DirEnt}
    (ha : a ∈ xs) (hb : b ∈ xs) (hk : a.key = b.key) : a = b := by
  have hn := h.1
  clear h
  induction xs with
  | nil => cases ha
  | cons x xs ih =>
    rw [List.map_cons, List.nodup_cons] at hn
    rcases List.mem_cons.1 ha with rfl | ha' <;> rcases List.mem_cons.1 hb with rfl | hb'
    · rfl
    · exact absurd (List.mem_map.2 ⟨b, hb', hk.symm⟩) hn.1
    · exact absurd (List.mem_map.2 ⟨a, ha', hk⟩) hn.1
    · exact ih ha' hb' hn.2

theorem Store.children_good {s : Store} (hs : Store.NoDupKeys s) (k : Key) : GoodListing k (s.children k) := by
  unfold Store.children
  constructor
  · rw [List.map_map]
    exact List.Nodup.sublist (List.Sublist.map _ List.filter_sublist) hs
  · intro e he
    obtain ⟨kv, hkv, rfl⟩ := List.mem_map.1 he
    simpa using (List.mem_filter.1 hkv).2

/-- Only `listDir` answers with a listing, and then with a good one. -/
theorem applyOp_listing_good (e : Bool) {s : Store} (hs : Store.NoDupKeys s) (o : Op) {xs : List DirEnt}
    (h : (applyOp e s o).2 = .listing xs) : GoodListing o.key xs := by
  cases o with
  | listDir k =>
    simp only [applyOp] at h
    split at h <;> first | (cases h; exact Store.children_good hs k) | cases h
  | read k => simp only [applyOp] at h; split at h <;> cases h
  | write k v m => simp only [applyOp] at h; (repeat' split at h) <;> cases h
  | createDir k => simp only [applyOp] at h; (repeat' split at h) <;> cases h
  | metadata k => simp only [applyOp] at h; split at h <;> cases h
  | removeFile k => simp only [applyOp] at h; split at h <;> cases h
  | removeDirAll k => simp only [applyOp] at h; split at h <;> cases h

theorem Resp.Equiv.symm {a b : Resp} (h : Resp.Equiv a b) : Resp.Equiv b a := by
  cases h with
  | listing hp => exact .listing hp.symm
  | refl => exact .refl _

/-- **Every storage operation respects store equivalence**: on equivalent stores the resulting
stores are equivalent and the responses agree up to the order of a listing; for every operation
other than `listDir` the responses are equal. -/
theorem applyOp_equiv (e : Bool) {s t : Store} (h : StoreEquiv s t) (hs : Store.NoDupKeys s) (ht : Store.NoDupKeys t)
    (o : Op) :
    StoreEquiv (applyOp e s o).1 (applyOp e t o).1 ∧
    Resp.Equiv (applyOp e s o).2 (applyOp e t o).2 ∧
    (o.verb ≠ .listDir → (applyOp e s o).2 = (applyOp e t o).2) := by
  cases o with
  | read k =>
    simp only [applyOp, ← h k]
    split <;> exact ⟨h, .refl _, fun _ => rfl⟩
  | write k v m =>
    simp only [applyOp, ← h k, ← h.parentOk k]
    (repeat' split) <;> first | exact ⟨h, .refl _, fun _ => rfl⟩ | exact ⟨h.put _ _, .refl _, fun _ => rfl⟩
  | listDir k =>
    simp only [applyOp, ← h k]
    split
    · exact ⟨h, .refl _, fun _ => rfl⟩
    · exact ⟨h, .listing (h.children hs ht k), fun hv => absurd rfl hv⟩
    · exact ⟨h, .refl _, fun _ => rfl⟩
  | createDir k =>
    simp only [applyOp, ← h.has k, ← h.parentOk k]
    (repeat' split) <;> first | exact ⟨h, .refl _, fun _ => rfl⟩ | exact ⟨h.put _ _, .refl _, fun _ => rfl⟩
  | metadata k =>
    simp only [applyOp, ← h k]
    split <;> exact ⟨h, .refl _, fun _ => rfl⟩
  | removeFile k =>
    simp only [applyOp, ← h k]
    split <;> first | exact ⟨h, .refl _, fun _ => rfl⟩ | exact ⟨h.erase _, .refl _, fun _ => rfl⟩
  | removeDirAll k =>
    simp only [applyOp, ← h k]
    split <;> first | exact ⟨h, .refl _, fun _ => rfl⟩ | exact ⟨h.eraseTree _, .refl _, fun _ => rfl⟩

end Conserve
