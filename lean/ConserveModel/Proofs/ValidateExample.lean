import ConserveModel.Proofs.ValidateSilent
/-
Concrete archives for the non-vacuity examples and the witnesses of Props/C09.lean
(hash function: the identity, so block `[1,2,3]` holds the bytes `[1,2,3]`).

`sortNat` is `List.mergeSort` (well-founded recursion the kernel does not unfold), so the band
ids and hunk numbers of each store are computed once by hand, like in Props/C08.lean.
-/
set_option linter.unusedSimpArgs false
namespace Conserve.C09Ex
open Conserve

def eRoot : IndexEntry :=
  { apath := [47], kind := .dir, mtime := 0, mtimeNanos := 0, unixMode := none, user := none,
    group := none, addrs := [], target := none }
/-- `/a`: three bytes in block `[1,2,3]`. -/
def eA : IndexEntry :=
  { apath := [47, 97], kind := .file, mtime := 0, mtimeNanos := 0, unixMode := none, user := none,
    group := none, addrs := [{ hash := [1, 2, 3], start := 0, len := 3 }], target := none }
/-- `/b`: an empty file. -/
def eB : IndexEntry :=
  { apath := [47, 98], kind := .file, mtime := 0, mtimeNanos := 0, unixMode := none, user := none,
    group := none, addrs := [], target := none }

/-- One complete version with three hunks (`/`, `/a`, `/b`) and one block. -/
def ex : Store :=
  [(.root, .dir), (.header, .header [48, 46, 54]), (.blockRoot, .dir),
   (.blockDir [1, 2, 3], .dir), (.block [1, 2, 3], .blockData [1, 2, 3]),
   (.bandDir 0, .dir), (.bandHead 0, .head .ok []), (.indexDir 0, .dir), (.hunkDir 0 0, .dir),
   (.hunk 0 0, .hunk [eRoot]), (.hunk 0 1, .hunk [eA]), (.hunk 0 2, .hunk [eB]),
   (.bandTail 0, .tail (some 3))]

/-- `ex` after deleting hunk 1 of 3. -/
def exDel : Store := ex.erase (.hunk 0 1)

/-- One INCOMPLETE version (no tail) with two hunks (`/`, `/a`). -/
def exOpen : Store :=
  [(.root, .dir), (.header, .header [48, 46, 54]), (.blockRoot, .dir),
   (.blockDir [1, 2, 3], .dir), (.block [1, 2, 3], .blockData [1, 2, 3]),
   (.bandDir 0, .dir), (.bandHead 0, .head .ok []), (.indexDir 0, .dir), (.hunkDir 0 0, .dir),
   (.hunk 0 0, .hunk [eRoot]), (.hunk 0 1, .hunk [eA])]

/-- `exOpen` after losing its last hunk. -/
def exOpenDel : Store := exOpen.erase (.hunk 0 1)

/-! ### Band ids and hunk numbers -/

def bandSel (kv : Key × FileVal) : Option Nat :=
  match kv.1, kv.2 with
  | .bandDir b, .dir => some b
  | _, _ => none

theorem bandIdsOf_eq (s : Store) : bandIdsOf s = sortNat (s.filterMap bandSel) := rfl

theorem bandIds_zero {s : Store} (h : s.filterMap bandSel = [0]) : bandIdsOf s = [0] := by
  rw [bandIdsOf_eq, h]; exact C08.sortNat_of_sorted (by decide)

theorem nums_of {s : Store} {b : Nat} {l : List Nat} (h : s.filterMap (hunkSelAll b) = l)
    (hs : l.Pairwise (fun a b => decide (a ≤ b) = true)) : hunkNumsOf s b = l := by
  rw [hunkNumsOf_eq, h]; exact C08.sortNat_of_sorted hs

theorem ex_bandIds : bandIdsOf ex = [0] := bandIds_zero (by decide +kernel)
theorem exDel_bandIds : bandIdsOf exDel = [0] := bandIds_zero (by decide +kernel)
theorem exOpen_bandIds : bandIdsOf exOpen = [0] := bandIds_zero (by decide +kernel)
theorem exOpenDel_bandIds : bandIdsOf exOpenDel = [0] := bandIds_zero (by decide +kernel)

theorem ex_nums : hunkNumsOf ex 0 = [0, 1, 2] := nums_of (by decide +kernel) (by decide)
theorem exDel_nums : hunkNumsOf exDel 0 = [0, 2] := nums_of (by decide +kernel) (by decide)
theorem exOpen_nums : hunkNumsOf exOpen 0 = [0, 1] := nums_of (by decide +kernel) (by decide)
theorem exOpenDel_nums : hunkNumsOf exOpenDel 0 = [0] := nums_of (by decide +kernel) (by decide)

/-! ### Healthy -/

theorem good_of {s : Store} (hids : bandIdsOf s = [0])
    (h1 : (s.get? .header == some (.header [48, 46, 54]) && s.get? .root == some .dir &&
      s.get? .blockRoot == some .dir && blocksConform id s) = true)
    (h2 : (bandConforms id s 0) = true)
    (h3 : keysNodup s = true) (h4 : treeShaped s = true) (h5 : bandReadable s 0 = true)
    (h6 : entriesInRange s = true) : Good id s := by
  refine ⟨?_, h3, h4, ?_, h6⟩
  · unfold Conforms
    rw [hids, h1]
    simp [h2]
  · intro b hb
    rw [hids] at hb
    simp only [List.mem_singleton] at hb
    subst hb
    exact h5

theorem ex_good : Good id ex :=
  good_of ex_bandIds (by decide +kernel)
    (by rw [bandConforms_unfold]; simp only [ex_nums]; decide +kernel)
    (by decide +kernel) (by decide +kernel) (by decide +kernel) (by decide +kernel)

theorem exOpen_good : Good id exOpen :=
  good_of exOpen_bandIds (by decide +kernel)
    (by rw [bandConforms_unfold]; simp only [exOpen_nums]; decide +kernel)
    (by decide +kernel) (by decide +kernel) (by decide +kernel) (by decide +kernel)

theorem exOpenDel_good : Good id exOpenDel :=
  good_of exOpenDel_bandIds (by decide +kernel)
    (by rw [bandConforms_unfold]; simp only [exOpenDel_nums]; decide +kernel)
    (by decide +kernel) (by decide +kernel) (by decide +kernel) (by decide +kernel)

/-! ### The damage -/

theorem exDel_damaged : DamagedAt (.hunk 0 1) none ex exDel :=
  DamagedAt.erase ex_good.nodup ⟨.hunk [eA], by decide +kernel, rfl⟩

theorem exOpenDel_damaged : DamagedAt (.hunk 0 1) none exOpen exOpenDel :=
  DamagedAt.erase exOpen_good.nodup ⟨.hunk [eA], by decide +kernel, rfl⟩

/-! ### Listings -/

theorem listSpec_single {s : Store} {nums : List Nat} (hnums : hunkNumsOf s 0 = nums)
    (hr : bandReadable s 0 = true) :
    listSpec s 0 = (nums.filterMap (usableHunk s 0)).flatten ++
      (if isComplete s 0 then [] else contSpec s 0 (lastOr (nums.filterMap (usableHunk s 0)).flatten none)) := by
  simp only [listSpec, bandEntries, hr, if_true, ownEntries, hnums]

theorem ex_list : listSpec ex 0 = [eRoot, eA, eB] := by
  rw [listSpec_single ex_nums (by decide +kernel)]; decide +kernel
theorem exDel_list : listSpec exDel 0 = [eRoot, eB] := by
  rw [listSpec_single exDel_nums (by decide +kernel)]; decide +kernel
theorem exOpen_list : listSpec exOpen 0 = [eRoot, eA] := by
  rw [listSpec_single exOpen_nums (by decide +kernel)]; decide +kernel
theorem exOpenDel_list : listSpec exOpenDel 0 = [eRoot] := by
  rw [listSpec_single exOpenDel_nums (by decide +kernel)]; decide +kernel

/-- Block `[1,2,3]` is referenced (by `/a` of version 0). -/
theorem ex_referenced : Referenced ex [1, 2, 3] :=
  ⟨0, by rw [ex_bandIds]; simp, eA, by rw [ex_list]; simp, rfl, _, List.mem_singleton.mpr rfl, rfl⟩

/-! ### The pre-repair reader on `exDel` -/

theorem exDel_wf : ArchWF exDel :=
  exDel_damaged.archWF (Key.isLeaf_hunk 0 1) (by simp) ex_good.archWF

theorem exDel_silent (quick : Bool) :
    ((validateSilent id quick).run (World.clean exDel)).2.events = [] := by
  have hread : readHunksP exDel 0 [0, 2] none none = ([eRoot, eB], some [47, 98]) := by decide +kernel
  rw [run_validateSilent_one id quick 0 (hs := [0, 2]) exDel_damaged.uniqueKeys' (by decide +kernel)
    (by decide +kernel) exDel_bandIds ((bandOpenP_ok_iff _ _).mpr (by decide +kernel))
    (by rw [hunksAvailableP_eq exDel_wf (by decide +kernel), exDel_nums]) (by decide +kernel)
    (by rw [hread]; decide +kernel)]
  rw [hread]
  have hl : entryLens [] [eRoot, eB] = [] := by decide +kernel
  simp only [hl, List.filterMap_nil, List.append_nil]
  rw [present_ok_of_nonblock_damage ex_good exDel_damaged (Key.isLeaf_hunk 0 1) (by simp)]
  cases quick <;> rfl

end Conserve.C09Ex
