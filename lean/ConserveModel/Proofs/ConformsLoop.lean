import ConserveModel.Proofs.ConformsEntry
/-
C13: `finish_hunk`, `flush_group` and the main loop of `backup()` in all worlds, with the loop
invariant `LoopSt` (band open with hunks `hs`, numbering, counts, order and shape of everything
buffered).  No property statements here.
-/
namespace Conserve.Conf
open Conserve Conserve.Inv Prog

section
variable {H : Str → Str}

/-- An entry whose addresses resolve (only files have any) and whose path, kind and target are
fine conforms to the format. -/
theorem entryConforms_of {s : Store} {e : IndexEntry} (hok : AddrOK H s e) (hm : MetaOKs (sig e)) :
    entryConforms H s e = true := by
  obtain ⟨hv, hsym, hunk⟩ := hm
  change isValid e.apath = true at hv
  change (e.kind = .symlink ↔ e.target.isSome = true) at hsym
  change e.kind ≠ .unknown at hunk
  unfold entryConforms
  simp only [hv, Bool.true_and]
  cases hk : e.kind with
  | file =>
    simp only [Bool.and_eq_true, List.all_eq_true]
    refine ⟨?_, hok.1⟩
    have : ¬ e.target.isSome = true := fun h => by
      have := hsym.mpr h
      rw [hk] at this; cases this
    cases ht : e.target with
    | none => rfl
    | some t => simp [ht] at this
  | symlink =>
    have ha : e.addrs = [] := hok.2 (by rw [hk]; exact fun h => nomatch h)
    simp [ha, hsym.mp hk]
  | dir =>
    have ha : e.addrs = [] := hok.2 (by rw [hk]; exact fun h => nomatch h)
    have : ¬ e.target.isSome = true := fun h => by
      have := hsym.mpr h
      rw [hk] at this; cases this
    cases ht : e.target with
    | none => simp [ha]
    | some t => simp [ht] at this
  | unknown => exact absurd hk hunk

/-- `finish_hunk`'s sort. -/
def sortHunk (es : List IndexEntry) : List IndexEntry := es.mergeSort fun a b => apathLe a.apath b.apath

/-- What `finish_hunk` needs of the pending entries, given the hunks `hs` already in the band. -/
structure PendOK (H : Str → Str) (s : Store) (hs : List (List IndexEntry)) (pending : List IndexEntry) : Prop where
  ent : ∀ e ∈ pending, entryConforms H s e = true
  nodup : (pending.map (·.apath)).Nodup
  lt : ∀ a ∈ hs.flatten, ∀ e ∈ pending, apathCmp a.apath e.apath = .lt

/-- Writer and hunk list before / after `finish_hunk`. -/
def FinishRel (wr wr' : Writer) (hs hs' : List (List IndexEntry)) : Prop :=
  (wr' = wr ∧ wr.pending = [] ∧ hs' = hs) ∨
  (wr' = { wr with pending := [], sequence := wr.sequence + 1, hunksWritten := wr.hunksWritten + 1 } ∧
    hs' = hs ++ [sortHunk wr.pending])

theorem exec_createDir_bandKeys (w : World) (b : Nat) {k : Key} (hk : ∀ n, k ≠ .hunk b n)
    (ht : k ≠ .bandTail b) (hh : k ≠ .bandHead b) :
    BandKeysSame b w.store (w.exec (.createDir k)).1.store := by
  rcases exec_createDir_cases w k with hs | ⟨_, _, hs⟩
  · exact BandKeysSame.of_eq hs
  · rw [hs]; exact BandKeysSame.put _ _ hk ht hh

/-- `IndexWriter::finish_hunk` in every world: the archive conforms after every micro-step (the
sub-directory creation, the zero-length hunk file, the complete hunk); if it returns, the band is
open with the new hunk appended (or unchanged if nothing was pending). -/
theorem finishHunk_csat (wr : Writer) (w : World) (hs : List (List IndexEntry)) (hw : CWOK H w)
    (hwr : W2 H w.store wr) (hb : BandOpen w.store wr.band hs) (hok : HsOK H w.store hs)
    (hlen : hs.length = wr.sequence) (hp : PendOK H w.store hs wr.pending) :
    CSat H (finishHunk wr) w (fun wr' w' =>
      (∃ hs', BandOpen w'.store wr.band hs' ∧ HsOK H w'.store hs' ∧ FinishRel wr wr' hs hs') ∧
      W2 H w'.store wr') := by
  unfold finishHunk
  simp only [Prog.bind_def, Prog.pure_def]
  split
  · rename_i hemp
    exact CSat.ret hw ⟨⟨hs, hb, hok, Or.inl ⟨rfl, by simpa using hemp, rfl⟩⟩, hwr⟩
  · rename_i hne
    have hne' : sortHunk wr.pending ≠ [] := by
      intro h
      have := (List.mergeSort_perm wr.pending (fun a b => apathLe a.apath b.apath)).length_eq
      unfold sortHunk at h
      rw [h] at this
      have : wr.pending = [] := List.eq_nil_of_length_eq_zero this.symm
      simp [this] at hne
    have hdone : ∀ w', CFrame H w w' →
        W2 H w'.store { wr with pending := [], sequence := wr.sequence + 1, hunksWritten := wr.hunksWritten + 1 } :=
      fun w' hf => ⟨hwr.exists_.mono hf.ext, hwr.queue, (by intro e he; cases he),
        fun e he => (hwr.finished e he).mono hf.ext⟩
    have hwrite : ∀ w1, CFrame H w w1 → BandKeysSame wr.band w.store w1.store →
        CSat H ((performUnit (.write (.hunk wr.band wr.sequence)
            (.hunk (wr.pending.mergeSort fun a b => apathLe a.apath b.apath)) .createNew)).bind fun _ =>
            Prog.ret { wr with pending := [], sequence := wr.sequence + 1, hunksWritten := wr.hunksWritten + 1 })
          w1 (fun wr' w' =>
            (∃ hs', BandOpen w'.store wr.band hs' ∧ HsOK H w'.store hs' ∧ FinishRel wr wr' hs hs') ∧
            W2 H w'.store wr') := by
      intro w1 hf1 hsame
      have hb1 : BandOpen w1.store wr.band hs := hb.same hsame
      have hok1 : HsOK H w1.store hs := hok.mono hf1.ext
      have hx := exec_write_hunk hf1.ci hf1.wok.enforce hb1 hok1 (es := sortHunk wr.pending) hne'
        (fun e he => entryConforms_mono H hf1.ext (hp.ent e (List.mem_mergeSort.mp he)))
        (sorted_hunk hp.nodup)
        (fun a ha e he => hp.lt a ha e (List.mem_mergeSort.mp he))
      rw [hlen] at hx
      apply CSat.bind
      refine (CSat.performUnit hf1.wok (createOnly_write _ _) hx.1).mono ?_
      intro _ w2 hf2 ⟨hw2, hunit⟩
      subst hw2
      exact CSat.ret hf2.wok ⟨⟨hs ++ [sortHunk wr.pending], (hx.2 hunit).1, (hx.2 hunit).2, Or.inr ⟨rfl, rfl⟩⟩,
        hdone _ (hf1.trans hf2)⟩
    split
    · apply CSat.bind
      refine (CSat.performUnit hw (createOnly_createDir _)
        (exec_createDir_plain hw.ci rfl (fun b => touchesBand_hunkDir _ _ b))).mono ?_
      intro _ w1 hf1 ⟨hw1, _⟩
      subst hw1
      exact hwrite _ hf1 (exec_createDir_bandKeys w wr.band (fun _ => by simp) (by simp) (by simp))
    · exact hwrite w (CFrame.refl hw) (BandKeysSame.refl _ _)

/-- The loop invariant: the writer invariant `W2`; the band is open with hunks `hs`, which are
fine; `sequence` is the number of hunk files and `hunksWritten` agrees; the buffered entries are
well-shaped, pairwise distinct, above everything written and below everything still to come. -/
structure LoopSt (H : Str → Str) (todo : List SrcEntry)
    (hs : List (List IndexEntry)) (s : Store) (wr : Writer) : Prop where
  wok : W2 H s wr
  band : BandOpen s wr.band hs
  hsok : HsOK H s hs
  len : hs.length = wr.sequence
  count : wr.hunksWritten = wr.sequence
  buf : BufOK todo (hs.flatten.map (·.apath)) (bufSig wr)

theorem BufOK.nil_of {todo : List SrcEntry} {written : List Str} {a : List Sig} (h : BufOK todo written a) :
    BufOK todo written [] :=
  ⟨(by intro g hg; cases hg), List.nodup_nil, (by intro g hg; cases hg), (by intro x _ g hg; cases hg),
   h.written_todo⟩

theorem mem_bufSig_of_mem {wr : Writer} {e : IndexEntry} (h : e ∈ bufEntries wr) : sig e ∈ bufSig wr :=
  List.mem_map.mpr ⟨e, h, rfl⟩

/-- `BackupWriter::flush_group` in every world: conforming after every micro-step; if it returns,
the loop invariant holds again (with the new hunk, if any) and nothing is buffered any more. -/
theorem flushGroup_csat (hinj : Function.Injective H) (hlen : HashLen H) (wr : Writer) (w : World)
    (todo : List SrcEntry) (hs : List (List IndexEntry)) (hw : CWOK H w)
    (hst : LoopSt H todo hs w.store wr) :
    CSat H (flushGroup H wr) w (fun wr' w' =>
      ∃ hs', LoopSt H todo hs' w'.store wr' ∧ wr'.band = wr.band ∧ bufEntries wr' = []) := by
  unfold flushGroup
  simp only [Prog.bind_def]
  apply CSat.bind
  refine (((combinerFlush_csat hinj hlen wr w hw hst.wok).and_post
    (CSat.of_blk hlen (combinerFlush_blk H wr) hw)).and_ret (combinerFlush_ret H wr)).mono ?_
  rintro ⟨wr1, r⟩ w1 hf1 ⟨⟨⟨hwr1, hq⟩, hsame⟩, hstep, _⟩
  cases r with
  | error e => exact CSat.fail hf1.wok
  | ok u =>
    have hq1 : wr1.queue = [] := hq rfl
    have hbe : bufEntries wr1 = wr1.pending ++ wr1.finished := by simp [bufEntries, hq1]
    have hbuf1 : BufOK todo (hs.flatten.map (·.apath)) (bufSig wr1) :=
      hst.buf.perm (by simpa using hstep.perm)
    have hb1 : BandOpen w1.store wr1.band hs := by
      rw [hstep.band]; exact hst.band.same (hsame.bandKeys _)
    have hok1 : HsOK H w1.store hs := hst.hsok.mono hf1.ext
    have hwrF : W2 H w1.store { wr1 with pending := wr1.pending ++ wr1.finished, finished := [] } := by
      refine ⟨hwr1.exists_, hwr1.queue, ?_, (by intro e he; cases he)⟩
      intro e he
      rcases List.mem_append.mp he with he | he
      · exact hwr1.pending e he
      · exact hwr1.finished e he
    have hmem : ∀ e ∈ wr1.pending ++ wr1.finished, sig e ∈ bufSig wr1 := fun e he =>
      mem_bufSig_of_mem (by rw [hbe]; exact he)
    have hpend : PendOK H w1.store hs (wr1.pending ++ wr1.finished) := by
      refine ⟨?_, ?_, ?_⟩
      · intro e he
        exact entryConforms_of (hwrF.pending e he) (hbuf1.shape _ (hmem e he))
      · have := hbuf1.nodup
        rw [bufSig, hbe, List.map_map] at this
        exact this
      · intro a ha e he
        exact hbuf1.written_lt _ (List.mem_map.mpr ⟨a, ha, rfl⟩) _ (hmem e he)
    refine (finishHunk_csat (H := H)
      { wr1 with pending := wr1.pending ++ wr1.finished, finished := [] } w1 hs hf1.wok hwrF hb1 hok1
      (by rw [hst.len]; exact hstep.seq.symm) hpend).mono ?_
    rintro wr2 w2 hf2 ⟨⟨hs2, hb2, hok2, hrel⟩, hwr2⟩
    rcases hrel with ⟨rfl, hpe, rfl⟩ | ⟨rfl, rfl⟩
    · have hbe2 : bufEntries { wr1 with pending := wr1.pending ++ wr1.finished, finished := [] } = [] := by
        simp only at hpe
        simp [bufEntries, hq1, hpe]
      refine ⟨hs2, ⟨hwr2, hb2, hok2, ?_, ?_, ?_⟩, hstep.band, hbe2⟩
      · rw [hst.len]; exact hstep.seq.symm
      · show wr1.hunksWritten = wr1.sequence
        rw [hstep.hw, hstep.seq]; exact hst.count
      · rw [bufSig, hbe2]; exact hbuf1.nil_of
    · have hbe2 : bufEntries { wr1 with pending := [], finished := [], sequence := wr1.sequence + 1, hunksWritten := wr1.hunksWritten + 1 } = [] := by
        simp [bufEntries, hq1]
      refine ⟨_, ⟨hwr2, hb2, hok2, ?_, ?_, ?_⟩, hstep.band, hbe2⟩
      · simp only [List.length_append, List.length_cons, List.length_nil]
        rw [hst.len, hstep.seq]
      · show wr1.hunksWritten + 1 = wr1.sequence + 1
        rw [hstep.hw, hstep.seq, hst.count]
      · rw [bufSig, hbe2]
        refine ⟨(by intro g hg; cases hg), List.nodup_nil, (by intro g hg; cases hg),
          (by intro x _ g hg; cases hg), ?_⟩
        intro a ha t ht
        simp only [List.flatten_append, List.flatten_cons, List.flatten_nil, List.append_nil,
          List.map_append, List.mem_append] at ha
        rcases ha with ha | ha
        · exact hbuf1.written_todo a ha t ht
        · obtain ⟨e, he, rfl⟩ := List.mem_map.mp ha
          exact hbuf1.lt_todo _ (hmem e (List.mem_mergeSort.mp he)) t ht

end

end Conserve.Conf
