import ConserveModel.Proofs.ExactList
import ConserveModel.Props.C16
/-
The walk of a well-formed source tree (Tree.lean) satisfies the structural clauses of `SrcGood`:
strictly increasing valid paths (C11), kinds and symlink targets, and nothing below a symlink
(from C16 `walk_treeConsistent`).  No property statements here.
-/
set_option linter.unusedSimpArgs false
namespace Conserve.Exact
open Conserve

theorem entry_kind_known (n : Node) (p : Str) : (n.entry p).kind ≠ .unknown := by
  cases n <;> simp [Node.entry]

theorem entry_symlink_target (n : Node) (p : Str) (h : (n.entry p).kind = .symlink) :
    (n.entry p).target.isSome = true := by
  cases n <;> simp_all [Node.entry]

/-- Everything the walk emits below a directory is the `lstat` entry of some node. -/
theorem walkBelow_isEntry (excl : Str → Bool) (f : Forest) :
    ∀ ap, ∀ e ∈ f.walkBelow excl ap, ∃ n p, e = Node.entry n p := by
  induction f using Forest.kids_induction with
  | _ f ih =>
    intro ap e he
    rw [Forest.walkBelow_eq] at he
    rcases List.mem_append.mp he with h | h
    · obtain ⟨p, _, rfl⟩ := List.mem_map.mp h
      exact ⟨_, _, rfl⟩
    · obtain ⟨p, hp, hep⟩ := List.mem_flatMap.mp h
      have hp' : p ∈ f.toList := (mem_live.1 (List.mem_filter.mp (mem_sortBy.mp hp)).1).1
      exact ih p hp' _ e hep

theorem walk_isEntry (T : Node) (excl : Str → Bool) : ∀ e ∈ C11.walk T excl, ∃ n p, e = Node.entry n p := by
  unfold C11.walk
  rw [C11.walk_deque_eq_rec, walkRec_eq]
  intro e he
  rcases List.mem_cons.mp he with rfl | he
  · exact ⟨_, _, rfl⟩
  · exact walkBelow_isEntry excl _ _ e he

/-- The walk of a well-formed tree is a good source listing, given what the tree's metadata must
satisfy entry by entry (sizes are lengths, times representable) and the total size bound. -/
theorem walk_srcGood (T : Node) (excl : Str → Bool) (hwf : T.WF = true)
    (hsize : ∀ sf ∈ C11.walk T excl, sf.kind = .file → sf.size = sf.content.length)
    (htime : ∀ sf ∈ C11.walk T excl,
      -377705023201 * nanosPerSec ≤ sf.mtimeNs ∧ sf.mtimeNs < 253402207201 * nanosPerSec)
    (hbytes : totalSize (C11.walk T excl) < 18446744073709551616) : SrcGood (C11.walk T excl) := by
  have hv := C11.walk_valid T excl hwf
  refine ⟨hsize, C11.walk_sorted T excl hwf, hv, ?_, ?_, htime, ?_, hbytes⟩
  · intro sf hsf
    obtain ⟨n, p, rfl⟩ := walk_isEntry T excl sf hsf
    exact entry_kind_known n p
  · intro sf hsf hk
    obtain ⟨n, p, rfl⟩ := walk_isEntry T excl sf hsf
    exact entry_symlink_target n p hk
  · intro a ha b hb hk _ hne
    let g : SrcEntry → RNode := fun e => { apath := e.apath, kind := e.kind }
    have hC := C16.treeConsistent_confinable (C16.walk_treeConsistent T excl hwf g (fun _ => ⟨rfl, rfl⟩))
    cases hpre : isPrefixOfImpl a.apath b.apath with
    | false => rfl
    | true =>
      rw [C12.prefix_iff_ancestor a.apath b.apath (hv a ha) (hv b hb)] at hpre
      have hp : comps (g a) <+: comps (g b) := List.isPrefixOf_iff_prefix.mp hpre
      have hcne : comps (g a) ≠ comps (g b) := by
        intro e
        apply hne
        have ea := (valid_eq_pathOf (hv a ha)).2
        have eb := (valid_eq_pathOf (hv b hb)).2
        rw [ea, eb]
        exact congrArg pathOf e
      have := hC.anc (g a) (List.mem_map.mpr ⟨a, ha, rfl⟩) (g b) (List.mem_map.mpr ⟨b, hb, rfl⟩) hp hcne
      have hk' : (g a).kind = .symlink := hk
      rw [this] at hk'
      cases hk'

end Conserve.Exact
