import ConserveModel.Props.C11
/-
Helper lemmas for C12: byte-level prefix test = whole-component ancestry.
-/
namespace Conserve

theorem splitSlash_append_slash (x y : Str) :
    splitSlash (x ++ slash :: y) = splitSlash x ++ splitSlash y := by
  induction x with
  | nil => simp [splitSlash]
  | cons c x ih =>
    simp only [List.cons_append]
    by_cases hc : c = slash
    · rw [splitSlash, if_pos hc, ih, splitSlash, if_pos hc]; rfl
    · rw [splitSlash, if_neg hc, ih, splitSlash, if_neg hc]
      cases hx : splitSlash x with
      | nil => exact absurd hx (splitSlash_ne_nil x)
      | cons p ps => rfl

theorem joinSlash_append {P Q : List Str} (hP : P ≠ []) (hQ : Q ≠ []) :
    joinSlash (P ++ Q) = joinSlash P ++ slash :: joinSlash Q := by
  induction P with
  | nil => exact absurd rfl hP
  | cons p ps ih =>
    cases ps with
    | nil =>
      cases Q with
      | nil => exact absurd rfl hQ
      | cons q qs => simp [joinSlash]
    | cons p2 ps =>
      have := ih (by simp)
      simp only [List.cons_append] at this ⊢
      rw [joinSlash_cons_cons, this, joinSlash_cons_cons]
      simp

/-- Component lists are in the prefix relation exactly when the byte strings are equal or
the longer continues with a slash. -/
theorem splitSlash_prefix_iff (x z : Str) :
    (splitSlash x).isPrefixOf (splitSlash z) = true ↔ z = x ∨ ∃ y, z = x ++ slash :: y := by
  rw [List.isPrefixOf_iff_prefix]
  constructor
  · rintro ⟨Q, hQ⟩
    cases Q with
    | nil =>
      left
      rw [List.append_nil] at hQ
      exact (splitSlash_injective hQ).symm
    | cons q qs =>
      right
      refine ⟨joinSlash (q :: qs), ?_⟩
      have h1 := joinSlash_append (splitSlash_ne_nil x) (List.cons_ne_nil q qs)
      rw [hQ, joinSlash_splitSlash, joinSlash_splitSlash] at h1
      exact h1
  · rintro (h | ⟨y, h⟩)
    · rw [h]; exact List.prefix_refl _
    · rw [h, splitSlash_append_slash]; exact List.prefix_append _ _

/-- The byte-level test of the repaired `is_prefix_of`, for a subtree not ending in a slash. -/
theorem isPrefixOfImpl_iff (s a : Str) (hs : s.getLast? ≠ some slash) :
    isPrefixOfImpl s a = true ↔ a = s ∨ ∃ y, a = s ++ slash :: y := by
  unfold isPrefixOfImpl
  constructor
  · intro h
    split at h
    · exact absurd h (by simp)
    · split at h
      · left; exact (eq_of_beq h).symm
      · rename_i h1 h2
        right
        simp only [Bool.and_eq_true, Bool.or_eq_true, beq_iff_eq] at h
        obtain ⟨hp, hl | hn⟩ := h
        · exact absurd hl hs
        · rw [List.isPrefixOf_iff_prefix] at hp
          obtain ⟨t, rfl⟩ := hp
          cases t with
          | nil => simp at h2
          | cons c t =>
            simp at hn
            exact ⟨t, by rw [hn]⟩
  · rintro (h | ⟨y, h⟩)
    · subst h; simp
    · subst h
      have h1 : ¬ s.length > (s ++ slash :: y).length := by simp
      have h2 : ¬ s.length = (s ++ slash :: y).length := by simp
      simp [h1, h2]

theorem getLast?_slash_split (rs : Str) (h : rs.getLast? = some slash) : [] ∈ splitSlash rs := by
  obtain ⟨x, rfl⟩ : ∃ x, rs = x ++ [slash] := by
    rw [List.getLast?_eq_some_iff] at h
    exact h
  rw [splitSlash_append_slash]
  simp [splitSlash]

theorem components_cons (rs : Str) (h : rs ≠ []) : components (slash :: rs) = splitSlash rs := by
  unfold components
  cases rs with
  | nil => exact absurd rfl h
  | cons c cs => simp

end Conserve
