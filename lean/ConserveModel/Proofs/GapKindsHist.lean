import ConserveModel.Props.C13
/-
C14p residuals, part 3: lifting a one-step store invariant over the archives a `C13` history visits
(`C13.states`).  No property statements here.
-/
namespace Conserve.Gaps.Kinds
open Conserve

/-- If every admissible step keeps `I`, every archive a history of admissible steps visits from an
archive satisfying `I` satisfies `I`. -/
theorem states_inv {H : Str → Str} {I : Store → Prop} {A : C13.Step → Prop}
    (hstep : ∀ st s, A st → I s → I (st.run H s)) :
    ∀ (hist : List C13.Step), (∀ st ∈ hist, A st) → ∀ s, I s → ∀ s' ∈ C13.states H hist s, I s' := by
  intro hist
  induction hist with
  | nil =>
    intro _ s hi s' hs'
    simp only [C13.states, List.mem_singleton] at hs'
    subst hs'; exact hi
  | cons st rest ih =>
    intro hA s hi s' hs'
    simp only [C13.states, List.mem_cons] at hs'
    rcases hs' with rfl | hs'
    · exact hi
    · exact ih (fun st' h' => hA st' (List.mem_cons_of_mem _ h')) _
        (hstep st s (hA st (List.mem_cons_self ..)) hi) s' hs'

/-- The last archive of a history is one of those it visits. -/
theorem final_mem_states (H : Str → Str) (hist : List C13.Step) (s : Store) :
    hist.foldl (fun s st => st.run H s) s ∈ C13.states H hist s := by
  induction hist generalizing s with
  | nil => simp [C13.states]
  | cons st rest ih =>
    simp only [List.foldl_cons, C13.states, List.mem_cons]
    exact Or.inr (ih _)

end Conserve.Gaps.Kinds
