import ConserveModel.Proofs.NoPanicLogic
import ConserveModel.Validate
/-
No panic on the read side (property C10): archive and band functions, the index reader
(`readHunk` only returns entries that pass `IndexEntry::check`), the stitched listing, the
exclusion filter, restore and validate.  No property statements here.
-/
namespace Conserve.NP
open Conserve Prog

/-- Every entry passes `IndexEntry::check`. -/
def AllUsable (es : List IndexEntry) : Prop := ∀ e ∈ es, entryUsable e = true

theorem AllUsable.nil : AllUsable [] := fun _ h => nomatch h

theorem AllUsable.append {xs ys : List IndexEntry} (hx : AllUsable xs) (hy : AllUsable ys) :
    AllUsable (xs ++ ys) := fun e he => by
  rcases List.mem_append.mp he with h | h
  · exact hx e h
  · exact hy e h

theorem AllUsable.sub {xs ys : List IndexEntry} (hy : AllUsable ys) (h : ∀ e ∈ xs, e ∈ ys) :
    AllUsable xs := fun e he => hy e (h e he)

theorem AllUsable.cons {x : IndexEntry} {xs : List IndexEntry} (hx : entryUsable x = true)
    (hxs : AllUsable xs) : AllUsable (x :: xs) := fun e he => by
  rcases List.mem_cons.mp he with rfl | h
  · exact hx
  · exact hxs e h

theorem allUsable_iff (es : List IndexEntry) : AllUsable es ↔ es.all entryUsable = true := by
  simp [AllUsable, List.all_eq_true]

/-! ### What a usable entry gives -/

theorem usable_valid {e : IndexEntry} (h : entryUsable e = true) : isValid e.apath = true := by
  simp only [entryUsable, Bool.and_eq_true] at h
  exact h.1.1.1.1

theorem usable_time {e : IndexEntry} (h : entryUsable e = true) :
    ∃ t, entryTimeNs e.mtime e.mtimeNanos = some t := by
  simp only [entryUsable, Bool.and_eq_true] at h
  exact Option.isSome_iff_exists.mp h.1.1.1.2

/-! ### Archive and band level -/

theorem isFile_safe (k : Key) : Safe (fun _ => True) (isFile k) := by
  unfold isFile
  simp only [Prog.bind_def, Prog.pure_def]
  repeat safe_step

theorem archiveOpen_safe : Safe (fun _ => True) archiveOpen := by
  unfold archiveOpen
  simp only [Prog.bind_def, Prog.pure_def]
  repeat safe_step

theorem listBandIds_safe : Safe (fun _ => True) listBandIds := by
  unfold listBandIds
  simp only [Prog.bind_def, Prog.pure_def]
  repeat safe_step

theorem lastBandId_safe : Safe (fun _ => True) lastBandId := by
  unfold lastBandId
  simp only [Prog.bind_def, Prog.pure_def]
  exact Safe.bind' listBandIds_safe (fun _ => .ret trivial)

theorem bandOpen_safe (b : Nat) : Safe (fun _ => True) (bandOpen b) := by
  unfold bandOpen
  simp only [Prog.bind_def, Prog.pure_def]
  repeat safe_step

theorem unwrapOr_safe {α : Type} {Q : α → Prop} {p : Prog α} (d : α) (h : Safe Q p) :
    Safe (fun _ => True) (unwrapOr p d) := by
  unfold unwrapOr
  simp only [Prog.bind_def, Prog.pure_def]
  refine Safe.bind' h.attempt_triv (fun r => ?_)
  repeat safe_step

theorem performUnit_safe (o : Op) : Safe (fun _ => True) (performUnit o) := by
  unfold performUnit
  simp only [Prog.bind_def, Prog.pure_def]
  repeat safe_step

theorem bandIsClosed_safe (b : Nat) : Safe (fun _ => True) (bandIsClosed b) := isFile_safe _
theorem bandExists_safe (b : Nat) : Safe (fun _ => True) (bandExists b) := isFile_safe _
theorem gcIsLocked_safe : Safe (fun _ => True) gcIsLocked := isFile_safe _

/-- The second look `backup` takes at the lock never panics. -/
theorem gcLockListed_safe : Safe (fun _ => True) gcLockListed := by
  unfold gcLockListed
  simp only [Prog.bind_def, Prog.pure_def]
  repeat safe_step

theorem lastCompleteBand_go_safe (ids : List Nat) : Safe (fun _ => True) (lastCompleteBand.go ids) := by
  induction ids with
  | nil => exact .ret trivial
  | cons b rest ih =>
    unfold lastCompleteBand.go
    simp only [Prog.bind_def, Prog.pure_def]
    refine Safe.bind' (bandOpen_safe b).attempt_triv (fun r => ?_)
    split
    · exact ih
    · exact ih
    · exact .fail _
    · refine Safe.bind' (bandIsClosed_safe b) (fun c => ?_)
      split
      · exact .ret trivial
      · exact ih

theorem lastCompleteBand_safe : Safe (fun _ => True) lastCompleteBand := by
  unfold lastCompleteBand
  simp only [Prog.bind_def]
  exact Safe.bind' listBandIds_safe (fun _ => lastCompleteBand_go_safe _)

theorem resolveBandId_safe (sel : BandSelection) : Safe (fun _ => True) (resolveBandId sel) := by
  cases sel with
  | latestClosed =>
    unfold resolveBandId
    simp only [Prog.bind_def, Prog.pure_def]
    refine Safe.bind' lastCompleteBand_safe (fun r => ?_)
    repeat safe_step
  | specified b => exact .ret trivial
  | latest =>
    unfold resolveBandId
    simp only [Prog.bind_def, Prog.pure_def]
    refine Safe.bind' lastBandId_safe (fun r => ?_)
    repeat safe_step

theorem listBlocks_go_safe (ps : List Str) (acc : List Str) : Safe (fun _ => True) (listBlocks.go ps acc) := by
  induction ps generalizing acc with
  | nil => exact .ret trivial
  | cons p ps ih =>
    unfold listBlocks.go
    simp only [Prog.bind_def]
    refine Safe.bind' (Safe.perform _) (fun r => ?_)
    split
    · exact ih _
    · exact .fail _
    · exact .fail _

theorem listBlocks_safe : Safe (fun _ => True) listBlocks := by
  unfold listBlocks
  simp only [Prog.bind_def]
  refine Safe.bind' (Safe.perform _) (fun r => ?_)
  split
  · exact listBlocks_go_safe _ _
  · exact .fail _
  · exact .fail _

/-! ### The index reader -/

theorem hunksAvailable_go_safe (b : Nat) (ds acc : List Nat) :
    Safe (fun _ => True) (hunksAvailable.go b ds acc) := by
  induction ds generalizing acc with
  | nil => exact .ret trivial
  | cons d ds ih =>
    unfold hunksAvailable.go
    simp only [Prog.bind_def]
    refine Safe.bind' (Safe.perform _) (fun r => ?_)
    split
    · exact ih _
    · exact .fail _
    · exact .fail _

theorem hunksAvailable_safe (b : Nat) : Safe (fun _ => True) (hunksAvailable b) := by
  unfold hunksAvailable
  simp only [Prog.bind_def]
  refine Safe.bind' (Safe.perform _) (fun r => ?_)
  split
  · exact hunksAvailable_go_safe _ _ _
  · exact .fail _
  · exact .fail _

theorem hunkLengths_go_safe (b : Nat) (ds : List Nat) (acc : List (Nat × Bool)) :
    Safe (fun _ => True) (hunkLengths.go b ds acc) := by
  induction ds generalizing acc with
  | nil => exact .ret trivial
  | cons d ds ih =>
    unfold hunkLengths.go
    simp only [Prog.bind_def]
    refine Safe.bind' (Safe.perform _) (fun r => ?_)
    split
    · exact ih _
    · exact .fail _
    · exact .fail _

theorem hunkLengths_safe (b : Nat) : Safe (fun _ => True) (hunkLengths b) := by
  unfold hunkLengths
  simp only [Prog.bind_def]
  refine Safe.bind' (Safe.perform _) (fun r => ?_)
  split
  · exact hunkLengths_go_safe _ _ _
  · exact .fail _
  · exact .fail _

theorem checkIndexHunks_safe (b : Nat) : Safe (fun _ => True) (checkIndexHunks b) := by
  unfold checkIndexHunks
  simp only [Prog.bind_def, Prog.pure_def]
  refine Safe.bind' (hunkLengths_safe b) (fun hs => ?_)
  repeat safe_step

/-- `IndexRead::read_hunk` returns only entries that pass `IndexEntry::check` — whatever the
storage answers. -/
theorem readHunk_safe (b n : Nat) :
    Safe (fun r => ∀ es, r = some es → AllUsable es) (readHunk b n) := by
  unfold readHunk
  simp only [Prog.bind_def, Prog.pure_def, perform, Prog.op_bind, Prog.ret_bind]
  refine Safe.op _ (fun r => ?_)
  split
  · exact .ret (fun _ h => nomatch h)
  · exact .fail _
  · rename_i es
    split
    · rename_i hall
      refine .ret (fun es' h => ?_)
      cases h
      exact (allUsable_iff _).mpr hall
    · exact .fail _
  · refine .ret (fun es' h => ?_)
    cases h
    exact AllUsable.nil
  · exact .fail _
  · exact .fail _

theorem readHunks_safe (b : Nat) (ns : List Nat) (after last : Option Str) :
    Safe (fun r => AllUsable r.1) (readHunks b ns after last) := by
  induction ns generalizing after last with
  | nil => exact .ret AllUsable.nil
  | cons n rest ih =>
    unfold readHunks
    simp only [Prog.bind_def, Prog.pure_def, logError]
    refine Safe.bind (readHunk_safe b n).attempt (fun r hr => ?_)
    have hcat : ∀ (part : List IndexEntry) a l, AllUsable part →
        Safe (fun r => AllUsable r.1)
          ((readHunks b rest a l).bind fun x => Prog.ret (part ++ x.1, x.2)) := fun part a l hp =>
      Safe.bind (ih a l) (fun x hx => .ret (hp.append hx))
    split
    · exact .ret AllUsable.nil
    · exact .emit _ (Safe.bind' (Q1 := fun _ => True) (.ret trivial) (fun _ => ih _ _))
    · rename_i es
      have hes : AllUsable es := hr _ rfl es rfl
      have htrim : ∀ a, AllUsable (trimAfter a es) := fun a =>
        hes.sub fun e he => (List.dropWhile_sublist _).subset he
      repeat (first
        | exact ih _ _
        | exact hcat es _ _ hes
        | exact hcat _ _ _ (htrim _)
        | split)

theorem readBand_safe (b : Nat) (last : Option Str) :
    Safe (fun r => AllUsable r.1) (readBand b last) := by
  unfold readBand
  simp only [Prog.bind_def, Prog.pure_def, logError]
  refine Safe.bind' (bandOpen_safe b).attempt_triv (fun r => ?_)
  split
  · exact .emit _ (Safe.bind' (Q1 := fun _ => True) (.ret trivial) (fun _ => .ret AllUsable.nil))
  · refine Safe.bind' (hunksAvailable_safe b).attempt_triv (fun r => ?_)
    split
    · exact .emit _ (Safe.bind' (Q1 := fun _ => True) (.ret trivial) (fun _ => .ret AllUsable.nil))
    · refine Safe.bind' (checkIndexHunks_safe b).attempt_triv (fun r => ?_)
      split
      · exact .emit _ (Safe.bind' (Q1 := fun _ => True) (.ret trivial) (fun _ => readHunks_safe _ _ _ _))
      · exact readHunks_safe _ _ _ _

theorem stitchDown_safe (b : Nat) (last : Option Str) : Safe AllUsable (stitchDown b last) := by
  induction b generalizing last with
  | zero => exact .ret AllUsable.nil
  | succ b ih =>
    unfold stitchDown
    simp only [Prog.bind_def, Prog.pure_def]
    refine Safe.bind' (unwrapOr_safe _ (bandExists_safe _)) (fun r => ?_)
    split
    · refine Safe.bind (readBand_safe _ _) (fun x hx => ?_)
      refine Safe.bind' (unwrapOr_safe _ (bandIsClosed_safe _)) (fun r => ?_)
      split
      · exact .ret hx
      · exact Safe.bind (ih _) (fun more hm => .ret (hx.append hm))
    · refine Safe.bind' (unwrapOr_safe _ (isFile_safe _)) (fun r => ?_)
      split
      · exact .emit _ (ih _)
      · exact ih _

/-- Every entry the stitched reader yields passed `IndexEntry::check`. -/
theorem stitchAll_safe (b : Nat) : Safe AllUsable (stitchAll b) := by
  unfold stitchAll
  simp only [Prog.bind_def, Prog.pure_def]
  refine Safe.bind (readBand_safe _ _) (fun x hx => ?_)
  refine Safe.bind' (unwrapOr_safe _ (bandIsClosed_safe _)) (fun r => ?_)
  split
  · exact .ret hx
  · exact Safe.bind (stitchDown_safe _ _) (fun more hm => .ret (hx.append hm))

/-- On usable entries the filter's `assert!(is_valid)` cannot fire; the result is a sublist. -/
theorem filterEntries_safe (subtree : Str) (excl : Str → Bool) (es : List IndexEntry)
    (hes : AllUsable es) :
    Safe (fun r => AllUsable r ∧ ∀ e ∈ r, e ∈ es) (filterEntries subtree excl es) := by
  induction es with
  | nil => exact .ret ⟨AllUsable.nil, fun _ h => nomatch h⟩
  | cons e es ih =>
    have hes' : AllUsable es := hes.sub fun x hx => List.mem_cons_of_mem _ hx
    have hskip : Safe (fun r => AllUsable r ∧ ∀ x ∈ r, x ∈ e :: es) (filterEntries subtree excl es) :=
      (ih hes').mono fun r hr => ⟨hr.1, fun x hx => List.mem_cons_of_mem _ (hr.2 x hx)⟩
    unfold filterEntries
    simp only [Prog.bind_def, Prog.pure_def]
    split
    · exact hskip
    · split
      · rename_i hv
        have := usable_valid (hes e (List.mem_cons_self ..))
        simp [this] at hv
      · split
        · exact hskip
        · refine Safe.bind (ih hes') (fun rest hrest => .ret ⟨?_, ?_⟩)
          · exact AllUsable.cons (hes e (List.mem_cons_self ..)) hrest.1
          · intro x hx
            rcases List.mem_cons.mp hx with rfl | hx
            · exact List.mem_cons_self ..
            · exact List.mem_cons_of_mem _ (hrest.2 x hx)

theorem listEntries_safe (b : Nat) (subtree : Str) (excl : Str → Bool) :
    Safe AllUsable (listEntries b subtree excl) := by
  unfold listEntries
  simp only [Prog.bind_def]
  exact Safe.bind (stitchAll_safe b) (fun es hes => (filterEntries_safe _ _ es hes).mono fun _ h => h.1)

theorem listVersion_safe (sel : BandSelection) (subtree : Str) (excl : Str → Bool) :
    Safe AllUsable (listVersion sel subtree excl) := by
  unfold listVersion
  simp only [Prog.bind_def]
  refine Safe.bind' (resolveBandId_safe sel) (fun b => ?_)
  exact Safe.bind' (bandOpen_safe b) (fun _ => listEntries_safe _ _ _)

end Conserve.NP
