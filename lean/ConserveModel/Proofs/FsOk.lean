import ConserveModel.Proofs.FsMode
/-
Success of the calls restore makes on clean paths whose parent directories exist, with paths
shorter than the resolution step bound.
-/
namespace Conserve

/-- Every proper prefix of `cs` below `D` is an existing directory. -/
def HaveTo (fs : Fs) (D : Path) (cs : List Str) : Prop :=
  ∀ pre, pre <+: cs → pre ≠ cs → fs.isDir (D ++ pre) = true

/-- … and `D ++ cs` itself too. -/
def HaveFull (fs : Fs) (D : Path) (cs : List Str) : Prop :=
  ∀ pre, pre <+: cs → fs.isDir (D ++ pre) = true

theorem HaveFull.to_of_dropLast {fs : Fs} {D : Path} {cs : List Str} (h : HaveFull fs D cs.dropLast) :
    HaveTo fs D cs :=
  fun pre hp hne => h pre (prefix_dropLast_of_ne hp hne)

theorem isDir_kept {fs fs' : Fs} (hk : ∀ q x, fs.node q = some x → ∃ x', fs'.node q = some x' ∧ x'.kind = x.kind)
    {p : Path} (h : fs.isDir p = true) : fs'.isDir p = true := by
  obtain ⟨x, hx, hxk⟩ := Fs.isDir_iff.1 h
  obtain ⟨x', hx', hk'⟩ := hk p x hx
  exact Fs.isDir_iff.2 ⟨x', hx', hk'.trans hxk⟩

theorem HaveTo.kept {fs fs' : Fs} {D : Path} {cs : List Str} (h : HaveTo fs D cs)
    (hk : ∀ q x, fs.node q = some x → ∃ x', fs'.node q = some x' ∧ x'.kind = x.kind) : HaveTo fs' D cs :=
  fun pre hp hne => isDir_kept hk (h pre hp hne)

theorem HaveFull.kept {fs fs' : Fs} {D : Path} {cs : List Str} (h : HaveFull fs D cs)
    (hk : ∀ q x, fs.node q = some x → ∃ x', fs'.node q = some x' ∧ x'.kind = x.kind) : HaveFull fs' D cs :=
  fun pre hp => isDir_kept hk (h pre hp)

theorem resolve_ok {fs : Fs} {D : Path} {cs : List Str} {follow : Bool} (hD : DestOk fs D)
    (hg : ∀ c ∈ cs, goodName c = true) (hlen : (D ++ cs).length < resolveFuel) (hh : HaveTo fs D cs)
    (hfin : follow = false ∨ FinalNotLink fs (D ++ cs)) :
    fs.resolve follow (D ++ cs) = .ok (D ++ cs) := by
  unfold Fs.resolve
  have := walk_clean_ok fs follow resolveFuel maxSymlinks [] (D ++ cs) hlen
    (fun c hc => by
      rcases List.mem_append.1 hc with h1 | h1
      · exact hD.good c h1
      · exact hg c h1)
    (fun _ => hD.dirs [] List.nil_prefix)
    (fun pre hp _ hne => by
      rw [List.nil_append]
      rcases prefix_append_cases hp with h1 | ⟨pre', rfl, h1⟩
      · exact hD.dirs pre h1
      · exact hh pre' h1 (fun e => hne (by rw [e])))
    (by simpa [FinalNotLink] using hfin)
  simpa using this

theorem resolve_missing {fs : Fs} {D : Path} {cs : List Str} {follow : Bool} (hD : DestOk fs D)
    (hg : ∀ c ∈ cs, goodName c = true) (hlen : (D ++ cs).length < resolveFuel) (hc : CleanFull fs D cs)
    (hm : ∃ pre, pre <+: cs ∧ pre ≠ cs ∧ fs.node (D ++ pre) = none) :
    fs.resolve follow (D ++ cs) = .error .ENOENT := by
  obtain ⟨pre, hp, hne, hn⟩ := hm
  unfold Fs.resolve
  refine walk_clean_missing fs follow resolveFuel maxSymlinks [] (D ++ cs) hlen
    (fun c hc' => by
      rcases List.mem_append.1 hc' with h1 | h1
      · exact hD.good c h1
      · exact hg c h1)
    (hD.dirs [] List.nil_prefix)
    (fun q hq _ hne2 => by
      rw [List.nil_append]
      rcases prefix_append_cases hq with h1 | ⟨q', rfl, h1⟩
      · exact noneOrDir_of_isDir (hD.dirs q h1)
      · exact hc q' h1)
    ⟨D ++ pre, (List.prefix_append_right_inj D).2 hp, ?_, fun e => hne (List.append_cancel_left e),
      by simpa using hn⟩
  intro e
  have := hD.dirs [] List.nil_prefix
  rw [e] at hn
  simp [Fs.isDir, hn] at this

/-! ### mkdir and create_dir_all -/

theorem ne_nil_of_node_none {fs : Fs} {D p : Path} (hD : DestOk fs D) (h : fs.node p = none) : p ≠ [] := by
  intro e
  subst e
  have := hD.dirs [] List.nil_prefix
  simp [Fs.isDir, h] at this

theorem isDir_createAt_self {fs : Fs} {p : Path} {x : FNode} (hk : x.kind = .dir) :
    (fs.createAt p x).isDir p = true := by
  by_cases hp : p = p.dropLast
  · exact Fs.isDir_iff.2 ⟨x.touch, by rw [Fs.node_createAt, if_pos hp, if_pos hp.symm]; rfl, hk⟩
  · exact Fs.isDir_iff.2 ⟨x, by rw [Fs.node_createAt, if_neg hp, if_pos rfl], hk⟩

/-- `mkdir` below existing parents: it creates the directory, or says EEXIST for a directory
that is there (and then `is_dir()` says yes). -/
theorem mkdir_have {fs : Fs} {D : Path} {cs : List Str} (hD : DestOk fs D)
    (hg : ∀ c ∈ cs, goodName c = true) (hlen : (D ++ cs).length < resolveFuel) (hh : HaveTo fs D cs)
    (hc : NoneOrDir (fs.node (D ++ cs))) :
    (∃ fs1, fs.mkdir (D ++ cs) = (fs1, .ok ()) ∧ fs1.isDir (D ++ cs) = true) ∨
    (fs.mkdir (D ++ cs) = (fs, .error .EEXIST) ∧ fs.statIsDir (D ++ cs) = true ∧
      fs.isDir (D ++ cs) = true) := by
  unfold Fs.mkdir
  rw [resolve_ok hD hg hlen hh (Or.inl rfl)]
  dsimp only
  cases hn : fs.node (D ++ cs) with
  | none => exact Or.inl ⟨_, rfl, isDir_createAt_self rfl⟩
  | some x =>
    have hd : fs.isDir (D ++ cs) = true := Fs.isDir_iff.2 ⟨x, hn, hc x hn⟩
    refine Or.inr ⟨rfl, ?_, hd⟩
    unfold Fs.statIsDir
    rw [resolve_ok hD hg hlen hh (Or.inr (FinalNotLink.of_noneOrDir hc))]
    exact hd

theorem mkdir_missing {fs : Fs} {D : Path} {cs : List Str} (hD : DestOk fs D)
    (hg : ∀ c ∈ cs, goodName c = true) (hlen : (D ++ cs).length < resolveFuel) (hc : CleanFull fs D cs)
    (hm : ∃ pre, pre <+: cs ∧ pre ≠ cs ∧ fs.node (D ++ pre) = none) :
    fs.mkdir (D ++ cs) = (fs, .error .ENOENT) := by
  unfold Fs.mkdir
  rw [resolve_missing hD hg hlen hc hm]

theorem mkdirAll_ok {D : Path} : ∀ (k : Nat) (fs : Fs) (cs : List Str), cs.length < k → DestOk fs D →
    (∀ c ∈ cs, goodName c = true) → CleanFull fs D cs → (D ++ cs).length < resolveFuel →
    (Fs.mkdirAll k fs (D ++ cs)).2 = .ok () ∧ HaveFull (Fs.mkdirAll k fs (D ++ cs)).1 D cs := by
  intro k
  induction k with
  | zero => intro fs cs h; exact absurd h (Nat.not_lt_zero _)
  | succ k ih =>
    intro fs cs hk hD hg hc hlen
    have full_of : ∀ {fs' : Fs}, HaveTo fs' D cs → fs'.isDir (D ++ cs) = true → HaveFull fs' D cs :=
      fun hto hd pre hp => by
        by_cases e : pre = cs
        · rw [e]; exact hd
        · exact hto pre hp e
    by_cases hh : HaveTo fs D cs
    · -- the parents exist
      rcases mkdir_have hD hg hlen hh (hc cs (List.prefix_refl _)) with ⟨fs1, hmk, hd⟩ | ⟨hmk, hst, hd⟩
      · have G := mkdir_grows hD hg hc.toL
        rw [hmk] at G
        simp only [Fs.mkdirAll, hmk]
        exact ⟨trivial, full_of (hh.kept G.kept) hd⟩
      · simp only [Fs.mkdirAll, hmk, hst, if_true]
        exact ⟨trivial, full_of hh hd⟩
    · -- some parent is missing: ENOENT, create the parent first
      have hm : ∃ pre, pre <+: cs ∧ pre ≠ cs ∧ fs.node (D ++ pre) = none := by
        apply Classical.byContradiction
        intro hcon
        apply hh
        intro pre hp hne
        cases hn : fs.node (D ++ pre) with
        | none => exact absurd ⟨pre, hp, hne, hn⟩ hcon
        | some x => exact Fs.isDir_iff.2 ⟨x, hn, hc pre hp x hn⟩
      have hmk := mkdir_missing hD hg hlen hc hm
      have hcs : cs ≠ [] := by
        obtain ⟨pre, hp, hne, _⟩ := hm
        intro e; subst e
        exact hne (List.prefix_nil.1 hp)
      have hpne : D ++ cs ≠ [] := by simp [hcs]
      have hpre : cs.dropLast <+: cs := List.dropLast_prefix cs
      have hlen' : (D ++ cs.dropLast).length < resolveFuel := by
        have := hpre.length_le
        simp only [List.length_append] at hlen ⊢
        omega
      have hk' : cs.dropLast.length < k := by
        rw [List.length_dropLast]
        have := List.length_pos_iff.2 hcs
        omega
      have hg' : ∀ c ∈ cs.dropLast, goodName c = true := fun c h => hg c (List.dropLast_subset cs h)
      obtain ⟨hok, hfull⟩ := ih fs cs.dropLast hk' hD hg' (hc.prefix hpre) hlen'
      have G1 := mkdirAll_grows k fs cs.dropLast hD hg' (hc.prefix hpre).toL
      simp only [Fs.mkdirAll, hmk, hpne, if_false, dropLast_dest_append hcs]
      rcases hr : Fs.mkdirAll k fs (D ++ cs.dropLast) with ⟨fs1, r⟩
      rw [hr] at hok hfull G1
      dsimp only at hok
      subst hok
      dsimp only at hfull ⊢
      have hD1 := G1.destOk hD
      have hc1 : CleanFull fs1 D cs := G1.cleanFull hc
      have hto1 : HaveTo fs1 D cs := hfull.to_of_dropLast
      rcases mkdir_have hD1 hg hlen hto1 (hc1 cs (List.prefix_refl _)) with ⟨fs2, hmk2, hd2⟩ | ⟨hmk2, hst2, hd2⟩
      · have G2 := mkdir_grows hD1 hg hc1.toL
        rw [hmk2] at G2
        simp only [hmk2]
        exact ⟨trivial, full_of (hto1.kept G2.kept) hd2⟩
      · simp only [hmk2, hst2, if_true]
        exact ⟨trivial, full_of hto1 hd2⟩

end Conserve
