import ConserveModel.Proofs.BackupBlock
/-
The small-file combiner (`FileCombiner`): its invariant, `push_file` and `flush` in all worlds,
and a refutation of the behaviour before the repair of D5.  No property statements here.
-/
namespace Conserve.Inv
open Conserve Prog

/-- `IndexEntry::metadata_from` as a total function (after the repair of D3). -/
def metaOf (o : BackupOpts) (s : SrcEntry) : IndexEntry :=
  { apath := s.apath, kind := s.kind, mtime := s.mtimeNs.fdiv nanosPerSec,
    mtimeNanos := (s.mtimeNs.fmod nanosPerSec).toNat,
    unixMode := some s.unixMode,
    user := if o.owner then s.user else none,
    group := if o.owner then s.group else none,
    addrs := [], target := s.target }

/-- The repaired `metadata_from` never panics. -/
theorem metadataFrom_eq (o : BackupOpts) (s : SrcEntry) : metadataFrom o s = some (metaOf o s) := rfl

theorem metadataFrom_isSome (o : BackupOpts) (s : SrcEntry) : (metadataFrom o s).isSome = true := rfl

/-- One queued small file: its slice of the buffer is its source content. -/
def QueuedOK (src : List SrcEntry) (buf : Str) (q : Nat × Nat × IndexEntry) : Prop :=
  q.2.2.kind = .file ∧ q.1 + q.2.1 ≤ buf.length ∧
    ∃ sf ∈ src, sf.apath = q.2.2.apath ∧ sf.kind = .file ∧
      (buf.drop q.1).take q.2.1 = sf.content.take sf.size

/-- Combiner invariant: every queued `(start, len, entry)` describes the buffer. -/
def CombOK (src : List SrcEntry) (wr : Writer) : Prop :=
  ∀ q ∈ wr.queue, QueuedOK src wr.buf q

theorem QueuedOK.append {src : List SrcEntry} {buf : Str} {q : Nat × Nat × IndexEntry}
    (h : QueuedOK src buf q) (more : Str) : QueuedOK src (buf ++ more) q := by
  obtain ⟨h1, h2, sf, h3, h4, h5, h6⟩ := h
  refine ⟨h1, by simp only [List.length_append]; omega, sf, h3, h4, h5, ?_⟩
  rw [← h6, List.drop_append_of_le_length (by omega), List.take_append_of_le_length]
  simp only [List.length_drop]; omega

/-- The writer part of the backup invariant. -/
structure WriterOK (H : Str → Str) (src : List SrcEntry) (s : Store) (wr : Writer) : Prop where
  exists_ : ExistsOK H s wr.exists_
  comb : CombOK src wr
  pending : ∀ e ∈ wr.pending, EntryOK H src s e
  finished : ∀ e ∈ wr.finished, EntryOK H src s e

theorem WriterOK.mono {H : Str → Str} {src : List SrcEntry} {s s' : Store} {wr : Writer}
    (h : WriterOK H src s wr) (hx : Extends s s') : WriterOK H src s' wr :=
  ⟨h.exists_.mono hx, h.comb, fun e he => (h.pending e he).mono hx, fun e he => (h.finished e he).mono hx⟩

section
variable {H : Str → Str} {src : List SrcEntry} {s0 : Store}

/-- One address into a present block reads the slice. -/
theorem readBack_single {s : Store} {buf : Str} {start len : Nat}
    (hb : blockContent H s (H buf) = some buf) (hle : start + len ≤ buf.length) :
    readBack H s [{ hash := H buf, start := start, len := len }] = some ((buf.drop start).take len) := by
  simp [readBack, readAddrPure, hb, sliceOf, hle]

/-- `FileCombiner::flush` in every world: always returns; keeps the world and writer
invariants whether the store succeeded or failed (the repaired D5: on failure the buffer
is put back, so the queue still describes it); does not touch the pending entries. -/
theorem combinerFlush_spec (hinj : Function.Injective H) (wr : Writer) (w : World)
    (hw : WOK H src s0 w) (hwr : WriterOK H src w.store wr) :
    ∃ wr' r w', (combinerFlush H wr).run w = (.ok (wr', r), w') ∧
      Frame H src s0 w w' ∧ WriterOK H src w'.store wr' ∧ wr'.pending = wr.pending ∧
      (r = .ok () → wr'.queue = []) := by
  unfold combinerFlush
  by_cases hq : wr.queue.isEmpty = true
  · simp only [hq, if_true, Prog.pure_def, Prog.run_ret]
    exact ⟨wr, .ok (), w, rfl, Frame.refl hw, hwr, rfl, fun _ => by simpa using hq⟩
  · simp only [hq, Bool.false_eq_true, ↓reduceIte, Prog.pure_def, Prog.bind_def]
    obtain ⟨ex', st', r, w', hrun, hf, hex, hok, herr⟩ :=
      storeOrDedup_spec hinj { wr with buf := [] } wr.buf w hw hwr.exists_
    rw [Prog.run_bind, hrun]
    cases r with
    | error e =>
      simp only [Prog.run_ret]
      refine ⟨_, _, w', rfl, hf, ⟨?_, ?_, ?_, ?_⟩, rfl, fun h => by cases h⟩
      · exact hex
      · exact hwr.comb
      · exact fun e he => (hwr.pending e he).mono hf.ext
      · exact fun e he => (hwr.finished e he).mono hf.ext
    | ok h =>
      obtain ⟨rfl, hb⟩ := hok _ rfl
      simp only [Prog.run_ret]
      refine ⟨_, _, w', rfl, hf, ⟨?_, ?_, ?_, ?_⟩, rfl, fun _ => rfl⟩
      · exact hex
      · intro q hq'; cases hq'
      · exact fun e he => (hwr.pending e he).mono hf.ext
      · intro e he
        simp only [List.mem_append, List.mem_map] at he
        rcases he with he | ⟨q, hq', rfl⟩
        · exact (hwr.finished e he).mono hf.ext
        · obtain ⟨start, len, e0⟩ := q
          obtain ⟨hk, hle, sf, hsf, hap, hkf, hsl⟩ := hwr.comb _ hq'
          refine ⟨fun _ => ⟨sf, hsf, hap, hkf, ?_⟩, fun hne => absurd hk hne⟩
          simp only at hle hsl ⊢
          rw [readBack_single hb hle, hsl]

/-- `FileCombiner::push_file` for a small source file, in every world. -/
theorem combinerPush_spec (hinj : Function.Injective H) (o : BackupOpts) (wr : Writer) (sf : SrcEntry)
    (w : World) (hw : WOK H src s0 w) (hwr : WriterOK H src w.store wr)
    (hsrc : sf ∈ src) (hkind : sf.kind = .file) :
    ∃ wr' r w', (combinerPush H o wr sf).run w = (.ok (wr', r), w') ∧
      Frame H src s0 w w' ∧ WriterOK H src w'.store wr' ∧ wr'.pending = wr.pending := by
  unfold combinerPush
  simp only [metadataFrom_eq, Prog.pure_def]
  by_cases hd : (sf.content.take sf.size).isEmpty = true
  · simp only [hd, if_true, Prog.run_ret]
    refine ⟨_, _, w, rfl, Frame.refl hw, ⟨hwr.exists_, hwr.comb, hwr.pending, ?_⟩, rfl⟩
    intro e he
    simp only [List.mem_append, List.mem_singleton] at he
    rcases he with he | rfl
    · exact hwr.finished e he
    · refine ⟨fun _ => ⟨sf, hsrc, rfl, hkind, ?_⟩, fun hne => absurd hkind hne⟩
      have : sf.content.take sf.size = [] := by simpa using hd
      simp [metaOf, readBack, this]
  · simp only [hd, Bool.false_eq_true, ↓reduceIte]
    have hwr2 : WriterOK H src w.store
        { wr with buf := wr.buf ++ sf.content.take sf.size,
                  queue := wr.queue ++ [(wr.buf.length, (sf.content.take sf.size).length, metaOf o sf)],
                  stats := { wr.stats with smallCombinedFiles := wr.stats.smallCombinedFiles + 1 } } := by
      refine ⟨hwr.exists_, ?_, hwr.pending, hwr.finished⟩
      intro q hq
      simp only [List.mem_append, List.mem_singleton] at hq
      rcases hq with hq | rfl
      · exact (hwr.comb q hq).append _
      · refine ⟨hkind, by simp, sf, hsrc, rfl, hkind, ?_⟩
        generalize sf.content.take sf.size = d
        simp
    split
    · obtain ⟨wr', r, w', hrun, hf, hwr', hp, _⟩ := combinerFlush_spec hinj _ w hw hwr2
      exact ⟨wr', r, w', hrun, hf, hwr', hp⟩
    · exact ⟨_, _, w, rfl, Frame.refl hw, hwr2, rfl⟩

end

/-! ### The behaviour before the repair of D5 breaks the combiner invariant -/

/-- `FileCombiner::flush` as it was before the repair: on a failed store the buffer stays
taken (empty) while the queue is kept. -/
def combinerFlushLosing (H : Str → Str) (w : Writer) : Prog (Writer × Except Err Unit) := do
  if w.queue.isEmpty then pure (w, .ok ())
  else
    let data := w.buf
    let w := { w with buf := [] }
    let (w, r) ← storeOrDedup H w data
    match r with
    | .error e => pure (w, .error e)
    | .ok h =>
      let done := w.queue.map fun (start, len, e) => { e with addrs := [{ hash := h, start := start, len := len }] }
      pure ({ w with finished := w.finished ++ done, queue := [],
                     stats := { w.stats with combinedBlocks := w.stats.combinedBlocks + 1 } }, .ok ())

namespace LosingExample

def fa : SrcEntry := { apath := [47, 97], kind := .file, mtimeNs := 0, unixMode := 420, user := none,
                       group := none, size := 1, content := [1] }
def fb : SrcEntry := { apath := [47, 98], kind := .file, mtimeNs := 0, unixMode := 420, user := none,
                       group := none, size := 1, content := [2] }
def src : List SrcEntry := [fa, fb]
def opts : BackupOpts := {}
/-- Two small files queued in the combiner. -/
def wr : Writer := { band := 0, buf := [1, 2], queue := [(0, 1, metaOf opts fa), (1, 1, metaOf opts fb)] }
/-- A world in which the first write of the combined block fails. -/
def world : World :=
  { store := [(.root, .dir), (.blockRoot, .dir)],
    faults := [{ at_ := { verb := .write, key := .block [1, 2], nth := 0 }, kind := .other }] }

theorem wr_ok : CombOK src wr := by
  intro q hq
  simp only [wr, List.mem_cons, List.not_mem_nil, or_false] at hq
  rcases hq with rfl | rfl
  · exact ⟨rfl, by decide, fa, by simp [src], rfl, rfl, rfl⟩
  · exact ⟨rfl, by decide, fb, by simp [src], rfl, rfl, rfl⟩

/-- The writer the pre-repair flush leaves behind: queue kept, buffer gone. -/
def wrAfter : Writer := { wr with buf := [] }

theorem run_eq : ((combinerFlushLosing id wr).run world).1 = .ok (wrAfter, .error (.transport .other)) := by
  rfl

theorem after_not_ok : ¬ CombOK src wrAfter := by
  intro h
  have := (h (0, 1, metaOf opts fa) (by simp [wrAfter, wr])).2.1
  simp [wrAfter] at this

end LosingExample

/-- The flush as it was before the repair of D5 does NOT preserve the combiner invariant: two
queued small files, the store of their combined block fails, and the writer is left with the
queue describing a buffer that is gone (a later flush would record both files with addresses
into a block that does not contain their bytes). -/
theorem combinerFlushLosing_breaks :
    ∃ (src : List SrcEntry) (wr wr' : Writer) (w : World) (e : Err),
      CombOK src wr ∧ ((combinerFlushLosing id wr).run w).1 = .ok (wr', .error e) ∧ ¬ CombOK src wr' :=
  ⟨LosingExample.src, LosingExample.wr, LosingExample.wrAfter, LosingExample.world, _,
   LosingExample.wr_ok, LosingExample.run_eq, LosingExample.after_not_ok⟩

/-- The repaired flush on the same example keeps it. -/
example : ∃ wr' e, ((combinerFlush id LosingExample.wr).run LosingExample.world).1 = .ok (wr', .error e) ∧
    CombOK LosingExample.src wr' :=
  ⟨LosingExample.wr, .transport .other, rfl, LosingExample.wr_ok⟩

end Conserve.Inv
