import ConserveModel.Invariants
/-
Lemmas about the association-list store: `get?` after `put` / `erase` / `eraseTree`, and which
keys one storage operation can change (`Op.affects`).  No property statements here.
-/
namespace Conserve

/-- `∀ k, get? k` equality: the two association lists denote the same store. -/
def StoreEq (s s' : Store) : Prop := ∀ k, s.get? k = s'.get? k

theorem StoreEq.refl (s : Store) : StoreEq s s := fun _ => rfl
theorem StoreEq.symm {s s' : Store} (h : StoreEq s s') : StoreEq s' s := fun k => (h k).symm
theorem StoreEq.trans {a b c : Store} (h₁ : StoreEq a b) (h₂ : StoreEq b c) : StoreEq a c :=
  fun k => (h₁ k).trans (h₂ k)

/-- `lookup` in a list filtered by a predicate on keys. -/
theorem lookup_filter_key (p : Key → Bool) (s : Store) (k : Key) :
    (s.filter fun kv => p kv.1).lookup k = if p k then s.lookup k else none := by
  induction s with
  | nil => simp
  | cons kv s ih =>
    obtain ⟨k', v⟩ := kv
    by_cases hp : p k' = true
    · simp only [List.filter_cons, hp, if_true, List.lookup_cons]
      by_cases hk : k = k'
      · subst hk; simp [hp]
      · have : (k == k') = false := by simpa using hk
        simp only [this, ih]
    · have hp' : p k' = false := by simpa using hp
      simp only [List.filter_cons, hp', Bool.false_eq_true, if_false, List.lookup_cons, ih]
      by_cases hk : k = k'
      · subst hk; simp [hp']
      · have : (k == k') = false := by simpa using hk
        simp only [this]

theorem Store.get?_filter_key (p : Key → Bool) (s : Store) (k : Key) :
    Store.get? (s.filter fun kv => p kv.1) k = if p k then s.get? k else none :=
  lookup_filter_key p s k

@[simp] theorem Store.get?_erase_self (s : Store) (k : Key) : (s.erase k).get? k = none := by
  have := Store.get?_filter_key (fun k' => k' != k) s k
  simpa [Store.erase] using this

theorem Store.get?_erase_ne (s : Store) {k k' : Key} (h : k' ≠ k) :
    (s.erase k).get? k' = s.get? k' := by
  have := Store.get?_filter_key (fun x => x != k) s k'
  simpa [Store.erase, h] using this

theorem Store.get?_erase_ite (s : Store) (k k' : Key) :
    (s.erase k).get? k' = if k' = k then none else s.get? k' := by
  by_cases h : k' = k
  · subst h; simp
  · simp [h, Store.get?_erase_ne s h]

theorem Store.get?_eraseTree (s : Store) (k k' : Key) :
    (s.eraseTree k).get? k' = if Key.isUnder k k' then none else s.get? k' := by
  have := Store.get?_filter_key (fun x => !(Key.isUnder k x)) s k'
  simp only [Store.eraseTree]
  rw [this]
  cases Key.isUnder k k' <;> simp

theorem Store.get?_append (s t : Store) (k : Key) :
    Store.get? (s ++ t) k = (s.get? k).or (t.get? k) := by
  simp [Store.get?, List.lookup_append]

@[simp] theorem Store.get?_put_self (s : Store) (k : Key) (v : FileVal) :
    (s.put k v).get? k = some v := by
  simp [Store.put, Store.get?_append]
  simp [Store.get?, List.lookup]

theorem Store.get?_put_ne (s : Store) {k k' : Key} (v : FileVal) (h : k' ≠ k) :
    (s.put k v).get? k' = s.get? k' := by
  simp only [Store.put, Store.get?_append, Store.get?_erase_ne s h]
  have : (k' == k) = false := by simpa using h
  simp [Store.get?, List.lookup, this]

theorem Store.get?_put_ite (s : Store) (k k' : Key) (v : FileVal) :
    (s.put k v).get? k' = if k' = k then some v else s.get? k' := by
  by_cases h : k' = k
  · subst h; simp
  · simp [h, Store.get?_put_ne s v h]

/-- Erasing a key that is absent changes nothing (not even the list). -/
theorem Store.erase_absent (s : Store) (k : Key) (h : s.get? k = none) : s.erase k = s := by
  induction s with
  | nil => rfl
  | cons kv s ih =>
    obtain ⟨k', v⟩ := kv
    simp only [Store.get?, List.lookup_cons] at h
    by_cases hk : k = k'
    · subst hk; simp at h
    · have hb : (k == k') = false := by simpa using hk
      simp only [hb] at h
      have hne : (k' != k) = true := by simpa using (Ne.symm hk)
      simp only [Store.erase, List.filter_cons, hne, if_true]
      congr 1
      exact ih h

/-- Writing then removing a fresh key gives back the very same list. -/
theorem Store.erase_put_absent (s : Store) (k : Key) (v : FileVal) (h : s.get? k = none) :
    (s.put k v).erase k = s := by
  have h0 := Store.erase_absent s k h
  simp only [Store.put, h0]
  simp only [Store.erase, List.filter_append] at h0 ⊢
  rw [h0]
  simp

theorem Store.put_put' (s : Store) (k : Key) (v v' : FileVal) :
    (s.put k v).put k v' = s.put k v' := by
  simp only [Store.put, Store.erase, List.filter_append, List.filter_filter]
  simp

theorem Store.erase_comm (s : Store) (k k' : Key) : (s.erase k).erase k' = (s.erase k').erase k := by
  simp only [Store.erase, List.filter_filter]
  congr 1
  funext kv
  exact Bool.and_comm _ _

/-! ### Stores without duplicate keys -/

/-- No key occurs twice in the association list. -/
def UniqueKeys (s : Store) : Prop := s.Pairwise fun a a' => a.1 ≠ a'.1

instance (s : Store) : Decidable (UniqueKeys s) := by unfold UniqueKeys; infer_instance

theorem Store.mem_of_get?' {s : Store} {k : Key} {v : FileVal} (h : s.get? k = some v) : (k, v) ∈ s := by
  induction s with
  | nil => simp [Store.get?] at h
  | cons kv s ih =>
    obtain ⟨k', v'⟩ := kv
    simp only [Store.get?, List.lookup_cons] at h
    by_cases hk : k = k'
    · subst hk; simp at h; subst h; exact List.mem_cons_self ..
    · have hb : (k == k') = false := by simpa using hk
      simp only [hb] at h
      exact List.mem_cons_of_mem _ (ih h)

theorem Store.get?_of_mem_unique {s : Store} (hn : UniqueKeys s) {k : Key} {v : FileVal} (h : (k, v) ∈ s) :
    s.get? k = some v := by
  induction s with
  | nil => simp at h
  | cons kv s ih =>
    obtain ⟨k', v'⟩ := kv
    rw [UniqueKeys, List.pairwise_cons] at hn
    simp only [Store.get?, List.lookup_cons]
    rcases List.mem_cons.1 h with h | h
    · cases h; simp
    · have hne : k' ≠ k := hn.1 (k, v) h
      have hb : (k == k') = false := by simpa using (Ne.symm hne)
      simp only [hb]
      exact ih hn.2 h

theorem Store.mem_iff_get? {s : Store} (hn : UniqueKeys s) {k : Key} {v : FileVal} :
    (k, v) ∈ s ↔ s.get? k = some v := ⟨Store.get?_of_mem_unique hn, Store.mem_of_get?'⟩

theorem UniqueKeys.filter {s : Store} (hn : UniqueKeys s) (p : Key × FileVal → Bool) :
    UniqueKeys (s.filter p) := List.Pairwise.sublist List.filter_sublist hn

/-- `filterMap` with a function whose result determines the key: no duplicates. -/
theorem UniqueKeys.nodup_filterMap {β : Type} {s : Store} (hn : UniqueKeys s) (f : Key × FileVal → Option β)
    (hf : ∀ a a' b, f a = some b → f a' = some b → a.1 = a'.1) : (s.filterMap f).Nodup := by
  refine List.Pairwise.filterMap f ?_ hn
  intro a a' hne b hb b' hb' hbb
  subst hbb
  exact hne (hf a a' b hb hb')

/-! ### Which keys an operation can change -/

/-- Can operation `o` change what is stored under key `k`?  (Only mutating operations; a
`removeDirAll` reaches everything under its key.) -/
def Op.affects : Op → Key → Bool
  | .write k' _ _, k => k == k'
  | .createDir k', k => k == k'
  | .removeFile k', k => k == k'
  | .removeDirAll k', k => Key.isUnder k' k
  | _, _ => false

theorem applyOp_get?_of_not_affects (ecn : Bool) (s : Store) (o : Op) (k : Key)
    (h : Op.affects o k = false) : (applyOp ecn s o).1.get? k = s.get? k := by
  cases o with
  | read k' => simp only [applyOp]; split <;> rfl
  | listDir k' => simp only [applyOp]; split <;> rfl
  | metadata k' => simp only [applyOp]; split <;> rfl
  | write k' v m =>
    have hk : k ≠ k' := by simpa [Op.affects] using h
    simp only [applyOp]
    split
    · rfl
    · split
      · rfl
      · split
        · rfl
        · exact Store.get?_put_ne s v hk
      · exact Store.get?_put_ne s v hk
  | createDir k' =>
    have hk : k ≠ k' := by simpa [Op.affects] using h
    simp only [applyOp]
    split
    · rfl
    · split
      · rfl
      · exact Store.get?_put_ne s _ hk
  | removeFile k' =>
    have hk : k ≠ k' := by simpa [Op.affects] using h
    simp only [applyOp]
    split
    · rfl
    · rfl
    · exact Store.get?_erase_ne s hk
  | removeDirAll k' =>
    have hk : Key.isUnder k' k = false := by simpa [Op.affects] using h
    simp only [applyOp]
    split
    · rfl
    · rw [Store.get?_eraseTree]; simp [hk]

/-- In EVERY world (faults, crash point, dead): an operation leaves a key it does not affect
exactly as it was. -/
theorem World.exec_get?_of_not_affects (w : World) (o : Op) (k : Key)
    (h : Op.affects o k = false) : (w.exec o).1.store.get? k = w.store.get? k := by
  unfold World.exec
  split
  · rfl
  · split
    · rfl
    · split
      · rfl
      · split
        · rfl
        · cases o with
          | write k' v m =>
            have hk : k ≠ k' := by simpa [Op.affects] using h
            have h1 := applyOp_get?_of_not_affects w.enforceCreateNew w.store (.write k' .empty m) k
              (by simpa [Op.affects] using hk)
            simp only
            split
            · split
              · simpa using h1
              · simp only [Store.get?_put_ne _ v hk]; simpa using h1
            · rfl
          | read k' => simpa using applyOp_get?_of_not_affects w.enforceCreateNew w.store _ k h
          | listDir k' => simpa using applyOp_get?_of_not_affects w.enforceCreateNew w.store _ k h
          | metadata k' => simpa using applyOp_get?_of_not_affects w.enforceCreateNew w.store _ k h
          | createDir k' => simpa using applyOp_get?_of_not_affects w.enforceCreateNew w.store _ k h
          | removeFile k' => simpa using applyOp_get?_of_not_affects w.enforceCreateNew w.store _ k h
          | removeDirAll k' => simpa using applyOp_get?_of_not_affects w.enforceCreateNew w.store _ k h

/-- A non-mutating operation never changes the store, in any world. -/
theorem World.exec_store_of_ro (w : World) (o : Op) (h : o.isMutating = false) :
    (w.exec o).1.store = w.store := by
  unfold World.exec
  split
  · rfl
  · split
    · rfl
    · simp [h]

end Conserve
