import ConserveModel.Proofs.StitchStore
import ConserveModel.Proofs.StitchRule
import ConserveModel.Proofs.StoreNoDup
import ConserveModel.Proofs.StoreLemmas
/-
Containment of single-file damage at the listing level (property C10, the part about the index):
what the listing RULE of C08 (`listSpec`, `listErrors`, StitchSpec.lean) depends on, and that a
lost index hunk of a complete version is always reported.  No property statements here.
-/
namespace Conserve.NP
open Conserve

/-- `s'` is `s` with the value of (at most) the one path `k` changed: deleted, truncated,
overwritten, bit-flipped — or created. -/
def Damage (s s' : Store) (k : Key) : Prop := ∀ k', k' ≠ k → s'.get? k' = s.get? k'

theorem Damage.refl (s : Store) (k : Key) : Damage s s k := fun _ _ => rfl

theorem Damage.symm {s s' : Store} {k : Key} (h : Damage s s' k) : Damage s' s k :=
  fun k' hk => (h k' hk).symm

/-- Everything the listing rule reads of version `b` is the same in both stores. -/
structure SameBand (s s' : Store) (b : Nat) : Prop where
  head : s'.get? (.bandHead b) = s.get? (.bandHead b)
  tail : s'.get? (.bandTail b) = s.get? (.bandTail b)
  index : s'.get? (.indexDir b) = s.get? (.indexDir b)
  hunk : ∀ n, s'.get? (.hunk b n) = s.get? (.hunk b n)

/-- Damage outside version `b`'s directory leaves version `b` alone. -/
theorem Damage.sameBand {s s' : Store} {k : Key} (h : Damage s s' k) {b : Nat}
    (hk : Key.isUnder (.bandDir b) k = false) : SameBand s s' b := by
  refine ⟨h _ ?_, h _ ?_, h _ ?_, fun n => h _ ?_⟩ <;>
  · intro e
    subst e
    simp [Key.isUnder, Key.parent] at hk

/-! ### Hunk numbers depend only on the lookups (when no path occurs twice) -/

theorem mem_hunkNumsOf {s : Store} (nd : (s.map (·.1)).Nodup) {b n : Nat} :
    n ∈ hunkNumsOf s b ↔ ∃ v, s.get? (.hunk b n) = some v ∧ v.isDir = false := by
  rw [hunkNumsOf_eq, mem_sortNat, mem_hunkSelAll]
  constructor
  · rintro ⟨v, hm, hv⟩; exact ⟨v, mem_get? nd hm, hv⟩
  · rintro ⟨v, hg, hv⟩; exact ⟨v, get?_mem hg, hv⟩

theorem hunkNumsOf_strict {s : Store} (nd : (s.map (·.1)).Nodup) (b : Nat) :
    (hunkNumsOf s b).Pairwise (· < ·) := by
  rw [hunkNumsOf_eq]
  refine sortNat_lt_of_nodup (nodup_filterMap_keys nd _ ?_)
  intro ⟨k, v⟩ ⟨k', v'⟩ n h h'
  cases k <;> simp [hunkSelAll] at h
  cases k' <;> simp [hunkSelAll] at h'
  obtain ⟨⟨rfl, _⟩, rfl⟩ := h
  obtain ⟨⟨rfl, _⟩, rfl⟩ := h'
  rfl

theorem hunkNumsOf_congr {s s' : Store} (nd : (s.map (·.1)).Nodup) (nd' : (s'.map (·.1)).Nodup) {b : Nat}
    (h : ∀ n, s'.get? (.hunk b n) = s.get? (.hunk b n)) : hunkNumsOf s' b = hunkNumsOf s b := by
  refine eq_of_pairwise_lt (hunkNumsOf_strict nd' b) (hunkNumsOf_strict nd b) (fun n => ?_)
  rw [mem_hunkNumsOf nd', mem_hunkNumsOf nd, h n]

/-! ### Per-version frame -/

section
variable {s s' : Store} {b : Nat}

theorem SameBand.usableHunk (h : SameBand s s' b) (n : Nat) : usableHunk s' b n = usableHunk s b n := by
  unfold Conserve.usableHunk; rw [h.hunk n]

theorem SameBand.hunkAt (h : SameBand s s' b) (n : Nat) : hunkAt s' b n = hunkAt s b n := by
  unfold Conserve.hunkAt; rw [h.hunk n]

theorem SameBand.hunkError (h : SameBand s s' b) (n : Nat) : hunkError s' b n = hunkError s b n := by
  unfold Conserve.hunkError; rw [h.hunk n]

theorem SameBand.hunkNonEmpty (h : SameBand s s' b) (n : Nat) : hunkNonEmpty s' b n = hunkNonEmpty s b n := by
  unfold Conserve.hunkNonEmpty; rw [h.hunk n]

theorem SameBand.bandPresent (h : SameBand s s' b) : bandPresent s' b = bandPresent s b := by
  unfold Conserve.bandPresent; rw [h.head]

theorem SameBand.isComplete (h : SameBand s s' b) : isComplete s' b = isComplete s b := by
  unfold Conserve.isComplete; rw [h.tail]

theorem SameBand.headLost (h : SameBand s s' b) : headLost s' b = headLost s b := by
  unfold Conserve.headLost; rw [h.bandPresent, h.hunk 0]

theorem SameBand.bandReadable (h : SameBand s s' b) : bandReadable s' b = bandReadable s b := by
  unfold Conserve.bandReadable; rw [h.head, h.index]

theorem SameBand.tailInfo (h : SameBand s s' b) : tailInfo s' b = tailInfo s b := by
  unfold Conserve.tailInfo; rw [h.tail]

theorem SameBand.unreadableError (h : SameBand s s' b) : unreadableError s' b = unreadableError s b := by
  unfold Conserve.unreadableError; rw [h.head, h.index]

variable (nd : (s.map (·.1)).Nodup) (nd' : (s'.map (·.1)).Nodup)
include nd nd'

theorem SameBand.hunkNumsOf (h : SameBand s s' b) : hunkNumsOf s' b = hunkNumsOf s b :=
  hunkNumsOf_congr nd nd' h.hunk

theorem SameBand.ownEntries (h : SameBand s s' b) : ownEntries s' b = ownEntries s b := by
  unfold Conserve.ownEntries
  rw [h.hunkNumsOf nd nd']
  congr 2
  funext n
  exact h.usableHunk n

theorem SameBand.bandEntries (h : SameBand s s' b) : bandEntries s' b = bandEntries s b := by
  unfold Conserve.bandEntries
  rw [h.bandReadable, h.ownEntries nd nd']

theorem SameBand.indexCheckError (h : SameBand s s' b) : indexCheckError s' b = indexCheckError s b := by
  unfold Conserve.indexCheckError
  rw [h.hunkNumsOf nd nd', h.tailInfo]
  have : (fun n => (n, Conserve.hunkNonEmpty s' b n)) = fun n => (n, Conserve.hunkNonEmpty s b n) := by
    funext n; rw [h.hunkNonEmpty]
  rw [this]

theorem SameBand.bandErrors (h : SameBand s s' b) : bandErrors s' b = bandErrors s b := by
  unfold Conserve.bandErrors
  rw [h.bandReadable, h.indexCheckError nd nd', h.hunkNumsOf nd nd', h.unreadableError]
  have : Conserve.hunkError s' b = Conserve.hunkError s b := by funext n; exact h.hunkError n
  rw [this]

end

/-! ### The listing of version `n` only depends on versions `≤ n` -/

theorem flatMap_congr' {α β : Type} {l : List α} {f g : α → List β} (h : ∀ a ∈ l, f a = g a) :
    l.flatMap f = l.flatMap g := by
  induction l with
  | nil => rfl
  | cons a l ih =>
    simp only [List.flatMap_cons]
    rw [h a (List.mem_cons_self ..), ih (fun x hx => h x (List.mem_cons_of_mem _ hx))]

section
variable {s s' : Store} (nd : (s.map (·.1)).Nodup) (nd' : (s'.map (·.1)).Nodup)
include nd nd'

theorem contSpec_congr (n : Nat) (h : ∀ b, b < n → SameBand s s' b) (last : Option Str) :
    contSpec s' n last = contSpec s n last := by
  induction n generalizing last with
  | zero => rfl
  | succ b ih =>
    have hb := h b (Nat.lt_succ_self b)
    have ih' := ih (fun c hc => h c (Nat.lt_succ_of_lt hc))
    simp only [contSpec, hb.bandPresent, hb.bandEntries nd nd', hb.isComplete, ih']

omit nd nd' in
theorem chainBelow_congr (n : Nat) (h : ∀ b, b < n → SameBand s s' b) :
    chainBelow s' n = chainBelow s n := by
  induction n with
  | zero => rfl
  | succ b ih =>
    have hb := h b (Nat.lt_succ_self b)
    have ih' := ih (fun c hc => h c (Nat.lt_succ_of_lt hc))
    simp only [chainBelow, hb.bandPresent, hb.isComplete, ih']

theorem listSpec_congr (n : Nat) (h : ∀ b, b ≤ n → SameBand s s' b) : listSpec s' n = listSpec s n := by
  have hn := h n (Nat.le_refl n)
  simp only [listSpec, hn.bandEntries nd nd', hn.isComplete,
    contSpec_congr nd nd' n (fun b hb => h b (Nat.le_of_lt hb))]

omit nd nd' in
theorem chain_congr (n : Nat) (h : ∀ b, b ≤ n → SameBand s s' b) : chain s' n = chain s n := by
  have hn := h n (Nat.le_refl n)
  simp only [chain, hn.isComplete, chainBelow_congr n (fun b hb => h b (Nat.le_of_lt hb))]

omit nd nd' in
theorem mem_chainBelow_lt {s : Store} {n b : Nat} (h : b ∈ chainBelow s n) : b < n := by
  induction n with
  | zero => simp [chainBelow] at h
  | succ m ih =>
    simp only [chainBelow] at h
    split at h
    · rcases List.mem_cons.mp h with rfl | h
      · exact Nat.lt_succ_self _
      · split at h
        · cases h
        · exact Nat.lt_succ_of_lt (ih h)
    · exact Nat.lt_succ_of_lt (ih h)

omit nd nd' in
theorem mem_chain_le {s : Store} {n b : Nat} (h : b ∈ chain s n) : b ≤ n := by
  simp only [chain] at h
  rcases List.mem_cons.mp h with rfl | h
  · exact Nat.le_refl _
  · split at h
    · cases h
    · exact Nat.le_of_lt (mem_chainBelow_lt h)

theorem errorsBelow_congr (n : Nat) (h : ∀ b, b < n → SameBand s s' b) :
    errorsBelow s' n = errorsBelow s n := by
  induction n with
  | zero => rfl
  | succ b ih =>
    have hb := h b (Nat.lt_succ_self b)
    have ih' := ih (fun c hc => h c (Nat.lt_succ_of_lt hc))
    simp only [errorsBelow, hb.bandPresent, hb.bandErrors nd nd', hb.isComplete, hb.headLost, ih']

theorem listErrors_congr (n : Nat) (h : ∀ b, b ≤ n → SameBand s s' b) : listErrors s' n = listErrors s n := by
  have hn := h n (Nat.le_refl n)
  simp only [listErrors, hn.bandErrors nd nd', hn.isComplete,
    errorsBelow_congr nd nd' n (fun b hb => h b (Nat.le_of_lt hb))]

end

/-! ### File content -/

theorem readBack_congr (H : Str → Str) {s s' : Store} (as : List Addr)
    (h : ∀ a ∈ as, s'.get? (.block a.hash) = s.get? (.block a.hash)) :
    readBack H s' as = readBack H s as := by
  induction as with
  | nil => rfl
  | cons a as ih =>
    have ha := h a (List.mem_cons_self ..)
    have ih' := ih (fun x hx => h x (List.mem_cons_of_mem _ hx))
    simp only [readBack, readAddrPure, blockContent, ha, ih']

/-! ### A lost hunk of a complete version is reported -/

theorem badEmptyHunk_closed (l : List (Nat × Bool)) : badEmptyHunk true l = l.any (fun p => !p.2) := by
  induction l with
  | nil => rfl
  | cons p rest ih =>
    obtain ⟨n, ne⟩ := p
    cases rest with
    | nil => simp [badEmptyHunk]
    | cons q rest => simp only [badEmptyHunk, ih, List.any_cons]

/-- Whatever branch of `Band::check_index_hunks` fires, the error is `invalidMetadata`. -/
theorem indexCheckError_eq (s : Store) (b : Nat) :
    indexCheckError s b = none ∨ indexCheckError s b = some .invalidMetadata := by
  unfold indexCheckError
  simp only
  split
  · exact .inr rfl
  · split
    · exact .inr rfl
    · split
      · exact .inr rfl
      · exact .inl rfl

/-- The hunk numbers of `b` after damage to hunk `n`, away from `n`. -/
theorem hunkNumsOf_damage_filter {s s' : Store} (nd : (s.map (·.1)).Nodup) (nd' : (s'.map (·.1)).Nodup)
    {b n : Nat} (hd : Damage s s' (.hunk b n)) :
    (hunkNumsOf s' b).filter (· != n) = (hunkNumsOf s b).filter (· != n) := by
  refine eq_of_pairwise_lt ((hunkNumsOf_strict nd' b).filter _) ((hunkNumsOf_strict nd b).filter _) (fun x => ?_)
  simp only [List.mem_filter, bne_iff_ne, ne_eq, mem_hunkNumsOf nd', mem_hunkNumsOf nd]
  constructor
  · rintro ⟨h, hx⟩
    rw [hd (.hunk b x) (by simpa using hx)] at h
    exact ⟨h, hx⟩
  · rintro ⟨h, hx⟩
    rw [← hd (.hunk b x) (by simpa using hx)] at h
    exact ⟨h, hx⟩

theorem filter_ne_of_not_mem {l : List Nat} {n : Nat} (h : n ∉ l) : l.filter (· != n) = l := by
  rw [List.filter_eq_self]
  intro x hx
  have : x ≠ n := fun e => h (e ▸ hx)
  simpa using this

theorem length_filter_ne_lt {l : List Nat} {n : Nat} (h : n ∈ l) : (l.filter (· != n)).length < l.length := by
  rw [List.length_filter_lt_length_iff_exists]
  exact ⟨n, h, by simp⟩

/-- **Loss of an index hunk of a complete version is reported.**  Version `b` of `s` is readable,
has a tail stating a hunk count, and passes `Band::check_index_hunks`; hunk file `n` exists.
In `s'` only that file differs, and it is gone, unusable (`usableHunk = none`: undecodable, wrong
type, or holding an entry that fails `IndexEntry::check`) or zero-length.  Then version `b` is still
readable in `s'`, and consulting it reports an error: the directory check fails (missing or
zero-length file) or the hunk itself is reported (`hunkError`). -/
theorem lost_hunk_bandErrors {s s' : Store} (nd : (s.map (·.1)).Nodup) (nd' : (s'.map (·.1)).Nodup)
    {b n m : Nat} (hd : Damage s s' (.hunk b n))
    (hread : bandReadable s b = true)
    (htail : s.get? (.bandTail b) = some (.tail (some m)))
    (hcheck : indexCheckError s b = none)
    (hn : n ∈ hunkNumsOf s b)
    (hlost : usableHunk s' b n = none ∨ s'.get? (.hunk b n) = some .empty) :
    bandReadable s' b = true ∧
    (indexCheckError s' b = some .invalidMetadata ∨
      (n ∈ hunkNumsOf s' b ∧ ∃ e, hunkError s' b n = some e)) := by
  have hhead : s'.get? (.bandHead b) = s.get? (.bandHead b) := hd _ (by simp)
  have hidx : s'.get? (.indexDir b) = s.get? (.indexDir b) := hd _ (by simp)
  have htail' : s'.get? (.bandTail b) = some (.tail (some m)) := (hd _ (by simp)).trans htail
  have hr' : bandReadable s' b = true := by
    unfold bandReadable at hread ⊢
    rw [hhead, hidx]; exact hread
  refine ⟨hr', ?_⟩
  -- what the check said about `s`
  have hti : tailInfo s b = (true, some m) := by simp [tailInfo, htail]
  have hti' : tailInfo s' b = (true, some m) := by simp [tailInfo, htail']
  have hlen : (hunkNumsOf s b).length = m := by
    unfold indexCheckError at hcheck
    simp only [hti] at hcheck
    split at hcheck
    · cases hcheck
    · split at hcheck
      · cases hcheck
      · rename_i hcm
        simpa [countMismatch] using hcm
  have hsome : ∀ {x}, indexCheckError s' b ≠ none → x = indexCheckError s' b → x = some .invalidMetadata := by
    intro x hne hx
    subst hx
    rcases indexCheckError_eq s' b with h | h
    · exact absurd h hne
    · exact h
  by_cases hn' : n ∈ hunkNumsOf s' b
  · -- the file is still there
    have hnums : hunkNumsOf s' b = hunkNumsOf s b := by
      refine eq_of_pairwise_lt (hunkNumsOf_strict nd' b) (hunkNumsOf_strict nd b) (fun x => ?_)
      by_cases hx : x = n
      · subst hx; exact ⟨fun _ => hn, fun _ => hn'⟩
      · rw [mem_hunkNumsOf nd', mem_hunkNumsOf nd, hd (.hunk b x) (by simpa using hx)]
    obtain ⟨v, hv, hvd⟩ := (mem_hunkNumsOf nd').mp hn'
    rcases hlost with hl | hl
    · right
      refine ⟨hn', ?_⟩
      unfold usableHunk at hl
      unfold hunkError
      rw [hv] at hl ⊢
      cases v with
      | hunk es =>
        by_cases hu : es.all entryUsable = true
        · simp [hu] at hl
        · exact ⟨.invalidMetadata, by simp [hu]⟩
      | empty => simp at hl
      | _ => exact ⟨_, rfl⟩
    · left
      refine hsome ?_ rfl
      intro hnone
      unfold indexCheckError at hnone
      simp only [hti'] at hnone
      split at hnone
      · cases hnone
      · split at hnone
        · cases hnone
        · split at hnone
          · cases hnone
          · rename_i hbad
            apply hbad
            rw [badEmptyHunk_closed, List.any_map, List.any_eq_true]
            exact ⟨n, hn', by simp [hunkNonEmpty, hl]⟩
  · -- the file is gone: one hunk fewer than the tail says
    left
    refine hsome ?_ rfl
    intro hnone
    have hlen' : (hunkNumsOf s' b).length < m := by
      have h1 := hunkNumsOf_damage_filter nd nd' hd
      rw [filter_ne_of_not_mem hn'] at h1
      rw [h1, ← hlen]
      exact length_filter_ne_lt hn
    unfold indexCheckError at hnone
    simp only [hti'] at hnone
    split at hnone
    · cases hnone
    · split at hnone
      · cases hnone
      · rename_i hcm
        apply hcm
        simp only [countMismatch, bne_iff_ne, ne_eq]
        omega

theorem bandErrors_ne_nil {s : Store} {b n : Nat} (hr : bandReadable s b = true)
    (h : indexCheckError s b = some .invalidMetadata ∨ (n ∈ hunkNumsOf s b ∧ ∃ e, hunkError s b n = some e)) :
    bandErrors s b ≠ [] := by
  unfold bandErrors
  rw [if_pos hr]
  rcases h with h | ⟨hn, e, he⟩
  · simp [h]
  · intro hnil
    have : e ∈ (hunkNumsOf s b).filterMap (hunkError s b) := List.mem_filterMap.mpr ⟨n, hn, he⟩
    rw [List.append_eq_nil_iff] at hnil
    rw [hnil.2] at this
    cases this

theorem listErrors_ne_nil {s : Store} {v b : Nat} (hb : b ∈ chain s v) (h : bandErrors s b ≠ []) :
    listErrors s v ≠ [] := by
  intro hnil
  cases hbe : bandErrors s b with
  | nil => exact h hbe
  | cons e es =>
    have := mem_listErrors_of_chain hb (by rw [hbe]; exact List.mem_cons_self ..)
    rw [hnil] at this
    cases this

theorem self_mem_chain (s : Store) (n : Nat) : n ∈ chain s n := by simp [chain]

/-! ### Well-formedness survives the loss of a hunk -/

theorem sublist_flatten {α : Type} {l₁ l₂ : List (List α)} (h : l₁.Sublist l₂) :
    l₁.flatten.Sublist l₂.flatten := by
  induction h with
  | slnil => exact List.Sublist.refl _
  | cons a _ ih =>
    rw [List.flatten_cons]
    exact ih.trans (List.sublist_append_right _ _)
  | cons_cons a _ ih =>
    rw [List.flatten_cons, List.flatten_cons]
    exact List.Sublist.append (List.Sublist.refl _) ih

theorem flatten_filterMap_drop {α : Type} (l : List Nat) (n : Nat) (f g : Nat → Option (List α))
    (hfg : ∀ x ∈ l, x ≠ n → f x = g x) (hn : f n = none ∨ f n = some []) :
    (l.filterMap f).flatten = ((l.filter (· != n)).filterMap g).flatten := by
  induction l with
  | nil => rfl
  | cons x l ih =>
    have ih' := ih (fun y hy => hfg y (List.mem_cons_of_mem _ hy))
    by_cases hx : x = n
    · subst hx
      have : (x != x) = false := by simp
      rw [List.filter_cons, this]
      simp only [Bool.false_eq_true, if_false]
      rcases hn with h | h
      · rw [List.filterMap_cons, h]; exact ih'
      · rw [List.filterMap_cons, h, List.flatten_cons, List.nil_append]; exact ih'
    · have : (x != n) = true := by simpa using hx
      rw [List.filter_cons, this]
      simp only [if_true]
      rw [List.filterMap_cons, List.filterMap_cons, hfg x (List.mem_cons_self ..) hx]
      cases g x with
      | none => exact ih'
      | some es => simp only [List.flatten_cons, ih']

/-- The own entries of the damaged version, when the hunk contributes nothing any more, are
exactly the entries of the OTHER hunk files as they were, in hunk order. -/
theorem ownEntries_lost_eq {s s' : Store} (nd : (s.map (·.1)).Nodup) (nd' : (s'.map (·.1)).Nodup)
    {b n : Nat} (hd : Damage s s' (.hunk b n))
    (hlost : usableHunk s' b n = none ∨ usableHunk s' b n = some []) :
    ownEntries s' b = (((hunkNumsOf s b).filter (· != n)).filterMap (usableHunk s b)).flatten := by
  unfold ownEntries
  rw [flatten_filterMap_drop (hunkNumsOf s' b) n (usableHunk s' b) (usableHunk s b) ?_ hlost,
    hunkNumsOf_damage_filter nd nd' hd]
  intro x _ hx
  unfold usableHunk
  rw [hd (.hunk b x) (by simpa using hx)]

theorem ownEntries_lost_sublist {s s' : Store} (nd : (s.map (·.1)).Nodup) (nd' : (s'.map (·.1)).Nodup)
    {b n : Nat} (hd : Damage s s' (.hunk b n))
    (hlost : usableHunk s' b n = none ∨ usableHunk s' b n = some []) :
    (ownEntries s' b).Sublist (ownEntries s b) := by
  rw [ownEntries_lost_eq nd nd' hd hlost]
  exact sublist_flatten (List.Sublist.filterMap _ List.filter_sublist)

theorem ownEntries_other_band {s s' : Store} (nd : (s.map (·.1)).Nodup) (nd' : (s'.map (·.1)).Nodup)
    {b n b2 : Nat} (hd : Damage s s' (.hunk b n)) (hb : b2 ≠ b) : ownEntries s' b2 = ownEntries s b2 := by
  have hh : ∀ x, s'.get? (.hunk b2 x) = s.get? (.hunk b2 x) := fun x => hd _ (by simp [hb])
  unfold ownEntries
  rw [hunkNumsOf_congr nd nd' hh]
  congr 2
  funext x
  unfold usableHunk
  rw [hh x]

/-- **`ArchWF` survives damage that makes a hunk missing, unusable or empty.**  `bandsSorted` only
constrains the usable hunks, so taking one away keeps every version sorted; "no path twice" and
"a tree" are assumed of the damaged store (they hold of `Store.erase`/`Store.put` on a hunk path,
see `archWF_erase_hunk`, `archWF_put_hunk`). -/
theorem archWF_of_lost_hunk {s s' : Store} (wf : ArchWF s) (nd' : keysNodup s' = true)
    (tr' : treeShaped s' = true) {b n : Nat} (hd : Damage s s' (.hunk b n))
    (hlost : usableHunk s' b n = none ∨ usableHunk s' b n = some []) : ArchWF s' := by
  have nd'' : (s'.map (·.1)).Nodup := by simpa [keysNodup] using nd'
  refine ⟨nd', tr', ?_⟩
  have hall : ∀ b2, SortedE (ownEntries s' b2) := by
    intro b2
    by_cases hb : b2 = b
    · subst hb
      exact List.Pairwise.sublist (ownEntries_lost_sublist wf.keys nd'' hd hlost) (wf.sortedOwn b2)
    · rw [ownEntries_other_band wf.keys nd'' hd hb]
      exact wf.sortedOwn b2
  simp only [bandsSorted, List.all_eq_true]
  intro kv _
  split
  · rw [strictlySorted_iff, List.pairwise_map]
    exact hall _
  · rfl

/-! ### Concrete damage operators on a hunk file -/

theorem damage_erase (s : Store) (k : Key) : Damage s (s.erase k) k :=
  fun _ hk => Store.get?_erase_ne s hk

theorem damage_put (s : Store) (k : Key) (v : FileVal) : Damage s (s.put k v) k :=
  fun _ hk => Store.get?_put_ne s v hk

/-- A hunk path is nobody's parent: changing it cannot orphan anything. -/
theorem parent_ne_hunk (k : Key) (b n : Nat) : k.parent ≠ some (.hunk b n) := by
  cases k <;> simp [Key.parent]

theorem parentOk_of_damage_hunk {s s' : Store} {b n : Nat} (hd : Damage s s' (.hunk b n)) (k : Key) :
    s'.parentOk k = s.parentOk k := by
  unfold Store.parentOk
  cases hp : k.parent with
  | none => rfl
  | some p =>
    have : p ≠ .hunk b n := fun e => parent_ne_hunk k b n (e ▸ hp)
    simp only [hd p this]

theorem keysNodup_erase {s : Store} (h : keysNodup s = true) (k : Key) : keysNodup (s.erase k) = true := by
  have nd : s.NoDupKeys := by simpa [keysNodup, Store.NoDupKeys] using h
  have := nd.erase k
  simpa [keysNodup, Store.NoDupKeys] using this

theorem keysNodup_put {s : Store} (h : keysNodup s = true) (k : Key) (v : FileVal) :
    keysNodup (s.put k v) = true := by
  have nd : s.NoDupKeys := by simpa [keysNodup, Store.NoDupKeys] using h
  have := nd.put k v
  simpa [keysNodup, Store.NoDupKeys] using this

theorem treeShaped_erase_hunk {s : Store} (h : treeShaped s = true) (b n : Nat) :
    treeShaped (s.erase (.hunk b n)) = true := by
  simp only [treeShaped, List.all_eq_true] at h ⊢
  intro kv hkv
  rw [parentOk_of_damage_hunk (damage_erase s _)]
  exact h kv (List.mem_filter.mp hkv).1

theorem treeShaped_put_hunk {s : Store} (h : treeShaped s = true) {b n : Nat} {v0 : FileVal}
    (hex : s.get? (.hunk b n) = some v0) (v : FileVal) :
    treeShaped (s.put (.hunk b n) v) = true := by
  simp only [treeShaped, List.all_eq_true] at h ⊢
  intro kv hkv
  rw [parentOk_of_damage_hunk (damage_put s _ v)]
  simp only [Store.put, List.mem_append, List.mem_singleton] at hkv
  rcases hkv with hkv | rfl
  · exact h kv (List.mem_filter.mp hkv).1
  · exact h (_, v0) (get?_mem hex)

end Conserve.NP
