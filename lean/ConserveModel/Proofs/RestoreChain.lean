import ConserveModel.Proofs.FsGuard
import ConserveModel.Proofs.StitchRule
import ConserveModel.Props.C08
import ConserveModel.Proofs.FrameOps
/-
`restore()` taken apart: whatever the archive looks like, a successful store-level `restore` is a
run of the per-entry loop `restoreEntries H []` on a list of index entries with valid apaths; on a
well-formed archive (`ArchWF`) in the fault-free world that list is the filtered rule listing of
the resolved version, hence strictly increasing.  Helper lemmas for Props/C16e.lean.
-/
namespace Conserve
open Prog

/-- Inversion of a `bind` that returned, with the worlds. -/
theorem Prog.run_bind_eq_ok {α β : Type} {p : Prog α} {f : α → Prog β} {w w' : World} {b : β}
    (h : (p.bind f).run w = (.ok b, w')) : ∃ a w1, p.run w = (.ok a, w1) ∧ (f a).run w1 = (.ok b, w') := by
  rw [Prog.run_bind] at h
  rcases hp : p.run w with ⟨out, w1⟩
  rw [hp] at h
  cases out with
  | ok a => exact ⟨a, w1, rfl, h⟩
  | err e => simp at h
  | panic s => simp at h

/-- A read-only program leaves a quiet world quiet (for the same store; it may have reported events). -/
theorem quiet_of_readOnly {α : Type} {p : Prog α} (hp : Prog.AllOps ReadOnly p) :
    ∀ {s : Store} {evs : List Event} {w : World}, Quiet s evs w → ∃ evs', Quiet s evs' (p.run w).2 := by
  induction hp with
  | ret a => intro s evs w h; exact ⟨evs, h⟩
  | fail e => intro s evs w h; exact ⟨evs, h⟩
  | panic m => intro s evs w h; exact ⟨evs, h⟩
  | emit ev _ ih => intro s evs w h; rw [Prog.run_emit]; exact ih (h.emit ev)
  | op ho _ ih =>
    intro s evs w h
    obtain ⟨w', he, hq⟩ := h.exec_ro _ (ReadOnly.not_mutating ho)
    rw [Prog.run_op, he]
    exact ih _ hq

/-- Whatever `filterEntries` returns has valid apaths only: an entry inside the subtree with an invalid
path makes `Exclude::matches` panic, the others are dropped or kept as they are. -/
theorem filterEntries_post (subtree : Str) (excl : Str → Bool) (es : List IndexEntry) :
    Prog.Post (fun out => (∀ e ∈ out, isValid e.apath = true) ∧ out.Sublist es)
      (filterEntries subtree excl es) := by
  induction es with
  | nil => exact .ret ⟨(fun _ h => nomatch h), List.Sublist.slnil⟩
  | cons e es ih =>
    unfold filterEntries
    split
    · exact ih.mono fun out h => ⟨h.1, h.2.cons _⟩
    · split
      · exact .panic _
      · rename_i hv
        split
        · exact ih.mono fun out h => ⟨h.1, h.2.cons _⟩
        · refine Prog.Post.bind ih fun rest h => .ret ⟨?_, h.2.cons_cons _⟩
          intro e' he'
          rcases List.mem_cons.1 he' with rfl | he'
          · simpa using hv
          · exact h.1 e' he'

section
variable (H : Str → Str)

/-- **Any archive, any world.**  If the store-level half of `restore()` returns `nodes`, then `nodes`
is what the per-entry loop (with its symlink guard, started with no symlink seen) returned for some
list of index entries all of whose apaths are valid. -/
theorem restore_is_loop {sel : BandSelection} {subtree : Str} {excl : Str → Bool} {w w' : World}
    {nodes : List RNode} (h : (restore H sel subtree excl).run w = (.ok nodes, w')) :
    ∃ es w1, (∀ e ∈ es, isValid e.apath = true) ∧ (restoreEntries H [] es).run w1 = (.ok nodes, w') := by
  simp only [restore, listEntries, bind_def] at h
  obtain ⟨b, w1, _, h⟩ := Prog.run_bind_eq_ok h
  obtain ⟨_, w2, _, h⟩ := Prog.run_bind_eq_ok h
  obtain ⟨_, w3, _, h⟩ := Prog.run_bind_eq_ok h
  obtain ⟨es, w4, hes, h⟩ := Prog.run_bind_eq_ok h
  obtain ⟨es0, w5, _, hf⟩ := Prog.run_bind_eq_ok hes
  exact ⟨es, w4, ((filterEntries_post subtree excl es0).run w5 es w4 hf).1, h⟩

/-- **Well-formed archive, fault-free world, any selection.**  If `restore` returns `nodes`, they are
what the per-entry loop returned for the filtered RULE listing (`listSpec`, C08) of the version `b`
the selection resolved to. -/
theorem restore_is_loop_on_listing {s : Store} (wf : ArchWF s) {sel : BandSelection} {subtree : Str}
    {excl : Str → Bool} {w' : World} {nodes : List RNode}
    (h : (restore H sel subtree excl).run (World.clean s) = (.ok nodes, w')) :
    ∃ b w1, (restoreEntries H []
      ((listSpec s b).filter fun e => isPrefixOfImpl subtree e.apath && !excl e.apath)).run w1 = (.ok nodes, w') := by
  simp only [restore, listEntries, bind_def] at h
  obtain ⟨b, w1, h1, h⟩ := Prog.run_bind_eq_ok h
  obtain ⟨ev1, q1⟩ := quiet_of_readOnly (resolveBandId_ro sel) (Quiet.clean s)
  rw [h1] at q1
  obtain ⟨_, w2, h2, h⟩ := Prog.run_bind_eq_ok h
  obtain ⟨ev2, q2⟩ := quiet_of_readOnly (bandOpen_ro b) q1
  rw [h2] at q2
  obtain ⟨_, w3, h3, h⟩ := Prog.run_bind_eq_ok h
  obtain ⟨ev3, q3⟩ := quiet_of_readOnly listBlocks_ro q2
  rw [h3] at q3
  obtain ⟨es, w4, hes, h⟩ := Prog.run_bind_eq_ok h
  obtain ⟨es0, w5, h5, hf⟩ := Prog.run_bind_eq_ok hes
  obtain ⟨w5', h5', _⟩ := run_stitchAll b q3
  rw [stitchAllP_fst wf] at h5'
  rw [h5'] at h5
  simp only [Prod.mk.injEq, Outcome.ok.injEq] at h5
  obtain ⟨rfl, rfl⟩ := h5
  rw [run_filterEntries subtree excl (listSpec s b) w5' (fun e he _ => C08.listed_valid he)] at hf
  simp only [Prod.mk.injEq, Outcome.ok.injEq] at hf
  obtain ⟨rfl, rfl⟩ := hf
  exact ⟨b, _, h⟩

end

/-- The filtered rule listing has valid, strictly increasing apaths. -/
theorem filtered_listing_valid_sorted {s : Store} (wf : ArchWF s) (b : Nat) (p : IndexEntry → Bool) :
    (∀ e ∈ (listSpec s b).filter p, isValid e.apath = true) ∧
    ((listSpec s b).filter p).Pairwise fun a c => apathCmp a.apath c.apath = .lt := by
  refine ⟨fun e he => C08.listed_valid (List.mem_filter.1 he).1, ?_⟩
  have := C08.stitch_sorted wf b
  rw [List.pairwise_map] at this
  exact this.sublist List.filter_sublist

end Conserve
