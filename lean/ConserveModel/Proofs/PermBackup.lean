import ConserveModel.Proofs.PermArchive
/-
Helper lemmas for C17: `backup` is insensitive to the order of every listing it receives.

The only value derived from a listing that is not sorted before use is the set of present block
names (`Writer.exists_`, from `list_blocks`).  The writer consults it only through `contains` and
extends it with `::`, so two writers that differ by a permutation of `exists_` behave the same.
-/
namespace Conserve
open Prog

/-- Two writer states that are equal except that the set of known block names is listed in
another order. -/
def WriterEquiv (w w' : Writer) : Prop := ∃ ex', ex'.Perm w.exists_ ∧ w' = { w with exists_ := ex' }

theorem WriterEquiv.refl (w : Writer) : WriterEquiv w w := ⟨w.exists_, List.Perm.refl _, rfl⟩

/-- Writers equivalent, the value paired with them equal. -/
def WPair {α : Type} (p q : Writer × α) : Prop := WriterEquiv p.1 q.1 ∧ p.2 = q.2

section
variable (H : Str → Str)

theorem storeOrDedup_equiv {w w' : Writer} (hw : WriterEquiv w w') (data : Str) :
    ProgEquiv WPair (storeOrDedup H w data) (storeOrDedup H w' data) := by
  obtain ⟨ex', hp, rfl⟩ := hw
  unfold storeOrDedup
  simp only [hp.contains_eq]
  split
  · exact .ret ⟨⟨_, hp, rfl⟩, rfl⟩
  · pe_op
    split
    · exact .ret ⟨⟨_, hp, rfl⟩, rfl⟩
    · pe_op
      split
      · exact .ret ⟨⟨_, hp.cons _, rfl⟩, rfl⟩
      · exact .ret ⟨⟨_, hp, rfl⟩, rfl⟩
      · exact .ret ⟨⟨_, hp, rfl⟩, rfl⟩

theorem combinerFlush_equiv {w w' : Writer} (hw : WriterEquiv w w') :
    ProgEquiv WPair (combinerFlush H w) (combinerFlush H w') := by
  obtain ⟨ex', hp, rfl⟩ := hw
  unfold combinerFlush
  simp only []
  split
  · exact .ret ⟨⟨_, hp, rfl⟩, rfl⟩
  · apply ProgEquiv.bind (storeOrDedup_equiv H (w := { w with buf := [] }) ⟨ex', hp, rfl⟩ w.buf)
    rintro ⟨w1, r1⟩ ⟨w2, r2⟩ ⟨⟨ex2, hp2, h2⟩, hr⟩
    simp only at h2 hr
    subst h2 hr
    simp only []
    split
    · exact .ret ⟨⟨_, hp2, rfl⟩, rfl⟩
    · exact .ret ⟨⟨_, hp2, rfl⟩, rfl⟩

theorem combinerPush_equiv (o : BackupOpts) {w w' : Writer} (hw : WriterEquiv w w') (s : SrcEntry) :
    ProgEquiv WPair (combinerPush H o w s) (combinerPush H o w' s) := by
  obtain ⟨ex', hp, rfl⟩ := hw
  unfold combinerPush
  simp only []
  split
  · pe_leaf
  · split
    · exact .ret ⟨⟨_, hp, rfl⟩, rfl⟩
    · split
      · exact combinerFlush_equiv H ⟨_, hp, rfl⟩
      · exact .ret ⟨⟨_, hp, rfl⟩, rfl⟩

theorem storeChunks_equiv {w w' : Writer} (hw : WriterEquiv w w') (cs : List Str) (acc : List Addr) :
    ProgEquiv WPair (storeChunks H w cs acc) (storeChunks H w' cs acc) := by
  induction cs generalizing w w' acc with
  | nil =>
    unfold storeChunks
    exact .ret ⟨hw, rfl⟩
  | cons c cs ih =>
    unfold storeChunks
    apply ProgEquiv.bind (storeOrDedup_equiv H hw c)
    rintro ⟨w1, r1⟩ ⟨w2, r2⟩ ⟨hw2, hr⟩
    simp only at hw2 hr
    subst hr
    simp only []
    split
    · exact .ret ⟨hw2, rfl⟩
    · exact ih hw2 _

theorem storeFileContent_equiv (o : BackupOpts) {w w' : Writer} (hw : WriterEquiv w w') (s : SrcEntry) :
    ProgEquiv WPair (storeFileContent H o w s) (storeFileContent H o w' s) := by
  unfold storeFileContent
  apply ProgEquiv.bind (storeChunks_equiv H hw _ _)
  rintro ⟨w1, r1⟩ ⟨w2, r2⟩ ⟨⟨ex2, hp2, h2⟩, hr⟩
  simp only at h2 hr
  subst h2 hr
  simp only []
  split
  · exact .ret ⟨⟨_, hp2, rfl⟩, rfl⟩
  · exact .ret ⟨⟨_, hp2, rfl⟩, rfl⟩

set_option hygiene false in
/-- The part of `copy_file` after the decision "store the content". -/
local macro "cf_tail" : tactic => `(tactic| (
  split
  · split
    · pe_leaf
    · exact .ret ⟨⟨_, hp, rfl⟩, rfl⟩
  · split
    · refine ProgEquiv.bind (combinerPush_equiv H o ?_ s) ?_
      · exact ⟨_, hp, rfl⟩
      rintro ⟨w1, r1⟩ ⟨w2, r2⟩ ⟨hw2, hr⟩
      simp only at hw2 hr
      subst hr
      simp only []
      split <;> exact .ret ⟨hw2, rfl⟩
    · refine ProgEquiv.bind (storeFileContent_equiv H o ?_ s) ?_
      · exact ⟨_, hp, rfl⟩
      rintro ⟨w1, r1⟩ ⟨w2, r2⟩ ⟨⟨ex2, hp2, h2⟩, hr⟩
      simp only at h2 hr
      subst h2 hr
      simp only []
      split
      · exact .ret ⟨⟨_, hp2, rfl⟩, rfl⟩
      · split
        · pe_leaf
        · exact .ret ⟨⟨_, hp2, rfl⟩, rfl⟩))

theorem copyFile_equiv (o : BackupOpts) {w w' : Writer} (hw : WriterEquiv w w') (basis : Option IndexEntry)
    (s : SrcEntry) : ProgEquiv WPair (copyFile H o w basis s) (copyFile H o w' basis s) := by
  obtain ⟨ex', hp, rfl⟩ := hw
  unfold copyFile
  simp only [hp.contains_eq]
  cases basis with
  | none =>
    simp only []
    cf_tail
  | some b =>
    simp only []
    cases heuristicallyUnchanged s b with
    | none => exact .panic _
    | some bb =>
      cases bb with
      | false =>
        simp only []
        cf_tail
      | true =>
        simp only []
        by_cases hc : (b.addrs.all fun a => w.exists_.contains a.hash) = true
        · simp only [hc, if_true]
          cases metadataFrom o s with
          | none => exact .panic _
          | some ie => exact .ret ⟨⟨_, hp, rfl⟩, rfl⟩
        · simp only [hc, Bool.false_eq_true, if_false]
          cf_tail

theorem copyEntry_equiv (o : BackupOpts) {w w' : Writer} (hw : WriterEquiv w w') (basis : Option IndexEntry)
    (s : SrcEntry) : ProgEquiv WPair (copyEntry H o w basis s) (copyEntry H o w' basis s) := by
  unfold copyEntry
  split
  · obtain ⟨ex', hp, rfl⟩ := hw
    split
    · pe_leaf
    · exact .ret ⟨⟨_, hp, rfl⟩, rfl⟩
  · obtain ⟨ex', hp, rfl⟩ := hw
    split
    · pe_leaf
    · exact .ret ⟨⟨_, hp, rfl⟩, rfl⟩
  · exact copyFile_equiv H o hw basis s
  · obtain ⟨ex', hp, rfl⟩ := hw
    exact .ret ⟨⟨_, hp, rfl⟩, rfl⟩

theorem finishHunk_equiv {w w' : Writer} (hw : WriterEquiv w w') :
    ProgEquiv WriterEquiv (finishHunk w) (finishHunk w') := by
  obtain ⟨ex', hp, rfl⟩ := hw
  unfold finishHunk
  simp only []
  split
  · exact .ret ⟨_, hp, rfl⟩
  · split
    · apply ProgEquiv.bindEq (performUnit_equiv _ (by simp [Op.verb])); intro _
      apply ProgEquiv.bindEq (performUnit_equiv _ (by simp [Op.verb])); intro _
      exact .ret ⟨_, hp, rfl⟩
    · apply ProgEquiv.bindEq (performUnit_equiv _ (by simp [Op.verb])); intro _
      exact .ret ⟨_, hp, rfl⟩

theorem flushGroup_equiv {w w' : Writer} (hw : WriterEquiv w w') :
    ProgEquiv WriterEquiv (flushGroup H w) (flushGroup H w') := by
  unfold flushGroup
  apply ProgEquiv.bind (combinerFlush_equiv H hw)
  rintro ⟨w1, r1⟩ ⟨w2, r2⟩ ⟨⟨ex2, hp2, h2⟩, hr⟩
  simp only at h2 hr
  subst h2 hr
  simp only []
  split
  · pe_leaf
  · refine finishHunk_equiv ?_
    exact ⟨_, hp2, rfl⟩

set_option hygiene false in
local macro "bl_tail" : tactic => `(tactic| (
  split
  · refine ProgEquiv.bind (flushGroup_equiv H ?_) (fun a b hab => ih hab)
    exact ⟨_, hp2, rfl⟩
  · exact ih ⟨_, hp2, rfl⟩))

set_option hygiene false in
local macro "bl_step" : tactic => `(tactic| (
  unfold backupLoop
  simp only []
  refine ProgEquiv.bind (copyEntry_equiv H o hw _ _) ?_
  rintro ⟨w1, r1⟩ ⟨w2, r2⟩ ⟨⟨ex2, hp2, h2⟩, hr⟩
  simp only at h2 hr
  subst h2 hr
  simp only []
  split
  · exact .emit _ (ih ⟨_, hp2, rfl⟩)
  · split
    · refine .emit _ ?_
      simp only [Prog.ret_bind]
      bl_tail
    · bl_tail))

theorem backupLoop_equiv (o : BackupOpts) {w w' : Writer} (hw : WriterEquiv w w') (ms : List Matched) :
    ProgEquiv WriterEquiv (backupLoop H o w ms) (backupLoop H o w' ms) := by
  induction ms generalizing w w' with
  | nil =>
    unfold backupLoop
    exact .ret hw
  | cons m rest ih =>
    cases m with
    | left b =>
      unfold backupLoop
      exact .emit _ (ih hw)
    | right s => bl_step
    | both b s => bl_step

set_option hygiene false in
local macro "bk_tail" : tactic => `(tactic| (
  apply ProgEquiv.bind (backupLoop_equiv H o (w := { band := band, exists_ := blocks })
    ⟨blocks', hb.symm, rfl⟩ _)
  intro w1 w2 hw
  apply ProgEquiv.bind (flushGroup_equiv H hw)
  intro w1 w2 hw
  apply ProgEquiv.bind (finishHunk_equiv hw)
  rintro w1 w2 ⟨ex, hp, rfl⟩
  apply ProgEquiv.bindEq (bandClose_equiv _ _); intro _
  exact .ret rfl))

/-- **`backup` is insensitive to the order of every listing**: the lock test, the choice of the
basis version and of the new version's id, the set of present blocks, the basis listing, and so
every write. -/
theorem backup_equiv (o : BackupOpts) (src : List SrcEntry) :
    ProgEquiv Eq (backup H o src) (backup H o src) := by
  unfold backup
  simp only []
  apply ProgEquiv.bindEq gcIsLocked_equiv; intro c
  split
  · pe_leaf
  · apply ProgEquiv.bindEq lastBandId_equiv; intro basisBand
    apply ProgEquiv.bindEq bandCreate_equiv; intro band
    apply ProgEquiv.bindEq gcLockListed_equiv; intro c2
    split
    · pe_leaf
    · apply ProgEquiv.bind listBlocks_equiv; intro blocks blocks' hb
      split
      · apply ProgEquiv.bindEq (listEntries_equiv _ _ _); intro basis
        bk_tail
      · apply ProgEquiv.bindEq (ProgEquiv.pureEq _); intro basis
        bk_tail

end
end Conserve
