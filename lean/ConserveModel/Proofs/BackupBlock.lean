import ConserveModel.Proofs.BackupStore
import ConserveModel.Backup
/-
Hoare-style frame for `backup` (world invariant, frame relation between worlds) and the
specification of `BlockDir::store_or_deduplicate` in all worlds.  No property statements here.
-/
namespace Conserve.Inv
open Conserve Prog

/-- World invariant: `CreateNew` is enforced and the store satisfies `Good`. -/
structure WOK (H : Str → Str) (src : List SrcEntry) (s0 : Store) (w : World) : Prop where
  enforce : w.enforceCreateNew = true
  good : Good H src s0 w.store

/-- What every piece of `backup` guarantees about the world it ends in — whatever the outcome
(value, error, panic), whatever faults were injected, wherever the world was killed. -/
structure Frame (H : Str → Str) (src : List SrcEntry) (s0 : Store) (w w' : World) : Prop where
  wok : WOK H src s0 w'
  ext : Extends w.store w'.store

section
variable {H : Str → Str} {src : List SrcEntry} {s0 : Store}

theorem Frame.refl {w : World} (hw : WOK H src s0 w) : Frame H src s0 w w := ⟨hw, Extends.refl _⟩

theorem Frame.trans {a b c : World} (h1 : Frame H src s0 a b) (h2 : Frame H src s0 b c) :
    Frame H src s0 a c := ⟨h2.wok, h1.ext.inv_trans h2.ext⟩

theorem Frame.events {w : World} (hw : WOK H src s0 w) (ev : Event) :
    Frame H src s0 w { w with events := ev :: w.events } := ⟨⟨hw.enforce, hw.good⟩, Extends.refl _⟩

/-- One admissible operation. -/
theorem Frame.exec {w : World} (hw : WOK H src s0 w) {o : Op} (ho : OpOK H src w.store o) :
    Frame H src s0 w (w.exec o).1 :=
  ⟨⟨by simpa using hw.enforce, w.inv_exec_good o hw.enforce ho hw.good⟩,
   w.inv_exec_extends o hw.enforce ho.createOnly⟩

theorem OpOK.createDir (s : Store) {k : Key} (hk : ∀ h, k ≠ .block h) : OpOK H src s (.createDir k) where
  createOnly := Or.inr (Or.inl ⟨k, rfl⟩)
  dir := fun h ho => by
    cases ho
    exact hk h rfl
  block := fun _ _ _ ho => by cases ho
  hunk := fun _ _ _ _ ho => by cases ho

theorem OpOK.readOnly (s : Store) {o : Op} (ho : o.isMutating = false) : OpOK H src s o where
  createOnly := Or.inl ho
  dir := fun h hh => by subst hh; simp [Op.isMutating] at ho
  block := fun _ _ _ hh => by subst hh; simp [Op.isMutating] at ho
  hunk := fun _ _ _ _ hh => by subst hh; simp [Op.isMutating] at ho

theorem OpOK.writeBlock (s : Store) (data : Str) :
    OpOK H src s (.write (.block (H data)) (.blockData data) .createNew) where
  createOnly := Or.inr (Or.inr ⟨_, _, rfl⟩)
  dir := fun _ ho => by cases ho
  block := fun _ _ _ ho => by
    cases ho
    exact ⟨data, rfl, rfl⟩
  hunk := fun _ _ _ _ ho => by cases ho

theorem OpOK.writeHunk (s : Store) (b n : Nat) (es : List IndexEntry) (h : ∀ e ∈ es, EntryOK H src s e) :
    OpOK H src s (.write (.hunk b n) (.hunk es) .createNew) where
  createOnly := Or.inr (Or.inr ⟨_, _, rfl⟩)
  dir := fun _ ho => by cases ho
  block := fun _ _ _ ho => by cases ho
  hunk := fun _ _ _ _ ho => by
    cases ho
    exact ⟨es, rfl, h⟩

/-- Writes to keys that are neither blocks nor hunks (band head, band tail). -/
theorem OpOK.writeOther (s : Store) {k : Key} (v : FileVal) (hb : ∀ h, k ≠ .block h)
    (hh : ∀ b n, k ≠ .hunk b n) : OpOK H src s (.write k v .createNew) where
  createOnly := Or.inr (Or.inr ⟨_, _, rfl⟩)
  dir := fun _ ho => by cases ho
  block := fun h _ _ ho => by
    cases ho
    exact absurd rfl (hb h)
  hunk := fun b n _ _ ho => by
    cases ho
    exact absurd rfl (hh b n)

/-- A `CreateNew` write that reports success has put the value there. -/
theorem _root_.Conserve.World.inv_exec_write_unit (w : World) (k : Key) (v : FileVal) (he : w.enforceCreateNew = true)
    (hr : (w.exec (.write k v .createNew)).2 = .unit) :
    (w.exec (.write k v .createNew)).1.store.get? k = some v := by
  rcases w.inv_exec_cases _ he (Or.inr (Or.inr ⟨k, v, rfl⟩)) with ⟨_, h⟩ | ⟨_, h, _⟩ | ⟨k', v', ho, _, ⟨_, h⟩ | ⟨h, _⟩⟩
  · obtain ⟨e, he'⟩ := h k v _ rfl
    rw [he'] at hr; cases hr
  · cases h
  · rw [h] at hr; cases hr
  · cases ho
    rw [h, Store.inv_get?_put]; simp

/-- `store_or_deduplicate` in every world: it always returns (errors are values); the world
keeps the invariant; the `exists` set keeps naming present intact blocks; on success the
returned hash is the hash of the data and the block holds exactly the data; on failure the
`exists` set is unchanged.  Nothing else of the writer changes but the statistics. -/
theorem storeOrDedup_spec (hinj : Function.Injective H) (wr : Writer) (data : Str) (w : World)
    (hw : WOK H src s0 w) (hex : ExistsOK H w.store wr.exists_) :
    ∃ ex' st' r w',
      (storeOrDedup H wr data).run w = (.ok ({ wr with exists_ := ex', stats := st' }, r), w') ∧
      Frame H src s0 w w' ∧ ExistsOK H w'.store ex' ∧
      (∀ h, r = .ok h → h = H data ∧ blockContent H w'.store h = some data) ∧
      (∀ e, r = .error e → ex' = wr.exists_) := by
  unfold storeOrDedup
  by_cases hc : wr.exists_.contains (H data) = true
  · simp only [hc, if_true, Prog.pure_def, Prog.bind_def, Prog.run_ret]
    refine ⟨wr.exists_, _, .ok (H data), w, rfl, Frame.refl hw, hex, ?_, ?_⟩
    · intro h hh
      cases hh
      refine ⟨rfl, ?_⟩
      obtain ⟨c, hc'⟩ := hex (H data) (by simpa using hc)
      have hc2 := hc'
      unfold blockContent at hc2
      split at hc2
      · split at hc2
        · rename_i hh
          cases hc2
          rw [hc', hinj hh]
        · cases hc2
      · cases hc2
    · intro e he; cases he
  · simp only [hc, Bool.false_eq_true, ↓reduceIte, Prog.pure_def, Prog.bind_def, perform, Prog.op_bind, Prog.ret_bind, Prog.run_op]
    have ho1 : OpOK H src w.store (.createDir (.blockDir ((H data).take subdirNameChars))) :=
      OpOK.createDir _ (fun _ h => by cases h)
    have f1 := Frame.exec hw ho1
    generalize (w.exec (.createDir (.blockDir ((H data).take subdirNameChars)))) = x1 at f1
    obtain ⟨w1, r1⟩ := x1
    have herr : ∀ e, ∃ ex' st' r w',
        (Prog.ret (wr, (Except.error (Err.transport e) : Except Err Str))).run w1 =
          (.ok ({ wr with exists_ := ex', stats := st' }, r), w') ∧
        Frame H src s0 w w' ∧ ExistsOK H w'.store ex' ∧
        (∀ h, r = .ok h → h = H data ∧ blockContent H w'.store h = some data) ∧
        (∀ e, r = .error e → ex' = wr.exists_) := fun e =>
      ⟨wr.exists_, wr.stats, _, w1, rfl, f1, hex.mono f1.ext, fun _ h => (nomatch h), fun _ _ => rfl⟩
    cases r1 with
    | err e => exact herr e
    | _ =>
      simp only [Prog.run_op]
      all_goals (
        have ho2 : OpOK H src w1.store (.write (.block (H data)) (.blockData data) .createNew) :=
          OpOK.writeBlock _ data
        have f2 := Frame.exec f1.wok ho2
        have hu := w1.inv_exec_write_unit (.block (H data)) (.blockData data) f1.wok.enforce
        generalize (w1.exec (.write (.block (H data)) (.blockData data) .createNew)) = x2 at f2 hu
        obtain ⟨w2, r2⟩ := x2
        have f12 := f1.trans f2
        cases r2 with
        | unit =>
          refine ⟨H data :: wr.exists_, _, .ok (H data), w2, rfl, f12, ?_, ?_, ?_⟩
          · have hb : blockContent H w2.store (H data) = some data := by
              unfold blockContent; rw [hu rfl]; simp
            intro h hh
            rcases List.mem_cons.mp hh with rfl | hh
            · exact ⟨_, hb⟩
            · exact (hex.mono f12.ext) h hh
          · intro h hh; cases hh
            refine ⟨rfl, ?_⟩
            unfold blockContent; rw [hu rfl]; simp
          · intro e he; cases he
        | err e =>
          exact ⟨wr.exists_, wr.stats, _, w2, rfl, f12, hex.mono f12.ext, fun _ h => (nomatch h), fun _ _ => rfl⟩
        | _ =>
          exact ⟨wr.exists_, wr.stats, _, w2, rfl, f12, hex.mono f12.ext, fun _ h => (nomatch h), fun _ _ => rfl⟩)

end

end Conserve.Inv
