import ConserveModel.Proofs.ExactHunk
import ConserveModel.Proofs.ExactFrame
/-
`backup()` as a whole on a fault-free world: the prelude (lock check, new version, block listing,
basis listing), the main part, and the final store (`Final`).  No property statements here.
-/
set_option linter.unusedSimpArgs false
namespace Conserve.Exact
open Conserve Prog

variable {H : Str → Str} {o : BackupOpts}

/-! ### Hypotheses of the end-to-end theorem -/

/-- Version `b` lists without complaint: head readable, hunks numbered 0,1,2,… as the tail says (if
any), every hunk file usable. -/
def BandGood (s : Store) (b : Nat) : Prop :=
  bandReadable s b = true ∧ indexCheckError s b = none ∧ ∀ k ∈ hunkNumsOf s b, hunkError s b k = none

/-- What C01 (a) assumes of the archive a backup starts from. -/
structure ArchiveGood (H : Str → Str) (src : List SrcEntry) (s : Store) : Prop where
  /-- a map and a tree; directories where the layout has directories and files where it has files;
  `d/` exists; every block file is named by the hash of its content (or is a zero-length leftover)
  and is shorter than 2^64 bytes -/
  st : StoreOK H s
  /-- in every version the entries of the usable hunks are strictly increasing -/
  sorted : ∀ b n v, s.get? (.hunk b n) = some v → strictlySorted ((ownEntries s b).map (·.apath)) = true
  /-- no garbage collection in progress -/
  noLock : s.get? .gcLock = none
  /-- every version directory holds a version that lists without complaint -/
  bands : ∀ b ∈ bandIdsOf s, BandGood s b
  /-- no index entry refers to a missing, corrupt or too-short block -/
  noDangling : NoDangling H s
  /-- the tool's own assumption: a stored file entry that looks unchanged IS unchanged -/
  heuristic : Inv.HeuristicSoundStore H src s

theorem ArchiveGood.wf {src : List SrcEntry} {s : Store} (h : ArchiveGood H src s) : ArchWF s :=
  archWF_of h.st h.sorted

/-- In an archive that is a tree, whatever holds a hunk file has its version directory. -/
theorem bandDir_of_hunk {s : Store} (hst : StoreOK H s) {c n : Nat} {v : FileVal}
    (h : s.get? (.hunk c n) = some v) : c ∈ bandIdsOf s := by
  have h1 := hst.dirs _ _ h
  simp only [Store.parentOk, Key.parent, beq_iff_eq] at h1
  have h2 := hst.dirs _ _ h1
  simp only [Store.parentOk, Key.parent, beq_iff_eq] at h2
  have h3 := hst.dirs _ _ h2
  simp only [Store.parentOk, Key.parent, beq_iff_eq] at h3
  exact (mem_bandIdsOf hst).2 h3

/-- No version of a good archive has lost its head. -/
theorem ArchiveGood.headLost_false {src : List SrcEntry} {s : Store} (h : ArchiveGood H src s) (c : Nat) :
    headLost s c = false := by
  unfold headLost
  cases hg : s.get? (.hunk c 0) with
  | none => simp
  | some v =>
    have hr := (h.bands c (bandDir_of_hunk h.st hg)).1
    have hp : bandPresent s c = true := by
      unfold bandReadable at hr
      unfold bandPresent
      cases hh : s.get? (.bandHead c) with
      | none => simp [hh] at hr
      | some v => cases v <;> simp [hh, FileVal.isDir] at hr ⊢
    simp [hp]

/-! ### Bridging to the stitch refinement -/

theorem _root_.Conserve.World.Clean.quiet {w : World} (h : w.Clean) : w.Quiet := ⟨h.2.1, h.2.2.1, h.2.2.2⟩

/-- `listEntries` on a well-formed store: the filtered rule listing; the errors of the rule. -/
theorem listEntries_runsAt {s : Store} (wf : ArchWF s) (n : Nat) (subtree : Str) (excl : Str → Bool) :
    RunsAt (listEntries n subtree excl) s
      (.ok ((listSpec s n).filter fun e => isPrefixOfImpl subtree e.apath && !excl e.apath)) s
      (((listErrors s n).map Event.error).reverse) := by
  intro w hw
  have hq : Quiet s w.events w := ⟨hw.store, hw.quiet.alive, hw.quiet.noFaults, rfl⟩
  obtain ⟨h1, q⟩ := C08.stitch_eq_spec_quiet wf n hq
  have hrun : (stitchAll n).run w = (.ok (listSpec s n), ((stitchAll n).run w).2) := Prod.ext h1 rfl
  have hcl := Prog.run_clean (stitchAll n) hw.toClean
  have hle : (listEntries n subtree excl).run w =
      (.ok ((listSpec s n).filter fun e => isPrefixOfImpl subtree e.apath && !excl e.apath),
        ((stitchAll n).run w).2) := by
    simp only [listEntries, Prog.bind_def]
    rw [Prog.run_bind, hrun]
    exact run_filterEntries subtree excl (listSpec s n) _ (fun e he _ => C08.listed_valid he)
  unfold Runs
  rw [hle]
  exact ⟨rfl, q.store, q.events, hcl.quiet, hcl.1.trans hw.ecn.symm⟩

/-! ### `mergeTrees` -/

theorem srcsOf_map_right (ss : List SrcEntry) : srcsOf (ss.map .right) = ss := by
  induction ss with
  | nil => rfl
  | cons x ss ih => simp [srcsOf, ih]

theorem srcsOf_map_left (bs : List IndexEntry) : srcsOf (bs.map .left) = [] := by
  induction bs with
  | nil => rfl
  | cons x bs ih => simp [srcsOf, ih]

theorem srcsOf_mergeTrees (bs : List IndexEntry) (ss : List SrcEntry) : srcsOf (mergeTrees bs ss) = ss := by
  fun_induction mergeTrees bs ss with
  | case1 ss => exact srcsOf_map_right ss
  | case2 bs _ => exact srcsOf_map_left bs
  | case3 b bs x ss hcmp ih => simp [srcsOf, ih]
  | case4 b bs x ss hcmp ih => simp [srcsOf, ih]
  | case5 b bs x ss hcmp ih => simp [srcsOf, ih]

theorem matchedGood_mergeTrees (bs : List IndexEntry) (ss : List SrcEntry)
    (hb : ∀ b ∈ bs, (entryTimeNs b.mtime b.mtimeNanos).isSome = true) :
    ∀ m ∈ mergeTrees bs ss, MatchedGood m := by
  fun_induction mergeTrees bs ss with
  | case1 ss =>
    intro m hm
    obtain ⟨x, _, rfl⟩ := List.mem_map.mp hm
    trivial
  | case2 bs _ =>
    intro m hm
    obtain ⟨x, _, rfl⟩ := List.mem_map.mp hm
    trivial
  | case3 b bs x ss hcmp ih =>
    intro m hm
    rcases List.mem_cons.mp hm with rfl | hm
    · exact hb b (List.mem_cons_self ..)
    · exact ih (fun b' hb' => hb b' (List.mem_cons_of_mem _ hb')) m hm
  | case4 b bs x ss hcmp ih =>
    intro m hm
    rcases List.mem_cons.mp hm with rfl | hm
    · trivial
    · exact ih (fun b' hb' => hb b' (List.mem_cons_of_mem _ hb')) m hm
  | case5 b bs x ss hcmp ih =>
    intro m hm
    rcases List.mem_cons.mp hm with rfl | hm
    · trivial
    · exact ih hb m hm

/-! ### The final store -/

/-- What the archive looks like after the backup created version `nb` from `src`: `hs` are its hunks. -/
structure Final (H : Str → Str) (o : BackupOpts) (nb : Nat) (s0 s : Store) (hs : List (List IndexEntry))
    (src : List SrcEntry) : Prop where
  st : StoreOK H s
  hunk : ∀ n, s.get? (.hunk nb n) = (hs[n]?).map FileVal.hunk
  indexDir : s.get? (.indexDir nb) = some .dir
  bandDir : s.get? (.bandDir nb) = some .dir
  head : s.get? (.bandHead nb) = some (.head .ok [])
  tail : s.get? (.bandTail nb) = some (.tail (some hs.length))
  shape : hs.flatten.map strip = src.map (Inv.metaOf o)
  hsNonfile : ∀ e ∈ hs.flatten, e.kind ≠ .file → e.addrs = []
  frame : ∀ k, newKey nb k = false → s.get? k = s0.get? k

/-- The main part of `backup()` from the state the prelude leaves. -/
theorem backupMain_runs (hmax : 0 < o.maxBlockSize) {nb : Nat} {s0 s : Store} {src : List SrcEntry}
    (x : Nat × List Str × List IndexEntry)
    (hl : LInv H o nb s0 s { band := x.1, exists_ := x.2.1 } [] [] [] 0)
    (hsrc : ∀ sf ∈ src, EntryGood sf)
    (hbasis : ∀ b ∈ x.2.2, (entryTimeNs b.mtime b.mtimeNanos).isSome = true)
    (hsorted : (src.map (·.apath)).Pairwise fun a b => apathCmp a b = .lt)
    (hB : totalSize src < 18446744073709551616) :
    ∃ s' hs evs stats, RunsAt (Inv.backupMain H o src x) s (.ok stats) s' evs ∧ stats.errors = 0 ∧
      NoErrorEvents evs ∧ Final H o nb s0 s' hs src := by
  have hsrcs := srcsOf_mergeTrees x.2.2 src
  obtain ⟨s1, wr1, hs1, pre1, grp1, bytes1, evs, hr1, hl1, heq1, hb1, hne, hsg1⟩ :=
    backupLoop_runs hmax (mergeTrees x.2.2 src) s _ [] [] [] 0 hl (by rwa [hsrcs])
      (matchedGood_mergeTrees _ _ hbasis) (by simpa [hsrcs] using hsorted) (by simpa [hsrcs] using hB)
  rw [hsrcs] at heq1
  obtain ⟨s2, wr2, hs2, hr2, hl2, hp2, hq2, hf2⟩ := flushGroup_runs hl1 hb1 hsg1
  have heq2 : pre1 ++ grp1 = src := by simpa using heq1
  rw [heq2] at hl2
  -- the second `finish_hunk` finds nothing pending
  have hr3 : RunsAt (finishHunk wr2) s2 (.ok wr2) s2 [] := by
    unfold finishHunk
    simp only [hp2, List.isEmpty_nil, if_true, Prog.pure_def]
    exact RunsAt.ret _ _
  have hpar : s2.parentOk (.bandTail nb) = true := by
    simp [Store.parentOk, Key.parent, hl2.bi.bandDir]
  have hst3 : StoreOK H (s2.put (.bandTail nb) (.tail (some hs2.length))) :=
    hl2.b.st.put hpar (Or.inl hl2.bi.tail) (by simp [kindOk, isDirKey, FileVal.isDir]) (fun _ hk => by cases hk)
  have hne' : ∀ k, k ≠ Key.bandTail nb → (s2.put (.bandTail nb) (.tail (some hs2.length))).get? k = s2.get? k :=
    fun k hk => by simp [get?_put, hk]
  refine ⟨s2.put (.bandTail nb) (.tail (some hs2.length)), hs2, evs, wr2.stats, ?_, hl2.errors, hne, ?_⟩
  · unfold Inv.backupMain
    have hclose : RunsAt (bandClose wr2.band wr2.hunksWritten) s2 (.ok ())
        (s2.put (.bandTail nb) (.tail (some hs2.length))) [] := by
      rw [hl2.band, hl2.hw]
      exact RunsAt.performUnit_write hpar (Or.inl hl2.bi.tail)
    refine RunsAt.bind_r0 hr1 ?_
    refine RunsAt.bind0 hr2 ?_
    refine RunsAt.bind0 hr3 ?_
    exact RunsAt.bind0 (a := ()) hclose (RunsAt.ret wr2.stats _)
  · refine ⟨hst3, ?_, ?_, ?_, ?_, by simp [get?_put], hl2.shape, hl2.hsNonfile, ?_⟩
    · intro n; rw [hne' _ (by simp)]; exact hl2.bi.hunk n
    · rw [hne' _ (by simp)]; exact hl2.bi.indexDir
    · rw [hne' _ (by simp)]; exact hl2.bi.bandDir
    · rw [hne' _ (by simp)]; exact hl2.bi.head
    · intro k hk
      have : k ≠ Key.bandTail nb := by
        intro e; subst e; simp [newKey, Key.isUnder, Key.parent] at hk
      rw [hne' _ this]
      exact hl2.frame k hk

/-! ### The prelude -/

theorem valid_prefix_slash {a : Str} (h : isValid a = true) : isPrefixOfImpl [slash] a = true := by
  cases a with
  | nil => simp [isValid] at h
  | cons c rest =>
    have hc : c = slash := by
      by_cases hc : c = slash
      · exact hc
      · simp [isValid, hc] at h
    subst hc
    cases rest with
    | nil => simp [isPrefixOfImpl]
    | cons d rest => simp [isPrefixOfImpl, List.isPrefixOf]

/-- The root listing keeps every entry. -/
theorem rootFilter_listSpec {s : Store} (n : Nat) :
    (listSpec s n).filter (fun e => isPrefixOfImpl [slash] e.apath && !(fun _ => false) e.apath) = listSpec s n := by
  rw [List.filter_eq_self]
  intro e he
  simp [valid_prefix_slash (C08.listed_valid he)]

/-- The basis listing a backup of archive `s` works against: the listing of the newest version
directory (stitched downwards if that version is incomplete); nothing if there is no version. -/
def basisListing (s : Store) : List IndexEntry :=
  match maxNat? (bandIdsOf s) with
  | none => []
  | some b => listSpec s b


theorem bandSame_of_frame {s0 s : Store} {nb b : Nat} (hframe : ∀ k, newKey nb k = false → s.get? k = s0.get? k)
    (hb : b ≠ nb) : BandSame s0 s b := by
  intro k hk
  refine hframe k ?_
  cases k <;> simp_all [newKey, Key.isUnder, Key.parent, isBlockish]

/-- The store right after `Band::create`. -/
def withNewBand (s : Store) : Store :=
  ((s.put (.bandDir (newBandOf s)) .dir).put (.indexDir (newBandOf s)) .dir).put
    (.bandHead (newBandOf s)) (.head .ok [])

theorem get?_withNewBand (s : Store) (k : Key) :
    (withNewBand s).get? k =
      if k = .bandHead (newBandOf s) then some (.head .ok [])
      else if k = .indexDir (newBandOf s) then some .dir
      else if k = .bandDir (newBandOf s) then some .dir
      else s.get? k := by
  simp only [withNewBand, get?_put]

theorem withNewBand_frame (s : Store) (k : Key) (hk : newKey (newBandOf s) k = false) :
    (withNewBand s).get? k = s.get? k := by
  rw [get?_withNewBand]
  have h1 : k ≠ .bandHead (newBandOf s) := by
    intro e; subst e; simp [newKey, Key.isUnder, Key.parent] at hk
  have h2 : k ≠ .indexDir (newBandOf s) := by
    intro e; subst e; simp [newKey, Key.isUnder, Key.parent] at hk
  have h3 : k ≠ .bandDir (newBandOf s) := by
    intro e; subst e; simp [newKey, Key.isUnder, Key.parent] at hk
  simp [h1, h2, h3]

theorem withNewBand_storeOK {s : Store} (hst : StoreOK H s) : StoreOK H (withNewBand s) := by
  have f1 := fresh_under_new hst (k := .bandDir (newBandOf s)) (by simp [Key.isUnder])
  have f2 := fresh_under_new hst (k := .indexDir (newBandOf s)) (by simp [Key.isUnder, Key.parent])
  have f3 := fresh_under_new hst (k := .bandHead (newBandOf s)) (by simp [Key.isUnder, Key.parent])
  have h1 : StoreOK H (s.put (.bandDir (newBandOf s)) .dir) :=
    hst.put (by simp [Store.parentOk, Key.parent, hst.root]) (Or.inl f1)
      (by simp [kindOk, isDirKey, FileVal.isDir]) (fun _ hk => by cases hk)
  have h2 : StoreOK H ((s.put (.bandDir (newBandOf s)) .dir).put (.indexDir (newBandOf s)) .dir) :=
    h1.put (by simp [Store.parentOk, Key.parent, get?_put]) (Or.inl (by simpa [get?_put] using f2))
      (by simp [kindOk, isDirKey, FileVal.isDir]) (fun _ hk => by cases hk)
  exact h2.put (by simp [Store.parentOk, Key.parent, get?_put]) (Or.inl (by simpa [get?_put] using f3))
    (by simp [kindOk, isDirKey, FileVal.isDir]) (fun _ hk => by cases hk)

/-- `Band::create` on a well-formed store. -/
theorem bandCreate_runs {s : Store} (hst : StoreOK H s) :
    RunsAt bandCreate s (.ok (newBandOf s)) (withNewBand s) [] := by
  have f1 := fresh_under_new hst (k := .bandDir (newBandOf s)) (by simp [Key.isUnder])
  have f2 := fresh_under_new hst (k := .indexDir (newBandOf s)) (by simp [Key.isUnder, Key.parent])
  have f3 := fresh_under_new hst (k := .bandHead (newBandOf s)) (by simp [Key.isUnder, Key.parent])
  have hlast : RunsAt lastBandId s (.ok (maxNat? (bandIdsOf s))) s [] := fun w hw => by
    have := lastBandId_runs hw.quiet (by rw [hw.store]; exact hst.root)
    rwa [hw.store] at this
  unfold bandCreate
  simp only [Prog.bind_def, Prog.pure_def]
  refine RunsAt.bind0 hlast ?_
  show RunsAt ((performUnit (.createDir (.bandDir (newBandOf s)))).bind fun _ =>
    (performUnit (.createDir (.indexDir (newBandOf s)))).bind fun _ =>
    (performUnit (.write (.bandHead (newBandOf s)) (.head .ok []) .createNew)).bind fun _ =>
    Prog.ret (newBandOf s)) s (.ok (newBandOf s)) (withNewBand s) []
  refine RunsAt.bind0 (a := ()) (RunsAt.performUnit_createDir f1
    (by simp [Store.parentOk, Key.parent, hst.root])) ?_
  refine RunsAt.bind0 (a := ()) (RunsAt.performUnit_createDir (by simpa [get?_put] using f2)
    (by simp [Store.parentOk, Key.parent, get?_put])) ?_
  refine RunsAt.bind0 (a := ()) (RunsAt.performUnit_write (v := .head .ok [])
    (by simp [Store.parentOk, Key.parent, get?_put]) (Or.inl (by simpa [get?_put] using f3))) ?_
  exact RunsAt.ret _ _

theorem entryUsable_time {e : IndexEntry} (h : entryUsable e = true) :
    (entryTimeNs e.mtime e.mtimeNanos).isSome = true := by
  simp only [entryUsable, Bool.and_eq_true] at h
  exact h.1.1.1.2

/-- The prelude of `backup()` on a good archive: no complaint, the new version is created, the
in-memory block set knows every stored block, the basis entries passed `IndexEntry::check`. -/
theorem backupPrelude_runs (hlen : ∀ d, subdirNameChars ≤ (H d).length) {src : List SrcEntry} {s : Store}
    (hg : ArchiveGood H src s) :
    RunsAt Inv.backupPrelude s (.ok (newBandOf s, blockNamesOf (withNewBand s), basisListing s))
        (withNewBand s) [] ∧
      (∀ b ∈ basisListing s, (entryTimeNs b.mtime b.mtimeNanos).isSome = true) ∧
      LInv H o (newBandOf s) s (withNewBand s)
        { band := newBandOf s, exists_ := blockNamesOf (withNewBand s) } [] [] [] 0 := by
  have hst := hg.st
  have hst1 : StoreOK H (withNewBand s) := withNewBand_storeOK hst
  have hframe := withNewBand_frame s
  have hfresh : ∀ k, Key.isUnder (.bandDir (newBandOf s)) k = true → k ≠ .bandHead (newBandOf s) →
      k ≠ .indexDir (newBandOf s) → k ≠ .bandDir (newBandOf s) → (withNewBand s).get? k = none := by
    intro k hk h1 h2 h3
    rw [get?_withNewBand]
    simp only [h1, h2, h3, if_false]
    exact fresh_under_new hst hk
  -- the steps
  have hlock : RunsAt gcIsLocked s (.ok false) s [] := fun w hw => by
    have := gcIsLocked_runs hw.quiet
    rw [hw.store] at this
    simpa [fileAt, hg.noLock] using this
  have hlast : RunsAt lastBandId s (.ok (maxNat? (bandIdsOf s))) s [] := fun w hw => by
    have := lastBandId_runs hw.quiet (by rw [hw.store]; exact hst.root)
    rwa [hw.store] at this
  -- the second look at the lock: still no GC_LOCK after the band directory and head were added
  have hlock2 : RunsAt gcLockListed (withNewBand s) (.ok false) (withNewBand s) [] := fun w hw => by
    have := gcLockListed_runs hw.quiet (by rw [hw.store]; exact hst1.root)
    rw [hw.store] at this
    rwa [lockListedOf_of_get?_none (by rw [get?_withNewBand]; simpa using hg.noLock)] at this
  have hblocks : RunsAt listBlocks (withNewBand s) (.ok (blockNamesOf (withNewBand s))) (withNewBand s) [] :=
    fun w hw => by
      have := listBlocks_runs hw.quiet (by rw [hw.store]; exact hst1.blockRoot)
        (by rw [hw.store]; exact blockSubdirs_are_dirs hst1.uniqueKeys)
      rwa [hw.store] at this
  -- the initial loop invariant
  have hl : LInv H o (newBandOf s) s (withNewBand s)
      { band := newBandOf s, exists_ := blockNamesOf (withNewBand s) } [] [] [] 0 := by
    refine ⟨⟨hst1, ?_, by simp [groupEntries], (fun _ h => nomatch h), (fun _ h => nomatch h), Nat.le_refl _⟩, rfl, rfl,
      rfl, ⟨?_, ?_, ?_, ?_, ?_, ?_⟩, rfl, rfl, (fun _ h => nomatch h), hframe⟩
    · intro h hbl
      refine (mem_blockNamesOf hst1.uniqueKeys hst1.dirsOk).2 ⟨hbl, ?_⟩
      obtain ⟨v, hgv, h1, h2⟩ := hbl
      rcases hst1.blocks h v hgv with rfl | ⟨c, rfl, hc⟩
      · simp [FileVal.isEmptyFile] at h2
      · rw [← hc]; exact hlen c
    · intro n
      rw [hfresh _ (by simp [Key.isUnder, Key.parent]) (by simp) (by simp) (by simp)]
      simp
    · intro d
      rw [hfresh _ (by simp [Key.isUnder, Key.parent]) (by simp) (by simp) (by simp)]
      simp
    · simp [get?_withNewBand]
    · simp [get?_withNewBand]
    · simp [get?_withNewBand]
    · exact hfresh _ (by simp [Key.isUnder, Key.parent]) (by simp) (by simp) (by simp)
  unfold Inv.backupPrelude basisListing
  cases hmax : maxNat? (bandIdsOf s) with
  | none =>
    refine ⟨?_, (fun _ h => nomatch h), hl⟩
    refine RunsAt.bind0 hlock ?_
    simp only [Bool.false_eq_true, if_false]
    refine RunsAt.bind0 hlast ?_
    refine RunsAt.bind0 (bandCreate_runs hst) ?_
    refine RunsAt.bind0 hlock2 ?_
    simp only [Bool.false_eq_true, if_false]
    refine RunsAt.bind0 hblocks ?_
    simp only [hmax]
    exact RunsAt.ret _ _
  | some b =>
    have hbmem : b ∈ bandIdsOf s := maxNat?_mem hmax
    have hblt : b < newBandOf s := nextBandId_gt _ b hbmem
    have hsame : ∀ c, c ≤ b → BandSame s (withNewBand s) c := fun c hc =>
      bandSame_of_frame hframe (by omega)
    have hwf0 := hg.wf
    have hwf1 : ArchWF (withNewBand s) := by
      refine archWF_frame hwf0 hst1 hframe ?_
      have : hunkNumsOf (withNewBand s) (newBandOf s) = [] := by
        apply hunkNumsOf_nil_of_no_hunk
        intro kv hkv n hk
        obtain ⟨k, v⟩ := kv
        simp only at hk
        subst hk
        have := hst1.noDup.get?_of_mem hkv
        rw [hfresh _ (by simp [Key.isUnder, Key.parent]) (by simp) (by simp) (by simp)] at this
        cases this
      simp [ownEntries, this, strictlySorted]
    have hsilent : listErrors (withNewBand s) b = [] := by
      rw [listErrors_same hwf0.uniqueKeys hst1.uniqueKeys b hsame]
      apply C08.stitch_silent
      · intro c hc
        have hcb : c ∈ bandIdsOf s := by
          simp only [chain, List.mem_cons] at hc
          rcases hc with rfl | hc
          · exact hbmem
          · split at hc
            · cases hc
            · have hp := chainBelow_present b c hc
              simp only [bandPresent] at hp
              cases hh : s.get? (.bandHead c) with
              | none => simp [hh] at hp
              | some v =>
                have := hst.dirs _ _ hh
                simp only [Store.parentOk, Key.parent, beq_iff_eq] at this
                exact (mem_bandIdsOf hst).2 this
        exact hg.bands c hcb
      · exact fun c _ => hg.headLost_false c
    have hlist : listSpec (withNewBand s) b = listSpec s b :=
      listSpec_same hwf0.uniqueKeys hst1.uniqueKeys b hsame
    refine ⟨?_, ?_, hl⟩
    · refine RunsAt.bind0 hlock ?_
      simp only [Bool.false_eq_true, if_false]
      refine RunsAt.bind0 hlast ?_
      refine RunsAt.bind0 (bandCreate_runs hst) ?_
      refine RunsAt.bind0 hlock2 ?_
      simp only [Bool.false_eq_true, if_false]
      refine RunsAt.bind0 hblocks ?_
      simp only [hmax]
      have hle := listEntries_runsAt hwf1 b [slash] (fun _ => false)
      rw [hsilent, rootFilter_listSpec, hlist] at hle
      exact RunsAt.bind0 hle (RunsAt.ret _ _)
    · intro e he
      obtain ⟨_, _, es, _, hu, hee⟩ := C08.listed_is_stored he
      exact entryUsable_time (List.all_eq_true.mp hu e hee)

end Conserve.Exact
