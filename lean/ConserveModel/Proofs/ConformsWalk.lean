import ConserveModel.Props.C11Walk
/-
C13 helper: every entry the source walk yields is `entry_from_fs_metadata` of some node, hence has
a target exactly if it is a symlink and is never of unknown kind.  No property statements here.
-/
namespace Conserve.Conf
open Conserve

/-- Every entry of the walk below a directory listing is the entry of some node. -/
theorem walkBelow_entries (excl : Str → Bool) (f : Forest) :
    ∀ ap, ∀ e ∈ f.walkBelow excl ap, ∃ (n : Node) (ap' : Str), e = n.entry ap' := by
  induction f using Forest.kids_induction with
  | h f ih =>
    intro ap e he
    rw [Forest.walkBelow_eq] at he
    rcases List.mem_append.mp he with he | he
    · obtain ⟨p, _, rfl⟩ := List.mem_map.mp he
      exact ⟨_, _, rfl⟩
    · obtain ⟨p, hp, hep⟩ := List.mem_flatMap.mp he
      have hp' := (mem_live.mp (List.mem_filter.mp (mem_sortBy.mp hp)).1).1
      exact ih p hp' _ e hep

theorem Node.entry_shape (n : Node) (ap : Str) :
    ((n.entry ap).kind = .symlink ↔ (n.entry ap).target.isSome = true) ∧ (n.entry ap).kind ≠ .unknown := by
  cases n <;> simp [Node.entry]

/-- Every entry of the source walk has a target exactly if it is a symlink, and a known kind. -/
theorem walk_entries_shape (T : Node) (excl : Str → Bool) :
    ∀ e ∈ C11.walk T excl, (e.kind = .symlink ↔ e.target.isSome = true) ∧ e.kind ≠ .unknown := by
  intro e he
  unfold C11.walk at he
  rw [C11.walk_deque_eq_rec, walkRec_eq] at he
  rcases List.mem_cons.mp he with rfl | he
  · exact Node.entry_shape _ _
  · obtain ⟨n, ap, rfl⟩ := walkBelow_entries excl _ _ e he
    exact Node.entry_shape _ _

end Conserve.Conf
