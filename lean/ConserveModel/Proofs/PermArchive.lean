import ConserveModel.Proofs.PermListing
/-
Helper lemmas for C17: every archive-, band-, block-directory- and index-level program of the
model is insensitive to the order of the listings it receives (`ProgEquiv`).  Programs that
consume a listing sort it (`listBandIds`, `hunksAvailable`, the subdirectories in `listBlocks`)
or return a set (`listBlocks`: equal up to `List.Perm`).
-/
namespace Conserve
open Prog

/-- Close a leaf goal `ProgEquiv R (ret/fail/panic ..) (..)`. -/
macro "pe_leaf" : tactic =>
  `(tactic| first | exact ProgEquiv.ret rfl | exact ProgEquiv.fail _ | exact ProgEquiv.panic _ | assumption)

/-- Step over one non-listing operation whose response is matched on. -/
macro "pe_op" : tactic =>
  `(tactic| (apply ProgEquiv.bindEq (ProgEquiv.performEq _ (by simp [Op.verb])); intro _))

/-- `monitor.error(e)` followed by equivalent continuations. -/
theorem ProgEquiv.logError_then {α β : Type} {R : α → β → Prop} {p : Prog α} {q : Prog β} (e : Err)
    (h : ProgEquiv R p q) :
    ProgEquiv R (Prog.logError e >>= fun _ => p) (Prog.logError e >>= fun _ => q) := .emit _ h

theorem isFile_equiv (k : Key) : ProgEquiv Eq (isFile k) (isFile k) := by
  unfold isFile
  pe_op
  split <;> pe_leaf

theorem archiveOpen_equiv : ProgEquiv Eq archiveOpen archiveOpen := by
  unfold archiveOpen
  pe_op
  split <;> (try split) <;> pe_leaf

/-- `Archive::list_band_ids` does not depend on the order of the root listing. -/
theorem listBandIds_equiv : ProgEquiv Eq listBandIds listBandIds := by
  unfold listBandIds
  apply ProgEquiv.bind (ProgEquiv.perform _)
  rintro r r' ⟨he, -⟩
  cases he with
  | listing hp => exact .ret (sortNat_filterMap_eq_of_perm _ hp)
  | refl => split <;> pe_leaf

theorem lastBandId_equiv : ProgEquiv Eq lastBandId lastBandId := by
  unfold lastBandId
  exact ProgEquiv.bindEq listBandIds_equiv fun _ => .ret rfl

theorem bandOpen_equiv (b : Nat) : ProgEquiv Eq (bandOpen b) (bandOpen b) := by
  unfold bandOpen
  pe_op
  split <;> (try split) <;> (try split) <;> pe_leaf

theorem bandIsClosed_equiv (b : Nat) : ProgEquiv Eq (bandIsClosed b) (bandIsClosed b) := isFile_equiv _
theorem bandExists_equiv (b : Nat) : ProgEquiv Eq (bandExists b) (bandExists b) := isFile_equiv _

theorem unwrapOr_equiv {α : Type} {p q : Prog α} (h : ProgEquiv Eq p q) (d : α) :
    ProgEquiv Eq (unwrapOr p d) (unwrapOr q d) := by
  unfold unwrapOr
  apply ProgEquiv.bindEq h.attemptEq
  intro a
  split <;> pe_leaf

theorem performUnit_equiv (o : Op) (h : o.verb ≠ .listDir) : ProgEquiv Eq (performUnit o) (performUnit o) := by
  unfold performUnit
  apply ProgEquiv.bindEq (ProgEquiv.performEq o h)
  intro a
  split <;> pe_leaf

theorem bandCreate_equiv : ProgEquiv Eq bandCreate bandCreate := by
  unfold bandCreate
  apply ProgEquiv.bindEq lastBandId_equiv; intro l
  apply ProgEquiv.bindEq (performUnit_equiv _ (by simp [Op.verb])); intro _
  apply ProgEquiv.bindEq (performUnit_equiv _ (by simp [Op.verb])); intro _
  apply ProgEquiv.bindEq (performUnit_equiv _ (by simp [Op.verb])); intro _
  exact .ret rfl

theorem bandClose_equiv (b n : Nat) : ProgEquiv Eq (bandClose b n) (bandClose b n) :=
  performUnit_equiv _ (by simp [Op.verb])

theorem bandDelete_equiv (b : Nat) : ProgEquiv Eq (bandDelete b) (bandDelete b) := by
  unfold bandDelete
  pe_op
  split <;> pe_leaf

theorem lastCompleteBand_go_equiv (ids : List Nat) :
    ProgEquiv Eq (lastCompleteBand.go ids) (lastCompleteBand.go ids) := by
  induction ids with
  | nil => exact .ret rfl
  | cons b rest ih =>
    unfold lastCompleteBand.go
    apply ProgEquiv.bindEq (bandOpen_equiv b).attemptEq; intro a
    split
    · exact ih
    · exact ih
    · pe_leaf
    · apply ProgEquiv.bindEq (bandIsClosed_equiv b); intro c
      split
      · pe_leaf
      · exact ih

theorem lastCompleteBand_equiv : ProgEquiv Eq lastCompleteBand lastCompleteBand := by
  unfold lastCompleteBand
  apply ProgEquiv.bindEq listBandIds_equiv; intro ids
  exact lastCompleteBand_go_equiv _

theorem resolveBandId_equiv (sel : BandSelection) : ProgEquiv Eq (resolveBandId sel) (resolveBandId sel) := by
  cases sel with
  | latestClosed =>
    unfold resolveBandId
    apply ProgEquiv.bindEq lastCompleteBand_equiv; intro a
    split <;> pe_leaf
  | specified b => exact .ret rfl
  | latest =>
    unfold resolveBandId
    apply ProgEquiv.bindEq lastBandId_equiv; intro a
    split <;> pe_leaf

theorem listBlocks_go_equiv (ps : List Str) {acc acc' : List Str} (ha : acc.Perm acc') :
    ProgEquiv List.Perm (listBlocks.go ps acc) (listBlocks.go ps acc') := by
  induction ps generalizing acc acc' with
  | nil => exact .ret ha
  | cons p ps ih =>
    unfold listBlocks.go
    apply ProgEquiv.bind (ProgEquiv.perform _)
    rintro r r' ⟨he, -⟩
    cases he with
    | listing hp => exact ih (listBlocks_step_perm ha (hp.filterMap _))
    | refl =>
      split
      · exact ih (listBlocks_step_perm ha (List.Perm.refl _))
      · pe_leaf
      · pe_leaf

/-- `blockdir::list_blocks`: the subdirectories are visited in name order whatever the order of
the listing of `d/`, and the set of names found is the same (as a multiset). -/
theorem listBlocks_equiv : ProgEquiv List.Perm listBlocks listBlocks := by
  unfold listBlocks
  apply ProgEquiv.bind (ProgEquiv.perform _)
  rintro r r' ⟨he, -⟩
  cases he with
  | listing hp =>
    simp only
    rw [mergeSort_compare_eq_of_perm (hp.filterMap _)]
    exact listBlocks_go_equiv _ (List.Perm.refl _)
  | refl =>
    split
    · exact listBlocks_go_equiv _ (List.Perm.refl _)
    · pe_leaf
    · pe_leaf

theorem gcIsLocked_equiv : ProgEquiv Eq gcIsLocked gcIsLocked := isFile_equiv _

/-- The second look `backup` takes at the lock does not depend on the order of the root listing
(`any` over the entries). -/
theorem gcLockListed_equiv : ProgEquiv Eq gcLockListed gcLockListed := by
  unfold gcLockListed
  apply ProgEquiv.bind (ProgEquiv.perform _)
  rintro r r' ⟨he, -⟩
  cases he with
  | listing hp => exact .ret hp.any_eq
  | refl => split <;> pe_leaf

local macro "gc_tail" : tactic =>
  `(tactic| (apply ProgEquiv.bindEq (unwrapOr_equiv (isFile_equiv _) _); intro c; split
             · pe_leaf
             · apply ProgEquiv.bindEq (performUnit_equiv _ (by simp [Op.verb])); intro _
               exact .ret rfl))

theorem gcLockNew_equiv : ProgEquiv Eq gcLockNew gcLockNew := by
  unfold gcLockNew
  apply ProgEquiv.bindEq lastBandId_equiv; intro last
  simp only []
  split
  · apply ProgEquiv.bindEq (bandIsClosed_equiv _); intro c
    split
    · pe_leaf
    · gc_tail
  · gc_tail

theorem gcBreakLock_equiv : ProgEquiv Eq gcBreakLock gcBreakLock := by
  unfold gcBreakLock
  simp only []
  apply ProgEquiv.bindEq gcIsLocked_equiv; intro c
  split
  · apply ProgEquiv.bindEq (performUnit_equiv _ (by simp [Op.verb])); intro _
    exact gcLockNew_equiv
  · exact gcLockNew_equiv

theorem gcLockCheck_equiv (held : Option Nat) : ProgEquiv Eq (gcLockCheck held) (gcLockCheck held) := by
  unfold gcLockCheck
  apply ProgEquiv.bindEq lastBandId_equiv; intro l
  split <;> pe_leaf

theorem gcLockRelease_equiv : ProgEquiv Eq gcLockRelease gcLockRelease := performUnit_equiv _ (by simp [Op.verb])

theorem gcLockDrop_equiv : ProgEquiv Eq gcLockDrop gcLockDrop := by
  unfold gcLockDrop
  pe_op
  exact .ret rfl

/-! ### Reading indexes -/

theorem hunksAvailable_go_equiv (b : Nat) (ds acc : List Nat) :
    ProgEquiv Eq (hunksAvailable.go b ds acc) (hunksAvailable.go b ds acc) := by
  induction ds generalizing acc with
  | nil => exact .ret rfl
  | cons d ds ih =>
    unfold hunksAvailable.go
    apply ProgEquiv.bind (ProgEquiv.perform _)
    rintro r r' ⟨he, -⟩
    cases he with
    | listing hp =>
      simp only
      rw [sortNat_filterMap_eq_of_perm _ hp]
      exact ih _
    | refl =>
      split
      · exact ih _
      · pe_leaf
      · pe_leaf

/-- `IndexRead::hunks_available` does not depend on the order of the listings of `bNNNN/i` and of
its subdirectories: both levels are sorted. -/
theorem hunksAvailable_equiv (b : Nat) : ProgEquiv Eq (hunksAvailable b) (hunksAvailable b) := by
  unfold hunksAvailable
  apply ProgEquiv.bind (ProgEquiv.perform _)
  rintro r r' ⟨he, -⟩
  cases he with
  | listing hp =>
    simp only
    rw [sortNat_filterMap_eq_of_perm _ hp]
    exact hunksAvailable_go_equiv _ _ _
  | refl =>
    split
    · exact hunksAvailable_go_equiv _ _ _
    · pe_leaf
    · pe_leaf

theorem iterAvailableHunks_equiv (b : Nat) : ProgEquiv Eq (iterAvailableHunks b) (iterAvailableHunks b) := by
  unfold iterAvailableHunks
  apply ProgEquiv.bindEq (hunksAvailable_equiv b).attemptEq; intro a
  split <;> pe_leaf

theorem readHunk_equiv (b n : Nat) : ProgEquiv Eq (readHunk b n) (readHunk b n) := by
  unfold readHunk
  pe_op
  repeat' (first | pe_leaf | split)

theorem readHunks_equiv (b : Nat) (ns : List Nat) (after last : Option Str) :
    ProgEquiv Eq (readHunks b ns after last) (readHunks b ns after last) := by
  induction ns generalizing after last with
  | nil => exact .ret rfl
  | cons n rest ih =>
    unfold readHunks
    apply ProgEquiv.bindEq (readHunk_equiv b n).attemptEq; intro a
    repeat' (first
      | pe_leaf
      | exact ih _ _
      | exact ProgEquiv.logError_then _ (ih _ _)
      | exact ProgEquiv.bindEq (ih _ _) (fun ⟨_, _⟩ => .ret rfl)
      | split)

theorem hunkLengths_go_equiv (b : Nat) (ds : List Nat) (acc : List (Nat × Bool)) :
    ProgEquiv Eq (hunkLengths.go b ds acc) (hunkLengths.go b ds acc) := by
  induction ds generalizing acc with
  | nil => exact .ret rfl
  | cons d ds ih =>
    unfold hunkLengths.go
    apply ProgEquiv.bind (ProgEquiv.perform _)
    rintro r r' ⟨he, -, hg⟩
    cases he with
    | listing hp =>
      simp only
      rw [hunkPairs_eq_of_perm hp (hg _ rfl)]
      · exact ih _
      · intro e p h
        split at h
        · split at h
          · cases h; exact ⟨_, by assumption, rfl⟩
          · cases h
        · cases h
    | refl =>
      split
      · exact ih _
      · pe_leaf
      · pe_leaf

/-- `IndexRead::hunk_lengths`: both levels are sorted, and within a real listing every hunk
number occurs once, so the result does not depend on the order of the listings. -/
theorem hunkLengths_equiv (b : Nat) : ProgEquiv Eq (hunkLengths b) (hunkLengths b) := by
  unfold hunkLengths
  apply ProgEquiv.bind (ProgEquiv.perform _)
  rintro r r' ⟨he, -⟩
  cases he with
  | listing hp =>
    simp only
    rw [sortNat_filterMap_eq_of_perm _ hp]
    exact hunkLengths_go_equiv _ _ _
  | refl =>
    split
    · exact hunkLengths_go_equiv _ _ _
    · pe_leaf
    · pe_leaf

/-- `Band::check_index_hunks` is one more order-insensitive listing consumer. -/
theorem checkIndexHunks_equiv (b : Nat) : ProgEquiv Eq (checkIndexHunks b) (checkIndexHunks b) := by
  unfold checkIndexHunks
  simp only []
  apply ProgEquiv.bindEq (hunkLengths_equiv b); intro hunks
  split
  · pe_leaf
  · pe_op
    split <;> simp only [Prog.pure_def, Prog.bind_def, Prog.ret_bind] <;>
      repeat' (first | pe_leaf | split)

theorem readBand_equiv (b : Nat) (last : Option Str) : ProgEquiv Eq (readBand b last) (readBand b last) := by
  unfold readBand
  apply ProgEquiv.bindEq (bandOpen_equiv b).attemptEq; intro a
  split
  · exact .emit _ (.ret rfl)
  · apply ProgEquiv.bindEq (hunksAvailable_equiv b).attemptEq; intro a
    split
    · exact .emit _ (.ret rfl)
    · simp only []
      apply ProgEquiv.bindEq (checkIndexHunks_equiv b).attemptEq; intro c
      split
      · exact ProgEquiv.logError_then _ (readHunks_equiv _ _ _ _)
      · exact readHunks_equiv _ _ _ _

theorem stitchDown_equiv (n : Nat) (last : Option Str) : ProgEquiv Eq (stitchDown n last) (stitchDown n last) := by
  induction n generalizing last with
  | zero => exact .ret rfl
  | succ b ih =>
    unfold stitchDown
    apply ProgEquiv.bindEq (unwrapOr_equiv (bandExists_equiv b) _); intro c
    split
    · apply ProgEquiv.bindEq (readBand_equiv b last); intro p
      apply ProgEquiv.bindEq (unwrapOr_equiv (bandIsClosed_equiv b) _); intro c
      split
      · pe_leaf
      · exact ProgEquiv.bindEq (ih _) fun _ => .ret rfl
    · apply ProgEquiv.bindEq (unwrapOr_equiv (isFile_equiv _) _); intro c
      split
      · exact ProgEquiv.logError_then _ (ih _)
      · exact ih _

theorem stitchAll_equiv (b : Nat) : ProgEquiv Eq (stitchAll b) (stitchAll b) := by
  unfold stitchAll
  apply ProgEquiv.bindEq (readBand_equiv b none); intro p
  apply ProgEquiv.bindEq (unwrapOr_equiv (bandIsClosed_equiv b) _); intro c
  split
  · pe_leaf
  · exact ProgEquiv.bindEq (stitchDown_equiv _ _) fun _ => .ret rfl

theorem filterEntries_equiv (subtree : Str) (excl : Str → Bool) (es : List IndexEntry) :
    ProgEquiv Eq (filterEntries subtree excl es) (filterEntries subtree excl es) := by
  induction es with
  | nil => exact .ret rfl
  | cons e es ih =>
    unfold filterEntries
    split
    · exact ih
    · split
      · pe_leaf
      · split
        · exact ih
        · exact ProgEquiv.bindEq ih fun _ => .ret rfl

/-- The stitched listing of a version does not depend on the order of any directory listing. -/
theorem listEntries_equiv (b : Nat) (subtree : Str) (excl : Str → Bool) :
    ProgEquiv Eq (listEntries b subtree excl) (listEntries b subtree excl) := by
  unfold listEntries
  exact ProgEquiv.bindEq (stitchAll_equiv b) fun _ => filterEntries_equiv _ _ _

theorem listVersion_equiv (sel : BandSelection) (subtree : Str) (excl : Str → Bool) :
    ProgEquiv Eq (listVersion sel subtree excl) (listVersion sel subtree excl) := by
  unfold listVersion
  apply ProgEquiv.bindEq (resolveBandId_equiv sel); intro b
  apply ProgEquiv.bindEq (bandOpen_equiv b); intro _
  exact listEntries_equiv _ _ _

end Conserve
