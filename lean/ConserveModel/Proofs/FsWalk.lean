import ConserveModel.Proofs.FsBasic
import ConserveModel.Proofs.WalkConvex
/-
Path resolution over "clean" paths: if no intermediate component is a symlink or a file, the
walk can only end at the literal path.
-/
namespace Conserve

/-- Absent, or a directory. -/
def NoneOrDir (a : Option FNode) : Prop := ∀ x, a = some x → x.kind = .dir

theorem NoneOrDir.of_eqMod {a b : Option FNode} (h : EqMod a b) (ha : NoneOrDir a) : NoneOrDir b := by
  intro y hy
  cases a with
  | none => rw [(h.none_iff).1 rfl] at hy; cases hy
  | some x =>
    obtain ⟨y', hy', hk, _⟩ := h.some_left rfl
    rw [hy] at hy'; cases hy'
    rw [hk]; exact ha x rfl

/-- Absent, or anything but a symlink. -/
def NotLink (a : Option FNode) : Prop := ∀ x, a = some x → x.kind ≠ .symlink

theorem NoneOrDir.notLink {a : Option FNode} (h : NoneOrDir a) : NotLink a := by
  intro x hx; rw [h x hx]; decide

theorem NotLink.of_eqMod {a b : Option FNode} (h : EqMod a b) (ha : NotLink a) : NotLink b := by
  intro y hy
  cases a with
  | none => rw [(h.none_iff).1 rfl] at hy; cases hy
  | some x =>
    obtain ⟨y', hy', hk, _⟩ := h.some_left rfl
    rw [hy] at hy'; cases hy'
    rw [hk]; exact ha x rfl

theorem goodName_ne {c : Str} (h : goodName c = true) : c ≠ [] ∧ c ≠ [dot] ∧ c ≠ [dot, dot] := by
  have := (goodName_iff c).1 h
  exact ⟨this.1, this.2.2.2.1, this.2.2.2.2⟩

/-- The walk over `cs ++ trail` (good names, then empty components) from `cur` ends at
`cur ++ cs` if it succeeds, provided no proper intermediate prefix is a symlink
and the final component is not a symlink that would be followed.  (A FILE among the
intermediate components is fine: the walk then fails with ENOTDIR.) -/
theorem walk_clean (fs : Fs) (follow : Bool) :
    ∀ (fuel links : Nat) (cur : Path) (cs trail : List Str),
      (∀ c ∈ cs, goodName c = true) → (∀ c ∈ trail, c = []) →
      (∀ pre, pre <+: cs → pre ≠ [] → pre ≠ cs → NotLink (fs.node (cur ++ pre))) →
      ((follow = false ∧ trail = []) ∨ ∀ x, fs.node (cur ++ cs) = some x → x.kind ≠ .symlink) →
      ∀ p, walk fs follow fuel links cur (cs ++ trail) = .ok p → p = cur ++ cs := by
  intro fuel
  induction fuel with
  | zero => intro links cur cs trail _ _ _ _ p h; simp [walk] at h
  | succ fuel ih =>
    intro links cur cs trail hg ht hpre hfin p h
    cases cs with
    | nil =>
      cases trail with
      | nil => simp [walk] at h; simp [h]
      | cons c t =>
        have hc : c = [] := ht c List.mem_cons_self
        subst hc
        simp only [List.nil_append, walk] at h
        cases hn : fs.node cur with
        | none => simp [hn] at h
        | some x =>
          simp only [hn] at h
          by_cases hk : x.kind = .dir
          · simp only [hk, ne_eq, not_true_eq_false, if_false, true_or, if_true] at h
            have := ih links cur [] t (fun _ hc => nomatch hc)
              (fun c hc => ht c (List.mem_cons_of_mem _ hc))
              (fun pre hp hne _ => absurd (List.prefix_nil.1 hp) hne)
              (Or.inr (by
                intro y hy
                rw [List.append_nil] at hy
                rw [hn] at hy; cases hy; rw [hk]; decide)) p (by simpa using h)
            simpa using this
          · simp [hk] at h
    | cons c cs' =>
      obtain ⟨hc1, hc2, hc3⟩ := goodName_ne (hg c List.mem_cons_self)
      simp only [List.cons_append, walk] at h
      cases hn : fs.node cur with
      | none => simp [hn] at h
      | some x =>
        simp only [hn] at h
        by_cases hk : x.kind = .dir
        · simp only [hk, ne_eq, not_true_eq_false, if_false, hc1, hc2, hc3, or_self] at h
          cases hy : fs.node (cur ++ [c]) with
          | none =>
            simp only [hy] at h
            by_cases he : (cs' ++ trail).isEmpty = true
            · simp only [he, if_true] at h
              have : cs' = [] := by
                have := List.isEmpty_iff.1 he
                exact (List.append_eq_nil_iff.1 this).1
              subst this
              cases h; rfl
            · simp [he] at h
          | some y =>
            simp only [hy] at h
            have hnot : ¬ (y.kind = .symlink ∧ ¬ ((cs' ++ trail).isEmpty = true ∧ follow = false)) := by
              rintro ⟨hs, hne⟩
              by_cases hcs : cs' = []
              · subst hcs
                rcases hfin with ⟨hf, htr⟩ | hf
                · subst htr; exact hne ⟨rfl, hf⟩
                · exact hf y hy hs
              · exact hpre [c] (by simp) (by simp) (by simp [hcs]) y hy hs
            rw [if_neg hnot] at h
            have := ih links (cur ++ [c]) cs' trail (fun d hd => hg d (List.mem_cons_of_mem _ hd)) ht
              (fun pre hp hne hne2 => by
                have := hpre (c :: pre) (by simpa using hp) (by simp) (by simpa using hne2)
                simpa using this)
              (by
                rcases hfin with hf | hf
                · exact Or.inl hf
                · exact Or.inr (by simpa using hf)) p h
            simpa using this
        · simp [hk] at h

/-- On a clean path, ENOENT means that some strict prefix (or, with a trailing slash, the path
itself) or the starting point is missing. -/
theorem walk_clean_enoent (fs : Fs) (follow : Bool) :
    ∀ (fuel links : Nat) (cur : Path) (cs trail : List Str),
      (∀ c ∈ cs, goodName c = true) → (∀ c ∈ trail, c = []) →
      (∀ pre, pre <+: cs → pre ≠ [] → pre ≠ cs → NoneOrDir (fs.node (cur ++ pre))) →
      ((follow = false ∧ trail = []) ∨ ∀ x, fs.node (cur ++ cs) = some x → x.kind ≠ .symlink) →
      walk fs follow fuel links cur (cs ++ trail) = .error .ENOENT →
      ∃ pre, pre <+: cs ∧ (pre ≠ cs ∨ trail ≠ []) ∧ fs.node (cur ++ pre) = none := by
  intro fuel
  induction fuel with
  | zero => intro links cur cs trail _ _ _ _ h; simp [walk] at h
  | succ fuel ih =>
    intro links cur cs trail hg ht hpre hfin h
    cases cs with
    | nil =>
      cases trail with
      | nil => simp [walk] at h
      | cons c t =>
        have hc : c = [] := ht c List.mem_cons_self
        subst hc
        simp only [List.nil_append, walk] at h
        cases hn : fs.node cur with
        | none => exact ⟨[], List.prefix_refl _, Or.inr (by simp), by simpa using hn⟩
        | some x =>
          simp only [hn] at h
          by_cases hk : x.kind = .dir
          · simp only [hk, ne_eq, not_true_eq_false, if_false, true_or, if_true] at h
            obtain ⟨pre, hp, _, hnone⟩ := ih links cur [] t (fun _ hc => nomatch hc)
              (fun c hc => ht c (List.mem_cons_of_mem _ hc))
              (fun pre hp hne _ => absurd (List.prefix_nil.1 hp) hne)
              (Or.inr (by
                intro y hy
                rw [List.append_nil] at hy
                rw [hn] at hy; cases hy; rw [hk]; decide)) (by simpa using h)
            exact ⟨pre, hp, Or.inr (by simp), hnone⟩
          · simp [hk] at h
    | cons c cs' =>
      obtain ⟨hc1, hc2, hc3⟩ := goodName_ne (hg c List.mem_cons_self)
      simp only [List.cons_append, walk] at h
      cases hn : fs.node cur with
      | none => exact ⟨[], List.nil_prefix, Or.inl (by simp), by simpa using hn⟩
      | some x =>
        simp only [hn] at h
        by_cases hk : x.kind = .dir
        · simp only [hk, ne_eq, not_true_eq_false, if_false, hc1, hc2, hc3, or_self] at h
          cases hy : fs.node (cur ++ [c]) with
          | none =>
            simp only [hy] at h
            by_cases he : (cs' ++ trail).isEmpty = true
            · simp [he] at h
            · have hne : cs' ++ trail ≠ [] := fun e => he (by simp [e])
              refine ⟨[c], by simp, ?_, hy⟩
              by_cases hcs : cs' = []
              · subst hcs; exact Or.inr (by simpa using hne)
              · exact Or.inl (by simp [hcs])
          | some y =>
            simp only [hy] at h
            have hnot : ¬ (y.kind = .symlink ∧ ¬ ((cs' ++ trail).isEmpty = true ∧ follow = false)) := by
              rintro ⟨hs, hne⟩
              by_cases hcs : cs' = []
              · subst hcs
                rcases hfin with ⟨hf, htr⟩ | hf
                · subst htr; exact hne ⟨rfl, hf⟩
                · exact hf y hy hs
              · have := hpre [c] (by simp) (by simp) (by simp [hcs]) y hy
                rw [this] at hs; cases hs
            rw [if_neg hnot] at h
            obtain ⟨pre, hp, hne, hnone⟩ := ih links (cur ++ [c]) cs' trail
              (fun d hd => hg d (List.mem_cons_of_mem _ hd)) ht
              (fun pre hp hne hne2 => by
                have := hpre (c :: pre) (by simpa using hp) (by simp) (by simpa using hne2)
                simpa using this)
              (by
                rcases hfin with hf | hf
                · exact Or.inl hf
                · exact Or.inr (by simpa using hf)) h
            refine ⟨c :: pre, by simpa using hp, ?_, by simpa using hnone⟩
            rcases hne with hne | hne
            · exact Or.inl (by simpa using hne)
            · exact Or.inr hne
        · simp [hk] at h

/-- With enough fuel, the walk over good names through existing directories succeeds. -/
theorem walk_clean_ok (fs : Fs) (follow : Bool) :
    ∀ (fuel links : Nat) (cur : Path) (cs : List Str), cs.length < fuel →
      (∀ c ∈ cs, goodName c = true) → (cs ≠ [] → fs.isDir cur = true) →
      (∀ pre, pre <+: cs → pre ≠ [] → pre ≠ cs → fs.isDir (cur ++ pre) = true) →
      (follow = false ∨ ∀ x, fs.node (cur ++ cs) = some x → x.kind ≠ .symlink) →
      walk fs follow fuel links cur cs = .ok (cur ++ cs) := by
  intro fuel
  induction fuel with
  | zero => intro links cur cs h; exact absurd h (Nat.not_lt_zero _)
  | succ fuel ih =>
    intro links cur cs hlen hg hcur hpre hfin
    cases cs with
    | nil => simp [walk]
    | cons c cs' =>
      obtain ⟨hc1, hc2, hc3⟩ := goodName_ne (hg c List.mem_cons_self)
      have hd := hcur (by simp)
      unfold Fs.isDir at hd
      simp only [walk]
      cases hn : fs.node cur with
      | none => simp [hn] at hd
      | some x =>
        have hk : x.kind = .dir := by simpa [hn] using hd
        simp only [hk, ne_eq, not_true_eq_false, if_false, hc1, hc2, hc3, or_self]
        have hstep : ∀ (hne : cs' ≠ []), fs.isDir (cur ++ [c]) = true :=
          fun hne => hpre [c] (by simp) (by simp) (by simp [hne])
        have hrec : walk fs follow fuel links (cur ++ [c]) cs' = .ok (cur ++ c :: cs') := by
          have := ih links (cur ++ [c]) cs' (by simpa using hlen)
            (fun d hd => hg d (List.mem_cons_of_mem _ hd)) hstep
            (fun pre hp hne hne2 => by
              have := hpre (c :: pre) (by simpa using hp) (by simp) (by simpa using hne2)
              simpa using this)
            (by
              rcases hfin with hf | hf
              · exact Or.inl hf
              · exact Or.inr (by simpa using hf))
          simpa using this
        cases hy : fs.node (cur ++ [c]) with
        | none =>
          by_cases hcs : cs' = []
          · subst hcs; simp
          · have := hstep hcs
            simp [Fs.isDir, hy] at this
        | some y =>
          have hnot : ¬ (y.kind = .symlink ∧ ¬ (cs'.isEmpty = true ∧ follow = false)) := by
            rintro ⟨hs, hne⟩
            by_cases hcs : cs' = []
            · subst hcs
              rcases hfin with hf | hf
              · exact hne ⟨rfl, hf⟩
              · exact hf y hy hs
            · have := hstep hcs
              simp [Fs.isDir, hy, hs] at this
          simp only [if_neg hnot]
          exact hrec

/-- With enough fuel, a clean path with a missing intermediate directory gives exactly ENOENT. -/
theorem walk_clean_missing (fs : Fs) (follow : Bool) :
    ∀ (fuel links : Nat) (cur : Path) (cs : List Str), cs.length < fuel →
      (∀ c ∈ cs, goodName c = true) → fs.isDir cur = true →
      (∀ pre, pre <+: cs → pre ≠ [] → pre ≠ cs → NoneOrDir (fs.node (cur ++ pre))) →
      (∃ pre, pre <+: cs ∧ pre ≠ [] ∧ pre ≠ cs ∧ fs.node (cur ++ pre) = none) →
      walk fs follow fuel links cur cs = .error .ENOENT := by
  intro fuel
  induction fuel with
  | zero => intro links cur cs h; exact absurd h (Nat.not_lt_zero _)
  | succ fuel ih =>
    intro links cur cs hlen hg hcur hpre hmiss
    obtain ⟨pre, hp, hpne, hpcs, hpn⟩ := hmiss
    cases cs with
    | nil => exact absurd (List.prefix_nil.1 hp) hpne
    | cons c cs' =>
      obtain ⟨hc1, hc2, hc3⟩ := goodName_ne (hg c List.mem_cons_self)
      have hd := hcur
      unfold Fs.isDir at hd
      simp only [walk]
      cases hn : fs.node cur with
      | none => simp [hn] at hd
      | some x =>
        have hk : x.kind = .dir := by simpa [hn] using hd
        simp only [hk, ne_eq, not_true_eq_false, if_false, hc1, hc2, hc3, or_self]
        -- the missing prefix starts with `c`
        obtain ⟨pre', rfl⟩ : ∃ pre', pre = c :: pre' := by
          cases pre with
          | nil => exact absurd rfl hpne
          | cons a pre' =>
            have := List.cons_prefix_cons.1 hp
            exact ⟨pre', by rw [this.1]⟩
        have hp' : pre' <+: cs' := (List.cons_prefix_cons.1 hp).2
        have hcs' : cs' ≠ [] := by
          intro e
          subst e
          have := List.prefix_nil.1 hp'
          subst this
          exact hpcs rfl
        cases hy : fs.node (cur ++ [c]) with
        | none => simp [hcs']
        | some y =>
          have hyd : y.kind = .dir := hpre [c] (by simp) (by simp) (by simp [hcs']) y hy
          have hnot : ¬ (y.kind = .symlink ∧ ¬ (cs'.isEmpty = true ∧ follow = false)) := by
            rintro ⟨hs, _⟩; rw [hyd] at hs; cases hs
          simp only [if_neg hnot]
          have hpre'ne : pre' ≠ [] := by
            intro e
            subst e
            rw [hy] at hpn; cases hpn
          exact ih links (cur ++ [c]) cs' (by simpa using hlen)
            (fun d hd => hg d (List.mem_cons_of_mem _ hd))
            (by simp [Fs.isDir, hy, hyd])
            (fun q hq hne hne2 => by
              have := hpre (c :: q) (by simpa using hq) (by simp) (by simpa using hne2)
              simpa using this)
            ⟨pre', hp', hpre'ne, fun e => hpcs (by rw [e]), by simpa using hpn⟩

end Conserve
