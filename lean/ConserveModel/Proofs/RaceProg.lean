import ConserveModel.Proofs.RaceBasic
import ConserveModel.Proofs.CleanWorldDel
import ConserveModel.Proofs.BackupReadOnly
/-
C06 on the full model — the first operation of the small building blocks (`performUnit`, `isFile`,
`listBandIds`, `gcLockListed`, …) followed by a continuation, as explicit `Prog.op` nodes with
named response handlers.  Used to write down the residual programs of `backup` and `delete_bands`
between their storage operations.  No property statements here.
-/
namespace Conserve
open Prog

/-- Response handler of `performUnit o >>= fun _ => k`. -/
def onUnit {α : Type} (k : Prog α) : Resp → Prog α
  | .unit => k
  | .err e => .fail (.transport e)
  | _ => .fail (.transport .other)

theorem performUnit_bind {α : Type} (o : Op) (f : Unit → Prog α) :
    (performUnit o).bind f = .op o (onUnit (f ())) := by
  simp only [performUnit, perform, Prog.bind_def, Prog.op_bind, Prog.ret_bind, Prog.pure_def]
  congr 1; funext r; cases r <;> rfl

/-- Response handler of `isFile k >>= f`. -/
def onFile {α : Type} (f : Bool → Prog α) : Resp → Prog α
  | .stat b _ => f b
  | .err .notFound => f false
  | .err e => .fail (.transport e)
  | _ => .fail (.transport .other)

theorem isFile_bind {α : Type} (k : Key) (f : Bool → Prog α) :
    (isFile k).bind f = .op (.metadata k) (onFile f) := by
  simp only [isFile, perform, Prog.bind_def, Prog.op_bind, Prog.ret_bind, Prog.pure_def]
  congr 1; funext r
  cases r with
  | err e => cases e <;> rfl
  | _ => rfl

/-- Response handler of `unwrapOr (isFile k) d >>= f`. -/
def onFileOr {α : Type} (d : Bool) (f : Bool → Prog α) : Resp → Prog α
  | .stat b _ => f b
  | .err .notFound => f false
  | _ => f d

theorem unwrapOr_isFile_bind {α : Type} (k : Key) (d : Bool) (f : Bool → Prog α) :
    (unwrapOr (isFile k) d).bind f = .op (.metadata k) (onFileOr d f) := by
  simp only [unwrapOr, isFile, perform, Prog.bind_def, Prog.op_bind, Prog.ret_bind, Prog.pure_def, Prog.attempt]
  congr 1; funext r
  cases r with
  | err e => cases e <;> rfl
  | _ => rfl

/-- Response handler of `listBandIds >>= f`. -/
def onIds {α : Type} (f : List Nat → Prog α) : Resp → Prog α
  | .listing xs => f (listingBandIds xs)
  | .err e => .fail (.transport e)
  | _ => .fail (.transport .other)

theorem listBandIds_bind {α : Type} (f : List Nat → Prog α) :
    listBandIds.bind f = .op (.listDir .root) (onIds f) := by
  simp only [listBandIds, perform, Prog.bind_def, Prog.op_bind, Prog.ret_bind, Prog.pure_def]
  congr 1; funext r; cases r <;> rfl

theorem lastBandId_bind {α : Type} (f : Option Nat → Prog α) :
    lastBandId.bind f = .op (.listDir .root) (onIds fun ids => f (maxNat? ids)) := by
  simp only [lastBandId, Prog.bind_def, Prog.pure_def]
  rw [Prog.inv_bind_assoc, listBandIds_bind]
  rfl

/-- Response handler of `gcLockListed >>= f`. -/
def onLockListed {α : Type} (f : Bool → Prog α) : Resp → Prog α
  | .listing xs => f (xs.any fun e => e.key == .gcLock && !e.isDir)
  | .err e => .fail (.transport e)
  | _ => .fail (.transport .other)

theorem gcLockListed_bind {α : Type} (f : Bool → Prog α) :
    gcLockListed.bind f = .op (.listDir .root) (onLockListed f) := by
  simp only [gcLockListed, perform, Prog.bind_def, Prog.op_bind, Prog.ret_bind, Prog.pure_def]
  congr 1; funext r; cases r <;> rfl

/-- Response handler of `bandDelete b >>= fun _ => k`. -/
def onRmBand {α : Type} (b : Nat) (k : Prog α) : Resp → Prog α
  | .unit => k
  | .err .notFound => .fail (.bandNotFound b)
  | .err e => .fail (.transport e)
  | _ => .fail (.transport .other)

theorem bandDelete_bind {α : Type} (b : Nat) (f : Unit → Prog α) :
    (bandDelete b).bind f = .op (.removeDirAll (.bandDir b)) (onRmBand b (f ())) := by
  simp only [bandDelete, perform, Prog.bind_def, Prog.op_bind, Prog.ret_bind, Prog.pure_def]
  congr 1; funext r
  cases r with
  | err e => cases e <;> rfl
  | _ => rfl

/-! ### Handlers and `bind` -/

theorem onUnit_bind {α β : Type} (k : Prog α) (f : α → Prog β) (r : Resp) :
    (onUnit k r).bind f = onUnit (k.bind f) r := by cases r <;> rfl

theorem onFile_bind {α β : Type} (g : Bool → Prog α) (f : α → Prog β) (r : Resp) :
    (onFile g r).bind f = onFile (fun b => (g b).bind f) r := by
  cases r with
  | err e => cases e <;> rfl
  | _ => rfl

theorem onFileOr_bind {α β : Type} (d : Bool) (g : Bool → Prog α) (f : α → Prog β) (r : Resp) :
    (onFileOr d g r).bind f = onFileOr d (fun b => (g b).bind f) r := by
  cases r with
  | err e => cases e <;> rfl
  | _ => rfl

theorem onIds_bind {α β : Type} (g : List Nat → Prog α) (f : α → Prog β) (r : Resp) :
    (onIds g r).bind f = onIds (fun ids => (g ids).bind f) r := by cases r <;> rfl

theorem onLockListed_bind {α β : Type} (g : Bool → Prog α) (f : α → Prog β) (r : Resp) :
    (onLockListed g r).bind f = onLockListed (fun b => (g b).bind f) r := by cases r <;> rfl

theorem onRmBand_bind {α β : Type} (b : Nat) (k : Prog α) (f : α → Prog β) (r : Resp) :
    (onRmBand b k r).bind f = onRmBand b (k.bind f) r := by
  cases r with
  | err e => cases e <;> rfl
  | _ => rfl

theorem ite_bind {α β : Type} (c : Prop) [Decidable c] (p q : Prog α) (f : α → Prog β) :
    (if c then p else q).bind f = if c then p.bind f else q.bind f := by split <;> rfl

/-! ### Responses of the fault-free store -/

theorem applyOp_listDir_root_ids {s : Store} {xs : List DirEnt}
    (h : (applyOp true s (.listDir .root)).2 = .listing xs) : listingBandIds xs = bandIdsOf s := by
  simp only [applyOp] at h
  split at h
  · cases h
  · cases h; exact listingBandIds_children_root s
  · cases h

theorem applyOp_listDir_store (s : Store) (k : Key) : (applyOp true s (.listDir k)).1 = s := by
  simp only [applyOp]; split <;> rfl

theorem applyOp_metadata_store (s : Store) (k : Key) : (applyOp true s (.metadata k)).1 = s := by
  simp only [applyOp]; split <;> rfl

theorem applyOp_read_store (s : Store) (k : Key) : (applyOp true s (.read k)).1 = s := by
  simp only [applyOp]; split <;> rfl

end Conserve
