import ConserveModel.Proofs.FsTree
import ConserveModel.Proofs.WalkOrder
/-
The source walk of a well-formed tree lists every directory before what it contains: the list
of its (apath, kind) pairs is tree-consistent.
-/
namespace Conserve

/-- The parent of `e` is the context directory `cs`, or an earlier directory entry. -/
def ParentOK (cs : List Str) (earlier : List SrcEntry) (e : SrcEntry) : Prop :=
  (components e.apath).dropLast = cs ∨
    ∃ d ∈ earlier, d.kind = .dir ∧ components d.apath = (components e.apath).dropLast

def PBfrom (cs : List Str) : List SrcEntry → List SrcEntry → Prop
  | _, [] => True
  | earlier, e :: rest => ParentOK cs earlier e ∧ PBfrom cs (earlier ++ [e]) rest

theorem PBfrom_append (cs : List Str) : ∀ (L1 E L2 : List SrcEntry),
    PBfrom cs E (L1 ++ L2) ↔ PBfrom cs E L1 ∧ PBfrom cs (E ++ L1) L2 := by
  intro L1
  induction L1 with
  | nil => intro E L2; simp [PBfrom]
  | cons e L1 ih =>
    intro E L2
    simp only [List.cons_append, PBfrom, ih, and_assoc, List.append_assoc, List.nil_append]

/-- Change of context: a listing below `cs'` whose entries hang off `cs'` or earlier entries is
fine in any context that already holds a directory entry for `cs'`. -/
theorem PBfrom_ctx {cs cs' : List Str} : ∀ (L E0 E : List SrcEntry), PBfrom cs' E0 L →
    (∃ d ∈ E, d.kind = .dir ∧ components d.apath = cs') → (∀ x ∈ E0, x ∈ E) → PBfrom cs E L := by
  intro L
  induction L with
  | nil => intro _ _ _ _ _; trivial
  | cons e L ih =>
    intro E0 E h hd hsub
    obtain ⟨h1, h2⟩ := h
    refine ⟨?_, ih (E0 ++ [e]) (E ++ [e]) h2 ?_ ?_⟩
    · rcases h1 with h1 | ⟨d, hdm, hk, hc⟩
      · obtain ⟨d, hdm, hk, hc⟩ := hd
        exact Or.inr ⟨d, hdm, hk, hc.trans h1.symm⟩
      · exact Or.inr ⟨d, hsub d hdm, hk, hc⟩
    · obtain ⟨d, hdm, hk, hc⟩ := hd
      exact ⟨d, List.mem_append_left _ hdm, hk, hc⟩
    · intro x hx
      rcases List.mem_append.1 hx with hx | hx
      · exact List.mem_append_left _ (hsub x hx)
      · exact List.mem_append_right _ hx

theorem PBfrom_children {cs : List Str} : ∀ (L E : List SrcEntry),
    (∀ e ∈ L, (components e.apath).dropLast = cs) → PBfrom cs E L := by
  intro L
  induction L with
  | nil => intro _ _; trivial
  | cons e L ih =>
    intro E h
    exact ⟨Or.inl (h e List.mem_cons_self), ih _ (fun x hx => h x (List.mem_cons_of_mem _ hx))⟩

theorem Node.entry_kind_dir {n : Node} (h : n.isDir = true) (ap : Str) : (n.entry ap).kind = .dir := by
  cases n <;> simp_all [Node.isDir, Node.entry]

/-- The walk below a well-formed directory: every entry hangs off the directory itself or off
an earlier directory entry. -/
theorem walkBelow_parents (excl : Str → Bool) (f : Forest) :
    ∀ cs, GoodComps cs → f.WF = true → PBfrom cs [] (f.walkBelow excl (pathOf cs)) := by
  induction f using Forest.kids_induction with
  | h f ih =>
    intro cs hcs hwf
    have F := listingFacts excl hcs hwf
    rw [Forest.walkBelow_eq, PBfrom_append]
    have hA : ∀ p ∈ sortBy nameLe (live excl (pathOf cs) f),
        components (p.2.entry (apathAppend (pathOf cs) p.1)).apath = cs ++ [p.1] := by
      intro p hp
      have hp := mem_sorted_live hp
      rw [Node.entry_apath, F.append p hp,
        components_pathOf (hcs.append (GoodComps.single (F.good p hp)))]
    refine ⟨PBfrom_children _ _ ?_, ?_⟩
    · intro e he
      obtain ⟨p, hp, rfl⟩ := List.mem_map.1 he
      rw [hA p hp]; simp
    · -- the blocks of the subdirectories, one after the other
      simp only [List.nil_append]
      have key : ∀ (Bs : List (Str × Node)) (E : List SrcEntry),
          (∀ b ∈ Bs, b ∈ f.toList ∧ ∃ d ∈ E, d.kind = .dir ∧ components d.apath = cs ++ [b.1]) →
          PBfrom cs E (Bs.flatMap fun p => p.2.kids.walkBelow excl (apathAppend (pathOf cs) p.1)) := by
        intro Bs
        induction Bs with
        | nil => intro _ _; trivial
        | cons b Bs ihB =>
          intro E hB
          obtain ⟨hb, hd⟩ := hB b List.mem_cons_self
          rw [List.flatMap_cons, PBfrom_append]
          have hg : GoodComps (cs ++ [b.1]) := hcs.append (GoodComps.single (F.good b hb))
          have hblock := ih b hb (cs ++ [b.1]) hg (F.wfKids b hb)
          rw [← F.append b hb] at hblock
          refine ⟨PBfrom_ctx _ [] E hblock hd (fun _ h => nomatch h), ihB _ ?_⟩
          intro b' hb'
          obtain ⟨h1, d, hdm, hk, hc⟩ := hB b' (List.mem_cons_of_mem _ hb')
          exact ⟨h1, d, List.mem_append_left _ hdm, hk, hc⟩
      apply key
      intro b hb
      have hbf := mem_sorted_live_dirs hb
      have hb2 := List.mem_filter.1 (mem_sortBy.1 hb)
      refine ⟨hbf, b.2.entry (apathAppend (pathOf cs) b.1), ?_, Node.entry_kind_dir (by simpa using hb2.2) _, ?_⟩
      · exact List.mem_map.2 ⟨b, mem_sortBy.2 hb2.1, rfl⟩
      · exact hA b (mem_sortBy.2 hb2.1)

/-- From `PBfrom` below the root to `tcFrom`, for any translation of entries to nodes that keeps
apath and kind. -/
theorem tcFrom_of_PBfrom (g : SrcEntry → RNode) (hg : ∀ e, (g e).apath = e.apath ∧ (g e).kind = e.kind)
    (root : SrcEntry) (hroot : components root.apath = []) (hrk : root.kind = .dir) :
    ∀ (L E : List SrcEntry), root ∈ E → PBfrom [] E L → tcFrom (g root) (E.map g) (L.map g) = true := by
  intro L
  induction L with
  | nil => intro _ _ _; rfl
  | cons e L ih =>
    intro E hr h
    obtain ⟨h1, h2⟩ := h
    simp only [List.map_cons, tcFrom, Bool.and_eq_true]
    refine ⟨⟨?_, ?_⟩, ?_⟩
    · simp [comps, (hg root).1, hroot]
    · unfold parentSeen
      rw [List.any_eq_true]
      rcases h1 with h1 | ⟨d, hd, hk, hc⟩
      · exact ⟨g root, List.mem_map.2 ⟨root, hr, rfl⟩, by
          simp [comps, (hg root).1, (hg root).2, (hg e).1, hroot, hrk, h1]⟩
      · exact ⟨g d, List.mem_map.2 ⟨d, hd, rfl⟩, by
          simp [comps, (hg d).1, (hg d).2, (hg e).1, hk, hc]⟩
    · have := ih (E ++ [e]) (List.mem_append_left _ hr) h2
      simpa using this

end Conserve
