import ConserveModel.Proofs.WalkOrder
/-
Helper lemmas: the walk does not depend on the order of the directory listings.
-/
namespace Conserve
open Std

/-- What the walk uses of a child: name, entry, whether it is a directory, the walk below it. -/
abbrev View := Str × SrcEntry × Bool × List SrcEntry

def view (excl : Str → Bool) (ap : Str) (p : Str × Node) : View :=
  (p.1, p.2.entry (apathAppend ap p.1), p.2.isDir, p.2.kids.walkBelow excl (apathAppend ap p.1))

def assembleV (ap : Str) (vs : List View) : List SrcEntry :=
  (sortBy (fun a b : View => strLe a.1 b.1) vs).map (·.2.1) ++
    (sortBy (fun a b : View => apathLe (apathAppend ap a.1) (apathAppend ap b.1))
      (vs.filter (·.2.2.1))).flatMap (·.2.2.2)

def views (excl : Str → Bool) (ap : Str) (f : Forest) : List View :=
  (live excl ap f).map (view excl ap)

theorem Forest.walkBelow_eq_views (excl : Str → Bool) (f : Forest) (ap : Str) :
    f.walkBelow excl ap = assembleV ap (views excl ap f) := by
  have h1 := sortBy_map (view excl ap) (le' := fun a b : View => strLe a.1 b.1) (le := nameLe)
    (fun _ _ => rfl)
  have h2 := sortBy_map (view excl ap)
    (le' := fun a b : View => apathLe (apathAppend ap a.1) (apathAppend ap b.1))
    (le := childApLe ap) (fun _ _ => rfl)
  rw [Forest.walkBelow_eq]
  unfold assembleV views
  rw [h1, List.map_map, List.filter_map, h2, List.flatMap_map]
  rfl

theorem apathAppend_injective {ap x y : Str} (h : apathAppend ap x = apathAppend ap y) : x = y := by
  unfold apathAppend at h
  split at h
  · exact List.append_cancel_left h
  · exact List.append_cancel_left h

theorem compare_eq_of_le_le {κ : Type} [Ord κ] [OrientedOrd κ] {x y : κ}
    (h1 : (compare x y != .gt) = true) (h2 : (compare y x != .gt) = true) : compare x y = .eq := by
  have := OrientedCmp.eq_swap (cmp := (compare : κ → κ → Ordering)) (a := x) (b := y)
  cases hc : compare y x <;> simp_all

theorem eq_of_pairwise_ne_key {α κ : Type} {key : α → κ} {l : List α}
    (hd : l.Pairwise (fun a b => key a ≠ key b)) {a b : α} (ha : a ∈ l) (hb : b ∈ l)
    (h : key a = key b) : a = b := by
  induction l with
  | nil => cases ha
  | cons x l ih =>
    rw [List.pairwise_cons] at hd
    rcases List.mem_cons.1 ha with ea | ha' <;> rcases List.mem_cons.1 hb with eb | hb'
    · rw [ea, eb]
    · rw [ea] at h; exact absurd h (hd.1 b hb')
    · rw [eb] at h; exact absurd h.symm (hd.1 a ha')
    · exact ih hd.2 ha' hb'

/-- With pairwise distinct names, the assembled walk does not depend on the listing order. -/
theorem assembleV_perm (ap : Str) {vs₁ vs₂ : List View} (hp : vs₁.Perm vs₂)
    (hd : vs₁.Pairwise (fun a b => a.1 ≠ b.1)) : assembleV ap vs₁ = assembleV ap vs₂ := by
  unfold assembleV
  congr 2
  · apply sortBy_eq_of_perm (strLe_totalPreorder (fun v : View => v.1)) hp
    intro a b ha hb h1 h2
    exact eq_of_pairwise_ne_key hd ha hb (LawfulEqOrd.eq_of_compare (compare_eq_of_le_le h1 h2))
  · apply sortBy_eq_of_perm (apathLe_totalPreorder (fun v : View => apathAppend ap v.1))
      (hp.filter _)
    intro a b ha hb h1 h2
    have ha := (List.mem_filter.1 ha).1
    have hb := (List.mem_filter.1 hb).1
    apply eq_of_pairwise_ne_key hd ha hb
    apply apathAppend_injective (ap := ap)
    apply (C11.cmp_eq_iff _ _).1
    have h1' : (compare (keys (apathAppend ap a.1)) (keys (apathAppend ap b.1)) != .gt) = true := by
      rw [← apathCmp_eq_keys]; exact h1
    have h2' : (compare (keys (apathAppend ap b.1)) (keys (apathAppend ap a.1)) != .gt) = true := by
      rw [← apathCmp_eq_keys]; exact h2
    rw [apathCmp_eq_keys]
    exact compare_eq_of_le_le h1' h2'

theorem live_cons (excl : Str → Bool) (ap name : Str) (n : Node) (rest : Forest) :
    live excl ap (.cons name n rest) =
      if excl (apathAppend ap name) = true then live excl ap rest
      else (name, n) :: live excl ap rest := by
  simp only [live, Forest.toList, List.filter_cons]
  cases excl (apathAppend ap name) <;> simp

theorem views_cons (excl : Str → Bool) (ap name : Str) (n : Node) (rest : Forest) :
    views excl ap (.cons name n rest) =
      if excl (apathAppend ap name) = true then views excl ap rest
      else view excl ap (name, n) :: views excl ap rest := by
  unfold views
  rw [live_cons]
  split <;> rfl

theorem Forest.WF_cons (name : Str) (n : Node) (rest : Forest) :
    (Forest.cons name n rest).WF = true ↔
      goodName name = true ∧ name ∉ rest.toList.map (·.1) ∧ n.WF = true ∧ rest.WF = true := by
  have : rest.hasName name = false ↔ name ∉ rest.toList.map (·.1) := by
    rw [← Bool.not_eq_true, Forest.hasName_iff]
    simp
  simp only [Forest.WF, Bool.and_eq_true, Bool.not_eq_true', this, and_assoc]

theorem views_names_distinct (excl : Str → Bool) (ap : Str) {f : Forest} (h : f.WF = true) :
    (views excl ap f).Pairwise (fun a b => a.1 ≠ b.1) := by
  unfold views
  rw [List.pairwise_map]
  exact ((Forest.WF_iff f).1 h).1.sublist List.filter_sublist

/-- The claim proved by induction on `PermEq`. -/
theorem Forest.PermEq.main {f g : Forest} (h : Forest.PermEq f g) :
    (f.toList.map (·.1)).Perm (g.toList.map (·.1)) ∧
      (f.WF = true → g.WF = true ∧
        ∀ excl ap, (views excl ap f).Perm (views excl ap g)) := by
  induction h with
  | nil => exact ⟨List.Perm.refl _, fun h => ⟨h, fun _ _ => List.Perm.refl _⟩⟩
  | cons name n _ ih =>
    refine ⟨List.Perm.cons _ ih.1, fun hwf => ?_⟩
    rw [Forest.WF_cons] at hwf
    obtain ⟨hw2, hv⟩ := ih.2 hwf.2.2.2
    refine ⟨(Forest.WF_cons _ _ _).2 ⟨hwf.1, fun hm => hwf.2.1 (ih.1.mem_iff.2 hm), hwf.2.2.1, hw2⟩,
      fun excl ap => ?_⟩
    rw [views_cons, views_cons]
    split
    · exact hv excl ap
    · exact List.Perm.cons _ (hv excl ap)
  | @consDir name m k₁ k₂ r₁ r₂ _ _ ihk ihr =>
    refine ⟨List.Perm.cons _ ihr.1, fun hwf => ?_⟩
    rw [Forest.WF_cons] at hwf
    have hk1 : k₁.WF = true := by simpa [Node.WF] using hwf.2.2.1
    obtain ⟨hk2, hkv⟩ := ihk.2 hk1
    obtain ⟨hw2, hv⟩ := ihr.2 hwf.2.2.2
    refine ⟨(Forest.WF_cons _ _ _).2 ⟨hwf.1, fun hm => hwf.2.1 (ihr.1.mem_iff.2 hm),
      by simpa [Node.WF] using hk2, hw2⟩, fun excl ap => ?_⟩
    rw [views_cons, views_cons]
    split
    · exact hv excl ap
    · have : view excl ap (name, Node.dir m k₁) = view excl ap (name, Node.dir m k₂) := by
        simp only [view, Node.entry, Node.isDir, Node.kids]
        rw [Forest.walkBelow_eq_views, Forest.walkBelow_eq_views,
          assembleV_perm _ (hkv excl _) (views_names_distinct excl _ hk1)]
      rw [this]
      exact List.Perm.cons _ (hv excl ap)
  | swap a n b m r =>
    refine ⟨List.Perm.swap _ _ _, fun hwf => ?_⟩
    rw [Forest.WF_cons, Forest.WF_cons] at hwf
    obtain ⟨ga, hna, wn, gb, hnb, wm, wr⟩ := hwf
    simp only [Forest.toList, List.map_cons, List.mem_cons, not_or] at hna
    refine ⟨?_, fun excl ap => ?_⟩
    · rw [Forest.WF_cons, Forest.WF_cons]
      simp only [Forest.toList, List.map_cons, List.mem_cons, not_or]
      exact ⟨gb, ⟨fun e => hna.1 e.symm, hnb⟩, wm, ga, hna.2, wn, wr⟩
    · rw [views_cons, views_cons, views_cons, views_cons]
      split <;> split
      · exact List.Perm.refl _
      · exact List.Perm.refl _
      · exact List.Perm.refl _
      · exact List.Perm.swap _ _ _
  | trans _ _ ih1 ih2 =>
    refine ⟨ih1.1.trans ih2.1, fun hwf => ?_⟩
    obtain ⟨hw2, hv1⟩ := ih1.2 hwf
    obtain ⟨hw3, hv2⟩ := ih2.2 hw2
    exact ⟨hw3, fun excl ap => (hv1 excl ap).trans (hv2 excl ap)⟩

theorem Forest.PermEq.walkBelow_eq {f g : Forest} (h : Forest.PermEq f g) (hwf : f.WF = true)
    (excl : Str → Bool) (ap : Str) : f.walkBelow excl ap = g.walkBelow excl ap := by
  rw [Forest.walkBelow_eq_views, Forest.walkBelow_eq_views,
    assembleV_perm _ ((h.main.2 hwf).2 excl ap) (views_names_distinct excl ap hwf)]

theorem Forest.PermEq.refl (f : Forest) : Forest.PermEq f f := by
  induction f using Forest.induct with
  | nil => exact .nil
  | cons name n rest ih => exact .cons name n ih

theorem Forest.PermEq.symm {f g : Forest} (h : Forest.PermEq f g) : Forest.PermEq g f := by
  induction h with
  | nil => exact .nil
  | cons name n _ ih => exact .cons name n ih
  | consDir name m _ _ ih1 ih2 => exact .consDir name m ih1 ih2
  | swap a n b m r => exact .swap b m a n r
  | trans _ _ ih1 ih2 => exact .trans ih2 ih1

end Conserve
