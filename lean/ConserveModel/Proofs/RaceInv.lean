import ConserveModel.Proofs.RaceGc
import ConserveModel.Proofs.RaceCritCI
/-
C06 on the full model — the joint invariant `J` of (shared store, residual program of `backup`,
residual program of `delete_bands`): where each program is (`BSt`, `GSt`), what each knows about the
store there (`BFacts`, `GFacts`), and how the two positions constrain each other (`Cross`).
No property statements here.
-/
namespace Conserve.Race
open Conserve Prog Conserve.Conf Conserve.Inv

/-- Band `b` has a directory. -/
def isBand (s : Store) (b : Nat) : Prop := s.get? (.bandDir b) = some .dir

/-- `b` is newer than the remembered newest band id. -/
def Above : Option Nat → Nat → Prop
  | none, _ => True
  | some a, b => a < b

/-- `check()` would fail on this store: there is a band newer than the remembered one. -/
def Doomed (s : Store) (m : Option Nat) : Prop := ∃ b, isBand s b ∧ Above m b

/-- The remembered band id is not above every band directory. -/
def AtLeast (m : Option Nat) (s : Store) : Prop := ∀ a, m = some a → ∃ b, isBand s b ∧ a ≤ b

/-- No band directory above `n`. -/
def Top (n : Nat) (s : Store) : Prop := ∀ b, isBand s b → b ≤ n

def Locked (s : Store) : Prop := s.get? .gcLock = some .lock

/-- Where `backup` is. -/
inductive BSt
  | l1 | basis | idl (bs : Option Nat)
  | mkdir (bs : Option Nat) (n : Nat)
  /-- `create_dir bN` found a non-directory of that name: `create_dir bN/i` is about to fail -/
  | mkdirX (bs : Option Nat) (n : Nat)
  | mkI (bs : Option Nat) (n : Nat) | head (bs : Option Nat) (n : Nat) | l2 (bs : Option Nat) (n : Nat)
  | crit (n : Nat)
  | done

/-- Where `delete_bands` is. -/
inductive GSt
  | b1 | b2 | atN
  | tc (b : Nat) | lc (m : Option Nat) | w (m : Option Nat)
  | read (m : Option Nat) (q : Prog (List Str))
  | atK (m : Option Nat) (U : List Str)
  | sweepB (U : List Str) (b : Nat) (bs : List Nat) (n : Nat)
  | sweepU (U : List Str) (h : Str) (hs : List Str) (errs nb : Nat)
  | unl

/-- The band `backup` has created and not finished or given up. -/
def BSt.act : BSt → Option Nat
  | .mkI _ n | .head _ n | .l2 _ n | .crit n => some n
  | _ => none

def BSt.isCrit : BSt → Bool
  | .crit _ => true
  | _ => false

/-- The remembered newest band id, once `band_is_closed` has passed and before `check()` has. -/
def GSt.chk : GSt → Option (Option Nat)
  | .lc m | .w m | .read m _ | .atK m _ => some m
  | _ => none

def GSt.preSweep : GSt → Bool
  | .sweepB .. | .sweepU .. | .unl => false
  | _ => true

def GSt.sweeping : GSt → Bool
  | .sweepB .. | .sweepU .. => true
  | _ => false

section
variable (H : Str → Str) (o : BackupOpts) (src : List SrcEntry) (D : List Nat) (opts : DeleteOpts)

/-- The residual program at each position of `backup`. -/
def BSt.prog : BSt → Prog Stats → Prop
  | .l1, p => p = bkL1 H o src
  | .basis, p => p = bkBasis H o src
  | .idl bs, p => p = bkIdl H o src bs
  | .mkdir bs n, p => p = bkMkdir H o src bs n
  | .mkdirX bs n, p => p = bkMkI H o src bs n
  | .mkI bs n, p => p = bkMkI H o src bs n
  | .head bs n, p => p = bkHead H o src bs n
  | .l2 bs n, p => p = bkL2 H o src bs n
  | .crit _, p => AllOps CritOp p ∧ TailLast p ∧ ¬ p.Done
  | .done, p => p.Done

/-- The residual program at each position of `delete_bands`. -/
def GSt.prog : GSt → Prog DeleteStats → Prop
  | .b1, p => p = gcB1 D opts
  | .b2, p => p = gcB2 D opts
  | .atN, p => p = gcN D opts
  | .tc b, p => p = gcTC D opts b
  | .lc m, p => p = gcLC D opts m
  | .w m, p => p = gcW D opts m
  | .read m q, p => p = gcRead D opts m q ∧ (∃ o' k', q = .op o' k') ∧ AllOps ReadOnly q
  | .atK m U, p => p = gcK D m U
  | .sweepB U b bs n, p => p = gcSweepB U b bs n
  | .sweepU U h hs errs nb, p => p = gcSweepU U h hs errs nb
  | .unl, p => AllOps Unl p

/-- What `backup` knows about the store at each position (`p` is its residual program). -/
def BFacts : BSt → Store → Prog Stats → Prop
  | .l1, s, _ | .basis, s, _ | .idl _, s, _ | .done, s, _ => CI H s
  | .mkdir _ n, s, _ | .mkdirX _ n, s, _ => CI H s ∧ ∀ b, isBand s b → b < n
  | .mkI _ n, s, _ | .head _ n, s, _ => CI H s ∧ Top n s ∧ EmptyBand s n
  | .l2 _ n, s, _ => CI H s ∧ Top n s ∧ (BandOpen s n [] ∨ ¬ isBand s n)
  | .crit n, s, p => NoDupKeys s ∧ Top n s ∧ s.get? (.bandTail n) = none ∧ CI H (p.solo s).2

/-- What `delete_bands` knows about the store at each position. -/
def GFacts : GSt → Store → Prop
  | .b1, _ | .b2, _ | .atN, _ | .unl, _ => True
  | .tc b, s => AtLeast (some b) s
  | .lc m, s | .w m, s => AtLeast m s
  | .read m q, s => AtLeast m s ∧ Locked s ∧ (¬ Doomed s m → ∀ U, (q.solo s).1 = .ok U → SafeU D U s)
  | .atK m U, s => AtLeast m s ∧ Locked s ∧ (¬ Doomed s m → SafeU D U s)
  | .sweepB U b bs _, s => Locked s ∧ SafeU (b :: bs) U s
  | .sweepU _ h hs _ _, s => Locked s ∧ SafeU [] (h :: hs) s

end

/-- How the two positions constrain each other. -/
structure Cross (β : BSt) (γ : GSt) (s : Store) : Prop where
  /-- `band_is_closed` passed and no newer band is visible: `backup` has no unfinished band -/
  quiet : ∀ m, γ.chk = some m → ¬ Doomed s m → β.act = none
  /-- nothing has been removed yet: the unfinished band is there -/
  there : ∀ n, β.act = some n → γ.preSweep = true → isBand s n
  /-- mutual exclusion -/
  excl : γ.sweeping = true → β.isCrit = false

section
variable (H : Str → Str) (o : BackupOpts) (src : List SrcEntry) (D : List Nat) (opts : DeleteOpts)

/-- **The joint invariant.** -/
def J (s : Store) (pA : Prog Stats) (pB : Prog DeleteStats) : Prop :=
  ∃ β γ, β.prog H o src pA ∧ γ.prog D opts pB ∧ BFacts H β s pA ∧ GFacts D γ s ∧ Cross β γ s ∧ NoDupKeys s

end

/-! ### Small facts -/

theorem NoDupKeys_of_bfacts {H : Str → Str} {β : BSt} {s : Store} {p : Prog Stats} (h : BFacts H β s p) :
    NoDupKeys s := by
  cases β <;> simp only [BFacts] at h
  all_goals first | exact h.nodup | exact h.1.nodup | exact h.1

theorem tail_none_of_act {H : Str → Str} {β : BSt} {s : Store} {p : Prog Stats} (h : BFacts H β s p) {n : Nat}
    (ha : β.act = some n) (hb : isBand s n) : s.get? (.bandTail n) = none := by
  cases β <;> simp only [BSt.act] at ha <;> cases ha <;> simp only [BFacts] at h
  · exact h.2.2.tail
  · exact h.2.2.tail
  · rcases h.2.2 with h' | h'
    · exact h'.tail
    · exact absurd hb h'
  · exact h.2.2.1

theorem top_of_act {H : Str → Str} {β : BSt} {s : Store} {p : Prog Stats} (h : BFacts H β s p) {n : Nat}
    (ha : β.act = some n) : Top n s := by
  cases β <;> simp only [BSt.act] at ha <;> cases ha <;> simp only [BFacts] at h
  · exact h.2.1
  · exact h.2.1
  · exact h.2.1
  · exact h.2.1

theorem ci_of_not_crit {H : Str → Str} {β : BSt} {s : Store} {p : Prog Stats} (h : BFacts H β s p)
    (hc : β.isCrit = false) : CI H s := by
  cases β <;> simp only [BFacts] at h <;> first | exact h | exact h.1 | (simp [BSt.isCrit] at hc)

theorem not_crit_of_act_none {β : BSt} (h : β.act = none) : β.isCrit = false := by
  cases β <;> first | rfl | (simp [BSt.act] at h)

theorem Doomed.mono {s s' : Store} {m : Option Nat} (h : Doomed s m) (hb : ∀ b, isBand s b → isBand s' b) :
    Doomed s' m := by
  obtain ⟨b, hb1, hb2⟩ := h
  exact ⟨b, hb _ hb1, hb2⟩

theorem AtLeast.mono {s s' : Store} {m : Option Nat} (h : AtLeast m s) (hb : ∀ b, isBand s b → isBand s' b) :
    AtLeast m s' := by
  intro a ha
  obtain ⟨b, hb1, hb2⟩ := h a ha
  exact ⟨b, hb _ hb1, hb2⟩

/-- The newest band id of a listing is at least every band, and is one. -/
theorem not_doomed_of_max {s : Store} (hn : NoDupKeys s) : ¬ Doomed s (maxNat? (bandIdsOf s)) := by
  rintro ⟨b, hb1, hb2⟩
  have hmem : b ∈ bandIdsOf s := (mem_bandIdsOf_iff_get? hn).2 hb1
  cases hm : maxNat? (bandIdsOf s) with
  | none => rw [maxNat?_none hm] at hmem; cases hmem
  | some a =>
    rw [hm] at hb2
    have := maxNat?_ge hm b hmem
    simp only [Above] at hb2
    omega

theorem atLeast_max {s : Store} (hn : NoDupKeys s) : AtLeast (maxNat? (bandIdsOf s)) s := by
  intro a ha
  exact ⟨a, (mem_bandIdsOf_iff_get? hn).1 (maxNat?_mem ha), Nat.le_refl _⟩

theorem below_next {s : Store} (hn : NoDupKeys s) : ∀ b, isBand s b → b < nextId (maxNat? (bandIdsOf s)) := by
  intro b hb
  have hmem : b ∈ bandIdsOf s := (mem_bandIdsOf_iff_get? hn).2 hb
  cases hm : maxNat? (bandIdsOf s) with
  | none => rw [maxNat?_none hm] at hmem; cases hmem
  | some a =>
    have := maxNat?_ge hm b hmem
    simp only [nextId]
    omega

end Conserve.Race
