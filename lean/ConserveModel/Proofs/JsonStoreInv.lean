import ConserveModel.Json
import ConserveModel.Proofs.ProducedBackup
/-
C13 k, the bridge between the abstract store and the bytes of the JSON layer (Json.lean), part 1:
the store invariant `StoreJsonGood` — every JSON-carried file of the store (index hunk, band head,
band tail) holds a value the Rust types can hold, i.e. one that `renderHunk`/`renderHead`/`renderTail`
followed by the parser reads back exactly — is kept, in EVERY world, by every operation that does
not itself write an ill-formed value (`exec_sj`), and a small Hoare logic `JSat` over it (the same
shape as `Rng.RSat`, Proofs/ProducedRange.lean).  No property statements here.
-/
namespace Conserve.JStore
open Conserve Conserve.Inv Conserve.Conf Conserve.Json Prog

/-- 2^64, as a literal `omega` can use. -/
abbrev u64 : Nat := 18446744073709551616

/-! ### What `wfEntry` says, piece by piece -/

/-- Everything of an index entry but its addresses is a value of the Rust types. -/
structure MetaOK (e : IndexEntry) : Prop where
  apath : validUtf8 e.apath = true
  mtimeLo : -9223372036854775808 ≤ e.mtime
  mtimeHi : e.mtime < 9223372036854775808
  nanos : e.mtimeNanos < 4294967296
  mode : wfOptU32 e.unixMode = true
  user : wfOptStr e.user = true
  group : wfOptStr e.group = true
  target : wfOptStr e.target = true

theorem wfAddr_iff (a : Addr) :
    wfAddr a = true ↔ wfHash a.hash = true ∧ a.start < u64 ∧ a.len < u64 := by
  unfold wfAddr u64Bound u64
  rw [Bool.and_eq_true, Bool.and_eq_true, decide_eq_true_iff, decide_eq_true_iff, and_assoc]

theorem wfEntry_iff (e : IndexEntry) :
    wfEntry e = true ↔ MetaOK e ∧ ∀ a ∈ e.addrs, wfAddr a = true := by
  constructor
  · intro h
    simp only [wfEntry, Bool.and_eq_true, decide_eq_true_eq, List.all_eq_true, u32Bound] at h
    obtain ⟨⟨⟨⟨⟨⟨⟨⟨h1, h2⟩, h3⟩, h4⟩, h5⟩, h6⟩, h7⟩, h8⟩, h9⟩ := h
    exact ⟨⟨h1, h2, h3, of_decide_eq_true h4, h5, h6, h7, h9⟩, h8⟩
  · rintro ⟨⟨h1, h2, h3, h4, h5, h6, h7, h9⟩, h8⟩
    simp only [wfEntry, Bool.and_eq_true, decide_eq_true_eq, List.all_eq_true, u32Bound]
    exact ⟨⟨⟨⟨⟨⟨⟨⟨h1, h2⟩, h3⟩, decide_eq_true h4⟩, h5⟩, h6⟩, h7⟩, h8⟩, h9⟩

theorem MetaOK.setAddrs {e : IndexEntry} (h : MetaOK e) (as : List Addr) : MetaOK { e with addrs := as } :=
  ⟨h.apath, h.mtimeLo, h.mtimeHi, h.nanos, h.mode, h.user, h.group, h.target⟩

/-! ### The store invariant -/

/-- A file value, as far as it is carried by JSON, is one the Rust types can hold: the entries of a
hunk are `WfEntries`, the flags of a head are UTF-8 strings, the hunk count of a tail is a `u64`.
(The other kinds — block data, the header, the lock, junk — have no JSON model in Json.lean.) -/
def FileJsonGood : FileVal → Prop
  | .hunk es => WfEntries es
  | .head _ flags => ∀ f ∈ flags, validUtf8 f = true
  | .tail (some n) => n < u64
  | _ => True

/-- Every file of the store is `FileJsonGood`. -/
def StoreJsonGood (s : Store) : Prop := ∀ kv ∈ s, FileJsonGood kv.2

theorem StoreJsonGood.get {s : Store} (h : StoreJsonGood s) {k : Key} {v : FileVal}
    (hg : s.get? k = some v) : FileJsonGood v := h (k, v) (Store.mem_of_get?' hg)

theorem sj_put {s : Store} {k : Key} {v : FileVal} (h : StoreJsonGood s) (hv : FileJsonGood v) :
    StoreJsonGood (s.put k v) := by
  intro kv hm
  simp only [Store.put, Store.erase, List.mem_append, List.mem_filter, List.mem_singleton] at hm
  rcases hm with ⟨hm, _⟩ | rfl
  · exact h kv hm
  · exact hv

theorem sj_filter {s : Store} (p : Key × FileVal → Bool) (h : StoreJsonGood s) : StoreJsonGood (s.filter p) :=
  fun kv hm => h kv (List.mem_filter.mp hm).1

/-- The operation does not write an ill-formed JSON value. -/
def JOp (o : Op) : Prop := ∀ k v m, o = .write k v m → FileJsonGood v

theorem applyOp_sj (e : Bool) {s : Store} {o : Op} (ho : JOp o) (h : StoreJsonGood s) :
    StoreJsonGood (applyOp e s o).1 := by
  cases o with
  | read k => rw [applyOp_readOnly_store (by simp [ReadOnly])]; exact h
  | listDir k => rw [applyOp_readOnly_store (by simp [ReadOnly])]; exact h
  | metadata k => rw [applyOp_readOnly_store (by simp [ReadOnly])]; exact h
  | write k v m =>
    rcases applyOp_write_store e s k v m with ⟨_, hs⟩ | ⟨_, hs⟩
    · rw [hs]; exact sj_put h (ho k v m rfl)
    · rw [hs]; exact h
  | createDir k =>
    rcases applyOp_createDir_store e s k with hs | ⟨_, hs⟩
    · rw [hs]; exact h
    · rw [hs]; exact sj_put h trivial
  | removeFile k =>
    simp only [applyOp]
    split
    · exact h
    · exact h
    · exact sj_filter _ h
  | removeDirAll k =>
    simp only [applyOp]
    split
    · exact h
    · exact sj_filter _ h

/-- **One step, in every world** (any faults, any crash point, dead or alive): an operation that
does not write an ill-formed JSON value keeps `StoreJsonGood`. -/
theorem exec_sj (w : World) {o : Op} (ho : JOp o) (h : StoreJsonGood w.store) :
    StoreJsonGood (w.exec o).1.store := by
  rcases (World.exec_cases w o).2 with ⟨hs, _, _⟩ | ⟨k, v, m, _, _, hs, _, _⟩ | ⟨e, hs, _, _⟩ | ⟨hs, _, _⟩
  · rw [hs]; exact h
  · rw [hs]; exact sj_put h trivial
  · rw [hs]; exact h
  · rw [hs]; exact applyOp_sj _ ho h

/-- A program all of whose operations are `JOp` keeps `StoreJsonGood`, in every world. -/
theorem run_sj {α : Type} {p : Prog α} (hp : Prog.AllOps JOp p) (w : World) (h : StoreJsonGood w.store) :
    StoreJsonGood (p.run w).2.store :=
  Prog.run_world_inv (P := JOp) (I := fun w' => StoreJsonGood w'.store)
    (fun _ _ h => h) (fun w' _ ho h' => exec_sj w' ho h') hp w h

/-- The world invariant of the logic, relative to the trace `t0` the run started with: the store is
`StoreJsonGood`, and every operation attempted since (the trace records every operation that got an
answer other than the world's death) is a `JOp`. -/
def WInv (t0 : List TraceEv) (w : World) : Prop :=
  StoreJsonGood w.store ∧ ∃ new, w.trace = new ++ t0 ∧ ∀ ev ∈ new, JOp ev.op

theorem WInv.start {w : World} (h : StoreJsonGood w.store) : WInv w.trace w :=
  ⟨h, [], rfl, fun _ h => nomatch h⟩

theorem exec_winv {t0 : List TraceEv} (w : World) {o : Op} (ho : JOp o) (h : WInv t0 w) :
    WInv t0 (w.exec o).1 := by
  obtain ⟨hs, new, hn, hP⟩ := h
  refine ⟨exec_sj w ho hs, ?_⟩
  rcases World.exec_trace w o with ht | ⟨r, ht⟩
  · exact ⟨new, by rw [ht, hn], hP⟩
  · refine ⟨⟨o, r⟩ :: new, by rw [ht, hn]; rfl, ?_⟩
    intro ev hev
    rcases List.mem_cons.mp hev with rfl | hev
    · exact ho
    · exact hP ev hev

theorem run_winv {t0 : List TraceEv} {α : Type} {p : Prog α} (hp : Prog.AllOps JOp p) (w : World)
    (h : WInv t0 w) : WInv t0 (p.run w).2 :=
  Prog.run_world_inv (P := JOp) (I := WInv t0) (fun _ _ h => h) (fun w' _ ho h' => exec_winv w' ho h') hp w h

/-! ### Operation classes that are `JOp` -/

theorem ReadOnly.jop {o : Op} (h : ReadOnly o) : JOp o := by
  intro k v m ho; subst ho; exact absurd h (by simp [ReadOnly])

theorem BlockOp.jop {H : Str → Str} {o : Op} (h : BlockOp H o) : JOp o := by
  intro k v m ho
  subst ho
  rcases h with h | ⟨d, h⟩ | ⟨d, h⟩
  · simp [Op.isMutating] at h
  · cases h
  · cases h; trivial

theorem AllOps.ro_j {α : Type} {p : Prog α} (h : Prog.AllOps ReadOnly p) : Prog.AllOps JOp p :=
  h.mono fun _ => ReadOnly.jop

theorem AllOps.blk_j {H : Str → Str} {α : Type} {p : Prog α} (h : Prog.AllOps (BlockOp H) p) :
    Prog.AllOps JOp p := h.mono fun _ => BlockOp.jop

theorem jop_createDir (k : Key) : JOp (.createDir k) := fun _ _ _ h => nomatch h
theorem jop_removeFile (k : Key) : JOp (.removeFile k) := fun _ _ _ h => nomatch h
theorem jop_removeDirAll (k : Key) : JOp (.removeDirAll k) := fun _ _ _ h => nomatch h
theorem jop_write {k : Key} {v : FileVal} {m : WriteMode} (hv : FileJsonGood v) : JOp (.write k v m) :=
  fun _ _ _ h => by cases h; exact hv

/-! ### The Hoare logic -/

/-- `JSat p Q`: from any world whose store is `StoreJsonGood`, `p` ends — whatever the outcome,
whatever faults, wherever the world is killed — in a store that is `StoreJsonGood`, having attempted
only `JOp` operations; if it returns `a` then `Q a`. -/
def JSat {α : Type} (p : Prog α) (Q : α → Prop) : Prop :=
  ∀ (t0 : List TraceEv) (w : World), WInv t0 w →
    WInv t0 (p.run w).2 ∧ ∀ a, (p.run w).1 = .ok a → Q a

namespace JSat

theorem of_ops {α : Type} {p : Prog α} {Q : α → Prop} (hp : Prog.AllOps JOp p) (hr : RetSpec p Q) :
    JSat p Q := fun _ w h => ⟨run_winv hp w h, fun a ha => hr w a ha⟩

theorem ret {α : Type} {a : α} {Q : α → Prop} (h : Q a) : JSat (.ret a) Q :=
  fun _ _ hw => ⟨hw, fun _ h' => by cases h'; exact h⟩

theorem fail {α : Type} {e : Err} {Q : α → Prop} : JSat (.fail e : Prog α) Q :=
  fun _ _ hw => ⟨hw, fun _ h' => nomatch h'⟩

theorem panic {α : Type} {m : String} {Q : α → Prop} : JSat (.panic m : Prog α) Q :=
  fun _ _ hw => ⟨hw, fun _ h' => nomatch h'⟩

theorem emit {α : Type} {ev : Event} {k : Prog α} {Q : α → Prop} (h : JSat k Q) : JSat (.emit ev k) Q :=
  fun t0 w hw => h t0 { w with events := ev :: w.events } hw

theorem bind {α β : Type} {p : Prog α} {f : α → Prog β} {Q1 : α → Prop} {Q : β → Prop}
    (hp : JSat p Q1) (hf : ∀ a, Q1 a → JSat (f a) Q) : JSat (p.bind f) Q := by
  intro t0 w hw
  rw [Prog.run_bind]
  obtain ⟨h1, h2⟩ := hp t0 w hw
  cases hrun : p.run w with
  | mk out w1 =>
    rw [hrun] at h1 h2
    cases out with
    | ok a => exact hf a (h2 a rfl) t0 w1 h1
    | err e => exact ⟨h1, fun _ h' => nomatch h'⟩
    | panic m => exact ⟨h1, fun _ h' => nomatch h'⟩

theorem mono {α : Type} {p : Prog α} {Q Q' : α → Prop} (hp : JSat p Q) (h : ∀ a, Q a → Q' a) :
    JSat p Q' := fun t0 w hw => ⟨(hp t0 w hw).1, fun a ha => h a ((hp t0 w hw).2 a ha)⟩

end JSat

theorem ro_jsat {α : Type} {p : Prog α} (hp : Prog.AllOps ReadOnly p) : JSat p (fun _ => True) :=
  JSat.of_ops (AllOps.ro_j hp) (fun _ _ _ => trivial)

theorem performUnit_jsat {o : Op} (ho : JOp o) : JSat (performUnit o) (fun _ => True) :=
  JSat.of_ops (performUnit_allOps ho) (fun _ _ _ => trivial)

end Conserve.JStore
