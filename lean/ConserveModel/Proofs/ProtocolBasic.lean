import ConserveModel.Protocol
/-
Basic facts about the protocol skeleton: the run combinators preserve every invariant that
both step functions preserve; both actors have finished at the end of `runProto`;
`newestId` / `hasBand` characterisations.
-/
namespace Conserve.Proto

/-! ### Invariants of runs -/

theorem runB_inv {P : State → Prop} (hB : ∀ p, P p → P (stepB p)) : ∀ n p, P p → P (runB n p)
  | 0, _, h => h
  | n + 1, p, h => runB_inv hB n (stepB p) (hB p h)

theorem runG_inv {P : State → Prop} (hG : ∀ p, P p → P (stepG p)) : ∀ n p, P p → P (runG n p)
  | 0, _, h => h
  | n + 1, p, h => runG_inv hG n (stepG p) (hG p h)

/-- Whatever both step functions preserve holds after every schedule. -/
theorem runProto_inv {P : State → Prop} (hB : ∀ p, P p → P (stepB p)) (hG : ∀ p, P p → P (stepG p)) :
    ∀ (sched : Schedule) p, P p → P (runProto sched p)
  | [], p, h => by
    unfold runProto finish
    exact runG_inv hG _ _ (runB_inv hB _ _ h)
  | false :: rest, p, h => by
    unfold runProto
    exact runProto_inv hB hG rest _ (hB p h)
  | true :: rest, p, h => by
    unfold runProto
    exact runProto_inv hB hG rest _ (hG p h)

/-- Follow a schedule and stop there (no running to the end): the states a run passes through. -/
def runSteps : Schedule → State → State
  | [], p => p
  | false :: rest, p => runSteps rest (stepB p)
  | true :: rest, p => runSteps rest (stepG p)

/-- Whatever both step functions preserve holds at every point of every run. -/
theorem runSteps_inv {P : State → Prop} (hB : ∀ p, P p → P (stepB p)) (hG : ∀ p, P p → P (stepG p)) :
    ∀ (sched : Schedule) p, P p → P (runSteps sched p)
  | [], p, h => h
  | false :: rest, p, h => by
    unfold runSteps
    exact runSteps_inv hB hG rest _ (hB p h)
  | true :: rest, p, h => by
    unfold runSteps
    exact runSteps_inv hB hG rest _ (hG p h)

/-! ### `newestId`, `hasBand` -/

theorem newestId_none {bs : List Band} : newestId bs = none ↔ bs = [] := by
  cases bs with
  | nil => simp [newestId]
  | cons b bs => cases h : newestId bs <;> simp [newestId, h]

theorem newestId_some {bs : List Band} {m : Nat} (h : newestId bs = some m) :
    (∀ b ∈ bs, b.id ≤ m) ∧ ∃ b ∈ bs, b.id = m := by
  induction bs generalizing m with
  | nil => simp [newestId] at h
  | cons b bs ih =>
    cases h' : newestId bs with
    | none =>
      have : bs = [] := newestId_none.mp h'
      subst this
      simp [newestId] at h
      subst h
      simp
    | some m' =>
      simp [newestId, h'] at h
      obtain ⟨h1, b', hb', h2⟩ := ih h'
      subst h
      constructor
      · intro x hx
        rcases List.mem_cons.mp hx with rfl | hx
        · exact Nat.le_max_left _ _
        · exact Nat.le_trans (h1 x hx) (Nat.le_max_right _ _)
      · by_cases hle : b.id ≤ m'
        · exact ⟨b', List.mem_cons_of_mem _ hb', by rw [h2]; omega⟩
        · exact ⟨b, List.mem_cons_self, by omega⟩

theorem lt_nextId {bs : List Band} {b : Band} (hb : b ∈ bs) : b.id < nextId bs := by
  unfold nextId
  cases h : newestId bs with
  | none => rw [newestId_none.mp h] at hb; simp at hb
  | some m => have := (newestId_some h).1 b hb; simp; omega

theorem hasBand_iff {bs : List Band} {i : Nat} : hasBand bs i = true ↔ ∃ b ∈ bs, b.id = i := by
  simp [hasBand]

theorem hasBand_false_iff {bs : List Band} {i : Nat} : hasBand bs i = false ↔ ∀ b ∈ bs, b.id ≠ i := by
  simp [hasBand]

/-! ### Both actors have finished after `runProto` -/

theorem stepB_g (p : State) : (stepB p).g = p.g := by
  unfold stepB; repeat' split
  all_goals rfl

theorem stepG_b (p : State) : (stepG p).b = p.b := by
  unfold stepG; repeat' split
  all_goals rfl

theorem stepB_needed (p : State) : (stepB p).b.needed = p.b.needed := by
  unfold stepB; repeat' split
  all_goals rfl

theorem stepG_del (p : State) : (stepG p).g.del = p.g.del := by
  unfold stepG; repeat' split
  all_goals rfl

theorem bRank_step (p : State) (h : p.b.pc.fin = false) : bRank (stepB p) < bRank p := by
  unfold stepB
  repeat' split
  all_goals simp_all [BPc.fin, bRank]

theorem gRank_step (p : State) (h : p.g.pc.fin = false) : gRank (stepG p) < gRank p := by
  have hf := List.length_filter_le (fun g => !decide (g ∈ p.g.referenced)) p.present
  unfold stepG
  repeat' split
  all_goals simp_all [GPc.fin, gRank]
  all_goals omega

theorem bRank_fin (p : State) (h : p.b.pc.fin = true) : bRank p = 0 := by
  unfold bRank; cases hpc : p.b.pc <;> simp_all [BPc.fin]

theorem gRank_fin (p : State) (h : p.g.pc.fin = true) : gRank p = 0 := by
  unfold gRank; cases hpc : p.g.pc <;> simp_all [GPc.fin]

theorem stepB_fin (p : State) (h : p.b.pc.fin = true) : stepB p = p := by
  unfold stepB; cases hpc : p.b.pc <;> simp_all [BPc.fin]

theorem stepG_fin (p : State) (h : p.g.pc.fin = true) : stepG p = p := by
  unfold stepG; cases hpc : p.g.pc <;> simp_all [GPc.fin]

theorem runB_fin : ∀ n p, bRank p ≤ n → (runB n p).b.pc.fin = true
  | 0, p, h => by
    unfold runB
    cases hf : p.b.pc.fin with
    | true => rfl
    | false => have := bRank_step p hf; omega
  | n + 1, p, h => by
    unfold runB
    cases hf : p.b.pc.fin with
    | true =>
      rw [stepB_fin p hf]
      exact runB_fin n p (by rw [bRank_fin p hf]; omega)
    | false => exact runB_fin n _ (by have := bRank_step p hf; omega)

theorem runG_fin : ∀ n p, gRank p ≤ n → (runG n p).g.pc.fin = true
  | 0, p, h => by
    unfold runG
    cases hf : p.g.pc.fin with
    | true => rfl
    | false => have := gRank_step p hf; omega
  | n + 1, p, h => by
    unfold runG
    cases hf : p.g.pc.fin with
    | true =>
      rw [stepG_fin p hf]
      exact runG_fin n p (by rw [gRank_fin p hf]; omega)
    | false => exact runG_fin n _ (by have := gRank_step p hf; omega)

theorem runG_b : ∀ n p, (runG n p).b = p.b
  | 0, _ => rfl
  | n + 1, p => by unfold runG; rw [runG_b n, stepG_b]

/-- After `runProto` both actors have finished (succeeded, refused or failed). -/
theorem runProto_finished : ∀ (sched : Schedule) (p : State),
    (runProto sched p).b.pc.fin = true ∧ (runProto sched p).g.pc.fin = true
  | [], p => by
    unfold runProto finish
    exact ⟨by rw [runG_b]; exact runB_fin _ _ (Nat.le_refl _), runG_fin _ _ (Nat.le_refl _)⟩
  | false :: rest, p => by unfold runProto; exact runProto_finished rest _
  | true :: rest, p => by unfold runProto; exact runProto_finished rest _

end Conserve.Proto
