import ConserveModel.Proofs.FrameTrace
import ConserveModel.Proofs.CleanWorld
import ConserveModel.Proofs.StoreNoDup
/-
`bandCreate`: the id it picks is one above the largest id in the root listing it saw; a failed
head write ends it (and hence `backup`) with an error.
-/
namespace Conserve
open Prog

/-- Does the operation create something that carries a band id `b`: the band directory, its
index directory, or its head? -/
def Op.createsBand (o : Op) (b : Nat) : Prop :=
  o = .createDir (.bandDir b) ∨ o = .createDir (.indexDir b) ∨ ∃ v m, o = .write (.bandHead b) v m

/-- After the response `r` to `listDir root`: every band-creating operation uses the id after
the largest one listed in `r`. -/
def NewIdFrom (r : Resp) (o : Op) : Prop :=
  ∀ b, o.createsBand b → ∃ xs, r = .listing xs ∧ b = nextBandId (listingBandIds xs)

/-- Shape of `bandCreate`, independent of any world: it first lists the root; whatever the
response `r`, all band-creating operations that can follow use `nextBandId` of that listing. -/
theorem bandCreate_shape :
    ∃ k, bandCreate = .op (.listDir .root) k ∧ ∀ r, AllOps (NewIdFrom r) (k r) := by
  unfold bandCreate lastBandId listBandIds
  simp only [Prog.bind_def, Prog.perform, Prog.op_bind, Prog.ret_bind, Prog.pure_def]
  refine ⟨_, rfl, ?_⟩
  intro r
  cases r with
  | listing xs =>
    simp only [Prog.ret_bind]
    have hid : ∀ o : Op, o.createsBand (nextBandId (listingBandIds xs)) ∨ (∀ b, ¬ o.createsBand b) →
        NewIdFrom (.listing xs) o := by
      intro o ho b hb
      refine ⟨xs, rfl, ?_⟩
      rcases ho with ho | ho
      · rcases ho with rfl | rfl | ⟨_, _, rfl⟩ <;> rcases hb with hb | hb | ⟨_, _, hb⟩ <;> cases hb <;> rfl
      · exact absurd hb (ho b)
    have h1 := hid (.createDir (.bandDir (nextBandId (listingBandIds xs)))) (.inl (.inl rfl))
    have h2 := hid (.createDir (.indexDir (nextBandId (listingBandIds xs)))) (.inl (.inr (.inl rfl)))
    have h3 := hid (.write (.bandHead (nextBandId (listingBandIds xs))) (.head .ok []) .createNew)
      (.inl (.inr (.inr ⟨_, _, rfl⟩)))
    exact AllOps.bind (performUnit_allOps h1) fun _ =>
      AllOps.bind (performUnit_allOps h2) fun _ =>
      AllOps.bind (performUnit_allOps h3) fun _ => .ret _
  | val v => exact .fail _
  | stat a b => exact .fail _
  | unit => exact .fail _
  | err e => exact .fail _

/-- `exec` returns a listing only when it recorded it. -/
theorem World.exec_listing_recorded {w : World} {o : Op} {xs : List DirEnt} (h : (w.exec o).2 = .listing xs) :
    (w.exec o).1.trace = ⟨o, .listing xs⟩ :: w.trace := by
  rcases (World.exec_cases w o).2 with ⟨_, _, hr⟩ | ⟨_, _, _, _, _, _, _, hr⟩ | ⟨e, _, _, hr⟩ | ⟨_, ht, hr⟩
  · rw [hr] at h; cases h
  · rw [hr] at h; cases h
  · rw [hr] at h; cases h
  · rw [ht, ← hr, h]

/-- Events a run appends: whenever a band-creating operation for id `b` is recorded, a root
listing `xs` is recorded too and `b = nextBandId` of the ids in `xs`. -/
def NewIdTrace (new : List TraceEv) : Prop :=
  ∀ ev ∈ new, ∀ b, ev.op.createsBand b →
    ∃ xs, (⟨.listDir .root, .listing xs⟩ : TraceEv) ∈ new ∧ b = nextBandId (listingBandIds xs)

theorem NewIdTrace.appendClosed : AppendClosed NewIdTrace := by
  refine ⟨(by intro ev h; cases h), ?_⟩
  intro earlier later he hl ev hev b hb
  rcases List.mem_append.mp hev with h | h
  · obtain ⟨xs, hx, hb'⟩ := hl ev h b hb
    exact ⟨xs, List.mem_append.mpr (.inl hx), hb'⟩
  · obtain ⟨xs, hx, hb'⟩ := he ev h b hb
    exact ⟨xs, List.mem_append.mpr (.inr hx), hb'⟩

theorem bandCreate_newIdTrace : TraceProp NewIdTrace bandCreate := by
  intro w
  obtain ⟨k, hk, hall⟩ := bandCreate_shape
  rw [hk, Prog.run_op]
  obtain ⟨n1, ht1, hP⟩ := Prog.run_trace_ops (hall (w.exec (.listDir .root)).2) (w.exec (.listDir .root)).1
  rcases World.exec_trace_resp w (.listDir .root) with ht | ht
  · refine ⟨n1, by rw [ht1, ht], ?_⟩
    intro ev hev b hb
    obtain ⟨xs, hx, _⟩ := hP ev hev b hb
    have := World.exec_listing_recorded hx
    rw [ht] at this
    exact absurd (congrArg List.length this) (by simp)
  · refine ⟨n1 ++ [⟨.listDir .root, (w.exec (.listDir .root)).2⟩], by rw [ht1, ht]; simp, ?_⟩
    intro ev hev b hb
    rcases List.mem_append.mp hev with hev | hev
    · obtain ⟨xs, hx, hb'⟩ := hP ev hev b hb
      exact ⟨xs, List.mem_append.mpr (.inr (by rw [hx]; simp)), hb'⟩
    · rw [List.mem_singleton.mp hev] at hb
      rcases hb with hb | hb | ⟨_, _, hb⟩ <;> cases hb

/-- Programs that never create band directories, index directories or heads. -/
theorem TraceProp.newId_of_writerOp {α : Type} {p : Prog α} (hp : AllOps WriterOp p) : TraceProp NewIdTrace p := by
  refine TraceProp.of_allOps (P := WriterOp) ?_ hp
  intro new h ev hev b hb
  obtain ⟨_, hnh, hnd⟩ := h ev hev
  rcases hb with hb | hb | ⟨_, _, hb⟩
  · rw [hb] at hnd; exact absurd trivial hnd
  · rw [hb] at hnd; exact absurd trivial hnd
  · rw [hb] at hnh; exact absurd trivial hnh

/-- In any world: if `bandCreate` returns `b`, the root listing came back and `b` is the id
after the largest one it showed. -/
theorem bandCreate_run_ok {w : World} {b : Nat} (h : (bandCreate.run w).1 = .ok b) :
    ∃ xs, (w.exec (.listDir .root)).2 = .listing xs ∧ b = nextBandId (listingBandIds xs) := by
  unfold bandCreate lastBandId at h
  simp only [Prog.bind_def, Prog.pure_def] at h
  obtain ⟨last, h1, h2⟩ := Prog.run_bind_ok_inv h
  obtain ⟨ids, h3, h4⟩ := Prog.run_bind_ok_inv h1
  obtain ⟨xs, hx, rfl⟩ := listBandIds_run_ok h3
  simp only [Prog.run_ret, Outcome.ok.injEq] at h4
  subst h4
  obtain ⟨_, _, h5⟩ := Prog.run_bind_ok_inv h2
  obtain ⟨_, _, h6⟩ := Prog.run_bind_ok_inv h5
  obtain ⟨_, _, h7⟩ := Prog.run_bind_ok_inv h6
  simp only [Prog.run_ret, Outcome.ok.injEq] at h7
  exact ⟨xs, hx, h7.symm⟩

/-- On a clean world: the id `bandCreate` returns is `nextBandId` of the band ids in the store. -/
theorem bandCreate_run_clean {w : World} (hc : w.Clean) {b : Nat} (h : (bandCreate.run w).1 = .ok b) :
    w.store.get? .root = some .dir ∧ b = nextBandId (bandIdsOf w.store) := by
  obtain ⟨xs, hx, hb⟩ := bandCreate_run_ok h
  rw [World.exec_clean_resp hc] at hx
  simp only [applyOp] at hx
  split at hx
  · cases hx
  · rename_i hroot
    cases hx
    exact ⟨hroot, by rw [hb, listingBandIds_children_root]⟩
  · cases hx

theorem bandCreate_headGuard : HeadGuard bandCreate := by
  unfold bandCreate
  simp only [Prog.bind_def, Prog.pure_def]
  refine HeadGuard.bind (HeadGuard.of_readOnly lastBandId_ro) fun last => ?_
  refine HeadGuard.bind (HeadGuard.of_allOps (performUnit_allOps (by simp [isHeadWrite]))) fun _ => ?_
  refine HeadGuard.bind (HeadGuard.of_allOps (performUnit_allOps (by simp [isHeadWrite]))) fun _ => ?_
  unfold performUnit
  simp only [Prog.bind_def, Prog.perform, Prog.op_bind, Prog.ret_bind, Prog.pure_def]
  refine .op ?_ ?_
  · intro r; cases r <;> first | exact .fail _ | exact .ret _
  · intro _ r hr
    cases r with
    | unit => exact absurd rfl hr
    | err e => exact ⟨_, rfl⟩
    | val v => exact ⟨_, rfl⟩
    | listing xs => exact ⟨_, rfl⟩
    | stat a b => exact ⟨_, rfl⟩

/-- `backup` = check the gc lock; find the basis; `bandCreate`; then a tail made of `WriterOp`s
(no band directory, no head). -/
theorem backup_decomp (H : Str → Str) (o : BackupOpts) (src : List SrcEntry) :
    ∃ tail : Option Nat → Nat → Prog Stats,
      backup H o src = (gcIsLocked.bind fun c =>
        if c = true then .fail .gcLockHeld
        else lastBandId.bind fun basis => bandCreate.bind fun band => tail basis band) ∧
      ∀ basis band, AllOps WriterOp (tail basis band) := by
  refine ⟨?tail, ?eq, ?ops⟩
  case eq =>
    unfold backup
    simp only [Prog.bind_def, Prog.pure_def, Prog.fail_bind]
    rfl
  case ops =>
    intro basis band
    allops [gcLockListed_ro, listBlocks_ro, listEntries_ro, backupLoop_wr, flushGroup_wr, finishHunk_wr,
      bandClose_wr]

theorem backup_headGuard (H : Str → Str) (o : BackupOpts) (src : List SrcEntry) :
    HeadGuard (backup H o src) := by
  obtain ⟨tail, heq, hops⟩ := backup_decomp H o src
  rw [heq]
  refine HeadGuard.bind (HeadGuard.of_readOnly gcIsLocked_ro) fun c => ?_
  split
  · exact .fail _
  · refine HeadGuard.bind (HeadGuard.of_readOnly lastBandId_ro) fun basis => ?_
    exact HeadGuard.bind bandCreate_headGuard fun band => HeadGuard.of_writerOp (hops basis band)

theorem backup_newIdTrace (H : Str → Str) (o : BackupOpts) (src : List SrcEntry) :
    TraceProp NewIdTrace (backup H o src) := by
  obtain ⟨tail, heq, hops⟩ := backup_decomp H o src
  rw [heq]
  refine TraceProp.bind NewIdTrace.appendClosed (TraceProp.newId_of_writerOp gcIsLocked_ro.ro_wr) fun c => ?_
  split
  · exact TraceProp.newId_of_writerOp (.fail _)
  · refine TraceProp.bind NewIdTrace.appendClosed (TraceProp.newId_of_writerOp lastBandId_ro.ro_wr) fun basis => ?_
    exact TraceProp.bind NewIdTrace.appendClosed bandCreate_newIdTrace fun band =>
      TraceProp.newId_of_writerOp (hops basis band)

/-! ### Root listings seen during a run show every band id of the initial store -/

/-- Every recorded successful `listDir root` shows all the ids in `ids`. -/
def ListingsShow (ids : List Nat) (new : List TraceEv) : Prop :=
  ∀ ev ∈ new, ∀ xs, ev.op = .listDir .root → ev.resp = .listing xs → ∀ b ∈ ids, b ∈ listingBandIds xs

theorem applyOp_listDir_root_listing {e : Bool} {s : Store} {xs : List DirEnt}
    (h : (applyOp e s (.listDir .root)).2 = .listing xs) : xs = s.children .root := by
  simp only [applyOp] at h
  split at h
  · cases h
  · cases h; rfl
  · cases h

/-- In any world honouring `CreateNew`, while a `CreateOnly` program runs, every root listing
that comes back shows (at least) all band ids of the store the run started from. -/
theorem Prog.run_listingsShow {α : Type} {p : Prog α} (hp : AllOps CreateOnly p) (w : World)
    (he : w.enforceCreateNew = true) (hs : w.store.NoDupKeys) :
    ∃ new, (p.run w).2.trace = new ++ w.trace ∧ ListingsShow (bandIdsOf w.store) new := by
  have := Prog.run_world_inv (P := CreateOnly)
    (I := fun w' => w'.enforceCreateNew = true ∧ Extends w.store w'.store ∧ w'.store.NoDupKeys ∧
      ∃ new, w'.trace = new ++ w.trace ∧ ListingsShow (bandIdsOf w.store) new)
    (fun _ _ h => h)
    (fun w' o ho ⟨he', hx, hnd, new, ht, hl⟩ => by
      refine ⟨by simpa using he', hx.trans (World.exec_extends w' o he' ho), World.exec_noDupKeys w' o hnd, ?_⟩
      rcases (World.exec_cases w' o).2 with ⟨_, htr, _⟩ | ⟨_, _, _, _, _, _, htr, _⟩ | ⟨e, _, htr, _⟩ | ⟨_, htr, _⟩
      · exact ⟨new, by rw [htr, ht], hl⟩
      · exact ⟨new, by rw [htr, ht], hl⟩
      · refine ⟨⟨o, .err e⟩ :: new, by rw [htr, ht]; rfl, ?_⟩
        intro ev hev xs hop hresp
        rcases List.mem_cons.mp hev with rfl | hev
        · cases hresp
        · exact hl ev hev xs hop hresp
      · refine ⟨⟨o, (applyOp w'.enforceCreateNew w'.store o).2⟩ :: new, by rw [htr, ht]; rfl, ?_⟩
        intro ev hev xs hop hresp
        rcases List.mem_cons.mp hev with rfl | hev
        · simp only at hop hresp
          subst hop
          rw [applyOp_listDir_root_listing hresp, listingBandIds_children_root]
          exact bandIdsOf_subset_of_extends hx hs hnd
        · exact hl ev hev xs hop hresp)
    hp w ⟨he, Extends.refl _, hs, [], rfl, by intro ev h; cases h⟩
  exact this.2.2.2

/-- **A new version gets an id above every existing one** — in every world honouring `CreateNew`
(any faults, any crash point): whenever a run of `backup` records an operation that creates a band
directory, its index directory or its head, for id `b`, then `b` is larger than every band id the
store had when the run started. -/
theorem backup_newId_above_existing (H : Str → Str) (o : BackupOpts) (src : List SrcEntry) (w : World)
    (he : w.enforceCreateNew = true) (hs : w.store.NoDupKeys) :
    ∃ new, ((backup H o src).run w).2.trace = new ++ w.trace ∧
      ∀ ev ∈ new, ∀ b, ev.op.createsBand b → ∀ b' ∈ bandIdsOf w.store, b' < b := by
  obtain ⟨new, ht, hnew⟩ := backup_newIdTrace H o src w
  obtain ⟨new', ht', hshow⟩ := Prog.run_listingsShow (backup_createOnly H o src) w he hs
  have : new' = new := List.append_cancel_right (ht'.symm.trans ht)
  subst this
  refine ⟨new', ht, ?_⟩
  intro ev hev b hb b' hb'
  obtain ⟨xs, hx, rfl⟩ := hnew ev hev b hb
  exact nextBandId_gt _ b' (hshow _ hx xs rfl rfl b' hb')

end Conserve
