import ConserveModel.Proofs.RaceInv
/-
C06 on the full model — what each actor knows survives the other's operations: `BFacts` under the
operations of `delete_bands` (lock file only; a band directory removed; an unreferenced block
removed), `GFacts` under the operations of `backup`.  No property statements here.
-/
namespace Conserve.Race
open Conserve Prog Conserve.Conf Conserve.Inv

variable {H : Str → Str}

theorem solo_noDupKeys {α : Type} (p : Prog α) {s : Store} (hn : NoDupKeys s) : NoDupKeys (p.solo s).2 := by
  have := Prog.run_noDupKeys p (World.clean s) hn
  rwa [(p.run_clean_eq_solo s).2] at this

theorem LockEq.frameOff {s s' : Store} (h : LockEq s s') : FrameOff (fun k => k = Key.gcLock) s s' :=
  fun _ hk => (h.get? hk).symm

theorem LockEq.ci {s s' : Store} (h : LockEq s s') (hci : CI H s) (hn' : NoDupKeys s') : CI H s' :=
  hci.of_lock_frame hn' (LockEq.frameOff h)

theorem LockEq.isBand {s s' : Store} (h : LockEq s s') (b : Nat) : isBand s' b ↔ isBand s b := by
  unfold Race.isBand; rw [h.get? (by simp)]

theorem LockEq.bandKeys {s s' : Store} (h : LockEq s s') (b : Nat) : BandKeysSame b s s' :=
  ⟨fun _ => (h.get? (by simp)).symm, (h.get? (by simp)).symm, (h.get? (by simp)).symm⟩

/-- What may have happened to the keys of band `n`: nothing, or the whole band is gone. -/
def BandFate (n : Nat) (s s' : Store) : Prop := BandKeysSame n s s' ∨ (¬ isBand s' n ∧ EmptyBand s' n)

section
variable (o : BackupOpts) (src : List SrcEntry)

/-- `BFacts` outside the critical part, under a change that keeps `CI`, creates no band directory,
and leaves each band's files alone or removes the band. -/
theorem BFacts.stable {β : BSt} {s s' : Store} {p : Prog Stats} (h : BFacts H β s p) (hc : β.isCrit = false)
    (hci : CI H s') (hb : ∀ x, isBand s' x → isBand s x) (hf : ∀ n, BandFate n s s') : BFacts H β s' p := by
  cases β <;> simp only [BFacts] at h ⊢
  case crit n => simp [BSt.isCrit] at hc
  case l1 | basis | idl | done => exact hci
  case mkdir bs n | mkdirX bs n => exact ⟨hci, fun b hb' => h.2 b (hb b hb')⟩
  case mkI bs n | head bs n =>
    refine ⟨hci, fun b hb' => h.2.1 b (hb b hb'), ?_⟩
    rcases hf n with hs | hg
    · exact h.2.2.same hs
    · exact hg.2
  case l2 bs n =>
    refine ⟨hci, fun b hb' => h.2.1 b (hb b hb'), ?_⟩
    rcases hf n with hs | hg
    · rcases h.2.2 with ho | hn
      · exact Or.inl (ho.same hs)
      · exact Or.inr fun hb' => hn (hb n hb')
    · exact Or.inr hg.1

/-- `BFacts` when only the lock file changed. -/
theorem BFacts.lock {β : BSt} {s s' : Store} {p : Prog Stats} (h : BFacts H β s p) (hp : β.prog H o src p)
    (hl : LockEq s s') (hn' : NoDupKeys s') : BFacts H β s' p := by
  by_cases hc : β.isCrit = false
  · exact h.stable hc (LockEq.ci hl (ci_of_not_crit h hc) hn') (fun x hx => (LockEq.isBand hl x).1 hx)
      (fun n => Or.inl (LockEq.bandKeys hl n))
  · cases β <;> simp [BSt.isCrit] at hc
    rename_i n
    simp only [BFacts] at h ⊢
    obtain ⟨_, h2, h3, h4⟩ := h
    refine ⟨hn', fun b hb' => h2 b ((LockEq.isBand hl b).1 hb'), by rw [← hl.get? (by simp)]; exact h3, ?_⟩
    obtain ⟨_, hfin⟩ := LockEq.solo hp.1 hl
    exact LockEq.ci hfin h4 (solo_noDupKeys p hn')

end

/-! ### Removing a band directory, removing a block -/

theorem eraseTree_get?_other {s : Store} {b : Nat} {k : Key} (hk : Key.isUnder (.bandDir b) k = false) :
    (s.eraseTree (.bandDir b)).get? k = s.get? k := by
  rw [Store.get?_eraseTree]; simp [hk]

theorem eraseTree_get?_under {s : Store} {b : Nat} {k : Key} (hk : Key.isUnder (.bandDir b) k = true) :
    (s.eraseTree (.bandDir b)).get? k = none := by
  rw [Store.get?_eraseTree]; simp [hk]

theorem isUnder_bandDir_bandDir (b x : Nat) : Key.isUnder (.bandDir b) (.bandDir x) = decide (x = b) := by
  by_cases h : x = b <;> simp [Key.isUnder, Key.parent, h]

theorem isUnder_bandDir_hunk (b x n : Nat) : Key.isUnder (.bandDir b) (.hunk x n) = decide (x = b) := by
  by_cases h : x = b <;> simp [Key.isUnder, Key.parent, h]

theorem isUnder_bandDir_tail (b x : Nat) : Key.isUnder (.bandDir b) (.bandTail x) = decide (x = b) := by
  by_cases h : x = b <;> simp [Key.isUnder, Key.parent, h]

theorem isUnder_bandDir_head (b x : Nat) : Key.isUnder (.bandDir b) (.bandHead x) = decide (x = b) := by
  by_cases h : x = b <;> simp [Key.isUnder, Key.parent, h]

theorem eraseTree_isBand {s : Store} {b x : Nat} (h : isBand (s.eraseTree (.bandDir b)) x) : isBand s x ∧ x ≠ b := by
  unfold isBand at h
  rw [Store.get?_eraseTree, isUnder_bandDir_bandDir] at h
  by_cases hx : x = b
  · simp [hx] at h
  · simp only [hx, decide_false, Bool.false_eq_true, if_false] at h
    exact ⟨h, hx⟩

theorem eraseTree_bandFate (s : Store) (b n : Nat) : BandFate n s (s.eraseTree (.bandDir b)) := by
  by_cases hn : n = b
  · subst hn
    refine Or.inr ⟨fun h => (eraseTree_isBand h).2 rfl, ⟨fun i => ?_, ?_, ?_⟩⟩
    · exact eraseTree_get?_under (by rw [isUnder_bandDir_hunk]; simp)
    · exact eraseTree_get?_under (by rw [isUnder_bandDir_tail]; simp)
    · exact eraseTree_get?_under (by rw [isUnder_bandDir_head]; simp)
  · refine Or.inl ⟨fun i => ?_, ?_, ?_⟩
    · exact eraseTree_get?_other (by rw [isUnder_bandDir_hunk]; simp [hn])
    · exact eraseTree_get?_other (by rw [isUnder_bandDir_tail]; simp [hn])
    · exact eraseTree_get?_other (by rw [isUnder_bandDir_head]; simp [hn])

/-- `BFacts` when `delete_bands` removed a band directory. -/
theorem BFacts.eraseTree {β : BSt} {s : Store} {p : Prog Stats} (h : BFacts H β s p) (hc : β.isCrit = false) (b : Nat) :
    BFacts H β (s.eraseTree (.bandDir b)) p :=
  h.stable hc ((ci_of_not_crit h hc).eraseTree_band b) (fun _ hx => (eraseTree_isBand hx).1)
    (fun n => eraseTree_bandFate s b n)

/-- `BFacts` when `delete_bands` removed an unreferenced block. -/
theorem BFacts.eraseBlock {β : BSt} {s : Store} {p : Prog Stats} (h : BFacts H β s p) (hc : β.isCrit = false)
    {hh : Str} (hci : CI H (s.erase (.block hh))) : BFacts H β (s.erase (.block hh)) p :=
  h.stable hc hci (fun x hx => by unfold isBand at hx ⊢; rwa [Store.get?_erase_ne _ (by simp)] at hx)
    (fun n => Or.inl ⟨fun i => Store.get?_erase_ne _ (by simp), Store.get?_erase_ne _ (by simp),
      Store.get?_erase_ne _ (by simp)⟩)

/-! ### `SafeU` -/

theorem _root_.Conserve.SafeU.of_same {Dr : List Nat} {U : List Str} {s s' : Store} (h : SafeU Dr U s)
    (hd : ∀ b, s'.get? (.bandDir b) = some .dir → s.get? (.bandDir b) = some .dir)
    (hh : ∀ b n, s'.get? (.bandDir b) = some .dir → s'.get? (.hunk b n) = s.get? (.hunk b n)) : SafeU Dr U s' := by
  intro b hb hbD n es hes
  rw [hh b n hb] at hes
  exact h b (hd b hb) hbD n es hes

theorem _root_.Conserve.SafeU.lock {Dr : List Nat} {U : List Str} {s s' : Store} (h : SafeU Dr U s) (hl : LockEq s s') :
    SafeU Dr U s' :=
  h.of_same (fun b hb => by rwa [hl.get? (by simp)]) (fun b n _ => (hl.get? (by simp)).symm)

/-- Removing the first band of the list. -/
theorem _root_.Conserve.SafeU.eraseTree {b : Nat} {bs : List Nat} {U : List Str} {s : Store} (h : SafeU (b :: bs) U s) :
    SafeU bs U (s.eraseTree (.bandDir b)) := by
  intro x hx hxD n es hes
  obtain ⟨hx1, hxb⟩ := eraseTree_isBand hx
  rw [eraseTree_get?_other (by rw [isUnder_bandDir_hunk]; simp [hxb])] at hes
  exact h x hx1 (by simp [hxb, hxD]) n es hes

/-- A `put` that is no hunk and, if it creates a band directory, one without hunks. -/
theorem _root_.Conserve.SafeU.put {Dr : List Nat} {U : List Str} {s : Store} (h : SafeU Dr U s) {k : Key} (v : FileVal)
    (hk : ∀ b n, k ≠ .hunk b n) (hb : ∀ b, k = .bandDir b → ∀ n, s.get? (.hunk b n) = none) :
    SafeU Dr U (s.put k v) := by
  intro b hbd hbD n es hes
  rw [Store.get?_put, if_neg (fun e => hk b n e.symm)] at hes
  rw [Store.get?_put] at hbd
  split at hbd
  · rename_i e
    rw [hb b e.symm n] at hes
    cases hes
  · exact h b hbd hbD n es hes

/-! ### `GFacts` under the operations of `backup` -/

section
variable (D : List Nat)

/-- `GFacts` under a change that removes no band directory and leaves the lock file alone, provided
that (a) once `band_is_closed` has passed the change makes a newer band visible (or is no change),
and (b) while sweeping it keeps `SafeU`. -/
theorem GFacts.stable {γ : GSt} {s s' : Store} (h : GFacts D γ s)
    (hb : ∀ b, isBand s b → isBand s' b) (hl : s'.get? .gcLock = s.get? .gcLock)
    (hq : ∀ m, γ.chk = some m → Doomed s' m)
    (hs : γ.sweeping = true → ∀ Dr U, SafeU Dr U s → SafeU Dr U s') : GFacts D γ s' := by
  cases γ <;> simp only [GFacts] at h ⊢
  case tc b => exact h.mono hb
  case lc m | w m => exact h.mono hb
  case read m q => exact ⟨h.1.mono hb, by unfold Locked; rw [hl]; exact h.2.1, fun hd => absurd (hq m rfl) hd⟩
  case atK m U => exact ⟨h.1.mono hb, by unfold Locked; rw [hl]; exact h.2.1, fun hd => absurd (hq m rfl) hd⟩
  case sweepB U b bs n => exact ⟨by unfold Locked; rw [hl]; exact h.1, hs rfl _ _ h.2⟩
  case sweepU U x xs e nb => exact ⟨by unfold Locked; rw [hl]; exact h.1, hs rfl _ _ h.2⟩

end

end Conserve.Race
