import ConserveModel.Proofs.FrameTrace
import ConserveModel.Conc
/-
The frame lemmas for two actors sharing a store (`runSched`): the store only grows, no key gets
two successful writes (across both actors), and an actor whose head write fails stops there.
-/
namespace Conserve
open Prog

/-! ### `settle` -/

theorem Actor.settle_allOps {α : Type} {P : Op → Prop} {p : Prog α} (hp : AllOps P p) (evs : List Event) :
    AllOps P (Actor.settle p evs).1 := by
  induction hp generalizing evs with
  | ret a => exact .ret a
  | fail e => exact .fail e
  | panic s => exact .panic s
  | emit ev _ ih => exact ih _
  | op ho hk _ => exact .op ho hk

theorem Actor.settle_headGuard {α : Type} {p : Prog α} (hp : HeadGuard p) (evs : List Event) :
    HeadGuard (Actor.settle p evs).1 := by
  induction hp generalizing evs with
  | ret a => exact .ret a
  | fail e => exact .fail e
  | panic s => exact .panic s
  | emit ev _ ih => exact ih _
  | op hk hg _ => exact .op hk hg

theorem Actor.settle_fail {α : Type} (e : Err) (evs : List Event) :
    (Actor.settle (Prog.fail e : Prog α) evs).1 = .fail e := rfl

theorem Actor.start_allOps {α : Type} {P : Op → Prop} {p : Prog α} (hp : AllOps P p) :
    AllOps P (Actor.start p).prog := Actor.settle_allOps hp []

theorem Actor.start_headGuard {α : Type} {p : Prog α} (hp : HeadGuard p) :
    HeadGuard (Actor.start p).prog := Actor.settle_headGuard hp []

@[simp] theorem Actor.start_trace {α : Type} (p : Prog α) : (Actor.start p).trace = [] := rfl

/-! ### One actor: a step, and running to completion -/

/-- Invariant of one actor beside the events `T` of the other: its remaining program is made of
`P`-operations. -/
theorem Actor.step_allOps {α : Type} {P : Op → Prop} {a : Actor α} (e : Bool) (s : Store)
    (h : AllOps P a.prog) : AllOps P (a.step e s).2.prog := by
  unfold Actor.step
  split
  · rename_i o k hp
    rw [hp] at h
    cases h with
    | op _ hk => exact Actor.settle_allOps (hk _) _
  · exact h

theorem Actor.step_extends {α : Type} {a : Actor α} (s : Store) (h : AllOps CreateOnly a.prog) :
    Extends s (a.step true s).1 := by
  unfold Actor.step
  split
  · rename_i o k hp
    rw [hp] at h
    cases h with
    | op ho _ => exact applyOp_extends ho
  · exact Extends.refl _

theorem Actor.finish_extends {α : Type} {a : Actor α} (s : Store) (h : AllOps CreateOnly a.prog) :
    Extends s (a.finish true s).1 :=
  Prog.run_extends h { store := s, enforceCreateNew := true } rfl

theorem Actor.finish_allOps {α : Type} {P : Op → Prop} (a : Actor α) (e : Bool) (s : Store) :
    AllOps P (a.finish e s).2.prog := by
  unfold Actor.finish
  simp only
  split <;> constructor

theorem Actor.step_winv {α : Type} {a : Actor α} {s : Store} {T : List TraceEv}
    (h : AllOps BackupOp a.prog) (hw : WInv s (a.trace ++ T)) :
    WInv (a.step true s).1 ((a.step true s).2.trace ++ T) := by
  unfold Actor.step
  split
  · rename_i o k hp
    rw [hp] at h
    cases h with
    | op ho _ => exact hw.step ho
  · exact hw

theorem Actor.finish_winv {α : Type} {a : Actor α} {s : Store} {T : List TraceEv}
    (h : AllOps BackupOp a.prog) (hw : WInv s (a.trace ++ T)) :
    WInv (a.finish true s).1 ((a.finish true s).2.trace ++ T) := by
  obtain ⟨new', ht, hw'⟩ := WInv.run h (w := { store := s, enforceCreateNew := true })
    (t0 := []) (new := []) (T := a.trace ++ T) rfl rfl hw
  unfold Actor.finish
  simp only
  rw [ht]
  simpa [List.append_assoc] using hw'

/-- The actor-level form of `HeadLast`. -/
def Actor.HeadOk {α : Type} (a : Actor α) : Prop :=
  HeadGuard a.prog ∧ HeadLastP (∃ e, a.prog = .fail e) a.trace

theorem Actor.start_headOk {α : Type} {p : Prog α} (hp : HeadGuard p) : (Actor.start p).HeadOk :=
  ⟨Actor.start_headGuard hp, trivial⟩

theorem Actor.step_headOk {α : Type} {a : Actor α} (e : Bool) (s : Store) (h : a.HeadOk) :
    (a.step e s).2.HeadOk := by
  unfold Actor.step
  split
  · rename_i o k hp
    obtain ⟨hg, hl⟩ := h
    rw [hp] at hg hl
    cases hg with
    | op hk hgk =>
      refine ⟨Actor.settle_headGuard (hk _) _, ?_, ?_⟩
      · -- nothing recorded so far is a failed head write: the program is still running
        intro e' he'
        cases ht : a.trace with
        | nil => rw [ht] at he'; cases he'
        | cons e0 rest =>
          rw [ht] at hl he'
          rcases List.mem_cons.mp he' with rfl | hin
          · intro hf
            obtain ⟨_, hx⟩ := hl.2 hf
            cases hx
          · exact hl.1 e' hin
      · intro hf
        obtain ⟨err, hk'⟩ := hgk hf.1 _ hf.2
        exact ⟨err, by simp only; rw [hk']; rfl⟩
  · exact h

theorem Actor.finish_headOk {α : Type} {a : Actor α} (e : Bool) (s : Store) (h : a.HeadOk) :
    (a.finish e s).2.HeadOk := by
  obtain ⟨hg, hl⟩ := h
  obtain ⟨new, ht, hnew⟩ := hg.run { store := s, enforceCreateNew := e }
  unfold Actor.finish
  simp only
  rcases hrun : a.prog.run { store := s, enforceCreateNew := e } with ⟨out, w'⟩
  rw [hrun] at ht hnew
  simp only [List.append_nil] at ht hnew
  refine ⟨by cases out <;> constructor, ?_⟩
  simp only
  rw [ht]
  cases new with
  | nil =>
    -- nothing was recorded; if the old trace ends in a failed head write the program had failed already
    cases hta : a.trace with
    | nil => trivial
    | cons e0 rest =>
      rw [hta] at hl
      refine ⟨hl.1, fun hf => ?_⟩
      obtain ⟨err, hp⟩ := hl.2 hf
      rw [hp] at hrun
      simp only [Prog.run_fail, Prod.mk.injEq] at hrun
      exact ⟨err, by rw [← hrun.1]⟩
  | cons ev rest =>
    -- something was recorded, so the program was not finished, so the old trace has no failed head write
    have hold : ∀ e' ∈ a.trace, ¬ FailedHead e' := by
      intro e' he'
      cases hta : a.trace with
      | nil => rw [hta] at he'; cases he'
      | cons e0 rest0 =>
        rw [hta] at hl he'
        rcases List.mem_cons.mp he' with rfl | hin
        · intro hf
          obtain ⟨err, hp⟩ := hl.2 hf
          rw [hp] at hrun
          simp only [Prog.run_fail, Prod.mk.injEq] at hrun
          have := congrArg World.trace hrun.2
          rw [ht] at this
          cases this
        · exact hl.1 e' hin
    refine ⟨?_, ?_⟩
    · intro e' he'
      rcases List.mem_append.mp he' with h1 | h1
      · exact hnew.1 e' h1
      · exact hold e' h1
    · intro hf
      obtain ⟨err, ho⟩ := hnew.2 hf
      exact ⟨err, by rw [ho]⟩

/-! ### Two actors under a schedule -/

/-- **Shared-store frame theorem.**  Whatever the schedule, two actors issuing only `CreateOnly`
operations leave a store that extends the initial one. -/
theorem runSched_extends {α β : Type} (sched : List Bool) (s : Store) (a : Actor α) (b : Actor β)
    (ha : AllOps CreateOnly a.prog) (hb : AllOps CreateOnly b.prog) :
    Extends s (runSched true sched s a b).1 := by
  induction sched generalizing s a b with
  | nil =>
    unfold runSched
    exact (Actor.finish_extends s ha).trans (Actor.finish_extends _ hb)
  | cons c rest ih =>
    cases c with
    | false =>
      unfold runSched
      exact (Actor.step_extends s ha).trans (ih _ _ _ (Actor.step_allOps true s ha) hb)
    | true =>
      unfold runSched
      exact (Actor.step_extends s hb).trans (ih _ _ _ ha (Actor.step_allOps true s hb))

theorem WInv.swap {s : Store} {A B : List TraceEv} (h : WInv s (A ++ B)) : WInv s (B ++ A) :=
  h.perm List.perm_append_comm

/-- Whatever the schedule: the write-once invariant over the events of both actors. -/
theorem runSched_winv {α β : Type} (sched : List Bool) (s : Store) (a : Actor α) (b : Actor β)
    (ha : AllOps BackupOp a.prog) (hb : AllOps BackupOp b.prog) (hw : WInv s (a.trace ++ b.trace)) :
    WInv (runSched true sched s a b).1
      ((runSched true sched s a b).2.1.trace ++ (runSched true sched s a b).2.2.trace) := by
  induction sched generalizing s a b with
  | nil =>
    unfold runSched
    have h1 := Actor.finish_winv ha hw
    have h2 := Actor.finish_winv hb h1.swap
    exact h2.swap
  | cons c rest ih =>
    cases c with
    | false =>
      unfold runSched
      exact ih _ _ _ (Actor.step_allOps true s ha) hb (Actor.step_winv ha hw)
    | true =>
      unfold runSched
      exact ih _ _ _ ha (Actor.step_allOps true s hb) (Actor.step_winv hb hw.swap).swap

/-- Whatever the schedule (and whether or not `CreateNew` is honoured): each actor stops at a
failed head write. -/
theorem runSched_headOk {α β : Type} (e : Bool) (sched : List Bool) (s : Store) (a : Actor α) (b : Actor β)
    (ha : a.HeadOk) (hb : b.HeadOk) :
    (runSched e sched s a b).2.1.HeadOk ∧ (runSched e sched s a b).2.2.HeadOk := by
  induction sched generalizing s a b with
  | nil =>
    unfold runSched
    exact ⟨Actor.finish_headOk e s ha, Actor.finish_headOk e _ hb⟩
  | cons c rest ih =>
    cases c with
    | false => unfold runSched; exact ih _ _ _ (Actor.step_headOk e s ha) hb
    | true => unfold runSched; exact ih _ _ _ ha (Actor.step_headOk e s hb)

end Conserve
