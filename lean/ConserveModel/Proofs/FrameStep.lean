import ConserveModel.Invariants
import ConserveModel.Proofs.ProgLemmas
/-
Frame reasoning, one step at a time: what `put`/`erase` do to `get?`, the classes of
operations (`ReadOnly ⊆ WriterOp ⊆ BackupOp ⊆ CreateOnly`), a case analysis of `World.exec`
that hides faults / crash points / the dead flag, and the single-step frame lemma
`exec_extends`.  No property statements here.
-/
namespace Conserve
open Prog

/-! ### `get?` after `erase` / `put` -/

theorem Store.get?_erase (s : Store) (k k' : Key) :
    (s.erase k).get? k' = if k' = k then none else s.get? k' := by
  induction s with
  | nil => simp [Store.erase, Store.get?]
  | cons kv s ih =>
    obtain ⟨a, b⟩ := kv
    simp only [Store.erase, Store.get?] at ih ⊢
    by_cases hak : a = k
    · subst hak
      by_cases hk : k' = a
      · subst hk; simpa [List.filter_cons] using ih
      · have : (k' == a) = false := by simpa using hk
        simp [List.lookup_cons, this, hk] at ih ⊢
        exact ih
    · have hne : (a != k) = true := by simpa using hak
      by_cases hk : k' = k
      · subst hk
        have : (k' == a) = false := by simpa using (fun h => hak (h ▸ rfl) : ¬ k' = a)
        simp [hne, List.lookup_cons, this] at ih ⊢
        exact ih
      · by_cases hka : k' = a
        · subst hka; simp [hne, hk]
        · have : (k' == a) = false := by simpa using hka
          simp [hne, List.lookup_cons, this, hk] at ih ⊢
          exact ih

theorem Store.get?_put (s : Store) (k k' : Key) (v : FileVal) :
    (s.put k v).get? k' = if k' = k then some v else s.get? k' := by
  have h := Store.get?_erase s k k'
  simp only [Store.put, Store.get?, List.lookup_append] at h ⊢
  by_cases hk : k' = k
  · subst hk; simp [h]
  · have : (k' == k) = false := by simpa using hk
    simp [h, hk, List.lookup_cons, this]

theorem Store.erase_erase (s : Store) (k : Key) : (s.erase k).erase k = s.erase k := by
  simp [Store.erase, List.filter_filter]

/-- Overwriting a key just written: only the last value counts (also as lists). -/
theorem Store.put_put (s : Store) (k : Key) (a b : FileVal) : (s.put k a).put k b = s.put k b := by
  simp [Store.put, Store.erase, List.filter_append, List.filter_filter]

theorem Store.has_iff (s : Store) (k : Key) : s.has k = true ↔ ∃ v, s.get? k = some v := by
  simp [Store.has, Option.isSome_iff_exists]

/-! ### `Extends` -/

theorem Extends.trans {a b c : Store} (h1 : Extends a b) (h2 : Extends b c) : Extends a c := by
  intro k v hv
  rcases h1 k v hv with h | ⟨he, hs⟩
  · exact h2 k v h
  · obtain ⟨v', hv'⟩ := Option.isSome_iff_exists.mp hs
    right
    refine ⟨he, ?_⟩
    rcases h2 k v' hv' with h | ⟨_, h⟩
    · simp [h]
    · exact h

/-- Creating a file where there was none, or completing a zero-length leftover, extends. -/
theorem Extends.put {s : Store} {k : Key} (v : FileVal)
    (h : s.get? k = none ∨ s.get? k = some .empty) : Extends s (s.put k v) := by
  intro k' v' hv'
  rw [Store.get?_put]
  by_cases hk : k' = k
  · subst hk
    rcases h with h | h
    · rw [h] at hv'; cases hv'
    · rw [h] at hv'; cases hv'; right; simp
  · left; simpa [hk] using hv'

/-- The property's wording of `Extends`, first half: a non-empty file (or a directory) stays, unchanged. -/
theorem Extends.keeps {s s' : Store} (h : Extends s s') {k : Key} {v : FileVal}
    (hv : s.get? k = some v) (hne : v ≠ .empty) : s'.get? k = some v := by
  rcases h k v hv with h | ⟨he, _⟩
  · exact h
  · exact absurd he hne

/-- Second half: a zero-length file may change, but never disappears. -/
theorem Extends.present {s s' : Store} (h : Extends s s') {k : Key} {v : FileVal}
    (hv : s.get? k = some v) : (s'.get? k).isSome = true := by
  rcases h k v hv with h | ⟨_, h⟩
  · simp [h]
  · exact h

/-! ### Classes of operations -/

/-- Operations that cannot change the store. -/
def ReadOnly : Op → Prop
  | .read _ | .listDir _ | .metadata _ => True
  | _ => False

/-- Operations that can only add: reads, `createDir`, and `write` with `CreateNew`. -/
def CreateOnly : Op → Prop
  | .read _ | .listDir _ | .metadata _ | .createDir _ => True
  | .write _ _ m => m = .createNew
  | _ => False

/-- `CreateOnly`, and what is written is never the zero-length file. -/
def BackupOp : Op → Prop
  | .read _ | .listDir _ | .metadata _ | .createDir _ => True
  | .write _ v m => m = .createNew ∧ v ≠ .empty
  | _ => False

def isHeadWrite : Op → Prop
  | .write (.bandHead _) _ _ => True
  | _ => False

/-- Creating a band directory or its index directory. -/
def isBandDirCreate : Op → Prop
  | .createDir (.bandDir _) => True
  | .createDir (.indexDir _) => True
  | _ => False

/-- What the index/block writer issues: `BackupOp` other than creating a band (or index) directory or
writing a band head (those two belong to `bandCreate`). -/
def WriterOp (o : Op) : Prop := BackupOp o ∧ ¬ isHeadWrite o ∧ ¬ isBandDirCreate o

def Op.isRemove : Op → Bool
  | .removeFile _ | .removeDirAll _ => true
  | _ => false

instance : DecidablePred ReadOnly := fun o => by cases o <;> simp only [ReadOnly] <;> infer_instance
instance : DecidablePred CreateOnly := fun o => by cases o <;> simp only [CreateOnly] <;> infer_instance
instance : DecidablePred BackupOp := fun o => by cases o <;> simp only [BackupOp] <;> infer_instance
instance : DecidablePred isHeadWrite := fun o => by
  cases o with
  | write k v m => cases k <;> simp only [isHeadWrite] <;> infer_instance
  | _ => simp only [isHeadWrite]; infer_instance

instance : DecidablePred isBandDirCreate := fun o => by
  cases o with
  | createDir k => cases k <;> simp only [isBandDirCreate] <;> infer_instance
  | _ => simp only [isBandDirCreate]; infer_instance

theorem ReadOnly.writerOp {o : Op} (h : ReadOnly o) : WriterOp o := by
  cases o <;> simp_all [ReadOnly, WriterOp, BackupOp, isHeadWrite, isBandDirCreate]
theorem WriterOp.backupOp {o : Op} (h : WriterOp o) : BackupOp o := h.1
theorem BackupOp.createOnly {o : Op} (h : BackupOp o) : CreateOnly o := by
  cases o <;> simp_all [BackupOp, CreateOnly]
theorem ReadOnly.backupOp {o : Op} (h : ReadOnly o) : BackupOp o := h.writerOp.backupOp
theorem ReadOnly.createOnly {o : Op} (h : ReadOnly o) : CreateOnly o := h.backupOp.createOnly
theorem ReadOnly.not_mutating {o : Op} (h : ReadOnly o) : o.isMutating = false := by
  cases o <;> simp_all [ReadOnly, Op.isMutating]
theorem CreateOnly.not_remove {o : Op} (h : CreateOnly o) : o.isRemove = false := by
  cases o <;> simp_all [CreateOnly, Op.isRemove]
theorem CreateOnly.write_mode {k : Key} {v : FileVal} {m : WriteMode} (h : CreateOnly (.write k v m)) :
    m = .createNew := h

theorem Prog.AllOps.mono {α : Type} {P Q : Op → Prop} (h : ∀ o, P o → Q o) {p : Prog α}
    (hp : Prog.AllOps P p) : Prog.AllOps Q p := by
  induction hp with
  | ret a => exact .ret a
  | fail e => exact .fail e
  | panic s => exact .panic s
  | emit ev _ ih => exact .emit ev ih
  | op ho _ ih => exact .op (h _ ho) ih

/-! ### `applyOp` on `CreateOnly` operations -/

/-- The response of a write does not depend on the value written. -/
theorem applyOp_write_resp (e : Bool) (s : Store) (k : Key) (v v' : FileVal) (m : WriteMode) :
    (applyOp e s (.write k v m)).2 = (applyOp e s (.write k v' m)).2 := by
  simp only [applyOp]
  split
  · rfl
  · split <;> (try rfl)
    split <;> rfl

/-- A write either succeeds and puts the value, or leaves the store alone. -/
theorem applyOp_write_store (e : Bool) (s : Store) (k : Key) (v : FileVal) (m : WriteMode) :
    ((applyOp e s (.write k v m)).2 = .unit ∧ (applyOp e s (.write k v m)).1 = s.put k v) ∨
    ((∃ err, (applyOp e s (.write k v m)).2 = .err err) ∧ (applyOp e s (.write k v m)).1 = s) := by
  simp only [applyOp]
  split
  · right; exact ⟨⟨_, rfl⟩, rfl⟩
  · split
    · right; exact ⟨⟨_, rfl⟩, rfl⟩
    · split
      · right; exact ⟨⟨_, rfl⟩, rfl⟩
      · left; exact ⟨rfl, rfl⟩
    · left; exact ⟨rfl, rfl⟩

/-- With `CreateNew` honoured, a successful `CreateNew` write found nothing or a zero-length file. -/
theorem applyOp_createNew_pre {s : Store} {k : Key} {v : FileVal}
    (h : (applyOp true s (.write k v .createNew)).2 = .unit) :
    s.get? k = none ∨ s.get? k = some .empty := by
  simp only [applyOp] at h
  split at h
  · cases h
  · split at h
    · cases h
    · rename_i old hold _
      split at h
      · cases h
      · rename_i hc
        right
        cases old <;> simp_all [FileVal.isEmptyFile]
    · left; assumption

/-- Response `.unit` of `createDir` on a key that is absent puts a directory there; otherwise nothing changes. -/
theorem applyOp_createDir_store (e : Bool) (s : Store) (k : Key) :
    (applyOp e s (.createDir k)).1 = s ∨
    (s.get? k = none ∧ (applyOp e s (.createDir k)).1 = s.put k .dir) := by
  simp only [applyOp]
  split
  · left; rfl
  · rename_i hhas
    split
    · left; rfl
    · right
      refine ⟨?_, rfl⟩
      simpa [Store.has] using hhas

/-- One fault-free `CreateOnly` operation extends the store, when `CreateNew` is honoured. -/
theorem applyOp_extends {s : Store} {o : Op} (ho : CreateOnly o) : Extends s (applyOp true s o).1 := by
  cases o with
  | read k => simp only [applyOp]; split <;> exact Extends.refl _
  | listDir k => simp only [applyOp]; split <;> exact Extends.refl _
  | metadata k => simp only [applyOp]; split <;> exact Extends.refl _
  | createDir k =>
    rcases applyOp_createDir_store true s k with h | ⟨hn, h⟩
    · rw [h]; exact Extends.refl _
    · rw [h]; exact Extends.put _ (Or.inl hn)
  | write k v m =>
    have hm : m = .createNew := ho
    subst hm
    rcases applyOp_write_store true s k v .createNew with ⟨hr, hs⟩ | ⟨_, hs⟩
    · rw [hs]; exact Extends.put _ (applyOp_createNew_pre hr)
    · rw [hs]; exact Extends.refl _
  | removeFile k => exact absurd ho (by simp [CreateOnly])
  | removeDirAll k => exact absurd ho (by simp [CreateOnly])

theorem applyOp_readOnly_store {e : Bool} {s : Store} {o : Op} (ho : ReadOnly o) : (applyOp e s o).1 = s := by
  cases o <;> simp only [ReadOnly] at ho <;> simp only [applyOp] <;> split <;> rfl

/-! ### `World.exec`, case by case -/

/-- Unfolded form of `exec` for a write that is neither dead, faulted nor killed before it starts. -/
theorem World.exec_write_eq (w : World) (k : Key) (v : FileVal) (m : WriteMode)
    (hd : w.dead = false) (hf : w.faultFor (.write k v m) = none) (hc : w.crashesAt w.steps = false) :
    w.exec (.write k v m) =
      if (applyOp w.enforceCreateNew w.store (.write k v m)).2 = .unit then
        if w.crashesAt (w.steps + 1) then
          ({ w with store := w.store.put k .empty, steps := w.steps + 1, dead := true }, .err .other)
        else
          ({ w with store := w.store.put k v, steps := w.steps + 2,
                    trace := ⟨.write k v m, .unit⟩ :: w.trace }, .unit)
      else
        ({ w with trace := ⟨.write k v m, (applyOp w.enforceCreateNew w.store (.write k v m)).2⟩ :: w.trace },
         (applyOp w.enforceCreateNew w.store (.write k v m)).2) := by
  have hresp := applyOp_write_resp w.enforceCreateNew w.store k .empty v m
  rcases h1 : applyOp w.enforceCreateNew w.store (.write k .empty m) with ⟨s1, r1⟩
  have hs1 := applyOp_write_store w.enforceCreateNew w.store k .empty m
  rw [h1] at hresp hs1
  simp only at hresp hs1
  rw [← hresp]
  simp only [World.exec, hd, hf, hc, Op.isMutating, h1]
  rcases hs1 with ⟨hr, hs⟩ | ⟨⟨err, hr⟩, hs⟩
  · subst hr; subst hs
    simp [Store.put_put]
  · subst hr; subst hs
    simp

/-- What one `exec` can do, with faults, crash points and the dead flag abstracted away:
1. nothing at all (dead world, or killed just before the operation) — not recorded, response `other`;
2. killed between the two micro-steps of a write that would have succeeded: the key now holds a
   zero-length file — not recorded, response `other`;
3. an injected fault: recorded with its error, the store untouched;
4. the operation is applied (`applyOp`) and recorded with its response.
In every case the `enforceCreateNew` flag is unchanged. -/
theorem World.exec_cases (w : World) (o : Op) :
    (w.exec o).1.enforceCreateNew = w.enforceCreateNew ∧
    (((w.exec o).1.store = w.store ∧ (w.exec o).1.trace = w.trace ∧ (w.exec o).2 = .err .other) ∨
    (∃ k v m, o = .write k v m ∧ (applyOp w.enforceCreateNew w.store o).2 = .unit ∧
      (w.exec o).1.store = w.store.put k .empty ∧ (w.exec o).1.trace = w.trace ∧ (w.exec o).2 = .err .other) ∨
    (∃ e, (w.exec o).1.store = w.store ∧ (w.exec o).1.trace = ⟨o, .err e⟩ :: w.trace ∧ (w.exec o).2 = .err e) ∨
    ((w.exec o).1.store = (applyOp w.enforceCreateNew w.store o).1 ∧
      (w.exec o).1.trace = ⟨o, (applyOp w.enforceCreateNew w.store o).2⟩ :: w.trace ∧
      (w.exec o).2 = (applyOp w.enforceCreateNew w.store o).2)) := by
  by_cases hd : w.dead = true
  · simp [World.exec, hd]
  have hd' : w.dead = false := by simpa using hd
  cases hf : w.faultFor o with
  | some e => simp [World.exec, hd', hf]
  | none =>
    by_cases hm : o.isMutating = true
    · by_cases hc : w.crashesAt w.steps = true
      · simp [World.exec, hd', hf, hm, hc]
      · have hc' : w.crashesAt w.steps = false := by simpa using hc
        cases o with
        | write k v m =>
          rw [World.exec_write_eq w k v m hd' hf hc']
          rcases applyOp_write_store w.enforceCreateNew w.store k v m with ⟨hr, hs⟩ | ⟨⟨err, hr⟩, hs⟩
          · by_cases hc1 : w.crashesAt (w.steps + 1) = true
            · simp [hr, hc1]
            · simp [hr, hc1, hs]
          · simp [hr, hs]
        | createDir k => simp [World.exec, hd', hf, Op.isMutating, hc']
        | removeFile k => simp [World.exec, hd', hf, Op.isMutating, hc']
        | removeDirAll k => simp [World.exec, hd', hf, Op.isMutating, hc']
        | read k => simp [Op.isMutating] at hm
        | listDir k => simp [Op.isMutating] at hm
        | metadata k => simp [Op.isMutating] at hm
    · have hro : ReadOnly o := by cases o <;> simp_all [Op.isMutating, ReadOnly]
      simp [World.exec, hd', hf, hm, applyOp_readOnly_store hro]

@[simp] theorem World.exec_enforce (w : World) (o : Op) :
    (w.exec o).1.enforceCreateNew = w.enforceCreateNew := (World.exec_cases w o).1

/-- **The single-step frame lemma.**  In every world that honours `CreateNew` (any faults, any
crash point, dead or alive) a `CreateOnly` operation leaves a store that extends the old one. -/
theorem World.exec_extends (w : World) (o : Op) (he : w.enforceCreateNew = true) (ho : CreateOnly o) :
    Extends w.store (w.exec o).1.store := by
  rcases (World.exec_cases w o).2 with ⟨hs, _, _⟩ | ⟨k, v, m, rfl, hr, hs, _, _⟩ | ⟨e, hs, _, _⟩ | ⟨hs, _, _⟩
  · rw [hs]; exact Extends.refl _
  · rw [hs]
    have hm : m = .createNew := ho
    subst hm
    rw [he] at hr
    exact Extends.put _ (applyOp_createNew_pre hr)
  · rw [hs]; exact Extends.refl _
  · rw [hs, he]; exact applyOp_extends ho

/-- A read-only operation never changes the store, in any world. -/
theorem World.exec_readOnly_store (w : World) (o : Op) (ho : ReadOnly o) : (w.exec o).1.store = w.store := by
  rcases (World.exec_cases w o).2 with ⟨hs, _, _⟩ | ⟨k, v, m, rfl, _, _, _, _⟩ | ⟨e, hs, _, _⟩ | ⟨hs, _, _⟩
  · exact hs
  · exact absurd ho (by simp [ReadOnly])
  · exact hs
  · rw [hs]; exact applyOp_readOnly_store ho

/-- With `CreateNew` honoured, a `CreateNew` write that reports success found the key absent or
holding a zero-length file (in every world). -/
theorem World.exec_createNew_pre (w : World) (k : Key) (v : FileVal) (he : w.enforceCreateNew = true)
    (h : (w.exec (.write k v .createNew)).2 = .unit) :
    w.store.get? k = none ∨ w.store.get? k = some .empty := by
  rcases (World.exec_cases w (.write k v .createNew)).2 with
    ⟨_, _, hr⟩ | ⟨_, _, _, _, _, _, _, hr⟩ | ⟨e, _, _, hr⟩ | ⟨_, _, hr⟩
  · rw [hr] at h; cases h
  · rw [hr] at h; cases h
  · rw [hr] at h; cases h
  · rw [hr, he] at h; exact applyOp_createNew_pre h

/-! ### Generic run lemmas -/

/-- An invariant of worlds that every `P`-operation preserves (and that does not look at the
emitted events) holds after running any program built from `P`-operations. -/
theorem Prog.run_world_inv {α : Type} {P : Op → Prop} {I : World → Prop}
    (hev : ∀ (w : World) (ev : Event), I w → I { w with events := ev :: w.events })
    (hstep : ∀ (w : World) (o : Op), P o → I w → I (w.exec o).1)
    {p : Prog α} (hp : Prog.AllOps P p) (w : World) (hw : I w) : I (p.run w).2 := by
  induction hp generalizing w with
  | ret a => exact hw
  | fail e => exact hw
  | panic s => exact hw
  | emit ev _ ih => simpa using ih _ (hev w ev hw)
  | op ho _ ih =>
    rw [Prog.run_op]
    exact ih _ _ (hstep w _ ho hw)

/-- `exec` only ever pushes the operation itself onto the trace. -/
theorem World.exec_trace (w : World) (o : Op) :
    (w.exec o).1.trace = w.trace ∨ ∃ r, (w.exec o).1.trace = ⟨o, r⟩ :: w.trace := by
  rcases (World.exec_cases w o).2 with ⟨_, ht, _⟩ | ⟨_, _, _, _, _, _, ht, _⟩ | ⟨e, _, ht, _⟩ | ⟨_, ht, _⟩
  · exact .inl ht
  · exact .inl ht
  · exact .inr ⟨_, ht⟩
  · exact .inr ⟨_, ht⟩

/-- The trace after a run is the trace before plus new events, and every new event is an
operation the program could issue. -/
theorem Prog.run_trace_ops {α : Type} {P : Op → Prop} {p : Prog α} (hp : Prog.AllOps P p) (w : World) :
    ∃ new, (p.run w).2.trace = new ++ w.trace ∧ ∀ ev ∈ new, P ev.op := by
  have := Prog.run_world_inv (P := P)
    (I := fun w' => ∃ new, w'.trace = new ++ w.trace ∧ ∀ ev ∈ new, P ev.op)
    (fun _ _ h => h)
    (fun w' o ho ⟨new, hn, hP⟩ => by
      rcases World.exec_trace w' o with h | ⟨r, h⟩
      · exact ⟨new, by rw [h, hn], hP⟩
      · refine ⟨⟨o, r⟩ :: new, by rw [h, hn]; rfl, ?_⟩
        intro ev hev
        rcases List.mem_cons.mp hev with rfl | hev
        · exact ho
        · exact hP ev hev)
    hp w ⟨[], rfl, by simp⟩
  exact this

/-- `enforceCreateNew` is a constant of the world. -/
theorem Prog.run_enforce {α : Type} (p : Prog α) (w : World) :
    (p.run w).2.enforceCreateNew = w.enforceCreateNew := by
  induction p generalizing w with
  | ret a => rfl
  | fail e => rfl
  | panic s => rfl
  | emit ev k ih => simpa using ih _
  | op o k ih => rw [Prog.run_op, ih]; simp

/-- Programs made of `CreateOnly` operations extend the store, in every world honouring `CreateNew`. -/
theorem Prog.run_extends {α : Type} {p : Prog α} (hp : Prog.AllOps CreateOnly p) (w : World)
    (he : w.enforceCreateNew = true) : Extends w.store (p.run w).2.store := by
  have := Prog.run_world_inv (P := CreateOnly)
    (I := fun w' => w'.enforceCreateNew = true ∧ Extends w.store w'.store)
    (fun _ _ h => h)
    (fun w' o ho ⟨he', hx⟩ => ⟨by simpa using he', hx.trans (World.exec_extends w' o he' ho)⟩)
    hp w ⟨he, Extends.refl _⟩
  exact this.2

/-- Programs made of read-only operations leave the store as it is, in every world. -/
theorem Prog.run_readOnly_store {α : Type} {p : Prog α} (hp : Prog.AllOps ReadOnly p) (w : World) :
    (p.run w).2.store = w.store :=
  Prog.run_store_rel (R := fun a b => b = a) (fun _ => rfl) (fun _ _ _ h1 h2 => h2.trans h1)
    (fun w o ho => World.exec_readOnly_store w o ho) hp w

end Conserve
