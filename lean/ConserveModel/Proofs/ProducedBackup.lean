import ConserveModel.Proofs.ProducedRange
import ConserveModel.Proofs.FrameDelete
/-
C09 (first sentence): the range invariants (`entriesInRange`, and with it `BlocksSmall`: `Spec`)
through `finish_hunk`, `flush_group`, the main loop, the prelude and `backup()` as a whole, in EVERY
world (`backup_spec`, `backup_ir`, `backup_irs`); `delete_bands` writes neither an index hunk nor
block data (`deleteBands_nhw`, `delete_ir`, `delete_irs`).  No property statements here.
-/
namespace Conserve.Rng
open Conserve Conserve.Inv Conserve.Conf Prog

/-! ### Operation classes -/

theorem ReadOnly.noDataWrite {o : Op} (h : ReadOnly o) : NoDataWrite o :=
  ⟨fun k es m ho => by subst ho; exact h, fun k c m ho => by subst ho; exact h⟩

theorem AllOps.ro_ndw {α : Type} {p : Prog α} (h : Prog.AllOps ReadOnly p) : Prog.AllOps NoDataWrite p :=
  h.mono fun _ => ReadOnly.noDataWrite

theorem AllOps.ndw_good {α : Type} {p : Prog α} (h : Prog.AllOps NoDataWrite p) : Prog.AllOps GoodOp p :=
  h.mono fun _ => NoDataWrite.goodOp

theorem AllOps.ro_good {α : Type} {p : Prog α} (h : Prog.AllOps ReadOnly p) : Prog.AllOps GoodOp p :=
  AllOps.ndw_good (AllOps.ro_ndw h)

/-- Side goals `NoDataWrite o` for a concrete operation. -/
macro "nhw_side" : tactic =>
  `(tactic| first
    | assumption
    | (constructor <;> (intro _ _ _ h; cases h)))

/-- Structural proof of `AllOps NoDataWrite prog` (as `allops` of Proofs/FrameOps.lean). -/
syntax "nhwops" ("[" term,* "]")? : tactic
macro_rules
  | `(tactic| nhwops) => `(tactic| nhwops [])
  | `(tactic| nhwops [$ts,*]) => do
    let mut alts : Array (Lean.TSyntax `Lean.Parser.Tactic.tacticSeq) := #[]
    for t in ts.getElems do
      alts := alts.push (← `(tacticSeq| apply $t))
      alts := alts.push (← `(tacticSeq| (apply AllOps.ro_ndw; apply $t)))
    `(tactic| repeat (first
      | exact Prog.AllOps.ret _
      | exact Prog.AllOps.fail _
      | exact Prog.AllOps.panic _
      | exact Prog.AllOps.logError _
      | exact Prog.AllOps.report _
      | assumption
      | (first $[| $alts]* | fail)
      | (apply Prog.AllOps.perform; nhw_side)
      | apply Prog.AllOps.emit
      | apply Prog.AllOps.bind
      | apply Prog.AllOps.attempt
      | apply Prog.AllOps.attemptAll
      | (apply Prog.AllOps.op; nhw_side)
      | nhw_side
      | intro _
      | split
      | simp only [Prog.bind_def, Prog.pure_def]
      | dsimp only))

/-! ### `finish_hunk`, `flush_group` -/

theorem performUnit_rsat (S : Spec) {o : Op} (ho : GoodOp o) : RSat S (performUnit o) (fun _ => True) :=
  RSat.of_ops (performUnit_allOps ho) (fun _ _ _ => trivial)

/-- `IndexWriter::finish_hunk` in every world: the hunk written holds the pending entries, which
are in range. -/
theorem finishHunk_rsat (S : Spec) {rem : Nat} (wr : Writer) (hwr : WR rem wr) :
    RSat S (finishHunk wr) (fun wr' => WR rem wr') := by
  unfold finishHunk
  simp only [Prog.bind_def, Prog.pure_def]
  have hdone : WR rem { wr with pending := [], sequence := wr.sequence + 1, hunksWritten := wr.hunksWritten + 1 } :=
    ⟨(by intro e he; cases he), hwr.finished, hwr.queue, hwr.buf⟩
  have hwrite : GoodOp (.write (.hunk wr.band wr.sequence)
      (.hunk (wr.pending.mergeSort fun a b => apathLe a.apath b.apath)) .createNew) := by
    refine ⟨?_, fun _ _ _ ho => (nomatch ho)⟩
    intro k es m ho e he
    cases ho
    exact hwr.pending e (List.mem_mergeSort.mp he)
  have hdir : GoodOp (.createDir (.hunkDir wr.band (wr.sequence / hunksPerSubdir))) :=
    goodOp_createDir _
  split
  · exact RSat.ret hwr
  · split
    · refine RSat.bind (performUnit_rsat S hdir) fun _ _ => ?_
      exact RSat.bind (performUnit_rsat S hwrite) fun _ _ => RSat.ret hdone
    · exact RSat.bind (performUnit_rsat S hwrite) fun _ _ => RSat.ret hdone

section
variable (H : Str → Str)

/-- `BackupWriter::flush_group` in every world. -/
theorem flushGroup_rsat (S : Spec) {rem : Nat} (wr : Writer) (hwr : WR rem wr) :
    RSat S (flushGroup H wr) (fun wr' => WR rem wr') := by
  unfold flushGroup
  simp only [Prog.bind_def]
  refine RSat.bind (combinerFlush_rsat H S wr hwr) ?_
  rintro ⟨wr1, r⟩ hwr1
  cases r with
  | error e => exact RSat.fail
  | ok u =>
    refine finishHunk_rsat S _ ⟨?_, (by intro e he; cases he), hwr1.queue, hwr1.buf⟩
    intro e he
    rcases List.mem_append.mp he with he | he
    · exact hwr1.pending e he
    · exact hwr1.finished e he

/-! ### The main loop -/

/-- What the loop needs of one merged pair: the basis entry's addresses do not overflow. -/
def MatchedRange : Matched → Prop
  | .both b _ => addrsOK b.addrs
  | _ => True

theorem mergeTrees_matchedRange {basis : List IndexEntry} (hb : ∀ b ∈ basis, addrsOK b.addrs)
    (bs : List IndexEntry) (ss : List SrcEntry) (hbs : ∀ b ∈ bs, b ∈ basis) :
    ∀ m ∈ mergeTrees bs ss, MatchedRange m := by
  fun_induction mergeTrees bs ss with
  | case1 ss =>
    intro m hm
    obtain ⟨x, _, rfl⟩ := List.mem_map.mp hm
    trivial
  | case2 bs _ =>
    intro m hm
    obtain ⟨x, _, rfl⟩ := List.mem_map.mp hm
    trivial
  | case3 b bs x ss hcmp ih =>
    intro m hm
    rcases List.mem_cons.mp hm with rfl | hm
    · exact hb b (hbs b (List.mem_cons_self ..))
    · exact ih (fun b' hb' => hbs b' (List.mem_cons_of_mem _ hb')) m hm
  | case4 b bs x ss hcmp ih =>
    intro m hm
    rcases List.mem_cons.mp hm with rfl | hm
    · trivial
    · exact ih (fun b' hb' => hbs b' (List.mem_cons_of_mem _ hb')) m hm
  | case5 b bs x ss hcmp ih =>
    intro m hm
    rcases List.mem_cons.mp hm with rfl | hm
    · trivial
    · exact ih hbs m hm

/-- After `copy_entry`: log or report, maybe flush the group, go on. -/
theorem loopCont_rsat (S : Spec) (o : BackupOpts) (sf : SrcEntry) (rest : List Matched) {rem : Nat}
    (ih : ∀ wr, WR rem wr → RSat S (backupLoop H o wr rest) (fun wr' => WR 0 wr'))
    (x : Writer × Except Err (Option ChangeKind)) (hx : WR rem x.1) :
    RSat S (loopCont H o sf rest x) (fun wr' => WR 0 wr') := by
  obtain ⟨wr, r⟩ := x
  cases r with
  | error e =>
    simp only [loopCont, logError, Prog.emit_bind, Prog.ret_bind]
    exact RSat.emit (ih _ (hx.setStats _))
  | ok ch =>
    have hrest : RSat S ((if wr.pending.length + wr.queue.length ≥ o.maxEntriesPerHunk then flushGroup H wr
        else Prog.ret wr).bind fun w => backupLoop H o w rest) (fun wr' => WR 0 wr') := by
      refine RSat.bind (Q1 := fun w => WR rem w) ?_ (fun w hw => ih w hw)
      split
      · exact flushGroup_rsat H S wr hx
      · exact RSat.ret hx
    cases ch with
    | none =>
      simp only [loopCont, Prog.ret_bind]
      exact hrest
    | some ck =>
      simp only [loopCont, report, Prog.emit_bind, Prog.ret_bind]
      exact RSat.emit hrest

/-- The main loop of `backup()` in every world. -/
theorem backupLoop_rsat (S : Spec) (o : BackupOpts) (ms : List Matched) :
    ∀ (wr : Writer), WR (srcBytes (srcOf ms)) wr → (∀ sf ∈ srcOf ms, SrcTimeOK sf) →
      (∀ m ∈ ms, MatchedRange m) → RSat S (backupLoop H o wr ms) (fun wr' => WR 0 wr') := by
  induction ms with
  | nil =>
    intro wr hwr _ _
    rw [backupLoop]
    exact RSat.ret (hwr.weaken (Nat.zero_le _))
  | cons m rest ih =>
    intro wr hwr ht hms
    have hrest : ∀ m ∈ rest, MatchedRange m := fun m hm => hms m (List.mem_cons_of_mem _ hm)
    have hm := hms m (List.mem_cons_self ..)
    cases m with
    | left b =>
      rw [backupLoop_left]
      simp only [report, Prog.emit_bind, Prog.ret_bind]
      exact RSat.emit (ih wr hwr ht hrest)
    | right sf =>
      have ht' : ∀ x ∈ srcOf rest, SrcTimeOK x := fun x hx => ht x (List.mem_cons_of_mem _ hx)
      have hwr' : WR (fileBytes sf + srcBytes (srcOf rest)) wr := by
        simpa [srcOf, srcBytes] using hwr
      rw [backupLoop_right]
      refine RSat.bind (copyEntry_rsat H S o wr none sf hwr' (ht sf (List.mem_cons_self ..))
        (fun _ h => nomatch h)) ?_
      intro x hx
      exact loopCont_rsat H S o sf rest (fun wr hwr => ih wr hwr ht' hrest) x hx
    | both b sf =>
      have ht' : ∀ x ∈ srcOf rest, SrcTimeOK x := fun x hx => ht x (List.mem_cons_of_mem _ hx)
      have hwr' : WR (fileBytes sf + srcBytes (srcOf rest)) wr := by
        simpa [srcOf, srcBytes] using hwr
      rw [backupLoop_both]
      refine RSat.bind (copyEntry_rsat H S o wr (some b) sf hwr' (ht sf (List.mem_cons_self ..))
        (fun b' hb' => by cases hb'; exact hm)) ?_
      intro x hx
      exact loopCont_rsat H S o sf rest (fun wr hwr => ih wr hwr ht' hrest) x hx

/-- The main part of `backup()` in every world. -/
theorem backupMain_rsat (S : Spec) (o : BackupOpts) {src : List SrcEntry} (hsrc : SrcInRange src)
    (x : Nat × List Str × List IndexEntry) (hb : ∀ b ∈ x.2.2, addrsOK b.addrs) :
    RSat S (backupMain H o src x) (fun _ => True) := by
  unfold backupMain
  have hwr0 : WR (srcBytes (srcOf (mergeTrees x.2.2 src))) { band := x.1, exists_ := x.2.1 } := by
    rw [srcOf_mergeTrees]
    exact ⟨(by intro e he; cases he), (by intro e he; cases he), (by intro q hq; cases hq),
      by have := hsrc.bytes; simpa using this⟩
  refine RSat.bind (backupLoop_rsat H S o _ _ hwr0 (by rw [srcOf_mergeTrees]; exact hsrc.mtimes)
    (mergeTrees_matchedRange hb _ _ (fun _ h => h))) ?_
  intro wr1 hwr1
  refine RSat.bind (flushGroup_rsat H S wr1 hwr1) ?_
  intro wr2 hwr2
  refine RSat.bind (finishHunk_rsat S wr2 hwr2) ?_
  intro wr3 _
  unfold bandClose
  exact RSat.bind (performUnit_rsat S ⟨fun _ _ _ h => (nomatch h), fun _ _ _ h => (nomatch h)⟩) fun _ _ => RSat.ret trivial

end

/-! ### The prelude -/

theorem bandCreate_nhw : Prog.AllOps NoDataWrite bandCreate := by
  unfold bandCreate
  simp only [Prog.bind_def, Prog.pure_def]
  refine Prog.AllOps.bind (AllOps.ro_ndw _root_.Conserve.lastBandId_ro) fun _ => ?_
  refine Prog.AllOps.bind (performUnit_allOps ⟨fun _ _ _ h => (by cases h), fun _ _ _ h => (by cases h)⟩) fun _ => ?_
  refine Prog.AllOps.bind (performUnit_allOps ⟨fun _ _ _ h => (by cases h), fun _ _ _ h => (by cases h)⟩) fun _ => ?_
  exact Prog.AllOps.bind (performUnit_allOps ⟨fun _ _ _ h => (by cases h), fun _ _ _ h => (by cases h)⟩) fun _ => .ret _

theorem ro_rsat (S : Spec) {α : Type} {p : Prog α} (hp : Prog.AllOps ReadOnly p) : RSat S p (fun _ => True) :=
  RSat.of_ops (AllOps.ro_good hp) (fun _ _ _ => trivial)

/-- Every entry a listing returns is an entry of some hunk of the store, hence in range. -/
theorem listEntries_rsat (S : Spec) (b : Nat) (subtree : Str) (excl : Str → Bool) :
    RSat S (listEntries b subtree excl) (fun basis => ∀ e ∈ basis, entryInRange e = true) := by
  intro w hw
  obtain ⟨hst, hfh⟩ := listEntries_spec w.store b subtree excl w rfl
  refine ⟨by rw [hst]; exact hw, fun basis hb e he => ?_⟩
  have hw := S.ir _ hw
  obtain ⟨b', n, es, hes, hmem⟩ := hfh basis hb e he
  have hget : w.store.get? (.hunk b' n) = some (.hunk es) := by
    unfold hunkAt at hes
    split at hes
    · rename_i es' hg; cases hes; exact hg
    · cases hes
  exact (ir_iff _).1 hw _ es (Store.mem_of_get?' hget) e hmem

/-- The prelude in every world: the basis listing it returns has addresses that do not overflow. -/
theorem backupPrelude_rsat (S : Spec) : RSat S backupPrelude (fun x => ∀ b ∈ x.2.2, addrsOK b.addrs) := by
  unfold backupPrelude
  refine RSat.bind (ro_rsat S _root_.Conserve.gcIsLocked_ro) fun locked _ => ?_
  split
  · exact RSat.fail
  · refine RSat.bind (ro_rsat S _root_.Conserve.lastBandId_ro) fun basisBand _ => ?_
    refine RSat.bind (RSat.of_ops (AllOps.ndw_good bandCreate_nhw) (fun _ _ _ => trivial)) fun band _ => ?_
    refine RSat.bind (ro_rsat S _root_.Conserve.gcLockListed_ro) fun locked2 _ => ?_
    split
    · exact RSat.fail
    refine RSat.bind (ro_rsat S _root_.Conserve.listBlocks_ro) fun blocks _ => ?_
    cases basisBand with
    | none => exact RSat.ret (fun _ h => nomatch h)
    | some b =>
      refine RSat.bind (listEntries_rsat S b _ _) fun basis hbasis => ?_
      exact RSat.ret (fun e he => ((entryInRange_iff e).1 (hbasis e he)).2)

/-- **`backup` keeps the invariant in every world**: any faults, any crash point, dead or alive, any
options, any hash function, sorted source or not — provided the source's modification times are
representable and its file contents add up to less than 2^64 bytes. -/
theorem backup_spec (S : Spec) (H : Str → Str) (o : BackupOpts) {src : List SrcEntry} (hsrc : SrcInRange src)
    (w : World) (h : S.I w.store) : S.I ((backup H o src).run w).2.store := by
  rw [backup_eq]
  exact ((RSat.bind (backupPrelude_rsat S) fun x hx => backupMain_rsat H S o hsrc x hx) w h).1

/-- `entriesInRange` and `BlocksSmall` together. -/
theorem backup_irs (H : Str → Str) (o : BackupOpts) {src : List SrcEntry} (hsrc : SrcInRange src) (w : World)
    (h : IRS w.store) : IRS ((backup H o src).run w).2.store := backup_spec specIRS H o hsrc w h

/-- `entriesInRange` alone (whatever the lengths of the blocks already there). -/
theorem backup_ir (H : Str → Str) (o : BackupOpts) {src : List SrcEntry} (hsrc : SrcInRange src) (w : World)
    (h : entriesInRange w.store = true) : entriesInRange ((backup H o src).run w).2.store = true :=
  backup_spec specIR H o hsrc w h

/-! ### `delete_bands` -/

theorem gcLockNew_nhw : Prog.AllOps NoDataWrite gcLockNew := by
  unfold gcLockNew
  nhwops [_root_.Conserve.lastBandId_ro, _root_.Conserve.bandIsClosed_ro, unwrapOr_allOps,
    _root_.Conserve.isFile_ro, performUnit_allOps]

theorem gcBreakLock_nhw : Prog.AllOps NoDataWrite gcBreakLock := by
  unfold gcBreakLock
  have h1 : Prog.AllOps NoDataWrite gcIsLocked := AllOps.ro_ndw _root_.Conserve.gcIsLocked_ro
  have h2 := gcLockNew_nhw
  nhwops [performUnit_allOps]

theorem gcLockRelease_nhw : Prog.AllOps NoDataWrite gcLockRelease := by
  unfold gcLockRelease
  exact performUnit_allOps ⟨fun _ _ _ h => (by cases h), fun _ _ _ h => (by cases h)⟩

theorem gcLockDrop_nhw : Prog.AllOps NoDataWrite gcLockDrop := by
  unfold gcLockDrop
  nhwops

theorem gcLockReleaseOnError_nhw : Prog.AllOps NoDataWrite gcLockReleaseOnError := by
  unfold gcLockReleaseOnError
  have h4 := gcLockDrop_nhw
  nhwops

theorem bandDelete_nhw (b : Nat) : Prog.AllOps NoDataWrite (bandDelete b) := by
  unfold bandDelete
  nhwops

theorem delBands_nhw (bs : List Nat) (n : Nat) : Prog.AllOps NoDataWrite (deleteBody.delBands bs n) := by
  induction bs generalizing n with
  | nil => unfold deleteBody.delBands; nhwops
  | cons b bs ih =>
    unfold deleteBody.delBands
    have h1 := bandDelete_nhw b
    nhwops [ih]

theorem delBlocks_nhw (hs : List Str) (errs : Nat) : Prog.AllOps NoDataWrite (deleteBody.delBlocks hs errs) := by
  induction hs generalizing errs with
  | nil => unfold deleteBody.delBlocks; nhwops
  | cons h hs ih =>
    unfold deleteBody.delBlocks
    nhwops [ih]

theorem deleteBody_nhw (strict : Bool) (D : List Nat) (o : DeleteOpts) (held : Option Nat) :
    Prog.AllOps NoDataWrite (deleteBody strict D o held) := by
  unfold deleteBody
  have h1 : Prog.AllOps NoDataWrite listBandIds := AllOps.ro_ndw _root_.Conserve.listBandIds_ro
  have h2 := fun bs => AllOps.ro_ndw (referencedBlocks_ro strict bs)
  have h3 : Prog.AllOps NoDataWrite listBlocks := AllOps.ro_ndw _root_.Conserve.listBlocks_ro
  have h4 := fun hs => AllOps.ro_ndw (deleteBody_measure_ro hs)
  have h5 := AllOps.ro_ndw (gcLockCheck_ro held)
  have h6 := gcLockRelease_nhw
  nhwops [h2, h4, delBands_nhw, delBlocks_nhw]

/-- `delete_bands` never writes an index hunk. -/
theorem deleteBands_nhw (strict : Bool) (D : List Nat) (o : DeleteOpts) :
    Prog.AllOps NoDataWrite (deleteBands strict D o) := by
  unfold deleteBands
  have h1 := gcLockNew_nhw
  have h2 := gcBreakLock_nhw
  have h3 := gcLockDrop_nhw
  have h3' := gcLockReleaseOnError_nhw
  nhwops [deleteBody_nhw]

/-- **`delete_bands` keeps `IRS` in every world** (it only removes, and writes the lock). -/
theorem delete_irs (strict : Bool) (D : List Nat) (o : DeleteOpts) (w : World) (h : IRS w.store) :
    IRS ((deleteBands strict D o).run w).2.store :=
  specIRS.run (AllOps.ndw_good (deleteBands_nhw strict D o)) w h

theorem delete_ir (strict : Bool) (D : List Nat) (o : DeleteOpts) (w : World)
    (h : entriesInRange w.store = true) : entriesInRange ((deleteBands strict D o).run w).2.store = true :=
  specIR.run ((AllOps.ndw_good (deleteBands_nhw strict D o)).mono fun _ h => h.1) w h

end Conserve.Rng
