import ConserveModel.Proofs.CleanWorldDel
/-
`deleteBands` in a fault-free, crash-free world, step by step, as pure functions of the store.
Helper lemmas for Props/C05.lean.
-/
set_option linter.unusedSimpArgs false
namespace Conserve
open Prog

/-! ### Taking the gc lock -/

/-- `gcLockNew` after the newest-band check. -/
def lockTail (last : Option Nat) : Prog (Option Nat) :=
  (unwrapOr (isFile .gcLock) true).bind fun l =>
    if l = true then .fail .gcLockHeld
    else (performUnit (.write .gcLock .lock .createNew)).bind fun _ => .ret last

theorem gcLockNew_eq :
    gcLockNew = lastBandId.bind fun last =>
      match last with
      | some b => (bandIsClosed b).bind fun c =>
          if (!c) = true then .fail (.deleteWithIncompleteBackup b) else lockTail last
      | none => lockTail last := by
  simp only [gcLockNew, bind_def, pure_def, fail_bind, ret_bind, lockTail]
  rfl

def lockTailOutcome (s : Store) (last : Option Nat) : Outcome (Option Nat) × Store :=
  if fileAt s .gcLock then (.err .gcLockHeld, s)
  else match s.get? .gcLock with
    | none => (.ok last, s.put .gcLock .lock)
    | some _ => (.err (.transport .other), s)

/-- Outcome and final store of `gcLockNew`. -/
def lockOutcome (s : Store) : Outcome (Option Nat) × Store :=
  match maxNat? (bandIdsOf s) with
  | some b => if !isComplete s b then (.err (.deleteWithIncompleteBackup b), s)
              else lockTailOutcome s (some b)
  | none => lockTailOutcome s none

theorem lockTail_runs {s : Store} (hroot : s.get? .root = some .dir) (last : Option Nat) :
    ∀ w : World, w.Quiet → w.store = s →
      Runs (lockTail last) w (lockTailOutcome s last).1 (lockTailOutcome s last).2 [] := by
  intro w hq hs
  simp only [lockTail, unwrapOr, bind_def, pure_def]
  have h1 := (hs ▸ isFile_runs hq .gcLock : Runs (isFile .gcLock) w (.ok (fileAt s .gcLock)) s [])
  refine Runs.bind_ok0 (Runs.bind_ok0 (Runs.attempt_ok h1) fun w1 hn => Runs.ret' hn _) fun w2 hn2 => ?_
  simp only [lockTailOutcome]
  cases hf : fileAt s .gcLock with
  | true => simpa using Runs.fail' hn2 _
  | false =>
    simp only [Bool.false_eq_true, if_false, performUnit, perform, bind_def, op_bind, ret_bind]
    cases hg : s.get? .gcLock with
    | none =>
      refine Runs.op_write_ok hn2.quiet ?_ (by rw [hn2.store]; exact hg) fun w3 hn3 => ?_
      · simp [Store.parentOk, Key.parent, hn2.store, hroot]
      · rw [hn2.store] at hn3
        exact Runs.ret' hn3 _
    | some v =>
      have hv : v = .dir := by
        simp only [fileAt, hg] at hf
        cases v <;> simp [FileVal.isDir] at hf ⊢
      subst hv
      refine Runs.op_write_err (e := .other) hn2.quiet ?_ fun w3 hn3 => ?_
      · simp [applyOp, Store.parentOk, Key.parent, hn2.store, hroot, hg]
      · rw [hn2.store] at hn3
        exact Runs.fail' hn3 _

theorem gcLockNew_runs {s : Store} (hroot : s.get? .root = some .dir) :
    ∀ w : World, w.Quiet → w.store = s → Runs gcLockNew w (lockOutcome s).1 (lockOutcome s).2 [] := by
  intro w hq hs
  rw [gcLockNew_eq]
  have h1 := (hs ▸ lastBandId_runs hq (hs ▸ hroot) :
    Runs lastBandId w (.ok (maxNat? (bandIdsOf s))) s [])
  refine Runs.bind_ok0 h1 fun w1 hn => ?_
  simp only [lockOutcome]
  cases maxNat? (bandIdsOf s) with
  | none => exact lockTail_runs hroot none w1 hn.quiet hn.store
  | some b =>
    have h2 := (hn.store ▸ bandIsClosed_runs hn.quiet b :
      Runs (bandIsClosed b) w1 (.ok (isComplete s b)) s [])
    refine Runs.bind_ok0 h2 fun w2 hn2 => ?_
    cases hc : isComplete s b with
    | false => simpa [hc] using Runs.fail' hn2 _
    | true => simpa [hc] using lockTail_runs hroot (some b) w2 hn2.quiet hn2.store

/-- Outcome and final store of `gcBreakLock`. -/
def breakOutcome (s : Store) : Outcome (Option Nat) × Store :=
  if fileAt s .gcLock then lockOutcome (s.erase .gcLock) else lockOutcome s

theorem removeFile_resp_of_file {s : Store} {k : Key} (h : fileAt s k = true) :
    applyOp ecn s (.removeFile k) = (s.erase k, .unit) := by
  simp only [fileAt] at h
  simp only [applyOp]
  cases hg : s.get? k with
  | none => simp [hg] at h
  | some v => cases v <;> simp_all [FileVal.isDir]

theorem gcBreakLock_runs {s : Store} (hroot : s.get? .root = some .dir) :
    ∀ w : World, w.Quiet → w.store = s → Runs gcBreakLock w (breakOutcome s).1 (breakOutcome s).2 [] := by
  intro w hq hs
  simp only [gcBreakLock, bind_def, pure_def]
  have h1 := (hs ▸ gcIsLocked_runs hq : Runs gcIsLocked w (.ok (fileAt s .gcLock)) s [])
  refine Runs.bind_ok0 h1 fun w1 hn => ?_
  simp only [breakOutcome]
  cases hf : fileAt s .gcLock with
  | false => simpa using gcLockNew_runs hroot w1 hn.quiet hn.store
  | true =>
    simp only [if_true, performUnit, perform, bind_def, op_bind, ret_bind]
    refine Runs.op_mut hn.quiet rfl (by intro _ _ _ h; cases h) fun w2 hn2 => ?_
    rw [hn.store, removeFile_resp_of_file hf] at hn2 ⊢
    have hroot' : (s.erase .gcLock).get? .root = some .dir := by
      rw [Store.get?_erase_ne _ (by decide)]; exact hroot
    simpa using gcLockNew_runs hroot' w2 hn2.quiet hn2.store

/-! ### `referencedBlocks` (strict) -/

/-- Entries of the listed hunks of band `b` that decode. -/
def hunkEntriesOf (s : Store) (b : Nat) (ns : List Nat) : List IndexEntry :=
  ns.flatMap fun n => (hunkAt s b n).getD []

/-- Hashes named by the listed hunks of band `b`. -/
def bandRefHashes (s : Store) (b : Nat) : List Str :=
  (hunkEntriesOf s b (hunksListed s b)).flatMap fun e => e.addrs.map (·.hash)

/-- What `referenced_blocks` returns on bands whose hunks all decode. -/
def refsOf (s : Store) : List Nat → List Str
  | [] => []
  | b :: bs => dedupStr (bandRefHashes s b ++ refsOf s bs)

theorem mem_dedupStr {h : Str} {l : List Str} : h ∈ dedupStr l ↔ h ∈ l := by
  induction l with
  | nil => simp [dedupStr]
  | cons x xs ih =>
    simp only [dedupStr]
    split
    · rename_i hc
      have hx : x ∈ xs := by simpa using hc
      rw [ih, List.mem_cons]
      constructor
      · exact Or.inr
      · rintro (rfl | h1)
        · exact hx
        · exact h1
    · simp [ih]

theorem mem_refsOf {s : Store} {h : Str} {bs : List Nat} :
    h ∈ refsOf s bs ↔ ∃ b ∈ bs, h ∈ bandRefHashes s b := by
  induction bs with
  | nil => simp [refsOf]
  | cons b bs ih => simp [refsOf, mem_dedupStr, ih]

theorem bandHunkEntries_runs {s : Store} (b : Nat) (ns : List Nat)
    (hdec : ∀ n ∈ ns, hunkUsable s b n = true) :
    ∀ w : World, w.Quiet → w.store = s →
      Runs (bandHunkEntries true b ns) w (.ok (hunkEntriesOf s b ns)) s [] := by
  induction ns with
  | nil =>
    intro w hq hs
    simpa [bandHunkEntries, hunkEntriesOf, hs] using Runs.ret hq ([] : List IndexEntry)
  | cons n ns ih =>
    intro w hq hs
    simp only [bandHunkEntries, bind_def, pure_def]
    have h1 : Runs (readHunk b n) w (.ok (some ((hunkAt s b n).getD []))) s [] := by
      have := hs ▸ readHunk_runs hq b n
      rwa [readHunkOutcome_of_usable (hdec n (List.mem_cons_self ..))] at this
    refine Runs.bind_ok0 (Runs.attempt_ok h1) fun w1 hn => ?_
    simp only
    refine Runs.bind_ok0 (ih (fun m hm => hdec m (List.mem_cons_of_mem _ hm)) w1 hn.quiet hn.store)
      fun w2 hn2 => ?_
    have := Runs.ret' hn2 ((hunkAt s b n).getD [] ++ hunkEntriesOf s b ns)
    simpa [hunkEntriesOf] using this

/-- The bands `referenced_blocks` has to read can be read: accepted head, index directory in
place, every listed hunk file is readable (`hunkUsable`: decodes with all entries passing
`IndexEntry::check`, or zero-length). -/
structure BandReadable (s : Store) (b : Nat) : Prop where
  head : headReadable s b = true
  index : s.get? (.indexDir b) = some .dir
  hunks : ∀ n ∈ hunksListed s b, hunkUsable s b n = true

theorem referencedBlocks_runs {s : Store} (hn : UniqueKeys s) (bs : List Nat)
    (hb : ∀ b ∈ bs, BandReadable s b) :
    ∀ w : World, w.Quiet → w.store = s → Runs (referencedBlocks true bs) w (.ok (refsOf s bs)) s [] := by
  induction bs with
  | nil =>
    intro w hq hs
    simpa [referencedBlocks, refsOf, hs] using Runs.ret hq ([] : List Str)
  | cons b bs ih =>
    intro w hq hs
    have hbr := hb b (List.mem_cons_self ..)
    simp only [referencedBlocks, bind_def, pure_def, if_true]
    have h1 : Runs (bandOpen b) w (.ok ()) s [] := by
      have := hs ▸ bandOpen_runs hq b
      rwa [headOutcome_of_readable hbr.head] at this
    refine Runs.bind_ok0 h1 fun w1 hn1 => ?_
    have h2 : Runs (hunksAvailable b) w1 (.ok (hunksListed s b)) s [] := by
      have := hunksAvailable_runs hn1.quiet b (by rw [hn1.store]; exact hbr.index)
        (by rw [hn1.store]; exact hunkDirs_are_dirs hn b)
      rwa [hn1.store] at this
    refine Runs.bind_ok0 h2 fun w2 hn2 => ?_
    refine Runs.bind_ok0 (bandHunkEntries_runs b _ hbr.hunks w2 hn2.quiet hn2.store) fun w3 hn3 => ?_
    refine Runs.bind_ok0 (ih (fun b' hb' => hb b' (List.mem_cons_of_mem _ hb')) w3 hn3.quiet hn3.store)
      fun w4 hn4 => ?_
    exact Runs.ret' hn4 _

/-! ### The loops of `deleteBody` -/

theorem measure_runs {s : Store} (hs' : List Str) (hp : ∀ h ∈ hs', (s.get? (.block h)).isSome = true) :
    ∀ w : World, w.Quiet → w.store = s → Runs (deleteBody.measure hs') w (.ok ()) s [] := by
  induction hs' with
  | nil =>
    intro w hq hs
    simpa [deleteBody.measure, hs] using Runs.ret hq ()
  | cons h hs' ih =>
    intro w hq hs
    simp only [deleteBody.measure, perform, bind_def, op_bind, ret_bind]
    refine Runs.op_ro hq rfl fun w1 hn => ?_
    obtain ⟨v, hv⟩ := Option.isSome_iff_exists.1 (hp h (List.mem_cons_self ..))
    simp only [roResp, statResp, hs, hv]
    rw [hs] at hn
    exact ih (fun h' hh' => hp h' (List.mem_cons_of_mem _ hh')) w1 hn.quiet hn.store

theorem gcLockCheck_runs {s : Store} (hroot : s.get? .root = some .dir) :
    ∀ w : World, w.Quiet → w.store = s →
      Runs (gcLockCheck (maxNat? (bandIdsOf s))) w (.ok ()) s [] := by
  intro w hq hs
  simp only [gcLockCheck, bind_def, pure_def]
  have h1 := (hs ▸ lastBandId_runs hq (hs ▸ hroot) :
    Runs lastBandId w (.ok (maxNat? (bandIdsOf s))) s [])
  refine Runs.bind_ok0 h1 fun w1 hn => ?_
  simpa using Runs.ret' hn ()

/-- The store after `Band::delete` of every band in `D`. -/
def eraseBands (s : Store) (D : List Nat) : Store := D.foldl (fun s b => s.eraseTree (.bandDir b)) s

/-- The store after `delete_block` of every hash in `hs`. -/
def eraseBlocks (s : Store) (hs : List Str) : Store := hs.foldl (fun s h => s.erase (.block h)) s

theorem isUnder_bandDir_bandDir (b b' : Nat) : Key.isUnder (.bandDir b) (.bandDir b') = (b' == b) := by
  rw [Bool.eq_iff_iff]
  by_cases h : b' = b <;> simp [Key.isUnder, Key.parent, h]

theorem delBands_runs (D : List Nat) :
    ∀ (s : Store) (n : Nat), D.Nodup → (∀ b ∈ D, (s.get? (.bandDir b)).isSome = true) →
    ∀ w : World, w.Quiet → w.store = s →
      Runs (deleteBody.delBands D n) w (.ok (n + D.length)) (eraseBands s D) [] := by
  induction D with
  | nil =>
    intro s n _ _ w hq hs
    simpa [deleteBody.delBands, eraseBands, hs] using Runs.ret hq n
  | cons b D ih =>
    intro s n hnd hex w hq hs
    simp only [deleteBody.delBands, bandDelete, perform, bind_def, op_bind, ret_bind]
    refine Runs.op_mut hq rfl (by intro _ _ _ h; cases h) fun w1 hn => ?_
    obtain ⟨v, hv⟩ := Option.isSome_iff_exists.1 (hex b (List.mem_cons_self ..))
    have hap : applyOp w.enforceCreateNew w.store (.removeDirAll (.bandDir b)) =
        (s.eraseTree (.bandDir b), .unit) := by simp [applyOp, hs, hv]
    rw [hap] at hn ⊢
    simp only
    rw [List.nodup_cons] at hnd
    have := ih (s.eraseTree (.bandDir b)) (n + 1) hnd.2 (by
      intro b' hb'
      rw [Store.get?_eraseTree, isUnder_bandDir_bandDir]
      have : b' ≠ b := fun h => hnd.1 (h ▸ hb')
      simpa [this] using hex b' (List.mem_cons_of_mem _ hb')) w1 hn.quiet hn.store
    refine this.congr ?_ rfl rfl
    simp only [List.length_cons]
    congr 1
    omega

theorem delBlocks_runs (hs' : List Str) :
    ∀ (s : Store) (errs : Nat), hs'.Nodup → (∀ h ∈ hs', fileAt s (.block h) = true) →
    ∀ w : World, w.Quiet → w.store = s →
      Runs (deleteBody.delBlocks hs' errs) w (.ok errs) (eraseBlocks s hs') [] := by
  induction hs' with
  | nil =>
    intro s errs _ _ w hq hs
    simpa [deleteBody.delBlocks, eraseBlocks, hs] using Runs.ret hq errs
  | cons h hs' ih =>
    intro s errs hnd hf w hq hs
    simp only [deleteBody.delBlocks, perform, bind_def, op_bind, ret_bind]
    refine Runs.op_mut hq rfl (by intro _ _ _ h; cases h) fun w1 hn => ?_
    rw [hs, removeFile_resp_of_file (hf h (List.mem_cons_self ..))] at hn ⊢
    simp only
    rw [List.nodup_cons] at hnd
    exact ih (s.erase (.block h)) errs hnd.2 (by
      intro h' hh'
      have : h' ≠ h := fun e => hnd.1 (e ▸ hh')
      simp only [fileAt, Store.get?_erase_ne s (show Key.block h' ≠ Key.block h by simpa using this)]
      exact hf h' (List.mem_cons_of_mem _ hh')) w1 hn.quiet hn.store

theorem gcLockRelease_runs {s : Store} (hl : fileAt s .gcLock = true) :
    ∀ w : World, w.Quiet → w.store = s → Runs gcLockRelease w (.ok ()) (s.erase .gcLock) [] := by
  intro w hq hs
  simp only [gcLockRelease, performUnit, perform, bind_def, op_bind, ret_bind]
  refine Runs.op_mut hq rfl (by intro _ _ _ h; cases h) fun w1 hn => ?_
  rw [hs, removeFile_resp_of_file hl] at hn ⊢
  exact Runs.ret' hn ()

/-! ### The stores after the removals, as filters -/

/-- Is `k` the directory of a band in `D`, or below it? -/
def underAny (D : List Nat) (k : Key) : Bool := D.any fun b => Key.isUnder (.bandDir b) k

/-- Is `k` the block file of a hash in `hs`? -/
def blockIn (hs : List Str) : Key → Bool
  | .block h => hs.contains h
  | _ => false

theorem eraseBands_eq_filter (D : List Nat) (s : Store) :
    eraseBands s D = s.filter fun kv => !underAny D kv.1 := by
  induction D generalizing s with
  | nil =>
    simp only [eraseBands, underAny, List.foldl_nil, List.any_nil, Bool.not_false]
    exact (List.filter_eq_self.2 fun _ _ => rfl).symm
  | cons b D ih =>
    have : eraseBands s (b :: D) = eraseBands (s.eraseTree (.bandDir b)) D := rfl
    rw [this, ih, Store.eraseTree, List.filter_filter]
    congr 1
    funext kv
    simp [underAny, Bool.and_comm]

theorem eraseBlocks_eq_filter (hs : List Str) (s : Store) :
    eraseBlocks s hs = s.filter fun kv => !blockIn hs kv.1 := by
  induction hs generalizing s with
  | nil =>
    simp only [eraseBlocks, List.foldl_nil]
    symm
    rw [List.filter_eq_self]
    intro kv _
    cases h : kv.1 <;> simp [blockIn]
  | cons h hs ih =>
    have : eraseBlocks s (h :: hs) = eraseBlocks (s.erase (.block h)) hs := rfl
    rw [this, ih, Store.erase, List.filter_filter]
    congr 1
    funext kv
    cases hk : kv.1 with
    | block h' =>
      by_cases e : h' = h
      · subst e; simp [blockIn, hk]
      · have e' : (h' == h) = false := by simpa using e
        simp [blockIn, hk, e, e', List.contains_cons]
    | _ => simp [blockIn, hk]

theorem get?_eraseBands (s : Store) (D : List Nat) (k : Key) :
    (eraseBands s D).get? k = if underAny D k then none else s.get? k := by
  rw [eraseBands_eq_filter, Store.get?_filter_key (fun k => !underAny D k)]
  cases underAny D k <;> simp

theorem get?_eraseBlocks (s : Store) (hs : List Str) (k : Key) :
    (eraseBlocks s hs).get? k = if blockIn hs k then none else s.get? k := by
  rw [eraseBlocks_eq_filter, Store.get?_filter_key (fun k => !blockIn hs k)]
  cases blockIn hs k <;> simp

@[simp] theorem underAny_block (D : List Nat) (h : Str) : underAny D (.block h) = false := by
  simp [underAny, Key.isUnder, Key.parent]

@[simp] theorem underAny_gcLock (D : List Nat) : underAny D .gcLock = false := by
  simp [underAny, Key.isUnder, Key.parent]

/-! ### `deleteBody` and `deleteBands` -/

/-- Versions that stay: existing band directories not in `D`. -/
def keptOf (s : Store) (D : List Nat) : List Nat := (bandIdsOf s).filter fun b => !D.contains b

/-- The blocks `delete_bands` finds unreferenced (in the order it removes them). -/
def unrefOf (s : Store) (D : List Nat) : List Str :=
  ((blockNamesOf s).filter fun h => !(refsOf s (keptOf s D)).contains h).mergeSort strLe

theorem mem_unrefOf {s : Store} {D : List Nat} {h : Str} :
    h ∈ unrefOf s D ↔ h ∈ blockNamesOf s ∧ h ∉ refsOf s (keptOf s D) := by
  simp [unrefOf, List.mem_mergeSort]

theorem nodup_unrefOf {s : Store} (hn : UniqueKeys s) (D : List Nat) : (unrefOf s D).Nodup := by
  rw [unrefOf, (List.mergeSort_perm _ _).nodup_iff]
  exact List.Nodup.sublist List.filter_sublist (nodup_blockNamesOf hn)

theorem blockNamesOf_file {s : Store} (hn : UniqueKeys s) {h : Str} (hm : h ∈ blockNamesOf s) :
    fileAt s (.block h) = true := by
  simp only [blockNamesOf, mem_blockNamesFrom, List.not_mem_nil, false_or, mem_blocksInDir] at hm
  obtain ⟨p, _, _, v, hv, h1, _⟩ := hm
  simp [fileAt, Store.get?_of_mem_unique hn hv, h1]

/-- What the store must satisfy while the lock is held for `deleteBody` to run through. -/
structure BodyOK (s : Store) (D : List Nat) : Prop where
  nodup : UniqueKeys s
  root : s.get? .root = some .dir
  blockRoot : s.get? .blockRoot = some .dir
  kept : ∀ b ∈ keptOf s D, BandReadable s b
  lock : fileAt s .gcLock = true

/-- Statistics of a dry run. -/
def dryStats (s : Store) (D : List Nat) : DeleteStats := { unreferencedBlockCount := (unrefOf s D).length }

/-- Statistics of a real run in which nothing fails. -/
def realStats (s : Store) (D : List Nat) : DeleteStats :=
  { unreferencedBlockCount := (unrefOf s D).length, deletedBandCount := D.length,
    deletedBlockCount := (unrefOf s D).length, deletionErrors := 0 }

theorem deleteBody_prefix_runs {s : Store} {D : List Nat} (ok : BodyOK s D) {β : Type}
    (k : List Str → Prog β) {out : Outcome β} {s' : Store}
    (hk : ∀ w : World, w.Quiet → w.store = s → Runs (k (unrefOf s D)) w out s' []) :
    ∀ w : World, w.Quiet → w.store = s →
      Runs (listBandIds.bind fun all =>
        (referencedBlocks true (List.filter (fun b => !D.contains b) all)).bind fun referenced =>
          listBlocks.bind fun present =>
            (deleteBody.measure ((List.filter (fun h => !referenced.contains h) present).mergeSort strLe)).bind
              fun _ => k ((List.filter (fun h => !referenced.contains h) present).mergeSort strLe))
        w out s' [] := by
  intro w hq hs
  have h1 := (hs ▸ listBandIds_runs hq (hs ▸ ok.root) : Runs listBandIds w (.ok (bandIdsOf s)) s [])
  refine Runs.bind_ok0 h1 fun w1 hn1 => ?_
  refine Runs.bind_ok0 (referencedBlocks_runs ok.nodup _ ok.kept w1 hn1.quiet hn1.store) fun w2 hn2 => ?_
  have h3 : Runs listBlocks w2 (.ok (blockNamesOf s)) s [] := by
    have := listBlocks_runs hn2.quiet (by rw [hn2.store]; exact ok.blockRoot)
      (by rw [hn2.store]; exact blockSubdirs_are_dirs ok.nodup)
    rwa [hn2.store] at this
  refine Runs.bind_ok0 h3 fun w3 hn3 => ?_
  have h4 : Runs (deleteBody.measure (unrefOf s D)) w3 (.ok ()) s [] := by
    refine measure_runs _ ?_ w3 hn3.quiet hn3.store
    intro h hh
    have := blockNamesOf_file ok.nodup (mem_unrefOf.1 hh).1
    simp only [fileAt] at this
    cases hg : s.get? (.block h) <;> simp_all
  refine Runs.bind_ok0 h4 fun w4 hn4 => ?_
  exact hk w4 hn4.quiet hn4.store

/-- A dry run while the lock is held: statistics only, then the lock is released. -/
theorem deleteBody_dry_runs {s : Store} {D : List Nat} (ok : BodyOK s D) (o : DeleteOpts)
    (hdry : o.dryRun = true) (held : Option Nat) :
    ∀ w : World, w.Quiet → w.store = s →
      Runs (deleteBody true D o held) w (.ok (dryStats s D)) (s.erase .gcLock) [] := by
  intro w hq hs
  simp only [deleteBody, bind_def, pure_def, hdry, if_true, ret_bind]
  refine deleteBody_prefix_runs ok
    (fun u => gcLockRelease.bind fun _ => ret ({ unreferencedBlockCount := u.length } : DeleteStats))
    (fun w1 hq1 hs1 => ?_) w hq hs
  refine Runs.bind_ok0 (gcLockRelease_runs ok.lock w1 hq1 hs1) fun w2 hn2 => ?_
  exact Runs.ret' hn2 _

/-- The store after a real run: bands of `D` gone, unreferenced blocks gone, lock released. -/
def afterDelete (s : Store) (D : List Nat) : Store :=
  (eraseBlocks (eraseBands s D) (unrefOf s D)).erase .gcLock

theorem deleteBody_real_runs {s : Store} {D : List Nat} (ok : BodyOK s D) (o : DeleteOpts)
    (hdry : o.dryRun = false) (hnd : D.Nodup) (hex : ∀ b ∈ D, (s.get? (.bandDir b)).isSome = true) :
    ∀ w : World, w.Quiet → w.store = s →
      Runs (deleteBody true D o (maxNat? (bandIdsOf s))) w (.ok (realStats s D)) (afterDelete s D) [] := by
  intro w hq hs
  simp only [deleteBody, bind_def, pure_def, hdry, Bool.false_eq_true, if_false, ret_bind]
  refine deleteBody_prefix_runs ok
    (fun u => (gcLockCheck (maxNat? (bandIdsOf s))).bind fun _ =>
      (deleteBody.delBands D 0).bind fun nb =>
        (deleteBody.delBlocks u 0).bind fun errs =>
          gcLockRelease.bind fun _ =>
            ret ({ unreferencedBlockCount := u.length, deletedBandCount := nb,
                   deletedBlockCount := u.length - errs, deletionErrors := errs } : DeleteStats))
    (fun w1 hq1 hs1 => ?_) w hq hs
  refine Runs.bind_ok0 (gcLockCheck_runs ok.root w1 hq1 hs1) fun w2 hn2 => ?_
  refine Runs.bind_ok0 (delBands_runs D s 0 hnd hex w2 hn2.quiet hn2.store) fun w3 hn3 => ?_
  have hfile : ∀ h ∈ unrefOf s D, fileAt (eraseBands s D) (.block h) = true := by
    intro h hh
    simp only [fileAt, get?_eraseBands, underAny_block, Bool.false_eq_true, if_false]
    exact blockNamesOf_file ok.nodup (mem_unrefOf.1 hh).1
  refine Runs.bind_ok0 (delBlocks_runs _ _ 0 (nodup_unrefOf ok.nodup D) hfile w3 hn3.quiet hn3.store)
    fun w4 hn4 => ?_
  have hlock : fileAt (eraseBlocks (eraseBands s D) (unrefOf s D)) .gcLock = true := by
    simp only [fileAt, get?_eraseBlocks, blockIn, get?_eraseBands, underAny_gcLock, Bool.false_eq_true,
      if_false]
    exact ok.lock
  refine Runs.bind_ok0 (gcLockRelease_runs hlock w4 hn4.quiet hn4.store) fun w5 hn5 => ?_
  have := Runs.ret' hn5 (realStats s D)
  simpa [realStats, afterDelete] using this

/-! ### The lock file does not matter to what `deleteBody` computes -/

theorem put_lock_eq {s : Store} (h : s.get? .gcLock = none) (v : FileVal) :
    s.put .gcLock v = s ++ [(.gcLock, v)] := by
  rw [Store.put, Store.erase_absent s _ h]

section lockfile
variable (s : Store) (v : FileVal)

theorem bandIdsOf_lock : bandIdsOf (s ++ [(.gcLock, v)]) = bandIdsOf s := by
  simp [bandIdsOf, List.filterMap_append]

theorem hunkDirsOf_lock (b : Nat) : hunkDirsOf (s ++ [(.gcLock, v)]) b = hunkDirsOf s b := by
  simp [hunkDirsOf, List.filterMap_append]

theorem hunksInDir_lock (b d : Nat) : hunksInDir (s ++ [(.gcLock, v)]) b d = hunksInDir s b d := by
  simp [hunksInDir, List.filterMap_append]

theorem hunksListed_lock (b : Nat) : hunksListed (s ++ [(.gcLock, v)]) b = hunksListed s b := by
  simp only [hunksListed, hunkDirsOf_lock]
  congr 1
  funext d
  exact hunksInDir_lock s v b d

theorem get?_lock {k : Key} (hk : k ≠ .gcLock) : Store.get? (s ++ [(.gcLock, v)]) k = s.get? k := by
  rw [Store.get?_append]
  have : Store.get? [(Key.gcLock, v)] k = none := by
    have hb : (k == Key.gcLock) = false := by simpa using hk
    simp [Store.get?, List.lookup, hb]
  rw [this]
  cases s.get? k <;> rfl

theorem hunkUsable_lock (b n : Nat) : hunkUsable (s ++ [(.gcLock, v)]) b n = hunkUsable s b n := by
  simp only [hunkUsable, get?_lock s v (show Key.hunk b n ≠ .gcLock by simp)]

theorem hunkAt_lock (b n : Nat) : hunkAt (s ++ [(.gcLock, v)]) b n = hunkAt s b n := by
  simp only [hunkAt, get?_lock s v (show Key.hunk b n ≠ .gcLock by simp)]

theorem blockSubdirsOf_lock : blockSubdirsOf (s ++ [(.gcLock, v)]) = blockSubdirsOf s := by
  simp [blockSubdirsOf, List.filterMap_append]

theorem blocksInDir_lock (p : Str) : blocksInDir (s ++ [(.gcLock, v)]) p = blocksInDir s p := by
  simp [blocksInDir, List.filterMap_append]

theorem blockNamesFrom_lock (ps : List Str) :
    ∀ acc, blockNamesFrom (s ++ [(.gcLock, v)]) ps acc = blockNamesFrom s ps acc := by
  induction ps with
  | nil => intro acc; rfl
  | cons p ps ih => intro acc; simp only [blockNamesFrom, blocksInDir_lock, ih]

theorem blockNamesOf_lock : blockNamesOf (s ++ [(.gcLock, v)]) = blockNamesOf s := by
  simp only [blockNamesOf, blockSubdirsOf_lock, blockNamesFrom_lock]

theorem bandRefs_lock (b : Nat) : bandRefHashes (s ++ [(.gcLock, v)]) b = bandRefHashes s b := by
  simp only [bandRefHashes, hunkEntriesOf, hunksListed_lock, hunkAt_lock]

theorem refsOf_lock (bs : List Nat) : refsOf (s ++ [(.gcLock, v)]) bs = refsOf s bs := by
  induction bs with
  | nil => rfl
  | cons b bs ih => simp only [refsOf, bandRefs_lock, ih]

theorem keptOf_lock (D : List Nat) : keptOf (s ++ [(.gcLock, v)]) D = keptOf s D := by
  simp only [keptOf, bandIdsOf_lock]

theorem unrefOf_lock (D : List Nat) : unrefOf (s ++ [(.gcLock, v)]) D = unrefOf s D := by
  simp only [unrefOf, blockNamesOf_lock, refsOf_lock, keptOf_lock]

theorem bandReadable_lock {b : Nat} (h : BandReadable s b) : BandReadable (s ++ [(.gcLock, v)]) b := by
  refine ⟨?_, ?_, ?_⟩
  · simpa only [headReadable, get?_lock s v (show Key.bandHead b ≠ .gcLock by simp)] using h.head
  · rw [get?_lock s v (by simp)]; exact h.index
  · simpa only [hunksListed_lock, hunkUsable_lock] using h.hunks

end lockfile

theorem no_lock_entry {s : Store} (h : s.get? .gcLock = none) : ∀ kv ∈ s, kv.1 ≠ .gcLock := by
  intro kv hm hk
  obtain ⟨k, v⟩ := kv
  simp only at hk
  subst hk
  induction s with
  | nil => simp at hm
  | cons kv' s ih =>
    obtain ⟨k', v'⟩ := kv'
    simp only [Store.get?, List.lookup_cons] at h
    by_cases hk : Key.gcLock = k'
    · subst hk; simp at h
    · have hb : (Key.gcLock == k') = false := by simpa using hk
      simp only [hb] at h
      rcases List.mem_cons.1 hm with e | e
      · cases e; exact hk rfl
      · exact ih h e

theorem uniqueKeys_lock {s : Store} (hn : UniqueKeys s) (h : s.get? .gcLock = none) (v : FileVal) :
    UniqueKeys (s ++ [(.gcLock, v)]) := by
  rw [UniqueKeys, List.pairwise_append]
  refine ⟨hn, List.pairwise_singleton _ _, ?_⟩
  intro a ha b hb
  simp only [List.mem_singleton] at hb
  subst hb
  exact no_lock_entry h a ha

/-- Does key `k` survive `delete_bands D` on store `s`? -/
def survives (s : Store) (D : List Nat) (k : Key) : Bool :=
  !underAny D k && !blockIn (unrefOf s D) k

/-- The archive after deleting the versions `D` and collecting garbage. -/
def deleted (s : Store) (D : List Nat) : Store := s.filter fun kv => survives s D kv.1

theorem afterDelete_lock {s : Store} (h : s.get? .gcLock = none) (D : List Nat) (v : FileVal) :
    afterDelete (s ++ [(.gcLock, v)]) D = deleted s D := by
  simp only [afterDelete, unrefOf_lock, eraseBands_eq_filter, eraseBlocks_eq_filter, Store.erase,
    List.filter_filter, List.filter_append, deleted, survives]
  have h1 : List.filter (fun a => a.1 != Key.gcLock && (!blockIn (unrefOf s D) a.1 && !underAny D a.1))
      [(Key.gcLock, v)] = [] := by simp
  rw [h1, List.append_nil]
  apply List.filter_congr
  intro kv hm
  have : (kv.1 != Key.gcLock) = true := by simpa using no_lock_entry h kv hm
  simp [this, Bool.and_comm]

/-! ### `deleteBands` -/

/-- Taking the lock, the way `delete_bands` does. -/
def acquire (o : DeleteOpts) : Prog (Option Nat) := if o.breakLock then gcBreakLock else gcLockNew

def acquireOutcome (o : DeleteOpts) (s : Store) : Outcome (Option Nat) × Store :=
  if o.breakLock then breakOutcome s else lockOutcome s

/-- `delete_bands` once the lock is held. -/
def withLock (strict : Bool) (D : List Nat) (o : DeleteOpts) (held : Option Nat) : Prog DeleteStats :=
  (deleteBody strict D o held).attemptAll.bind fun r =>
    match r with
    | .ok st => .ret st
    | .err e => gcLockReleaseOnError.bind fun _ => .fail e
    | .panic site => gcLockDrop.bind fun _ => .panic site

theorem deleteBands_eq (strict : Bool) (D : List Nat) (o : DeleteOpts) :
    deleteBands strict D o = (acquire o).bind (withLock strict D o) := by
  simp only [deleteBands, bind_def, pure_def, acquire]
  cases o.breakLock <;> rfl

theorem acquire_runs {s : Store} (hroot : s.get? .root = some .dir) (o : DeleteOpts) :
    ∀ w : World, w.Quiet → w.store = s →
      Runs (acquire o) w (acquireOutcome o s).1 (acquireOutcome o s).2 [] := by
  intro w hq hs
  simp only [acquire, acquireOutcome]
  cases o.breakLock with
  | true => simpa using gcBreakLock_runs hroot w hq hs
  | false => simpa using gcLockNew_runs hroot w hq hs

/-- If the lock cannot be taken, `delete_bands` fails with that error, having done nothing else. -/
theorem deleteBands_refuse_runs {s : Store} (hroot : s.get? .root = some .dir) (strict : Bool)
    (D : List Nat) (o : DeleteOpts) {e : Err} (he : (acquireOutcome o s).1 = .err e) :
    ∀ w : World, w.Quiet → w.store = s →
      Runs (deleteBands strict D o) w (.err e) (acquireOutcome o s).2 [] := by
  intro w hq hs
  rw [deleteBands_eq]
  have := acquire_runs hroot o w hq hs
  rw [he] at this
  exact Runs.bind_err this

theorem withLock_ok {strict : Bool} {D : List Nat} {o : DeleteOpts} {held : Option Nat} {w : World}
    {st : DeleteStats} {s2 : Store}
    (h : Runs (deleteBody strict D o held) w (.ok st) s2 []) : Runs (withLock strict D o held) w (.ok st) s2 [] := by
  refine Runs.bind_ok0 h.attemptAll fun w1 hn => ?_
  exact Runs.ret' hn _

theorem gcLockDrop_runs {s : Store} (hl : fileAt s .gcLock = true) :
    ∀ w : World, w.Quiet → w.store = s → Runs gcLockDrop w (.ok ()) (s.erase .gcLock) [] := by
  intro w hq hs
  simp only [gcLockDrop, perform, bind_def, op_bind, ret_bind, pure_def]
  refine Runs.op_mut hq rfl (by intro _ _ _ h; cases h) fun w1 hn => ?_
  rw [hs, removeFile_resp_of_file hl] at hn
  exact Runs.ret' hn ()

theorem gcLockReleaseOnError_runs {s : Store} (hl : fileAt s .gcLock = true) :
    ∀ w : World, w.Quiet → w.store = s → Runs gcLockReleaseOnError w (.ok ()) (s.erase .gcLock) [] := by
  intro w hq hs
  simp only [gcLockReleaseOnError, perform, bind_def, op_bind, ret_bind, pure_def]
  refine Runs.op_mut hq rfl (by intro _ _ _ h; cases h) fun w1 hn => ?_
  rw [hs, removeFile_resp_of_file hl] at hn ⊢
  exact Runs.ret' hn ()

theorem withLock_err {strict : Bool} {D : List Nat} {o : DeleteOpts} {held : Option Nat} {w : World}
    {e : Err} {s2 : Store} (h : Runs (deleteBody strict D o held) w (.err e) s2 [])
    (hl : fileAt s2 .gcLock = true) : Runs (withLock strict D o held) w (.err e) (s2.erase .gcLock) [] := by
  refine Runs.bind_ok0 h.attemptAll fun w1 hn => ?_
  refine Runs.bind_ok0 (gcLockReleaseOnError_runs hl w1 hn.quiet hn.store) fun w2 hn2 => ?_
  exact Runs.fail' hn2 _

/-- The newest band directory (if any) has a tail file. -/
def newestComplete (s : Store) : Prop := ∀ b, maxNat? (bandIdsOf s) = some b → isComplete s b = true

instance (s : Store) : Decidable (newestComplete s) := by
  unfold newestComplete
  cases h : maxNat? (bandIdsOf s) with
  | none => exact isTrue (by intro b hb; cases hb)
  | some b =>
    by_cases hc : isComplete s b = true
    · exact isTrue (by intro b' hb'; cases hb'; exact hc)
    · exact isFalse (fun hall => hc (hall b rfl))

theorem lockOutcome_ok {s : Store} (hfree : s.get? .gcLock = none) (hnew : newestComplete s) :
    lockOutcome s = (.ok (maxNat? (bandIdsOf s)), s ++ [(.gcLock, .lock)]) := by
  have ht : ∀ last, lockTailOutcome s last = (.ok last, s ++ [(.gcLock, .lock)]) := by
    intro last
    simp [lockTailOutcome, fileAt, hfree, put_lock_eq hfree]
  simp only [lockOutcome]
  cases hm : maxNat? (bandIdsOf s) with
  | none => exact ht none
  | some b => simp [hnew b hm, ht]

theorem acquireOutcome_ok {s : Store} (hfree : s.get? .gcLock = none) (hnew : newestComplete s)
    (o : DeleteOpts) :
    acquireOutcome o s = (.ok (maxNat? (bandIdsOf s)), s ++ [(.gcLock, .lock)]) := by
  simp only [acquireOutcome, breakOutcome, fileAt, hfree, Bool.false_eq_true, if_false]
  cases o.breakLock <;> simp [lockOutcome_ok hfree hnew]

/-- Hypotheses of the functional-correctness theorem about the archive `s` and the set `D`. -/
structure DelArchOK (s : Store) (D : List Nat) : Prop where
  nodup : UniqueKeys s
  root : s.get? .root = some .dir
  blockRoot : s.get? .blockRoot = some .dir
  kept : ∀ b ∈ keptOf s D, BandReadable s b

theorem DelArchOK.bodyOK {s : Store} {D : List Nat} (ok : DelArchOK s D) (hfree : s.get? .gcLock = none) :
    BodyOK (s ++ [(.gcLock, .lock)]) D where
  nodup := uniqueKeys_lock ok.nodup hfree _
  root := by rw [get?_lock _ _ (by simp)]; exact ok.root
  blockRoot := by rw [get?_lock _ _ (by simp)]; exact ok.blockRoot
  kept := by
    intro b hb
    rw [keptOf_lock] at hb
    exact bandReadable_lock _ _ (ok.kept b hb)
  lock := by
    have := put_lock_eq hfree .lock
    rw [← this]
    simp [fileAt, FileVal.isDir]

/-- The lock was obtained on the lock-free store `s0` (which is `s`, or `s` with a stale lock file
broken). -/
def LockTaken (o : DeleteOpts) (s s0 : Store) : Prop :=
  acquireOutcome o s = (.ok (maxNat? (bandIdsOf s0)), s0 ++ [(.gcLock, .lock)])

theorem lockTaken_free {s : Store} (hfree : s.get? .gcLock = none) (hnew : newestComplete s)
    (o : DeleteOpts) : LockTaken o s s := acquireOutcome_ok hfree hnew o

/-- Dry run: succeeds, reports the number of unreferenced blocks, and the final store is the very
same list as the lock-free store `s0`. -/
theorem deleteBands_dry_runs_gen {s s0 : Store} {D : List Nat} (ok : DelArchOK s0 D)
    (hroot : s.get? .root = some .dir) (hfree : s0.get? .gcLock = none)
    (o : DeleteOpts) (hacq : LockTaken o s s0) (hdry : o.dryRun = true) :
    ∀ w : World, w.Quiet → w.store = s → Runs (deleteBands true D o) w (.ok (dryStats s0 D)) s0 [] := by
  intro w hq hs
  rw [deleteBands_eq]
  have ha := acquire_runs hroot o w hq hs
  rw [hacq] at ha
  refine Runs.bind_ok0 ha fun w1 hn => ?_
  have hb := deleteBody_dry_runs (ok.bodyOK hfree) o hdry (maxNat? (bandIdsOf s0)) w1 hn.quiet hn.store
  have := withLock_ok hb
  refine this.congr ?_ ?_ rfl
  · simp [dryStats, unrefOf_lock]
  · rw [← put_lock_eq hfree, Store.erase_put_absent _ _ _ hfree]

theorem deleteBands_dry_runs {s : Store} {D : List Nat} (ok : DelArchOK s D) (hfree : s.get? .gcLock = none)
    (hnew : newestComplete s) (o : DeleteOpts) (hdry : o.dryRun = true) :
    ∀ w : World, w.Quiet → w.store = s → Runs (deleteBands true D o) w (.ok (dryStats s D)) s [] :=
  deleteBands_dry_runs_gen ok ok.root hfree o (lockTaken_free hfree hnew o) hdry

/-- Real run: succeeds with the expected statistics; the final store is `deleted s0 D`. -/
theorem deleteBands_real_runs_gen {s s0 : Store} {D : List Nat} (ok : DelArchOK s0 D)
    (hroot : s.get? .root = some .dir) (hfree : s0.get? .gcLock = none)
    (o : DeleteOpts) (hacq : LockTaken o s s0) (hdry : o.dryRun = false) (hnd : D.Nodup)
    (hex : ∀ b ∈ D, (s0.get? (.bandDir b)).isSome = true) :
    ∀ w : World, w.Quiet → w.store = s →
      Runs (deleteBands true D o) w (.ok (realStats s0 D)) (deleted s0 D) [] := by
  intro w hq hs
  rw [deleteBands_eq]
  have ha := acquire_runs hroot o w hq hs
  rw [hacq] at ha
  refine Runs.bind_ok0 ha fun w1 hn => ?_
  have hb := deleteBody_real_runs (ok.bodyOK hfree) o hdry hnd
    (by intro b hb; rw [get?_lock _ _ (by simp)]; exact hex b hb) w1
    hn.quiet hn.store
  rw [bandIdsOf_lock] at hb
  have := withLock_ok hb
  refine this.congr ?_ (afterDelete_lock hfree D _) rfl
  simp [realStats, unrefOf_lock]

theorem deleteBands_real_runs {s : Store} {D : List Nat} (ok : DelArchOK s D) (hfree : s.get? .gcLock = none)
    (hnew : newestComplete s) (o : DeleteOpts) (hdry : o.dryRun = false) (hnd : D.Nodup)
    (hex : ∀ b ∈ D, (s.get? (.bandDir b)).isSome = true) :
    ∀ w : World, w.Quiet → w.store = s →
      Runs (deleteBands true D o) w (.ok (realStats s D)) (deleted s D) [] :=
  deleteBands_real_runs_gen ok ok.root hfree o (lockTaken_free hfree hnew o) hdry hnd hex

end Conserve
