import ConserveModel.Glob
/-
Helper lemmas for C15, parser side: what appending "/**" to a glob does to its tokens, and
where a `RecursivePrefix` token can occur.
-/
namespace Conserve

theorem runParser_append (st : PSt) (p q : Str) :
    runParser st (p ++ q) = runParser (runParser st p) q := by
  simp [runParser, List.foldl_append]

theorem runParser_snoc (st : PSt) (p : Str) (c : Nat) :
    runParser st (p ++ [c]) = step (runParser st p) c := by
  simp [runParser, List.foldl_append]

/-- "/**" as bytes. -/
def slashStarStar : Str := [47, 42, 42]

theorem popPush_snoc_lit (toks : List Tok) (b : Nat) (s : Bool) :
    popPush (toks ++ [.lit b]) s = toks ++ [if s then .recSuffix else .recMid] := by
  simp [popPush]

/-- Appending "/**" from any parser state that would finish successfully: either a
`RecursiveSuffix` is appended to the tokens, or (the glob already ended in a `**` component) the
tokens stay as they are and end in `RecursiveSuffix`/`RecursivePrefix`. -/
theorem finish_slashStarStar (st : PSt) (ts : List Tok) (h : finish st = .ok ts) :
    finish (runParser st slashStarStar) = .ok (ts ++ [.recSuffix]) ∨
    (finish (runParser st slashStarStar) = .ok ts ∧
      (ts.getLast? = some .recSuffix ∨ ts.getLast? = some .recPrefix)) := by
  obtain ⟨toks, last, mode⟩ := st
  cases mode with
  | normal =>
    left
    simp only [finish] at h
    cases h
    simp [runParser, slashStarStar, step, stepNormal, finish, popPush_snoc_lit]
  | esc => simp [finish] at h
  | star1 =>
    left
    simp only [finish] at h
    cases h
    simp [runParser, slashStarStar, step, stepNormal, finish]
    rw [show toks ++ [Tok.star, Tok.lit 47] = (toks ++ [Tok.star]) ++ [Tok.lit 47] by simp,
      popPush_snoc_lit]
    simp
  | star2 =>
    simp only [finish] at h
    by_cases he : toks = []
    · subst he
      right
      simp at h
      cases h
      simp [runParser, slashStarStar, step, stepStar2, stepNormal, finish, popPush]
    · have he' : toks.isEmpty = false := by
        cases toks with
        | nil => exact absurd rfl he
        | cons _ _ => rfl
      rw [he'] at h
      by_cases hl : last = some 47
      · subst hl
        simp at h
        right
        obtain ⟨init, t, rfl⟩ : ∃ init t, toks = init ++ [t] := by
          rcases List.eq_nil_or_concat toks with h0 | ⟨i, t, h1⟩
          · exact absurd h0 he
          · exact ⟨i, t, by rw [h1, List.concat_eq_append]⟩
        cases t <;>
          (simp [popPush] at h; cases h;
           simp [runParser, slashStarStar, step, stepStar2, stepNormal, finish, popPush])
      · left
        simp [hl] at h
        cases h
        simp [runParser, slashStarStar, step, stepStar2, stepNormal, finish, he', hl]
        rw [show toks ++ [Tok.star, Tok.star, Tok.lit 47] = (toks ++ [Tok.star, Tok.star]) ++ [Tok.lit 47] by simp,
          popPush_snoc_lit]
        simp
  | cls cs => simp [finish] at h
  | failed e => simp [finish] at h

/-! ### `RecursivePrefix` only ever is the first token -/

/-- No `RecursivePrefix` after the first token. -/
def RPHead (toks : List Tok) : Prop := Tok.recPrefix ∉ toks.tail

theorem mem_tail_append {α} {x : α} {l m : List α} (h : x ∈ (l ++ m).tail) : x ∈ l.tail ∨ x ∈ m := by
  cases l with
  | nil => right; exact List.mem_of_mem_tail h
  | cons a l => simpa using h

theorem mem_tail_dropLast {α} {x : α} {l : List α} (h : x ∈ l.dropLast.tail) : x ∈ l.tail := by
  cases l with
  | nil => simp at h
  | cons a l =>
    cases l with
    | nil => simp at h
    | cons b l =>
      simp only [List.dropLast_cons_cons, List.tail_cons] at h ⊢
      exact (List.dropLast_sublist _).subset h

theorem RPHead_nil : RPHead [] := by simp [RPHead]

theorem RPHead_append {toks m : List Tok} (h : RPHead toks) (hm : Tok.recPrefix ∉ m) :
    RPHead (toks ++ m) := by
  intro hx
  rcases mem_tail_append hx with h1 | h1
  · exact h h1
  · exact hm h1

theorem RPHead_popPush {toks : List Tok} (h : RPHead toks) (s : Bool) : RPHead (popPush toks s) := by
  unfold popPush
  split
  · exact h
  · exact h
  · apply RPHead_append
    · intro hx; exact h (mem_tail_dropLast hx)
    · cases s <;> simp
  · exact h

theorem RPHead_stepNormal {toks : List Tok} (h : RPHead toks) (last : Option Nat) (c : Nat) :
    RPHead (stepNormal toks last c).toks := by
  unfold stepNormal
  split
  · exact RPHead_append h (by simp)
  · split
    · exact h
    · split
      · exact h
      · split
        · exact h
        · split
          · exact h
          · exact RPHead_append h (by simp)

theorem clsChar_done {st : ClsSt} {c : Str} {tok : Tok} (h : clsChar st c = .done tok) :
    ∃ neg rs, tok = .cls neg rs := by
  unfold clsChar at h
  split at h
  · cases h
  · simp only at h
    split at h
    · split at h
      · cases h
      · cases h; exact ⟨_, _, rfl⟩
    · split at h
      · split at h
        · cases h
        · split at h
          · split at h <;> cases h
          · cases h
      · split at h
        · split at h <;> cases h
        · cases h

theorem clsByte_done {st : ClsSt} {b : Nat} {tok : Tok} (h : clsByte st b = .done tok) :
    ∃ neg rs, tok = .cls neg rs := by
  unfold clsByte at h
  split at h
  · split at h
    · exact clsChar_done h
    · cases h
  · split at h
    · cases h
    · exact clsChar_done h

theorem RPHead_step {st : PSt} (h : RPHead st.toks) (c : Nat) : RPHead (step st c).toks := by
  unfold step
  split
  · exact RPHead_stepNormal h _ _
  · exact RPHead_append h (by simp)
  · split
    · exact h
    · exact RPHead_stepNormal (RPHead_append h (by simp)) _ _
  · unfold stepStar2
    split
    · split
      · simp [RPHead]
      · exact RPHead_stepNormal (RPHead_append h (by simp)) _ _
    · split
      · exact RPHead_stepNormal (RPHead_append h (by simp)) _ _
      · split
        · exact RPHead_popPush h _
        · exact RPHead_stepNormal (RPHead_append h (by simp)) _ _
  · split
    · exact h
    · rename_i tok _
      -- a class token is not a RecursivePrefix
      rename_i hd
      obtain ⟨neg, rs, rfl⟩ := clsByte_done hd
      exact RPHead_append h (by simp)
    · exact h
  · exact h

theorem RPHead_run {st : PSt} (h : RPHead st.toks) (p : Str) : RPHead (runParser st p).toks := by
  induction p generalizing st with
  | nil => exact h
  | cons c p ih => exact ih (RPHead_step h c)

theorem RPHead_finish {st : PSt} (h : RPHead st.toks) {ts : List Tok} (hf : finish st = .ok ts) :
    RPHead ts := by
  unfold finish at hf
  split at hf
  · cases hf; exact h
  · cases hf
  · cases hf; exact RPHead_append h (by simp)
  · split at hf
    · cases hf; simp [RPHead]
    · split at hf
      · cases hf; exact RPHead_append h (by simp)
      · cases hf; exact RPHead_popPush h _
  · cases hf
  · cases hf

theorem parseGlob_eq_some {p : Str} {ts : List Tok} :
    parseGlob p = some ts ↔ parseGlobE p = .ok ts := by
  unfold parseGlob
  split <;> simp_all

/-- In the tokens of a parsed glob, `RecursivePrefix` can only be the first token. -/
theorem parseGlob_RPHead {p : Str} {ts : List Tok} (h : parseGlob p = some ts) : RPHead ts := by
  rw [parseGlob_eq_some] at h
  exact RPHead_finish (RPHead_run RPHead_nil p) h

theorem eq_recPrefix_of_getLast {ts : List Tok} (h : RPHead ts)
    (hl : ts.getLast? = some .recPrefix) : ts = [.recPrefix] := by
  cases ts with
  | nil => simp at hl
  | cons a ts =>
    cases ts with
    | nil => simpa using hl
    | cons b ts =>
      exfalso
      apply h
      rw [List.getLast?_cons_cons] at hl
      exact List.mem_of_getLast? hl

theorem exists_snoc_of_getLast {ts : List Tok} {t : Tok} (hl : ts.getLast? = some t) :
    ∃ ts', ts = ts' ++ [t] := by
  rw [List.getLast?_eq_some_iff] at hl
  exact hl

/-- What appending "/**" does to a glob that parses: the tokens get a `RecursiveSuffix` appended,
or — when the glob already ends in a `**` component — they are unchanged, and then they are
`[RecursivePrefix]` or end in `RecursiveSuffix`. -/
theorem parseGlob_slashStarStar {p : Str} {ts : List Tok} (h : parseGlob p = some ts) :
    parseGlob (p ++ slashStarStar) = some (ts ++ [.recSuffix]) ∨
    (parseGlob (p ++ slashStarStar) = some ts ∧
      (ts = [.recPrefix] ∨ ∃ ts', ts = ts' ++ [.recSuffix])) := by
  have hR := parseGlob_RPHead h
  rw [parseGlob_eq_some] at h
  unfold parseGlobE at h
  rcases finish_slashStarStar _ ts h with h1 | ⟨h1, h2⟩
  · left
    rw [parseGlob_eq_some]; unfold parseGlobE; rw [runParser_append]; exact h1
  · right
    refine ⟨by rw [parseGlob_eq_some]; unfold parseGlobE; rw [runParser_append]; exact h1, ?_⟩
    rcases h2 with h2 | h2
    · right; exact exists_snoc_of_getLast h2
    · left; exact eq_recPrefix_of_getLast hR h2

/-! ### The unchanged-tokens case only arises for globs ending in "**" -/

theorem stepNormal_mode_ne_star2 (toks : List Tok) (last : Option Nat) (c : Nat) :
    (stepNormal toks last c).mode ≠ .star2 := by
  unfold stepNormal
  repeat' split
  all_goals simp

theorem stepNormal_mode_star1 {toks : List Tok} {last : Option Nat} {c : Nat}
    (h : (stepNormal toks last c).mode = .star1) : c = 42 := by
  unfold stepNormal at h
  repeat' split at h
  all_goals simp_all

theorem step_mode_star2 {st : PSt} {c : Nat} (h : (step st c).mode = .star2) :
    st.mode = .star1 ∧ c = 42 := by
  unfold step at h
  split at h
  · exact absurd h (stepNormal_mode_ne_star2 _ _ _)
  · simp at h
  · rename_i hm
    split at h
    · rename_i hc; exact ⟨hm, hc⟩
    · exact absurd h (stepNormal_mode_ne_star2 _ _ _)
  · unfold stepStar2 at h
    repeat' split at h
    all_goals first | exact absurd h (stepNormal_mode_ne_star2 _ _ _) | simp at h
  · split at h <;> simp at h
  · rename_i e hm; rw [hm] at h; simp at h

theorem step_mode_star1 {st : PSt} {c : Nat} (h : (step st c).mode = .star1) : c = 42 := by
  unfold step at h
  split at h
  · exact stepNormal_mode_star1 h
  · simp at h
  · split at h
    · simp at h
    · exact stepNormal_mode_star1 h
  · unfold stepStar2 at h
    repeat' split at h
    all_goals first | exact stepNormal_mode_star1 h | simp at h
  · split at h <;> simp at h
  · rename_i e hm; rw [hm] at h; simp at h

/-- The parser is in its "`**` read, looking ahead" position only right after two stars. -/
theorem run_mode_star2 {p : Str} (h : (runParser PSt.init p).mode = .star2) :
    ∃ q, p = q ++ [42, 42] := by
  rcases List.eq_nil_or_concat p with rfl | ⟨q, c, rfl⟩
  · simp [runParser, PSt.init] at h
  · rw [List.concat_eq_append, runParser_snoc] at h
    obtain ⟨h1, rfl⟩ := step_mode_star2 h
    rcases List.eq_nil_or_concat q with rfl | ⟨q', c', rfl⟩
    · simp [runParser, PSt.init] at h1
    · rw [List.concat_eq_append, runParser_snoc] at h1
      have := step_mode_star1 h1
      subst this
      exact ⟨q', by simp⟩

/-- For a glob that does not end in "**", appending "/**" appends a `RecursiveSuffix`. -/
theorem parseGlob_slashStarStar_of_not_endsWith {p : Str} {ts : List Tok}
    (h : parseGlob p = some ts) (hne : ¬ ∃ q, p = q ++ [42, 42]) :
    parseGlob (p ++ slashStarStar) = some (ts ++ [.recSuffix]) := by
  rw [parseGlob_eq_some] at h ⊢
  unfold parseGlobE at h ⊢
  rw [runParser_append]
  generalize hst : runParser PSt.init p = st at h
  have hm : st.mode ≠ .star2 := by
    intro hm; rw [← hst] at hm; exact hne (run_mode_star2 hm)
  obtain ⟨toks, last, mode⟩ := st
  cases mode with
  | normal =>
    simp only [finish] at h; cases h
    simp [runParser, slashStarStar, step, stepNormal, finish, popPush_snoc_lit]
  | esc => simp [finish] at h
  | star1 =>
    simp only [finish] at h; cases h
    simp [runParser, slashStarStar, step, stepNormal, finish]
    rw [show toks ++ [Tok.star, Tok.lit 47] = (toks ++ [Tok.star]) ++ [Tok.lit 47] by simp,
      popPush_snoc_lit]
    simp
  | star2 => exact absurd rfl hm
  | cls cs => simp [finish] at h
  | failed e => simp [finish] at h

end Conserve
