import ConserveModel.Proofs.ProducedOps
/-
C14 from the invariant: no `GC_LOCK` is left lying around by fault-free operations.
* `backup` never touches the lock file, in any world (`backup_lock_same`);
* `delete_bands` on a fault-free, crash-free world that starts without a lock ends without one,
  whatever its outcome (`delete_lockFree`): the lock it takes is released on the success path
  (`GarbageCollectionLock::release`), on the error path (`release`, then `Drop`) and on unwinding.
No property statements here.
-/
namespace Conserve.Rng
open Conserve Conserve.Inv Conserve.Conf Prog

/-! ### `backup` does not touch the lock -/

/-- The operation leaves the lock file's path alone. -/
def NoLockOp (o : Op) : Prop := Op.affects o .gcLock = false

theorem ReadOnly.noLockOp {o : Op} (h : ReadOnly o) : NoLockOp o := by
  cases o <;> simp_all [ReadOnly, NoLockOp, Op.affects]

theorem AllOps.ro_nl {α : Type} {p : Prog α} (h : Prog.AllOps ReadOnly p) : Prog.AllOps NoLockOp p :=
  h.mono fun _ => ReadOnly.noLockOp

/-- A program of `NoLockOp` operations leaves the lock file as it was, in every world. -/
theorem run_lock_same {α : Type} {p : Prog α} (hp : Prog.AllOps NoLockOp p) (w : World) :
    (p.run w).2.store.get? .gcLock = w.store.get? .gcLock :=
  Prog.run_store_rel (R := fun a b => b.get? .gcLock = a.get? .gcLock) (fun _ => rfl)
    (fun _ _ _ h1 h2 => h2.trans h1) (fun w o ho => World.exec_get?_of_not_affects w o .gcLock ho) hp w

macro "nl_side" : tactic =>
  `(tactic| first
    | assumption
    | focus (simp [NoLockOp, Op.affects, Key.isUnder, Key.parent]; done))

/-- Structural proof of `AllOps NoLockOp prog` (as `allops` of Proofs/FrameOps.lean). -/
syntax "nlops" ("[" term,* "]")? : tactic
macro_rules
  | `(tactic| nlops) => `(tactic| nlops [])
  | `(tactic| nlops [$ts,*]) => do
    let mut alts : Array (Lean.TSyntax `Lean.Parser.Tactic.tacticSeq) := #[]
    for t in ts.getElems do
      alts := alts.push (← `(tacticSeq| apply $t))
      alts := alts.push (← `(tacticSeq| (apply AllOps.ro_nl; apply $t)))
    `(tactic| repeat (first
      | exact Prog.AllOps.ret _
      | exact Prog.AllOps.fail _
      | exact Prog.AllOps.panic _
      | exact Prog.AllOps.logError _
      | exact Prog.AllOps.report _
      | assumption
      | (first $[| $alts]* | fail)
      | (apply Prog.AllOps.perform; nl_side)
      | apply Prog.AllOps.emit
      | apply Prog.AllOps.bind
      | apply Prog.AllOps.attempt
      | apply Prog.AllOps.attemptAll
      | (apply Prog.AllOps.op; nl_side)
      | nl_side
      | intro _
      | split
      | simp only [Prog.bind_def, Prog.pure_def]
      | dsimp only))

theorem bandClose_nl (b hunks : Nat) : AllOps NoLockOp (bandClose b hunks) := by
  unfold bandClose; nlops [performUnit_allOps]

section
variable (H : Str → Str)

theorem storeOrDedup_nl (w : Writer) (data : Str) : AllOps NoLockOp (storeOrDedup H w data) := by
  unfold storeOrDedup; nlops

theorem combinerFlush_nl (w : Writer) : AllOps NoLockOp (combinerFlush H w) := by
  unfold combinerFlush; nlops [storeOrDedup_nl]

theorem combinerPush_nl (o : BackupOpts) (w : Writer) (s : SrcEntry) : AllOps NoLockOp (combinerPush H o w s) := by
  unfold combinerPush; nlops [combinerFlush_nl]

theorem storeChunks_nl (w : Writer) (cs : List Str) (acc : List Addr) : AllOps NoLockOp (storeChunks H w cs acc) := by
  induction cs generalizing w acc with
  | nil => unfold storeChunks; nlops
  | cons c cs ih => unfold storeChunks; nlops [storeOrDedup_nl, ih]

theorem storeFileContent_nl (o : BackupOpts) (w : Writer) (s : SrcEntry) :
    AllOps NoLockOp (storeFileContent H o w s) := by
  unfold storeFileContent; nlops [storeChunks_nl]

theorem copyFile_nl (o : BackupOpts) (w : Writer) (basis : Option IndexEntry) (s : SrcEntry) :
    AllOps NoLockOp (copyFile H o w basis s) := by
  unfold copyFile; nlops [combinerPush_nl, storeFileContent_nl]

theorem copyEntry_nl (o : BackupOpts) (w : Writer) (basis : Option IndexEntry) (s : SrcEntry) :
    AllOps NoLockOp (copyEntry H o w basis s) := by
  unfold copyEntry; nlops [copyFile_nl]

theorem finishHunk_nl (w : Writer) : AllOps NoLockOp (finishHunk w) := by
  unfold finishHunk; nlops [performUnit_allOps]

theorem flushGroup_nl (w : Writer) : AllOps NoLockOp (flushGroup H w) := by
  unfold flushGroup; nlops [combinerFlush_nl, finishHunk_nl]

theorem backupLoop_nl (o : BackupOpts) (w : Writer) (ms : List Matched) :
    AllOps NoLockOp (backupLoop H o w ms) := by
  induction ms generalizing w with
  | nil => unfold backupLoop; nlops
  | cons m ms ih =>
    cases m with
    | left b => simp only [backupLoop]; nlops [ih]
    | right s => simp only [backupLoop]; nlops [copyEntry_nl, flushGroup_nl, ih]
    | both b s => simp only [backupLoop]; nlops [copyEntry_nl, flushGroup_nl, ih]

theorem bandCreate_nl : AllOps NoLockOp bandCreate := by
  unfold bandCreate; nlops [_root_.Conserve.lastBandId_ro, performUnit_allOps]

theorem backup_nl (o : BackupOpts) (src : List SrcEntry) : AllOps NoLockOp (backup H o src) := by
  unfold backup
  nlops [_root_.Conserve.gcIsLocked_ro, _root_.Conserve.lastBandId_ro, bandCreate_nl,
    _root_.Conserve.listBlocks_ro, _root_.Conserve.listEntries_ro, backupLoop_nl, flushGroup_nl,
    finishHunk_nl, bandClose_nl]

/-- **`backup` never touches the lock file**, in any world. -/
theorem backup_lock_same (o : BackupOpts) (src : List SrcEntry) (w : World) :
    ((backup H o src).run w).2.store.get? .gcLock = w.store.get? .gcLock :=
  run_lock_same (backup_nl H o src) w

end

/-! ### `delete_bands` in the fault-free world releases its lock -/

/-- The lock file is absent or is the lock `delete_bands` wrote. -/
def LockState (s : Store) : Prop := s.get? .gcLock = none ∨ s.get? .gcLock = some .lock

/-- Fault-free, crash-free, alive, and the lock path is in one of its two states. -/
def CJ (w : World) : Prop := w.Clean ∧ LockState w.store

theorem Fine2.lock_cases {o : Op} (h : Fine2 o) :
    NoLockOp o ∨ (∃ m, o = .write .gcLock .lock m) ∨ o = .removeFile .gcLock := by
  obtain ⟨hf, _, _⟩ := h
  cases o with
  | read k => exact Or.inl rfl
  | listDir k => exact Or.inl rfl
  | metadata k => exact Or.inl rfl
  | createDir k =>
    left
    rcases hf with ⟨b, rfl⟩ | ⟨b, rfl⟩ | ⟨b, d, rfl⟩ | ⟨p, rfl⟩ <;> simp [NoLockOp, Op.affects]
  | write k v m =>
    rcases hf.2 with ⟨b, ver, fl, rfl, rfl⟩ | ⟨b, n, es, rfl, rfl⟩ | ⟨b, c, rfl, rfl⟩ | ⟨h', c, rfl, rfl⟩ | ⟨rfl, rfl⟩
    · left; simp [NoLockOp, Op.affects]
    · left; simp [NoLockOp, Op.affects]
    · left; simp [NoLockOp, Op.affects]
    · left; simp [NoLockOp, Op.affects]
    · exact Or.inr (Or.inl ⟨m, rfl⟩)
  | removeFile k =>
    rcases hf with rfl | ⟨h', rfl⟩
    · exact Or.inr (Or.inr rfl)
    · left; simp [NoLockOp, Op.affects]
  | removeDirAll k =>
    obtain ⟨b, rfl⟩ := hf
    left; simp [NoLockOp, Op.affects, Key.isUnder, Key.parent]

/-- Every operation of `delete_bands` keeps `CJ`. -/
theorem exec_cj (w : World) {o : Op} (ho : Fine2 o) (h : CJ w) : CJ (w.exec o).1 := by
  obtain ⟨hc, hj⟩ := h
  refine ⟨World.exec_clean_Clean hc o, ?_⟩
  rw [World.exec_clean_store hc]
  rcases ho.lock_cases with hn | ⟨m, rfl⟩ | rfl
  · unfold LockState
    rw [applyOp_get?_of_not_affects true w.store o .gcLock hn]
    exact hj
  · rcases applyOp_write_store true w.store .gcLock .lock m with ⟨_, hs⟩ | ⟨_, hs⟩
    · rw [hs]; exact Or.inr (by simp)
    · rw [hs]; exact hj
  · simp only [applyOp]
    split
    · exact hj
    · exact hj
    · exact Or.inl (Store.get?_erase_self _ _)

theorem run_cj {α : Type} {p : Prog α} (hp : Prog.AllOps Fine2 p) (w : World) (h : CJ w) : CJ (p.run w).2 :=
  Prog.run_world_inv (P := Fine2) (I := CJ) (fun _ _ h => h) (fun w' _ ho h' => exec_cj w' ho h') hp w h

/-- Removing the lock file in such a world: afterwards it is gone. -/
theorem exec_removeLock {w : World} (h : CJ w) :
    (w.exec (.removeFile .gcLock)).1.Clean ∧ (w.exec (.removeFile .gcLock)).1.store.get? .gcLock = none ∧
    ((w.exec (.removeFile .gcLock)).2 = .unit ∨ ∃ e, (w.exec (.removeFile .gcLock)).2 = .err e) := by
  obtain ⟨hc, hj⟩ := h
  refine ⟨World.exec_clean_Clean hc _, ?_⟩
  rw [World.exec_clean_store hc, World.exec_clean_resp hc]
  rcases hj with hn | hl
  · simp [applyOp, hn]
  · simp [applyOp, hl]

/-- A specification with a postcondition for the exceptional outcomes too. -/
def XSat {α : Type} (p : Prog α) (w : World) (Q : α → World → Prop) (E : World → Prop) : Prop :=
  (∀ a, (p.run w).1 = .ok a → Q a (p.run w).2) ∧ ((∀ a, (p.run w).1 ≠ .ok a) → E (p.run w).2)

namespace XSat

theorem ret {α : Type} {a : α} {w : World} {Q : α → World → Prop} {E : World → Prop} (h : Q a w) :
    XSat (.ret a) w Q E := ⟨fun _ h' => by cases h'; exact h, fun h' => absurd rfl (h' a)⟩

theorem fail {α : Type} {e : Err} {w : World} {Q : α → World → Prop} {E : World → Prop} (h : E w) :
    XSat (.fail e : Prog α) w Q E := ⟨fun _ h' => (nomatch h'), fun _ => h⟩

theorem bind {α β : Type} {p : Prog α} {f : α → Prog β} {w : World} {Q : β → World → Prop} {E : World → Prop}
    (hp : XSat p w (fun a w' => XSat (f a) w' Q E) E) : XSat (p.bind f) w Q E := by
  unfold XSat at hp ⊢
  rw [Prog.run_bind]
  obtain ⟨h1, h2⟩ := hp
  cases hrun : p.run w with
  | mk out w1 =>
    rw [hrun] at h1 h2
    cases out with
    | ok a => exact h1 a rfl
    | err e => exact ⟨fun _ h' => (nomatch h'), fun _ => h2 (fun _ h' => nomatch h')⟩
    | panic m => exact ⟨fun _ h' => (nomatch h'), fun _ => h2 (fun _ h' => nomatch h')⟩

theorem mono {α : Type} {p : Prog α} {w : World} {Q Q' : α → World → Prop} {E E' : World → Prop}
    (hp : XSat p w Q E) (hq : ∀ a w', Q a w' → Q' a w') (he : ∀ w', E w' → E' w') : XSat p w Q' E' :=
  ⟨fun a ha => hq a _ (hp.1 a ha), fun h => he _ (hp.2 h)⟩

/-- A program whose operations all keep an invariant of worlds. -/
theorem of_inv {α : Type} {p : Prog α} {w : World} {I : World → Prop} (h : I (p.run w).2) :
    XSat p w (fun _ w' => I w') I := ⟨fun _ _ => h, fun _ => h⟩

end XSat

/-- `GarbageCollectionLock::release` and then return: success means the lock file is gone. -/
theorem release_xsat (st : DeleteStats) (w : World) (h : CJ w) :
    XSat (gcLockRelease.bind fun _ => Prog.ret st) w
      (fun _ w' => w'.Clean ∧ w'.store.get? .gcLock = none) CJ := by
  obtain ⟨h1, h2, h3⟩ := exec_removeLock h
  unfold gcLockRelease performUnit perform XSat
  simp only [Prog.bind_def, Prog.op_bind, Prog.ret_bind, Prog.run_op, Prog.pure_def]
  rcases h3 with hu | ⟨e, he⟩
  · rw [hu]
    simp only [Prog.ret_bind, Prog.run_ret]
    exact ⟨fun _ _ => ⟨h1, h2⟩, fun hne => absurd rfl (hne st)⟩
  · rw [he]
    simp only [Prog.fail_bind, Prog.run_fail]
    exact ⟨fun _ h' => (nomatch h'), fun _ => ⟨h1, Or.inl h2⟩⟩

/-- The body of `delete_bands` while the lock is held: if it succeeds the lock file is gone. -/
theorem deleteBody_xsat (strict : Bool) (D : List Nat) (o : DeleteOpts) (held : Option Nat) (w : World) (h : CJ w) :
    XSat (deleteBody strict D o held) w (fun _ w' => w'.Clean ∧ w'.store.get? .gcLock = none) CJ := by
  rw [deleteBody_eq]
  apply XSat.bind
  refine (XSat.of_inv (I := CJ) (run_cj (AllOps.ro_fine2 _root_.Conserve.listBandIds_ro) w h)).mono ?_ (fun _ h => h)
  intro all w1 h1
  apply XSat.bind
  refine (XSat.of_inv (I := CJ) (run_cj (AllOps.ro_fine2 (referencedBlocks_ro strict _)) w1 h1)).mono ?_ (fun _ h => h)
  intro refs w2 h2
  simp only [bodyRest]
  apply XSat.bind
  refine (XSat.of_inv (I := CJ) (run_cj (AllOps.ro_fine2 _root_.Conserve.listBlocks_ro) w2 h2)).mono ?_ (fun _ h => h)
  intro present w3 h3
  apply XSat.bind
  refine (XSat.of_inv (I := CJ) (run_cj (AllOps.ro_fine2 (deleteBody_measure_ro _)) w3 h3)).mono ?_ (fun _ h => h)
  intro _ w4 h4
  split
  · simp only [Prog.ret_bind]
    exact release_xsat _ w4 h4
  · apply XSat.bind
    refine (XSat.of_inv (I := CJ) (run_cj (AllOps.ro_fine2 (gcLockCheck_ro held)) w4 h4)).mono ?_ (fun _ h => h)
    intro _ w5 h5
    apply XSat.bind
    refine (XSat.of_inv (I := CJ) (run_cj (delBands_fine2 D 0) w5 h5)).mono ?_ (fun _ h => h)
    intro nb w6 h6
    apply XSat.bind
    refine (XSat.of_inv (I := CJ) (run_cj (delBlocks_fine2 _ 0) w6 h6)).mono ?_ (fun _ h => h)
    intro errs w7 h7
    simp only [Prog.ret_bind]
    exact release_xsat _ w7 h7

/-- The tail of `delete_bands`: whatever the body's outcome, the lock file is gone at the end. -/
theorem withLock_tail_lockFree (r : Outcome DeleteStats) (w : World) (h : CJ w)
    (hok : ∀ st, r = .ok st → w.store.get? .gcLock = none) :
    ((match r with
      | .ok st => (.ret st : Prog DeleteStats)
      | .err e => gcLockReleaseOnError.bind fun _ => .fail e
      | .panic site => gcLockDrop.bind fun _ => .panic site).run w).2.store.get? .gcLock = none := by
  obtain ⟨h1, h2, h3⟩ := exec_removeLock h
  cases r with
  | ok st => exact hok st rfl
  | err e =>
    unfold gcLockReleaseOnError perform
    simp only [Prog.bind_def, Prog.op_bind, Prog.ret_bind, Prog.run_op, Prog.pure_def]
    rcases h3 with hu | ⟨e', he⟩
    · rw [hu]; exact h2
    · rw [he]
      -- `release` failed (nothing to remove): `Drop` tries once more
      unfold gcLockDrop perform
      simp only [Prog.bind_def, Prog.op_bind, Prog.ret_bind, Prog.run_op, Prog.pure_def, Prog.run_fail]
      exact (exec_removeLock ⟨h1, Or.inl h2⟩).2.1
  | panic site =>
    unfold gcLockDrop perform
    simp only [Prog.bind_def, Prog.op_bind, Prog.ret_bind, Prog.run_op, Prog.pure_def, Prog.run_panic]
    exact h2

/-- What taking the lock does to an archive without lock file: it fails and changes nothing, or it
succeeds and the lock file is there. -/
theorem acquireOutcome_free {s : Store} (hfree : s.get? .gcLock = none) (o : DeleteOpts) :
    ((acquireOutcome o s).2 = s ∧ ∃ e, (acquireOutcome o s).1 = .err e) ∨
    ((acquireOutcome o s).2 = s.put .gcLock .lock ∧ ∃ last, (acquireOutcome o s).1 = .ok last) := by
  have hf : fileAt s .gcLock = false := by simp [fileAt, hfree]
  have hlt : ∀ last, lockTailOutcome s last = (.ok last, s.put .gcLock .lock) := by
    intro last; simp [lockTailOutcome, hf, hfree]
  have hlo : ((lockOutcome s).2 = s ∧ ∃ e, (lockOutcome s).1 = .err e) ∨
      ((lockOutcome s).2 = s.put .gcLock .lock ∧ ∃ last, (lockOutcome s).1 = .ok last) := by
    unfold lockOutcome
    split
    · split
      · exact Or.inl ⟨rfl, _, rfl⟩
      · rw [hlt]; exact Or.inr ⟨rfl, _, rfl⟩
    · rw [hlt]; exact Or.inr ⟨rfl, _, rfl⟩
  unfold acquireOutcome breakOutcome
  split
  · rw [hf]; simpa using hlo
  · exact hlo

/-- **`delete_bands` leaves no lock behind** in the fault-free, crash-free world, whatever its outcome
(it refuses, fails half-way, panics, or completes), when it starts on an archive directory without
lock file. -/
theorem delete_lockFree (strict : Bool) (D : List Nat) (o : DeleteOpts) (s : Store)
    (hroot : s.get? .root = some .dir) (hfree : s.get? .gcLock = none) :
    ((deleteBands strict D o).run (World.clean s)).2.store.get? .gcLock = none := by
  rw [deleteBands_eq]
  have hacq := acquire_runs hroot o (World.clean s) (World.clean_quiet s) rfl
  rcases acquireOutcome_free hfree o with ⟨hs, e, he⟩ | ⟨hs, last, hl⟩
  · rw [he] at hacq
    rw [Prog.run_bind_err hacq.1]
    show ((acquire o).run (World.clean s)).2.store.get? .gcLock = none
    rw [hacq.2.store, hs]; exact hfree
  · rw [hl] at hacq
    rw [Prog.run_bind_ok hacq.1]
    have hc1 : ((acquire o).run (World.clean s)).2.Clean :=
      Prog.run_clean _ (World.clean_Clean s)
    have hj1 : CJ ((acquire o).run (World.clean s)).2 :=
      ⟨hc1, Or.inr (by rw [hacq.2.store, hs]; simp)⟩
    simp only [withLock]
    rw [Prog.run_bind, Prog.run_attemptAll]
    have hb := deleteBody_xsat strict D o last _ hj1
    refine withLock_tail_lockFree _ _ ?_ ?_
    · -- the world after the body
      cases hr : ((deleteBody strict D o last).run ((acquire o).run (World.clean s)).2).1 with
      | ok st => exact ⟨(hb.1 st hr).1, Or.inl (hb.1 st hr).2⟩
      | err e => exact hb.2 (fun a ha => by rw [hr] at ha; cases ha)
      | panic m => exact hb.2 (fun a ha => by rw [hr] at ha; cases ha)
    · intro st hst
      exact (hb.1 st hst).2

end Conserve.Rng
