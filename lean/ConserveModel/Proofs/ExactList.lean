import ConserveModel.Proofs.ExactMain
import ConserveModel.Proofs.ExactRestore
/-
The archive after a fault-free backup (`Final`): the new version lists exactly the recorded
entries, silently; restoring them gives exactly the source.  Also `restore` as a whole on a
well-formed store.  No property statements here.
-/
set_option linter.unusedSimpArgs false
namespace Conserve.Exact
open Conserve Prog

variable {H : Str → Str} {o : BackupOpts}

/-! ### Lists in step -/

/-- Two lists of the same length whose elements at equal positions are related. -/
inductive Paired {α β : Type} (R : α → β → Prop) : List α → List β → Prop
  | nil : Paired R [] []
  | cons {a : α} {b : β} {l1 : List α} {l2 : List β} : R a b → Paired R l1 l2 → Paired R (a :: l1) (b :: l2)

theorem paired_of_map_eq {α β γ : Type} {f : α → γ} {g : β → γ} :
    ∀ {l1 : List α} {l2 : List β}, l1.map f = l2.map g → Paired (fun a b => f a = g b) l1 l2
  | [], [], _ => .nil
  | [], _ :: _, h => by simp at h
  | _ :: _, [], h => by simp at h
  | a :: l1, b :: l2, h => by
    simp only [List.map_cons, List.cons.injEq] at h
    exact .cons h.1 (paired_of_map_eq h.2)

theorem Paired.imp_mem {α β : Type} {R R' : α → β → Prop} {l1 : List α} {l2 : List β} (h : Paired R l1 l2)
    (himp : ∀ a ∈ l1, ∀ b ∈ l2, R a b → R' a b) : Paired R' l1 l2 := by
  induction h with
  | nil => exact .nil
  | cons hab _ ih =>
    refine .cons (himp _ (List.mem_cons_self ..) _ (List.mem_cons_self ..) hab) (ih ?_)
    intro a ha b hb
    exact himp a (List.mem_cons_of_mem _ ha) b (List.mem_cons_of_mem _ hb)

theorem range_filterMap_getElem? {α : Type} (l : List α) :
    (List.range l.length).filterMap (fun n => l[n]?) = l := by
  induction l with
  | nil => rfl
  | cons a l ih =>
    rw [List.length_cons, List.range_succ_eq_map, List.filterMap_cons]
    simp only [List.getElem?_cons_zero, List.filterMap_map]
    have : ((fun n => (a :: l)[n]?) ∘ Nat.succ) = fun n => l[n]? := by
      funext n; simp
    rw [this, ih]

/-! ### What the source must satisfy -/

/-- What C01 (a) assumes of the source listing (the walk of a tree of directories, regular files and
symlinks). -/
structure SrcGood (src : List SrcEntry) : Prop where
  /-- for files, `st_size` is the length of what reading returns -/
  wf : Inv.SrcWF src
  /-- strictly increasing paths (the order of the walk, C11) -/
  sorted : (src.map (·.apath)).Pairwise fun a b => apathCmp a b = .lt
  valid : ∀ sf ∈ src, isValid sf.apath = true
  /-- directories, regular files and symlinks only -/
  kinds : ∀ sf ∈ src, sf.kind ≠ .unknown
  /-- a symlink has a target -/
  targets : ∀ sf ∈ src, sf.kind = .symlink → sf.target.isSome = true
  /-- modification times jiff can represent -/
  mtimes : ∀ sf ∈ src, -377705023201 * nanosPerSec ≤ sf.mtimeNs ∧ sf.mtimeNs < 253402207201 * nanosPerSec
  /-- nothing lies below a symlink (it is a tree) -/
  noBelowSymlink : ∀ a ∈ src, ∀ b ∈ src, a.kind = .symlink → a.apath ≠ [slash] → a.apath ≠ b.apath →
    isPrefixOfImpl a.apath b.apath = false
  /-- the file sizes add up to less than 2^64 -/
  bytes : totalSize src < 18446744073709551616

theorem SrcGood.entryGood {src : List SrcEntry} (h : SrcGood src) : ∀ sf ∈ src, EntryGood sf :=
  fun sf hsf => ⟨h.kinds sf hsf, h.wf sf hsf⟩

theorem SrcGood.inj {src : List SrcEntry} (h : SrcGood src) :
    ∀ x ∈ src, ∀ y ∈ src, x.apath = y.apath → x = y :=
  pairwise_lt_inj (by have := h.sorted; rwa [List.pairwise_map] at this)

/-! ### Recorded entries -/

/-- Index entry `e` records source entry `sf` in store `s`. -/
structure Records (H : Str → Str) (o : BackupOpts) (s : Store) (sf : SrcEntry) (e : IndexEntry) : Prop where
  /-- everything but the addresses is `metadata_from` of the source entry -/
  same : strip e = Inv.metaOf o sf
  /-- a file's addresses read back to exactly its bytes -/
  content : sf.kind = .file → readBack H s e.addrs = some (sf.content.take sf.size)
  nonfile : sf.kind ≠ .file → e.addrs = []

theorem Records.apath {s : Store} {sf : SrcEntry} {e : IndexEntry} (h : Records H o s sf e) :
    e.apath = sf.apath := congrArg IndexEntry.apath h.same
theorem Records.kind {s : Store} {sf : SrcEntry} {e : IndexEntry} (h : Records H o s sf e) :
    e.kind = sf.kind := congrArg IndexEntry.kind h.same
theorem Records.mtime {s : Store} {sf : SrcEntry} {e : IndexEntry} (h : Records H o s sf e) :
    e.mtime = sf.mtimeNs.fdiv nanosPerSec := congrArg IndexEntry.mtime h.same
theorem Records.mtimeNanos {s : Store} {sf : SrcEntry} {e : IndexEntry} (h : Records H o s sf e) :
    e.mtimeNanos = (sf.mtimeNs.fmod nanosPerSec).toNat := congrArg IndexEntry.mtimeNanos h.same
theorem Records.target {s : Store} {sf : SrcEntry} {e : IndexEntry} (h : Records H o s sf e) :
    e.target = sf.target := congrArg IndexEntry.target h.same

theorem Records.time_ok {s : Store} {sf : SrcEntry} {e : IndexEntry} (h : Records H o s sf e)
    (hm : -377705023201 * nanosPerSec ≤ sf.mtimeNs ∧ sf.mtimeNs < 253402207201 * nanosPerSec) :
    ∃ t, entryTimeNs e.mtime e.mtimeNanos = some t := by
  obtain ⟨sec, nanos, h1, _, h3⟩ := C01.mtime_roundtrip sf.mtimeNs hm.1 hm.2
  simp only [mtimeToIndex, Option.some.injEq, Prod.mk.injEq] at h1
  rw [h.mtime, h.mtimeNanos, h1.1, h1.2]
  exact ⟨_, h3⟩

/-- Addresses that read back in a store whose blocks are shorter than 2^64 cannot overflow. -/
theorem addrs_small {s : Store} (hs : BlocksSmall s) {as : List Addr} {x : Str}
    (h : readBack H s as = some x) :
    as.all (fun a => a.start + a.len < 18446744073709551616) = true := by
  rw [List.all_eq_true]
  intro a ha
  have := Inv.readBack_addr_isSome H h a ha
  unfold readAddrPure blockContent at this
  cases hg : s.get? (.block a.hash) with
  | none => simp [hg] at this
  | some v =>
    cases v with
    | blockData c =>
      simp only [hg] at this
      by_cases hc : H c = a.hash
      · simp only [hc, if_true, Option.bind_some, sliceOf] at this
        split at this
        · rename_i hle
          have := hs _ _ hg
          simp only [decide_eq_true_eq]
          omega
        · simp at this
      · simp [hc] at this
    | _ => simp [hg] at this

theorem Records.usable {s : Store} {sf : SrcEntry} {e : IndexEntry} (h : Records H o s sf e)
    {src : List SrcEntry} (hg : SrcGood src) (hsf : sf ∈ src) (hs : BlocksSmall s) : entryUsable e = true := by
  obtain ⟨t, ht⟩ := h.time_ok (hg.mtimes sf hsf)
  have hk : e.kind ≠ .unknown := by rw [h.kind]; exact hg.kinds sf hsf
  have hsym : e.kind ≠ .symlink ∨ e.target.isSome = true := by
    by_cases hk' : sf.kind = .symlink
    · right; rw [h.target]; exact hg.targets sf hsf hk'
    · left; rw [h.kind]; exact hk'
  have haddr : e.addrs.all (fun a => a.start + a.len < 18446744073709551616) = true := by
    by_cases hf : sf.kind = .file
    · exact addrs_small hs (h.content hf)
    · rw [h.nonfile hf]; rfl
  simp only [entryUsable, Bool.and_eq_true, h.apath, hg.valid sf hsf, ht, Option.isSome_some, bne_iff_ne, ne_eq,
    hk, not_false_eq_true, Bool.or_eq_true, true_and, haddr, and_true]
  rcases hsym with h1 | h1
  · exact Or.inl h1
  · exact Or.inr h1

/-- The recorded entries of the final store, given the content theorem of the all-worlds
development (`newRec`: every file entry of a new hunk restores to a source file with its path). -/
theorem final_records {nb : Nat} {s0 s : Store} {hs : List (List IndexEntry)} {src : List SrcEntry}
    (hf : Final H o nb s0 s hs src) (hg : SrcGood src)
    (hrec : ∀ n es, hunkAt s nb n = some es → ∀ e ∈ es, e.kind = .file → Inv.RecOK H src s e) :
    Paired (Records H o s) src hs.flatten := by
  have h0 : Paired (fun sf e => Inv.metaOf o sf = strip e) src hs.flatten := paired_of_map_eq hf.shape.symm
  refine h0.imp_mem ?_
  intro sf hsf e he hmeta
  have hk : e.kind = sf.kind := congrArg IndexEntry.kind hmeta.symm
  refine ⟨hmeta.symm, ?_, fun hnf => hf.hsNonfile e he (by rw [hk]; exact hnf)⟩
  intro hfile
  obtain ⟨l, hl, hel⟩ := List.mem_flatten.mp he
  obtain ⟨n, hn⟩ := List.getElem?_of_mem hl
  have hh : hunkAt s nb n = some l := by simp [hunkAt, hf.hunk n, hn]
  obtain ⟨sf', hsf', hap, _, hrb⟩ := hrec n l hh e hel (hk.trans hfile)
  have hap' : sf'.apath = sf.apath := hap.trans (congrArg IndexEntry.apath hmeta.symm)
  rw [hg.inj sf' hsf' sf hsf hap'] at hrb
  exact hrb

/-! ### Listing the new version -/

theorem badEmptyHunk_nonEmpty (closed : Bool) (l : List (Nat × Bool)) (h : ∀ p ∈ l, p.2 = true) :
    badEmptyHunk closed l = false := by
  induction l with
  | nil => rfl
  | cons p l ih =>
    obtain ⟨n, ne⟩ := p
    have hne : ne = true := h (n, ne) (List.mem_cons_self ..)
    subst hne
    cases l with
    | nil => simp [badEmptyHunk]
    | cons q l =>
      simp only [badEmptyHunk, Bool.not_true, Bool.false_or]
      exact ih (fun p hp => h p (List.mem_cons_of_mem _ hp))

section final
variable {nb : Nat} {s0 s : Store} {hs : List (List IndexEntry)} {src : List SrcEntry}

theorem final_hunkNums (hf : Final H o nb s0 s hs src) : hunkNumsOf s nb = List.range hs.length := by
  refine eq_of_sorted_lt (hunkNumsOf_sorted_lt hf.st.uniqueKeys nb) List.pairwise_lt_range fun n => ?_
  simp only [mem_hunkNumsOf, Store.mem_iff_get? hf.st.uniqueKeys, hf.hunk, List.mem_range]
  constructor
  · rintro ⟨v, hv, _⟩
    cases hn : hs[n]? with
    | none => simp [hn] at hv
    | some es => exact (List.getElem?_eq_some_iff.mp hn).1
  · intro hn
    exact ⟨.hunk hs[n], by simp [List.getElem?_eq_getElem hn], rfl⟩

theorem final_usableHunk (hf : Final H o nb s0 s hs src) (hu : ∀ e ∈ hs.flatten, entryUsable e = true) (n : Nat) :
    usableHunk s nb n = hs[n]? := by
  simp only [usableHunk, hf.hunk]
  cases hn : hs[n]? with
  | none => rfl
  | some es =>
    have : es.all entryUsable = true := by
      rw [List.all_eq_true]
      intro e he
      exact hu e (List.mem_flatten.mpr ⟨es, List.mem_of_getElem? hn, he⟩)
    simp [this]

theorem final_ownEntries (hf : Final H o nb s0 s hs src) (hu : ∀ e ∈ hs.flatten, entryUsable e = true) :
    ownEntries s nb = hs.flatten := by
  unfold ownEntries
  rw [final_hunkNums hf]
  have : (fun n => usableHunk s nb n) = fun n => hs[n]? := funext (final_usableHunk hf hu)
  rw [show usableHunk s nb = fun n => usableHunk s nb n from rfl, this, range_filterMap_getElem?]

theorem final_readable (hf : Final H o nb s0 s hs src) : bandReadable s nb = true := by
  simp [bandReadable, hf.head, hf.indexDir]

theorem final_complete (hf : Final H o nb s0 s hs src) : isComplete s nb = true := by
  simp [isComplete, hf.tail, FileVal.isDir]

theorem final_listSpec (hf : Final H o nb s0 s hs src) (hu : ∀ e ∈ hs.flatten, entryUsable e = true) :
    listSpec s nb = hs.flatten := by
  simp [listSpec, bandEntries, final_readable hf, final_complete hf, final_ownEntries hf hu]

theorem final_bandGood (hf : Final H o nb s0 s hs src) (hu : ∀ e ∈ hs.flatten, entryUsable e = true) :
    BandGood s nb := by
  refine ⟨final_readable hf, ?_, ?_⟩
  · have hti : tailInfo s nb = (true, some hs.length) := by simp [tailInfo, hf.tail]
    simp only [indexCheckError, final_hunkNums hf, List.length_range, bne_self_eq_false, Bool.false_eq_true,
      if_false, hti, countMismatch]
    rw [badEmptyHunk_nonEmpty]
    · simp
    · intro p hp
      obtain ⟨n, hn, rfl⟩ := List.mem_map.mp hp
      rw [List.mem_range] at hn
      simp [hunkNonEmpty, hf.hunk, List.getElem?_eq_getElem hn]
  · intro k hk
    rw [final_hunkNums hf, List.mem_range] at hk
    have : hs[k].all entryUsable = true := by
      rw [List.all_eq_true]
      intro e he
      exact hu e (List.mem_flatten.mpr ⟨hs[k], List.getElem_mem hk, he⟩)
    simp [hunkError, hf.hunk, List.getElem?_eq_getElem hk, this]

theorem final_listErrors (hf : Final H o nb s0 s hs src) (hu : ∀ e ∈ hs.flatten, entryUsable e = true) :
    listErrors s nb = [] := by
  -- the new version is complete: the listing never walks down
  obtain ⟨h1, h2, h3⟩ := final_bandGood hf hu
  simp only [listErrors, final_complete hf, if_true, List.append_nil, bandErrors, h1, h2, Option.toList,
    List.nil_append, List.filterMap_eq_nil_iff]
  exact h3

theorem final_archWF (hf : Final H o nb s0 s hs src) (wf0 : ArchWF s0)
    (hu : ∀ e ∈ hs.flatten, entryUsable e = true)
    (hsorted : (src.map (·.apath)).Pairwise fun a b => apathCmp a b = .lt) : ArchWF s := by
  refine archWF_frame wf0 hf.st hf.frame ?_
  rw [final_ownEntries hf hu, strictlySorted_iff]
  have : hs.flatten.map (·.apath) = src.map (·.apath) := by
    have := congrArg (List.map (·.apath)) hf.shape
    simpa [List.map_map, Function.comp_def, Inv.metaOf] using this
  rw [this]
  exact hsorted

end final

/-! ### Restoring the recorded entries -/

/-- What restore must create for a source entry: path, kind, bytes (files), whole-second and
nanosecond modification time as stored (`mtimeToIndex`), mode bits, owner and group (when the backup
recorded owners), symlink target; completely restored. -/
def expectedNode (o : BackupOpts) (sf : SrcEntry) : RNode :=
  { apath := sf.apath, kind := sf.kind,
    content := if sf.kind = .file then sf.content.take sf.size else [],
    mtime := sf.mtimeNs.fdiv nanosPerSec, mtimeNanos := (sf.mtimeNs.fmod nanosPerSec).toNat,
    unixMode := some sf.unixMode,
    user := if o.owner then sf.user else none, group := if o.owner then sf.group else none,
    target := sf.target, complete := true }

theorem ofEntry_strip (e : IndexEntry) : RNode.ofEntry (strip e) = RNode.ofEntry e := rfl

theorem ofEntry_records {s : Store} {sf : SrcEntry} {e : IndexEntry} (h : Records H o s sf e) (bytes : Str) :
    { RNode.ofEntry e with content := bytes } = { expectedNode o sf with content := bytes } := by
  rw [← ofEntry_strip, h.same]
  rfl

theorem belowSymlink_false {src : List SrcEntry} (hg : SrcGood src) {syms : List Str}
    (hsyms : ∀ p ∈ syms, ∃ sl ∈ src, sl.kind = .symlink ∧ sl.apath = p) {sf : SrcEntry} (hsf : sf ∈ src) :
    belowSymlink syms sf.apath = false := by
  unfold belowSymlink
  rw [List.any_eq_false]
  intro p hp
  obtain ⟨sl, hsl, hk, rfl⟩ := hsyms p hp
  by_cases h1 : sl.apath = [slash]
  · simp [h1]
  · by_cases h2 : sl.apath = sf.apath
    · simp [h2]
    · simp [hg.noBelowSymlink sl hsl sf hsf hk h1 h2]

/-- Restoring entries that record a good source listing gives exactly the expected nodes and
reports nothing. -/
theorem restoreP_records {srcAll : List SrcEntry} (hg : SrcGood srcAll) {s : Store} {src : List SrcEntry}
    {es : List IndexEntry} (hp : Paired (Records H o s) src es) :
    (∀ sf ∈ src, sf ∈ srcAll) → ∀ syms, (∀ p ∈ syms, ∃ sl ∈ srcAll, sl.kind = .symlink ∧ sl.apath = p) →
    restoreP H s syms es = (.ok (src.map (expectedNode o)), []) := by
  induction hp with
  | nil => intro _ syms _; rfl
  | @cons sf e src es hr _ ih =>
    intro hsub syms hsyms
    have hsf : sf ∈ srcAll := hsub sf (List.mem_cons_self ..)
    have hsub' : ∀ x ∈ src, x ∈ srcAll := fun x hx => hsub x (List.mem_cons_of_mem _ hx)
    have hbelow : belowSymlink syms e.apath = false := by
      rw [hr.apath]; exact belowSymlink_false hg hsyms hsf
    obtain ⟨t, ht⟩ := hr.time_ok (hg.mtimes sf hsf)
    have hnode : RNode.ofEntry e = { expectedNode o sf with content := [] } := ofEntry_records hr []
    cases hk : sf.kind with
    | dir =>
      have hek : e.kind = .dir := hr.kind.trans hk
      simp only [restoreP, hbelow, Bool.false_eq_true, if_false, hek, ht, ih hsub' syms hsyms, Outcome.map,
        List.map_cons, hnode]
      simp [expectedNode, hk]
    | file =>
      have hek : e.kind = .file := hr.kind.trans hk
      have hc := readContentP_of_readBack (hr.content hk) []
      simp only [restoreP, hbelow, Bool.false_eq_true, if_false, hek, hc, ht, ih hsub' syms hsyms, Outcome.map,
        List.map_cons, List.nil_append, ofEntry_records hr]
      simp [expectedNode, hk]
    | symlink =>
      have hek : e.kind = .symlink := hr.kind.trans hk
      have htg : ∃ tg, e.target = some tg := by
        have := hg.targets sf hsf hk
        rw [← hr.target] at this
        exact Option.isSome_iff_exists.mp this
      obtain ⟨tg, htg⟩ := htg
      have hsyms' : ∀ p ∈ e.apath :: syms, ∃ sl ∈ srcAll, sl.kind = .symlink ∧ sl.apath = p := by
        intro p hp
        rcases List.mem_cons.mp hp with rfl | hp
        · exact ⟨sf, hsf, hk, hr.apath.symm⟩
        · exact hsyms p hp
      simp only [restoreP, hbelow, Bool.false_eq_true, if_false, hek, htg, ht, ih hsub' _ hsyms', Outcome.map,
        List.map_cons, hnode]
      simp [expectedNode, hk]
    | unknown => exact absurd hk (hg.kinds sf hsf)

/-! ### `restore` as a whole -/

/-- What `restore(Specified(b), "/", no exclusions)` returns and reports on a store. -/
def restoreSpecP (H : Str → Str) (s : Store) (b : Nat) : Outcome (List RNode) × List Event :=
  match headOutcome s b with
  | .ok () => ((restoreP H s [] (listSpec s b)).1,
                (restoreP H s [] (listSpec s b)).2 ++ ((listErrors s b).map Event.error).reverse)
  | .err e => (.err e, [])
  | .panic m => (.panic m, [])

theorem RunsAt.bind_panic {α β : Type} {p : Prog α} {f : α → Prog β} {s s1 : Store} {m : String}
    {e1 : List Event} (hp : RunsAt p s (.panic m) s1 e1) : RunsAt (p.bind f) s (.panic m) s1 e1 :=
  fun w hw => Runs.bind_panic (hp w hw)

theorem bandOpen_runsAt (s : Store) (b : Nat) : RunsAt (bandOpen b) s (headOutcome s b) s [] := fun w hw => by
  have := bandOpen_runs hw.quiet b
  rwa [hw.store] at this

theorem listBlocks_runsAt {s : Store} (hst : StoreOK H s) : RunsAt listBlocks s (.ok (blockNamesOf s)) s [] :=
  fun w hw => by
    have := listBlocks_runs hw.quiet (by rw [hw.store]; exact hst.blockRoot)
      (by rw [hw.store]; exact blockSubdirs_are_dirs hst.uniqueKeys)
    rwa [hw.store] at this

/-- After the version is resolved: open it, list the blocks, list the entries, restore them. -/
theorem restoreBody_runs {s : Store} (wf : ArchWF s) (hst : StoreOK H s) (b : Nat) :
    RunsAt ((bandOpen b).bind fun _ => listBlocks.bind fun _ =>
        (listEntries b [slash] (fun _ => false)).bind fun es => restoreEntries H [] es) s
      (restoreSpecP H s b).1 s (restoreSpecP H s b).2 := by
  unfold restoreSpecP
  have ho := bandOpen_runsAt s b
  cases hh : headOutcome s b with
  | ok u =>
    rw [hh] at ho
    refine RunsAt.bind0 ho ?_
    refine RunsAt.bind0 (listBlocks_runsAt hst) ?_
    have hle := listEntries_runsAt wf b [slash] (fun _ => false)
    rw [rootFilter_listSpec] at hle
    exact RunsAt.bind hle (restoreEntries_runs s _ [])
  | err e => rw [hh] at ho; exact RunsAt.bind_err ho
  | panic m => rw [hh] at ho; exact RunsAt.bind_panic ho

/-- `restore(Specified(b), "/", nothing excluded)` on a well-formed store. -/
theorem restore_specified_runs {s : Store} (wf : ArchWF s) (hst : StoreOK H s) (b : Nat) :
    RunsAt (restore H (.specified b) [slash] (fun _ => false)) s (restoreSpecP H s b).1 s
      (restoreSpecP H s b).2 := by
  have := restoreBody_runs wf hst b
  simpa [restore, resolveBandId] using this

/-- A sorted list whose largest element is `m` ends with `m`. -/
theorem reverse_head_of_max {l : List Nat} (hs : l.Pairwise (· ≤ ·)) {m : Nat} (hm : m ∈ l)
    (hmax : ∀ x ∈ l, x ≤ m) : ∃ rest, l.reverse = m :: rest := by
  induction l with
  | nil => cases hm
  | cons a t ih =>
    rw [List.pairwise_cons] at hs
    cases t with
    | nil =>
      simp only [List.mem_singleton] at hm
      exact ⟨[], by simp [hm]⟩
    | cons b t' =>
      have hmt : m ∈ b :: t' := by
        rcases List.mem_cons.mp hm with rfl | h
        · have h1 := hs.1 b (List.mem_cons_self ..)
          have h2 := hmax b (List.mem_cons_of_mem _ (List.mem_cons_self ..))
          have : b = m := Nat.le_antisymm h2 h1
          rw [this]; exact List.mem_cons_self ..
        · exact h
      obtain ⟨rest, hr⟩ := ih hs.2 hmt (fun x hx => hmax x (List.mem_cons_of_mem _ hx))
      exact ⟨rest ++ [a], by rw [List.reverse_cons, hr]; rfl⟩

/-- `last_complete_band` when the newest version directory holds a readable, complete version. -/
theorem lastCompleteBand_runs_newest {s : Store} (hst : StoreOK H s) {nb : Nat}
    (hmem : nb ∈ bandIdsOf s) (hmax : ∀ b ∈ bandIdsOf s, b ≤ nb) (hhead : headOutcome s nb = .ok ())
    (hc : isComplete s nb = true) : RunsAt lastCompleteBand s (.ok (some nb)) s [] := by
  obtain ⟨rest, hrev⟩ : ∃ rest, (bandIdsOf s).reverse = nb :: rest :=
    reverse_head_of_max (sortNat_sorted _) hmem hmax
  have hids : RunsAt listBandIds s (.ok (bandIdsOf s)) s [] := fun w hw => by
    have := listBandIds_runs hw.quiet (by rw [hw.store]; exact hst.root)
    rwa [hw.store] at this
  have hclosed : RunsAt (bandIsClosed nb) s (.ok true) s [] := fun w hw => by
    have := bandIsClosed_runs hw.quiet nb
    rw [hw.store, hc] at this
    exact this
  unfold lastCompleteBand
  simp only [Prog.bind_def]
  refine RunsAt.bind0 hids ?_
  rw [hrev, lastCompleteBand.go]
  simp only [Prog.bind_def]
  have ho : RunsAt (bandOpen nb).attempt s (.ok (.ok ())) s [] := fun w hw => by
    have := bandOpen_runs hw.quiet nb
    rw [hw.store, hhead] at this
    exact Runs.attempt_ok this
  refine RunsAt.bind0 ho ?_
  simp only
  refine RunsAt.bind0 hclosed ?_
  simp only [if_true, Prog.pure_def]
  exact RunsAt.ret _ _

/-- `restore(LatestClosed, …)` when the newest version directory holds a readable complete version. -/
theorem restore_latest_runs {s : Store} (wf : ArchWF s) (hst : StoreOK H s) {nb : Nat}
    (hmem : nb ∈ bandIdsOf s) (hmax : ∀ b ∈ bandIdsOf s, b ≤ nb) (hhead : headOutcome s nb = .ok ())
    (hc : isComplete s nb = true) :
    RunsAt (restore H .latestClosed [slash] (fun _ => false)) s (restoreSpecP H s nb).1 s
      (restoreSpecP H s nb).2 := by
  have hb := restoreBody_runs wf hst nb
  have hl := lastCompleteBand_runs_newest hst hmem hmax hhead hc
  unfold restore resolveBandId
  simp only [Prog.bind_def, Prog.inv_bind_assoc]
  refine RunsAt.bind0 hl ?_
  simpa using hb

end Conserve.Exact
