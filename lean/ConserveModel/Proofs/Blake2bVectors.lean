import ConserveModel.Blake2b
/-
Known-answer checks for the BLAKE2b model, evaluated by the kernel (`decide +kernel`: no compiler, no
extra axioms; about 6 s each), and the output-length facts.
-/
namespace Conserve

/-- BLAKE2b-512 of the empty message (one all-zero final block, counter 0). -/
theorem blake2bHex_empty :
    blake2bHex [] = "786a02f742015903c6c6fd852552d272912f4740e15847618a86e217f71f5419d25e1031afee585313896444934eb04b903a685b1448b755d56f701afe9be2ce".toList.map Char.toNat := by
  decide +kernel

/-- RFC 7693 appendix A: BLAKE2b-512("abc"). -/
theorem blake2bHex_abc :
    blake2bHex [97, 98, 99] = "ba80a53f981c4d0d6a2797b69f12f6e94c212f14685ac4b74b12bb6fdbffa2d17d87c5392aab792dc252d5de4533cc9518d38aa8dbf1925ab92386edd4009923".toList.map Char.toNat := by
  decide +kernel

namespace Blake2b

theorem compress_size (h m : Array UInt64) (t0 t1 : UInt64) (last : Bool) :
    (compress h m t0 t1 last).size = 8 := by
  simp [compress]

theorem blocks_size (data : ByteArray) (len k i : Nat) (h : Array UInt64) (hk : 0 < k) :
    (blocks data len k i h).size = 8 := by
  induction k generalizing i h with
  | zero => omega
  | succ k ih =>
    cases k with
    | zero => simp [blocks, compress_size]
    | succ k => rw [blocks]; exact ih _ _ (by omega)

theorem numBlocks_pos (len : Nat) : 0 < numBlocks len := by
  unfold numBlocks; split <;> omega

theorem foldr_wordBytes_length (l : List UInt64) (acc : List Nat) :
    (l.foldr wordBytes acc).length = 8 * l.length + acc.length := by
  induction l with
  | nil => simp
  | cons w l ih => simp [wordBytes, ih]; omega

end Blake2b

open Blake2b in
/-- The digest is always 64 bytes. -/
theorem blake2b512_length (msg : List Nat) : (blake2b512 msg).length = 64 := by
  unfold blake2b512
  simp only []
  rw [← Array.foldr_toList, foldr_wordBytes_length, Array.length_toList,
    blocks_size _ _ _ _ _ (numBlocks_pos _)]
  rfl

/-- The block file name is always 128 characters. -/
theorem blake2bHex_length (msg : List Nat) : (blake2bHex msg).length = 128 := by
  have h := blake2b512_length msg
  unfold blake2bHex
  generalize blake2b512 msg = l at h
  have : ∀ l : List Nat, (l.flatMap fun b => [Blake2b.hexDigitCode (b / 16), Blake2b.hexDigitCode (b % 16)]).length = 2 * l.length := by
    intro l; induction l with
    | nil => rfl
    | cons a l ih => simp [List.flatMap_cons, ih]; omega
  rw [this, h]

end Conserve
