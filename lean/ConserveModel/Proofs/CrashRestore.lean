import ConserveModel.Proofs.CrashBand
import ConserveModel.Proofs.ExclSymlink
/-
Restoring a version of a good archive when nothing listed lies below a listed symlink: one node per
listed entry (`nodeOf`), nothing reported (`restore_nodes_of_good`); and the same for the version a
killed backup left, whose nodes are the NEW content for what it recorded and the OLD nodes for what it
takes from the previous version (`crashed_restore`).  No property statements here.
-/
set_option linter.unusedSimpArgs false
namespace Conserve.Crash
open Conserve Conserve.Exact Conserve.Inv Conserve.Conf Conserve.Fault Conserve.Hist Conserve.Rng Prog

variable {H : Str → Str} {o : BackupOpts}

theorem readBack_some_of_addrs {s : Store} : ∀ {as : List Addr},
    (∀ a ∈ as, (readAddrPure H s a).isSome = true) → ∃ x, readBack H s as = some x := by
  intro as
  induction as with
  | nil => intro _; exact ⟨[], rfl⟩
  | cons a as ih =>
    intro h
    obtain ⟨y, hy⟩ := Option.isSome_iff_exists.mp (h a (List.mem_cons_self ..))
    obtain ⟨z, hz⟩ := ih (fun a' ha' => h a' (List.mem_cons_of_mem _ ha'))
    exact ⟨y ++ z, by simp [readBack, hy, hz]⟩

/-- In an archive without dangling references restore's reader reads every listed file entry. -/
theorem listed_readable {s : Store} (hd : NoDangling H s) {n : Nat} {e : IndexEntry} (he : e ∈ listSpec s n) :
    (readContentP H s e.addrs []).2 = none := by
  obtain ⟨b, k, es, hg, _, hee⟩ := C08.listed_is_stored he
  obtain ⟨x, hx⟩ := readBack_some_of_addrs (hd b k es (by simp [hunkAt, hg]) e hee)
  rw [readContentP_of_readBack hx []]

theorem headOutcome_of_bandReadable {s : Store} {b : Nat} (h : bandReadable s b = true) : headOutcome s b = .ok () := by
  unfold bandReadable at h
  unfold headOutcome
  cases hg : s.get? (.bandHead b) with
  | none => simp [hg] at h
  | some v =>
    cases v with
    | head ver flags =>
      simp only [hg, Bool.and_eq_true, Bool.or_eq_true, beq_iff_eq] at h
      rcases h.1.1 with rfl | rfl <;> simp [h.1.2]
    | _ => simp [hg] at h

theorem mem_bandIds_of_readable {s : Store} (hd : DirsOk s) {b : Nat} (h : bandReadable s b = true) :
    b ∈ bandIdsOf s := by
  unfold bandReadable at h
  simp only [Bool.and_eq_true, beq_iff_eq] at h
  have := hd.parent_of_get? h.2
  exact mem_bandIdsOf_of_get? (by simpa [Store.parentOk, Key.parent] using this)

/-- **Restore of a readable version of a good archive, nothing below a symlink**: exactly one node per
listed entry, in listing order, each `nodeOf` its entry; no event. -/
theorem restore_nodes_of_good {src : List SrcEntry} {s : Store} (hg : ArchiveGood H src s) {b : Nat}
    (hread : bandReadable s b = true) (hnb : NoneBelowSymlink (listSpec s b)) :
    ((restore H (.specified b) [slash] (fun _ => false)).run (World.clean s)).1
        = .ok ((listSpec s b).map (nodeOf H s)) ∧
      ((restore H (.specified b) [slash] (fun _ => false)).run (World.clean s)).2.events = [] := by
  have hmem := mem_bandIds_of_readable hg.st.dirsOk hread
  have hsilent : listErrors s b = [] :=
    C08.stitch_silent b (fun c hc => hg.bands c (mem_chain_bandIds hg.st.dirsOk hmem hc))
      (fun c _ => hg.headLost_false c)
  have hP : restoreP H s [] (listSpec s b) = (.ok ((listSpec s b).map (nodeOf H s)), []) :=
    restoreP_nodes hnb (listSpec s b) [] (fun _ h => h) (fun _ h => nomatch h)
      (fun e he => listed_usable he) (fun e he _ => listed_readable hg.noDangling he)
  have hrun := (restore_specified_runs (H := H) hg.wf hg.st b).clean
  simp only [restoreSpecP, headOutcome_of_bandReadable hread, hsilent, hP, List.map_nil, List.reverse_nil,
    List.append_nil] at hrun
  exact ⟨hrun.1, hrun.2.2⟩

/-- The node restore makes of an entry that records a source entry is the expected node. -/
theorem nodeOf_records {src : List SrcEntry} {s : Store} {sf : SrcEntry} {e : IndexEntry}
    (hr : Records H o s sf e) : nodeOf H s e = expectedNode o sf := by
  unfold nodeOf
  by_cases hk : sf.kind = .file
  · have hc := readContentP_of_readBack (hr.content hk) []
    simp only [hr.kind.trans hk, if_true, hc, List.nil_append, Option.isNone_none]
    have := ofEntry_records hr (sf.content.take sf.size)
    rw [show ({ RNode.ofEntry e with content := List.take sf.size sf.content, complete := true } : RNode) =
      { RNode.ofEntry e with content := List.take sf.size sf.content } from rfl, this]
    simp [expectedNode, hk]
  · have hk' : e.kind ≠ .file := by rw [hr.kind]; exact hk
    simp only [hk', if_false]
    have := ofEntry_records hr []
    rw [show RNode.ofEntry e = { RNode.ofEntry e with content := [] } from rfl, this]
    simp [expectedNode, hk]

theorem map_nodeOf_records {src : List SrcEntry} {s : Store} {pre : List SrcEntry} {own : List IndexEntry}
    (h : Paired (Records H o s) pre own) : own.map (nodeOf H s) = pre.map (expectedNode o) := by
  induction h with
  | nil => rfl
  | cons hab _ ih => simp only [List.map_cons, ih, nodeOf_records (src := src) hab]

/-- `nodeOf` reads only the blocks the entry names. -/
theorem nodeOf_congr {s s' : Store} {e : IndexEntry}
    (h : ∀ a ∈ e.addrs, s'.get? (.block a.hash) = s.get? (.block a.hash)) : nodeOf H s' e = nodeOf H s e := by
  unfold nodeOf
  rw [readContentP_congr (H := H) h []]

/-- Entries listed in the old archive read the same blocks after any run that only adds. -/
theorem nodeOf_old {s s' : Store} (hd : NoDangling H s) (hx : Extends s s') {n : Nat} {e : IndexEntry}
    (he : e ∈ listSpec s n) : nodeOf H s' e = nodeOf H s e := by
  apply nodeOf_congr
  intro a ha
  obtain ⟨b, k, es, hgk, _, hee⟩ := C08.listed_is_stored he
  have := hd b k es (by simp [hunkAt, hgk]) e hee a ha
  unfold readAddrPure blockContent at this
  cases hgb : s.get? (.block a.hash) with
  | none => simp [hgb] at this
  | some v =>
    rcases hx _ _ hgb with h1 | ⟨h1, _⟩
    · exact h1
    · subst h1; simp [hgb] at this

/-- Every entry of a list that records a source listing records one of its entries. -/
theorem paired_mem_right {α β : Type} {R : α → β → Prop} {l1 : List α} {l2 : List β} (h : Paired R l1 l2) :
    ∀ b ∈ l2, ∃ a ∈ l1, R a b := by
  induction h with
  | nil => intro b hb; cases hb
  | cons hab _ ih =>
    intro b hb
    rcases List.mem_cons.mp hb with rfl | hb
    · exact ⟨_, List.mem_cons_self .., hab⟩
    · obtain ⟨a, ha, hr⟩ := ih b hb
      exact ⟨a, List.mem_cons_of_mem _ ha, hr⟩

/-- Entries whose paths and kinds are those of entries of a good source listing: nothing lies below a symlink. -/
theorem noneBelow_of_src {src : List SrcEntry} (hsrc : SrcGood src) {es : List IndexEntry}
    (h : ∀ e ∈ es, ∃ sf ∈ src, sf.apath = e.apath ∧ sf.kind = e.kind) : NoneBelowSymlink es := by
  intro a ha b hb hk h1 h2
  obtain ⟨sa, hsa, hap, hak⟩ := h a ha
  obtain ⟨sb, hsb, hbp, _⟩ := h b hb
  rw [← hap, ← hbp]
  exact hsrc.noBelowSymlink sa hsa sb hsb (hak.trans hk) (by rw [hap]; exact h1) (by rw [hap, hbp]; exact h2)

end Conserve.Crash
