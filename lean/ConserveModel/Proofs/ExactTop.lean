import ConserveModel.Proofs.ExactList
import ConserveModel.Props.C03
/-
Assembly for C01 (a): everything known about the archive after a fault-free backup of a good
source into a good archive (`Summary`), that such an archive is good again, and that the restore
of every earlier version is unchanged.  No property statements here.
-/
set_option linter.unusedSimpArgs false
namespace Conserve.Exact
open Conserve Prog

variable {H : Str → Str} {o : BackupOpts}

/-- What is known after `backup H o src` ran on `World.clean s`. -/
structure Summary (H : Str → Str) (o : BackupOpts) (src : List SrcEntry) (s s' : Store)
    (hs : List (List IndexEntry)) (stats : Stats) (evs : List Event) : Prop where
  runs : RunsAt (backup H o src) s (.ok stats) s' evs
  noErr : stats.errors = 0
  noEv : NoErrorEvents evs
  final : Final H o (newBandOf s) s s' hs src
  records : Paired (Records H o s') src hs.flatten
  usable : ∀ e ∈ hs.flatten, entryUsable e = true
  wf : ArchWF s'
  ext : Extends s s'
  noDangling : NoDangling H s'

theorem archiveOK_of_good {src : List SrcEntry} {s : Store} (hg : ArchiveGood H src s) :
    C03.ArchiveOK H src s := ⟨hg.st.noDup, hg.st.blocks, hg.noDangling, hg.heuristic⟩

theorem backup_summary (hinj : Function.Injective H) (hlen : ∀ d, subdirNameChars ≤ (H d).length)
    (hmax : 0 < o.maxBlockSize) {src : List SrcEntry} {s : Store} (hsrc : SrcGood src)
    (hg : ArchiveGood H src s) :
    ∃ s' hs stats evs, Summary H o src s s' hs stats evs := by
  obtain ⟨hr1, hbasis, hl⟩ := backupPrelude_runs (o := o) hlen hg
  obtain ⟨s', hs, evs, stats, hr2, herr, hne, hf⟩ :=
    backupMain_runs hmax (newBandOf s, blockNamesOf (withNewBand s), basisListing s) hl hsrc.entryGood hbasis
      hsrc.sorted hsrc.bytes
  have hrun : RunsAt (backup H o src) s (.ok stats) s' evs := by
    rw [Inv.backup_eq]
    exact RunsAt.bind0 hr1 hr2
  obtain ⟨_, hstore, _⟩ := hrun.clean
  have hset : C04.Setting H o src (World.clean s) :=
    C04.Setting.of_store hinj hmax hsrc.wf rfl hg.st.noDup hg.st.blocks hg.noDangling hg.heuristic
  have hext : Extends s s' := hstore ▸ C04.faults_extends hset
  have hnd : NoDangling H s' := hstore ▸ C04.faults_no_dangling hset hg.noDangling
  have hrec : ∀ n es, hunkAt s' (newBandOf s) n = some es → ∀ e ∈ es, e.kind = .file → Inv.RecOK H src s' e := by
    intro n es hh
    have h0 : hunkAt s (newBandOf s) n = none := by
      simp [hunkAt, fresh_under_new hg.st (k := .hunk (newBandOf s) n) (by simp [Key.isUnder, Key.parent])]
    have := C04.faults_recorded_content hset (newBandOf s) n es h0 (by rw [hstore]; exact hh)
    rwa [hstore] at this
  have hrecs := final_records hf hsrc hrec
  have husable : ∀ e ∈ hs.flatten, entryUsable e = true := by
    have : ∀ {l1 : List SrcEntry} {l2 : List IndexEntry}, Paired (Records H o s') l1 l2 →
        (∀ sf ∈ l1, sf ∈ src) → ∀ e ∈ l2, entryUsable e = true := by
      intro l1 l2 hp
      induction hp with
      | nil => intro _ e he; cases he
      | cons hab _ ih =>
        intro hsub e he
        rcases List.mem_cons.mp he with rfl | he
        · exact hab.usable hsrc (hsub _ (List.mem_cons_self ..)) hf.st.small
        · exact ih (fun x hx => hsub x (List.mem_cons_of_mem _ hx)) e he
    exact this hrecs (fun _ h => h)
  exact ⟨s', hs, stats, evs, hrun, herr, hne, hf, hrecs, husable,
    final_archWF hf hg.wf husable hsrc.sorted, hext, hnd⟩

section summary
variable {src : List SrcEntry} {s s' : Store} {hs : List (List IndexEntry)} {stats : Stats} {evs : List Event}

theorem Summary.head_ok (h : Summary H o src s s' hs stats evs) : headOutcome s' (newBandOf s) = .ok () :=
  headOutcome_of_readable (by simp [headReadable, h.final.head])

/-- Restoring the new version: exactly the source, nothing reported. -/
theorem Summary.restoreSpec (h : Summary H o src s s' hs stats evs) (hsrc : SrcGood src) :
    restoreSpecP H s' (newBandOf s) = (.ok (src.map (expectedNode o)), []) := by
  unfold restoreSpecP
  rw [h.head_ok, final_listSpec h.final h.usable, final_listErrors h.final h.usable,
    restoreP_records hsrc h.records (fun _ hx => hx) [] (fun _ hp => nomatch hp)]
  rfl

theorem Summary.bandIds_mem (h : Summary H o src s s' hs stats evs) : newBandOf s ∈ bandIdsOf s' :=
  (mem_bandIdsOf h.final.st).2 h.final.bandDir

theorem Summary.bandIds_old (h : Summary H o src s s' hs stats evs) (hst : StoreOK H s) {b : Nat}
    (hb : b ∈ bandIdsOf s') (hne : b ≠ newBandOf s) : b ∈ bandIdsOf s := by
  have := (mem_bandIdsOf h.final.st).1 hb
  rw [h.final.frame _ (by simp [newKey, Key.isUnder, Key.parent, isBlockish, hne])] at this
  exact (mem_bandIdsOf hst).2 this

theorem Summary.bandIds_le (h : Summary H o src s s' hs stats evs) (hst : StoreOK H s) :
    ∀ b ∈ bandIdsOf s', b ≤ newBandOf s := by
  intro b hb
  by_cases hne : b = newBandOf s
  · omega
  · exact Nat.le_of_lt (nextBandId_gt _ b (h.bandIds_old hst hb hne))

/-- The earlier versions' keys are untouched. -/
theorem Summary.bandSame (h : Summary H o src s s' hs stats evs) {b : Nat} (hb : b ≠ newBandOf s) :
    BandSame s s' b := bandSame_of_frame h.final.frame hb

/-- The archive is good again (for any next source for which the tool's assumption holds). -/
theorem Summary.archiveGood (h : Summary H o src s s' hs stats evs) (hg : ArchiveGood H src s)
    {src' : List SrcEntry} (hheur : Inv.HeuristicSoundStore H src' s') : ArchiveGood H src' s' := by
  refine ⟨h.final.st, fun b n v hgv => h.wf.sorted_of_get? hgv, ?_, ?_, h.noDangling, hheur⟩
  · rw [h.final.frame _ (by simp [newKey, Key.isUnder, Key.parent, isBlockish])]
    exact hg.noLock
  · intro b hb
    by_cases hne : b = newBandOf s
    · subst hne; exact final_bandGood h.final h.usable
    · have hsame := h.bandSame hne
      obtain ⟨h1, h2, h3⟩ := hg.bands b (h.bandIds_old hg.st hb hne)
      have hn := hg.wf.uniqueKeys
      have hn' := h.final.st.uniqueKeys
      refine ⟨by rw [bandReadable_same hsame]; exact h1, by rw [indexCheckError_same hn hn' hsame]; exact h2, ?_⟩
      intro k hk
      rw [hunkNumsOf_same hn hn' hsame] at hk
      rw [hunkError_same hsame]
      exact h3 k hk

/-- The tool's assumption holds of the new archive for the SAME source: what looks unchanged
against any stored entry is unchanged. -/
theorem Summary.heuristic_same (h : Summary H o src s s' hs stats evs) (hg : ArchiveGood H src s)
    (hsrc : SrcGood src) : Inv.HeuristicSoundStore H src s' := by
  intro b n es hh e he sf hsf hkf hap hheur hblocks
  by_cases hne : b = newBandOf s
  · subst hne
    -- an entry of the new version records the source entry with its path
    have hmem : e ∈ hs.flatten := by
      have : hs[n]? = some es := by
        have := h.final.hunk n
        simp only [hunkAt, this] at hh
        cases hn : hs[n]? with
        | none => simp [hn] at hh
        | some l => simp [hn] at hh; rw [hh]
      exact List.mem_flatten.mpr ⟨es, List.mem_of_getElem? this, he⟩
    have : ∀ {l1 : List SrcEntry} {l2 : List IndexEntry}, Paired (Records H o s') l1 l2 →
        ∀ e ∈ l2, ∃ sf' ∈ l1, Records H o s' sf' e := by
      intro l1 l2 hp
      induction hp with
      | nil => intro e he; cases he
      | cons hab _ ih =>
        intro e he
        rcases List.mem_cons.mp he with rfl | he
        · exact ⟨_, List.mem_cons_self .., hab⟩
        · obtain ⟨sf', h1, h2⟩ := ih e he
          exact ⟨sf', List.mem_cons_of_mem _ h1, h2⟩
    obtain ⟨sf', hsf', hr⟩ := this h.records e hmem
    have : sf' = sf := hsrc.inj sf' hsf' sf hsf (hr.apath.symm.trans hap)
    subst this
    exact hr.content hkf
  · have hh0 : hunkAt s b n = some es := by
      have := (h.bandSame hne).hunk n
      simpa [hunkAt, this] using hh
    have hprem : ∀ a ∈ e.addrs, ∃ c, blockContent H s a.hash = some c := by
      intro a ha
      have := hg.noDangling b n es hh0 e he a ha
      unfold readAddrPure at this
      cases hc : blockContent H s a.hash with
      | none => simp [hc] at this
      | some c => exact ⟨c, rfl⟩
    exact Inv.readBack_mono H (hg.heuristic b n es hh0 e he sf hsf hkf hap hheur hprem) h.ext

/-- **Earlier versions restore as before.** -/
theorem Summary.restoreSpec_old (h : Summary H o src s s' hs stats evs) (hg : ArchiveGood H src s)
    {b : Nat} (hb : b < newBandOf s) : restoreSpecP H s' b = restoreSpecP H s b := by
  have hsame : ∀ b', b' ≤ b → BandSame s s' b' := fun b' hb' => h.bandSame (by omega)
  have hn := hg.wf.uniqueKeys
  have hn' := h.final.st.uniqueKeys
  have hhead : headOutcome s' b = headOutcome s b := by
    simp only [headOutcome, (hsame b (Nat.le_refl b)).head]
  have hrest : restoreP H s' [] (listSpec s b) = restoreP H s [] (listSpec s b) := by
    apply restoreP_congr
    intro e he a ha
    obtain ⟨b', k, es, hgk, _, hee⟩ := C08.listed_is_stored he
    have := hg.noDangling b' k es (by simp [hunkAt, hgk]) e hee a ha
    unfold readAddrPure blockContent at this
    cases hgb : s.get? (.block a.hash) with
    | none => simp [hgb] at this
    | some v =>
      rcases h.ext _ _ hgb with h1 | ⟨h1, _⟩
      · exact h1
      · subst h1; simp [hgb] at this
  simp only [restoreSpecP, hhead, listSpec_same hn hn' b hsame, listErrors_same hn hn' b hsame, hrest]

end summary

/-! ### Establishing the hypotheses -/

/-- In a tree-shaped store without version directories nothing lies below a version directory. -/
theorem noBands_no_hunk {s : Store} (hst : StoreOK H s) (hnb : Inv.NoBands s) (b n : Nat) :
    s.get? (.hunk b n) = none := by
  have hband : s.get? (.bandDir b) = none := by
    cases hg : s.get? (.bandDir b) with
    | none => rfl
    | some v => exact absurd rfl (hnb _ (Store.mem_of_get?' hg) b)
  have up : ∀ k p, k.parent = some p → s.get? p = none → s.get? k = none := by
    intro k p hp hn
    cases hg : s.get? k with
    | none => rfl
    | some v =>
      have := hst.dirs k v hg
      simp only [Store.parentOk, hp, beq_iff_eq] at this
      rw [hn] at this; cases this
  exact up _ _ rfl (up (.hunkDir _ _) _ rfl (up (.indexDir _) _ rfl hband))

/-- An archive without any version (just initialised, possibly with blocks) is good for any source. -/
theorem ArchiveGood.of_noBands {s : Store} (hst : StoreOK H s) (hnb : Inv.NoBands s)
    (hlock : s.get? .gcLock = none) (src : List SrcEntry) : ArchiveGood H src s := by
  have hh : ∀ b n, hunkAt s b n = none := fun b n => by simp [hunkAt, noBands_no_hunk hst hnb b n]
  refine ⟨hst, ?_, hlock, ?_, ?_, ?_⟩
  · intro b n v hg
    rw [noBands_no_hunk hst hnb] at hg; cases hg
  · intro b hb
    have := (mem_bandIdsOf hst).1 hb
    exact absurd rfl (hnb _ (Store.mem_of_get?' this) b)
  · intro b n es h; rw [hh] at h; cases h
  · intro b n es h; rw [hh] at h; cases h

/-- The checks behind `StoreOK`, as a computable predicate (for concrete archives). -/
def storeChecks (H : Str → Str) (s : Store) : Bool :=
  decide (s.map Prod.fst).Nodup && s.all (fun kv => s.parentOk kv.1) && s.all (fun kv => kindOk kv.1 kv.2) &&
  (s.get? .root == some .dir) && (s.get? .blockRoot == some .dir) &&
  s.all (fun kv =>
    match kv.1, kv.2 with
    | .block h, .blockData c => H c == h && decide (c.length < 18446744073709551616)
    | .block _, .empty => true
    | .block _, _ => false
    | _, _ => true)

theorem StoreOK.of_checks {s : Store} (h : storeChecks H s = true) : StoreOK H s := by
  simp only [storeChecks, Bool.and_eq_true, decide_eq_true_eq, List.all_eq_true, beq_iff_eq] at h
  obtain ⟨⟨⟨⟨⟨h1, h2⟩, h3⟩, h4⟩, h5⟩, h6⟩ := h
  refine ⟨h1, fun k v hg => h2 _ (Store.mem_of_get?' hg), fun k v hg => h3 _ (Store.mem_of_get?' hg), h4, h5, ?_, ?_⟩
  · intro hh v hg
    have := h6 _ (Store.mem_of_get?' hg)
    cases v <;> simp_all
  · intro hh c hg
    have := h6 _ (Store.mem_of_get?' hg)
    simp_all

end Conserve.Exact
