import ConserveModel.Proofs.ValidateRun
/-
The (hash, needed length) table of `validate_bands`: invariants of `lensInsert` / `entryLens` /
`referencedOf`.  No property statements.
-/
namespace Conserve

/-- The table asks at least `k` bytes of block `h`. -/
def Covers (m : List (Str × Nat)) (h : Str) (k : Nat) : Prop := ∃ n, (h, n) ∈ m ∧ k ≤ n

theorem covers_lensInsert_self (m : List (Str × Nat)) (h : Str) (n : Nat) :
    Covers (lensInsert m h n) h n := by
  induction m with
  | nil => exact ⟨n, by simp [lensInsert], Nat.le_refl _⟩
  | cons p m ih =>
    obtain ⟨h', n'⟩ := p
    simp only [lensInsert]
    by_cases hh : h' = h
    · subst hh
      exact ⟨max n' n, by simp, Nat.le_max_right ..⟩
    · obtain ⟨x, hx, hle⟩ := ih
      exact ⟨x, by simp [hh, hx], hle⟩

theorem covers_lensInsert_mono {m : List (Str × Nat)} {h : Str} {k : Nat} (h2 : Str) (n2 : Nat)
    (hc : Covers m h k) : Covers (lensInsert m h2 n2) h k := by
  induction m with
  | nil => obtain ⟨_, hx, _⟩ := hc; simp at hx
  | cons p m ih =>
    obtain ⟨h', n'⟩ := p
    obtain ⟨x, hx, hle⟩ := hc
    simp only [lensInsert]
    by_cases hh : h' = h2
    · simp only [hh, if_true]
      rcases List.mem_cons.mp hx with he | hx
      · cases he
        exact ⟨max n' n2, by simp [hh], Nat.le_trans hle (Nat.le_max_left ..)⟩
      · exact ⟨x, List.mem_cons_of_mem _ hx, hle⟩
    · simp only [hh, if_false]
      rcases List.mem_cons.mp hx with he | hx
      · cases he
        exact ⟨n', List.mem_cons_self .., hle⟩
      · obtain ⟨y, hy, hle'⟩ := ih ⟨x, hx, hle⟩
        exact ⟨y, List.mem_cons_of_mem _ hy, hle'⟩

theorem lensInsert_inv (P : Str → Nat → Prop) (hmax : ∀ h a b, P h a → P h b → P h (max a b))
    {m : List (Str × Nat)} {h : Str} {n : Nat} (hm : ∀ p ∈ m, P p.1 p.2) (hn : P h n) :
    ∀ p ∈ lensInsert m h n, P p.1 p.2 := by
  induction m with
  | nil => intro p hp; simp [lensInsert] at hp; subst hp; exact hn
  | cons q m ih =>
    obtain ⟨h', n'⟩ := q
    intro p hp
    simp only [lensInsert] at hp
    by_cases hh : h' = h
    · simp only [hh, if_true] at hp
      rcases List.mem_cons.mp hp with rfl | hp
      · exact hmax _ _ _ (hh ▸ hm (h', n') (List.mem_cons_self ..)) hn
      · exact hm p (List.mem_cons_of_mem _ hp)
    · simp only [hh, if_false] at hp
      rcases List.mem_cons.mp hp with rfl | hp
      · exact hm _ (List.mem_cons_self ..)
      · exact ih (fun p hp => hm p (List.mem_cons_of_mem _ hp)) p hp

/-- The inner loop of `validate_stored_tree`: the addresses of one file entry. -/
def addrLens (m : List (Str × Nat)) (as : List Addr) : List (Str × Nat) :=
  as.foldl (fun m a => lensInsert m a.hash (a.start + a.len)) m

theorem entryLens_eq (m : List (Str × Nat)) (es : List IndexEntry) :
    entryLens m es = es.foldl (fun m e => if e.kind == .file then addrLens m e.addrs else m) m := rfl

theorem addrLens_inv (P : Str → Nat → Prop) (hmax : ∀ h a b, P h a → P h b → P h (max a b))
    (as : List Addr) : ∀ m : List (Str × Nat), (∀ p ∈ m, P p.1 p.2) →
    (∀ a ∈ as, P a.hash (a.start + a.len)) → ∀ p ∈ addrLens m as, P p.1 p.2 := by
  induction as with
  | nil => intro m hm _; exact hm
  | cons a as ih =>
    intro m hm ha
    exact ih _ (lensInsert_inv P hmax hm (ha a (List.mem_cons_self ..)))
      (fun x hx => ha x (List.mem_cons_of_mem _ hx))

theorem covers_addrLens_mono (as : List Addr) : ∀ {m : List (Str × Nat)} {h : Str} {k : Nat},
    Covers m h k → Covers (addrLens m as) h k := by
  induction as with
  | nil => intro m h k hc; exact hc
  | cons a as ih => intro m h k hc; exact ih (covers_lensInsert_mono _ _ hc)

theorem covers_addrLens_mem (as : List Addr) : ∀ (m : List (Str × Nat)) {a : Addr}, a ∈ as →
    Covers (addrLens m as) a.hash (a.start + a.len) := by
  induction as with
  | nil => intro m a ha; simp at ha
  | cons x as ih =>
    intro m a ha
    rcases List.mem_cons.mp ha with rfl | ha
    · exact covers_addrLens_mono as (covers_lensInsert_self ..)
    · exact ih _ ha

theorem entryLens_inv (P : Str → Nat → Prop) (hmax : ∀ h a b, P h a → P h b → P h (max a b))
    (es : List IndexEntry) : ∀ m : List (Str × Nat), (∀ p ∈ m, P p.1 p.2) →
    (∀ e ∈ es, e.kind = .file → ∀ a ∈ e.addrs, P a.hash (a.start + a.len)) →
    ∀ p ∈ entryLens m es, P p.1 p.2 := by
  induction es with
  | nil => intro m hm _; exact hm
  | cons e es ih =>
    intro m hm he
    rw [entryLens_eq, List.foldl_cons, ← entryLens_eq]
    refine ih _ ?_ (fun x hx => he x (List.mem_cons_of_mem _ hx))
    by_cases hk : e.kind = .file
    · simp only [hk, beq_self_eq_true, if_true]
      exact addrLens_inv P hmax _ _ hm (he e (List.mem_cons_self ..) hk)
    · have : (e.kind == Kind.file) = false := by simpa using hk
      simpa [this] using hm

theorem covers_entryLens_mono (es : List IndexEntry) : ∀ {m : List (Str × Nat)} {h : Str} {k : Nat},
    Covers m h k → Covers (entryLens m es) h k := by
  induction es with
  | nil => intro m h k hc; exact hc
  | cons e es ih =>
    intro m h k hc
    rw [entryLens_eq, List.foldl_cons, ← entryLens_eq]
    apply ih
    by_cases hk : (e.kind == Kind.file) = true
    · simp only [hk, if_true]; exact covers_addrLens_mono _ hc
    · simpa [hk] using hc

theorem covers_entryLens_mem (es : List IndexEntry) : ∀ (m : List (Str × Nat)) {e : IndexEntry} {a : Addr},
    e ∈ es → e.kind = .file → a ∈ e.addrs → Covers (entryLens m es) a.hash (a.start + a.len) := by
  induction es with
  | nil => intro m e a he; simp at he
  | cons x es ih =>
    intro m e a he hk ha
    rw [entryLens_eq, List.foldl_cons, ← entryLens_eq]
    rcases List.mem_cons.mp he with rfl | he
    · apply covers_entryLens_mono
      simp only [hk, beq_self_eq_true, if_true]
      exact covers_addrLens_mem _ _ ha
    · exact ih _ he hk ha

/-! ### `referencedOf` -/

theorem foldl_bandRefs_inv {s : Store} (P : Str → Nat → Prop)
    (hmax : ∀ h a b, P h a → P h b → P h (max a b)) (bs : List Nat) :
    ∀ m : List (Str × Nat), (∀ p ∈ m, P p.1 p.2) →
    (∀ b ∈ bs, headError s b = none → ∀ e ∈ listSpec s b, e.kind = .file →
      ∀ a ∈ e.addrs, P a.hash (a.start + a.len)) →
    ∀ p ∈ bs.foldl (bandRefs s) m, P p.1 p.2 := by
  induction bs with
  | nil => intro m hm _; exact hm
  | cons b bs ih =>
    intro m hm hb
    rw [List.foldl_cons]
    refine ih _ ?_ (fun x hx => hb x (List.mem_cons_of_mem _ hx))
    unfold bandRefs
    cases hh : headError s b with
    | some e => exact hm
    | none => exact entryLens_inv P hmax _ _ hm (hb b (List.mem_cons_self ..) hh)

theorem covers_foldl_bandRefs_mono {s : Store} (bs : List Nat) :
    ∀ {m : List (Str × Nat)} {h : Str} {k : Nat}, Covers m h k → Covers (bs.foldl (bandRefs s) m) h k := by
  induction bs with
  | nil => intro m h k hc; exact hc
  | cons b bs ih =>
    intro m h k hc
    rw [List.foldl_cons]
    apply ih
    unfold bandRefs
    cases headError s b with
    | some e => exact hc
    | none => exact covers_entryLens_mono _ hc

theorem covers_foldl_bandRefs_mem {s : Store} (bs : List Nat) :
    ∀ (m : List (Str × Nat)) {b : Nat} {e : IndexEntry} {a : Addr}, b ∈ bs → headError s b = none →
      e ∈ listSpec s b → e.kind = .file → a ∈ e.addrs →
      Covers (bs.foldl (bandRefs s) m) a.hash (a.start + a.len) := by
  induction bs with
  | nil => intro m b e a hb; simp at hb
  | cons x bs ih =>
    intro m b e a hb hh he hk ha
    rw [List.foldl_cons]
    rcases List.mem_cons.mp hb with rfl | hb
    · apply covers_foldl_bandRefs_mono
      simp only [bandRefs, hh]
      exact covers_entryLens_mem _ _ he hk ha
    · exact ih _ hb hh he hk ha

/-- Every pair of `referenced_lens` satisfies any predicate that all listed addresses satisfy
and that is closed under `max`. -/
theorem referenced_inv {s : Store} (P : Str → Nat → Prop)
    (hmax : ∀ h a b, P h a → P h b → P h (max a b))
    (hP : ∀ b ∈ bandIdsOf s, headError s b = none → ∀ e ∈ listSpec s b, e.kind = .file →
      ∀ a ∈ e.addrs, P a.hash (a.start + a.len)) :
    ∀ p ∈ referencedOf s, P p.1 p.2 :=
  foldl_bandRefs_inv P hmax _ [] (by simp) hP

/-- Every address of every file entry of every opened version's listing is in `referenced_lens`. -/
theorem referenced_covers {s : Store} {b : Nat} {e : IndexEntry} {a : Addr} (hb : b ∈ bandIdsOf s)
    (hh : headError s b = none) (he : e ∈ listSpec s b) (hk : e.kind = .file) (ha : a ∈ e.addrs) :
    Covers (referencedOf s) a.hash (a.start + a.len) :=
  covers_foldl_bandRefs_mem _ [] hb hh he hk ha

end Conserve
