import ConserveModel.Proofs.ExactTop
import ConserveModel.Proofs.PermListing
import ConserveModel.Proofs.StitchRun
/-
C02 (history): what listing one version reads.  The pure mirrors of the index readers
(`hunksAvailableP`, `hunkLengthsP`, `checkIndexHunksP`, `readHunksP`, `bandTake`, `bandErrs`,
`stitchDownP`, `stitchAllP`, Proofs/StitchRun.lean) give the same values on two stores that are maps
(`Store.NoDupKeys`) and hold the same under the version's directory (`BandSame`) — whatever the
ORDER of the association lists, so directory listings may come in a different order.
No well-formedness (tree shape, sortedness, readable heads …) is assumed.  No property statements here.
-/
set_option linter.unusedSimpArgs false
namespace Conserve.Hist
open Conserve Conserve.Exact

/-! ### Listings of two stores that agree on the children of a directory -/

/-- If two maps hold the same at every child of `k`, their listings of `k` are permutations of each other. -/
theorem children_perm {s s' : Store} (hs : s.NoDupKeys) (hs' : s'.NoDupKeys) (k : Key)
    (h : ∀ k', k'.parent = some k → s'.get? k' = s.get? k') : (s'.children k).Perm (s.children k) := by
  unfold Store.children
  refine List.Perm.map _ ?_
  rw [List.perm_ext_iff_of_nodup (hs'.nodup.sublist List.filter_sublist) (hs.nodup.sublist List.filter_sublist)]
  rintro ⟨k', v⟩
  simp only [List.mem_filter, beq_iff_eq]
  constructor
  · rintro ⟨hm, hp⟩
    refine ⟨?_, hp⟩
    rw [hs.mem_iff, ← h k' hp, ← hs'.mem_iff]; exact hm
  · rintro ⟨hm, hp⟩
    refine ⟨?_, hp⟩
    rw [hs'.mem_iff, h k' hp, ← hs.mem_iff]; exact hm

theorem under_of_parent_indexDir {b : Nat} {k' : Key} (h : k'.parent = some (.indexDir b)) :
    Key.isUnder (.bandDir b) k' = true := by
  cases k' <;> simp_all [Key.parent, Key.isUnder]

theorem under_of_parent_hunkDir {b d : Nat} {k' : Key} (h : k'.parent = some (.hunkDir b d)) :
    Key.isUnder (.bandDir b) k' = true := by
  cases k' <;> simp_all [Key.parent, Key.isUnder]

section band
variable {s s' : Store} {b : Nat}

theorem _root_.Conserve.Exact.BandSame.hunkDir (h : BandSame s s' b) (d : Nat) : s'.get? (.hunkDir b d) = s.get? (.hunkDir b d) :=
  h _ (by simp [Key.isUnder, Key.parent])

theorem _root_.Conserve.Exact.BandSame.symm (h : BandSame s s' b) : BandSame s' s b := fun k hk => (h k hk).symm

theorem _root_.Conserve.Exact.BandSame.trans {s'' : Store} (h1 : BandSame s s' b) (h2 : BandSame s' s'' b) : BandSame s s'' b :=
  fun k hk => (h2 k hk).trans (h1 k hk)

theorem _root_.Conserve.Exact.BandSame.refl (s : Store) (b : Nat) : BandSame s s b := fun _ _ => rfl

theorem hunkSubdirsP_same (hs : s.NoDupKeys) (hs' : s'.NoDupKeys) (h : BandSame s s' b) :
    hunkSubdirsP s' b = hunkSubdirsP s b := by
  unfold hunkSubdirsP
  exact sortNat_filterMap_eq_of_perm _
    (children_perm hs hs' _ fun k' hk' => h k' (under_of_parent_indexDir hk'))

theorem hunksInSubdirP_same (hs : s.NoDupKeys) (hs' : s'.NoDupKeys) (h : BandSame s s' b) (d : Nat) :
    hunksInSubdirP s' b d = hunksInSubdirP s b d := by
  unfold hunksInSubdirP
  rw [h.hunkDir d, sortNat_filterMap_eq_of_perm _
    (children_perm hs hs' (.hunkDir b d) fun k' hk' => h k' (under_of_parent_hunkDir hk'))]

theorem hunksGoP_same (hs : s.NoDupKeys) (hs' : s'.NoDupKeys) (h : BandSame s s' b) (ds : List Nat) :
    ∀ acc, hunksGoP s' b ds acc = hunksGoP s b ds acc := by
  induction ds with
  | nil => intro acc; rfl
  | cons d ds ih =>
    intro acc
    simp only [hunksGoP, hunksInSubdirP_same hs hs' h d]
    cases hunksInSubdirP s b d with
    | ok hsx => exact ih _
    | error e => rfl

theorem hunksAvailableP_same (hs : s.NoDupKeys) (hs' : s'.NoDupKeys) (h : BandSame s s' b) :
    hunksAvailableP s' b = hunksAvailableP s b := by
  simp only [hunksAvailableP, h.indexDir, hunkSubdirsP_same hs hs' h, hunksGoP_same hs hs' h]

theorem hunkLensInSubdirP_same (hs : s.NoDupKeys) (hs' : s'.NoDupKeys) (h : BandSame s s' b) (d : Nat) :
    hunkLensInSubdirP s' b d = hunkLensInSubdirP s b d := by
  unfold hunkLensInSubdirP
  rw [h.hunkDir d]
  have hp := children_perm hs hs' (.hunkDir b d) fun k' hk' => h k' (under_of_parent_hunkDir hk')
  cases s.get? (.hunkDir b d) with
  | none => rfl
  | some v =>
    cases v with
    | dir =>
      simp only
      congr 1
      refine hunkPairs_eq_of_perm (b := b) (d := d) hp (Store.children_good hs' _) _ ?_
      intro e p hf
      cases hk : e.key with
      | hunk b' n =>
        simp only [hk] at hf
        split at hf
        · cases hf; exact ⟨b', rfl, rfl⟩
        · cases hf
      | _ => simp [hk] at hf
    | _ => rfl

theorem hunkLensGoP_same (hs : s.NoDupKeys) (hs' : s'.NoDupKeys) (h : BandSame s s' b) (ds : List Nat) :
    ∀ acc, hunkLensGoP s' b ds acc = hunkLensGoP s b ds acc := by
  induction ds with
  | nil => intro acc; rfl
  | cons d ds ih =>
    intro acc
    simp only [hunkLensGoP, hunkLensInSubdirP_same hs hs' h d]
    cases hunkLensInSubdirP s b d with
    | ok hsx => exact ih _
    | error e => rfl

theorem hunkLengthsP_same (hs : s.NoDupKeys) (hs' : s'.NoDupKeys) (h : BandSame s s' b) :
    hunkLengthsP s' b = hunkLengthsP s b := by
  simp only [hunkLengthsP, h.indexDir, hunkSubdirsP_same hs hs' h, hunkLensGoP_same hs hs' h]

theorem tailInfo_same (h : BandSame s s' b) : tailInfo s' b = tailInfo s b := by
  simp only [tailInfo, h.tail]

theorem checkIndexHunksP_same (hs : s.NoDupKeys) (hs' : s'.NoDupKeys) (h : BandSame s s' b) :
    checkIndexHunksP s' b = checkIndexHunksP s b := by
  simp only [checkIndexHunksP, hunkLengthsP_same hs hs' h, tailInfo_same h]

theorem readHunkP_same (h : BandSame s s' b) (n : Nat) : readHunkP s' b n = readHunkP s b n := by
  simp only [readHunkP, h.hunk]

theorem readHunksP_same (h : BandSame s s' b) (ns : List Nat) :
    ∀ after last, readHunksP s' b ns after last = readHunksP s b ns after last := by
  induction ns with
  | nil => intro _ _; rfl
  | cons n ns ih =>
    intro after last
    simp only [readHunksP, readHunkP_same h n, ih]

theorem readHunksErrs_same (h : BandSame s s' b) (ns : List Nat) :
    readHunksErrs s' b ns = readHunksErrs s b ns := by
  induction ns with
  | nil => rfl
  | cons n ns ih => simp only [readHunksErrs, readHunkP_same h n, ih]

theorem bandOpenP_same (h : BandSame s s' b) : bandOpenP s' b = bandOpenP s b := by
  simp only [bandOpenP, h.head]

theorem bandErrs_same (hs : s.NoDupKeys) (hs' : s'.NoDupKeys) (h : BandSame s s' b) :
    bandErrs s' b = bandErrs s b := by
  have : ∀ ns, readHunksErrs s' b ns = readHunksErrs s b ns := readHunksErrs_same h
  simp only [bandErrs, bandOpenP_same h, hunksAvailableP_same hs hs' h, checkIndexHunksP_same hs hs' h, this]

theorem bandTake_same (hs : s.NoDupKeys) (hs' : s'.NoDupKeys) (h : BandSame s s' b) (last : Option Str) :
    bandTake s' b last = bandTake s b last := by
  have : ∀ ns a l, readHunksP s' b ns a l = readHunksP s b ns a l := readHunksP_same h
  simp only [bandTake, bandOpenP_same h, hunksAvailableP_same hs hs' h, this]

theorem isFileP_head_same (h : BandSame s s' b) : isFileP s' (.bandHead b) = isFileP s (.bandHead b) := by
  simp only [isFileP, h.head]

theorem isFileP_tail_same (h : BandSame s s' b) : isFileP s' (.bandTail b) = isFileP s (.bandTail b) := by
  simp only [isFileP, h.tail]

end band

theorem isFileP_tail_eq (s : Store) (b : Nat) : isFileP s (.bandTail b) = isComplete s b := rfl

/-! ### The chain a listing walks down -/

/-- The two stores look alike to `stitchDown` below `b`: every version with a head file that the
walk reaches (it stops at the first one with a tail) holds the same in both; a version without head
file in `s` has none in `s'` either, and has index hunk 0 in both or in neither (what the repaired
`previous_existing_band` looks at to tell a lost head from a version that was never started). -/
def ChainSame (s s' : Store) : Nat → Prop
  | 0 => True
  | b + 1 =>
    if isFileP s (.bandHead b) then
      BandSame s s' b ∧ (isFileP s (.bandTail b) = false → ChainSame s s' b)
    else isFileP s' (.bandHead b) = false ∧ isFileP s' (.hunk b 0) = isFileP s (.hunk b 0) ∧ ChainSame s s' b

theorem stitchDownP_same {s s' : Store} (hs : s.NoDupKeys) (hs' : s'.NoDupKeys) (b : Nat) :
    ChainSame s s' b → ∀ last, stitchDownP s' b last = stitchDownP s b last := by
  induction b with
  | zero => intro _ _; rfl
  | succ b ih =>
    intro h last
    simp only [ChainSame] at h
    by_cases hh : isFileP s (.bandHead b) = true
    · simp only [hh, if_true] at h
      obtain ⟨hb, hrest⟩ := h
      simp only [stitchDownP, isFileP_head_same hb, hh, if_true, isFileP_tail_same hb,
        bandTake_same hs hs' hb, bandErrs_same hs hs' hb]
      by_cases ht : isFileP s (.bandTail b) = true
      · simp only [ht, if_true]
      · have ht' : isFileP s (.bandTail b) = false := by simpa using ht
        simp only [ht', Bool.false_eq_true, if_false, ih (hrest ht')]
    · have hh' : isFileP s (.bandHead b) = false := by simpa using hh
      simp only [hh', Bool.false_eq_true, if_false] at h
      simp only [stitchDownP, hh', h.1, h.2.1, Bool.false_eq_true, if_false, ih h.2.2]

/-- **What a listing reads**: `stitchAll b` returns the same entries and reports the same errors on
two maps that hold the same under `b`'s directory and — if `b` has no tail — look alike down the chain. -/
theorem stitchAllP_same {s s' : Store} (hs : s.NoDupKeys) (hs' : s'.NoDupKeys) {b : Nat}
    (hb : BandSame s s' b) (hc : isComplete s b = false → ChainSame s s' b) :
    stitchAllP s' b = stitchAllP s b := by
  simp only [stitchAllP, isFileP_tail_same hb, bandTake_same hs hs' hb, bandErrs_same hs hs' hb]
  by_cases ht : isFileP s (.bandTail b) = true
  · simp only [ht, if_true]
  · have ht' : isFileP s (.bandTail b) = false := by simpa using ht
    simp only [ht', Bool.false_eq_true, if_false, stitchDownP_same hs hs' b (hc ht')]

end Conserve.Hist
