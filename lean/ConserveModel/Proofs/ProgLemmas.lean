import ConserveModel.Prog
/-
Core lemmas for reasoning about programs: how `run` unfolds over the monad operations, and a
generic "every operation the program can issue satisfies P ⇒ every store it visits is related
to the start by R" rule.  No property statements here.
-/
namespace Conserve
open Prog

@[simp] theorem Prog.pure_def {α : Type} (a : α) : (pure a : Prog α) = .ret a := rfl
@[simp] theorem Prog.bind_def {α β : Type} (p : Prog α) (f : α → Prog β) : (p >>= f) = p.bind f := rfl

@[simp] theorem Prog.ret_bind {α β : Type} (a : α) (f : α → Prog β) : (Prog.ret a).bind f = f a := rfl
@[simp] theorem Prog.fail_bind {α β : Type} (e : Err) (f : α → Prog β) : (Prog.fail e : Prog α).bind f = .fail e := rfl
@[simp] theorem Prog.panic_bind {α β : Type} (s : String) (f : α → Prog β) : (Prog.panic s : Prog α).bind f = .panic s := rfl
@[simp] theorem Prog.emit_bind {α β : Type} (ev : Event) (k : Prog α) (f : α → Prog β) :
    (Prog.emit ev k).bind f = .emit ev (k.bind f) := rfl
@[simp] theorem Prog.op_bind {α β : Type} (o : Op) (k : Resp → Prog α) (f : α → Prog β) :
    (Prog.op o k).bind f = .op o (fun r => (k r).bind f) := rfl

@[simp] theorem Prog.run_ret {α : Type} (a : α) (w : World) : (Prog.ret a).run w = (.ok a, w) := rfl
@[simp] theorem Prog.run_fail {α : Type} (e : Err) (w : World) : (Prog.fail e : Prog α).run w = (.err e, w) := rfl
@[simp] theorem Prog.run_panic {α : Type} (s : String) (w : World) : (Prog.panic s : Prog α).run w = (.panic s, w) := rfl
@[simp] theorem Prog.run_emit {α : Type} (ev : Event) (k : Prog α) (w : World) :
    (Prog.emit ev k).run w = k.run { w with events := ev :: w.events } := rfl
@[simp] theorem Prog.run_op {α : Type} (o : Op) (k : Resp → Prog α) (w : World) :
    (Prog.op o k).run w = (k (w.exec o).2).run (w.exec o).1 := rfl

/-- Sequencing: run the first program, then (if it returned) the continuation. -/
theorem Prog.run_bind {α β : Type} (p : Prog α) (f : α → Prog β) (w : World) :
    (p.bind f).run w =
      match p.run w with
      | (.ok a, w') => (f a).run w'
      | (.err e, w') => (.err e, w')
      | (.panic s, w') => (.panic s, w') := by
  induction p generalizing w with
  | ret a => simp
  | fail e => simp
  | panic s => simp
  | emit ev k ih => simp [ih]
  | op o k ih => simp [ih]

theorem Prog.run_attempt {α : Type} (p : Prog α) (w : World) :
    p.attempt.run w =
      match p.run w with
      | (.ok a, w') => (.ok (.ok a), w')
      | (.err e, w') => (.ok (.error e), w')
      | (.panic s, w') => (.panic s, w') := by
  induction p generalizing w with
  | ret a => simp [Prog.attempt]
  | fail e => simp [Prog.attempt]
  | panic s => simp [Prog.attempt]
  | emit ev k ih => simp [Prog.attempt, ih]
  | op o k ih => simp [Prog.attempt, ih]

/-- Every operation node of the program (on every continuation branch) satisfies `P`. -/
inductive Prog.AllOps {α : Type} (P : Op → Prop) : Prog α → Prop
  | ret (a : α) : AllOps P (.ret a)
  | fail (e : Err) : AllOps P (.fail e)
  | panic (s : String) : AllOps P (.panic s)
  | emit (ev : Event) {k : Prog α} : AllOps P k → AllOps P (.emit ev k)
  | op {o : Op} {k : Resp → Prog α} : P o → (∀ r, AllOps P (k r)) → AllOps P (.op o k)

theorem Prog.AllOps.bind {α β : Type} {P : Op → Prop} {p : Prog α} {f : α → Prog β}
    (hp : Prog.AllOps P p) (hf : ∀ a, Prog.AllOps P (f a)) : Prog.AllOps P (p.bind f) := by
  induction hp with
  | ret a => exact hf a
  | fail e => exact .fail e
  | panic s => exact .panic s
  | emit ev _ ih => exact .emit ev ih
  | op ho _ ih => exact .op ho ih

theorem Prog.AllOps.attempt {α : Type} {P : Op → Prop} {p : Prog α}
    (hp : Prog.AllOps P p) : Prog.AllOps P p.attempt := by
  induction hp with
  | ret a => exact .ret _
  | fail e => exact .ret _
  | panic s => exact .panic s
  | emit ev _ ih => exact .emit ev ih
  | op ho _ ih => exact .op ho ih

/-- If every operation satisfying `P` keeps the store related by a reflexive, transitive `R`
(in every world: with faults, at crash points, dead), then running a program all of whose
operations satisfy `P` ends in a store related to the initial one. -/
theorem Prog.run_store_rel {α : Type} {P : Op → Prop} {R : Store → Store → Prop}
    (hrefl : ∀ s, R s s) (htrans : ∀ a b c, R a b → R b c → R a c)
    (hstep : ∀ (w : World) (o : Op), P o → R w.store (w.exec o).1.store)
    {p : Prog α} (hp : Prog.AllOps P p) (w : World) : R w.store (p.run w).2.store := by
  induction hp generalizing w with
  | ret a => exact hrefl _
  | fail e => exact hrefl _
  | panic s => exact hrefl _
  | emit ev _ ih => simpa using ih { w with events := ev :: w.events }
  | op ho _ ih =>
    rw [Prog.run_op]
    exact htrans _ _ _ (hstep w _ ho) (ih _ _)

end Conserve
