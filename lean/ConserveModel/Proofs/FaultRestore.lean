import ConserveModel.Proofs.FaultFinal
import ConserveModel.Proofs.ValidateGood
import ConserveModel.Proofs.ConformsStep
import ConserveModel.Proofs.HistRestore
/-
From the store a backup leaves to what `restore` gives:
* `archWF_of_ci` — C13's invariant (`CI`: conforms, a tree, a map) gives C08's well-formedness for listing;
* `restoreP_node_inv` — every node the per-entry loop of restore yields comes from a listed entry, with the
  content the block reader returns for that entry's addresses;
* `restoreP_nodes` — when nothing lies below a symlink and every entry is usable and readable, the loop is
  a `map` (`nodeOf`) and reports nothing;
* `final_exact` — a `Final` store restores (by id, or as the latest complete version) to exactly the source.
No property statements here.
-/
set_option linter.unusedSimpArgs false
namespace Conserve.Fault
open Conserve Conserve.Exact Conserve.Inv Conserve.Conf Conserve.Hist Prog

variable {H : Str → Str} {o : BackupOpts}

/-! ### `CI` ⇒ `ArchWF` -/

theorem flatten_filterMap_sublist {α β : Type} {f g : α → Option (List β)} {l : List α}
    (h : ∀ x ∈ l, f x = g x ∨ f x = none ∨ f x = some []) :
    ((l.filterMap f).flatten).Sublist ((l.filterMap g).flatten) := by
  induction l with
  | nil => exact List.Sublist.refl _
  | cons a l ih =>
    have ih := ih (fun x hx => h x (List.mem_cons_of_mem _ hx))
    rcases h a (List.mem_cons_self ..) with he | he | he
    · simp only [List.filterMap_cons, he]
      cases g a with
      | none => exact ih
      | some x => simp only [List.flatten_cons]; exact List.Sublist.append (List.Sublist.refl _) ih
    · simp only [List.filterMap_cons, he]
      cases g a with
      | none => exact ih
      | some x => simp only [List.flatten_cons]; exact List.Sublist.trans ih (List.sublist_append_right _ _)
    · simp only [List.filterMap_cons, he, List.flatten_cons, List.nil_append]
      cases g a with
      | none => exact ih
      | some x => simp only [List.flatten_cons]; exact List.Sublist.trans ih (List.sublist_append_right _ _)

theorem usableHunk_vs_sel (s : Store) (b n : Nat) :
    usableHunk s b n = selHunk (s.get? (.hunk b n)) ∨ usableHunk s b n = none ∨ usableHunk s b n = some [] := by
  unfold usableHunk selHunk
  cases s.get? (.hunk b n) with
  | none => exact Or.inl rfl
  | some v =>
    cases v with
    | hunk es =>
      by_cases hu : es.all entryUsable = true
      · simp [hu]
      · simp [hu]
    | empty => exact Or.inr (Or.inr rfl)
    | _ => exact Or.inl rfl

/-- **C13's invariant gives C08's well-formedness**: in a conforming tree-shaped map every version's
usable hunks are strictly increasing (they are some of the decodable ones). -/
theorem archWF_of_ci {s : Store} (hci : CI H s) : ArchWF s := by
  refine ⟨by simp only [keysNodup, decide_eq_true_eq]; exact hci.nodup,
    by simp only [treeShaped, List.all_eq_true]; exact hci.dirs, ?_⟩
  simp only [bandsSorted, List.all_eq_true]
  intro kv hm
  split
  · rename_i b n hk
    obtain ⟨k, v⟩ := kv
    simp only at hk
    subst hk
    have hn : UniqueKeys s := (uniqueKeys_iff_nodup s).2 hci.nodup
    have hb : b ∈ bandIdsOf s := bandDir_of_hunk hci.dirs (Store.get?_of_mem_unique hn hm)
    have hconf := hci.conf
    simp only [Conforms, Bool.and_eq_true, List.all_eq_true] at hconf
    have ok := bandOK_of_conforms (hconf.2 b hb)
    have hs := ok.sorted
    rw [Conserve.strictlySorted_iff] at hs ⊢
    rw [List.pairwise_map] at hs ⊢
    exact hs.sublist (flatten_filterMap_sublist fun n _ => usableHunk_vs_sel s b n)
  · rfl

/-! ### Where the nodes of a restore come from -/

theorem outcome_map_ok {α β : Type} {f : α → β} {x : Outcome α} {b : β} (h : Outcome.map f x = .ok b) :
    ∃ a, x = .ok a ∧ b = f a := by
  cases x with
  | ok a => simp only [Outcome.map, Outcome.ok.injEq] at h; exact ⟨a, rfl, h.symm⟩
  | err e => cases h
  | panic m => cases h

/-- What restore creates for entry `e`, reading its content from `s`. -/
def nodeOf (H : Str → Str) (s : Store) (e : IndexEntry) : RNode :=
  if e.kind = .file then
    { RNode.ofEntry e with content := (readContentP H s e.addrs []).1,
                           complete := (readContentP H s e.addrs []).2.isNone }
  else RNode.ofEntry e

/-- **Every node restore yields is `nodeOf` of a listed entry.** -/
theorem restoreP_node_inv {s : Store} : ∀ (es : List IndexEntry) (syms : List Str) (nodes : List RNode),
    (restoreP H s syms es).1 = .ok nodes → ∀ nd ∈ nodes, ∃ e ∈ es, nd = nodeOf H s e := by
  intro es
  induction es with
  | nil =>
    intro syms nodes h nd hnd
    simp only [restoreP, Outcome.ok.injEq] at h
    subst h; cases hnd
  | cons e es ih =>
    intro syms nodes h nd hnd
    have lift : ∀ {syms' nodes'}, (restoreP H s syms' es).1 = .ok nodes' → nd ∈ nodes' →
        ∃ e' ∈ e :: es, nd = nodeOf H s e' := by
      intro syms' nodes' h' hnd'
      obtain ⟨e', he', hn⟩ := ih syms' nodes' h' nd hnd'
      exact ⟨e', List.mem_cons_of_mem _ he', hn⟩
    have head : ∀ {syms' : List Str} {x : RNode}, x = nodeOf H s e →
        Outcome.map (x :: ·) (restoreP H s syms' es).1 = .ok nodes → ∃ e' ∈ e :: es, nd = nodeOf H s e' := by
      intro syms' x hx h'
      obtain ⟨rest, hr, rfl⟩ := outcome_map_ok h'
      rcases List.mem_cons.mp hnd with rfl | hnd'
      · exact ⟨e, List.mem_cons_self .., hx⟩
      · exact lift hr hnd'
    simp only [restoreP] at h
    split at h
    · exact lift h hnd
    · cases hk : e.kind with
      | dir =>
        simp only [hk] at h
        split at h
        · cases h
        · exact head (by simp [nodeOf, hk]) h
      | file =>
        simp only [hk] at h
        split at h
        · rename_i hh er hbad
          exact head (by simp [nodeOf, hk, hbad]) h
        · rename_i hbad
          split at h
          · cases h
          · exact head (by simp [nodeOf, hk, hbad, RNode.ofEntry]) h
      | symlink =>
        simp only [hk] at h
        split at h
        · exact lift h hnd
        · split at h
          · cases h
          · exact head (by simp [nodeOf, hk]) h
      | unknown =>
        simp only [hk] at h
        exact lift h hnd

/-- Nothing in the list lies strictly below a symlink of the list (the root never counts). -/
def NoneBelowSymlink (es : List IndexEntry) : Prop :=
  ∀ a ∈ es, ∀ b ∈ es, a.kind = .symlink → a.apath ≠ [slash] → a.apath ≠ b.apath →
    isPrefixOfImpl a.apath b.apath = false

theorem belowSymlink_false_of {all : List IndexEntry} (hall : NoneBelowSymlink all) {syms : List Str}
    (hsyms : ∀ p ∈ syms, ∃ a ∈ all, a.kind = .symlink ∧ a.apath = p) {e : IndexEntry} (he : e ∈ all) :
    belowSymlink syms e.apath = false := by
  unfold belowSymlink
  rw [List.any_eq_false]
  intro p hp
  obtain ⟨a, ha, hk, rfl⟩ := hsyms p hp
  by_cases h1 : a.apath = [slash]
  · simp [h1]
  · by_cases h2 : a.apath = e.apath
    · simp [h2]
    · simp [hall a ha e he hk h1 h2]

/-- **Restore as a map.**  If nothing listed lies below a listed symlink, every entry passed
`IndexEntry::check`, and every file entry's addresses can be read, the per-entry loop yields one node
per entry, in order, and reports nothing. -/
theorem restoreP_nodes {s : Store} {all : List IndexEntry} (hall : NoneBelowSymlink all) :
    ∀ (es : List IndexEntry) (syms : List Str), (∀ e ∈ es, e ∈ all) →
      (∀ p ∈ syms, ∃ a ∈ all, a.kind = .symlink ∧ a.apath = p) →
      (∀ e ∈ es, entryUsable e = true) →
      (∀ e ∈ es, e.kind = .file → (readContentP H s e.addrs []).2 = none) →
      restoreP H s syms es = (.ok (es.map (nodeOf H s)), []) := by
  intro es
  induction es with
  | nil => intro _ _ _ _ _; rfl
  | cons e es ih =>
    intro syms hsub hsyms hus hrd
    have hbelow := belowSymlink_false_of hall hsyms (hsub e (List.mem_cons_self ..))
    have hu := hus e (List.mem_cons_self ..)
    obtain ⟨t, ht⟩ := Option.isSome_iff_exists.mp (entryUsable_time hu)
    have hsub' : ∀ x ∈ es, x ∈ all := fun x hx => hsub x (List.mem_cons_of_mem _ hx)
    have hus' : ∀ x ∈ es, entryUsable x = true := fun x hx => hus x (List.mem_cons_of_mem _ hx)
    have hrd' : ∀ x ∈ es, x.kind = .file → (readContentP H s x.addrs []).2 = none :=
      fun x hx => hrd x (List.mem_cons_of_mem _ hx)
    cases hk : e.kind with
    | dir =>
      simp only [restoreP, hbelow, Bool.false_eq_true, if_false, hk, ht, ih syms hsub' hsyms hus' hrd', Outcome.map,
        List.map_cons]
      simp [nodeOf, hk]
    | file =>
      have hc := hrd e (List.mem_cons_self ..) hk
      simp only [restoreP, hbelow, Bool.false_eq_true, if_false, hk, hc, ht, ih syms hsub' hsyms hus' hrd',
        Outcome.map, List.map_cons]
      simp [nodeOf, hk, hc, RNode.ofEntry]
    | symlink =>
      have htg : ∃ tg, e.target = some tg := by
        simp only [entryUsable, Bool.and_eq_true, Bool.or_eq_true, bne_iff_ne, ne_eq] at hu
        rcases hu.1.2 with h | h
        · exact absurd hk h
        · exact Option.isSome_iff_exists.mp h
      obtain ⟨tg, htg⟩ := htg
      have hsyms' : ∀ p ∈ e.apath :: syms, ∃ a ∈ all, a.kind = .symlink ∧ a.apath = p := by
        intro p hp
        rcases List.mem_cons.mp hp with rfl | hp
        · exact ⟨e, hsub e (List.mem_cons_self ..), hk, rfl⟩
        · exact hsyms p hp
      simp only [restoreP, hbelow, Bool.false_eq_true, if_false, hk, htg, ht, ih _ hsub' hsyms' hus' hrd',
        Outcome.map, List.map_cons]
      simp [nodeOf, hk]
    | unknown =>
      simp only [entryUsable, Bool.and_eq_true, bne_iff_ne, ne_eq] at hu
      exact absurd hk hu.1.1.2

/-! ### Restore returns -/

/-- The per-entry loop returns nodes (never panics) when every entry passed `IndexEntry::check`. -/
theorem restoreP_ok {s : Store} : ∀ (es : List IndexEntry) (syms : List Str),
    (∀ e ∈ es, entryUsable e = true) → ∃ nodes, (restoreP H s syms es).1 = .ok nodes := by
  intro es
  induction es with
  | nil => intro _ _; exact ⟨[], rfl⟩
  | cons e es ih =>
    intro syms hus
    have hus' : ∀ x ∈ es, entryUsable x = true := fun x hx => hus x (List.mem_cons_of_mem _ hx)
    obtain ⟨t, ht⟩ := Option.isSome_iff_exists.mp (entryUsable_time (hus e (List.mem_cons_self ..)))
    simp only [restoreP]
    split
    · exact ih syms hus'
    · cases hk : e.kind with
      | dir =>
        obtain ⟨nodes, hn⟩ := ih syms hus'
        exact ⟨_, by simp only [ht, hn, Outcome.map]; rfl⟩
      | file =>
        obtain ⟨nodes, hn⟩ := ih syms hus'
        simp only
        split
        · exact ⟨_, by simp only [hn, Outcome.map]; rfl⟩
        · exact ⟨_, by simp only [ht, hn, Outcome.map]; rfl⟩
      | symlink =>
        simp only
        split
        · exact ih syms hus'
        · obtain ⟨nodes, hn⟩ := ih (e.apath :: syms) hus'
          exact ⟨_, by simp only [ht, hn, Outcome.map]; rfl⟩
      | unknown => exact ih syms hus'

/-- The filter of `Stitch::next` returns when every path is valid. -/
theorem filterP_ok (subtree : Str) (excl : Str → Bool) : ∀ (es : List IndexEntry),
    (∀ e ∈ es, isValid e.apath = true) → ∃ out, filterP subtree excl es = .ok out := by
  intro es
  induction es with
  | nil => intro _; exact ⟨[], rfl⟩
  | cons e es ih =>
    intro hv
    obtain ⟨out, ho⟩ := ih (fun x hx => hv x (List.mem_cons_of_mem _ hx))
    simp only [filterP]
    split
    · exact ⟨out, ho⟩
    · split
      · rename_i hnv
        simp [hv e (List.mem_cons_self ..)] at hnv
      · split
        · exact ⟨out, ho⟩
        · exact ⟨e :: out, by simp only [ho, Exact.Outcome.map]⟩

/-- **Restoring a version whose head opens, on a conforming archive, returns nodes** (it neither fails
nor panics; damaged blocks are reported per file, C10). -/
theorem restoreRaw_ok {s : Store} (hci : CI H s) {b : Nat} (hh : headOutcome s b = .ok ()) :
    ∃ nodes, (restoreRaw H s b).1 = .ok nodes := by
  have wf := archWF_of_ci hci
  have hroot : s.get? .blockRoot = some .dir := by
    have := hci.conf
    simp only [Conforms, Bool.and_eq_true, beq_iff_eq] at this
    exact this.1.1.2
  have hlisted : ∀ e ∈ (stitchAllP s b).1, entryUsable e = true := by
    rw [stitchAllP_fst wf]
    intro e he
    obtain ⟨_, _, es, _, hu, hee⟩ := C08.listed_is_stored he
    exact List.all_eq_true.mp hu e hee
  obtain ⟨out, hout⟩ := filterP_ok [slash] (fun _ => false) (stitchAllP s b).1
    (fun e he => NP.usable_valid (hlisted e he))
  obtain ⟨nodes, hn⟩ := restoreP_ok (H := H) (s := s) out []
    (fun e he => hlisted e (mem_of_filterP hout e he))
  refine ⟨nodes, ?_⟩
  simp only [restoreRaw, hh, hroot, if_true, hout, hn]

/-! ### A `Final` store restores exactly -/

/-- Everything C01 (a) says about the archive after the backup, from `Final` and C04's content fact. -/
structure FinalFacts (H : Str → Str) (o : BackupOpts) (src : List SrcEntry) (s s' : Store) : Prop where
  complete : isComplete s' (newBandOf s) = true
  wf : ArchWF s'
  st : StoreOK H s'
  listing : Paired (Records H o s') src (listSpec s' (newBandOf s))
  restoreSpecified :
    ((restore H (.specified (newBandOf s)) [slash] (fun _ => false)).run (World.clean s')).1
      = .ok (src.map (expectedNode o))
  restoreSpecifiedSilent :
    ((restore H (.specified (newBandOf s)) [slash] (fun _ => false)).run (World.clean s')).2.events = []
  restoreLatest :
    ((restore H .latestClosed [slash] (fun _ => false)).run (World.clean s')).1 = .ok (src.map (expectedNode o))
  restoreLatestSilent :
    ((restore H .latestClosed [slash] (fun _ => false)).run (World.clean s')).2.events = []

theorem final_exact {src : List SrcEntry} {s s' : Store} {hs : List (List IndexEntry)}
    (hf : Final H o (newBandOf s) s s' hs src) (hsrc : SrcGood src) (hst : StoreOK H s) (wf0 : ArchWF s)
    (hrec : ∀ n es, hunkAt s' (newBandOf s) n = some es → ∀ e ∈ es, e.kind = .file → RecOK H src s' e) :
    FinalFacts H o src s s' := by
  have hrecs := final_records hf hsrc hrec
  have husable : ∀ e ∈ hs.flatten, entryUsable e = true := by
    have : ∀ {l1 : List SrcEntry} {l2 : List IndexEntry}, Paired (Records H o s') l1 l2 →
        (∀ sf ∈ l1, sf ∈ src) → ∀ e ∈ l2, entryUsable e = true := by
      intro l1 l2 hp
      induction hp with
      | nil => intro _ e he; cases he
      | cons hab _ ih =>
        intro hsub e he
        rcases List.mem_cons.mp he with rfl | he
        · exact hab.usable hsrc (hsub _ (List.mem_cons_self ..)) hf.st.small
        · exact ih (fun x hx => hsub x (List.mem_cons_of_mem _ hx)) e he
    exact this hrecs (fun _ h => h)
  have wf : ArchWF s' := final_archWF hf wf0 husable hsrc.sorted
  have hhead : headOutcome s' (newBandOf s) = .ok () :=
    headOutcome_of_readable (by simp [headReadable, hf.head])
  have hspecP : restoreSpecP H s' (newBandOf s) = (.ok (src.map (expectedNode o)), []) := by
    unfold restoreSpecP
    rw [hhead, final_listSpec hf husable, final_listErrors hf husable,
      restoreP_records hsrc hrecs (fun _ hx => hx) [] (fun _ hp => nomatch hp)]
    rfl
  have hmem : newBandOf s ∈ bandIdsOf s' := (Exact.mem_bandIdsOf hf.st).2 hf.bandDir
  have hle : ∀ b ∈ bandIdsOf s', b ≤ newBandOf s := by
    intro b hb
    by_cases hne : b = newBandOf s
    · omega
    · have := (Exact.mem_bandIdsOf hf.st).1 hb
      rw [hf.frame _ (by simp [newKey, Key.isUnder, Key.parent, isBlockish, hne])] at this
      exact Nat.le_of_lt (nextBandId_gt _ b ((Exact.mem_bandIdsOf hst).2 this))
  have hspec := (restore_specified_runs wf hf.st (newBandOf s)).clean
  have hlatest := (restore_latest_runs wf hf.st hmem hle hhead (final_complete hf)).clean
  rw [hspecP] at hspec hlatest
  refine ⟨final_complete hf, wf, hf.st, ?_, hspec.1, hspec.2.2, hlatest.1, hlatest.2.2⟩
  rw [final_listSpec hf husable]
  exact hrecs

end Conserve.Fault
