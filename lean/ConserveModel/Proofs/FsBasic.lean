import ConserveModel.Fs
/-
Basic facts about the `Fs` node map and the locality of every system call: a call whose path
resolves to `p` changes at most the node at `p` (keeping its kind, or creating it) and the
mtime of `p`'s parent directory (only when it creates `p`).
-/
namespace Conserve

theorem Fs.node_set (fs : Fs) (p q : Path) (x : FNode) :
    (fs.set p x).node q = if q = p then some x else fs.node q := by
  unfold Fs.node Fs.set
  simp only [List.find?_cons]
  by_cases h : q = p
  · subst h; simp
  · have h2 : (p == q) = false := by
      simp only [beq_eq_false_iff_ne, ne_eq]; exact fun e => h e.symm
    simp [h2, h]

theorem Fs.node_modify (fs : Fs) (p q : Path) (f : FNode → FNode) :
    (fs.modify p f).node q = if q = p then (fs.node p).map f else fs.node q := by
  unfold Fs.modify
  cases h : fs.node p with
  | none => by_cases hq : q = p <;> simp [hq, h]
  | some x => simp [Fs.node_set]

theorem Fs.node_createAt (fs : Fs) (p q : Path) (x : FNode) :
    (fs.createAt p x).node q =
      if q = p.dropLast then (if p.dropLast = p then some x else fs.node p.dropLast).map FNode.touch
      else if q = p then some x else fs.node q := by
  unfold Fs.createAt
  rw [Fs.node_modify, Fs.node_set, Fs.node_set]

/-- Equal up to the modification time. -/
def EqMod (a b : Option FNode) : Prop := a.map FNode.touch = b.map FNode.touch

theorem EqMod.refl (a : Option FNode) : EqMod a a := rfl
theorem EqMod.trans {a b c : Option FNode} (h1 : EqMod a b) (h2 : EqMod b c) : EqMod a c :=
  Eq.trans h1 h2
theorem EqMod.of_eq {a b : Option FNode} (h : a = b) : EqMod a b := by subst h; rfl

theorem EqMod.none_iff {a b : Option FNode} (h : EqMod a b) : a = none ↔ b = none := by
  unfold EqMod at h
  cases a <;> cases b <;> simp_all

theorem EqMod.some_left {a b : Option FNode} {x : FNode} (h : EqMod a b) (ha : a = some x) :
    ∃ y, b = some y ∧ y.kind = x.kind ∧ y.mode = x.mode ∧ y.content = x.content ∧
      y.uid = x.uid ∧ y.gid = x.gid ∧ y.target = x.target := by
  unfold EqMod at h
  subst ha
  cases b with
  | none => simp at h
  | some y =>
    refine ⟨y, rfl, ?_⟩
    simp only [Option.map_some, Option.some.injEq, FNode.touch, FNode.mk.injEq] at h
    obtain ⟨h1, h2, h3, h4, h5, h6, _⟩ := h
    exact ⟨h1.symm, h4.symm, h2.symm, h5.symm, h6.symm, h3.symm⟩

theorem EqMod.touch_right (a : Option FNode) : EqMod a (a.map FNode.touch) := by
  unfold EqMod
  cases a <;> simp [FNode.touch]

/-- `fs'` arises from `fs` by changing (kind kept) or creating (with kind `k`) the node at `p`,
touching the mtime of `p`'s parent only if `p` did not exist. -/
structure Local (k : FKind) (fs fs' : Fs) (p : Path) : Prop where
  frame : ∀ q, q ≠ p → q ≠ p.dropLast → fs'.node q = fs.node q
  parent : p.dropLast ≠ p → EqMod (fs.node p.dropLast) (fs'.node p.dropLast) ∧
    (fs.node p ≠ none → fs'.node p.dropLast = fs.node p.dropLast)
  self : ∀ x, fs.node p = some x → ∃ x', fs'.node p = some x' ∧ x'.kind = x.kind
  created : ∀ x', fs.node p = none → fs'.node p = some x' → x'.kind = k

theorem Local.refl (k : FKind) (fs : Fs) (p : Path) : Local k fs fs p :=
  ⟨fun _ _ _ => rfl, fun _ => ⟨EqMod.refl _, fun _ => rfl⟩, fun x h => ⟨x, h, rfl⟩,
   fun x' h1 h2 => by rw [h1] at h2; cases h2⟩

theorem Local.trans {k : FKind} {fs fs1 fs2 : Fs} {p : Path} (h1 : Local k fs fs1 p)
    (h2 : Local k fs1 fs2 p) : Local k fs fs2 p := by
  refine ⟨fun q a b => (h2.frame q a b).trans (h1.frame q a b), fun hp => ?_, fun x hx => ?_,
    fun x' hn hs => ?_⟩
  · obtain ⟨a1, b1⟩ := h1.parent hp
    obtain ⟨a2, b2⟩ := h2.parent hp
    refine ⟨a1.trans a2, fun hne => ?_⟩
    rw [b2, b1 hne]
    cases hx : fs.node p with
    | none => exact absurd hx hne
    | some x =>
      obtain ⟨x', hx', _⟩ := h1.self x hx
      simp [hx']
  · obtain ⟨x1, hx1, hk1⟩ := h1.self x hx
    obtain ⟨x2, hx2, hk2⟩ := h2.self x1 hx1
    exact ⟨x2, hx2, hk2.trans hk1⟩
  · cases h : fs1.node p with
    | none => exact h2.created x' h hs
    | some x1 =>
      obtain ⟨x2, hx2, hk2⟩ := h2.self x1 h
      rw [hs] at hx2
      cases hx2
      rw [hk2]
      exact h1.created x1 hn h

theorem Local.of_set {k : FKind} {fs : Fs} {p : Path} {x x' : FNode} (h : fs.node p = some x)
    (hk : x'.kind = x.kind) : Local k fs (fs.set p x') p := by
  refine ⟨fun q a _ => by simp [Fs.node_set, a], fun hp => ?_, fun y hy => ?_, fun y hn => ?_⟩
  · have : (fs.set p x').node p.dropLast = fs.node p.dropLast := by simp [Fs.node_set, hp]
    exact ⟨EqMod.of_eq this.symm, fun _ => this⟩
  · rw [h] at hy; cases hy
    exact ⟨x', by simp [Fs.node_set], hk⟩
  · rw [h] at hn; cases hn

theorem Local.of_modify {k : FKind} {fs : Fs} {p : Path} {f : FNode → FNode}
    (hf : ∀ x, (f x).kind = x.kind) : Local k fs (fs.modify p f) p := by
  unfold Fs.modify
  cases h : fs.node p with
  | none => exact Local.refl k fs p
  | some x => exact Local.of_set h (hf x)

theorem Local.of_createAt {k : FKind} {fs : Fs} {p : Path} {x : FNode} (h : fs.node p = none)
    (hk : x.kind = k) : Local k fs (fs.createAt p x) p := by
  refine ⟨fun q a b => by simp [Fs.node_createAt, a, b], fun hp => ?_, fun y hy => ?_,
    fun y _ hy => ?_⟩
  · refine ⟨?_, fun hne => absurd h hne⟩
    have : (fs.createAt p x).node p.dropLast = (fs.node p.dropLast).map FNode.touch := by
      simp [Fs.node_createAt, hp]
    rw [this]
    exact EqMod.touch_right _
  · rw [h] at hy; cases hy
  · by_cases hp : p = p.dropLast
    · rw [Fs.node_createAt, if_pos hp, if_pos hp.symm] at hy
      simp only [Option.map_some, Option.some.injEq] at hy
      rw [← hy]; exact hk
    · rw [Fs.node_createAt, if_neg hp, if_pos rfl] at hy
      cases hy; exact hk

/-! ### Locality of each system call: if the path can only resolve to `p0`, the call is local at `p0`. -/

section
variable {fs : Fs} {path : List Str} {p0 : Path}

theorem Fs.mkdir_local (hres : ∀ p, fs.resolve false path = .ok p → p = p0) :
    Local .dir fs (fs.mkdir path).1 p0 := by
  unfold Fs.mkdir
  cases hr : fs.resolve false path with
  | error e => exact Local.refl _ _ _
  | ok p =>
    have hp := hres p hr; subst hp
    dsimp only
    cases hn : fs.node p with
    | some _ => exact Local.refl _ _ _
    | none => exact Local.of_createAt hn rfl

theorem Fs.symlink_local {target : Str} (hres : ∀ p, fs.resolve false path = .ok p → p = p0) :
    Local .symlink fs (fs.symlink target path).1 p0 := by
  unfold Fs.symlink
  cases hr : fs.resolve false path with
  | error e => exact Local.refl _ _ _
  | ok p =>
    have hp := hres p hr; subst hp
    dsimp only
    cases hn : fs.node p with
    | some _ => exact Local.refl _ _ _
    | none =>
      by_cases ht : target = []
      · simp only [ht, if_true]; exact Local.refl _ _ _
      · simp only [ht, if_false]; exact Local.of_createAt hn rfl

theorem Fs.create_local (hres : ∀ p, fs.resolve true path = .ok p → p = p0) :
    Local .file fs (fs.create path).1 p0 ∧
    ∀ h, (fs.create path).2 = .ok h → h = p0 ∧ ∃ x, (fs.create path).1.node p0 = some x ∧ x.kind = .file := by
  unfold Fs.create
  cases hr : fs.resolve true path with
  | error e => exact ⟨Local.refl _ _ _, fun h hh => by cases hh⟩
  | ok p =>
    have hp := hres p hr; subst hp
    dsimp only
    cases hn : fs.node p with
    | some x =>
      by_cases hd : x.kind = .dir
      · simp only [hd, if_true]; exact ⟨Local.refl _ _ _, fun h hh => by cases hh⟩
      · by_cases hl : x.kind = .symlink
        · simp only [hl, if_true]; exact ⟨Local.refl _ _ _, fun h hh => by cases hh⟩
        · simp only [hd, hl, if_false]
          refine ⟨Local.of_set hn rfl, fun h hh => ?_⟩
          cases hh
          refine ⟨rfl, _, by rw [Fs.node_set, if_pos rfl], ?_⟩
          show x.kind = .file
          cases hx : x.kind <;> simp_all
    | none =>
      refine ⟨Local.of_createAt hn rfl, fun h hh => ?_⟩
      cases hh
      refine ⟨rfl, ?_⟩
      by_cases hp : p = p.dropLast
      · exact ⟨_, by rw [Fs.node_createAt, if_pos hp, if_pos hp.symm]; rfl, rfl⟩
      · exact ⟨_, by rw [Fs.node_createAt, if_neg hp, if_pos rfl], rfl⟩

theorem Fs.lchown_local {k : FKind} {u g : Option Nat}
    (hres : ∀ p, fs.resolve false path = .ok p → p = p0) :
    Local k fs (fs.lchown path u g).1 p0 := by
  unfold Fs.lchown
  cases hr : fs.resolve false path with
  | error e => exact Local.refl _ _ _
  | ok p =>
    have hp := hres p hr; subst hp
    dsimp only
    cases hn : fs.node p with
    | none => exact Local.refl _ _ _
    | some x => exact Local.of_set hn rfl

theorem Fs.chmod_local {k : FKind} {m : Nat}
    (hres : ∀ p, fs.resolve true path = .ok p → p = p0) :
    Local k fs (fs.chmod path m).1 p0 := by
  unfold Fs.chmod
  cases hr : fs.resolve true path with
  | error e => exact Local.refl _ _ _
  | ok p =>
    have hp := hres p hr; subst hp
    dsimp only
    cases hn : fs.node p with
    | none => exact Local.refl _ _ _
    | some x => exact Local.of_set hn rfl

theorem Fs.utimes_local {k : FKind} {follow : Bool} {t : Int}
    (hres : ∀ p, fs.resolve follow path = .ok p → p = p0) :
    Local k fs (fs.utimes follow path t).1 p0 := by
  unfold Fs.utimes
  cases hr : fs.resolve follow path with
  | error e => exact Local.refl _ _ _
  | ok p =>
    have hp := hres p hr; subst hp
    dsimp only
    cases hn : fs.node p with
    | none => exact Local.refl _ _ _
    | some x => exact Local.of_set hn rfl

end

theorem Fs.writeAt_local {k : FKind} (fs : Fs) (h : Path) (b : Str) : Local k fs (fs.writeAt h b) h :=
  Local.of_modify fun _ => rfl

theorem Fs.futimensAt_local {k : FKind} (fs : Fs) (h : Path) (t : Int) :
    Local k fs (fs.futimensAt h t) h :=
  Local.of_modify fun _ => rfl

end Conserve
