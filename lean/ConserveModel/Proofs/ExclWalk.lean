import ConserveModel.Props.C11Walk
import ConserveModel.Props.C15
/-
Helper lemmas for C15e: the walk never asks the exclusion predicate about the root, so it only
depends on the predicate's values below the root; pruning = filtering for predicates that are
descendant-closed BELOW the root; the compiled glob set (`Exclude.matches`) is such a predicate.
No property statements here.
-/
namespace Conserve
open Std

theorem flatMap_congr_mem {α β : Type} {l : List α} {f g : α → List β} (h : ∀ a ∈ l, f a = g a) :
    l.flatMap f = l.flatMap g := by
  induction l with
  | nil => rfl
  | cons a l ih =>
    rw [List.flatMap_cons, List.flatMap_cons, h a List.mem_cons_self,
      ih (fun b hb => h b (List.mem_cons_of_mem _ hb))]

theorem pathOf_snoc_ne_root {cs : List Str} {x : Str} (h : GoodComps (cs ++ [x])) :
    pathOf (cs ++ [x]) ≠ [slash] := by
  intro e
  have : cs ++ [x] = [] := pathOf_injective h (fun _ hc => nomatch hc) e
  simp at this

theorem pathOf_cons_ne_root {cs : List Str} {x : Str} {t : List Str} (h : GoodComps (cs ++ x :: t)) :
    pathOf (cs ++ x :: t) ≠ [slash] := by
  intro e
  have : cs ++ x :: t = [] := pathOf_injective h (fun _ hc => nomatch hc) e
  simp at this

/-- The walk below a well-formed directory depends only on what the exclusion predicate says about
paths other than the root. -/
theorem walkBelow_congr (e1 e2 : Str → Bool) (hag : ∀ p, p ≠ [slash] → e1 p = e2 p) (f : Forest) :
    ∀ cs, GoodComps cs → f.WF = true → f.walkBelow e1 (pathOf cs) = f.walkBelow e2 (pathOf cs) := by
  induction f using Forest.kids_induction with
  | h f ih =>
    intro cs hcs hwf
    have F := listingFacts e1 hcs hwf
    have hlive : live e1 (pathOf cs) f = live e2 (pathOf cs) f := by
      unfold live
      apply List.filter_congr
      intro p hp
      have hg : GoodComps (cs ++ [p.1]) := hcs.append (GoodComps.single (F.good p hp))
      rw [F.append p hp, hag _ (pathOf_snoc_ne_root hg)]
    rw [Forest.walkBelow_eq e1, Forest.walkBelow_eq e2, hlive]
    congr 1
    apply flatMap_congr_mem
    intro p hp
    have hp' : p ∈ f.toList := mem_sorted_live_dirs hp
    have hg : GoodComps (cs ++ [p.1]) := hcs.append (GoodComps.single (F.good p hp'))
    rw [F.append p hp']
    exact ih p hp' (cs ++ [p.1]) hg (F.wfKids p hp')

/-- The walk of a well-formed tree depends only on what the exclusion predicate says about paths
other than the root (the root entry is emitted untested, and no child path is "/"). -/
theorem walk_congr (T : Node) (e1 e2 : Str → Bool) (hwf : T.WF = true)
    (hag : ∀ p, p ≠ [slash] → e1 p = e2 p) : C11.walk T e1 = C11.walk T e2 := by
  unfold C11.walk
  rw [C11.walk_deque_eq_rec, C11.walk_deque_eq_rec, walkRec_eq, walkRec_eq]
  congr 1
  exact walkBelow_congr e1 e2 hag T.kids [] (fun _ h => nomatch h) (Node.WF_kids hwf)

/-- Every entry after the first of a walk has a path other than "/". -/
theorem walk_tail_ne_root (T : Node) (excl : Str → Bool) (hwf : T.WF = true) :
    ∀ e ∈ (C11.walk T excl).tail, e.apath ≠ [slash] := by
  unfold C11.walk
  rw [C11.walk_deque_eq_rec, walkRec_eq, List.tail_cons]
  intro e he
  obtain ⟨x, t, hg, hea⟩ :=
    (walkBelow_sorted excl T.kids [] (fun _ h => nomatch h) (Node.WF_kids hwf)).2 e he
  rw [hea]
  exact pathOf_cons_ne_root (cs := []) hg

theorem walk_eq_cons_tail (T : Node) (excl : Str → Bool) :
    C11.walk T excl = T.entry [slash] :: (C11.walk T excl).tail := by
  unfold C11.walk
  rw [C11.walk_deque_eq_rec, walkRec_eq, List.tail_cons]

/-- **Pruning = filtering with the root left out of the test.**  `excl` need only be closed under
descendants of paths OTHER than the root (the pattern "/" excludes the root and nothing below it). -/
theorem walk_prune_tail (T : Node) (excl : Str → Bool) (hwf : T.WF = true)
    (hcl : ∀ a p, isValid a = true → isValid p = true → a ≠ [slash] → excl a = true → StrictDesc a p →
      excl p = true) :
    (C11.walk T excl).tail = ((C11.walk T C11.noExcl).tail).filter (fun e => !excl e.apath) := by
  let excl' : Str → Bool := fun p => p != [slash] && excl p
  have hag : ∀ p, p ≠ [slash] → excl p = excl' p := by
    intro p hp; simp [excl', hp]
  have hcl' : ∀ a p, isValid a = true → isValid p = true → excl' a = true → StrictDesc a p →
      excl' p = true := by
    intro a p ha hp hea hd
    simp only [excl', Bool.and_eq_true, bne_iff_ne, ne_eq] at hea ⊢
    refine ⟨?_, hcl a p ha hp hea.1 hea.2 hd⟩
    intro e
    subst e
    -- nothing is a proper ancestor of the root
    obtain ⟨h1, h2⟩ := hd
    unfold isAncestorOrSelf at h1
    rw [List.isPrefixOf_iff_prefix] at h1
    have hc : components [slash] = [] := by decide
    rw [hc] at h1
    have hca : components a = [] := List.prefix_nil.mp h1
    obtain ⟨_, ea⟩ := valid_eq_pathOf ha
    rw [hca] at ea
    exact h2 ea
  rw [walk_congr T excl excl' hwf hag, C11.walk_prune_eq_filter T excl' hwf hcl']
  apply List.filter_congr
  intro e he
  rw [hag _ (walk_tail_ne_root T _ hwf e he)]

/-- The same for the whole walk: the root entry, then the filtered rest. -/
theorem walk_prune_cons (T : Node) (excl : Str → Bool) (hwf : T.WF = true)
    (hcl : ∀ a p, isValid a = true → isValid p = true → a ≠ [slash] → excl a = true → StrictDesc a p →
      excl p = true) :
    C11.walk T excl =
      T.entry [slash] :: ((C11.walk T C11.noExcl).tail).filter (fun e => !excl e.apath) := by
  rw [← walk_prune_tail T excl hwf hcl]
  exact walk_eq_cons_tail T excl

/-- With the exact guard — the predicate does not hold of "/" — pruning is filtering of the whole
walk, root included. -/
theorem walk_prune_all (T : Node) (excl : Str → Bool) (hwf : T.WF = true)
    (hcl : ∀ a p, isValid a = true → isValid p = true → a ≠ [slash] → excl a = true → StrictDesc a p →
      excl p = true) (hroot : excl [slash] = false) :
    C11.walk T excl = (C11.walk T C11.noExcl).filter (fun e => !excl e.apath) := by
  rw [walk_prune_cons T excl hwf hcl]
  conv => rhs; rw [walk_eq_cons_tail T C11.noExcl]
  rw [List.filter_cons]
  simp [Node.entry_apath, hroot]

/-- A valid path other than the root is "/" followed by a non-empty rest. -/
theorem valid_nonroot_shape {a : Str} (ha : isValid a = true) (hne : a ≠ [slash]) :
    ∃ rs, rs ≠ [] ∧ a = slash :: rs := by
  cases a with
  | nil => simp [isValid] at ha
  | cons c rs =>
    have hc : c = slash := by
      by_cases hc : c = slash
      · exact hc
      · simp [isValid, hc] at ha
    subst hc
    refine ⟨rs, ?_, rfl⟩
    intro e; subst e; exact hne rfl

theorem valid_shape {a : Str} (ha : isValid a = true) : ∃ rs, a = slash :: rs := by
  cases a with
  | nil => simp [isValid] at ha
  | cons c rs =>
    have hc : c = slash := by
      by_cases hc : c = slash
      · exact hc
      · simp [isValid, hc] at ha
    subst hc
    exact ⟨rs, rfl⟩

/-- The compiled glob set is closed under descendants of every valid path other than the root —
the hypothesis of `walk_prune_tail`, from C15 `excl_desc_closed_apath`. -/
theorem exclude_desc_closed_nonroot (pats : List Str) (E : Exclude)
    (h : Exclude.fromStrings pats = some E) :
    ∀ a p, isValid a = true → isValid p = true → a ≠ [slash] → E.matches a = true → StrictDesc a p →
      E.matches p = true := by
  intro a p ha hp hne hea hd
  obtain ⟨rs, hrs, rfl⟩ := valid_nonroot_shape ha hne
  obtain ⟨rp, rfl⟩ := valid_shape hp
  exact C15.excl_desc_closed_apath pats E h rs rp hrs hea hd.1 hd.2

end Conserve
