import ConserveModel.Proofs.RaceBasic
import ConserveModel.Proofs.StoreLemmas
import ConserveModel.Proofs.StoreNoDup
/-
C06 on the full model — the operations `backup` issues after its second look at the gc lock
(`CritOp`), and the fact that a program made of them does not notice the lock file: two stores that
are the same list once the `GC_LOCK` entry is dropped (`LockEq`) give the same responses and stay
related.  No property statements here.
-/
namespace Conserve
open Prog

/-- What `backup` issues after its second look at the lock: reads that do not involve the lock
file or the archive directory's listing; creating hunk and block sub-directories; `CreateNew`
writes of hunks, blocks and a band tail. -/
def CritOp : Op → Prop
  | .read k | .metadata k => k ≠ .gcLock
  | .listDir k => k ≠ .root ∧ k ≠ .gcLock
  | .createDir k => (∃ b d, k = .hunkDir b d) ∨ (∃ p, k = .blockDir p)
  | .write k _ m => m = .createNew ∧ ((∃ b i, k = .hunk b i) ∨ (∃ h, k = .block h) ∨ (∃ b, k = .bandTail b))
  | _ => False

/-- The same list of entries once the lock file's entry is dropped. -/
def LockEq (s s' : Store) : Prop :=
  s.filter (fun kv => kv.1 != Key.gcLock) = s'.filter (fun kv => kv.1 != Key.gcLock)

theorem LockEq.refl (s : Store) : LockEq s s := rfl
theorem LockEq.symm {s s' : Store} (h : LockEq s s') : LockEq s' s := Eq.symm h
theorem LockEq.trans {a b c : Store} (h1 : LockEq a b) (h2 : LockEq b c) : LockEq a c := Eq.trans h1 h2

theorem LockEq.get? {s s' : Store} (h : LockEq s s') {k : Key} (hk : k ≠ .gcLock) : s.get? k = s'.get? k := by
  have h1 := Store.get?_filter_key (fun k => k != Key.gcLock) s k
  have h2 := Store.get?_filter_key (fun k => k != Key.gcLock) s' k
  have hp : (k != Key.gcLock) = true := by simpa using hk
  simp only [hp, if_true] at h1 h2
  rw [← h1, ← h2]
  exact congrArg (fun l => Store.get? l k) h

theorem filter_lock_filter (s : Store) (p : Key × FileVal → Bool) (hp : ∀ v, p (Key.gcLock, v) = false) :
    (s.filter fun kv => kv.1 != Key.gcLock).filter p = s.filter p := by
  rw [List.filter_filter]
  apply List.filter_congr
  intro kv _
  obtain ⟨k, v⟩ := kv
  by_cases hk : k = Key.gcLock
  · subst hk; simp [hp v]
  · have : (k != Key.gcLock) = true := by simpa using hk
    simp [this]

theorem LockEq.filter {s s' : Store} (h : LockEq s s') (p : Key × FileVal → Bool)
    (hp : ∀ v, p (Key.gcLock, v) = false) : s.filter p = s'.filter p := by
  rw [← filter_lock_filter s p hp, ← filter_lock_filter s' p hp]
  exact congrArg (fun l => List.filter p l) h

theorem LockEq.children {s s' : Store} (h : LockEq s s') {k : Key} (hk : k ≠ .root) :
    s.children k = s'.children k := by
  unfold Store.children
  rw [h.filter (fun kv => kv.1.parent == some k) (fun v => by
    simp only [Key.parent, beq_eq_false_iff_ne, ne_eq, Option.some.injEq]
    exact fun e => hk e.symm)]

theorem LockEq.of_filter_comm {s s' : Store} (h : LockEq s s') (p : Key × FileVal → Bool) :
    LockEq (s.filter p) (s'.filter p) := by
  unfold LockEq at *
  rw [List.filter_filter, List.filter_filter]
  have e : ∀ l : Store, l.filter (fun a => (a.1 != Key.gcLock) && p a) =
      (l.filter fun kv => kv.1 != Key.gcLock).filter p := by
    intro l; rw [List.filter_filter]; apply List.filter_congr; intro a _; exact Bool.and_comm _ _
  rw [e s, e s', h]

theorem LockEq.erase {s s' : Store} (h : LockEq s s') (k : Key) : LockEq (s.erase k) (s'.erase k) :=
  h.of_filter_comm _

theorem LockEq.append {s s' t : Store} (h : LockEq s s') : LockEq (s ++ t) (s' ++ t) := by
  unfold LockEq at *
  rw [List.filter_append, List.filter_append, h]

theorem LockEq.put {s s' : Store} (h : LockEq s s') (k : Key) (v : FileVal) : LockEq (s.put k v) (s'.put k v) :=
  (h.erase k).append

/-- Writing or removing the lock file itself. -/
theorem LockEq.put_lock (s : Store) (v : FileVal) : LockEq s (s.put .gcLock v) := by
  unfold LockEq Store.put Store.erase
  rw [List.filter_append, List.filter_filter]
  simp

theorem LockEq.erase_lock (s : Store) : LockEq s (s.erase .gcLock) := by
  unfold LockEq Store.erase
  rw [List.filter_filter]
  simp

theorem LockEq.has {s s' : Store} (h : LockEq s s') {k : Key} (hk : k ≠ .gcLock) : s.has k = s'.has k := by
  unfold Store.has; rw [h.get? hk]

theorem parent_ne_lock (k : Key) : k.parent ≠ some .gcLock := by
  cases k <;> simp [Key.parent]

theorem LockEq.parentOk {s s' : Store} (h : LockEq s s') (k : Key) : s.parentOk k = s'.parentOk k := by
  unfold Store.parentOk
  cases hp : k.parent with
  | none => rfl
  | some p =>
    have : p ≠ .gcLock := fun e => parent_ne_lock k (by rw [hp, e])
    simp only [h.get? this]

/-- One operation of the critical part on two stores that differ in the lock file only. -/
theorem LockEq.apply_op {s s' : Store} (h : LockEq s s') {o : Op} (ho : CritOp o) :
    (applyOp true s o).2 = (applyOp true s' o).2 ∧ LockEq (applyOp true s o).1 (applyOp true s' o).1 := by
  cases o with
  | read k =>
    have hk : k ≠ .gcLock := ho
    simp only [applyOp, ← h.get? hk]
    split <;> exact ⟨rfl, h⟩
  | metadata k =>
    have hk : k ≠ .gcLock := ho
    simp only [applyOp, ← h.get? hk]
    split <;> exact ⟨rfl, h⟩
  | listDir k =>
    obtain ⟨hr, hk⟩ : k ≠ .root ∧ k ≠ .gcLock := ho
    simp only [applyOp, ← h.get? hk, ← h.children hr]
    split <;> exact ⟨rfl, h⟩
  | createDir k =>
    have hk : k ≠ .gcLock := by
      rcases (ho : (∃ b d, k = .hunkDir b d) ∨ (∃ p, k = .blockDir p)) with ⟨b, d, rfl⟩ | ⟨p, rfl⟩ <;> simp
    simp only [applyOp, ← h.has hk, ← h.parentOk k]
    split
    · exact ⟨rfl, h⟩
    · split
      · exact ⟨rfl, h⟩
      · exact ⟨rfl, h.put _ _⟩
  | write k v m =>
    obtain ⟨_, hkk⟩ := (ho : m = .createNew ∧ ((∃ b i, k = .hunk b i) ∨ (∃ h, k = .block h) ∨ (∃ b, k = .bandTail b)))
    have hk : k ≠ .gcLock := by
      rcases hkk with ⟨b, i, rfl⟩ | ⟨p, rfl⟩ | ⟨b, rfl⟩ <;> simp
    simp only [applyOp, ← h.get? hk, ← h.parentOk k]
    split
    · exact ⟨rfl, h⟩
    · split
      · exact ⟨rfl, h⟩
      · split
        · exact ⟨rfl, h⟩
        · exact ⟨rfl, h.put _ _⟩
      · exact ⟨rfl, h.put _ _⟩
  | removeFile k => exact absurd ho (by simp [CritOp])
  | removeDirAll k => exact absurd ho (by simp [CritOp])

/-- A program of the critical part on two stores that differ in the lock file only. -/
theorem LockEq.solo {α : Type} {p : Prog α} (hp : AllOps CritOp p) {s s' : Store} (h : LockEq s s') :
    (p.solo s).1 = (p.solo s').1 ∧ LockEq (p.solo s).2 (p.solo s').2 := by
  induction hp generalizing s s' with
  | ret a => exact ⟨rfl, h⟩
  | fail e => exact ⟨rfl, h⟩
  | panic m => exact ⟨rfl, h⟩
  | emit ev _ ih => exact ih h
  | @op o k ho _ ih =>
    rw [Prog.solo_op, Prog.solo_op]
    obtain ⟨hr, hs⟩ := h.apply_op ho
    rw [hr]
    exact ih _ hs

end Conserve
