import ConserveModel.Proofs.GapTotal
/-
`backup()` as a whole is total on a fault-free world holding a "fair" archive, for every source
listing, all options and every hash: the prelude (`Contain.backupPrelude_runs_fair`, reused as it is)
followed by the main part (`GapTotal.backupMain_total`).  No property statements here.

`backupPrelude_runs_fair` is stated for a hash whose names have at least three characters (`hlen`).
Its RUN does not depend on the hash at all, only its `LInv` conclusion does; so it is applied to the
padded hash `padHash H`, which satisfies `hlen` outright and agrees with `H` on the content of every
block file of the store as soon as every non-empty block file has a name of three characters or more
(`LongNames`, which is what `list_blocks` needs to SEE the file).
-/
set_option linter.unusedSimpArgs false
namespace Conserve.GapTotal
open Conserve Conserve.Exact Prog

variable {H : Str → Str} {o : BackupOpts}

/-- `H`, with every name shorter than a block sub-directory name replaced by a fixed three-character one. -/
def padHash (H : Str → Str) (c : Str) : Str :=
  if subdirNameChars ≤ (H c).length then H c else [0, 0, 0]

theorem padHash_len (H : Str → Str) (d : Str) : subdirNameChars ≤ (padHash H d).length := by
  unfold padHash
  split
  · assumption
  · decide

/-- Every block file that is not a zero-length leftover has a name of at least
`SUBDIR_NAME_CHARS` = 3 characters: its directory `d/xxx` has a three-character name, which is what
`blockdir::list_blocks` looks at (it skips every other sub-directory of `d/`). -/
def LongNames (s : Store) : Prop :=
  ∀ h v, s.get? (.block h) = some v → v ≠ .empty → subdirNameChars ≤ h.length

/-- Names are long when the hash only produces long names (the hypothesis `hlen` of C01a / C10f). -/
theorem longNames_of_hlen {s : Store} (hlen : ∀ d, subdirNameChars ≤ (H d).length) (hb : Inv.BlocksGood H s) :
    LongNames s := by
  intro h v hg hne
  rcases hb h v hg with rfl | ⟨c, rfl, hc⟩
  · exact absurd rfl hne
  · rw [← hc]; exact hlen c

/-- Names are long when every block sub-directory has a three-character name (what `Conforms` says). -/
theorem longNames_of_dirNames {s : Store} (hst : StoreOK H s)
    (hn : ∀ p v, s.get? (.blockDir p) = some v → p.length = subdirNameChars) : LongNames s := by
  intro h v hg _
  have hp := hst.dirs _ _ hg
  simp only [Store.parentOk, Key.parent, beq_iff_eq] at hp
  have := hn _ _ hp
  simp only [List.length_take, subdirNameChars] at this ⊢
  omega

/-- `StoreOK` does not see the difference between `H` and its padding on a store with long names. -/
theorem storeOK_padHash {s : Store} (hst : StoreOK H s) (hn : LongNames s) : StoreOK (padHash H) s := by
  refine ⟨hst.noDup, hst.dirs, hst.kinds, hst.root, hst.blockRoot, ?_, hst.small⟩
  intro h v hg
  rcases hst.blocks h v hg with rfl | ⟨c, rfl, hc⟩
  · exact Or.inl rfl
  · refine Or.inr ⟨c, rfl, ?_⟩
    have := hn h _ hg (by simp)
    unfold padHash
    rw [hc]
    simp [this]

/-- The strong loop invariant the prelude establishes (for ANY hash) implies the weak one. -/
theorem tinv_of_linv {H' : Str → Str} {nb : Nat} {s0 s : Store} {ex : List Str} {pre grp : List SrcEntry}
    {bytes : Nat} (hl : LInv H' o nb s0 s { band := nb, exists_ := ex } [] pre grp bytes) :
    TInv s { band := nb, exists_ := ex } := by
  refine ⟨hl.b.st.blockRoot, fun p v hg => hl.b.st.blockDir_dir hg, ?_, hl.bi.bandDir, hl.bi.indexDir,
    hl.bi.tail, ?_, ?_, ?_⟩
  · intro h hn
    cases hg : s.get? (.block h) with
    | none => exact Or.inl rfl
    | some v =>
      rcases hl.b.st.blocks h v hg with rfl | ⟨c, rfl, _⟩
      · exact Or.inr rfl
      · exact absurd (hl.b.exAll h ⟨_, hg, rfl, rfl⟩) hn
  · intro n _
    have := hl.bi.hunk n
    simpa using this
  · intro d v hg
    have := hl.bi.hunkDir d
    rw [hg] at this
    simp at this
  · intro hm
    exact absurd rfl hm

/-- **`backup()` is total on a fault-free world**, for every source listing, all options and every
hash function, on a store that is a well-formed map and tree with the right kinds and blocks named
by their hash (`StoreOK`), whose usable hunks are sorted (`ArchWF`), that holds no gc lock, and whose
non-empty block files have names of at least three characters (`LongNames`).  The archive may be
damaged in any way these allow: versions that do not list, missing hunks, heads or tails, entries
that refer to missing blocks. -/
theorem backup_runs_total {s : Store} (hst : StoreOK H s) (hwf : ArchWF s) (noLock : s.get? .gcLock = none)
    (hn : LongNames s) (o : BackupOpts) (src : List SrcEntry) :
    ∃ stats s' evs, RunsAt (backup H o src) s (.ok stats) s' evs := by
  obtain ⟨evs1, hr1, hbasis, hl⟩ := Contain.backupPrelude_runs_fair (H := padHash H) (o := o) (padHash_len H)
    (storeOK_padHash hst hn) hwf noLock
  obtain ⟨stats, s', evs, hr2⟩ := backupMain_total (H := H) (o := o) src
    (newBandOf s, blockNamesOf (withNewBand s), basisListing s) (tinv_of_linv hl) hbasis
  refine ⟨stats, s', evs ++ evs1, ?_⟩
  rw [Inv.backup_eq]
  exact RunsAt.bind hr1 hr2

end Conserve.GapTotal
