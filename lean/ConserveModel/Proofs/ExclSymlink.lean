import ConserveModel.Proofs.ExclRestore
/-
The per-entry loop of `restore()` (`restoreP`) on a filtered listing versus the filtered result of
the loop on the whole listing, for ANY listing whose entries pass `IndexEntry::check` — in
particular the stitched listing of an interrupted version.  The two agree provided no symlink
that the filter drops lies above an entry that the filter keeps (the symlink guard `belowSymlink`
sees only the entries the iterator yields).  No property statements here.
-/
set_option linter.unusedSimpArgs false
namespace Conserve.Exact
open Conserve

variable {H : Str → Str}

/-- No symlink entry outside the selection lies strictly above (as `is_prefix_of` sees it) an entry
inside the selection. -/
def NoSymlinkAbove (inS : Str → Bool) (es : List IndexEntry) : Prop :=
  ∀ l ∈ es, l.kind = .symlink → inS l.apath = false → ∀ e ∈ es, inS e.apath = true →
    (l.apath != [slash] && l.apath != e.apath && isPrefixOfImpl l.apath e.apath) = false

theorem NoSymlinkAbove.tail {inS : Str → Bool} {e : IndexEntry} {es : List IndexEntry}
    (h : NoSymlinkAbove inS (e :: es)) : NoSymlinkAbove inS es :=
  fun l hl hk hn e' he' => h l (List.mem_cons_of_mem _ hl) hk hn e' (List.mem_cons_of_mem _ he')

theorem NoSymlinkAbove.subset {inS : Str → Bool} {es es' : List IndexEntry}
    (h : NoSymlinkAbove inS es) (hsub : ∀ e ∈ es', e ∈ es) : NoSymlinkAbove inS es' :=
  fun l hl hk hn e' he' => h l (hsub l hl) hk hn e' (hsub e' he')

theorem belowSymlink_cons (p : Str) (syms : List Str) (a : Str) :
    belowSymlink (p :: syms) a = ((p != [slash] && p != a && isPrefixOfImpl p a) || belowSymlink syms a) := by
  simp [belowSymlink]

theorem Outcome.map_ok {α β : Type} (f : α → β) (a : α) : Outcome.map f (.ok a) = .ok (f a) := rfl

/-- The loop on the selected entries = the selected nodes of the loop on all entries; what the
first reports is a sub-list of what the second reports. -/
theorem restoreP_filter (s : Store) (inS : Str → Bool) (es : List IndexEntry)
    (htime : ∀ e ∈ es, (entryTimeNs e.mtime e.mtimeNanos).isSome = true)
    (hns : NoSymlinkAbove inS es) :
    ∀ symsA symsS,
      (∀ e ∈ es, inS e.apath = true → belowSymlink symsS e.apath = belowSymlink symsA e.apath) →
      ∃ nodes, (restoreP H s symsA es).1 = .ok nodes ∧
        (restoreP H s symsS (es.filter fun e => inS e.apath)).1 = .ok (nodes.filter fun nd => inS nd.apath) ∧
        ((restoreP H s symsS (es.filter fun e => inS e.apath)).2).Sublist (restoreP H s symsA es).2 := by
  induction es with
  | nil => intro _ _ _; exact ⟨[], rfl, rfl, List.Sublist.refl _⟩
  | cons e es ih =>
    intro symsA symsS hag
    have htime' : ∀ e' ∈ es, (entryTimeNs e'.mtime e'.mtimeNanos).isSome = true :=
      fun e' he' => htime e' (List.mem_cons_of_mem _ he')
    obtain ⟨t, ht⟩ := Option.isSome_iff_exists.mp (htime e List.mem_cons_self)
    have hag' : ∀ e' ∈ es, inS e'.apath = true → belowSymlink symsS e'.apath = belowSymlink symsA e'.apath :=
      fun e' he' => hag e' (List.mem_cons_of_mem _ he')
    have ih0 := ih htime' hns.tail symsA symsS hag'
    rw [List.filter_cons]
    cases hin : inS e.apath with
    | false =>
      simp only [Bool.false_eq_true, if_false]
      -- the entry is not selected: whatever the full loop does with it, its node is filtered out
      by_cases hb : belowSymlink symsA e.apath = true
      · obtain ⟨nodes, h1, h2, h3⟩ := ih0
        refine ⟨nodes, by simp only [restoreP, hb, if_true]; exact h1, h2, ?_⟩
        simp only [restoreP, hb, if_true]
        exact List.sublist_append_of_sublist_left h3
      · simp only [restoreP, hb, Bool.false_eq_true, if_false]
        cases hk : e.kind with
        | dir =>
          obtain ⟨nodes, h1, h2, h3⟩ := ih0
          simp only [ht, h1, Outcome.map_ok]
          refine ⟨_, rfl, ?_, h3⟩
          rw [List.filter_cons]
          simp only [RNode.ofEntry, hin, Bool.false_eq_true, if_false]
          exact h2
        | file =>
          obtain ⟨nodes, h1, h2, h3⟩ := ih0
          cases hbad : (readContentP H s e.addrs []).2 with
          | some p =>
            obtain ⟨hh, er⟩ := p
            simp only [h1, Outcome.map_ok]
            refine ⟨_, rfl, ?_, List.sublist_append_of_sublist_left h3⟩
            rw [List.filter_cons]
            simp only [RNode.ofEntry, hin, Bool.false_eq_true, if_false]
            exact h2
          | none =>
            simp only [ht, h1, Outcome.map_ok]
            refine ⟨_, rfl, ?_, h3⟩
            rw [List.filter_cons]
            simp only [RNode.ofEntry, hin, Bool.false_eq_true, if_false]
            exact h2
        | symlink =>
          cases htg : e.target with
          | none =>
            obtain ⟨nodes, h1, h2, h3⟩ := ih0
            exact ⟨nodes, h1, h2, List.sublist_append_of_sublist_left h3⟩
          | some tg =>
            -- a dropped symlink joins the full loop's `syms`; by hypothesis it is above nothing selected
            have hag2 : ∀ e' ∈ es, inS e'.apath = true →
                belowSymlink symsS e'.apath = belowSymlink (e.apath :: symsA) e'.apath := by
              intro e' he' hin'
              rw [belowSymlink_cons, hns e List.mem_cons_self hk hin e' (List.mem_cons_of_mem _ he') hin',
                Bool.false_or]
              exact hag' e' he' hin'
            obtain ⟨nodes, h1, h2, h3⟩ := ih htime' hns.tail (e.apath :: symsA) symsS hag2
            simp only [ht, h1, Outcome.map_ok]
            refine ⟨_, rfl, ?_, h3⟩
            rw [List.filter_cons]
            simp only [RNode.ofEntry, hin, Bool.false_eq_true, if_false]
            exact h2
        | unknown =>
          obtain ⟨nodes, h1, h2, h3⟩ := ih0
          exact ⟨nodes, h1, h2, List.sublist_append_of_sublist_left h3⟩
    | true =>
      simp only [if_true]
      have hbs : belowSymlink symsS e.apath = belowSymlink symsA e.apath := hag e List.mem_cons_self hin
      by_cases hb : belowSymlink symsA e.apath = true
      · obtain ⟨nodes, h1, h2, h3⟩ := ih0
        refine ⟨nodes, by simp only [restoreP, hb, if_true]; exact h1, ?_, ?_⟩
        · simp only [restoreP, hbs, hb, if_true]; exact h2
        · simp only [restoreP, hbs, hb, if_true]
          exact List.Sublist.append h3 (List.Sublist.refl _)
      · simp only [restoreP, hbs, hb, Bool.false_eq_true, if_false]
        cases hk : e.kind with
        | dir =>
          obtain ⟨nodes, h1, h2, h3⟩ := ih0
          simp only [ht, h1, h2, Outcome.map_ok]
          refine ⟨_, rfl, ?_, h3⟩
          rw [List.filter_cons]
          simp only [RNode.ofEntry, hin, if_true]
        | file =>
          obtain ⟨nodes, h1, h2, h3⟩ := ih0
          cases hbad : (readContentP H s e.addrs []).2 with
          | some p =>
            obtain ⟨hh, er⟩ := p
            simp only [h1, h2, Outcome.map_ok]
            refine ⟨_, rfl, ?_, List.Sublist.append h3 (List.Sublist.refl _)⟩
            rw [List.filter_cons]
            simp only [RNode.ofEntry, hin, if_true]
          | none =>
            simp only [ht, h1, h2, Outcome.map_ok]
            refine ⟨_, rfl, ?_, h3⟩
            rw [List.filter_cons]
            simp only [RNode.ofEntry, hin, if_true]
        | symlink =>
          cases htg : e.target with
          | none =>
            obtain ⟨nodes, h1, h2, h3⟩ := ih0
            exact ⟨nodes, h1, h2, List.Sublist.append h3 (List.Sublist.refl _)⟩
          | some tg =>
            have hag2 : ∀ e' ∈ es, inS e'.apath = true →
                belowSymlink (e.apath :: symsS) e'.apath = belowSymlink (e.apath :: symsA) e'.apath := by
              intro e' he' hin'
              rw [belowSymlink_cons, belowSymlink_cons, hag' e' he' hin']
            obtain ⟨nodes, h1, h2, h3⟩ := ih htime' hns.tail (e.apath :: symsA) (e.apath :: symsS) hag2
            simp only [ht, h1, h2, Outcome.map_ok]
            refine ⟨_, rfl, ?_, h3⟩
            rw [List.filter_cons]
            simp only [RNode.ofEntry, hin, if_true]
        | unknown =>
          obtain ⟨nodes, h1, h2, h3⟩ := ih0
          exact ⟨nodes, h1, h2, List.Sublist.append h3 (List.Sublist.refl _)⟩

theorem usable_time {e : IndexEntry} (h : entryUsable e = true) :
    (entryTimeNs e.mtime e.mtimeNanos).isSome = true := by
  simp only [entryUsable, Bool.and_eq_true] at h
  exact h.1.1.1.2

theorem listed_usable {s : Store} {n : Nat} {e : IndexEntry} (he : e ∈ listSpec s n) : entryUsable e = true := by
  obtain ⟨b, k, es, _, hu, hee⟩ := C08.listed_is_stored he
  rw [List.all_eq_true] at hu
  exact hu e hee

end Conserve.Exact
