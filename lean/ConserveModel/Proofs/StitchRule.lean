import ConserveModel.Proofs.StitchStore
/-
From the store-level mirrors of the programs (`bandTake`, `stitchDownP`, `stitchAllP`) to the
rule of StitchSpec.lean (`contSpec`, `listSpec`, `chain`), and the order / provenance facts
about the rule itself.  No property statements.
-/
namespace Conserve

/-! ### One band -/

theorem bandPresent_eq (s : Store) (b : Nat) : isFileP s (.bandHead b) = bandPresent s b := by
  unfold isFileP bandPresent; cases s.get? (.bandHead b) <;> rfl

theorem isComplete_eq (s : Store) (b : Nat) : isFileP s (.bandTail b) = isComplete s b := by
  unfold isFileP isComplete; cases s.get? (.bandTail b) <;> rfl

theorem bandOpenP_ok_iff (s : Store) (b : Nat) :
    bandOpenP s b = .ok () ↔
      (match s.get? (.bandHead b) with
       | some (.head ver flags) => (ver == .ok || ver == .absent) && flags.isEmpty
       | _ => false) = true := by
  unfold bandOpenP
  cases s.get? (.bandHead b) with
  | none => simp
  | some v =>
    cases v with
    | head ver flags => cases ver <;> cases flags <;> simp
    | _ => simp

theorem hunksAvailableP_error {s : Store} {b : Nat} (h : s.get? (.indexDir b) ≠ some .dir) :
    hunksAvailableP s b = .error
      (match s.get? (.indexDir b) with
       | none => .transport .notFound
       | some _ => .transport .other) := by
  unfold hunksAvailableP
  cases hg : s.get? (.indexDir b) with
  | none => rfl
  | some v =>
    cases v with
    | dir => exact absurd hg h
    | _ => rfl

theorem bandReadable_iff (s : Store) (b : Nat) :
    bandReadable s b = true ↔ bandOpenP s b = .ok () ∧ s.get? (.indexDir b) = some .dir := by
  unfold bandReadable
  rw [Bool.and_eq_true, beq_iff_eq, bandOpenP_ok_iff]
  exact Iff.rfl

/-- What `readBand` takes from a band is what the rule says: the band's entries after `last`. -/
theorem bandTake_eq {s : Store} (wf : ArchWF s) (b : Nat) (last : Option Str) :
    bandTake s b last =
      ((bandEntries s b).filter (sortsAfter last),
        lastOr ((bandEntries s b).filter (sortsAfter last)) last) := by
  by_cases hr : bandReadable s b = true
  · obtain ⟨ho, hi⟩ := (bandReadable_iff s b).mp hr
    have ha := hunksAvailableP_eq wf hi
    unfold bandTake
    rw [ho, ha]
    simp only [bandEntries, hr, if_true]
    exact readHunksP_eq s b (hunkNumsOf s b) (fun n hn => readHunkP_listed wf hn) (wf.sortedOwn b) last
  · have he : bandEntries s b = [] := by simp [bandEntries, hr]
    rw [he]
    simp only [List.filter_nil, lastOr_nil]
    unfold bandTake
    by_cases ho : bandOpenP s b = .ok ()
    · have hi : s.get? (.indexDir b) ≠ some .dir := fun hi => hr ((bandReadable_iff s b).mpr ⟨ho, hi⟩)
      rw [ho, hunksAvailableP_error hi]
    · cases hb : bandOpenP s b with
      | ok u => exact absurd hb ho
      | error e => rfl

theorem hunkError_of_get? {s : Store} {b n : Nat} {v : FileVal} (hg : s.get? (.hunk b n) = some v)
    (hv : v.isDir = false) :
    (∃ es, readHunkP s b n = .ok (some es) ∧ hunkError s b n = none) ∨
    (∃ e, readHunkP s b n = .error e ∧ hunkError s b n = some e) := by
  unfold readHunkP hunkError
  rw [hg]
  cases v with
  | hunk es => by_cases hu : es.all entryUsable = true <;> simp [hu]
  | dir => simp [FileVal.isDir] at hv
  | _ => simp

theorem readHunksErrs_eq {s : Store} {b : Nat} (ns : List Nat)
    (h : ∀ n ∈ ns, ∃ v, s.get? (.hunk b n) = some v ∧ v.isDir = false) :
    readHunksErrs s b ns = ns.filterMap (hunkError s b) := by
  induction ns with
  | nil => rfl
  | cons n rest ih =>
    obtain ⟨v, hg, hv⟩ := h n (List.mem_cons_self ..)
    have ih' := ih (fun m hm => h m (List.mem_cons_of_mem _ hm))
    unfold readHunksErrs
    rw [List.filterMap_cons]
    rcases hunkError_of_get? hg hv with ⟨es, h1, h2⟩ | ⟨e, h1, h2⟩
    · rw [h1, h2]; exact ih'
    · rw [h1, h2]; simp [ih']

/-- The errors the code reports for one version are the ones the specification names. -/
theorem bandErrs_eq {s : Store} (wf : ArchWF s) (b : Nat) : bandErrs s b = bandErrors s b := by
  unfold bandErrs bandErrors
  by_cases hr : bandReadable s b = true
  · obtain ⟨ho, hi⟩ := (bandReadable_iff s b).mp hr
    have ha := hunksAvailableP_eq wf hi
    simp only [hr, if_true, ho, ha]
    rw [readHunksErrs_eq _ (fun n hn => hunk_listed_get? wf hn)]
    congr 1
    unfold checkIndexHunksP indexCheckError
    rw [hunkLengthsP_eq wf hi]
    have hmap : ((hunkNumsOf s b).map fun n => (n, hunkNonEmpty s b n)).map (·.1) = hunkNumsOf s b := by
      rw [List.map_map]; exact List.map_id _
    simp only [hmap, List.length_map]
    by_cases hrange : (hunkNumsOf s b != List.range (hunkNumsOf s b).length) = true
    · simp [hrange]
    · simp only [hrange, Bool.false_eq_true, if_false]
      by_cases h1 : countMismatch (tailInfo s b).2 (hunkNumsOf s b).length = true
      · simp only [h1, if_true]; rfl
      · by_cases h2 : badEmptyHunk (tailInfo s b).1
            ((hunkNumsOf s b).map fun n => (n, hunkNonEmpty s b n)) = true
        · simp only [h1, h2, if_true, Bool.false_eq_true, if_false]; rfl
        · simp only [h1, h2, Bool.false_eq_true, if_false]; rfl
  · simp only [hr, Bool.false_eq_true, if_false]
    by_cases ho : bandOpenP s b = .ok ()
    · have hi : s.get? (.indexDir b) ≠ some .dir := fun hi => hr ((bandReadable_iff s b).mpr ⟨ho, hi⟩)
      have hhead := (bandOpenP_ok_iff s b).mp ho
      rw [ho, hunksAvailableP_error hi]
      simp only
      unfold unreadableError
      cases hh : s.get? (.bandHead b) with
      | none => rw [hh] at hhead; simp at hhead
      | some v =>
        rw [hh] at hhead
        cases v with
        | head ver flags =>
          cases ver <;> simp at hhead <;> simp [hhead] <;> cases s.get? (.indexDir b) <;> rfl
        | _ => simp at hhead
    · unfold bandOpenP unreadableError at *
      cases hh : s.get? (.bandHead b) with
      | none => simp
      | some v =>
        rw [hh] at ho
        cases v with
        | head ver flags =>
          cases ver with
          | invalid => simp
          | tooNew => simp
          | ok => by_cases hf : flags.isEmpty = true <;> simp [hf] at ho ⊢
          | absent => by_cases hf : flags.isEmpty = true <;> simp [hf] at ho ⊢
        | _ => simp

/-! ### Down the chain -/

theorem stitchDownP_fst {s : Store} (wf : ArchWF s) (b : Nat) (last : Option Str) :
    (stitchDownP s b last).1 = contSpec s b last := by
  induction b generalizing last with
  | zero => rfl
  | succ b ih =>
    unfold stitchDownP contSpec
    rw [bandPresent_eq, isComplete_eq, bandTake_eq wf]
    by_cases hp : bandPresent s b = true
    · by_cases hc : isComplete s b = true
      · simp [hp, hc]
      · simp [hp, hc, ih]
    · simp [hp, ih]

theorem stitchAllP_fst {s : Store} (wf : ArchWF s) (n : Nat) : (stitchAllP s n).1 = listSpec s n := by
  unfold stitchAllP listSpec
  rw [isComplete_eq, bandTake_eq wf]
  have : (bandEntries s n).filter (sortsAfter none) = bandEntries s n :=
    List.filter_eq_self.mpr fun _ _ => rfl
  by_cases hc : isComplete s n = true
  · simp [hc, this]
  · simp [hc, this, stitchDownP_fst wf]

theorem headLost_eq (s : Store) (b : Nat) (hp : bandPresent s b = false) :
    isFileP s (.hunk b 0) = headLost s b := by
  unfold isFileP headLost; rw [hp]; cases s.get? (.hunk b 0) <;> rfl

theorem stitchDownP_snd {s : Store} (wf : ArchWF s) (b : Nat) (last : Option Str) :
    (stitchDownP s b last).2 = errorsBelow s b := by
  have hb : bandErrs s = bandErrors s := funext (bandErrs_eq wf)
  induction b generalizing last with
  | zero => rfl
  | succ b ih =>
    unfold stitchDownP errorsBelow
    rw [bandPresent_eq, isComplete_eq]
    by_cases hp : bandPresent s b = true
    · by_cases hc : isComplete s b = true
      · simp [hp, hc, hb]
      · simp [hp, hc, ih, hb]
    · have hp' : bandPresent s b = false := by simpa using hp
      simp [hp', ih, headLost_eq s b hp']

theorem stitchAllP_snd {s : Store} (wf : ArchWF s) (n : Nat) : (stitchAllP s n).2 = listErrors s n := by
  have hb : bandErrs s = bandErrors s := funext (bandErrs_eq wf)
  unfold stitchAllP listErrors
  rw [isComplete_eq]
  by_cases hc : isComplete s n = true
  · simp [hc, hb]
  · simp [hc, stitchDownP_snd wf, hb]

/-! ### The errors of the walk and the errors of the chain -/

/-- The chain's errors all occur among the walk's, in the same order. -/
theorem chainBelow_errs_sublist (s : Store) (b : Nat) :
    ((chainBelow s b).flatMap (bandErrors s)).Sublist (errorsBelow s b) := by
  induction b with
  | zero => exact List.Sublist.refl _
  | succ b ih =>
    unfold chainBelow errorsBelow
    by_cases hp : bandPresent s b = true
    · by_cases hc : isComplete s b = true
      · simp [hp, hc]
      · simp only [hp, hc, if_true, Bool.false_eq_true, if_false, List.flatMap_cons]
        exact List.Sublist.append (List.Sublist.refl _) ih
    · simp only [hp, Bool.false_eq_true, if_false]
      exact ih.trans (List.sublist_append_right _ _)

theorem chainErrors_sublist (s : Store) (n : Nat) : (chainErrors s n).Sublist (listErrors s n) := by
  unfold chainErrors listErrors chain
  by_cases hc : isComplete s n = true
  · simp [hc]
  · simp only [hc, Bool.false_eq_true, if_false, List.flatMap_cons]
    exact List.Sublist.append (List.Sublist.refl _) (chainBelow_errs_sublist s n)

theorem mem_listErrors_of_chain {s : Store} {n b : Nat} {e : Err} (hb : b ∈ chain s n)
    (he : e ∈ bandErrors s b) : e ∈ listErrors s n :=
  (chainErrors_sublist s n).subset (List.mem_flatMap.mpr ⟨b, hb, he⟩)

/-- No id below `b` has lost its head: the walk reports what the chain reports. -/
theorem errorsBelow_eq_chain {s : Store} (b : Nat) (h : ∀ c, c < b → headLost s c = false) :
    errorsBelow s b = (chainBelow s b).flatMap (bandErrors s) := by
  induction b with
  | zero => rfl
  | succ b ih =>
    have ih' := ih fun c hc => h c (by omega)
    unfold chainBelow errorsBelow
    by_cases hp : bandPresent s b = true
    · by_cases hc : isComplete s b = true
      · simp [hp, hc]
      · simp [hp, hc, ih']
    · simp [hp, ih', h b (by omega)]

theorem listErrors_eq_chainErrors {s : Store} (n : Nat) (h : ∀ c, c < n → headLost s c = false) :
    listErrors s n = chainErrors s n := by
  unfold chainErrors listErrors chain
  by_cases hc : isComplete s n = true
  · simp [hc]
  · simp [hc, errorsBelow_eq_chain n h]

/-- Every error of the walk below `b` is an error of a version of the chain, or the
`bandHeadMissing` of an id below `b` that lost its head. -/
theorem mem_errorsBelow {s : Store} {b : Nat} {e : Err} (he : e ∈ errorsBelow s b) :
    (∃ c ∈ chainBelow s b, e ∈ bandErrors s c) ∨
    (∃ c, c < b ∧ headLost s c = true ∧ e = .bandHeadMissing c) := by
  induction b with
  | zero => simp [errorsBelow] at he
  | succ b ih =>
    unfold errorsBelow at he
    unfold chainBelow
    by_cases hp : bandPresent s b = true
    · by_cases hc : isComplete s b = true
      · simp only [hp, hc, if_true, List.append_nil] at he
        exact Or.inl ⟨b, by simp [hp, hc], he⟩
      · simp only [hp, hc, if_true, Bool.false_eq_true, if_false, List.mem_append] at he
        rcases he with he | he
        · exact Or.inl ⟨b, by simp [hp, hc], he⟩
        · rcases ih he with ⟨c, hcm, hce⟩ | ⟨c, hlt, hl, rfl⟩
          · exact Or.inl ⟨c, by simp [hp, hc, hcm], hce⟩
          · exact Or.inr ⟨c, by omega, hl, rfl⟩
    · simp only [hp, Bool.false_eq_true, if_false, List.mem_append] at he
      rcases he with he | he
      · by_cases hl : headLost s b = true
        · simp only [hl, if_true, List.mem_singleton] at he
          exact Or.inr ⟨b, by omega, hl, he⟩
        · simp [hl] at he
      · rcases ih he with ⟨c, hcm, hce⟩ | ⟨c, hlt, hl, rfl⟩
        · exact Or.inl ⟨c, by simp [hp, hcm], hce⟩
        · exact Or.inr ⟨c, by omega, hl, rfl⟩

theorem mem_listErrors {s : Store} {n : Nat} {e : Err} (he : e ∈ listErrors s n) :
    (∃ c ∈ chain s n, e ∈ bandErrors s c) ∨
    (∃ c, c < n ∧ headLost s c = true ∧ e = .bandHeadMissing c) := by
  unfold listErrors at he
  unfold chain
  rcases List.mem_append.mp he with he | he
  · exact Or.inl ⟨n, by simp, he⟩
  · by_cases hc : isComplete s n = true
    · simp [hc] at he
    · simp only [hc, Bool.false_eq_true, if_false] at he
      rcases mem_errorsBelow he with ⟨c, hcm, hce⟩ | r
      · exact Or.inl ⟨c, by simp [hc, hcm], hce⟩
      · exact Or.inr r

/-! ### The rule as a fold over the chain -/

/-- Take from each version of `bs` in turn what sorts after the last path taken so far. -/
def stitchList (s : Store) : List Nat → Option Str → List IndexEntry
  | [], _ => []
  | b :: bs, last =>
    let taken := (bandEntries s b).filter (sortsAfter last)
    taken ++ stitchList s bs (lastOr taken last)

theorem contSpec_eq_stitchList (s : Store) (b : Nat) (last : Option Str) :
    contSpec s b last = stitchList s (chainBelow s b) last := by
  induction b generalizing last with
  | zero => rfl
  | succ b ih =>
    unfold contSpec chainBelow
    by_cases hp : bandPresent s b = true
    · by_cases hc : isComplete s b = true
      · simp [hp, hc, stitchList]
      · simp [hp, hc, stitchList, ih]
    · simp [hp, ih]

theorem listSpec_eq_stitchList (s : Store) (n : Nat) : listSpec s n = stitchList s (chain s n) none := by
  unfold listSpec chain
  have : (bandEntries s n).filter (sortsAfter none) = bandEntries s n :=
    List.filter_eq_self.mpr fun _ _ => rfl
  by_cases hc : isComplete s n = true
  · simp [hc, stitchList, this]
  · simp [hc, stitchList, this, contSpec_eq_stitchList]

theorem chainBelow_lt (s : Store) (b : Nat) : ∀ x ∈ chainBelow s b, x < b := by
  induction b with
  | zero => simp [chainBelow]
  | succ b ih =>
    unfold chainBelow
    intro x hx
    by_cases hp : bandPresent s b = true
    · by_cases hc : isComplete s b = true
      · simp [hp, hc] at hx; omega
      · simp [hp, hc] at hx
        rcases hx with rfl | hx
        · omega
        · have := ih x hx; omega
    · simp [hp] at hx
      have := ih x hx; omega

theorem chainBelow_decreasing (s : Store) (b : Nat) : (chainBelow s b).Pairwise (· > ·) := by
  induction b with
  | zero => simp [chainBelow]
  | succ b ih =>
    unfold chainBelow
    by_cases hp : bandPresent s b = true
    · by_cases hc : isComplete s b = true
      · simp [hp, hc]
      · simp only [hp, hc, if_true]
        exact List.pairwise_cons.mpr ⟨fun x hx => chainBelow_lt s b x hx, ih⟩
    · simpa [hp] using ih

theorem chain_decreasing (s : Store) (n : Nat) : (chain s n).Pairwise (· > ·) := by
  unfold chain
  by_cases hc : isComplete s n = true
  · simp [hc]
  · simp only [hc]
    exact List.pairwise_cons.mpr ⟨fun x hx => chainBelow_lt s n x hx, chainBelow_decreasing s n⟩

theorem ArchWF.sortedBand {s : Store} (wf : ArchWF s) (b : Nat) : SortedE (bandEntries s b) := by
  unfold bandEntries
  split
  · exact wf.sortedOwn b
  · exact List.Pairwise.nil

/-! ### Order -/

theorem getLast?_mem_or_lt {es : List IndexEntry} (hs : SortedE es) {l : IndexEntry}
    (hl : es.getLast? = some l) : ∀ x ∈ es, x = l ∨ eLt x l := by
  obtain ⟨ys, rfl⟩ := List.getLast?_eq_some_iff.mp hl
  intro x hx
  rcases List.mem_append.mp hx with hx | hx
  · exact Or.inr ((List.pairwise_append.mp hs).2.2 x hx l (by simp))
  · exact Or.inl (by simpa using hx)

/-- The listing over any sequence of sorted bands is strictly increasing, and lies wholly after
the path it resumed from. -/
theorem stitchList_sorted {s : Store} (wf : ArchWF s) (bs : List Nat) (last : Option Str) :
    SortedE (stitchList s bs last) ∧ ∀ e ∈ stitchList s bs last, sortsAfter last e = true := by
  induction bs generalizing last with
  | nil => simp [stitchList, SortedE]
  | cons b bs ih =>
    simp only [stitchList]
    have hsb : SortedE ((bandEntries s b).filter (sortsAfter last)) := (wf.sortedBand b).filter _
    have hall : ∀ e ∈ (bandEntries s b).filter (sortsAfter last), sortsAfter last e = true :=
      fun e he => (List.mem_filter.mp he).2
    obtain ⟨ih1, ih2⟩ := ih (lastOr ((bandEntries s b).filter (sortsAfter last)) last)
    generalize (bandEntries s b).filter (sortsAfter last) = taken at *
    cases hg : taken.getLast? with
    | none =>
      have : taken = [] := List.getLast?_eq_none_iff.mp hg
      subst this
      simpa [lastOr] using ih (lastOr [] last)
    | some l =>
      have hlo : lastOr taken last = some l.apath := by simp [lastOr, hg]
      rw [hlo] at ih1 ih2 ⊢
      have hlm : l ∈ taken := List.mem_of_getLast? hg
      constructor
      · refine List.pairwise_append.mpr ⟨hsb, ih1, ?_⟩
        intro x hx y hy
        have hly : eLt l y := (sortsAfter_some _ _).mp (ih2 y hy)
        rcases getLast?_mem_or_lt hsb hg x hx with rfl | hxl
        · exact hly
        · exact C11.cmp_trans hxl hly
      · intro e he
        rcases List.mem_append.mp he with he | he
        · exact hall e he
        · exact sortsAfter_of_eLt (hall l hlm) ((sortsAfter_some _ _).mp (ih2 e he))

theorem mem_stitchList {s : Store} {bs : List Nat} {last : Option Str} {e : IndexEntry}
    (h : e ∈ stitchList s bs last) : ∃ b ∈ bs, e ∈ bandEntries s b := by
  induction bs generalizing last with
  | nil => simp [stitchList] at h
  | cons b bs ih =>
    simp only [stitchList] at h
    rcases List.mem_append.mp h with h | h
    · exact ⟨b, by simp, (List.mem_filter.mp h).1⟩
    · obtain ⟨b', hb', he⟩ := ih h
      exact ⟨b', List.mem_cons_of_mem _ hb', he⟩

/-! ### Provenance -/

/-- Every entry of the versions `pre` has a path before `e`'s. -/
def allBefore (s : Store) (pre : List Nat) (e : IndexEntry) : Bool :=
  pre.all fun b' => (bandEntries s b').all fun e' => apathCmp e'.apath e.apath == .lt

/-- The rule, position by position: from `b`, the entries that no version consulted earlier
(`pre`) reaches. -/
def stitchPos (s : Store) : List Nat → List Nat → List IndexEntry
  | _, [] => []
  | pre, b :: bs => (bandEntries s b).filter (allBefore s pre) ++ stitchPos s (pre ++ [b]) bs

/-- `last` summarises the versions `pre`: sorting after `last` is sorting after all they hold. -/
def Summ (s : Store) (last : Option Str) (pre : List Nat) : Prop :=
  ∀ e, sortsAfter last e = true ↔ allBefore s pre e = true

theorem allBefore_iff {s : Store} {pre : List Nat} {e : IndexEntry} :
    allBefore s pre e = true ↔ ∀ b' ∈ pre, ∀ e' ∈ bandEntries s b', eLt e' e := by
  simp [allBefore, eLt]

theorem not_sortsAfter_lt {last : Option Str} {x y : IndexEntry} (hx : sortsAfter last x = false)
    (hy : sortsAfter last y = true) : eLt x y := by
  cases last with
  | none => simp [sortsAfter] at hx
  | some a =>
    have hy' := (sortsAfter_some a y).mp hy
    by_cases heq : a = x.apath
    · unfold eLt; rw [← heq]; exact hy'
    · rcases C11.cmp_total a x.apath heq with h | h
      · have := (sortsAfter_some a x).mpr h; rw [this] at hx; cases hx
      · exact C11.cmp_trans h hy'

theorem Summ.step {s : Store} (wf : ArchWF s) {last : Option Str} {pre : List Nat} (h : Summ s last pre)
    (b : Nat) : Summ s (lastOr ((bandEntries s b).filter (sortsAfter last)) last) (pre ++ [b]) := by
  intro e
  have hsb : SortedE ((bandEntries s b).filter (sortsAfter last)) := (wf.sortedBand b).filter _
  rw [allBefore_iff]
  have hpre := h e
  rw [allBefore_iff] at hpre
  cases hg : ((bandEntries s b).filter (sortsAfter last)).getLast? with
  | none =>
    have hnil := List.getLast?_eq_none_iff.mp hg
    have hlo : lastOr ((bandEntries s b).filter (sortsAfter last)) last = last := by simp [lastOr, hg]
    rw [hlo]
    constructor
    · intro hs b' hb' e' he'
      rcases List.mem_append.mp hb' with hb' | hb'
      · exact hpre.mp hs b' hb' e' he'
      · simp only [List.mem_singleton] at hb'; subst hb'
        have : sortsAfter last e' = false := by
          cases hx : sortsAfter last e' with
          | false => rfl
          | true =>
            have : e' ∈ (bandEntries s b').filter (sortsAfter last) := List.mem_filter.mpr ⟨he', hx⟩
            rw [hnil] at this; simp at this
        exact not_sortsAfter_lt this hs
    · intro hall
      exact hpre.mpr fun b' hb' => hall b' (List.mem_append_left _ hb')
  | some l =>
    have hlo : lastOr ((bandEntries s b).filter (sortsAfter last)) last = some l.apath := by
      simp [lastOr, hg]
    rw [hlo, sortsAfter_some]
    have hlm := List.mem_filter.mp (List.mem_of_getLast? hg)
    constructor
    · intro hle b' hb' e' he'
      rcases List.mem_append.mp hb' with hb' | hb'
      · exact hpre.mp (sortsAfter_of_eLt hlm.2 hle) b' hb' e' he'
      · simp only [List.mem_singleton] at hb'; subst hb'
        cases hx : sortsAfter last e' with
        | false => exact C11.cmp_trans (not_sortsAfter_lt hx hlm.2) hle
        | true =>
          rcases getLast?_mem_or_lt hsb hg e' (List.mem_filter.mpr ⟨he', hx⟩) with rfl | hlt
          · exact hle
          · exact C11.cmp_trans hlt hle
    · intro hall
      exact hall b (by simp) l hlm.1

theorem stitchList_eq_stitchPos {s : Store} (wf : ArchWF s) (bs : List Nat) (last : Option Str)
    (pre : List Nat) (h : Summ s last pre) : stitchList s bs last = stitchPos s pre bs := by
  induction bs generalizing last pre with
  | nil => rfl
  | cons b bs ih =>
    simp only [stitchList, stitchPos]
    rw [ih _ _ (h.step wf b)]
    congr 1
    apply List.filter_congr
    intro e _
    have := h e
    cases h1 : sortsAfter last e <;> cases h2 : allBefore s pre e <;> simp_all

theorem Summ.nil (s : Store) : Summ s none [] := by
  intro e; simp [sortsAfter, allBefore]

/-- The entries a listing over the decreasing chain `c` takes from version `b`: those that no
newer version of the chain reaches. -/
def takenFromChain (s : Store) (c : List Nat) (b : Nat) : List IndexEntry :=
  (bandEntries s b).filter fun e =>
    c.all fun b' => decide (b' ≤ b) ||
      (bandEntries s b').all fun e' => apathCmp e'.apath e.apath == .lt

theorem stitchPos_eq {s : Store} (c : List Nat) (hc : c.Pairwise (· > ·)) (pre bs : List Nat)
    (h : pre ++ bs = c) : stitchPos s pre bs = (bs.map (takenFromChain s c)).flatten := by
  induction bs generalizing pre with
  | nil => rfl
  | cons b bs ih =>
    simp only [stitchPos, List.map_cons, List.flatten_cons]
    rw [ih (pre ++ [b]) (by simpa using h)]
    congr 1
    unfold takenFromChain
    apply List.filter_congr
    intro e _
    subst h
    obtain ⟨_, hc2, hc3⟩ := List.pairwise_append.mp hc
    obtain ⟨hc4, _⟩ := List.pairwise_cons.mp hc2
    rw [Bool.eq_iff_iff]
    simp only [allBefore, List.all_eq_true, List.mem_append, List.mem_cons, Bool.or_eq_true,
      decide_eq_true_eq]
    constructor
    · intro hall b' hb'
      rcases hb' with hb' | rfl | hb'
      · exact Or.inr (hall b' hb')
      · exact Or.inl (Nat.le_refl _)
      · exact Or.inl (Nat.le_of_lt (hc4 b' hb'))
    · intro hall b' hb'
      rcases hall b' (Or.inl hb') with hle | h
      · have := hc3 b' hb' b (by simp); omega
      · exact h

end Conserve
