import ConserveModel.Proofs.ExactTop
/-
Generalisation of the C01a restore / list specifications (`restoreSpecP`, `restore_specified_runs`,
`Summary.restoreSpec`) from "subtree = /, nothing excluded" to an arbitrary subtree path and an
arbitrary exclusion predicate: `restore` and `listVersion` as pure functions of the store
(`restoreSelP`, `listSelP`), and what they give on the archive a fault-free backup leaves.
No property statements here.
-/
set_option linter.unusedSimpArgs false
namespace Conserve.Exact
open Conserve Prog

variable {H : Str → Str} {o : BackupOpts}

/-- The test of `Stitch::next` on a path: inside the subtree and not excluded. -/
def selKeep (subtree : Str) (excl : Str → Bool) (a : Str) : Bool :=
  isPrefixOfImpl subtree a && !excl a

/-- What `restore(Specified(b), subtree, excl)` returns and reports on a store. -/
def restoreSelP (H : Str → Str) (s : Store) (b : Nat) (subtree : Str) (excl : Str → Bool) :
    Outcome (List RNode) × List Event :=
  match headOutcome s b with
  | .ok () =>
    ((restoreP H s [] ((listSpec s b).filter fun e => selKeep subtree excl e.apath)).1,
      (restoreP H s [] ((listSpec s b).filter fun e => selKeep subtree excl e.apath)).2
        ++ ((listErrors s b).map Event.error).reverse)
  | .err e => (.err e, [])
  | .panic m => (.panic m, [])

/-- What `Archive::iter_entries(Specified(b), subtree, excl)` (collected) returns and reports. -/
def listSelP (s : Store) (b : Nat) (subtree : Str) (excl : Str → Bool) :
    Outcome (List IndexEntry) × List Event :=
  match headOutcome s b with
  | .ok () => (.ok ((listSpec s b).filter fun e => selKeep subtree excl e.apath),
                ((listErrors s b).map Event.error).reverse)
  | .err e => (.err e, [])
  | .panic m => (.panic m, [])

/-- With subtree "/" and nothing excluded this is the specification C01a uses. -/
theorem restoreSelP_root (s : Store) (b : Nat) :
    restoreSelP H s b [slash] (fun _ => false) = restoreSpecP H s b := by
  unfold restoreSelP restoreSpecP selKeep
  rw [rootFilter_listSpec]
  cases headOutcome s b <;> rfl

/-- After the version is resolved: open it, list the blocks, list the entries, restore them. -/
theorem restoreBody_sel_runs {s : Store} (wf : ArchWF s) (hst : StoreOK H s) (b : Nat) (subtree : Str)
    (excl : Str → Bool) :
    RunsAt ((bandOpen b).bind fun _ => listBlocks.bind fun _ =>
        (listEntries b subtree excl).bind fun es => restoreEntries H [] es) s
      (restoreSelP H s b subtree excl).1 s (restoreSelP H s b subtree excl).2 := by
  unfold restoreSelP
  have ho := bandOpen_runsAt s b
  cases hh : headOutcome s b with
  | ok u =>
    rw [hh] at ho
    refine RunsAt.bind0 ho ?_
    refine RunsAt.bind0 (listBlocks_runsAt hst) ?_
    have hle := listEntries_runsAt wf b subtree excl
    exact RunsAt.bind hle (restoreEntries_runs s _ [])
  | err e => rw [hh] at ho; exact RunsAt.bind_err ho
  | panic m => rw [hh] at ho; exact RunsAt.bind_panic ho

/-- `restore(Specified(b), subtree, excl)` on a well-formed store. -/
theorem restore_specified_sel_runs {s : Store} (wf : ArchWF s) (hst : StoreOK H s) (b : Nat)
    (subtree : Str) (excl : Str → Bool) :
    RunsAt (restore H (.specified b) subtree excl) s (restoreSelP H s b subtree excl).1 s
      (restoreSelP H s b subtree excl).2 := by
  have := restoreBody_sel_runs wf hst b subtree excl
  simpa [restore, resolveBandId] using this

/-- `restore(LatestClosed, subtree, excl)` when the newest version directory holds a readable
complete version. -/
theorem restore_latest_sel_runs {s : Store} (wf : ArchWF s) (hst : StoreOK H s) {nb : Nat}
    (hmem : nb ∈ bandIdsOf s) (hmax : ∀ b ∈ bandIdsOf s, b ≤ nb) (hhead : headOutcome s nb = .ok ())
    (hc : isComplete s nb = true) (subtree : Str) (excl : Str → Bool) :
    RunsAt (restore H .latestClosed subtree excl) s (restoreSelP H s nb subtree excl).1 s
      (restoreSelP H s nb subtree excl).2 := by
  have hb := restoreBody_sel_runs wf hst nb subtree excl
  have hl := lastCompleteBand_runs_newest hst hmem hmax hhead hc
  unfold restore resolveBandId
  simp only [Prog.bind_def, Prog.inv_bind_assoc]
  refine RunsAt.bind0 hl ?_
  simpa using hb

/-- `iter_entries(Specified(b), subtree, excl)` on a well-formed store. -/
theorem listVersion_specified_runs {s : Store} (wf : ArchWF s) (b : Nat) (subtree : Str)
    (excl : Str → Bool) :
    RunsAt (listVersion (.specified b) subtree excl) s (listSelP s b subtree excl).1 s
      (listSelP s b subtree excl).2 := by
  have hbody : RunsAt ((bandOpen b).bind fun _ => listEntries b subtree excl) s
      (listSelP s b subtree excl).1 s (listSelP s b subtree excl).2 := by
    unfold listSelP
    have ho := bandOpen_runsAt s b
    cases hh : headOutcome s b with
    | ok u =>
      rw [hh] at ho
      exact RunsAt.bind0 ho (listEntries_runsAt wf b subtree excl)
    | err e => rw [hh] at ho; exact RunsAt.bind_err ho
    | panic m => rw [hh] at ho; exact RunsAt.bind_panic ho
  simpa [listVersion, resolveBandId] using hbody

/-! ### Filtering lists in step -/

theorem Paired.filter {α β : Type} {R : α → β → Prop} {l1 : List α} {l2 : List β} (h : Paired R l1 l2)
    (p : α → Bool) (q : β → Bool) (hpq : ∀ a b, R a b → p a = q b) :
    Paired R (l1.filter p) (l2.filter q) := by
  induction h with
  | nil => exact .nil
  | @cons a b l1 l2 hab _ ih =>
    rw [List.filter_cons, List.filter_cons, hpq a b hab]
    cases q b
    · exact ih
    · exact .cons hab ih

theorem Paired.map_eq {α β γ : Type} {R : α → β → Prop} {l1 : List α} {l2 : List β} (h : Paired R l1 l2)
    (f : α → γ) (g : β → γ) (hfg : ∀ a b, R a b → f a = g b) : l1.map f = l2.map g := by
  induction h with
  | nil => rfl
  | @cons a b l1 l2 hab _ ih => rw [List.map_cons, List.map_cons, hfg a b hab, ih]

theorem map_expectedNode_apath (o : BackupOpts) (l : List SrcEntry) :
    (l.map (expectedNode o)).map (·.apath) = l.map (·.apath) := by
  rw [List.map_map]; rfl

theorem filter_map_expectedNode (o : BackupOpts) (k : Str → Bool) (l : List SrcEntry) :
    (l.map (expectedNode o)).filter (fun n => k n.apath) = (l.filter fun sf => k sf.apath).map (expectedNode o) := by
  rw [List.filter_map]; rfl

/-! ### The selection test on valid paths -/

/-- With subtree "/" the selection test is just "not excluded", on valid paths. -/
theorem filter_selKeep_root (ex : Str → Bool) (src : List SrcEntry) (hv : ∀ sf ∈ src, isValid sf.apath = true) :
    (src.filter fun sf => selKeep [slash] ex sf.apath) = src.filter fun sf => !ex sf.apath := by
  apply List.filter_congr
  intro sf hsf
  simp [selKeep, valid_prefix_slash (hv sf hsf)]

/-- The two-stage filter: selecting `S` out of the listing of "/" is selecting `S` directly, on valid
paths (every valid path is below "/"). -/
theorem filter_sel_split (S : Str) (excl : Str → Bool) (l : List IndexEntry)
    (hv : ∀ e ∈ l, isValid e.apath = true) :
    (l.filter fun e => selKeep S excl e.apath) =
      (l.filter fun e => selKeep [slash] excl e.apath).filter fun e => isPrefixOfImpl S e.apath := by
  rw [List.filter_filter]
  apply List.filter_congr
  intro e he
  simp only [selKeep, valid_prefix_slash (hv e he), Bool.true_and]

/-- The same for source entries. -/
theorem filter_sel_split_src (S : Str) (excl : Str → Bool) (l : List SrcEntry)
    (hv : ∀ e ∈ l, isValid e.apath = true) :
    (l.filter fun e => selKeep S excl e.apath) =
      (l.filter fun e => selKeep [slash] excl e.apath).filter fun e => isPrefixOfImpl S e.apath := by
  rw [List.filter_filter]
  apply List.filter_congr
  intro e he
  simp only [selKeep, valid_prefix_slash (hv e he), Bool.true_and]

/-! ### On the archive a fault-free backup leaves -/

section summary
variable {src : List SrcEntry} {s s' : Store} {hs : List (List IndexEntry)} {stats : Stats} {evs : List Event}

/-- The selected entries of the new version record the selected source entries, in step. -/
theorem Summary.records_sel (h : Summary H o src s s' hs stats evs) (k : Str → Bool) :
    Paired (Records H o s') (src.filter fun sf => k sf.apath) (hs.flatten.filter fun e => k e.apath) :=
  h.records.filter _ _ (fun _ _ hr => by rw [hr.apath])

/-- Restoring the new version under a subtree / exclusion selection: exactly the selected source
entries, nothing reported. -/
theorem Summary.restoreSel (h : Summary H o src s s' hs stats evs) (hsrc : SrcGood src) (subtree : Str)
    (excl : Str → Bool) :
    restoreSelP H s' (newBandOf s) subtree excl =
      (.ok ((src.filter fun sf => selKeep subtree excl sf.apath).map (expectedNode o)), []) := by
  unfold restoreSelP
  rw [h.head_ok, final_listSpec h.final h.usable, final_listErrors h.final h.usable,
    restoreP_records hsrc (h.records_sel (selKeep subtree excl))
      (fun _ hx => (List.mem_filter.mp hx).1) [] (fun _ hp => nomatch hp)]
  rfl

/-- Listing the new version under a subtree / exclusion selection: the selected recorded entries,
nothing reported. -/
theorem Summary.listSel (h : Summary H o src s s' hs stats evs) (subtree : Str) (excl : Str → Bool) :
    listSelP s' (newBandOf s) subtree excl =
      (.ok (hs.flatten.filter fun e => selKeep subtree excl e.apath), []) := by
  unfold listSelP
  rw [h.head_ok, final_listSpec h.final h.usable, final_listErrors h.final h.usable]
  rfl

/-- The paths of the selected recorded entries are the selected source paths. -/
theorem Summary.listSel_paths (h : Summary H o src s s' hs stats evs) (k : Str → Bool) :
    (hs.flatten.filter fun e => k e.apath).map (·.apath) = (src.map (·.apath)).filter k := by
  rw [← (h.records_sel k).map_eq (·.apath) (·.apath) (fun _ _ hr => hr.apath.symm), List.filter_map]
  rfl

/-- `listEntries` (the stitcher alone, without `StoredTree::open`) on the new version. -/
theorem Summary.listEntries_runs (h : Summary H o src s s' hs stats evs) (subtree : Str)
    (excl : Str → Bool) :
    RunsAt (listEntries (newBandOf s) subtree excl) s'
      (.ok (hs.flatten.filter fun e => selKeep subtree excl e.apath)) s' [] := by
  have := listEntries_runsAt h.wf (newBandOf s) subtree excl
  rw [final_listSpec h.final h.usable, final_listErrors h.final h.usable] at this
  exact this

end summary

/-! ### The tool's assumption is inherited by smaller sources -/

theorem heuristic_mono {src src' : List SrcEntry} {s : Store} (hsub : ∀ sf ∈ src', sf ∈ src)
    (h : Inv.HeuristicSoundStore H src s) : Inv.HeuristicSoundStore H src' s :=
  fun b n es hh e he sf hsf => h b n es hh e he sf (hsub sf hsf)

theorem ArchiveGood.mono {src src' : List SrcEntry} {s : Store} (h : ArchiveGood H src s)
    (hsub : ∀ sf ∈ src', sf ∈ src) : ArchiveGood H src' s :=
  ⟨h.st, h.sorted, h.noLock, h.bands, h.noDangling, heuristic_mono hsub h.heuristic⟩

theorem totalSize_filter_le (p : SrcEntry → Bool) (l : List SrcEntry) : totalSize (l.filter p) ≤ totalSize l := by
  induction l with
  | nil => simp
  | cons a l ih =>
    rw [List.filter_cons]
    split
    · simp only [totalSize_cons]; omega
    · simp only [totalSize_cons]; omega

/-! ### Backup, then list / restore under a selection -/

/-- What listing and restoring the version a backup made give under a subtree / exclusion selection. -/
structure SelExact (H : Str → Str) (o : BackupOpts) (src : List SrcEntry) (s : Store) (subtree : Str)
    (excl : Str → Bool) : Prop where
  /-- restore by id: exactly the selected source entries, in order, completely restored … -/
  restoreSpecified :
    ((restore H (.specified (newBandOf s)) subtree excl).run
        (World.clean ((backup H o src).run (World.clean s)).2.store)).1
      = .ok ((src.filter fun sf => selKeep subtree excl sf.apath).map (expectedNode o))
  /-- … reporting nothing -/
  restoreSpecifiedSilent :
    ((restore H (.specified (newBandOf s)) subtree excl).run
        (World.clean ((backup H o src).run (World.clean s)).2.store)).2.events = []
  /-- the same when asking for the latest complete version -/
  restoreLatest :
    ((restore H .latestClosed subtree excl).run
        (World.clean ((backup H o src).run (World.clean s)).2.store)).1
      = .ok ((src.filter fun sf => selKeep subtree excl sf.apath).map (expectedNode o))
  restoreLatestSilent :
    ((restore H .latestClosed subtree excl).run
        (World.clean ((backup H o src).run (World.clean s)).2.store)).2.events = []
  /-- listing by id returns entries whose metadata are exactly those of the selected source entries,
  in order (so in particular their paths are the selected source paths) … -/
  list : ∃ es,
    ((listVersion (.specified (newBandOf s)) subtree excl).run
        (World.clean ((backup H o src).run (World.clean s)).2.store)).1 = .ok es ∧
    es.map strip = (src.filter fun sf => selKeep subtree excl sf.apath).map (Inv.metaOf o) ∧
    es.map (·.apath) = (src.map (·.apath)).filter (selKeep subtree excl)
  /-- … reporting nothing -/
  listSilent :
    ((listVersion (.specified (newBandOf s)) subtree excl).run
        (World.clean ((backup H o src).run (World.clean s)).2.store)).2.events = []

theorem selExact_of_summary {src : List SrcEntry} {s s' : Store} {hs : List (List IndexEntry)} {stats : Stats}
    {evs : List Event} (h : Summary H o src s s' hs stats evs) (hsrc : SrcGood src) (hst : StoreOK H s)
    (subtree : Str) (excl : Str → Bool) : SelExact H o src s subtree excl := by
  obtain ⟨_, h2, _⟩ := h.runs.clean
  have hspec := (restore_specified_sel_runs h.wf h.final.st (newBandOf s) subtree excl).clean
  have hlatest := (restore_latest_sel_runs h.wf h.final.st h.bandIds_mem (h.bandIds_le hst) h.head_ok
    (final_complete h.final) subtree excl).clean
  have hlist := (listVersion_specified_runs h.wf (newBandOf s) subtree excl).clean
  rw [h.restoreSel hsrc] at hspec hlatest
  rw [h.listSel] at hlist
  refine ⟨?_, ?_, ?_, ?_, ⟨hs.flatten.filter fun e => selKeep subtree excl e.apath, ?_, ?_, ?_⟩, ?_⟩
  · rw [h2]; exact hspec.1
  · rw [h2]; exact hspec.2.2
  · rw [h2]; exact hlatest.1
  · rw [h2]; exact hlatest.2.2
  · rw [h2]; exact hlist.1
  · exact ((h.records_sel (selKeep subtree excl)).map_eq (Inv.metaOf o) strip (fun _ _ hr => hr.same.symm)).symm
  · exact h.listSel_paths (selKeep subtree excl)
  · rw [h2]; exact hlist.2.2

/-- Backup of a good source into a good archive, then list / restore that version under any subtree
path and any exclusion predicate. -/
theorem backup_then_select (hinj : Function.Injective H) (hlen : ∀ d, subdirNameChars ≤ (H d).length)
    (s : Store) (o : BackupOpts) (src : List SrcEntry) (ho : 0 < o.maxBlockSize) (hsrc : SrcGood src)
    (hs : ArchiveGood H src s) (subtree : Str) (excl : Str → Bool) : SelExact H o src s subtree excl := by
  obtain ⟨s', hss, stats, evs, h⟩ := backup_summary (o := o) hinj hlen ho hsrc hs
  exact selExact_of_summary h hsrc hs.st subtree excl

end Conserve.Exact
