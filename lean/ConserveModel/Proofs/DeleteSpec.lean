import ConserveModel.Proofs.DeleteSafe
/-
Properties of the store `deleted s D` that `deleteBands D` produces: which bands, band files and
blocks survive.  Helper lemmas for Props/C05.lean.
-/
set_option linter.unusedSimpArgs false
namespace Conserve
open Prog

/-- Sorting commutes with filtering. -/
theorem sortNat_filter (p : Nat → Bool) (l : List Nat) : sortNat (l.filter p) = (sortNat l).filter p := by
  apply List.Perm.eq_of_pairwise (le := (· ≤ ·))
  · intro a b _ _ h1 h2; omega
  · exact sortNat_sorted _
  · exact (sortNat_sorted l).filter p
  · exact (List.mergeSort_perm _ _).trans ((List.mergeSort_perm l _).filter p).symm

theorem filterMap_filter_comm {α β : Type} (f : α → Option β) (p : α → Bool) (q : β → Bool) (l : List α)
    (h : ∀ a b, f a = some b → p a = q b) : (l.filter p).filterMap f = (l.filterMap f).filter q := by
  induction l with
  | nil => rfl
  | cons a l ih =>
    cases hf : f a with
    | none =>
      by_cases hp : p a = true
      · simp [List.filter_cons, hp, hf, ih]
      · simp [List.filter_cons, hp, hf, ih]
    | some b =>
      have := h a b hf
      by_cases hp : p a = true
      · have hq : q b = true := by rw [← this]; exact hp
        simp [List.filter_cons, hp, hf, ih, hq]
      · have hq : ¬ q b = true := by rw [← this]; exact hp
        simp [List.filter_cons, hp, hf, ih, hq]

theorem isUnder_bandDir_unique {k : Key} {b b' : Nat} (h1 : Key.isUnder (.bandDir b) k = true)
    (h2 : Key.isUnder (.bandDir b') k = true) : b = b' := by
  cases k <;> simp [Key.isUnder, Key.parent] at h1 h2 <;> omega

theorem underAny_eq_true {D : List Nat} {k : Key} :
    underAny D k = true ↔ ∃ b ∈ D, Key.isUnder (.bandDir b) k = true := by
  simp [underAny]

/-- A key at or under the directory of a band outside `D` is not under any band of `D`. -/
theorem underAny_of_under_kept {D : List Nat} {k : Key} {b : Nat} (hb : b ∉ D)
    (hk : Key.isUnder (.bandDir b) k = true) : underAny D k = false := by
  cases h : underAny D k with
  | false => rfl
  | true =>
    obtain ⟨b', hb', hk'⟩ := underAny_eq_true.1 h
    exact absurd (isUnder_bandDir_unique hk hk' ▸ hb') hb

theorem blockIn_of_under_band {hs : List Str} {k : Key} {b : Nat} (hk : Key.isUnder (.bandDir b) k = true) :
    blockIn hs k = false := by
  cases k <;> simp [Key.isUnder, Key.parent] at hk <;> rfl

theorem get?_deleted (s : Store) (D : List Nat) (k : Key) :
    (deleted s D).get? k = if survives s D k then s.get? k else none :=
  Store.get?_filter_key (survives s D) s k

/-- (a) The versions left are exactly the ones not in `D`. -/
theorem bandIdsOf_deleted (s : Store) (D : List Nat) : bandIdsOf (deleted s D) = keptOf s D := by
  simp only [bandIdsOf, deleted, keptOf]
  rw [filterMap_filter_comm _ _ (fun b => !D.contains b), sortNat_filter]
  rintro ⟨k, v⟩ b hf
  cases k <;> cases v <;> simp at hf
  subst hf
  simp only [survives, blockIn, Bool.not_false, Bool.and_true]
  congr 1
  rw [Bool.eq_iff_iff]
  simp [underAny, isUnder_bandDir_bandDir]

/-- (a) Everything at or under a deleted band directory is gone. -/
theorem deleted_band_gone (s : Store) {D : List Nat} {b : Nat} (hb : b ∈ D) {k : Key}
    (hk : Key.isUnder (.bandDir b) k = true) : (deleted s D).get? k = none := by
  rw [get?_deleted]
  have : underAny D k = true := underAny_eq_true.2 ⟨b, hb, hk⟩
  simp [survives, this]

/-- (a) Everything at or under a kept band directory is unchanged. -/
theorem kept_band_unchanged (s : Store) {D : List Nat} {b : Nat} (hb : b ∉ D) {k : Key}
    (hk : Key.isUnder (.bandDir b) k = true) : (deleted s D).get? k = s.get? k := by
  rw [get?_deleted]
  simp [survives, underAny_of_under_kept hb hk, blockIn_of_under_band hk]

theorem isUnder_of_parent {anc k k' : Key} (hp : k'.parent = some k) (hk : Key.isUnder anc k = true) :
    Key.isUnder anc k' = true := by
  cases k' <;> simp [Key.parent] at hp <;> subst hp <;> revert hk <;> cases anc <;>
    simp [Key.isUnder, Key.parent]

/-- (a) The directory listing of a kept band directory (or of any directory under it) is the very
same list as before: `list_dir` answers the same, entry for entry, in the same order. -/
theorem kept_band_listing_unchanged (s : Store) {D : List Nat} {b : Nat} (hb : b ∉ D) {k : Key}
    (hk : Key.isUnder (.bandDir b) k = true) : (deleted s D).children k = s.children k := by
  simp only [Store.children, deleted, List.filter_filter]
  congr 1
  apply List.filter_congr
  intro kv _
  cases hp : (kv.1.parent == some k) with
  | false => simp
  | true =>
    have hp' : kv.1.parent = some k := by simpa using hp
    have hu := isUnder_of_parent hp' hk
    simp [survives, underAny_of_under_kept hb hu, blockIn_of_under_band hu]

/-- (c) Whatever is not under a deleted band and not a block file is unchanged. -/
theorem other_unchanged (s : Store) {D : List Nat} {k : Key} (h1 : underAny D k = false)
    (h2 : ∀ h, k ≠ .block h) : (deleted s D).get? k = s.get? k := by
  rw [get?_deleted]
  have : blockIn (unrefOf s D) k = false := by
    cases k <;> first | rfl | exact absurd rfl (h2 _)
  simp [survives, h1, this]

/-- (b) A block file survives, unchanged, iff it was not found unreferenced. -/
theorem get?_deleted_block (s : Store) (D : List Nat) (h : Str) :
    (deleted s D).get? (.block h) = if h ∈ unrefOf s D then none else s.get? (.block h) := by
  rw [get?_deleted]
  by_cases hm : h ∈ unrefOf s D <;> simp [survives, blockIn, hm]

/-- Hash `h` is named by an entry of a decodable hunk of one of the bands `keep`. -/
def referencedBy (s : Store) (keep : List Nat) (h : Str) : Prop :=
  ∃ b ∈ keep, ∃ n es, hunkAt s b n = some es ∧ ∃ e ∈ es, ∃ a ∈ e.addrs, a.hash = h

theorem mem_bandRefs {s : Store} {b : Nat} {h : Str} (hd : HunkDirsOk s b) :
    h ∈ bandRefHashes s b ↔ ∃ n es, hunkAt s b n = some es ∧ ∃ e ∈ es, ∃ a ∈ e.addrs, a.hash = h := by
  simp only [bandRefHashes, hunkEntriesOf, List.mem_flatMap, List.mem_map]
  constructor
  · rintro ⟨e, ⟨n, _, he⟩, a, ha, rfl⟩
    cases hes : hunkAt s b n with
    | none => simp [hes] at he
    | some es => exact ⟨n, es, hes, e, by simpa [hes] using he, a, ha, rfl⟩
  · rintro ⟨n, es, hes, e, he, a, ha, rfl⟩
    refine ⟨e, ⟨n, (mem_hunksListed hd).2 (hunkNumsOf_of_hunkAt hes), ?_⟩, a, ha, rfl⟩
    simpa [hes] using he

theorem mem_refsOf_iff {s : Store} {keep : List Nat} {h : Str} (hd : ∀ b ∈ keep, HunkDirsOk s b) :
    h ∈ refsOf s keep ↔ referencedBy s keep h := by
  rw [mem_refsOf]
  constructor
  · rintro ⟨b, hb, hh⟩; exact ⟨b, hb, (mem_bandRefs (hd b hb)).1 hh⟩
  · rintro ⟨b, hb, hh⟩; exact ⟨b, hb, (mem_bandRefs (hd b hb)).2 hh⟩

/-- (b) In a well-formed store the blocks found unreferenced are exactly the listed non-empty block
files (names of three characters or more) that no kept band names. -/
theorem mem_unrefOf_iff {s : Store} {D : List Nat} (hn : UniqueKeys s) (hd : DirsOk s) {h : Str} :
    h ∈ unrefOf s D ↔
      blockListed s h ∧ subdirNameChars ≤ h.length ∧ ¬ referencedBy s (keptOf s D) h := by
  rw [mem_unrefOf, mem_blockNamesOf hn hd, mem_refsOf_iff (fun b _ => hd.hunkDirsOk b), and_assoc]

theorem referencedBy_of_outside {s : Store} {D : List Nat} (hd : DirsOk s) {h : Str}
    (href : referencedOutside s D h) : referencedBy s (keptOf s D) h := by
  obtain ⟨b, hbD, n, es, hes, rest⟩ := href
  refine ⟨b, ?_, n, es, hes, rest⟩
  have hv : ∃ v, s.get? (.hunk b n) = some v := by
    simp only [hunkAt] at hes
    cases hg : s.get? (.hunk b n) with
    | none => simp [hg] at hes
    | some v => exact ⟨v, rfl⟩
  obtain ⟨v, hv⟩ := hv
  rw [keptOf, List.mem_filter]
  exact ⟨mem_bandIdsOf'.2 (Store.mem_of_get?' (hd.hunkTreeOk b n v hv).2), by simpa using hbD⟩

theorem referencedOutside_of_by {s : Store} {D : List Nat} {h : Str}
    (href : referencedBy s (keptOf s D) h) : referencedOutside s D h := by
  obtain ⟨b, hb, rest⟩ := href
  rw [keptOf, List.mem_filter] at hb
  exact ⟨b, by simpa using hb.2, rest⟩

end Conserve

namespace Conserve
open Prog

/-! ### Reading content back only depends on the block files named -/

theorem readBack_congr (H : Str → Str) {s s' : Store} (as : List Addr)
    (h : ∀ a ∈ as, s'.get? (.block a.hash) = s.get? (.block a.hash)) :
    readBack H s' as = readBack H s as := by
  induction as with
  | nil => rfl
  | cons a as ih =>
    have h1 : readAddrPure H s' a = readAddrPure H s a := by
      simp only [readAddrPure, blockContent, h a (List.mem_cons_self ..)]
    simp only [readBack, h1, ih fun a' ha' => h a' (List.mem_cons_of_mem _ ha')]

/-- What "the kept versions are intact" means at the level of pure functions: for every band
outside `D`, every key at or under its directory is unchanged (so its head, tail, index listing
and hunks read as before), and every block named by an entry of one of its hunks is unchanged (so
every file's content reads back as before). -/
structure KeptIntact (H : Str → Str) (s : Store) (D : List Nat) (s' : Store) : Prop where
  keys : ∀ b, b ∉ D → ∀ k, Key.isUnder (.bandDir b) k = true → s'.get? k = s.get? k
  hunks : ∀ b, b ∉ D → ∀ n, hunkAt s' b n = hunkAt s b n
  complete : ∀ b, b ∉ D → isComplete s' b = isComplete s b
  blocks : ∀ h, referencedOutside s D h → s'.get? (.block h) = s.get? (.block h)
  content : ∀ b, b ∉ D → ∀ n es, hunkAt s b n = some es → ∀ e ∈ es,
    readBack H s' e.addrs = readBack H s e.addrs

theorem KeptIntact.of_frames (H : Str → Str) {s s' : Store} {D : List Nat}
    (hk : ∀ b, b ∉ D → ∀ k, Key.isUnder (.bandDir b) k = true → s'.get? k = s.get? k)
    (hb : ∀ h, referencedOutside s D h → s'.get? (.block h) = s.get? (.block h)) :
    KeptIntact H s D s' where
  keys := hk
  hunks := by
    intro b hbD n
    simp only [hunkAt, hk b hbD (.hunk b n) (by simp [Key.isUnder, Key.parent])]
  complete := by
    intro b hbD
    simp only [isComplete, hk b hbD (.bandTail b) (by simp [Key.isUnder, Key.parent])]
  blocks := hb
  content := by
    intro b hbD n es hes e he
    apply readBack_congr
    intro a ha
    exact hb _ ⟨b, hbD, n, es, hes, e, he, a, ha, rfl⟩

/-- **In every world** (strict mode): any faults, any crash point.  The kept versions are intact
after `delete_bands D`, however it ended. -/
theorem deleteBands_keptIntact (H : Str → Str) (D : List Nat) (o : DeleteOpts) (w : World)
    (hd : HunkTreeOk w.store) : KeptIntact H w.store D ((deleteBands true D o).run w).2.store := by
  apply KeptIntact.of_frames
  · intro b hbD k hk
    apply deleteBands_frame
    · rintro rfl; simp [Key.isUnder, Key.parent] at hk
    · exact underAny_of_under_kept hbD hk
    · rintro h rfl; simp [Key.isUnder, Key.parent] at hk
  · intro h href
    exact deleteBands_safe D o w hd href

end Conserve
