import ConserveModel.Proofs.ExactStore
/-
Runs in worlds WITH injected faults (but no crash point), compared with fault-free runs.

`Live w`: alive, no crash point, `CreateNew` honoured — the fault list is arbitrary.
`Unfaulted p w`: along the run of `p` in `w` no operation hits an injected fault.
`sim`: an unfaulted run in a live world has the same outcome, final store and emitted events as the
run of the same program in any fault-free world holding the same store; so every `RunsAt` fact
(Proofs/ExactStore.lean) transfers (`sim_runsAt`).
No property statements here.
-/
namespace Conserve.Fault
open Conserve Conserve.Exact Prog

/-- Alive, no crash point, `CreateNew` honoured; ANY fault list. -/
structure Live (w : World) : Prop where
  alive : w.dead = false
  noCrash : w.crashAt = none
  ecn : w.enforceCreateNew = true

theorem Live.of_fields {s : Store} {fs : List Fault} : Live { store := s, faults := fs } := ⟨rfl, rfl, rfl⟩

theorem Live.events {w : World} (h : Live w) (evs : List Event) : Live { w with events := evs } :=
  ⟨h.alive, h.noCrash, h.ecn⟩

/-- In a live world, an operation that hits no fault is `applyOp`. -/
theorem exec_live {w : World} (h : Live w) {o : Op} (hff : w.faultFor o = none) :
    w.exec o = ({ w with store := (applyOp true w.store o).1, steps := (w.exec o).1.steps,
                         trace := ⟨o, (applyOp true w.store o).2⟩ :: w.trace },
                (applyOp true w.store o).2) := by
  obtain ⟨hd, hc, he⟩ := h
  have hcc : ∀ n, w.crashesAt n = false := by intro n; simp [World.crashesAt, hc]
  by_cases hm : o.isMutating = true
  · cases o with
    | write k v m =>
      rw [World.exec_write_eq w k v m hd hff (hcc _)]
      rcases applyOp_write_store true w.store k v m with ⟨hr, hs⟩ | ⟨⟨err, hr⟩, hs⟩
      · simp [he, hr, hs, hcc]
      · simp [he, hr, hs]
    | createDir k => simp [World.exec, hd, hff, Op.isMutating, hcc, he]
    | removeFile k => simp [World.exec, hd, hff, Op.isMutating, hcc, he]
    | removeDirAll k => simp [World.exec, hd, hff, Op.isMutating, hcc, he]
    | read k => simp [Op.isMutating] at hm
    | listDir k => simp [Op.isMutating] at hm
    | metadata k => simp [Op.isMutating] at hm
  · have hro : ReadOnly o := by cases o <;> simp_all [Op.isMutating, ReadOnly]
    simp [World.exec, hd, hff, hm, he, applyOp_readOnly_store hro]

/-- In a live world, an operation that hits a fault fails with that fault and touches nothing. -/
theorem exec_fault {w : World} (h : Live w) {o : Op} {e : ErrKind} (hff : w.faultFor o = some e) :
    w.exec o = ({ w with trace := ⟨o, .err e⟩ :: w.trace }, .err e) := by
  simp [World.exec, h.alive, hff]

/-- Every step keeps a live world live (no crash point: it never dies). -/
theorem Live.exec {w : World} (h : Live w) (o : Op) : Live (w.exec o).1 := by
  cases hf : w.faultFor o with
  | some e => rw [exec_fault h hf]; exact ⟨h.alive, h.noCrash, h.ecn⟩
  | none => rw [exec_live h hf]; exact ⟨h.alive, h.noCrash, h.ecn⟩

theorem Live.run {α : Type} (p : Prog α) {w : World} (h : Live w) : Live (p.run w).2 := by
  induction p generalizing w with
  | ret a => exact h
  | fail e => exact h
  | panic s => exact h
  | emit ev k ih => exact ih (h.events _)
  | op o k ih => rw [Prog.run_op]; exact ih _ (h.exec o)

/-- No operation of the run of `p` in `w` hits an injected fault. -/
def Unfaulted {α : Type} : Prog α → World → Prop
  | .ret _, _ => True
  | .fail _, _ => True
  | .panic _, _ => True
  | .emit ev k, w => Unfaulted k { w with events := ev :: w.events }
  | .op o k, w => w.faultFor o = none ∧ Unfaulted (k (w.exec o).2) (w.exec o).1

@[simp] theorem unfaulted_ret {α : Type} (a : α) (w : World) : Unfaulted (.ret a : Prog α) w = True := rfl
@[simp] theorem unfaulted_fail {α : Type} (e : Err) (w : World) : Unfaulted (.fail e : Prog α) w = True := rfl
@[simp] theorem unfaulted_panic {α : Type} (s : String) (w : World) : Unfaulted (.panic s : Prog α) w = True := rfl
@[simp] theorem unfaulted_emit {α : Type} (ev : Event) (k : Prog α) (w : World) :
    Unfaulted (.emit ev k) w = Unfaulted k { w with events := ev :: w.events } := rfl
@[simp] theorem unfaulted_op {α : Type} (o : Op) (k : Resp → Prog α) (w : World) :
    Unfaulted (.op o k) w = (w.faultFor o = none ∧ Unfaulted (k (w.exec o).2) (w.exec o).1) := rfl

theorem unfaulted_bind {α β : Type} {p : Prog α} {f : α → Prog β} {w : World} :
    Unfaulted (p.bind f) w ↔
      Unfaulted p w ∧ ∀ a, (p.run w).1 = .ok a → Unfaulted (f a) (p.run w).2 := by
  induction p generalizing w with
  | ret a => simp
  | fail e => simp
  | panic s => simp
  | emit ev k ih => simp only [Prog.emit_bind, unfaulted_emit, Prog.run_emit]; exact ih
  | op o k ih =>
    simp only [Prog.op_bind, unfaulted_op, Prog.run_op, and_assoc]
    exact and_congr_right fun _ => ih _

/-- A program whose run issues no operation at all is unfaulted. -/
theorem unfaulted_of_allOps_false {α : Type} {p : Prog α} (hp : Prog.AllOps (fun _ => False) p) (w : World) :
    Unfaulted p w := by
  induction hp generalizing w with
  | ret a => trivial
  | fail e => trivial
  | panic s => trivial
  | emit ev _ ih => exact ih _
  | op ho _ _ => exact ho.elim

/-- **Simulation.**  An unfaulted run in a live world `w` and the run of the same program in a
fault-free world `c` holding the same store end with the same outcome and the same store, and emit
the same events. -/
theorem sim {α : Type} (p : Prog α) : ∀ {w c : World}, Live w → c.Clean → w.store = c.store → Unfaulted p w →
    (p.run w).1 = (p.run c).1 ∧ (p.run w).2.store = (p.run c).2.store ∧
      ∃ ev, (p.run w).2.events = ev ++ w.events ∧ (p.run c).2.events = ev ++ c.events := by
  induction p with
  | ret a => intro w c _ _ hs _; exact ⟨rfl, hs, [], rfl, rfl⟩
  | fail e => intro w c _ _ hs _; exact ⟨rfl, hs, [], rfl, rfl⟩
  | panic s => intro w c _ _ hs _; exact ⟨rfl, hs, [], rfl, rfl⟩
  | emit ev k ih =>
    intro w c hl hc hs hu
    obtain ⟨h1, h2, evs, h3, h4⟩ := ih (w := { w with events := ev :: w.events })
      (c := { c with events := ev :: c.events }) (hl.events _) hc hs hu
    exact ⟨h1, h2, evs ++ [ev], by simpa using h3, by simpa using h4⟩
  | op o k ih =>
    intro w c hl hc hs hu
    obtain ⟨hff, hu'⟩ := hu
    have hw := exec_live hl hff
    have hcx := World.exec_clean hc o
    have hr : (w.exec o).2 = (c.exec o).2 := by rw [hw, hcx, hs]
    have hst : (w.exec o).1.store = (c.exec o).1.store := by rw [hw, hcx, hs]
    have hev : (w.exec o).1.events = w.events := by rw [hw]
    have hevc : (c.exec o).1.events = c.events := by rw [hcx]
    simp only [Prog.run_op]
    rw [← hr]
    obtain ⟨h1, h2, evs, h3, h4⟩ := ih (w.exec o).2 (hl.exec o) (World.exec_clean_Clean hc o) hst hu'
    exact ⟨h1, h2, evs, by rw [h3, hev], by rw [h4, hevc]⟩

/-- Transfer of a fault-free run fact to an unfaulted run in a world with faults. -/
theorem sim_runsAt {α : Type} {p : Prog α} {w : World} {out : Outcome α} {s' : Store} {ev : List Event}
    (hl : Live w) (hu : Unfaulted p w) (hr : RunsAt p w.store out s' ev) :
    (p.run w).1 = out ∧ (p.run w).2.store = s' ∧ (p.run w).2.events = ev ++ w.events := by
  obtain ⟨h1, h2, evs, h3, h4⟩ := sim p hl (World.clean_Clean w.store) rfl hu
  obtain ⟨c1, c2, c3⟩ := hr.clean
  rw [c1] at h1
  rw [c2] at h2
  rw [c3] at h4
  have : evs = ev := by simpa [World.clean] using h4.symm
  subst this
  exact ⟨h1, h2, h3⟩

end Conserve.Fault
