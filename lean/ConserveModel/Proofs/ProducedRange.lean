import ConserveModel.Proofs.ConformsBackup
import ConserveModel.Proofs.ConformsDelete
import ConserveModel.ValidateSpec
import ConserveModel.Proofs.ExactStore
/-
C09 (first sentence), the range half of the writer invariant: `entriesInRange` — every stored
index entry has a representable time and no address overflows `u64` — and `BlocksSmall` — every
block is shorter than 2^64 bytes — are kept by every operation that is neither the write of an index
hunk with an out-of-range entry nor of a block of 2^64 bytes or more (`exec_irs`, in EVERY world),
and `backup` only issues such operations when the source's times are representable and its file
sizes add up to less than 2^64 (Proofs/ProducedBackup.lean).  A small Hoare logic `RSat` (store
invariant: `IRS`; pure postcondition on the returned value).  No property statements here.
-/
namespace Conserve.Rng
open Conserve Conserve.Inv Conserve.Conf Prog

/-- 2^64. -/
abbrev u64 : Nat := 18446744073709551616

/-! ### `entriesInRange` and the store operations -/

/-- `entriesInRange`, as a statement about the members of the store. -/
theorem ir_iff (s : Store) :
    entriesInRange s = true ↔ ∀ k es, (k, FileVal.hunk es) ∈ s → ∀ e ∈ es, entryInRange e = true := by
  unfold entriesInRange
  rw [List.all_eq_true]
  constructor
  · intro h k es hm e he
    have := h _ hm
    simp only [List.all_eq_true] at this
    exact this e he
  · intro h kv hkv
    obtain ⟨k, v⟩ := kv
    cases v with
    | hunk es =>
      simp only [List.all_eq_true]
      exact h k es hkv
    | _ => rfl

theorem ir_put {s : Store} {k : Key} {v : FileVal} (h : entriesInRange s = true)
    (hv : ∀ es, v = .hunk es → ∀ e ∈ es, entryInRange e = true) : entriesInRange (s.put k v) = true := by
  rw [ir_iff] at h ⊢
  intro k' es hm e he
  simp only [Store.put, Store.erase, List.mem_append, List.mem_filter, List.mem_singleton] at hm
  rcases hm with ⟨hm, _⟩ | hm
  · exact h k' es hm e he
  · cases hm
    exact hv es rfl e he

theorem ir_filter {s : Store} (p : Key × FileVal → Bool) (h : entriesInRange s = true) :
    entriesInRange (s.filter p) = true := by
  rw [ir_iff] at h ⊢
  intro k es hm e he
  exact h k es (List.mem_filter.mp hm).1 e he

theorem ir_erase {s : Store} (k : Key) (h : entriesInRange s = true) : entriesInRange (s.erase k) = true :=
  ir_filter _ h

theorem ir_eraseTree {s : Store} (k : Key) (h : entriesInRange s = true) :
    entriesInRange (s.eraseTree k) = true := ir_filter _ h

/-- Hunk writes carry in-range entries. -/
def RangeOp (o : Op) : Prop := ∀ k es m, o = .write k (.hunk es) m → ∀ e ∈ es, entryInRange e = true

/-- Block writes carry fewer than 2^64 bytes. -/
def SmallOp (o : Op) : Prop := ∀ h c m, o = .write (.block h) (.blockData c) m → c.length < u64

/-- The operations that keep `entriesInRange` and `BlocksSmall`. -/
@[reducible] def GoodOp (o : Op) : Prop := RangeOp o ∧ SmallOp o

/-- Neither an index hunk nor block data is written. -/
@[reducible] def NoDataWrite (o : Op) : Prop :=
  (∀ k es m, o ≠ .write k (.hunk es) m) ∧ ∀ k c m, o ≠ .write k (.blockData c) m

theorem NoDataWrite.goodOp {o : Op} (h : NoDataWrite o) : GoodOp o :=
  ⟨fun k es m ho => absurd ho (h.1 k es m), fun _ c m ho => absurd ho (h.2 _ c m)⟩

theorem applyOp_ir (e : Bool) {s : Store} {o : Op} (ho : RangeOp o) (h : entriesInRange s = true) :
    entriesInRange (applyOp e s o).1 = true := by
  cases o with
  | read k => rw [applyOp_readOnly_store (by simp [ReadOnly])]; exact h
  | listDir k => rw [applyOp_readOnly_store (by simp [ReadOnly])]; exact h
  | metadata k => rw [applyOp_readOnly_store (by simp [ReadOnly])]; exact h
  | write k v m =>
    rcases applyOp_write_store e s k v m with ⟨_, hs⟩ | ⟨_, hs⟩
    · rw [hs]; exact ir_put h (fun es hv => by subst hv; exact ho k es m rfl)
    · rw [hs]; exact h
  | createDir k =>
    rcases applyOp_createDir_store e s k with hs | ⟨_, hs⟩
    · rw [hs]; exact h
    · rw [hs]; exact ir_put h (fun es hv => nomatch hv)
  | removeFile k =>
    simp only [applyOp]
    split
    · exact h
    · exact h
    · exact ir_erase k h
  | removeDirAll k =>
    simp only [applyOp]
    split
    · exact h
    · exact ir_eraseTree k h

/-- **One step, in every world** (any faults, any crash point, dead or alive): an operation that
does not write an out-of-range hunk keeps `entriesInRange`. -/
theorem exec_ir (w : World) {o : Op} (ho : RangeOp o) (h : entriesInRange w.store = true) :
    entriesInRange (w.exec o).1.store = true := by
  rcases (World.exec_cases w o).2 with ⟨hs, _, _⟩ | ⟨k, v, m, _, _, hs, _, _⟩ | ⟨e, hs, _, _⟩ | ⟨hs, _, _⟩
  · rw [hs]; exact h
  · rw [hs]; exact ir_put h (fun es hv => nomatch hv)
  · rw [hs]; exact h
  · rw [hs]; exact applyOp_ir _ ho h

/-! ### `BlocksSmall` and the store operations -/

theorem small_put {s : Store} {k : Key} {v : FileVal} (h : Exact.BlocksSmall s)
    (hv : ∀ hh c, k = .block hh → v = .blockData c → c.length < u64) : Exact.BlocksSmall (s.put k v) := by
  intro hh c hg
  rw [Store.inv_get?_put] at hg
  split at hg
  · rename_i hk
    cases hg
    exact hv hh c hk.symm rfl
  · exact h hh c hg

theorem small_erase {s : Store} (k : Key) (h : Exact.BlocksSmall s) : Exact.BlocksSmall (s.erase k) := by
  intro hh c hg
  rw [Store.get?_erase] at hg
  split at hg
  · cases hg
  · exact h hh c hg

theorem small_eraseTree {s : Store} (k : Key) (h : Exact.BlocksSmall s) : Exact.BlocksSmall (s.eraseTree k) := by
  intro hh c hg
  rw [Store.get?_eraseTree] at hg
  split at hg
  · cases hg
  · exact h hh c hg

theorem applyOp_small (e : Bool) {s : Store} {o : Op} (ho : SmallOp o) (h : Exact.BlocksSmall s) :
    Exact.BlocksSmall (applyOp e s o).1 := by
  cases o with
  | read k => rw [applyOp_readOnly_store (by simp [ReadOnly])]; exact h
  | listDir k => rw [applyOp_readOnly_store (by simp [ReadOnly])]; exact h
  | metadata k => rw [applyOp_readOnly_store (by simp [ReadOnly])]; exact h
  | write k v m =>
    rcases applyOp_write_store e s k v m with ⟨_, hs⟩ | ⟨_, hs⟩
    · rw [hs]; exact small_put h (fun hh c hk hv => by subst hk; subst hv; exact ho hh c m rfl)
    · rw [hs]; exact h
  | createDir k =>
    rcases applyOp_createDir_store e s k with hs | ⟨_, hs⟩
    · rw [hs]; exact h
    · rw [hs]; exact small_put h (fun _ _ _ hv => nomatch hv)
  | removeFile k =>
    simp only [applyOp]
    split
    · exact h
    · exact h
    · exact small_erase k h
  | removeDirAll k =>
    simp only [applyOp]
    split
    · exact h
    · exact small_eraseTree k h

theorem exec_small (w : World) {o : Op} (ho : SmallOp o) (h : Exact.BlocksSmall w.store) :
    Exact.BlocksSmall (w.exec o).1.store := by
  rcases (World.exec_cases w o).2 with ⟨hs, _, _⟩ | ⟨k, v, m, _, _, hs, _, _⟩ | ⟨e, hs, _, _⟩ | ⟨hs, _, _⟩
  · rw [hs]; exact h
  · rw [hs]; exact small_put h (fun _ _ _ hv => nomatch hv)
  · rw [hs]; exact h
  · rw [hs]; exact applyOp_small _ ho h

/-- The store invariant: stored index entries in range, blocks shorter than 2^64 bytes. -/
@[reducible] def IRS (s : Store) : Prop := entriesInRange s = true ∧ Exact.BlocksSmall s

/-- **One step, in every world**: a `GoodOp` keeps `IRS`. -/
theorem exec_irs (w : World) {o : Op} (ho : GoodOp o) (h : IRS w.store) : IRS (w.exec o).1.store :=
  ⟨exec_ir w ho.1 h.1, exec_small w ho.2 h.2⟩

/-- A program all of whose operations are `GoodOp` keeps `IRS`, in every world. -/
theorem run_irs {α : Type} {p : Prog α} (hp : Prog.AllOps GoodOp p) (w : World) (h : IRS w.store) :
    IRS (p.run w).2.store :=
  Prog.run_world_inv (P := GoodOp) (I := fun w' => IRS w'.store)
    (fun _ _ h => h) (fun w' _ ho h' => exec_irs w' ho h') hp w h

/-! ### The Hoare logic -/

/-- What the logic is run with: a store invariant `I` that implies `entriesInRange`, and a class `P`
of operations — containing every `GoodOp` — each of which keeps `I` in every world.  Two instances:
`specIR` (`entriesInRange` alone) and `specIRS` (with `BlocksSmall`). -/
structure Spec where
  I : Store → Prop
  P : Op → Prop
  step : ∀ (w : World) (o : Op), P o → I w.store → I (w.exec o).1.store
  good : ∀ o, GoodOp o → P o
  ir : ∀ s, I s → entriesInRange s = true

/-- Store invariant `entriesInRange`; operations: no out-of-range hunk is written. -/
def specIR : Spec := ⟨fun s => entriesInRange s = true, RangeOp, fun w _ ho h => exec_ir w ho h, fun _ h => h.1, fun _ h => h⟩

/-- Store invariant `IRS`; operations: additionally no block of 2^64 bytes or more is written. -/
def specIRS : Spec := ⟨IRS, GoodOp, fun w _ ho h => exec_irs w ho h, fun _ h => h, fun _ h => h.1⟩

theorem Spec.run (S : Spec) {α : Type} {p : Prog α} (hp : Prog.AllOps S.P p) (w : World) (h : S.I w.store) :
    S.I (p.run w).2.store :=
  Prog.run_world_inv (P := S.P) (I := fun w' => S.I w'.store)
    (fun _ _ h => h) (fun w' o ho h' => S.step w' o ho h') hp w h

/-- `RSat S p Q`: from any world whose store satisfies the invariant, `p` ends — whatever the
outcome, whatever faults, wherever the world is killed — in a store that satisfies it; if it returns
`a` then `Q a`. -/
def RSat (S : Spec) {α : Type} (p : Prog α) (Q : α → Prop) : Prop :=
  ∀ w : World, S.I w.store → S.I (p.run w).2.store ∧ ∀ a, (p.run w).1 = .ok a → Q a

namespace RSat
variable {S : Spec}

theorem of_ops {α : Type} {p : Prog α} {Q : α → Prop} (hp : Prog.AllOps GoodOp p) (hr : RetSpec p Q) :
    RSat S p Q := fun w h => ⟨S.run (hp.mono S.good) w h, fun a ha => hr w a ha⟩

theorem ret {α : Type} {a : α} {Q : α → Prop} (h : Q a) : RSat S (.ret a) Q :=
  fun _ hw => ⟨hw, fun _ h' => by cases h'; exact h⟩

theorem fail {α : Type} {e : Err} {Q : α → Prop} : RSat S (.fail e : Prog α) Q :=
  fun _ hw => ⟨hw, fun _ h' => nomatch h'⟩

theorem panic {α : Type} {m : String} {Q : α → Prop} : RSat S (.panic m : Prog α) Q :=
  fun _ hw => ⟨hw, fun _ h' => nomatch h'⟩

theorem emit {α : Type} {ev : Event} {k : Prog α} {Q : α → Prop} (h : RSat S k Q) : RSat S (.emit ev k) Q :=
  fun w hw => h { w with events := ev :: w.events } hw

theorem bind {α β : Type} {p : Prog α} {f : α → Prog β} {Q1 : α → Prop} {Q : β → Prop}
    (hp : RSat S p Q1) (hf : ∀ a, Q1 a → RSat S (f a) Q) : RSat S (p.bind f) Q := by
  intro w hw
  rw [Prog.run_bind]
  obtain ⟨h1, h2⟩ := hp w hw
  cases hrun : p.run w with
  | mk out w1 =>
    rw [hrun] at h1 h2
    cases out with
    | ok a => exact hf a (h2 a rfl) w1 h1
    | err e => exact ⟨h1, fun _ h' => nomatch h'⟩
    | panic m => exact ⟨h1, fun _ h' => nomatch h'⟩

theorem mono {α : Type} {p : Prog α} {Q Q' : α → Prop} (hp : RSat S p Q) (h : ∀ a, Q a → Q' a) :
    RSat S p Q' := fun w hw => ⟨(hp w hw).1, fun a ha => h a ((hp w hw).2 a ha)⟩

end RSat

/-! ### What is assumed of the source, and the writer invariant -/

/-- The modification time is one jiff can represent (as in `C01a.SrcGood.mtimes`). -/
def SrcTimeOK (sf : SrcEntry) : Prop :=
  -377705023201 * nanosPerSec ≤ sf.mtimeNs ∧ sf.mtimeNs < 253402207201 * nanosPerSec

/-- The bytes reading a source entry can return (only files are read). -/
def fileBytes (sf : SrcEntry) : Nat := if sf.kind = .file then sf.content.length else 0

/-- The bytes of all files of a listing. -/
def srcBytes (l : List SrcEntry) : Nat := (l.map fileBytes).sum

/-- What `entriesInRange` needs of a source listing: representable times, and file contents that
add up to less than 2^64 bytes (the combiner's buffer holds the concatenation of small files and
records offsets into it). -/
structure SrcInRange (src : List SrcEntry) : Prop where
  mtimes : ∀ sf ∈ src, SrcTimeOK sf
  bytes : srcBytes src < u64

theorem SrcInRange.tail {sf : SrcEntry} {l : List SrcEntry} (h : SrcInRange (sf :: l)) : SrcInRange l :=
  ⟨fun x hx => h.mtimes x (List.mem_cons_of_mem _ hx), by
    have := h.bytes
    simp only [srcBytes, List.map_cons, List.sum_cons] at this ⊢
    omega⟩

/-- The stored time is representable. -/
def timeOK (e : IndexEntry) : Prop := (entryTimeNs e.mtime e.mtimeNanos).isSome = true

/-- No address overflows `u64`. -/
def addrsOK (as : List Addr) : Prop := ∀ a ∈ as, a.start + a.len < u64

theorem entryInRange_iff (e : IndexEntry) : entryInRange e = true ↔ timeOK e ∧ addrsOK e.addrs := by
  simp [entryInRange, timeOK, addrsOK]

theorem timeOK_metaOf (o : BackupOpts) {sf : SrcEntry} (h : SrcTimeOK sf) : timeOK (metaOf o sf) := by
  obtain ⟨sec, nanos, h1, _, h3⟩ := C01.mtime_roundtrip sf.mtimeNs h.1 h.2
  simp only [mtimeToIndex, Option.some.injEq, Prod.mk.injEq] at h1
  unfold timeOK
  show (entryTimeNs (sf.mtimeNs.fdiv nanosPerSec) (sf.mtimeNs.fmod nanosPerSec).toNat).isSome = true
  rw [h1.1, h1.2, h3]; rfl

theorem inRange_metaOf (o : BackupOpts) {sf : SrcEntry} (h : SrcTimeOK sf) :
    entryInRange (metaOf o sf) = true :=
  (entryInRange_iff _).2 ⟨timeOK_metaOf o h, fun _ ha => nomatch ha⟩

theorem inRange_metaOf_addrs (o : BackupOpts) {sf : SrcEntry} (h : SrcTimeOK sf) {as : List Addr}
    (ha : addrsOK as) : entryInRange { metaOf o sf with addrs := as } = true :=
  (entryInRange_iff _).2 ⟨timeOK_metaOf o h, ha⟩

/-- The writer part of the range invariant; `rem` = bytes of the files still to be read. -/
structure WR (rem : Nat) (wr : Writer) : Prop where
  pending : ∀ e ∈ wr.pending, entryInRange e = true
  finished : ∀ e ∈ wr.finished, entryInRange e = true
  queue : ∀ q ∈ wr.queue, timeOK q.2.2 ∧ q.1 + q.2.1 < u64
  buf : wr.buf.length + rem < u64

theorem WR.weaken {rem rem' : Nat} {wr : Writer} (h : WR rem wr) (hle : rem' ≤ rem) : WR rem' wr :=
  ⟨h.pending, h.finished, h.queue, by have := h.buf; omega⟩

theorem WR.setES {rem : Nat} {wr : Writer} (h : WR rem wr) (ex : List Str) (st : Stats) :
    WR rem { wr with exists_ := ex, stats := st } := ⟨h.pending, h.finished, h.queue, h.buf⟩

theorem WR.setStats {rem : Nat} {wr : Writer} (h : WR rem wr) (st : Stats) :
    WR rem { wr with stats := st } := ⟨h.pending, h.finished, h.queue, h.buf⟩

theorem WR.pushPending {rem : Nat} {wr : Writer} (h : WR rem wr) {e : IndexEntry}
    (he : entryInRange e = true) (st : Stats) :
    WR rem { wr with pending := wr.pending ++ [e], stats := st } := by
  refine ⟨?_, h.finished, h.queue, h.buf⟩
  intro e' he'
  simp only [List.mem_append, List.mem_singleton] at he'
  rcases he' with he' | rfl
  · exact h.pending e' he'
  · exact he

/-! ### The block-level functions: pure facts about the writer they return -/

section
variable (H : Str → Str)

theorem combinerFlush_wr {rem : Nat} (wr : Writer) (hwr : WR rem wr) :
    RetSpec (combinerFlush H wr) (fun x => WR rem x.1) := by
  unfold combinerFlush
  simp only [Prog.bind_def, Prog.pure_def]
  split
  · exact RetSpec.ret hwr
  · refine RetSpec.bind (storeOrDedup_ret H _ _) ?_
    rintro ⟨w1, r⟩ ⟨ex, st, hw1⟩
    simp only at hw1
    subst hw1
    cases r with
    | error e => exact RetSpec.ret ⟨hwr.pending, hwr.finished, hwr.queue, hwr.buf⟩
    | ok h =>
      refine RetSpec.ret ⟨hwr.pending, ?_, (by intro q hq; cases hq), ?_⟩
      · intro e he
        simp only [List.mem_append, List.mem_map] at he
        rcases he with he | ⟨q, hq, rfl⟩
        · exact hwr.finished e he
        · obtain ⟨start, len, e0⟩ := q
          obtain ⟨ht, hle⟩ := hwr.queue _ hq
          refine (entryInRange_iff _).2 ⟨ht, ?_⟩
          intro a ha
          simp only [List.mem_singleton] at ha
          subst ha
          exact hle
      · have := hwr.buf
        simp only [List.length_nil]
        omega

theorem combinerPush_wr {rem : Nat} (o : BackupOpts) (wr : Writer) (sf : SrcEntry)
    (hwr : WR (sf.content.length + rem) wr) (ht : SrcTimeOK sf) :
    RetSpec (combinerPush H o wr sf) (fun x => WR rem x.1) := by
  unfold combinerPush
  simp only [metadataFrom_eq, Prog.pure_def]
  have hlen : (sf.content.take sf.size).length ≤ sf.content.length := by
    rw [List.length_take]; omega
  split
  · refine RetSpec.ret ⟨hwr.pending, ?_, hwr.queue,
      by have := hwr.buf; show wr.buf.length + rem < u64; omega⟩
    intro e he
    simp only [List.mem_append, List.mem_singleton] at he
    rcases he with he | rfl
    · exact hwr.finished e he
    · exact inRange_metaOf o ht
  · have hwr2 : WR rem
        { wr with buf := wr.buf ++ sf.content.take sf.size,
                  queue := wr.queue ++ [(wr.buf.length, (sf.content.take sf.size).length, metaOf o sf)],
                  stats := { wr.stats with smallCombinedFiles := wr.stats.smallCombinedFiles + 1 } } := by
      refine ⟨hwr.pending, hwr.finished, ?_, ?_⟩
      · intro q hq
        simp only [List.mem_append, List.mem_singleton] at hq
        rcases hq with hq | rfl
        · exact hwr.queue q hq
        · exact ⟨timeOK_metaOf o ht, by have := hwr.buf; simp only; omega⟩
      · have := hwr.buf
        simp only [List.length_append]
        omega
    split
    · exact combinerFlush_wr H _ hwr2
    · exact RetSpec.ret hwr2

theorem storeChunks_addrs (cs : List Str) :
    ∀ (wr : Writer) (acc : List Addr), addrsOK acc → (∀ c ∈ cs, c.length < u64) →
      RetSpec (storeChunks H wr cs acc) (fun x =>
        (∃ ex st, x.1 = { wr with exists_ := ex, stats := st }) ∧ ∀ addrs, x.2 = .ok addrs → addrsOK addrs) := by
  induction cs with
  | nil =>
    intro wr acc hacc _
    exact RetSpec.ret ⟨⟨_, _, rfl⟩, fun addrs h => by cases h; exact hacc⟩
  | cons c cs ih =>
    intro wr acc hacc hcs
    unfold storeChunks
    simp only [Prog.bind_def, Prog.pure_def]
    refine RetSpec.bind (storeOrDedup_ret H _ _) ?_
    rintro ⟨w1, r⟩ ⟨ex, st, hw1⟩
    simp only at hw1
    subst hw1
    cases r with
    | error e => exact RetSpec.ret ⟨⟨_, _, rfl⟩, fun _ h => nomatch h⟩
    | ok h =>
      refine (ih _ _ ?_ (fun c' hc' => hcs c' (List.mem_cons_of_mem _ hc'))).mono ?_
      · intro a ha
        simp only [List.mem_append, List.mem_singleton] at ha
        rcases ha with ha | rfl
        · exact hacc a ha
        · have := hcs c (List.mem_cons_self ..)
          simp only
          omega
      · rintro x ⟨⟨ex', st', hx⟩, hres⟩
        exact ⟨⟨ex', st', hx⟩, hres⟩

theorem chunks_le (n : Nat) (data : Str) : ∀ c ∈ chunks n data, c.length ≤ data.length := by
  fun_induction chunks n data with
  | case1 data h => intro c hc; cases hc
  | case2 data h ih =>
    intro c hc
    rcases List.mem_cons.mp hc with rfl | hc
    · rw [List.length_take]; omega
    · have := ih c hc
      rw [List.length_drop] at this
      omega

theorem storeFileContent_addrs (o : BackupOpts) (wr : Writer) (sf : SrcEntry)
    (hlen : sf.content.length < u64) :
    RetSpec (storeFileContent H o wr sf) (fun x =>
      (∃ ex st, x.1 = { wr with exists_ := ex, stats := st }) ∧ ∀ addrs, x.2 = .ok addrs → addrsOK addrs) := by
  unfold storeFileContent
  simp only [Prog.bind_def, Prog.pure_def]
  refine RetSpec.bind (storeChunks_addrs H _ wr [] (fun _ h => nomatch h)
    (fun c hc => Nat.lt_of_le_of_lt (chunks_le _ _ c hc) hlen)) ?_
  rintro ⟨w1, r⟩ ⟨⟨ex, st, hw1⟩, hres⟩
  simp only at hw1
  subst hw1
  cases r with
  | error e => exact RetSpec.ret ⟨⟨_, _, rfl⟩, fun _ h => nomatch h⟩
  | ok addrs =>
    refine RetSpec.ret ⟨⟨_, _, rfl⟩, ?_⟩
    intro addrs' h
    cases h
    exact hres addrs rfl

theorem copyFileStore_wr {rem : Nat} (o : BackupOpts) (wr : Writer) (ck : ChangeKind) (sf : SrcEntry)
    (hwr : WR (sf.content.length + rem) wr) (ht : SrcTimeOK sf) :
    RetSpec (copyFileStore H o wr ck sf) (fun x => WR rem x.1) := by
  have hw0 : WR rem wr := hwr.weaken (by omega)
  unfold copyFileStore
  simp only [metadataFrom_eq, Prog.pure_def, Prog.bind_def]
  split
  · exact RetSpec.ret (hw0.pushPending (inRange_metaOf o ht) _)
  · split
    · refine RetSpec.bind (combinerPush_wr H o wr sf hwr ht) ?_
      rintro ⟨w1, r⟩ hwr1
      cases r with
      | error e => exact RetSpec.ret hwr1
      | ok u => exact RetSpec.ret hwr1
    · refine RetSpec.bind (storeFileContent_addrs H o wr sf (by have := hwr.buf; omega)) ?_
      rintro ⟨w1, r⟩ ⟨⟨ex, st, hw1⟩, hres⟩
      simp only at hw1
      subst hw1
      cases r with
      | error e => exact RetSpec.ret (hw0.setES ex st)
      | ok addrs =>
        exact RetSpec.ret ((hw0.setES ex st).pushPending (inRange_metaOf_addrs o ht (hres addrs rfl)) st)

theorem copyFile_wr {rem : Nat} (o : BackupOpts) (wr : Writer) (basis : Option IndexEntry) (sf : SrcEntry)
    (hwr : WR (sf.content.length + rem) wr) (ht : SrcTimeOK sf)
    (hbasis : ∀ b, basis = some b → addrsOK b.addrs) :
    RetSpec (copyFile H o wr basis sf) (fun x => WR rem x.1) := by
  cases basis with
  | none =>
    rw [copyFile_none]
    exact copyFileStore_wr H o _ _ sf (hwr.setStats _) ht
  | some b =>
    cases hh : heuristicallyUnchanged sf b with
    | none => rw [copyFile_panic o wr b sf hh]; exact RetSpec.panic
    | some t =>
      cases t with
      | false =>
        rw [copyFile_changed o wr b sf hh]
        exact copyFileStore_wr H o _ _ sf (hwr.setStats _) ht
      | true =>
        cases hall : b.addrs.all (fun a => wr.exists_.contains a.hash) with
        | false =>
          rw [copyFile_damaged o wr b sf hh hall]
          exact copyFileStore_wr H o _ _ sf (hwr.setStats _) ht
        | true =>
          obtain ⟨st', ck, heq⟩ := copyFile_unchanged (H := H) o wr b sf hh hall
          rw [heq]
          exact RetSpec.ret ((hwr.weaken (by omega)).pushPending
            (inRange_metaOf_addrs o ht (hbasis b rfl)) st')

theorem copyEntry_wr {rem : Nat} (o : BackupOpts) (wr : Writer) (basis : Option IndexEntry) (sf : SrcEntry)
    (hwr : WR (fileBytes sf + rem) wr) (ht : SrcTimeOK sf)
    (hbasis : ∀ b, basis = some b → addrsOK b.addrs) :
    RetSpec (copyEntry H o wr basis sf) (fun x => WR rem x.1) := by
  have hw0 : WR rem wr := hwr.weaken (by omega)
  unfold copyEntry
  simp only [metadataFrom_eq, Prog.pure_def]
  cases hk : sf.kind with
  | file =>
    have : fileBytes sf = sf.content.length := by simp [fileBytes, hk]
    rw [this] at hwr
    exact copyFile_wr H o wr basis sf hwr ht hbasis
  | dir => exact RetSpec.ret (hw0.pushPending (inRange_metaOf o ht) _)
  | symlink => exact RetSpec.ret (hw0.pushPending (inRange_metaOf o ht) _)
  | unknown => exact RetSpec.ret (hw0.setStats _)

/-! ### The block-level functions: which operations they issue -/

theorem goodOp_createDir (k : Key) : GoodOp (.createDir k) :=
  ⟨fun _ _ _ h => (nomatch h), fun _ _ _ h => (nomatch h)⟩

theorem goodOp_writeBlock {h : Str} {d : Str} (hd : d.length < u64) :
    GoodOp (.write (.block h) (.blockData d) .createNew) :=
  ⟨fun _ _ _ ho => (nomatch ho), fun _ _ _ ho => by cases ho; exact hd⟩

theorem storeOrDedup_good (wr : Writer) (data : Str) (hd : data.length < u64) :
    Prog.AllOps GoodOp (storeOrDedup H wr data) := by
  unfold storeOrDedup perform
  simp only [Prog.bind_def, Prog.pure_def, Prog.op_bind, Prog.ret_bind]
  split
  · exact .ret _
  · refine .op (goodOp_createDir _) fun r1 => ?_
    split
    · exact .ret _
    · refine .op (goodOp_writeBlock hd) fun r2 => ?_
      split <;> exact .ret _

theorem combinerFlush_good {rem : Nat} (wr : Writer) (hwr : WR rem wr) :
    Prog.AllOps GoodOp (combinerFlush H wr) := by
  unfold combinerFlush
  simp only [Prog.bind_def, Prog.pure_def]
  split
  · exact .ret _
  · refine Prog.AllOps.bind (storeOrDedup_good H _ _ (by have := hwr.buf; omega)) ?_
    rintro ⟨w1, r⟩
    cases r <;> exact .ret _

theorem WR.pushQueue {rem : Nat} {wr : Writer} (o : BackupOpts) {sf : SrcEntry}
    (hwr : WR (sf.content.length + rem) wr) (ht : SrcTimeOK sf) :
    WR rem { wr with buf := wr.buf ++ sf.content.take sf.size,
                     queue := wr.queue ++ [(wr.buf.length, (sf.content.take sf.size).length, metaOf o sf)],
                     stats := { wr.stats with smallCombinedFiles := wr.stats.smallCombinedFiles + 1 } } := by
  have hlen : (sf.content.take sf.size).length ≤ sf.content.length := by
    rw [List.length_take]; omega
  refine ⟨hwr.pending, hwr.finished, ?_, ?_⟩
  · intro q hq
    simp only [List.mem_append, List.mem_singleton] at hq
    rcases hq with hq | rfl
    · exact hwr.queue q hq
    · exact ⟨timeOK_metaOf o ht, by have := hwr.buf; simp only; omega⟩
  · have := hwr.buf
    simp only [List.length_append]
    omega

theorem combinerPush_good {rem : Nat} (o : BackupOpts) (wr : Writer) (sf : SrcEntry)
    (hwr : WR (sf.content.length + rem) wr) (ht : SrcTimeOK sf) :
    Prog.AllOps GoodOp (combinerPush H o wr sf) := by
  unfold combinerPush
  simp only [metadataFrom_eq, Prog.pure_def]
  split
  · exact .ret _
  · split
    · exact combinerFlush_good H _ (hwr.pushQueue o ht)
    · exact .ret _

theorem storeChunks_good (cs : List Str) :
    ∀ (wr : Writer) (acc : List Addr), (∀ c ∈ cs, c.length < u64) →
      Prog.AllOps GoodOp (storeChunks H wr cs acc) := by
  induction cs with
  | nil => intro wr acc _; unfold storeChunks; exact .ret _
  | cons c cs ih =>
    intro wr acc hcs
    unfold storeChunks
    simp only [Prog.bind_def, Prog.pure_def]
    refine Prog.AllOps.bind (storeOrDedup_good H _ _ (hcs c (List.mem_cons_self ..))) ?_
    rintro ⟨w1, r⟩
    cases r with
    | error e => exact .ret _
    | ok h => exact ih _ _ (fun c' hc' => hcs c' (List.mem_cons_of_mem _ hc'))

theorem storeFileContent_good (o : BackupOpts) (wr : Writer) (sf : SrcEntry) (hlen : sf.content.length < u64) :
    Prog.AllOps GoodOp (storeFileContent H o wr sf) := by
  unfold storeFileContent
  simp only [Prog.bind_def, Prog.pure_def]
  refine Prog.AllOps.bind (storeChunks_good H _ wr []
    (fun c hc => Nat.lt_of_le_of_lt (chunks_le _ _ c hc) hlen)) ?_
  rintro ⟨w1, r⟩
  cases r <;> exact .ret _

theorem copyFileStore_good {rem : Nat} (o : BackupOpts) (wr : Writer) (ck : ChangeKind) (sf : SrcEntry)
    (hwr : WR (sf.content.length + rem) wr) (ht : SrcTimeOK sf) :
    Prog.AllOps GoodOp (copyFileStore H o wr ck sf) := by
  unfold copyFileStore
  simp only [metadataFrom_eq, Prog.pure_def, Prog.bind_def]
  split
  · exact .ret _
  · split
    · refine Prog.AllOps.bind (combinerPush_good H o wr sf hwr ht) ?_
      rintro ⟨w1, r⟩
      cases r <;> exact .ret _
    · refine Prog.AllOps.bind (storeFileContent_good H o wr sf (by have := hwr.buf; omega)) ?_
      rintro ⟨w1, r⟩
      cases r <;> exact .ret _

theorem copyFile_good {rem : Nat} (o : BackupOpts) (wr : Writer) (basis : Option IndexEntry) (sf : SrcEntry)
    (hwr : WR (sf.content.length + rem) wr) (ht : SrcTimeOK sf) :
    Prog.AllOps GoodOp (copyFile H o wr basis sf) := by
  cases basis with
  | none =>
    rw [copyFile_none]
    exact copyFileStore_good H o _ _ sf (hwr.setStats _) ht
  | some b =>
    cases hh : heuristicallyUnchanged sf b with
    | none => rw [copyFile_panic o wr b sf hh]; exact .panic _
    | some t =>
      cases t with
      | false =>
        rw [copyFile_changed o wr b sf hh]
        exact copyFileStore_good H o _ _ sf (hwr.setStats _) ht
      | true =>
        cases hall : b.addrs.all (fun a => wr.exists_.contains a.hash) with
        | false =>
          rw [copyFile_damaged o wr b sf hh hall]
          exact copyFileStore_good H o _ _ sf (hwr.setStats _) ht
        | true =>
          obtain ⟨st', ck, heq⟩ := copyFile_unchanged (H := H) o wr b sf hh hall
          rw [heq]
          exact .ret _

theorem copyEntry_good {rem : Nat} (o : BackupOpts) (wr : Writer) (basis : Option IndexEntry) (sf : SrcEntry)
    (hwr : WR (fileBytes sf + rem) wr) (ht : SrcTimeOK sf) :
    Prog.AllOps GoodOp (copyEntry H o wr basis sf) := by
  unfold copyEntry
  simp only [metadataFrom_eq, Prog.pure_def]
  cases hk : sf.kind with
  | file =>
    have : fileBytes sf = sf.content.length := by simp [fileBytes, hk]
    rw [this] at hwr
    exact copyFile_good H o wr basis sf hwr ht
  | dir => exact .ret _
  | symlink => exact .ret _
  | unknown => exact .ret _

/-- `copy_entry` in every world. -/
theorem copyEntry_rsat (S : Spec) {rem : Nat} (o : BackupOpts) (wr : Writer) (basis : Option IndexEntry) (sf : SrcEntry)
    (hwr : WR (fileBytes sf + rem) wr) (ht : SrcTimeOK sf)
    (hbasis : ∀ b, basis = some b → addrsOK b.addrs) :
    RSat S (copyEntry H o wr basis sf) (fun x => WR rem x.1) :=
  RSat.of_ops (copyEntry_good H o wr basis sf hwr ht) (copyEntry_wr H o wr basis sf hwr ht hbasis)

/-- `FileCombiner::flush` in every world. -/
theorem combinerFlush_rsat (S : Spec) {rem : Nat} (wr : Writer) (hwr : WR rem wr) :
    RSat S (combinerFlush H wr) (fun x => WR rem x.1) :=
  RSat.of_ops (combinerFlush_good H wr hwr) (combinerFlush_wr H wr hwr)

end

end Conserve.Rng
