import ConserveModel.Proofs.ContainBackup
/-
Totality of the main part of `backup()` on a fault-free world, for an ARBITRARY source listing and
arbitrary options (gap "C10f": `C10.BackupCompletes` quantifies over every `src` and every `o`).

`Exact.backupMain_runs` (Proofs/ExactMain.lean) describes the run exactly and therefore assumes a good
source (`EntryGood`, sorted, 2^64 bound) and `0 < maxBlockSize`.  For mere SUCCESS none of this is
needed: the only things that can make the main part fail or panic are
  * a storage error of `createDir` / `write CreateNew` (in `storeOrDedup`, `finishHunk`, `bandClose`),
  * `IndexEntry::mtime()` of a BASIS entry (`heuristicallyUnchanged = none`).
`TInv` is the (weak) loop invariant under which every write of the main part targets a fresh key below
an existing directory.  It says nothing about entries, order, sizes, content or the hash.
No property statements here.
-/
set_option linter.unusedSimpArgs false
namespace Conserve.GapTotal
open Conserve Conserve.Exact Prog

variable {H : Str → Str} {o : BackupOpts}

/-! ### The weak invariant -/

/-- What the store and the writer must satisfy for every storage operation of the main part of
`backup()` to succeed on a fault-free world:
* `d/` is a directory and every `d/xxx` that exists is a directory (so `createDir` + the block write
  find their parent);
* every block file the in-memory set `exists_` does NOT know is absent or zero-length (so the
  `CreateNew` write of a block that is not deduplicated is accepted);
* the version being written has its directory and `i/`, no tail yet, no hunk file numbered
  `sequence` or higher, only directories as `i/DDDDD`, and — in the middle of a sub-directory — the
  current `i/DDDDD` in place. -/
structure TInv (s : Store) (wr : Writer) : Prop where
  blockRoot : s.get? .blockRoot = some .dir
  blockDirs : ∀ p v, s.get? (.blockDir p) = some v → v = .dir
  blocks : ∀ h, h ∉ wr.exists_ → s.get? (.block h) = none ∨ s.get? (.block h) = some .empty
  bandDir : s.get? (.bandDir wr.band) = some .dir
  indexDir : s.get? (.indexDir wr.band) = some .dir
  tail : s.get? (.bandTail wr.band) = none
  hunks : ∀ n, wr.sequence ≤ n → s.get? (.hunk wr.band n) = none
  hunkDirs : ∀ d v, s.get? (.hunkDir wr.band d) = some v → v = .dir
  hunkDirCur : wr.sequence % hunksPerSubdir ≠ 0 →
    s.get? (.hunkDir wr.band (wr.sequence / hunksPerSubdir)) = some .dir

/-- The invariant only looks at `band`, `sequence` and (monotonically) `exists_`. -/
theorem TInv.congr {s : Store} {wr wr' : Writer} (h : TInv s wr) (hb : wr'.band = wr.band)
    (hs : wr'.sequence = wr.sequence) (he : ∀ x, x ∈ wr.exists_ → x ∈ wr'.exists_) : TInv s wr' := by
  refine ⟨h.blockRoot, h.blockDirs, fun x hx => h.blocks x (fun hin => hx (he x hin)), ?_, ?_, ?_, ?_, ?_, ?_⟩
  · rw [hb]; exact h.bandDir
  · rw [hb]; exact h.indexDir
  · rw [hb]; exact h.tail
  · rw [hb, hs]; exact h.hunks
  · rw [hb]; exact h.hunkDirs
  · rw [hb, hs]; exact h.hunkDirCur

/-- A new block sub-directory. -/
theorem TInv.put_blockDir {s : Store} {wr : Writer} (h : TInv s wr) (p : Str) :
    TInv (s.put (.blockDir p) .dir) wr := by
  refine ⟨?_, ?_, ?_, ?_, ?_, ?_, ?_, ?_, ?_⟩
  · simpa [get?_put] using h.blockRoot
  · intro q v hg
    rw [get?_put] at hg
    by_cases hq : Key.blockDir q = Key.blockDir p
    · simp only [hq, if_true, Option.some.injEq] at hg; exact hg.symm
    · simp only [hq, if_false] at hg; exact h.blockDirs q v hg
  · intro x hx; simpa [get?_put] using h.blocks x hx
  · simpa [get?_put] using h.bandDir
  · simpa [get?_put] using h.indexDir
  · simpa [get?_put] using h.tail
  · intro n hn; simpa [get?_put] using h.hunks n hn
  · intro d v hg; exact h.hunkDirs d v (by simpa [get?_put] using hg)
  · intro hm; simpa [get?_put] using h.hunkDirCur hm

/-- A block file is written and its name enters the in-memory set. -/
theorem TInv.put_block {s : Store} {wr wr' : Writer} (h : TInv s wr) (x : Str) (v : FileVal)
    (hb : wr'.band = wr.band) (hs : wr'.sequence = wr.sequence)
    (he : ∀ y, y = x ∨ y ∈ wr.exists_ → y ∈ wr'.exists_) : TInv (s.put (.block x) v) wr' := by
  refine ⟨?_, ?_, ?_, ?_, ?_, ?_, ?_, ?_, ?_⟩
  · simpa [get?_put] using h.blockRoot
  · intro q v' hg; exact h.blockDirs q v' (by simpa [get?_put] using hg)
  · intro y hy
    have hyx : y ≠ x := fun e => hy (he y (Or.inl e))
    have hne : Key.block y ≠ Key.block x := fun e => hyx (by cases e; rfl)
    rw [get?_put]
    simp only [hne, if_false]
    exact h.blocks y (fun hin => hy (he y (Or.inr hin)))
  · rw [hb]; simpa [get?_put] using h.bandDir
  · rw [hb]; simpa [get?_put] using h.indexDir
  · rw [hb]; simpa [get?_put] using h.tail
  · rw [hb, hs]; intro n hn; simpa [get?_put] using h.hunks n hn
  · rw [hb]; intro d v' hg; exact h.hunkDirs d v' (by simpa [get?_put] using hg)
  · rw [hb, hs]; intro hm; simpa [get?_put] using h.hunkDirCur hm

/-- A new hunk sub-directory of the version being written. -/
theorem TInv.put_hunkDir {s : Store} {wr : Writer} (h : TInv s wr) (d : Nat) :
    TInv (s.put (.hunkDir wr.band d) .dir) wr := by
  refine ⟨?_, ?_, ?_, ?_, ?_, ?_, ?_, ?_, ?_⟩
  · simpa [get?_put] using h.blockRoot
  · intro q v hg; exact h.blockDirs q v (by simpa [get?_put] using hg)
  · intro x hx; simpa [get?_put] using h.blocks x hx
  · simpa [get?_put] using h.bandDir
  · simpa [get?_put] using h.indexDir
  · simpa [get?_put] using h.tail
  · intro n hn; simpa [get?_put] using h.hunks n hn
  · intro d' v hg
    rw [get?_put] at hg
    by_cases hq : Key.hunkDir wr.band d' = Key.hunkDir wr.band d
    · simp only [hq, if_true, Option.some.injEq] at hg; exact hg.symm
    · simp only [hq, if_false] at hg; exact h.hunkDirs d' v hg
  · intro hm
    rw [get?_put]
    split
    · rfl
    · exact h.hunkDirCur hm

/-- The hunk numbered `sequence` is written into its sub-directory; the counter moves on. -/
theorem TInv.put_hunk {s : Store} {wr wr' : Writer} (h : TInv s wr)
    (hdir : s.get? (.hunkDir wr.band (wr.sequence / hunksPerSubdir)) = some .dir) (v : FileVal)
    (hb : wr'.band = wr.band) (hs : wr'.sequence = wr.sequence + 1)
    (he : ∀ x, x ∈ wr.exists_ → x ∈ wr'.exists_) : TInv (s.put (.hunk wr.band wr.sequence) v) wr' := by
  refine ⟨?_, ?_, ?_, ?_, ?_, ?_, ?_, ?_, ?_⟩
  · simpa [get?_put] using h.blockRoot
  · intro q v' hg; exact h.blockDirs q v' (by simpa [get?_put] using hg)
  · intro x hx; simpa [get?_put] using h.blocks x (fun hin => hx (he x hin))
  · rw [hb]; simpa [get?_put] using h.bandDir
  · rw [hb]; simpa [get?_put] using h.indexDir
  · rw [hb]; simpa [get?_put] using h.tail
  · rw [hb, hs]
    intro n hn
    have hne : Key.hunk wr.band n ≠ Key.hunk wr.band wr.sequence := by
      intro e; cases e; omega
    rw [get?_put]
    simp only [hne, if_false]
    exact h.hunks n (by omega)
  · rw [hb]; intro d v' hg; exact h.hunkDirs d v' (by simpa [get?_put] using hg)
  · rw [hb, hs]
    intro hm
    have : (wr.sequence + 1) / hunksPerSubdir = wr.sequence / hunksPerSubdir := by
      simp only [hunksPerSubdir] at hm ⊢; omega
    rw [this]
    simpa [get?_put] using hdir

/-! ### `performUnit` onto something that is already there -/

theorem performUnit_createDir_exists {s : Store} {k : Key} {v : FileVal} (hex : s.get? k = some v) :
    RunsAt (performUnit (.createDir k)) s (.ok ()) s [] := by
  simp only [performUnit, perform, Prog.bind_def, Prog.op_bind, Prog.ret_bind]
  exact RunsAt.op_createDir_exists hex (RunsAt.ret _ _)

/-! ### The block store -/

/-- `store_or_deduplicate` under the weak invariant: it returns a hash (never an error), for ANY
data and ANY hash function. -/
theorem storeOrDedup_total {s : Store} {wr : Writer} (data : Str) (hi : TInv s wr) :
    ∃ s' wr' h, RunsAt (storeOrDedup H wr data) s (.ok (wr', .ok h)) s' [] ∧ TInv s' wr' := by
  unfold storeOrDedup
  by_cases hc : wr.exists_.contains (H data) = true
  · simp only [hc, if_true, Prog.pure_def]
    exact ⟨s, _, _, RunsAt.ret _ _, hi.congr rfl rfl (fun _ h => h)⟩
  · simp only [hc, Bool.false_eq_true, if_false, Prog.pure_def, Prog.bind_def, perform, Prog.op_bind,
      Prog.ret_bind]
    have hnotin : H data ∉ wr.exists_ := by simpa using hc
    cases hg : s.get? (.blockDir ((H data).take subdirNameChars)) with
    | none =>
      have hpar : s.parentOk (.blockDir ((H data).take subdirNameChars)) = true := by
        simp [Store.parentOk, Key.parent, hi.blockRoot]
      have hi1 := hi.put_blockDir ((H data).take subdirNameChars)
      have hpar2 : (s.put (.blockDir ((H data).take subdirNameChars)) .dir).parentOk (.block (H data)) = true := by
        simp [Store.parentOk, Key.parent, get?_put]
      refine ⟨_, _, _, RunsAt.op_createDir hg hpar
        (RunsAt.op_write hpar2 (hi1.blocks _ hnotin) (RunsAt.ret _ _)), ?_⟩
      exact hi1.put_block (H data) _ rfl rfl (fun y hy => by simpa using hy)
    | some v =>
      have hv := hi.blockDirs _ _ hg
      subst hv
      have hpar2 : s.parentOk (.block (H data)) = true := by
        simp [Store.parentOk, Key.parent, hg]
      refine ⟨_, _, _, RunsAt.op_createDir_exists hg
        (RunsAt.op_write hpar2 (hi.blocks _ hnotin) (RunsAt.ret _ _)), ?_⟩
      exact hi.put_block (H data) _ rfl rfl (fun y hy => by simpa using hy)

/-- `FileCombiner::flush`. -/
theorem combinerFlush_total {s : Store} {wr : Writer} (hi : TInv s wr) :
    ∃ s' wr', RunsAt (combinerFlush H wr) s (.ok (wr', .ok ())) s' [] ∧ TInv s' wr' := by
  unfold combinerFlush
  by_cases hq : wr.queue.isEmpty = true
  · simp only [hq, if_true, Prog.pure_def]
    exact ⟨s, wr, RunsAt.ret _ _, hi⟩
  · simp only [hq, Bool.false_eq_true, if_false, Prog.pure_def, Prog.bind_def]
    obtain ⟨s', wr', h, hr, hi'⟩ := storeOrDedup_total (H := H) (wr := { wr with buf := [] }) wr.buf
      (hi.congr rfl rfl (fun _ h => h))
    exact ⟨s', _, RunsAt.bind0 hr (RunsAt.ret _ _), hi'.congr rfl rfl (fun _ h => h)⟩

/-- `FileCombiner::push_file`, any source entry (its `size` need not be its content's length). -/
theorem combinerPush_total {s : Store} {wr : Writer} (sf : SrcEntry) (hi : TInv s wr) :
    ∃ s' wr', RunsAt (combinerPush H o wr sf) s (.ok (wr', .ok ())) s' [] ∧ TInv s' wr' := by
  unfold combinerPush
  simp only [Inv.metadataFrom_eq, Prog.pure_def]
  by_cases hd : (sf.content.take sf.size).isEmpty = true
  · simp only [hd, if_true]
    exact ⟨s, _, RunsAt.ret _ _, hi.congr rfl rfl (fun _ h => h)⟩
  · simp only [hd, Bool.false_eq_true, if_false]
    split
    · exact combinerFlush_total (hi.congr rfl rfl (fun _ h => h))
    · exact ⟨s, _, RunsAt.ret _ _, hi.congr rfl rfl (fun _ h => h)⟩

/-- `store_file_content`, the chunk loop. -/
theorem storeChunks_total (cs : List Str) : ∀ {s : Store} {wr : Writer} (acc : List Addr), TInv s wr →
    ∃ s' wr' addrs, RunsAt (storeChunks H wr cs acc) s (.ok (wr', .ok addrs)) s' [] ∧ TInv s' wr' := by
  induction cs with
  | nil =>
    intro s wr acc hi
    exact ⟨s, wr, acc, RunsAt.ret _ _, hi⟩
  | cons c cs ih =>
    intro s wr acc hi
    obtain ⟨s1, wr1, h, hr1, hi1⟩ := storeOrDedup_total (H := H) c hi
    obtain ⟨s2, wr2, addrs, hr2, hi2⟩ := ih (acc ++ [{ hash := h, start := 0, len := c.length }]) hi1
    refine ⟨s2, wr2, addrs, ?_, hi2⟩
    unfold storeChunks
    simp only [Prog.bind_def]
    exact RunsAt.bind0 hr1 hr2

/-- `store_file_content`, any `maxBlockSize` (with 0 there are no chunks at all). -/
theorem storeFileContent_total {s : Store} {wr : Writer} (sf : SrcEntry) (hi : TInv s wr) :
    ∃ s' wr' addrs, RunsAt (storeFileContent H o wr sf) s (.ok (wr', .ok addrs)) s' [] ∧ TInv s' wr' := by
  obtain ⟨s', wr', addrs, hr, hi'⟩ := storeChunks_total (H := H) (chunks o.maxBlockSize sf.content) [] hi
  unfold storeFileContent
  simp only [Prog.bind_def, Prog.pure_def]
  exact ⟨s', _, addrs, RunsAt.bind0 hr (RunsAt.ret _ _), hi'.congr rfl rfl (fun _ h => h)⟩

/-! ### `copy_file`, `copy_entry` -/

theorem copyFileStore_total {s : Store} {wr : Writer} (ck : ChangeKind) (sf : SrcEntry) (hi : TInv s wr) :
    ∃ s' wr', RunsAt (Inv.copyFileStore H o wr ck sf) s (.ok (wr', .ok (some ck))) s' [] ∧ TInv s' wr' := by
  unfold Inv.copyFileStore
  simp only [Inv.metadataFrom_eq, Prog.pure_def, Prog.bind_def]
  split
  · exact ⟨s, _, RunsAt.ret _ _, hi.congr rfl rfl (fun _ h => h)⟩
  · split
    · obtain ⟨s', wr', hr, hi'⟩ := combinerPush_total (H := H) (o := o) sf hi
      exact ⟨s', wr', RunsAt.bind0 hr (RunsAt.ret _ _), hi'⟩
    · obtain ⟨s', wr', addrs, hr, hi'⟩ := storeFileContent_total (H := H) (o := o) sf hi
      exact ⟨s', _, RunsAt.bind0 hr (RunsAt.ret _ _), hi'.congr rfl rfl (fun _ h => h)⟩

/-- `copy_file`: the only way it could go wrong on a fault-free world is the panic of
`IndexEntry::mtime()` on a BASIS entry with an out-of-range time; `hbasis` excludes it. -/
theorem copyFile_total {s : Store} {wr : Writer} (basis : Option IndexEntry) (sf : SrcEntry) (hi : TInv s wr)
    (hbasis : ∀ b, basis = some b → (entryTimeNs b.mtime b.mtimeNanos).isSome = true) :
    ∃ s' wr' ck, RunsAt (copyFile H o wr basis sf) s (.ok (wr', .ok (some ck))) s' [] ∧ TInv s' wr' := by
  have store : ∀ (st' : Stats) (ck : ChangeKind),
      ∃ s' wr' ck', RunsAt (Inv.copyFileStore H o { wr with stats := st' } ck sf) s
          (.ok (wr', .ok (some ck'))) s' [] ∧ TInv s' wr' := by
    intro st' ck
    obtain ⟨s', wr', hr, hi'⟩ := copyFileStore_total (H := H) (o := o) (wr := { wr with stats := st' }) ck sf
      (hi.congr rfl rfl (fun _ h => h))
    exact ⟨s', wr', ck, hr, hi'⟩
  cases basis with
  | none => rw [Inv.copyFile_none]; exact store _ _
  | some b =>
    cases hh : heuristicallyUnchanged sf b with
    | none => exact absurd hh (heuristicallyUnchanged_ne_none (hbasis b rfl))
    | some t =>
      cases t with
      | false => rw [Inv.copyFile_changed o wr b sf hh]; exact store _ _
      | true =>
        cases hall : b.addrs.all (fun a => wr.exists_.contains a.hash) with
        | false => rw [Inv.copyFile_damaged o wr b sf hh hall]; exact store _ _
        | true =>
          obtain ⟨st', ck, heq⟩ := Inv.copyFile_unchanged (H := H) o wr b sf hh hall
          rw [heq]
          exact ⟨s, _, ck, RunsAt.ret _ _, hi.congr rfl rfl (fun _ h => h)⟩

/-- `copy_entry`, ANY source entry (unknown kind included: it is counted and skipped). -/
theorem copyEntry_total {s : Store} {wr : Writer} (basis : Option IndexEntry) (sf : SrcEntry) (hi : TInv s wr)
    (hbasis : ∀ b, basis = some b → (entryTimeNs b.mtime b.mtimeNanos).isSome = true) :
    ∃ s' wr' ch, RunsAt (copyEntry H o wr basis sf) s (.ok (wr', .ok ch)) s' [] ∧ TInv s' wr' := by
  unfold copyEntry
  simp only [Inv.metadataFrom_eq, Prog.pure_def]
  cases hk : sf.kind with
  | file =>
    obtain ⟨s', wr', ck, hr, hi'⟩ := copyFile_total (H := H) (o := o) basis sf hi hbasis
    exact ⟨s', wr', some ck, hr, hi'⟩
  | dir => exact ⟨s, _, none, RunsAt.ret _ _, hi.congr rfl rfl (fun _ h => h)⟩
  | symlink => exact ⟨s, _, none, RunsAt.ret _ _, hi.congr rfl rfl (fun _ h => h)⟩
  | unknown => exact ⟨s, _, none, RunsAt.ret _ _, hi.congr rfl rfl (fun _ h => h)⟩

/-! ### The index writer -/

/-- `IndexWriter::finish_hunk`: the hunk numbered `sequence` is new, its sub-directory is there or is
created now. -/
theorem finishHunk_total {s : Store} {wr : Writer} (hi : TInv s wr) :
    ∃ s' wr', RunsAt (finishHunk wr) s (.ok wr') s' [] ∧ TInv s' wr' := by
  unfold finishHunk
  simp only [Prog.bind_def, Prog.pure_def]
  by_cases hp : wr.pending.isEmpty = true
  · simp only [hp, if_true]
    exact ⟨s, wr, RunsAt.ret _ _, hi⟩
  · simp only [hp, Bool.false_eq_true, if_false]
    -- the hunk write, in a store where the sub-directory is in place
    have write : ∀ s1, TInv s1 wr → s1.get? (.hunkDir wr.band (wr.sequence / hunksPerSubdir)) = some .dir →
        ∀ v, ∃ s' wr', RunsAt ((performUnit (.write (.hunk wr.band wr.sequence) v .createNew)).bind fun _ =>
            Prog.ret { wr with pending := [], sequence := wr.sequence + 1, hunksWritten := wr.hunksWritten + 1 })
          s1 (.ok wr') s' [] ∧ TInv s' wr' := by
      intro s1 hi1 hdir v
      have hpar : s1.parentOk (.hunk wr.band wr.sequence) = true := by
        simp [Store.parentOk, Key.parent, hdir]
      exact ⟨_, _, RunsAt.bind0 (a := ()) (RunsAt.performUnit_write hpar (Or.inl (hi1.hunks _ (Nat.le_refl _))))
        (RunsAt.ret _ _), hi1.put_hunk hdir v rfl rfl (fun _ h => h)⟩
    by_cases hm : wr.sequence % hunksPerSubdir = 0
    · simp only [hm, if_true]
      cases hg : s.get? (.hunkDir wr.band (wr.sequence / hunksPerSubdir)) with
      | none =>
        have hpar : s.parentOk (.hunkDir wr.band (wr.sequence / hunksPerSubdir)) = true := by
          simp [Store.parentOk, Key.parent, hi.indexDir]
        obtain ⟨s', wr', hr, hi'⟩ := write _ (hi.put_hunkDir (wr.sequence / hunksPerSubdir))
          (by simp [get?_put]) (.hunk (wr.pending.mergeSort fun a b => apathLe a.apath b.apath))
        exact ⟨s', wr', RunsAt.bind0 (a := ()) (RunsAt.performUnit_createDir hg hpar) hr, hi'⟩
      | some v =>
        have hv := hi.hunkDirs _ _ hg
        subst hv
        obtain ⟨s', wr', hr, hi'⟩ := write s hi hg (.hunk (wr.pending.mergeSort fun a b => apathLe a.apath b.apath))
        exact ⟨s', wr', RunsAt.bind0 (a := ()) (performUnit_createDir_exists hg) hr, hi'⟩
    · simp only [hm, if_false]
      exact write s hi (hi.hunkDirCur hm) _

/-- `BackupWriter::flush_group`. -/
theorem flushGroup_total {s : Store} {wr : Writer} (hi : TInv s wr) :
    ∃ s' wr', RunsAt (flushGroup H wr) s (.ok wr') s' [] ∧ TInv s' wr' := by
  obtain ⟨s1, wr1, hr1, hi1⟩ := combinerFlush_total (H := H) hi
  obtain ⟨s2, wr2, hr2, hi2⟩ := finishHunk_total
    (wr := { wr1 with pending := wr1.pending ++ wr1.finished, finished := [] }) (hi1.congr rfl rfl (fun _ h => h))
  refine ⟨s2, wr2, ?_, hi2⟩
  unfold flushGroup
  simp only [Prog.bind_def]
  exact RunsAt.bind0 hr1 hr2

/-! ### The main loop -/

/-- The loop after one entry has been recorded: report it, maybe flush (ANY `maxEntriesPerHunk`), go on. -/
theorem loopCont_total (sf : SrcEntry) (rest : List Matched)
    (ih : ∀ (s : Store) (wr : Writer), TInv s wr →
      ∃ s' wr' evs, RunsAt (backupLoop H o wr rest) s (.ok wr') s' evs ∧ TInv s' wr')
    {s : Store} {wr : Writer} (hi : TInv s wr) (ch : Option ChangeKind) :
    ∃ s' wr' evs, RunsAt (Inv.loopCont H o sf rest (wr, .ok ch)) s (.ok wr') s' evs ∧ TInv s' wr' := by
  have hrest : ∃ s' wr' evs,
      RunsAt ((if wr.pending.length + wr.queue.length ≥ o.maxEntriesPerHunk then flushGroup H wr
          else Prog.ret wr).bind fun w => backupLoop H o w rest) s (.ok wr') s' evs ∧ TInv s' wr' := by
    split
    · obtain ⟨s1, wr1, hr1, hi1⟩ := flushGroup_total (H := H) hi
      obtain ⟨s', wr', evs, hr, hi'⟩ := ih s1 wr1 hi1
      refine ⟨s', wr', evs, ?_, hi'⟩
      simpa using RunsAt.bind (f := fun w => backupLoop H o w rest) hr1 hr
    · obtain ⟨s', wr', evs, hr, hi'⟩ := ih s wr hi
      refine ⟨s', wr', evs, ?_, hi'⟩
      simpa using RunsAt.bind (f := fun w => backupLoop H o w rest) (RunsAt.ret wr s) hr
  obtain ⟨s', wr', evs, hr, hi'⟩ := hrest
  cases ch with
  | none =>
    refine ⟨s', wr', evs, ?_, hi'⟩
    simpa [Inv.loopCont] using hr
  | some ck =>
    refine ⟨s', wr', evs ++ [.change sf.apath ck], ?_, hi'⟩
    simp only [Inv.loopCont, report, Prog.emit_bind, Prog.ret_bind]
    exact RunsAt.emit hr

/-- The main loop of `backup()` on a fault-free world returns for EVERY merged listing whose basis
entries have a representable time — no hypothesis on the source entries at all. -/
theorem backupLoop_total (ms : List Matched) :
    ∀ (s : Store) (wr : Writer), TInv s wr → (∀ m ∈ ms, MatchedGood m) →
      ∃ s' wr' evs, RunsAt (backupLoop H o wr ms) s (.ok wr') s' evs ∧ TInv s' wr' := by
  induction ms with
  | nil =>
    intro s wr hi _
    rw [backupLoop]
    exact ⟨s, wr, [], RunsAt.ret _ _, hi⟩
  | cons m rest ih =>
    intro s wr hi hgood
    have hgood' : ∀ m ∈ rest, MatchedGood m := fun m hm => hgood m (List.mem_cons_of_mem _ hm)
    have entry : ∀ (basis : Option IndexEntry) (sf : SrcEntry),
        (∀ b, basis = some b → (entryTimeNs b.mtime b.mtimeNanos).isSome = true) →
        ∃ s' wr' evs, RunsAt ((copyEntry H o wr basis sf).bind (Inv.loopCont H o sf rest)) s (.ok wr') s' evs ∧
          TInv s' wr' := by
      intro basis sf hbasis
      obtain ⟨s1, wr1, ch, hr1, hi1⟩ := copyEntry_total (H := H) (o := o) basis sf hi hbasis
      obtain ⟨s', wr', evs, hr, hi'⟩ :=
        loopCont_total sf rest (fun s wr hi => ih s wr hi hgood') hi1 ch
      refine ⟨s', wr', evs, ?_, hi'⟩
      simpa using RunsAt.bind hr1 hr
    cases m with
    | left b =>
      obtain ⟨s', wr', evs, hr, hi'⟩ := ih s wr hi hgood'
      refine ⟨s', wr', evs ++ [.change b.apath .deleted], ?_, hi'⟩
      rw [Inv.backupLoop_left]
      simp only [report, Prog.emit_bind, Prog.ret_bind]
      exact RunsAt.emit hr
    | right sf =>
      rw [Inv.backupLoop_right]
      exact entry none sf (fun _ h => nomatch h)
    | both b sf =>
      rw [Inv.backupLoop_both]
      refine entry (some b) sf ?_
      intro b' hb'
      cases hb'
      exact hgood _ (List.mem_cons_self ..)

/-! ### The main part -/

/-- **The main part of `backup()` is total** on a fault-free world: from a store and an initial writer
satisfying the weak invariant, for EVERY source listing, EVERY options record (also `maxBlockSize = 0`,
`maxEntriesPerHunk = 0`) and EVERY hash function, the loop, the final flush and `Band::close` return
statistics — no `.err`, no panic.  `hbasis`: the basis entries have a representable time (they passed
`IndexEntry::check` when the basis was listed). -/
theorem backupMain_total {s : Store} (src : List SrcEntry) (x : Nat × List Str × List IndexEntry)
    (hi : TInv s { band := x.1, exists_ := x.2.1 })
    (hbasis : ∀ b ∈ x.2.2, (entryTimeNs b.mtime b.mtimeNanos).isSome = true) :
    ∃ stats s' evs, RunsAt (Inv.backupMain H o src x) s (.ok stats) s' evs := by
  obtain ⟨s1, wr1, evs, hr1, hi1⟩ := backupLoop_total (H := H) (o := o) (mergeTrees x.2.2 src) s _ hi
    (matchedGood_mergeTrees _ _ hbasis)
  obtain ⟨s2, wr2, hr2, hi2⟩ := flushGroup_total (H := H) hi1
  obtain ⟨s3, wr3, hr3, hi3⟩ := finishHunk_total hi2
  have hpar : s3.parentOk (.bandTail wr3.band) = true := by
    simp [Store.parentOk, Key.parent, hi3.bandDir]
  have hclose : RunsAt (bandClose wr3.band wr3.hunksWritten) s3 (.ok ())
      (s3.put (.bandTail wr3.band) (.tail (some wr3.hunksWritten))) [] :=
    RunsAt.performUnit_write hpar (Or.inl hi3.tail)
  refine ⟨wr3.stats, s3.put (.bandTail wr3.band) (.tail (some wr3.hunksWritten)), evs, ?_⟩
  unfold Inv.backupMain
  refine RunsAt.bind_r0 hr1 ?_
  refine RunsAt.bind0 hr2 ?_
  refine RunsAt.bind0 hr3 ?_
  exact RunsAt.bind0 (a := ()) hclose (RunsAt.ret wr3.stats _)

end Conserve.GapTotal
