import ConserveModel.Proofs.WalkPath
/-
Helper lemmas: the walk below a well-formed directory is strictly increasing and consists of
valid strict descendants of that directory.
-/
namespace Conserve
open Std

/-- Strictly increasing in `Apath::cmp`. -/
def ELt (a b : SrcEntry) : Prop := apathCmp a.apath b.apath = .lt

theorem nameLe_totalPreorder : TotalPreorder nameLe :=
  strLe_totalPreorder (fun p : Str × Node => p.1)

theorem childApLe_totalPreorder (ap : Str) : TotalPreorder (childApLe ap) :=
  apathLe_totalPreorder (fun p : Str × Node => apathAppend ap p.1)

theorem compare_lt_of_le_of_ne {x y : Str} (h : (compare x y != .gt) = true) (hne : x ≠ y) :
    compare x y = .lt := by
  have : compare x y ≠ .eq := fun e => hne (LawfulEqOrd.eq_of_compare e)
  cases hc : compare x y <;> simp_all

/-- Facts about one well-formed listing `f` of the directory with components `cs`. -/
structure ListingFacts (excl : Str → Bool) (cs : List Str) (f : Forest) : Prop where
  good : ∀ p ∈ f.toList, goodName p.1 = true
  wfKids : ∀ p ∈ f.toList, p.2.kids.WF = true
  distinct : f.toList.Pairwise (fun a b => a.1 ≠ b.1)
  append : ∀ p ∈ f.toList, apathAppend (pathOf cs) p.1 = pathOf (cs ++ [p.1])

theorem listingFacts (excl : Str → Bool) {cs : List Str} {f : Forest} (hcs : GoodComps cs)
    (hwf : f.WF = true) : ListingFacts excl cs f := by
  obtain ⟨hd, hg⟩ := (Forest.WF_iff f).1 hwf
  exact ⟨fun p hp => (hg p hp).1, fun p hp => Node.WF_kids (hg p hp).2, hd,
    fun p _ => apathAppend_pathOf hcs p.1⟩

theorem mem_sorted_live {excl : Str → Bool} {ap : Str} {f : Forest} {le : Str × Node → Str × Node → Bool}
    {p : Str × Node} (h : p ∈ sortBy le (live excl ap f)) : p ∈ f.toList :=
  (mem_live.1 (mem_sortBy.1 h)).1

theorem mem_sorted_live_dirs {excl : Str → Bool} {ap : Str} {f : Forest}
    {le : Str × Node → Str × Node → Bool} {p : Str × Node}
    (h : p ∈ sortBy le ((live excl ap f).filter (·.2.isDir))) : p ∈ f.toList :=
  (mem_live.1 (List.mem_filter.1 (mem_sortBy.1 h)).1).1

/-- Sorted by a key order and with pairwise distinct names: pairwise `le` and `≠`. -/
theorem sorted_distinct {le : Str × Node → Str × Node → Bool} (hle : TotalPreorder le)
    {L M : List (Str × Node)} (hd : M.Pairwise (fun a b => a.1 ≠ b.1)) (hs : L.Sublist M) :
    (sortBy le L).Pairwise (fun a b => le a b = true ∧ a.1 ≠ b.1) :=
  (sortBy_pairwise hle L).and
    ((hd.sublist hs).perm (sortBy_perm le L).symm (fun h => Ne.symm h))

/-- The walk below a well-formed directory `cs`: strictly increasing, and every entry is
`cs/x/t…` with good components. -/
theorem walkBelow_sorted (excl : Str → Bool) (f : Forest) :
    ∀ cs, GoodComps cs → f.WF = true →
      (f.walkBelow excl (pathOf cs)).Pairwise ELt ∧
      ∀ e ∈ f.walkBelow excl (pathOf cs),
        ∃ x t, GoodComps (x :: t) ∧ e.apath = pathOf (cs ++ x :: t) := by
  induction f using Forest.kids_induction with
  | h f ih =>
    intro cs hcs hwf
    have F := listingFacts excl hcs hwf
    -- what the induction hypothesis says about the walk below child `p`
    have sub : ∀ p ∈ f.toList,
        (p.2.kids.walkBelow excl (apathAppend (pathOf cs) p.1)).Pairwise ELt ∧
        ∀ e ∈ p.2.kids.walkBelow excl (apathAppend (pathOf cs) p.1),
          ∃ x t, GoodComps (p.1 :: x :: t) ∧ e.apath = pathOf (cs ++ p.1 :: x :: t) := by
      intro p hp
      have hg : GoodComps (cs ++ [p.1]) := hcs.append (GoodComps.single (F.good p hp))
      have := ih p hp (cs ++ [p.1]) hg (F.wfKids p hp)
      rw [F.append p hp]
      refine ⟨this.1, fun e he => ?_⟩
      obtain ⟨x, t, hxt, hea⟩ := this.2 e he
      refine ⟨x, t, ?_, by rw [hea]; simp⟩
      intro c hc
      rcases List.mem_cons.1 hc with rfl | hc
      · exact F.good p hp
      · exact hxt c hc
    rw [Forest.walkBelow_eq]
    have hsubl : (live excl (pathOf cs) f).Sublist f.toList := List.filter_sublist
    have hsubd : ((live excl (pathOf cs) f).filter (·.2.isDir)).Sublist f.toList :=
      List.filter_sublist.trans hsubl
    constructor
    · rw [List.pairwise_append]
      refine ⟨?_, ?_, ?_⟩
      · -- the children, sorted by name
        rw [List.pairwise_map]
        refine (sorted_distinct nameLe_totalPreorder F.distinct hsubl).imp_of_mem ?_
        intro a b ha hb hab
        have ha := mem_sorted_live ha
        have hb := mem_sorted_live hb
        unfold ELt
        rw [Node.entry_apath, Node.entry_apath, F.append a ha, F.append b hb,
          apathCmp_siblings (hcs.append (GoodComps.single (F.good a ha)))
            (hcs.append (GoodComps.single (F.good b hb)))]
        exact compare_lt_of_le_of_ne hab.1 hab.2
      · -- the subdirectories, in apath order
        rw [List.pairwise_flatMap]
        refine ⟨fun p hp => (sub p (mem_sorted_live_dirs hp)).1, ?_⟩
        refine (sorted_distinct (childApLe_totalPreorder _) F.distinct hsubd).imp_of_mem ?_
        intro a b ha hb hab x hx y hy
        have ha := mem_sorted_live_dirs ha
        have hb := mem_sorted_live_dirs hb
        obtain ⟨x1, t1, hg1, he1⟩ := (sub a ha).2 x hx
        obtain ⟨x2, t2, hg2, he2⟩ := (sub b hb).2 y hy
        have hlt : compare a.1 b.1 = .lt := by
          have h1 := hab.1
          unfold childApLe apathLe at h1
          rw [F.append a ha, F.append b hb,
            apathCmp_siblings (hcs.append (GoodComps.single (F.good a ha)))
              (hcs.append (GoodComps.single (F.good b hb)))] at h1
          exact compare_lt_of_le_of_ne h1 hab.2
        unfold ELt
        rw [he1, he2]
        exact apathCmp_below_siblings hlt (hcs.append hg1) (hcs.append hg2)
      · -- children before everything deeper
        intro e he s hs
        obtain ⟨a, ha, rfl⟩ := List.mem_map.1 he
        obtain ⟨b, hb, hs⟩ := List.mem_flatMap.1 hs
        have ha := mem_sorted_live ha
        have hb := mem_sorted_live_dirs hb
        obtain ⟨x2, t2, hg2, he2⟩ := (sub b hb).2 s hs
        unfold ELt
        rw [Node.entry_apath, F.append a ha, he2]
        exact apathCmp_child_deeper (hcs.append (GoodComps.single (F.good a ha))) (hcs.append hg2)
    · intro e he
      rcases List.mem_append.1 he with he | he
      · obtain ⟨a, ha, rfl⟩ := List.mem_map.1 he
        have ha := mem_sorted_live ha
        exact ⟨a.1, [], GoodComps.single (F.good a ha), by rw [Node.entry_apath, F.append a ha]⟩
      · obtain ⟨b, hb, hs⟩ := List.mem_flatMap.1 he
        have hb := mem_sorted_live_dirs hb
        obtain ⟨x2, t2, hg2, he2⟩ := (sub b hb).2 e hs
        exact ⟨b.1, x2 :: t2, hg2, he2⟩

end Conserve
