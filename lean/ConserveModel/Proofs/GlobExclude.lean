import ConserveModel.Proofs.GlobMatch
import ConserveModel.Proofs.GlobParse
/-
Helper lemmas for C15, `Exclude` side: the pair of globs `Q`, `Q/**` that `add_pattern` adds,
and pruning = filtering on lists.
-/
namespace Conserve

/-- How the tokens of `Q/**` relate to the tokens of `Q` (`parseGlob_slashStarStar`). -/
def SuffixPair (ts ts' : List Tok) : Prop :=
  ts' = ts ++ [.recSuffix] ∨ (ts' = ts ∧ (ts = [.recPrefix] ∨ ∃ t0, ts = t0 ++ [.recSuffix]))

/-- `Q` or `Q/**` matches `x` iff `Q` matches `x` or a prefix of `x` that is followed by '/'. -/
theorem suffixPair_iff {ts ts' : List Tok} (h : SuffixPair ts ts') (x : Str) :
    (matchToks ts x = true ∨ matchToks ts' x = true) ↔
      ∃ y, (y = x ∨ ∃ z, x = y ++ slash :: z) ∧ matchToks ts y = true := by
  rcases h with rfl | ⟨rfl, h⟩
  · by_cases hrp : ts = [.recPrefix]
    · subst hrp
      constructor
      · intro _; exact ⟨x, Or.inl rfl, matchToks_recPrefix x⟩
      · intro _; exact Or.inl (matchToks_recPrefix x)
    · rw [matchToks_snoc_recSuffix hrp]
      constructor
      · rintro (h | ⟨y, z, rfl, hy⟩)
        · exact ⟨x, Or.inl rfl, h⟩
        · exact ⟨y, Or.inr ⟨z, rfl⟩, hy⟩
      · rintro ⟨y, (rfl | ⟨z, rfl⟩), hy⟩
        · exact Or.inl hy
        · exact Or.inr ⟨y, z, rfl, hy⟩
  · constructor
    · rintro (h1 | h1) <;> exact ⟨x, Or.inl rfl, h1⟩
    · rintro ⟨y, (rfl | ⟨z, rfl⟩), hy⟩
      · exact Or.inl hy
      · left
        rcases h with rfl | ⟨t0, rfl⟩
        · exact matchToks_recPrefix _
        · exact matchToks_recSuffix_closed t0 y z hy

theorem globMatch_of_parse {p : Str} {ts : List Tok} (h : parseGlob p = some ts) (x : Str) :
    globMatch p x = matchToks ts x := by
  simp [globMatch, h]

/-- For every glob `Q` that parses, `Q/**` parses too and the tokens are a `SuffixPair`. -/
theorem suffixPair_of_parse {q : Str} {ts : List Tok} (h : parseGlob q = some ts) :
    ∃ ts', parseGlob (q ++ slashStarStar) = some ts' ∧ SuffixPair ts ts' := by
  rcases parseGlob_slashStarStar h with h1 | ⟨h1, h2⟩
  · exact ⟨_, h1, Or.inl rfl⟩
  · exact ⟨_, h1, Or.inr ⟨rfl, h2⟩⟩

/-- `Q` or `Q/**` matches `x` iff `Q` matches `x` or a prefix of `x` that is followed by '/'. -/
theorem globPair_iff {q : Str} {ts : List Tok} (h : parseGlob q = some ts) (x : Str) :
    (globMatch q x = true ∨ globMatch (q ++ slashStarStar) x = true) ↔
      ∃ y, (y = x ∨ ∃ z, x = y ++ slash :: z) ∧ globMatch q y = true := by
  obtain ⟨ts', h', hp⟩ := suffixPair_of_parse h
  simp only [globMatch_of_parse h, globMatch_of_parse h']
  exact suffixPair_iff hp x

theorem expandPattern_eq (p : Str) :
    expandPattern p = [anchorPattern p, anchorPattern p ++ slashStarStar] := rfl

/-- What a successfully built `Exclude` holds. -/
theorem parseAll_expand {pats : List Str} {gs : List (List Tok)}
    (h : parseAll (pats.flatMap expandPattern) = some gs) :
    (∀ P ∈ pats, ∃ ts, parseGlob (anchorPattern P) = some ts) ∧
    ∀ x, excluded gs x = true ↔
      ∃ P ∈ pats, globMatch (anchorPattern P) x = true ∨
        globMatch (anchorPattern P ++ slashStarStar) x = true := by
  induction pats generalizing gs with
  | nil =>
    simp [parseAll] at h
    subst h
    simp [excluded]
  | cons P pats ih =>
    simp only [List.flatMap_cons, expandPattern_eq, List.cons_append, List.nil_append, parseAll] at h
    cases h1 : parseGlob (anchorPattern P) with
    | none => simp [h1] at h
    | some t1 =>
      cases h2 : parseGlob (anchorPattern P ++ slashStarStar) with
      | none => simp [h1, h2] at h
      | some t2 =>
        cases h3 : parseAll (pats.flatMap expandPattern) with
        | none => simp [h1, h2, h3] at h
        | some rest =>
          simp [h1, h2, h3] at h
          subst h
          obtain ⟨ih1, ih2⟩ := ih h3
          constructor
          · intro Q hQ
            rcases List.mem_cons.mp hQ with rfl | hQ
            · exact ⟨t1, h1⟩
            · exact ih1 Q hQ
          · intro x
            have hx := ih2 x
            simp only [excluded, List.any_cons, Bool.or_eq_true] at hx ⊢
            simp only [List.mem_cons, exists_eq_or_imp, globMatch_of_parse h1, globMatch_of_parse h2]
            rw [hx, or_assoc]

theorem parseAll_expand_isSome {pats : List Str}
    (h : ∀ P ∈ pats, ∃ ts, parseGlob (anchorPattern P) = some ts) :
    ∃ gs, parseAll (pats.flatMap expandPattern) = some gs := by
  induction pats with
  | nil => exact ⟨[], rfl⟩
  | cons P pats ih =>
    obtain ⟨ts, h1⟩ := h P (by simp)
    obtain ⟨ts', h2, _⟩ := suffixPair_of_parse h1
    obtain ⟨rest, h3⟩ := ih (fun Q hQ => h Q (by simp [hQ]))
    exact ⟨ts :: ts' :: rest, by
      simp [List.flatMap_cons, expandPattern_eq, parseAll, h1, h2, h3]⟩

/-! ### Pruning = filtering -/

theorem splitLastSlash_eq {x q n : Str} (h : splitLastSlash x = some (q, n)) : x = q ++ slash :: n := by
  induction x generalizing q n with
  | nil => simp [splitLastSlash] at h
  | cons c s ih =>
    simp only [splitLastSlash] at h
    cases hs : splitLastSlash s with
    | some qn =>
      obtain ⟨q', n'⟩ := qn
      simp [hs] at h
      obtain ⟨rfl, rfl⟩ := h
      rw [ih hs]; simp
    | none =>
      simp [hs] at h
      obtain ⟨rfl, rfl, rfl⟩ := h
      simp

theorem parentOf_eq {x q : Str} (h : parentOf x = some q) : ∃ n, x = q ++ slash :: n := by
  unfold parentOf at h
  split at h
  · rename_i q' n hs
    split at h
    · cases h
    · cases h; exact ⟨n, splitLastSlash_eq hs⟩
  · cases h

/-- Pruning = filtering, for any exclusion test that is inherited from parent to child and any list
in which parents come before their children. -/
theorem pruneWalk_eq_filter (excl : Str → Bool) (parent : Str → Option Str)
    (hdesc : ∀ x q, parent x = some q → excl q = true → excl x = true)
    (done kept xs : List Str)
    (hkept : ∀ q, q ∈ kept ↔ q ∈ done ∧ excl q = false)
    (hclosed : ParentClosed parent done xs) :
    pruneWalk excl parent kept xs = xs.filter fun x => !excl x := by
  induction xs generalizing done kept with
  | nil => simp [pruneWalk]
  | cons x xs ih =>
    obtain ⟨hpar, hrest⟩ := hclosed
    simp only [pruneWalk, List.filter_cons]
    cases hex : excl x with
    | true =>
      simp only [Bool.not_true, Bool.and_false, Bool.false_eq_true, if_false]
      apply ih (x :: done) kept _ hrest
      intro q
      rw [hkept q]
      constructor
      · rintro ⟨h1, h2⟩; exact ⟨List.mem_cons_of_mem _ h1, h2⟩
      · rintro ⟨h1, h2⟩
        rcases List.mem_cons.mp h1 with rfl | h1
        · rw [hex] at h2; cases h2
        · exact ⟨h1, h2⟩
    | false =>
      have hvisit : visited parent kept x = true := by
        unfold visited
        cases hp : parent x with
        | none => rfl
        | some q =>
          simp only [List.contains_iff_mem]
          rw [hkept q]
          refine ⟨hpar q hp, ?_⟩
          cases hq : excl q with
          | false => rfl
          | true => rw [hdesc x q hp hq] at hex; cases hex
      simp only [hvisit, Bool.not_false, Bool.and_true, if_true]
      congr 1
      apply ih (x :: done) (x :: kept) _ hrest
      intro q
      simp only [List.mem_cons, hkept q]
      constructor
      · rintro (rfl | ⟨h1, h2⟩)
        · exact ⟨Or.inl rfl, hex⟩
        · exact ⟨Or.inr h1, h2⟩
      · rintro ⟨rfl | h1, h2⟩
        · exact Or.inl rfl
        · exact Or.inr ⟨h1, h2⟩

end Conserve
