import ConserveModel.Proofs.FsOk
/-
C01 (c) without the "no error reported" hypothesis: on an empty destination every call restore
makes for a tree-consistent listing that starts with a directory succeeds, so every file ends
with exactly its stored mode.
-/
namespace Conserve

theorem Fs.create_new {fs : Fs} {path : List Str} {p : Path} (hr : fs.resolve true path = .ok p)
    (hn : fs.node p = none) :
    fs.create path =
      (fs.createAt p (.file [] (maskMode 0o666 fs.umask) fs.euid (fs.newGid p.dropLast) .now), .ok p) := by
  unfold Fs.create
  rw [hr]
  dsimp only
  rw [hn]

theorem Fs.lchown_snd_ok {fs : Fs} {path : List Str} {p : Path} {x : FNode} {u g : Option Nat}
    (hr : fs.resolve false path = .ok p) (hn : fs.node p = some x) : (fs.lchown path u g).2 = .ok () := by
  unfold Fs.lchown
  rw [hr]
  dsimp only
  rw [hn]

theorem Fs.chmod_snd_ok {fs : Fs} {path : List Str} {p : Path} {x : FNode} {m : Nat}
    (hr : fs.resolve true path = .ok p) (hn : fs.node p = some x) : (fs.chmod path m).2 = .ok () := by
  unfold Fs.chmod
  rw [hr]
  dsimp only
  rw [hn]

theorem setOwnerFs_snd {uidOf gidOf : Str → Option Nat} {fs : Fs} {path : List Str} {n : RNode}
    (h : (fs.lchown path (n.user.bind uidOf) (n.group.bind gidOf)).2 = .ok ()) :
    (setOwnerFs uidOf gidOf fs path n).2 = none := by
  unfold setOwnerFs
  rcases hl : fs.lchown path (n.user.bind uidOf) (n.group.bind gidOf) with ⟨fs1, r⟩
  rw [hl] at h
  dsimp only at h
  subst h
  rfl

theorem setPermsFs_snd {fs : Fs} {path : List Str} {n : RNode}
    (h : ∀ m, (fs.chmod path m).2 = .ok ()) : (setPermsFs fs path n).2 = none := by
  unfold setPermsFs
  cases n.unixMode with
  | none => rfl
  | some m =>
    dsimp only
    rcases hl : fs.chmod path m with ⟨fs1, r⟩
    have := h m
    rw [hl] at this
    dsimp only at this
    subst this
    rfl

/-- One file below existing parents, at a free place: no error. -/
theorem restoreFileFs_noerr {uidOf gidOf : Str → Option Nat} {fs : Fs} {D : Path} {cs : List Str}
    {n : RNode} (hc : Ctx fs D cs []) (hlen : (D ++ cs).length < resolveFuel) (hh : HaveTo fs D cs)
    (hfree : fs.node (D ++ cs) = none) (hcomp : n.complete = true) :
    (restoreFileFs uidOf gidOf false fs (D ++ cs ++ []) n).2 = [] := by
  have hfile : FKind.file ≠ .symlink := by decide
  have hf0 : FinalNotLink fs (D ++ cs) := fun x hx => by rw [hfree] at hx; cases hx
  have hres := resolve_ok (follow := true) hc.dest hc.good hlen hh (Or.inr hf0)
  have hcr := Fs.create_new hres hfree
  have L1 : Local .file fs (fs.create (D ++ cs)).1 (D ++ cs) := by
    rw [hcr]; exact Local.of_createAt hfree rfl
  rw [hcr] at L1
  dsimp only at L1
  unfold restoreFileFs
  rw [List.append_nil, hcr]
  simp only [hcomp, Bool.not_true, Bool.false_eq_true, if_false]
  generalize hfs1 : fs.createAt (D ++ cs) _ = fs1 at L1
  have hx1 : ∃ x, fs1.node (D ++ cs) = some x := by
    rw [← hfs1]
    have hp := ne_nil_of_node_none hc.dest hfree
    have hne : D ++ cs ≠ (D ++ cs).dropLast := fun e => by
      have := congrArg List.length e
      rw [List.length_dropLast] at this
      have := List.length_pos_iff.2 hp
      omega
    exact ⟨_, by rw [Fs.node_createAt, if_neg hne, if_pos rfl]⟩
  have L3 : Local .file fs ((fs1.writeAt (D ++ cs) n.content).futimensAt (D ++ cs) n.mtimeNs) (D ++ cs) :=
    (L1.trans (Fs.writeAt_local _ _ _)).trans (Fs.futimensAt_local _ _ _)
  have L13 : Local .file fs1 ((fs1.writeAt (D ++ cs) n.content).futimensAt (D ++ cs) n.mtimeNs) (D ++ cs) :=
    (Fs.writeAt_local (k := .file) fs1 _ _).trans (Fs.futimensAt_local _ _ _)
  generalize hfs3 : (fs1.writeAt (D ++ cs) n.content).futimensAt (D ++ cs) n.mtimeNs = fs3 at L3 L13
  obtain ⟨x1, hx1⟩ := hx1
  obtain ⟨x3, hx3, _⟩ := L13.self x1 hx1
  have hc3 := L3.ctx hc
  have hres3 := resolve_ok (follow := false) hc3.dest hc.good hlen (hh.kept L3.kept) (Or.inl rfl)
  have hown := setOwnerFs_snd (uidOf := uidOf) (gidOf := gidOf) (n := n) (Fs.lchown_snd_ok hres3 hx3)
  have L34 := setOwnerFs_local (k := .file) (uidOf := uidOf) (gidOf := gidOf) (n := n) hc3
  rw [List.append_nil] at L34
  have L4 := L3.trans L34
  obtain ⟨x4, hx4, _⟩ := L34.self x3 hx3
  have hres4 := resolve_ok (follow := true) (L4.ctx hc).dest hc.good hlen (hh.kept L4.kept)
    (Or.inr (L4.finalNotLink hfile hf0))
  have hperm := setPermsFs_snd (n := n) (fun m => Fs.chmod_snd_ok (m := m) hres4 hx4)
  rw [hown, hperm]
  rfl

/-- What is known after some entries (`earlier`) have been restored into an empty destination. -/
structure Progress (D : Path) (earlier : List RNode) (fs : Fs) : Prop where
  only : ∀ cs, fs.node (D ++ cs) ≠ none → cs = [] ∨ ∃ d ∈ earlier, cs <+: comps d
  dirs : ∀ d ∈ earlier, d.kind = .dir → HaveFull fs D (comps d)

theorem restoreNodeFs_dir_fst {uidOf gidOf : Str → Option Nat} {old : Bool} {D : Path} {fs : Fs}
    {n : RNode} (hk : n.kind = .dir) (hr : n.apath ≠ [slash]) :
    (restoreNodeFs uidOf gidOf old D fs n).1 = (restoreDirFs fs (joinDest D n.apath)).1 := by
  unfold restoreNodeFs
  rw [hk]
  simp only [hr, ne_eq, not_false_eq_true, if_true]
  rcases restoreDirFs fs (joinDest D n.apath) with ⟨fs1, r⟩
  cases r <;> rfl

/-- One turn keeps `Progress`. -/
theorem restoreNodeFs_progress {uidOf gidOf : Str → Option Nat} {old : Bool} {D : Path}
    {S : List Str → Prop} {fs : Fs} {n : RNode} {earlier : List RNode} (hI : Inv D S fs)
    (hP : Progress D earlier fs) (hv : isValid n.apath = true)
    (hcl : ∀ pre, pre <+: comps n → ¬ S pre) (hlen : (D ++ comps n).length < resolveFuel) :
    Progress D (earlier ++ [n]) (restoreNodeFs uidOf gidOf old D fs n).1 := by
  obtain ⟨G, _⟩ := restoreNodeFs_grows (uidOf := uidOf) (gidOf := gidOf) (old := old) hI hv hcl
  obtain ⟨hctx, hfull⟩ := ctx_of_inv hI hv hcl
  refine ⟨fun cs hne => ?_, fun d hd hk => ?_⟩
  · by_cases hp : cs <+: comps n
    · exact Or.inr ⟨n, by simp, hp⟩
    · have := (G.stable cs hp).none_iff
      rcases hP.only cs (fun e => hne (this.1 e)) with h | ⟨d, hd, h⟩
      · exact Or.inl h
      · exact Or.inr ⟨d, List.mem_append_left _ hd, h⟩
  · rcases List.mem_append.1 hd with hd | hd
    · exact (hP.dirs d hd hk).kept G.kept
    · rw [List.mem_singleton.1 hd] at hk ⊢
      by_cases hr : n.apath = [slash]
      · have : comps n = [] := comps_root_of_eq hr
        rw [this]
        intro pre hp
        rw [List.prefix_nil.1 hp, List.append_nil]
        exact (G.destOk hI.dest).dirs D (List.prefix_refl _)
      · rw [restoreNodeFs_dir_fst hk hr, restoreDirFs_fst]
        have hj : joinDest D n.apath = D ++ comps n := by
          rw [joinDest_valid D hv, if_neg hr, List.append_nil]; rfl
        rw [hj]
        exact (mkdirAll_ok _ fs (comps n) (by simp; omega) hI.dest hctx.good hfull hlen).2

theorem restoreLoopFs_mode_full {uidOf gidOf : Str → Option Nat} {D : Path} {m : Nat} {head : RNode}
    {nodes : List RNode} (hC : Confinable nodes)
    (hlen : ∀ n ∈ nodes, (D ++ comps n).length < resolveFuel) :
    ∀ (rest earlier : List RNode) (fs : Fs) (S : List Str → Prop), nodes = earlier ++ rest →
      Inv D S fs → Progress D earlier fs →
      (∀ n ∈ rest, ∀ pre, pre <+: comps n → ¬ S pre) →
      rest.Pairwise NotBelowNonDir →
      tcFrom head earlier rest = true →
      ∀ n ∈ rest, n.kind = .file → n.complete = true → n.unixMode = some m → m < 0o10000 →
        ∃ x, (restoreLoopFs uidOf gidOf false D fs rest).1.node (D ++ comps n) = some x ∧
          x.kind = .file ∧ x.mode = m := by
  intro rest
  induction rest with
  | nil => intro _ _ _ _ _ _ _ _ _ n hn; cases hn
  | cons n0 rest ih =>
    intro earlier fs S hsplit hI hP hcl hp htc n hn hk hcomp hm hlt
    obtain ⟨hpn, hpr⟩ := List.pairwise_cons.1 hp
    have hmem0 : n0 ∈ nodes := by rw [hsplit]; simp
    have hv0 := hC.valid n0 hmem0
    have hcl0 := hcl n0 List.mem_cons_self
    obtain ⟨G, _⟩ := restoreNodeFs_grows (uidOf := uidOf) (gidOf := gidOf) (old := false) hI hv0 hcl0
    have I1 := hI.grows G
    have P1 := restoreNodeFs_progress (uidOf := uidOf) (gidOf := gidOf) (old := false) hI hP hv0 hcl0
      (hlen n0 hmem0)
    have hcl' : ∀ m ∈ rest, ∀ pre, pre <+: comps m →
        ¬ ((pre = comps n0 ∧ n0.kind ≠ .dir) ∨ S pre) := fun m hm pre hpre hS => by
      rcases hS with ⟨rfl, hk⟩ | hS
      · exact hpn m hm hk hpre
      · exact hcl m (List.mem_cons_of_mem _ hm) pre hpre hS
    simp only [tcFrom, Bool.and_eq_true] at htc
    obtain ⟨⟨_, hps⟩, htc'⟩ := htc
    simp only [restoreLoopFs]
    rcases List.mem_cons.1 hn with rfl | hn'
    · -- the file restored in this turn: its parent is an earlier directory, its place is free
      obtain ⟨d, hd, hd2⟩ := List.any_eq_true.1 hps
      simp only [Bool.and_eq_true, beq_iff_eq] at hd2
      have hdmem : d ∈ nodes := by rw [hsplit]; exact List.mem_append_left _ hd
      have hdist : ∀ a ∈ earlier, comps a ≠ comps n := by
        have := hC.distinct
        rw [hsplit, List.pairwise_append] at this
        exact fun a ha => this.2.2 a ha n List.mem_cons_self
      have hne : comps n ≠ [] := by
        intro e
        have := hd2.2
        rw [e] at this
        exact hdist d hd (by rw [this, e]; rfl)
      have hr : n.apath ≠ [slash] := fun e => hne (comps_root_of_eq e)
      have hto : HaveTo fs D (comps n) := by
        have := hP.dirs d hd hd2.1
        rw [hd2.2] at this
        exact this.to_of_dropLast
      have hfree : fs.node (D ++ comps n) = none := by
        cases hx : fs.node (D ++ comps n) with
        | none => rfl
        | some x =>
          rcases hP.only (comps n) (by rw [hx]; simp) with e | ⟨a, ha, hpre⟩
          · exact absurd e hne
          · have hamem : a ∈ nodes := by rw [hsplit]; exact List.mem_append_left _ ha
            have := hC.anc n hmem0 a hamem hpre (fun e => hdist a ha e.symm)
            rw [hk] at this; cases this
      obtain ⟨hctx, hfull⟩ := ctx_of_inv hI hv0 hcl0
      rw [if_neg hr] at hctx
      have hpath : joinDest D n.apath = D ++ comps n ++ [] := by
        rw [joinDest_valid D hv0, if_neg hr]; rfl
      have e1 : (restoreNodeFs uidOf gidOf false D fs n).1 =
          (restoreFileFs uidOf gidOf false fs (joinDest D n.apath) n).1 := by
        unfold restoreNodeFs; rw [hk]
      have herr := restoreFileFs_noerr (uidOf := uidOf) (gidOf := gidOf) (n := n) hctx (hlen n hmem0) hto
        hfree hcomp
      obtain ⟨x, hx, hxk, hxm⟩ := restoreFileFs_mode hctx (hfull _ (List.prefix_refl _)) herr hcomp hm hlt
      rw [← hpath, ← e1] at hx
      have G2 := restoreLoopFs_grows (uidOf := uidOf) (gidOf := gidOf) (old := false) rest _ _ I1
        (fun m hm => hC.valid m (by rw [hsplit]; simp [hm])) hcl' hpr
      have hst := G2.stable (comps n) (fun ⟨m', hm', hpre⟩ => hpn m' hm' (by rw [hk]; decide) hpre)
      obtain ⟨y, hy, hyk, hym, _⟩ := hst.some_left hx
      exact ⟨y, hy, hyk.trans hxk, hym.trans hxm⟩
    · exact ih (earlier ++ [n0]) _ _ (by rw [hsplit]; simp) I1 P1 hcl' hpr htc' n hn' hk hcomp hm hlt

/-! ### The whole restore -/

theorem hasChild_false_of_absent {fs : Fs} {D : Path} (hwf : fs.wf = true) (hn : fs.node D = none) :
    fs.hasChild D = false := by
  cases h : fs.hasChild D with
  | false => rfl
  | true =>
    unfold Fs.hasChild at h
    obtain ⟨kv, hkv, hc⟩ := List.any_eq_true.1 h
    simp only [Bool.and_eq_true, bne_iff_ne, ne_eq, beq_iff_eq] at hc
    have := List.all_eq_true.1 hwf kv hkv
    simp only [Bool.or_eq_true, beq_iff_eq, hc.1, false_or, hc.2] at this
    simp [Fs.isDir, hn] at this

theorem not_child_of_le {D k : Path} (h : k.length ≤ D.length) : (k != [] && k.dropLast == D) = false := by
  cases hk : (k != [] && k.dropLast == D) with
  | false => rfl
  | true =>
    simp only [Bool.and_eq_true, bne_iff_ne, ne_eq, beq_iff_eq] at hk
    have := congrArg List.length hk.2
    rw [List.length_dropLast] at this
    have := List.length_pos_iff.2 hk.1
    omega

theorem hasChild_createAt {fs : Fs} {D : Path} {x : FNode} :
    (fs.createAt D x).hasChild D = fs.hasChild D := by
  unfold Fs.createAt Fs.modify
  cases (fs.set D x).node D.dropLast with
  | none =>
    simp only [Fs.hasChild, Fs.set, List.any_cons, not_child_of_le (Nat.le_refl D.length), Bool.false_or]
  | some y =>
    simp only [Fs.hasChild, Fs.set, List.any_cons, not_child_of_le (Nat.le_refl D.length),
      not_child_of_le (k := D.dropLast) (D := D) (by rw [List.length_dropLast]; omega), Bool.false_or]

/-- `ensure_dir_exists` and the emptiness test succeed on an absent or empty destination. -/
theorem ensure_and_empty {fs : Fs} {D : Path} (hwf : fs.wf = true) (hP : DestPlain fs D)
    (hlen : D.length < resolveFuel) (hempty : fs.node D = none ∨ fs.hasChild D = false) :
    ∃ fs0, fs.ensureDir D = (fs0, .ok ()) ∧ fs0.readDirEmpty D = .ok true := by
  have L := ensureDir_local hP
  have hens : ∃ fs0, fs.ensureDir D = (fs0, .ok ()) ∧ fs0.hasChild D = false := by
    unfold Fs.ensureDir Fs.mkdir
    rw [hP.res_ok hlen false]
    dsimp only
    cases hn : fs.node D with
    | none =>
      exact ⟨_, rfl, by rw [hasChild_createAt]; exact hasChild_false_of_absent hwf hn⟩
    | some x =>
      refine ⟨fs, rfl, ?_⟩
      rcases hempty with h | h
      · rw [hn] at h; cases h
      · exact h
  obtain ⟨fs0, he, hnc⟩ := hens
  refine ⟨fs0, he, ?_⟩
  rw [he] at L
  have hP0 := L.destPlain hP
  unfold Fs.readDirEmpty
  rw [hP0.res_ok hlen true]
  dsimp only
  -- the destination is a directory now
  have hd : ∃ x, fs0.node D = some x ∧ x.kind = .dir := by
    cases hn : fs.node D with
    | some x =>
      obtain ⟨x', hx', hk'⟩ := L.self x hn
      exact ⟨x', hx', hk'.trans (hP.self x hn)⟩
    | none =>
      have : fs.ensureDir D = (fs.createAt D (.dir (maskMode 0o777 fs.umask + fs.parentSgid D.dropLast) fs.euid
          (fs.newGid D.dropLast) .now), .ok ()) := by
        unfold Fs.ensureDir Fs.mkdir
        rw [hP.res_ok hlen false]
        dsimp only
        rw [hn]
      rw [this] at he
      have e0 : fs0 = fs.createAt D _ := (Prod.mk.inj he).1.symm
      have := isDir_createAt_self (fs := fs) (p := D)
        (x := .dir (maskMode 0o777 fs.umask + fs.parentSgid D.dropLast) fs.euid (fs.newGid D.dropLast) .now) rfl
      rw [← e0] at this
      exact Fs.isDir_iff.1 this
  obtain ⟨x, hx, hk⟩ := hd
  rw [hx]
  simp [hk, hnc]

/-- **Modes are restored exactly**: a tree-consistent listing that starts with a directory,
restored (owner first, then mode) into an absent or empty destination. -/
theorem restoreToFs_mode_full {uidOf gidOf : Str → Option Nat} {fs : Fs} {D : Path}
    {nodes : List RNode} {m : Nat} (hT : treeConsistent nodes = true)
    (hhead : ∀ h ∈ nodes.head?, h.kind = .dir) (hwf : fs.wf = true) (hP : DestPlain fs D)
    (hlen : ∀ n ∈ nodes, (D ++ comps n).length < resolveFuel)
    (hempty : fs.node D = none ∨ fs.hasChild D = false) :
    ∀ n ∈ nodes, n.kind = .file → n.complete = true → n.unixMode = some m → m < 0o10000 →
      ∃ x, (restoreToFs fs D false nodes uidOf gidOf false).1.node (D ++ comps n) = some x ∧
        x.kind = .file ∧ x.mode = m := by
  intro n hn hk hcomp hm hlt
  have hC := confinable_of_treeConsistent hT
  cases nodes with
  | nil => cases hn
  | cons h rest =>
    have hhk : h.kind = .dir := hhead h rfl
    have htc : tcFrom h [h] rest = true := by
      simp only [treeConsistent, Bool.and_eq_true] at hT
      exact hT.2
    have hDlen : D.length < resolveFuel := by
      have := hlen h List.mem_cons_self
      simp only [List.length_append] at this
      omega
    obtain ⟨fs0, hens, hrd⟩ := ensure_and_empty hwf hP hDlen hempty
    have L := ensureDir_local hP
    rw [hens] at L
    obtain ⟨hI, honly⟩ := inv_initial' hwf hP L hrd
    have hp : (h :: rest).Pairwise NotBelowNonDir :=
      hC.distinct.imp_of_mem fun {a b} ha hb hne hk hpre => hk (hC.anc a ha b hb hpre hne)
    obtain ⟨_, hpr⟩ := List.pairwise_cons.1 hp
    have hn' : n ∈ rest := by
      rcases List.mem_cons.1 hn with e | h'
      · rw [e, hhk] at hk; cases hk
      · exact h'
    -- the first turn: the root of the selected subtree
    have hv0 := hC.valid h List.mem_cons_self
    have hcl0 : ∀ pre, pre <+: comps h → ¬ (fun _ : List Str => False) pre := fun _ _ hf => hf
    obtain ⟨G, _⟩ := restoreNodeFs_grows (uidOf := uidOf) (gidOf := gidOf) (old := false) hI hv0 hcl0
    have I1 := hI.grows G
    have P0 : Progress D [] fs0 :=
      ⟨fun cs hne => Or.inl (Classical.byContradiction fun hcs => hne (honly cs hcs)),
       fun d hd => by cases hd⟩
    have P1 := restoreNodeFs_progress (uidOf := uidOf) (gidOf := gidOf) (old := false) hI P0 hv0 hcl0
      (hlen h List.mem_cons_self)
    have hcl' : ∀ m ∈ rest, ∀ pre, pre <+: comps m →
        ¬ ((pre = comps h ∧ h.kind ≠ .dir) ∨ False) := fun m _ pre _ hS => by
      rcases hS with ⟨_, hk'⟩ | hS
      · exact hk' hhk
      · exact hS
    obtain ⟨x, hx, hxk, hxm⟩ := restoreLoopFs_mode_full (uidOf := uidOf) (gidOf := gidOf) (head := h) hC hlen
      rest ([] ++ [h]) _ _ (by simp) I1 P1 hcl' hpr htc n hn' hk hcomp hm hlt
    -- the deferrals leave the file alone
    obtain ⟨I2, _, hdefs⟩ := restoreLoopFs_inv (uidOf := uidOf) (gidOf := gidOf) (old := false)
      (h :: rest) fs0 _ hI hC.valid (fun _ _ _ _ hf => hf) hp
    have G3 := applyDeferralsFs_grows (uidOf := uidOf) (gidOf := gidOf) _ _ I2 (fun d hd => by
      obtain ⟨hm', hk', hpath⟩ := hdefs d hd
      refine ⟨hC.valid _ hm', hpath, fun pre hpre hS => ?_⟩
      rcases hS with ⟨m', hmm, hmk, e⟩ | hS
      · subst e
        by_cases heq : comps m' = comps d.node
        · rw [pairwise_inj hC.distinct m' hmm d.node hm' heq] at hmk
          exact hmk hk'
        · exact hmk (hC.anc m' hmm d.node hm' hpre heq)
      · exact hS)
    have hst := G3.stable (comps n) (fun ⟨d, hd, e⟩ => by
      obtain ⟨hm', hk', _⟩ := hdefs d hd
      have := pairwise_inj hC.distinct n hn d.node hm' e
      rw [← this, hk] at hk'
      cases hk')
    have hx' : (restoreLoopFs uidOf gidOf false D fs0 (h :: rest)).1.node (D ++ comps n) = some x := by
      simp only [restoreLoopFs]; exact hx
    obtain ⟨y, hy, hyk, hym, _⟩ := hst.some_left hx'
    refine ⟨y, ?_, hyk.trans hxk, hym.trans hxm⟩
    unfold restoreToFs
    rw [hens]
    dsimp only
    rw [hrd]
    simpa using hy

end Conserve
