import ConserveModel.Proofs.WalkPrune
/-
Helper lemmas: valid paths are exactly `pathOf` of good components; the strict descendants of
a directory form an interval of the order.
-/
namespace Conserve
open Std

theorem not_mem_splitSlash {s p : Str} (h : p ∈ splitSlash s) : slash ∉ p := by
  induction s generalizing p with
  | nil => simp [splitSlash] at h; subst h; simp
  | cons c cs ih =>
    rw [splitSlash] at h
    split at h
    · rcases List.mem_cons.1 h with rfl | h
      · simp
      · exact ih h
    · rename_i hc
      cases hs : splitSlash cs with
      | nil => exact absurd hs (splitSlash_ne_nil cs)
      | cons q qs =>
        rw [hs] at h ih
        rcases List.mem_cons.1 h with rfl | h
        · intro hm
          rcases List.mem_cons.1 hm with e | hm
          · exact hc e.symm
          · exact ih List.mem_cons_self hm
        · exact ih (List.mem_cons_of_mem _ h)

/-- A valid apath is `pathOf` of its components, and these are good names. -/
theorem valid_eq_pathOf {a : Str} (h : isValid a = true) :
    GoodComps (components a) ∧ a = pathOf (components a) := by
  rw [C11.valid_iff_spec] at h
  obtain ⟨hh, ht⟩ := h
  cases a with
  | nil => simp at hh
  | cons c rest =>
    simp only [List.head?_cons, Option.some.injEq] at hh
    subst hh
    cases hr : rest with
    | nil => exact ⟨fun c hc => by simp [components] at hc, rfl⟩
    | cons r rs =>
      rw [← hr]
      have hne : rest ≠ [] := by rw [hr]; simp
      have hcomp : components (slash :: rest) = splitSlash rest := components_cons rest hne
      have hspec : ∀ c ∈ components (slash :: rest), c ≠ [] ∧ c ≠ [dot] ∧ c ≠ [dot, dot] ∧ 0 ∉ c := by
        rcases ht with ht | ht
        · simp [hr] at ht
        · exact ht
      rw [hcomp] at hspec ⊢
      constructor
      · intro c hc
        have := hspec c hc
        exact (goodName_iff c).2 ⟨this.1, not_mem_splitSlash hc, this.2.2.2, this.2.1, this.2.2.1⟩
      · cases hs : splitSlash rest with
        | nil => exact absurd hs (splitSlash_ne_nil rest)
        | cons p ps => rw [pathOf, ← hs, joinSlash_splitSlash]

theorem valid_iff_pathOf (a : Str) :
    isValid a = true ↔ ∃ cs, GoodComps cs ∧ a = pathOf cs :=
  ⟨fun h => ⟨_, valid_eq_pathOf h⟩, fun ⟨_, hg, e⟩ => e ▸ pathOf_valid hg⟩

/-- A strict descendant of `pathOf cd`, when valid, is `pathOf (cd ++ x :: t)`. -/
theorem strictDesc_valid {cd : List Str} {a : Str} (hcd : GoodComps cd) (ha : isValid a = true)
    (h : StrictDesc (pathOf cd) a) :
    ∃ x t, GoodComps (cd ++ x :: t) ∧ a = pathOf (cd ++ x :: t) := by
  obtain ⟨hg, ea⟩ := valid_eq_pathOf ha
  obtain ⟨hp, hne⟩ := h
  unfold isAncestorOrSelf at hp
  rw [components_pathOf hcd, List.isPrefixOf_iff_prefix] at hp
  obtain ⟨t, ht⟩ := hp
  cases t with
  | nil =>
    rw [List.append_nil] at ht
    exact absurd (by rw [ea, ← ht]) hne
  | cons x t => exact ⟨x, t, ht ▸ hg, by rw [ht]; exact ea⟩

/-! ### Convexity -/

theorem compare_nil_of_lt {kb : List Str} {l : List Str} (h : compare l kb = .lt) : kb ≠ [] := by
  rintro rfl
  cases l with
  | nil =>
    have : compare ([] : List Str) [] = .eq := ReflOrd.compare_self
    rw [this] at h; cases h
  | cons a l => rw [List.compare_cons_nil] at h; cases h

/-- Between two lists with a common prefix lie only lists with that prefix. -/
theorem lex_convex (P ra rc kb : List Str) (h1 : compare (P ++ ra) kb = .lt)
    (h2 : compare kb (P ++ rc) = .lt) :
    ∃ rb, kb = P ++ rb ∧ compare ra rb = .lt ∧ compare rb rc = .lt := by
  induction P generalizing kb with
  | nil => exact ⟨kb, rfl, h1, h2⟩
  | cons k P ih =>
    cases kb with
    | nil => exact absurd rfl (compare_nil_of_lt h1)
    | cons k' kb' =>
      simp only [List.cons_append] at h1 h2
      rw [List.compare_cons_cons] at h1 h2
      have hsw := OrientedCmp.eq_swap (cmp := (compare : Str → Str → Ordering)) (a := k) (b := k')
      cases hk : compare k k' with
      | lt =>
        have : compare k' k = .gt := by
          rw [hk] at hsw
          generalize compare k' k = o at hsw
          cases o
          · exact absurd hsw (by decide)
          · exact absurd hsw (by decide)
          · rfl
        rw [this] at h2; cases h2
      | gt => rw [hk] at h1; cases h1
      | eq =>
        have e : k = k' := LawfulEqOrd.eq_of_compare hk
        subst e
        rw [hk] at h1
        have hkk : compare k k = .eq := ReflOrd.compare_self
        rw [hkk] at h2
        obtain ⟨rb, e, h3, h4⟩ := ih kb' h1 h2
        exact ⟨rb, by rw [e]; rfl, h3, h4⟩

/-- Inverse of `keysOf_append`. -/
theorem keysOf_eq_append {o p : Str} {rest ps rb : List Str}
    (h : keysOf o rest = (p :: ps).map (1 :: ·) ++ rb) (hrb : rb ≠ []) :
    ∃ x t, o :: rest = (p :: ps) ++ x :: t ∧ rb = keysOf x t := by
  induction ps generalizing o p rest with
  | nil =>
    cases rest with
    | nil =>
      cases rb with
      | nil => exact absurd rfl hrb
      | cons r rb => simp [keysOf] at h
    | cons r rest =>
      simp only [keysOf, List.map_cons, List.map_nil, List.cons_append, List.nil_append,
        List.cons.injEq] at h
      exact ⟨r, rest, by rw [h.1.2]; rfl, h.2.symm⟩
  | cons q ps ih =>
    cases rest with
    | nil => simp [keysOf] at h
    | cons r rest =>
      simp only [keysOf, List.map_cons, List.cons_append, List.cons.injEq] at h
      obtain ⟨x, t, e, hr⟩ := ih (o := r) (p := q) (rest := rest) (by simpa using h.2)
      exact ⟨x, t, by rw [h.1.2, e]; rfl, hr⟩

theorem compare_keysOf_good_root {x : Str} (t : List Str) (hx : x ≠ []) :
    compare (keysOf x t) (keysOf [] []) = .gt := by
  cases t with
  | nil =>
    simp only [keysOf]
    rw [List.compare_cons_cons, compare_cons_same]
    cases x with
    | nil => exact absurd rfl hx
    | cons a x => rw [List.compare_cons_nil]; rfl
  | cons y t =>
    simp only [keysOf]
    rw [List.compare_cons_cons, compare_one_zero]; rfl

/-- The strict descendants of a directory are an interval of the apath order. -/
theorem strict_descendants_convex_comps {cd : List Str} (hcd : GoodComps cd) {a b c : Str}
    (ha : isValid a = true) (hc : isValid c = true)
    (hda : StrictDesc (pathOf cd) a) (hdc : StrictDesc (pathOf cd) c)
    (hab : apathCmp a b = .lt) (hbc : apathCmp b c = .lt) :
    ∃ x t, splitSlash b = [] :: (cd ++ x :: t) ∧ StrictDesc (pathOf cd) b := by
  obtain ⟨xa, ta, hga, rfl⟩ := strictDesc_valid hcd ha hda
  obtain ⟨xc, tc, hgc, rfl⟩ := strictDesc_valid hcd hc hdc
  rw [apathCmp_eq_keys, keys_pathOf hga] at hab
  rw [apathCmp_eq_keys, keys_pathOf hgc] at hbc
  obtain ⟨rb, hkb, hrab, _⟩ := lex_convex _ _ _ _ hab hbc
  have hrb : rb ≠ [] := compare_nil_of_lt hrab
  -- the pieces of `b`
  unfold keys at hkb
  cases hs : splitSlash b with
  | nil => exact absurd hs (splitSlash_ne_nil b)
  | cons o rest =>
    rw [hs] at hkb
    simp only [dirKeys] at hkb
    obtain ⟨x, t, hsplit, hrbk⟩ := keysOf_eq_append (p := []) (ps := cd) (by simpa using hkb) hrb
    simp only [List.cons_append, List.cons.injEq] at hsplit
    obtain ⟨ho, hrest⟩ := hsplit
    subst ho hrest
    refine ⟨x, t, rfl, ?_⟩
    -- `b` begins with a slash
    cases b with
    | nil => simp [splitSlash] at hs
    | cons c0 b' =>
      rw [splitSlash] at hs
      split at hs
      · rename_i hc0
        subst hc0
        simp only [List.cons.injEq, true_and] at hs
        by_cases hb' : b' = []
        · -- b = "/": smaller than every strict descendant of the root
          subst hb'
          simp only [splitSlash] at hs
          have hcd0 : cd = [] := by
            cases cd with
            | nil => rfl
            | cons _ _ => simp at hs
          subst hcd0
          simp only [List.nil_append, List.cons.injEq] at hs
          obtain ⟨hx, ht⟩ := hs
          subst hx ht
          rw [hrbk] at hrab
          have hxa : xa ≠ [] := ((goodName_iff xa).1 (hga xa (by simp))).1
          rw [compare_keysOf_good_root ta hxa] at hrab
          cases hrab
        · have hcomp : components (slash :: b') = cd ++ x :: t := by
            rw [components_cons _ hb', hs]
          constructor
          · unfold isAncestorOrSelf
            rw [components_pathOf hcd, hcomp, List.isPrefixOf_iff_prefix]
            exact List.prefix_append _ _
          · intro e
            have := congrArg components e
            rw [components_pathOf hcd, hcomp] at this
            have := congrArg List.length this
            simp at this
      · cases hsb : splitSlash b' with
        | nil => exact absurd hsb (splitSlash_ne_nil b')
        | cons q qs => rw [hsb] at hs; simp at hs

end Conserve
