import ConserveModel.Props.C09
import ConserveModel.Props.C01a
/-
C09 (first sentence): why `C09.Produced` has to be restricted.  A fault-free, complete first backup
of a one-entry source whose entry `IndexEntry::check` rejects (a time jiff cannot represent, a path
that is not a valid apath) leaves an archive with a readable head on which `validate` reports
`invalidMetadata` (`bad_entry_reported`).  The run is described with C01a's `Final` (which does not
need the entry to be usable).  No property statements here.
-/
namespace Conserve.Rng
open Conserve Conserve.Inv Conserve.Exact Prog

variable {H : Str → Str}

theorem initArchive_storeOK (H : Str → Str) : StoreOK H C09.initArchive := StoreOK.of_checks (by rfl)

theorem initArchive_noBands : Inv.NoBands C09.initArchive := C04.Example.archive_noBands

theorem initArchive_good (H : Str → Str) (src : List SrcEntry) : ArchiveGood H src C09.initArchive :=
  ArchiveGood.of_noBands (initArchive_storeOK H) initArchive_noBands (by decide) src

theorem initArchive_archWF : ArchWF C09.initArchive := by decide +kernel

/-- **`bad_entry_reported`.**  Back up — fault-free, to completion, default options — the one-entry
source `[sf]`, `sf` a directory entry whose index entry `IndexEntry::check` rejects, into the empty
archive.  Every version directory of the result has a readable head, and `validate` (full and quick)
emits an event. -/
theorem bad_entry_reported (hlen : ∀ d, subdirNameChars ≤ (H d).length) (sf : SrcEntry) (hk : sf.kind = .dir)
    (hsz : sf.size < 18446744073709551616) (hbad : entryUsable (Inv.metaOf {} sf) = false) :
    AllHeadsReadable ((backup H {} [sf]).run (World.clean C09.initArchive)).2.store ∧
    ∀ quick, ((validate H quick).run (World.clean
      ((backup H {} [sf]).run (World.clean C09.initArchive)).2.store)).2.events ≠ [] := by
  have hg := initArchive_good H [sf]
  obtain ⟨hr1, hbasis, hl⟩ := backupPrelude_runs (o := {}) hlen hg
  obtain ⟨s', hs, evs, stats, hr2, _, _, hf⟩ :=
    backupMain_runs (o := {}) (src := [sf]) (by decide)
      (newBandOf C09.initArchive, blockNamesOf (withNewBand C09.initArchive), basisListing C09.initArchive) hl
      (by
        intro x hx
        simp only [List.mem_singleton] at hx
        subst hx
        exact ⟨(by rw [hk]; exact fun h => nomatch h), fun h => (by rw [hk] at h; cases h)⟩)
      hbasis (by simp) (by simpa [totalSize] using hsz)
  have hrun : RunsAt (backup H {} [sf]) C09.initArchive (.ok stats) s' evs := by
    rw [Inv.backup_eq]
    exact RunsAt.bind0 hr1 hr2
  obtain ⟨_, hstore, _⟩ := hrun.clean
  rw [hstore]
  have hnb : newBandOf C09.initArchive = 0 := C01a.newBandOf_noBands (initArchive_storeOK H) initArchive_noBands
  rw [hnb] at hf
  -- every recorded entry is `metaOf sf`, which is unusable
  have hall : ∀ x ∈ hs.flatten, entryUsable x = false := by
    intro x hx
    have h1 : strip x ∈ hs.flatten.map strip := List.mem_map.mpr ⟨x, hx, rfl⟩
    rw [hf.shape] at h1
    simp only [List.map_cons, List.map_nil, List.mem_singleton] at h1
    have hxk : x.kind ≠ .file := by
      have : x.kind = sf.kind := by
        have := congrArg IndexEntry.kind h1
        simpa [Inv.metaOf] using this
      rw [this, hk]; exact fun h => nomatch h
    have hxa : x.addrs = [] := hf.hsNonfile x hx hxk
    have : x = Inv.metaOf {} sf := by
      rw [← h1]
      cases x
      simp only [strip] at hxa ⊢
      simp_all
    rw [this]; exact hbad
  have hne : hs.flatten ≠ [] := by
    intro h0
    have := congrArg List.length hf.shape
    simp [h0] at this
  -- the listing side: nothing usable, so well-formed for listing
  have hown : ownEntries s' 0 = [] := by
    rw [List.eq_nil_iff_forall_not_mem]
    intro x hx
    unfold ownEntries at hx
    obtain ⟨es, hes, hxe⟩ := List.mem_flatten.mp hx
    obtain ⟨n, _, hn⟩ := List.mem_filterMap.mp hes
    simp only [usableHunk, hf.hunk] at hn
    cases hsn : hs[n]? with
    | none => simp [hsn] at hn
    | some es' =>
      simp only [hsn, Option.map_some] at hn
      split at hn
      · rename_i hu
        have hes' : es' = es := Option.some.inj hn
        subst hes'
        have hmem : x ∈ hs.flatten := List.mem_flatten.mpr ⟨es', List.mem_of_getElem? hsn, hxe⟩
        have := (List.all_eq_true.mp hu) x hxe
        rw [hall x hmem] at this
        cases this
      · cases hn
  have hwf : ArchWF s' := archWF_frame initArchive_archWF hf.st hf.frame (by rw [hown]; rfl)
  have hok : ArchOK s' := ⟨hwf, hf.st.root, hf.st.blockRoot⟩
  have hband : (0 : Nat) ∈ bandIdsOf s' := (Exact.mem_bandIdsOf hf.st).2 hf.bandDir
  constructor
  · -- heads
    intro b hb
    by_cases hb0 : b = 0
    · subst hb0; exact final_readable hf
    · have hdir := (Exact.mem_bandIdsOf hf.st).1 hb
      rw [hf.frame _ (by simp [newKey, Key.isUnder, Key.parent, isBlockish, hb0])] at hdir
      have := Store.mem_of_get?' hdir
      simp [C09.initArchive] at this
  · -- validate speaks
    intro quick
    rw [(C09.validate_spec H hok quick).2.2]
    -- a hunk with an unusable entry
    obtain ⟨x, hx⟩ := List.exists_mem_of_ne_nil _ hne
    obtain ⟨es, hes, hxe⟩ := List.mem_flatten.mp hx
    obtain ⟨n, hn, hget⟩ := List.getElem_of_mem hes
    have hnum : n ∈ hunkNumsOf s' 0 := by rw [final_hunkNums hf]; exact List.mem_range.mpr hn
    have hherr : hunkError s' 0 n = some .invalidMetadata := by
      have hnot : es.all entryUsable = false := by
        rw [List.all_eq_false]
        exact ⟨x, hxe, by rw [hall x hx]; simp⟩
      simp [hunkError, hf.hunk, List.getElem?_eq_getElem hn, hget, hnot]
    have hbe : Err.invalidMetadata ∈ bandErrors s' 0 := by
      simp only [bandErrors, final_readable hf, if_true, List.mem_append, List.mem_filterMap]
      exact Or.inr ⟨n, hnum, hherr⟩
    have hle : Err.invalidMetadata ∈ listErrors s' 0 := by
      unfold listErrors
      exact List.mem_append_left _ hbe
    have hhead : headError s' 0 = none := by simp [headError, hf.head]
    have hve : Err.invalidMetadata ∈ validateErrors H quick s' := by
      unfold validateErrors
      rw [List.mem_append]
      left
      rw [List.mem_flatMap]
      exact ⟨0, hband, by simp [bandValidateErrors, hhead, hle]⟩
    intro h0
    have : (validateErrors H quick s') = [] := by
      simpa using h0
    rw [this] at hve
    cases hve

end Conserve.Rng
