import ConserveModel.Proofs.WalkOrder
/-
Helper lemmas: pruning excluded directories during the walk = filtering the full walk, for an
exclusion predicate closed under descendants.
-/
namespace Conserve
open Std

theorem strictDesc_pathOf {cs : List Str} {x : Str} {t : List Str} (h : GoodComps (cs ++ x :: t)) :
    StrictDesc (pathOf cs) (pathOf (cs ++ x :: t)) := by
  constructor
  · unfold isAncestorOrSelf
    rw [components_pathOf h.left, components_pathOf h, List.isPrefixOf_iff_prefix]
    exact List.prefix_append _ _
  · intro e
    have := congrArg List.length (pathOf_injective h.left h e)
    simp at this

theorem live_none (ap : Str) (f : Forest) : live (fun _ => false) ap f = f.toList := by
  simp [live]

theorem filter_comm' {α : Type} (p q : α → Bool) (l : List α) :
    (l.filter p).filter q = (l.filter q).filter p := by
  rw [List.filter_filter, List.filter_filter]
  congr 1; funext a; exact Bool.and_comm _ _

private theorem flatMap_filter_aux {α β : Type} (P : α → Bool) (q : β → Bool) (g g₀ : α → List β)
    (S : List α)
    (h : ∀ p ∈ S, (P p = true → g p = (g₀ p).filter q) ∧ (P p = false → (g₀ p).filter q = [])) :
    (S.filter P).flatMap g = (S.flatMap g₀).filter q := by
  induction S with
  | nil => rfl
  | cons s S ih =>
    have hs := h s List.mem_cons_self
    have ih := ih (fun p hp => h p (List.mem_cons_of_mem _ hp))
    rw [List.filter_cons, List.flatMap_cons, List.filter_append]
    cases hP : P s
    · simp only [Bool.false_eq_true, if_false]
      rw [hs.2 hP, ih, List.nil_append]
    · simp only [if_true]
      rw [List.flatMap_cons, hs.1 hP, ih]

/-- Pruning at walk time = filtering every entry, below a well-formed directory. -/
theorem walkBelow_prune (excl : Str → Bool)
    (hcl : ∀ a p, isValid a = true → isValid p = true → excl a = true → StrictDesc a p →
      excl p = true) (f : Forest) :
    ∀ cs, GoodComps cs → f.WF = true →
      f.walkBelow excl (pathOf cs) =
        (f.walkBelow (fun _ => false) (pathOf cs)).filter (fun e => !excl e.apath) := by
  induction f using Forest.kids_induction with
  | h f ih =>
    intro cs hcs hwf
    have F := listingFacts excl hcs hwf
    rw [Forest.walkBelow_eq excl, Forest.walkBelow_eq (fun _ => false), live_none,
      List.filter_append]
    congr 1
    · rw [List.filter_map, filter_sortBy nameLe_totalPreorder]
      congr 2
      unfold live
      congr 1
      funext p
      simp [Node.entry_apath]
    · have hlive : (live excl (pathOf cs) f).filter (·.2.isDir) =
          (f.toList.filter (·.2.isDir)).filter (fun p => !excl (apathAppend (pathOf cs) p.1)) := by
        unfold live; rw [filter_comm']
      rw [hlive, ← filter_sortBy (childApLe_totalPreorder _)]
      apply flatMap_filter_aux
      intro p hp
      have hp : p ∈ f.toList := (List.mem_filter.1 (mem_sortBy.1 hp)).1
      have hg : GoodComps (cs ++ [p.1]) := hcs.append (GoodComps.single (F.good p hp))
      rw [F.append p hp]
      constructor
      · intro _
        exact ih p hp (cs ++ [p.1]) hg (F.wfKids p hp)
      · intro hP
        have hex : excl (pathOf (cs ++ [p.1])) = true := by simpa using hP
        rw [List.filter_eq_nil_iff]
        intro e he
        obtain ⟨x, t, hxt, hea⟩ :=
          (walkBelow_sorted (fun _ => false) p.2.kids (cs ++ [p.1]) hg (F.wfKids p hp)).2 e he
        have hgood : GoodComps ((cs ++ [p.1]) ++ x :: t) := hg.append hxt
        have := hcl _ _ (pathOf_valid hg) (pathOf_valid hgood) hex (strictDesc_pathOf hgood)
        rw [hea, this]
        simp

end Conserve
