import ConserveModel.Proofs.NoPanicRestore
import ConserveModel.Proofs.StitchRun
import ConserveModel.Props.C08
/-
`restore()` in a quiet world (no faults, not crashed) as a pure function of the store, and how
its nodes and `restoreFileBlock` reports relate to `readBack` (Invariants.lean).  This is the
restore-level half of the containment statement of C10.  No property statements here.
-/
namespace Conserve.NP
open Conserve Prog

section
variable (H : Str → Str)

/-- `BlockDir::get_block_content` on a store. -/
def blockReadP (s : Store) (h : Str) : Except Err Str :=
  match quietResp s (.read (.block h)) with
  | .err e => .error (.transport e)
  | .val (.blockData c) => if H c = h then .ok c else .error (.blockCorrupt h)
  | .val _ => .error .json
  | _ => .error (.transport .other)

theorem run_getBlockContent {s : Store} {evs : List Event} {w : World} (hq : Quiet s evs w) (h : Str) :
    ∃ w', (getBlockContent H h).run w = (.ok (blockReadP H s h), w') ∧ Quiet s evs w' := by
  obtain ⟨w', he, hq'⟩ := hq.exec_ro (.read (.block h)) rfl
  refine ⟨w', ?_, hq'⟩
  simp only [getBlockContent, perform, Prog.bind_def, Prog.op_bind, Prog.ret_bind, Prog.run_op, he, blockReadP]
  generalize quietResp s (Op.read (Key.block h)) = r
  cases r with
  | val v =>
    cases v with
    | blockData c => by_cases hc : H c = h <;> simp [hc]
    | _ => rfl
  | _ => rfl

/-- `BlockDir::read_address` on a store. -/
def readAddressP (s : Store) (a : Addr) : Except Err Str :=
  match blockReadP H s a.hash with
  | .error e => .error e
  | .ok c =>
    if a.start + a.len > c.length then .error (.blockTooShort a.hash)
    else .ok ((c.drop a.start).take a.len)

theorem run_readAddress {s : Store} {evs : List Event} {w : World} (hq : Quiet s evs w) (a : Addr) :
    ∃ w', (readAddress H a).run w = (.ok (readAddressP H s a), w') ∧ Quiet s evs w' := by
  obtain ⟨w', hr, hq'⟩ := run_getBlockContent H hq a.hash
  refine ⟨w', ?_, hq'⟩
  simp only [readAddress, Prog.bind_def, Prog.run_bind, hr, readAddressP]
  split <;> (try split) <;> simp_all

/-- `readContent` on a store. -/
def readContentP (s : Store) : List Addr → Str → Str × Option (Str × Err)
  | [], acc => (acc, none)
  | a :: as, acc =>
    match readAddressP H s a with
    | .error e => (acc, some (a.hash, e))
    | .ok bytes => readContentP s as (acc ++ bytes)

theorem run_readContent {s : Store} {evs : List Event} (as : List Addr) :
    ∀ (acc : Str) {w : World}, Quiet s evs w →
      ∃ w', (readContent H as acc).run w = (.ok (readContentP H s as acc), w') ∧ Quiet s evs w' := by
  induction as with
  | nil => intro acc w hq; exact ⟨w, rfl, hq⟩
  | cons a as ih =>
    intro acc w hq
    obtain ⟨w1, h1, q1⟩ := run_readAddress H hq a
    simp only [readContent, Prog.bind_def, Prog.run_bind, h1, readContentP]
    cases hr : readAddressP H s a with
    | error e => exact ⟨w1, rfl, q1⟩
    | ok bytes => exact ih _ q1

/-! ### Reading content back, the two ways -/

theorem readAddressP_eq (s : Store) (a : Addr) :
    (readAddressP H s a).toOption = readAddrPure H s a := by
  unfold readAddressP blockReadP readAddrPure blockContent sliceOf quietResp
  cases hg : s.get? (.block a.hash) with
  | none => simp [Except.toOption, hg]
  | some v =>
    cases v with
    | blockData c =>
      by_cases hh : H c = a.hash
      · by_cases hl : a.start + a.len ≤ c.length
        · have : ¬ c.length < a.start + a.len := by omega
          simp [Except.toOption, hg, hh, hl, this]
        · have : c.length < a.start + a.len := by omega
          simp [Except.toOption, hg, hh, hl, this]
      · simp [Except.toOption, hg, hh]
    | _ => simp [Except.toOption, hg]

theorem readContentP_some {s : Store} (as : List Addr) (acc : Str) {c : Str}
    (h : readBack H s as = some c) : readContentP H s as acc = (acc ++ c, none) := by
  induction as generalizing acc c with
  | nil => simp [readBack] at h; subst h; simp [readContentP]
  | cons a as ih =>
    simp only [readBack] at h
    have ha := readAddressP_eq H s a
    cases hx : readAddrPure H s a with
    | none => simp [hx] at h
    | some x =>
      cases hy : readBack H s as with
      | none => simp [hx, hy] at h
      | some y =>
        simp only [hx, hy, Option.some.injEq] at h
        subst h
        rw [hx] at ha
        cases hr : readAddressP H s a with
        | error e => simp [hr, Except.toOption] at ha
        | ok bytes =>
          simp only [hr, Except.toOption, Option.some.injEq] at ha
          subst ha
          simp only [readContentP, hr, ih _ hy, List.append_assoc]

theorem readContentP_none {s : Store} (as : List Addr) (acc : Str)
    (h : readBack H s as = none) : ∃ part hh e, readContentP H s as acc = (part, some (hh, e)) := by
  induction as generalizing acc with
  | nil => simp [readBack] at h
  | cons a as ih =>
    have ha := readAddressP_eq H s a
    cases hr : readAddressP H s a with
    | error e => exact ⟨acc, a.hash, e, by simp [readContentP, hr]⟩
    | ok bytes =>
      simp only [hr, Except.toOption] at ha
      simp only [readBack, ← ha] at h
      cases hy : readBack H s as with
      | none =>
        obtain ⟨part, hh, e, hp⟩ := ih (acc ++ bytes) hy
        exact ⟨part, hh, e, by simp [readContentP, hr, hp]⟩
      | some y => simp [hy] at h

/-! ### The per-entry loop -/

/-- `p` is a proper ancestor-by-prefix of `a`, and not the root. -/
def strictlyBelow (p a : Str) : Bool := p != [slash] && p != a && isPrefixOfImpl p a

theorem belowSymlink_eq (syms : List Str) (a : Str) :
    belowSymlink syms a = syms.any (fun p => strictlyBelow p a) := rfl

/-- `restoreEntries` on a store (for entries that pass `IndexEntry::check`): the nodes, and the
errors reported, in order. -/
def restoreP (s : Store) : List Str → List IndexEntry → List RNode × List Err
  | _, [] => ([], [])
  | syms, e :: es =>
    if belowSymlink syms e.apath then
      ((restoreP s syms es).1, .invalidMetadata :: (restoreP s syms es).2)
    else
    match e.kind with
    | .dir => (RNode.ofEntry e :: (restoreP s syms es).1, (restoreP s syms es).2)
    | .file =>
      match readContentP H s e.addrs [] with
      | (bytes, some (h, _)) =>
        ({ RNode.ofEntry e with content := bytes, complete := false } :: (restoreP s syms es).1,
         .restoreFileBlock e.apath h :: (restoreP s syms es).2)
      | (bytes, none) =>
        ({ RNode.ofEntry e with content := bytes } :: (restoreP s syms es).1, (restoreP s syms es).2)
    | .symlink =>
      match e.target with
      | none => ((restoreP s syms es).1, .invalidMetadata :: (restoreP s syms es).2)
      | some _ => (RNode.ofEntry e :: (restoreP s (e.apath :: syms) es).1, (restoreP s (e.apath :: syms) es).2)
    | .unknown => ((restoreP s syms es).1, .invalidMetadata :: (restoreP s syms es).2)

theorem run_restoreEntries {s : Store} (es : List IndexEntry) (hes : AllUsable es) :
    ∀ (syms : List Str) {evs : List Event} {w : World}, Quiet s evs w →
      ∃ w', (restoreEntries H syms es).run w = (.ok (restoreP H s syms es).1, w') ∧
        Quiet s (evsOf (restoreP H s syms es).2 ++ evs) w' := by
  induction es with
  | nil => intro syms evs w hq; exact ⟨w, rfl, by simpa [restoreP, evsOf] using hq⟩
  | cons e es ih =>
    intro syms evs w hq
    have hes' : AllUsable es := hes.sub fun x hx => List.mem_cons_of_mem _ hx
    obtain ⟨t, ht⟩ := usable_time (hes e (List.mem_cons_self ..))
    have ih' := ih hes'
    unfold restoreEntries restoreP
    simp only [Prog.bind_def, Prog.pure_def, logError, ht]
    by_cases hb : belowSymlink syms e.apath = true
    · obtain ⟨w', hr, hq'⟩ := ih' syms (hq.emit (.error .invalidMetadata))
      refine ⟨w', by simp [hb, hr], ?_⟩
      simpa [hb, evsOf_cons] using hq'
    · simp only [hb, Bool.false_eq_true, if_false]
      cases hk : e.kind with
      | dir =>
        obtain ⟨w', hr, hq'⟩ := ih' syms hq
        exact ⟨w', by simp [Prog.run_bind, hr], by simpa using hq'⟩
      | file =>
        obtain ⟨w1, h1, q1⟩ := run_readContent H e.addrs [] hq
        simp only [Prog.run_bind, h1]
        rcases hc : readContentP H s e.addrs [] with ⟨bytes, bad⟩
        cases bad with
        | some hb' =>
          obtain ⟨h, er⟩ := hb'
          obtain ⟨w', hr, hq'⟩ := ih' syms (q1.emit (.error (.restoreFileBlock e.apath h)))
          refine ⟨w', by simp [Prog.run_bind, hr], ?_⟩
          simpa [evsOf_cons] using hq'
        | none =>
          obtain ⟨w', hr, hq'⟩ := ih' syms q1
          exact ⟨w', by simp [Prog.run_bind, hr], by simpa using hq'⟩
      | symlink =>
        cases htg : e.target with
        | none =>
          obtain ⟨w', hr, hq'⟩ := ih' syms (hq.emit (.error .invalidMetadata))
          refine ⟨w', by simp [hr], ?_⟩
          simpa [evsOf_cons] using hq'
        | some tg =>
          obtain ⟨w', hr, hq'⟩ := ih' (e.apath :: syms) hq
          exact ⟨w', by simp [Prog.run_bind, hr], by simpa using hq'⟩
      | unknown =>
        obtain ⟨w', hr, hq'⟩ := ih' syms (hq.emit (.error .invalidMetadata))
        refine ⟨w', by simp [hr], ?_⟩
        simpa [evsOf_cons] using hq'

/-! ### What the nodes and reports say about each file -/

/-- No entry of the list lies strictly below a symlink restored so far, or below a symlink entry of
the list itself.  (True of every listing written by a backup of a real tree: nothing can be walked
below a symlink.) -/
def NoSymlinkAbove (syms : List Str) (es : List IndexEntry) : Prop :=
  (∀ p ∈ syms, ∀ y ∈ es, strictlyBelow p y.apath = false) ∧
  (∀ x ∈ es, x.kind = .symlink → ∀ y ∈ es, strictlyBelow x.apath y.apath = false)

theorem NoSymlinkAbove.head {syms : List Str} {x : IndexEntry} {es : List IndexEntry}
    (h : NoSymlinkAbove syms (x :: es)) : belowSymlink syms x.apath = false := by
  rw [belowSymlink_eq]
  cases hb : syms.any (fun p => strictlyBelow p x.apath) with
  | false => rfl
  | true =>
    obtain ⟨p, hp, hpb⟩ := List.any_eq_true.mp hb
    rw [h.1 p hp x (List.mem_cons_self ..)] at hpb
    cases hpb

theorem NoSymlinkAbove.tail {syms : List Str} {x : IndexEntry} {es : List IndexEntry}
    (h : NoSymlinkAbove syms (x :: es)) : NoSymlinkAbove syms es :=
  ⟨fun p hp y hy => h.1 p hp y (List.mem_cons_of_mem _ hy),
   fun a ha hk y hy => h.2 a (List.mem_cons_of_mem _ ha) hk y (List.mem_cons_of_mem _ hy)⟩

theorem NoSymlinkAbove.push {syms : List Str} {x : IndexEntry} {es : List IndexEntry}
    (h : NoSymlinkAbove syms (x :: es)) (hk : x.kind = .symlink) : NoSymlinkAbove (x.apath :: syms) es := by
  refine ⟨fun p hp y hy => ?_, h.tail.2⟩
  rcases List.mem_cons.mp hp with rfl | hp
  · exact h.2 x (List.mem_cons_self ..) hk y (List.mem_cons_of_mem _ hy)
  · exact h.1 p hp y (List.mem_cons_of_mem _ hy)

/-- What `restore` does with a file entry of the list: if its content reads back, a complete node
with exactly that content; if not, an incomplete node AND a `restoreFileBlock` report naming it. -/
theorem restoreP_file {s : Store} {syms : List Str} {es : List IndexEntry} (hn : NoSymlinkAbove syms es)
    {e : IndexEntry} (he : e ∈ es) (hk : e.kind = .file) :
    (∀ c, readBack H s e.addrs = some c →
      { RNode.ofEntry e with content := c } ∈ (restoreP H s syms es).1) ∧
    (readBack H s e.addrs = none → ∃ bytes h,
      { RNode.ofEntry e with content := bytes, complete := false } ∈ (restoreP H s syms es).1 ∧
      Err.restoreFileBlock e.apath h ∈ (restoreP H s syms es).2) := by
  induction es generalizing syms with
  | nil => cases he
  | cons x es ih =>
    have hb := hn.head
    unfold restoreP
    simp only [hb, Bool.false_eq_true, if_false]
    rcases List.mem_cons.mp he with rfl | he'
    · -- the entry itself
      simp only [hk]
      constructor
      · intro c hc
        have := readContentP_some H e.addrs [] hc
        simp only [List.nil_append] at this
        simp [this]
      · intro hnone
        obtain ⟨part, h, er, hp⟩ := readContentP_none H e.addrs [] hnone
        exact ⟨part, h, by simp [hp]⟩
    · -- an entry further on
      have ihs := ih hn.tail he'
      cases hx : x.kind with
      | dir =>
        simp only
        exact ⟨fun c hc => List.mem_cons_of_mem _ (ihs.1 c hc),
          fun hnone => by
            obtain ⟨bytes, h, h1, h2⟩ := ihs.2 hnone
            exact ⟨bytes, h, List.mem_cons_of_mem _ h1, h2⟩⟩
      | file =>
        simp only
        rcases hc : readContentP H s x.addrs [] with ⟨bytes0, bad⟩
        cases bad with
        | some hb' =>
          obtain ⟨h0, er0⟩ := hb'
          simp only
          exact ⟨fun c hc => List.mem_cons_of_mem _ (ihs.1 c hc),
            fun hnone => by
              obtain ⟨bytes, h, h1, h2⟩ := ihs.2 hnone
              exact ⟨bytes, h, List.mem_cons_of_mem _ h1, List.mem_cons_of_mem _ h2⟩⟩
        | none =>
          simp only
          exact ⟨fun c hc => List.mem_cons_of_mem _ (ihs.1 c hc),
            fun hnone => by
              obtain ⟨bytes, h, h1, h2⟩ := ihs.2 hnone
              exact ⟨bytes, h, List.mem_cons_of_mem _ h1, h2⟩⟩
      | symlink =>
        simp only
        cases htg : x.target with
        | none =>
          simp only
          exact ⟨fun c hc => ihs.1 c hc,
            fun hnone => by
              obtain ⟨bytes, h, h1, h2⟩ := ihs.2 hnone
              exact ⟨bytes, h, h1, List.mem_cons_of_mem _ h2⟩⟩
        | some tg =>
          simp only
          have ihp := ih (hn.push hx) he'
          exact ⟨fun c hc => List.mem_cons_of_mem _ (ihp.1 c hc),
            fun hnone => by
              obtain ⟨bytes, h, h1, h2⟩ := ihp.2 hnone
              exact ⟨bytes, h, List.mem_cons_of_mem _ h1, h2⟩⟩
      | unknown =>
        simp only
        exact ⟨fun c hc => ihs.1 c hc,
          fun hnone => by
            obtain ⟨bytes, h, h1, h2⟩ := ihs.2 hnone
            exact ⟨bytes, h, h1, List.mem_cons_of_mem _ h2⟩⟩

/-! ### `restore` of a specified version in the fault-free world -/

theorem quiet_listBlocks_go {s : Store} {evs : List Event} (ps : List Str) :
    ∀ (acc : List Str) {w : World}, Quiet s evs w → Quiet s evs ((listBlocks.go ps acc).run w).2 := by
  induction ps with
  | nil => intro acc w hq; exact hq
  | cons p ps ih =>
    intro acc w hq
    unfold listBlocks.go
    simp only [Prog.bind_def, perform, Prog.op_bind, Prog.ret_bind]
    obtain ⟨w', he, hq'⟩ := hq.exec_ro (.listDir (.blockDir p)) rfl
    rw [Prog.run_op, he]
    generalize quietResp s (.listDir (.blockDir p)) = r
    cases r with
    | listing ys => exact ih _ hq'
    | _ => exact hq'

theorem quiet_listBlocks {s : Store} {evs : List Event} {w : World} (hq : Quiet s evs w) :
    Quiet s evs (listBlocks.run w).2 := by
  unfold listBlocks
  simp only [Prog.bind_def, perform, Prog.op_bind, Prog.ret_bind]
  obtain ⟨w', he, hq'⟩ := hq.exec_ro (.listDir .blockRoot) rfl
  rw [Prog.run_op, he]
  generalize quietResp s (.listDir .blockRoot) = r
  cases r with
  | listing xs => exact quiet_listBlocks_go _ _ hq'
  | _ => exact hq'

theorem listSpec_allUsable (s : Store) (n : Nat) : AllUsable (listSpec s n) := by
  intro e he
  obtain ⟨b, k, es, _, hu, hee⟩ := C08.listed_is_stored he
  exact (List.all_eq_true.mp hu) e hee

/-- `restore(archive, Specified(b), subtree, exclude)` on a well-formed store in the fault-free
world: if it returns, its nodes are `restoreP` of the filtered rule listing, nothing is written,
and the events are the listing's errors followed by restore's own reports. -/
theorem run_restore_specified {s : Store} (wf : ArchWF s) (b : Nat) (subtree : Str) (excl : Str → Bool)
    {nodes : List RNode} {w' : World}
    (h : (restore H (.specified b) subtree excl).run (World.clean s) = (.ok nodes, w')) :
    nodes = (restoreP H s [] ((listSpec s b).filter fun e => isPrefixOfImpl subtree e.apath && !excl e.apath)).1 ∧
    w'.store = s ∧
    w'.events = evsOf (listErrors s b ++
      (restoreP H s [] ((listSpec s b).filter fun e => isPrefixOfImpl subtree e.apath && !excl e.apath)).2) := by
  obtain ⟨w1, h1, q1⟩ := run_bandOpen (Quiet.clean s) b
  have q2 := quiet_listBlocks q1
  simp only [restore, resolveBandId, Prog.bind_def, Prog.pure_def, Prog.ret_bind, Prog.run_bind, h1] at h
  cases hb : bandOpenP s b with
  | error e => simp [hb, toOutcome] at h
  | ok u =>
    simp only [hb, toOutcome] at h
    rcases hl : listBlocks.run w1 with ⟨out, w2⟩
    rw [hl] at h q2
    cases out with
    | err e => simp at h
    | panic m => simp at h
    | ok blocks =>
      simp only at h q2
      obtain ⟨w3, h3, q3⟩ := run_stitchAll b q2
      rw [stitchAllP_fst wf] at h3
      rw [stitchAllP_snd wf] at q3
      simp only [listEntries, Prog.bind_def, Prog.run_bind, h3] at h
      rw [run_filterEntries subtree excl (listSpec s b) w3 (fun e he _ => C08.listed_valid he)] at h
      have hu : AllUsable ((listSpec s b).filter fun e => isPrefixOfImpl subtree e.apath && !excl e.apath) :=
        (listSpec_allUsable s b).sub fun e he => (List.mem_filter.mp he).1
      obtain ⟨w4, h4, q4⟩ := run_restoreEntries H _ hu [] q3
      simp only [h4, Prod.mk.injEq, Outcome.ok.injEq] at h
      obtain ⟨rfl, rfl⟩ := h
      refine ⟨rfl, q4.store, ?_⟩
      rw [q4.events, evsOf_append]
      simp

end
end Conserve.NP
