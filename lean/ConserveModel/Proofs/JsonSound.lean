import ConserveModel.Proofs.JsonStruct
/-
Helper lemmas for Props/C13j.lean: whatever the parser accepts is a value the Rust types can hold
(`wfEntry`), on ARBITRARY input.
-/
namespace Conserve.Json
open Conserve

theorem parseStrBody_valid {f : Nat} {s v r : Str} (h : parseStrBody f s = some (v, r)) : validUtf8 v = true := by
  unfold parseStrBody at h
  split at h
  · cases h
  · split at h
    · cases h; assumption
    · cases h

theorem parseStr_valid {f : Nat} {s v r : Str} (h : parseStr f s = some (v, r)) : validUtf8 v = true := by
  unfold parseStr at h
  split at h
  · cases h
  · split at h
    · exact parseStrBody_valid h
    · cases h

theorem parseOptStr_valid {f : Nat} {s r : Str} {v : Option Str} (h : parseOptStr f s = some (v, r)) :
    wfOptStr v = true := by
  unfold parseOptStr at h
  split at h
  · cases h
  · split at h
    · simp at h
      obtain ⟨_, rfl⟩ := h; rfl
    · split at h
      · simp at h
        obtain ⟨a, ha, rfl⟩ := h
        exact parseStrBody_valid ha
      · cases h

theorem parseUnsigned_lt {bound : Nat} {s r : Str} {v : Nat} (h : parseUnsigned bound s = some (v, r)) : v < bound := by
  unfold parseUnsigned at h
  split at h
  · cases h
  · split at h
    · cases h; assumption
    · cases h

theorem parseI64_range {s r : Str} {v : Int} (h : parseI64 s = some (v, r)) :
    -9223372036854775808 ≤ v ∧ v < 9223372036854775808 := by
  unfold parseI64 at h
  split at h
  · cases h
  · split at h
    · split at h
      · cases h
      · split at h
        · cases h
        · cases h; omega
    · split at h
      · cases h
      · split at h
        · cases h; omega
        · cases h

theorem parseOptU32_wf {s r : Str} {v : Option Nat} (h : parseOptU32 s = some (v, r)) : wfOptU32 v = true := by
  unfold parseOptU32 at h
  split at h
  · cases h
  · split at h
    · simp at h
      obtain ⟨_, rfl⟩ := h; rfl
    · simp at h
      obtain ⟨a, ha, rfl⟩ := h
      simp [wfOptU32, u32Bound, parseUnsigned_lt ha]

theorem isLowerHex_toLowerHex {c : Nat} (h : isHex c = true) : isLowerHex (toLowerHex c) = true := by
  simp [isHex, isLowerHex] at h
  unfold toLowerHex
  split
  · simp [isLowerHex]; omega
  · simp [isLowerHex]; omega

theorem parseHash_wf {s h r : Str} (hp : parseHash s = some (h, r)) : wfHash h = true := by
  unfold parseHash at hp
  split at hp
  · split at hp
    · cases hp
    · split at hp
      · rename_i h0 r' _ hcond
        cases hp
        simp only [wfHash, List.length_map, hcond.1, beq_self_eq_true, Bool.true_and]
        rw [List.all_eq_true] at hcond ⊢
        intro c hc
        obtain ⟨c0, hc0, rfl⟩ := List.mem_map.mp hc
        exact isLowerHex_toLowerHex (hcond.2 c0 hc0)
      · cases hp
  · cases hp

/-- Invariant of the member loop: a property of the state that every member preserves holds at the end. -/
theorem parseMembersF_inv {σ : Type} (field : Nat → σ → Str → Str → Option (σ × Str)) (P : σ → Prop)
    (hfield : ∀ f acc k s acc' r, P acc → field f acc k s = some (acc', r) → P acc') :
    ∀ (F : Nat) (first : Bool) (acc : σ) (s : Str) (acc' : σ) (r : Str),
      P acc → parseMembersF field F first acc s = some (acc', r) → P acc' := by
  intro F
  induction F with
  | zero => intro first acc s acc' r _ h; simp [parseMembersF] at h
  | succ f ih =>
    intro first acc s acc' r hP h
    simp only [parseMembersF] at h
    split at h
    · cases h
    · split at h
      · cases h; exact hP
      · split at h
        · cases h
        · split at h
          · cases h
          · split at h
            · split at h
              · cases h
              · rename_i hfld
                exact ih _ _ _ _ _ (hfield _ _ _ _ _ _ hP hfld) h
            · cases h

/-- Every element of a parsed array satisfies what the element parser guarantees. -/
theorem parseSeqF_all {α : Type} (elem : Nat → Str → Option (α × Str)) (Q : α → Prop)
    (helem : ∀ f s x r, elem f s = some (x, r) → Q x) :
    ∀ (F : Nat) (first : Bool) (s : Str) (xs : List α) (r : Str),
      parseSeqF elem F first s = some (xs, r) → ∀ x ∈ xs, Q x := by
  intro F
  induction F with
  | zero => intro first s xs r h; simp [parseSeqF] at h
  | succ f ih =>
    intro first s xs r h
    simp only [parseSeqF] at h
    split at h
    · cases h
    · split at h
      · cases h; simp
      · split at h
        · split at h
          · cases h
          · rename_i he
            split at h
            · cases h
            · rename_i hrec
              cases h
              intro y hy
              rcases List.mem_cons.mp hy with rfl | hy
              · exact helem _ _ _ _ he
              · exact ih _ _ _ _ hrec y hy
        · split at h
          · split at h
            · cases h
            · split at h
              · cases h
              · split at h
                · cases h
                · rename_i he
                  split at h
                  · cases h
                  · rename_i hrec
                    cases h
                    intro y hy
                    rcases List.mem_cons.mp hy with rfl | hy
                    · exact helem _ _ _ _ he
                    · exact ih _ _ _ _ hrec y hy
          · cases h

theorem parseArray_all {α : Type} (elem : Nat → Str → Option (α × Str)) (Q : α → Prop)
    (helem : ∀ f s x r, elem f s = some (x, r) → Q x) {F : Nat} {s r : Str} {xs : List α}
    (h : parseArray elem F s = some (xs, r)) : ∀ x ∈ xs, Q x := by
  unfold parseArray at h
  split at h
  · exact parseSeqF_all elem Q helem _ _ _ _ _ h
  · cases h

/-- The accumulated address members are in range. -/
def AddrAccWf (acc : AddrAcc) : Prop :=
  (∀ h, acc.hash = some h → wfHash h = true) ∧ (∀ n, acc.start = some n → n < u64Bound) ∧
  (∀ n, acc.len = some n → n < u64Bound)

theorem AddrAccWf_init : AddrAccWf {} := by
  refine ⟨?_, ?_, ?_⟩ <;> intro x hx <;> cases hx

set_option hygiene false in
/-- `h : Option.map (fun (v, r) => (upd v, r)) t = some (acc', r)`: split `t`, leaving the `some` case
with `hp : t = some (v, r)` and `acc'` replaced. -/
local macro "field_case " t:term : tactic => `(tactic| (
  rcases hp : $t with _ | ⟨v, r'⟩
  · rw [hp] at h; cases h
  rw [hp] at h
  simp only [Option.map_some] at h
  cases h))

theorem addrField_wf (f : Nat) (acc : AddrAcc) (k s : Str) (acc' : AddrAcc) (r : Str)
    (hacc : AddrAccWf acc) (h : addrField f acc k s = some (acc', r)) : AddrAccWf acc' := by
  obtain ⟨h1, h2, h3⟩ := hacc
  unfold addrField at h
  split at h
  · split at h
    · cases h
    · field_case (parseHash s)
      exact ⟨by intro x hx; cases hx; exact parseHash_wf hp, h2, h3⟩
  · split at h
    · split at h
      · cases h
      · field_case (parseUnsigned u64Bound s)
        exact ⟨h1, by intro x hx; cases hx; exact parseUnsigned_lt hp, h3⟩
    · split at h
      · split at h
        · cases h
        · field_case (parseUnsigned u64Bound s)
          exact ⟨h1, h2, by intro x hx; cases hx; exact parseUnsigned_lt hp⟩
      · cases hp : skipLenient f s with
        | none => rw [hp] at h; cases h
        | some r' =>
          rw [hp] at h
          simp only [Option.map_some] at h
          cases h
          exact ⟨h1, h2, h3⟩

theorem parseAddr_wf {f : Nat} {s r : Str} {a : Addr} (h : parseAddr f s = some (a, r)) : wfAddr a = true := by
  unfold parseAddr at h
  split at h
  · -- object form
    split at h
    · cases h
    · rename_i acc r' hm
      have hwf : AddrAccWf acc :=
        parseMembersF_inv addrField AddrAccWf addrField_wf _ _ _ _ _ _ AddrAccWf_init hm
      cases hfin : acc.finish with
      | none => rw [hfin] at h; cases h
      | some a' =>
        rw [hfin] at h
        simp only [Option.map_some] at h
        cases h
        unfold AddrAcc.finish at hfin
        split at hfin
        · rename_i hh l hhash hlen
          cases hfin
          obtain ⟨h1, h2, h3⟩ := hwf
          have hs : acc.start.getD 0 < u64Bound := by
            cases hst : acc.start with
            | none => simp [u64Bound]
            | some n => simpa using h2 n hst
          simp [wfAddr, h1 _ hhash, h3 _ hlen, hs]
        · cases hfin
  · -- tuple form
    unfold parseAddrTuple at h
    split at h
    · cases h
    · rename_i hh r1 hhash
      split at h
      · split at h
        · cases h
        · rename_i st r3 hst
          split at h
          · split at h
            · cases h
            · rename_i l r5 hl
              split at h
              · cases h
                simp [wfAddr, parseHash_wf hhash, parseUnsigned_lt hst, parseUnsigned_lt hl]
              · cases h
          · cases h
      · cases h
  · cases h

/-- The accumulated entry members are values the Rust types can hold. -/
def EntryAccWf (acc : EntryAcc) : Prop :=
  (∀ v, acc.apath = some v → validUtf8 v = true) ∧
  (∀ v, acc.mtime = some v → -9223372036854775808 ≤ v ∧ v < 9223372036854775808) ∧
  (∀ v, acc.unixMode = some v → wfOptU32 v = true) ∧
  (∀ v, acc.user = some v → wfOptStr v = true) ∧
  (∀ v, acc.group = some v → wfOptStr v = true) ∧
  (∀ v, acc.mtimeNanos = some v → v < u32Bound) ∧
  (∀ v, acc.addrs = some v → v.all wfAddr = true) ∧
  (∀ v, acc.target = some v → wfOptStr v = true)

theorem EntryAccWf_init : EntryAccWf {} := by
  refine ⟨?_, ?_, ?_, ?_, ?_, ?_, ?_, ?_⟩ <;> intro x hx <;> cases hx

theorem entryField_wf (f : Nat) (acc : EntryAcc) (k s : Str) (acc' : EntryAcc) (r : Str)
    (hacc : EntryAccWf acc) (h : entryField f acc k s = some (acc', r)) : EntryAccWf acc' := by
  obtain ⟨h1, h2, h3, h4, h5, h6, h7, h8⟩ := hacc
  unfold entryField at h
  by_cases hk : k = kApath
  · rw [if_pos hk] at h
    by_cases hs : acc.apath.isSome = true
    · rw [if_pos hs] at h; cases h
    · rw [if_neg hs] at h
      field_case (parseStr f s)
      exact ⟨by intro x hx; cases hx; exact parseStr_valid hp, h2, h3, h4, h5, h6, h7, h8⟩
  rw [if_neg hk] at h
  clear hk
  by_cases hk : k = kKind
  · rw [if_pos hk] at h
    by_cases hs : acc.kind.isSome = true
    · rw [if_pos hs] at h; cases h
    · rw [if_neg hs] at h
      field_case (parseKind f s)
      exact ⟨h1, h2, h3, h4, h5, h6, h7, h8⟩
  rw [if_neg hk] at h
  clear hk
  by_cases hk : k = kMtime
  · rw [if_pos hk] at h
    by_cases hs : acc.mtime.isSome = true
    · rw [if_pos hs] at h; cases h
    · rw [if_neg hs] at h
      field_case (parseI64 s)
      exact ⟨h1, by intro x hx; cases hx; exact parseI64_range hp, h3, h4, h5, h6, h7, h8⟩
  rw [if_neg hk] at h
  clear hk
  by_cases hk : k = kUnixMode
  · rw [if_pos hk] at h
    by_cases hs : acc.unixMode.isSome = true
    · rw [if_pos hs] at h; cases h
    · rw [if_neg hs] at h
      field_case (parseOptU32 s)
      exact ⟨h1, h2, by intro x hx; cases hx; exact parseOptU32_wf hp, h4, h5, h6, h7, h8⟩
  rw [if_neg hk] at h
  clear hk
  by_cases hk : k = kMtimeNanos
  · rw [if_pos hk] at h
    by_cases hs : acc.mtimeNanos.isSome = true
    · rw [if_pos hs] at h; cases h
    · rw [if_neg hs] at h
      field_case (parseUnsigned u32Bound s)
      exact ⟨h1, h2, h3, h4, h5, by intro x hx; cases hx; exact parseUnsigned_lt hp, h7, h8⟩
  rw [if_neg hk] at h
  clear hk
  by_cases hk : k = kAddrs
  · rw [if_pos hk] at h
    by_cases hs : acc.addrs.isSome = true
    · rw [if_pos hs] at h; cases h
    · rw [if_neg hs] at h
      field_case (parseArray parseAddr f s)
      exact ⟨h1, h2, h3, h4, h5, h6, by intro x hx; cases hx; rw [List.all_eq_true]; exact parseArray_all parseAddr (fun a => wfAddr a = true) (fun _ _ _ _ h => parseAddr_wf h) hp, h8⟩
  rw [if_neg hk] at h
  clear hk
  by_cases hk : k = kTarget
  · rw [if_pos hk] at h
    by_cases hs : acc.target.isSome = true
    · rw [if_pos hs] at h; cases h
    · rw [if_neg hs] at h
      field_case (parseOptStr f s)
      exact ⟨h1, h2, h3, h4, h5, h6, h7, by intro x hx; cases hx; exact parseOptStr_valid hp⟩
  rw [if_neg hk] at h
  clear hk
  by_cases hk : k = kUser
  · rw [if_pos hk] at h
    by_cases hs : acc.user.isSome = true
    · rw [if_pos hs] at h; cases h
    · rw [if_neg hs] at h
      field_case (parseOptStr f s)
      exact ⟨h1, h2, h3, by intro x hx; cases hx; exact parseOptStr_valid hp, h5, h6, h7, h8⟩
  rw [if_neg hk] at h
  clear hk
  by_cases hk : k = kGroup
  · rw [if_pos hk] at h
    by_cases hs : acc.group.isSome = true
    · rw [if_pos hs] at h; cases h
    · rw [if_neg hs] at h
      field_case (parseOptStr f s)
      exact ⟨h1, h2, h3, h4, by intro x hx; cases hx; exact parseOptStr_valid hp, h6, h7, h8⟩
  rw [if_neg hk] at h
  clear hk
  rcases hp : skipStrict f s with _ | r'
  · rw [hp] at h; cases h
  rw [hp] at h
  simp only [Option.map_some] at h
  cases h
  exact ⟨h1, h2, h3, h4, h5, h6, h7, h8⟩

theorem optGetD_wfStr {o : Option (Option Str)} (h : ∀ v, o = some v → wfOptStr v = true) :
    wfOptStr (o.getD none) = true := by
  cases o with
  | none => rfl
  | some v => exact h v rfl

theorem parseEntry_wf {f : Nat} {s r : Str} {e : IndexEntry} (h : parseEntry f s = some (e, r)) : wfEntry e = true := by
  unfold parseEntry at h
  split at h
  · split at h
    · cases h
    · rename_i acc r' hm
      have hwf : EntryAccWf acc :=
        parseMembersF_inv entryField EntryAccWf entryField_wf _ _ _ _ _ _ EntryAccWf_init hm
      cases hfin : acc.finish with
      | none => rw [hfin] at h; cases h
      | some e' =>
        rw [hfin] at h
        simp only [Option.map_some] at h
        cases h
        unfold EntryAcc.finish at hfin
        split at hfin
        · rename_i a k hap hk
          cases hfin
          obtain ⟨h1, h2, h3, h4, h5, h6, h7, h8⟩ := hwf
          have hm : -9223372036854775808 ≤ acc.mtime.getD 0 ∧ acc.mtime.getD 0 < 9223372036854775808 := by
            cases hmt : acc.mtime with
            | none => simp
            | some v => simpa using h2 v hmt
          have hn : acc.mtimeNanos.getD 0 < u32Bound := by
            cases hx : acc.mtimeNanos with
            | none => simp [u32Bound]
            | some v => simpa using h6 v hx
          have hmode : wfOptU32 (acc.unixMode.getD none) = true := by
            cases hx : acc.unixMode with
            | none => rfl
            | some v => simpa using h3 v hx
          have haddrs : (acc.addrs.getD []).all wfAddr = true := by
            cases hx : acc.addrs with
            | none => rfl
            | some v => simpa using h7 v hx
          simp only [wfEntry, Bool.and_eq_true, decide_eq_true_eq]
          exact ⟨⟨⟨⟨⟨⟨⟨⟨h1 _ hap, hm.1⟩, hm.2⟩, hn⟩, hmode⟩, optGetD_wfStr h4⟩, optGetD_wfStr h5⟩, haddrs⟩,
            optGetD_wfStr h8⟩
        · cases hfin
  · cases h

theorem parseHunk_wf {b : Str} {es : List IndexEntry} (h : parseHunk b = some es) : WfEntries es := by
  unfold parseHunk at h
  split at h
  · cases h
  · rename_i es' r hp
    split at h
    · cases h
      exact parseArray_all parseEntry (fun e => wfEntry e = true) (fun _ _ _ _ h => parseEntry_wf h) hp
    · cases h

end Conserve.Json
