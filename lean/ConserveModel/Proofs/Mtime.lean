import ConserveModel.Mtime
/-
Helper lemmas: truncating division in terms of flooring division (which `omega` knows).
-/
namespace Conserve.DM

theorem asSecond_eq (t : Int) :
    asSecond t = if 0 ≤ t ∨ t % 1000000000 = 0 then t / 1000000000 else t / 1000000000 + 1 := by
  unfold asSecond nsPerSec
  rw [Int.tdiv_eq_ediv]
  have hd : ((1000000000 : Int) ∣ t) ↔ t % 1000000000 = 0 := Int.dvd_iff_emod_eq_zero
  by_cases h : 0 ≤ t ∨ t % 1000000000 = 0
  · have h' : 0 ≤ t ∨ (1000000000 : Int) ∣ t := h.imp id hd.2
    simp [h, h']
  · have h' : ¬ (0 ≤ t ∨ (1000000000 : Int) ∣ t) := fun x => h (x.imp id hd.1)
    simp only [h, h', if_false]
    have : Int.sign 1000000000 = 1 := by decide
    rw [this]

theorem subsec_eq (t : Int) :
    subsecNanosecond t =
      if 0 ≤ t ∨ t % 1000000000 = 0 then t % 1000000000 else t % 1000000000 - 1000000000 := by
  unfold subsecNanosecond nsPerSec
  rw [Int.tmod_eq_emod]
  have hd : ((1000000000 : Int) ∣ t) ↔ t % 1000000000 = 0 := Int.dvd_iff_emod_eq_zero
  by_cases h : 0 ≤ t ∨ t % 1000000000 = 0
  · have h' : 0 ≤ t ∨ (1000000000 : Int) ∣ t := h.imp id hd.2
    simp [h, h']
  · have h' : ¬ (0 ≤ t ∨ (1000000000 : Int) ∣ t) := fun x => h (x.imp id hd.1)
    simp only [h, h', if_false]
    rfl

end Conserve.DM
