import ConserveModel.Proofs.ExactStore
import ConserveModel.Props.C08
/-
The listing specification of a version (`listSpec`, `listErrors`, StitchSpec.lean) depends only on
the keys at or below the directories of that version and of the earlier ones.  Used to carry
well-formedness, silence and the listings of existing versions across a backup.
No property statements here.
-/
set_option linter.unusedSimpArgs false
namespace Conserve.Exact
open Conserve

/-- The two stores hold the same under version `b`'s directory. -/
def BandSame (s s' : Store) (b : Nat) : Prop :=
  ∀ k, Key.isUnder (.bandDir b) k = true → s'.get? k = s.get? k

section
variable {s s' : Store} {b : Nat}

theorem BandSame.hunk (h : BandSame s s' b) (n : Nat) : s'.get? (.hunk b n) = s.get? (.hunk b n) :=
  h _ (by simp [Key.isUnder, Key.parent])
theorem BandSame.head (h : BandSame s s' b) : s'.get? (.bandHead b) = s.get? (.bandHead b) :=
  h _ (by simp [Key.isUnder, Key.parent])
theorem BandSame.tail (h : BandSame s s' b) : s'.get? (.bandTail b) = s.get? (.bandTail b) :=
  h _ (by simp [Key.isUnder, Key.parent])
theorem BandSame.indexDir (h : BandSame s s' b) : s'.get? (.indexDir b) = s.get? (.indexDir b) :=
  h _ (by simp [Key.isUnder, Key.parent])

theorem hunkNumsOf_same (hn : UniqueKeys s) (hn' : UniqueKeys s') (h : BandSame s s' b) :
    hunkNumsOf s' b = hunkNumsOf s b := by
  refine eq_of_sorted_lt (hunkNumsOf_sorted_lt hn' b) (hunkNumsOf_sorted_lt hn b) fun n => ?_
  simp only [mem_hunkNumsOf, Store.mem_iff_get? hn, Store.mem_iff_get? hn', h.hunk]

theorem usableHunk_same (h : BandSame s s' b) (n : Nat) : usableHunk s' b n = usableHunk s b n := by
  simp only [usableHunk, h.hunk]

theorem ownEntries_same (hn : UniqueKeys s) (hn' : UniqueKeys s') (h : BandSame s s' b) :
    ownEntries s' b = ownEntries s b := by
  unfold ownEntries
  rw [hunkNumsOf_same hn hn' h]
  congr 2
  funext n
  exact usableHunk_same h n

theorem bandPresent_same (h : BandSame s s' b) : bandPresent s' b = bandPresent s b := by
  simp only [bandPresent, h.head]

theorem isComplete_same (h : BandSame s s' b) : isComplete s' b = isComplete s b := by
  simp only [isComplete, h.tail]

theorem bandReadable_same (h : BandSame s s' b) : bandReadable s' b = bandReadable s b := by
  simp only [bandReadable, h.head, h.indexDir]

theorem bandEntries_same (hn : UniqueKeys s) (hn' : UniqueKeys s') (h : BandSame s s' b) :
    bandEntries s' b = bandEntries s b := by
  simp only [bandEntries, bandReadable_same h, ownEntries_same hn hn' h]

theorem indexCheckError_same (hn : UniqueKeys s) (hn' : UniqueKeys s') (h : BandSame s s' b) :
    indexCheckError s' b = indexCheckError s b := by
  have h1 : tailInfo s' b = tailInfo s b := by simp only [tailInfo, h.tail]
  have h2 : ∀ n, hunkNonEmpty s' b n = hunkNonEmpty s b n := fun n => by simp only [hunkNonEmpty, h.hunk]
  simp only [indexCheckError, hunkNumsOf_same hn hn' h, h1, h2]

theorem hunkError_same (h : BandSame s s' b) (n : Nat) : hunkError s' b n = hunkError s b n := by
  simp only [hunkError, h.hunk]

theorem unreadableError_same (h : BandSame s s' b) : unreadableError s' b = unreadableError s b := by
  simp only [unreadableError, h.head, h.indexDir]

theorem bandErrors_same (hn : UniqueKeys s) (hn' : UniqueKeys s') (h : BandSame s s' b) :
    bandErrors s' b = bandErrors s b := by
  have : (fun n => hunkError s' b n) = fun n => hunkError s b n := funext (hunkError_same h)
  simp only [bandErrors, bandReadable_same h, indexCheckError_same hn hn' h, hunkNumsOf_same hn hn' h,
    unreadableError_same h]
  split
  · congr 2
  · rfl

end

theorem contSpec_same {s s' : Store} (hn : UniqueKeys s) (hn' : UniqueKeys s') (b : Nat) :
    (∀ b', b' < b → BandSame s s' b') → ∀ last, contSpec s' b last = contSpec s b last := by
  induction b with
  | zero => intro _ _; rfl
  | succ b ih =>
    intro h last
    have hb := h b (Nat.lt_succ_self b)
    have ih' := ih (fun b' hb' => h b' (Nat.lt_succ_of_lt hb'))
    simp only [contSpec, bandPresent_same hb, bandEntries_same hn hn' hb, isComplete_same hb, ih']

theorem listSpec_same {s s' : Store} (hn : UniqueKeys s) (hn' : UniqueKeys s') (n : Nat)
    (h : ∀ b', b' ≤ n → BandSame s s' b') : listSpec s' n = listSpec s n := by
  have hb := h n (Nat.le_refl n)
  simp only [listSpec, bandEntries_same hn hn' hb, isComplete_same hb,
    contSpec_same hn hn' n (fun b' hb' => h b' (Nat.le_of_lt hb'))]

theorem chainBelow_same {s s' : Store} (b : Nat) :
    (∀ b', b' < b → BandSame s s' b') → chainBelow s' b = chainBelow s b := by
  induction b with
  | zero => intro _; rfl
  | succ b ih =>
    intro h
    have hb := h b (Nat.lt_succ_self b)
    simp only [chainBelow, bandPresent_same hb, isComplete_same hb,
      ih (fun b' hb' => h b' (Nat.lt_succ_of_lt hb'))]

theorem chain_same {s s' : Store} (n : Nat) (h : ∀ b', b' ≤ n → BandSame s s' b') :
    chain s' n = chain s n := by
  simp only [chain, isComplete_same (h n (Nat.le_refl n)),
    chainBelow_same n (fun b' hb' => h b' (Nat.le_of_lt hb'))]

theorem mem_chain_le {s : Store} {n c : Nat} (h : c ∈ chain s n) : c ≤ n := by
  simp only [chain, List.mem_cons] at h
  rcases h with rfl | h
  · exact Nat.le_refl _
  · split at h
    · cases h
    · exact Nat.le_of_lt (chainBelow_lt s n c h)

theorem flatMap_congr' {α β : Type} {f g : α → List β} {l : List α} (h : ∀ a ∈ l, f a = g a) :
    l.flatMap f = l.flatMap g := by
  induction l with
  | nil => rfl
  | cons a l ih =>
    simp only [List.flatMap_cons, h a (List.mem_cons_self ..)]
    rw [ih fun x hx => h x (List.mem_cons_of_mem _ hx)]

theorem headLost_same {s s' : Store} {b : Nat} (h : BandSame s s' b) : headLost s' b = headLost s b := by
  simp only [headLost, bandPresent_same h, h.hunk]

theorem errorsBelow_same {s s' : Store} (hn : UniqueKeys s) (hn' : UniqueKeys s') (b : Nat) :
    (∀ b', b' < b → BandSame s s' b') → errorsBelow s' b = errorsBelow s b := by
  induction b with
  | zero => intro _; rfl
  | succ b ih =>
    intro h
    have hb := h b (Nat.lt_succ_self b)
    simp only [errorsBelow, bandPresent_same hb, bandErrors_same hn hn' hb, isComplete_same hb,
      headLost_same hb, ih (fun b' hb' => h b' (Nat.lt_succ_of_lt hb'))]

theorem listErrors_same {s s' : Store} (hn : UniqueKeys s) (hn' : UniqueKeys s') (n : Nat)
    (h : ∀ b', b' ≤ n → BandSame s s' b') : listErrors s' n = listErrors s n := by
  have hb := h n (Nat.le_refl n)
  simp only [listErrors, bandErrors_same hn hn' hb, isComplete_same hb,
    errorsBelow_same hn hn' n (fun b' hb' => h b' (Nat.le_of_lt hb'))]

/-- Every member of the chain below `b` has a head file. -/
theorem chainBelow_present {s : Store} (b : Nat) : ∀ c ∈ chainBelow s b, bandPresent s c = true := by
  induction b with
  | zero => intro c hc; cases hc
  | succ b ih =>
    intro c hc
    simp only [chainBelow] at hc
    split at hc
    · rename_i hp
      rcases List.mem_cons.mp hc with rfl | hc
      · exact hp
      · split at hc
        · cases hc
        · exact ih c hc
    · exact ih c hc

/-! ### `ArchWF` from `StoreOK` -/

variable {H : Str → Str}

theorem archWF_of {s : Store} (hst : StoreOK H s)
    (hsorted : ∀ b n v, s.get? (.hunk b n) = some v → strictlySorted ((ownEntries s b).map (·.apath)) = true) :
    ArchWF s := by
  refine ⟨?_, ?_, ?_⟩
  · simp only [keysNodup, decide_eq_true_eq]
    exact hst.noDup
  · simp only [treeShaped, List.all_eq_true]
    intro kv hkv
    exact hst.dirsOk kv hkv
  · simp only [bandsSorted, List.all_eq_true]
    intro kv hkv
    obtain ⟨k, v⟩ := kv
    have hg := hst.noDup.get?_of_mem hkv
    cases k with
    | hunk b n => exact hsorted b n v hg
    | _ => rfl

theorem _root_.Conserve.ArchWF.sorted_of_get? {s : Store} (wf : ArchWF s) {b n : Nat} {v : FileVal}
    (hg : s.get? (.hunk b n) = some v) : strictlySorted ((ownEntries s b).map (·.apath)) = true := by
  have := wf.sorted
  simp only [bandsSorted, List.all_eq_true] at this
  exact this _ (Store.mem_of_get?' hg)

theorem _root_.Conserve.ArchWF.uniqueKeys {s : Store} (wf : ArchWF s) : UniqueKeys s :=
  (uniqueKeys_iff_nodup s).2 wf.keys

/-- Well-formedness for listing is kept by a run that leaves every other version's keys alone and
makes the new version's own entries strictly increasing. -/
theorem archWF_frame {s0 s : Store} {nb : Nat} (wf0 : ArchWF s0) (hst : StoreOK H s)
    (hframe : ∀ k, newKey nb k = false → s.get? k = s0.get? k)
    (hnew : strictlySorted ((ownEntries s nb).map (·.apath)) = true) : ArchWF s := by
  refine archWF_of hst fun b n v hg => ?_
  by_cases hb : b = nb
  · subst hb; exact hnew
  · have hsame : BandSame s0 s b := by
      intro k hk
      refine hframe k ?_
      cases k <;> simp_all [newKey, Key.isUnder, Key.parent, isBlockish]
    rw [ownEntries_same wf0.uniqueKeys hst.uniqueKeys hsame]
    rw [hsame.hunk] at hg
    exact wf0.sorted_of_get? hg

end Conserve.Exact
