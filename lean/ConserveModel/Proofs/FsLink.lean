import ConserveModel.Proofs.FsTop
/-
Confinement from the weakest hypothesis on the listing: no entry lies below (or at) an entry
that is a SYMLINK.  An entry below a FILE entry is harmless — resolving its path fails with
ENOTDIR and nothing is created — so only symlinks are tracked.
-/
namespace Conserve

/-- `D` is plain, and every symlink below `D` sits at a relative path in `S`. -/
structure InvL (D : Path) (S : List Str → Prop) (fs : Fs) : Prop where
  dest : DestOk fs D
  below : ∀ cs x, fs.node (D ++ cs) = some x → x.kind ≠ .symlink ∨ S cs

theorem Inv.toL {D : Path} {S : List Str → Prop} {fs : Fs} (h : Inv D S fs) : InvL D S fs :=
  ⟨h.dest, fun cs x hx => (h.below cs x hx).imp (fun hk => by rw [hk]; decide) id⟩

theorem InvL.mono {D : Path} {S S' : List Str → Prop} {fs : Fs} (h : InvL D S fs)
    (hS : ∀ c, S c → S' c) : InvL D S' fs :=
  ⟨h.dest, fun cs x hx => (h.below cs x hx).imp id (hS cs)⟩

/-- The destination itself is a directory, so what `S` says about the empty relative path does
not matter. -/
theorem InvL.mono' {D : Path} {S S' : List Str → Prop} {fs : Fs} (h : InvL D S fs)
    (hS : ∀ c, c ≠ [] → S c → S' c) : InvL D S' fs := by
  refine ⟨h.dest, fun cs x hx => ?_⟩
  by_cases hcs : cs = []
  · subst hcs
    rw [List.append_nil] at hx
    obtain ⟨y, hy, hk⟩ := Fs.isDir_iff.1 (h.dest.dirs D (List.prefix_refl _))
    rw [hx] at hy; cases hy
    exact Or.inl (by rw [hk]; decide)
  · exact (h.below cs x hx).imp id (hS cs hcs)

theorem InvL.cleanFullL {D : Path} {S : List Str → Prop} {fs : Fs} (hI : InvL D S fs) {cs : List Str}
    (hc : ∀ pre, pre <+: cs → ¬ S pre) : CleanFullL fs D cs := by
  intro pre hp x hx
  rcases hI.below pre x hx with h | h
  · exact h
  · exact absurd h (hc pre hp)

/-- One turn keeps the invariant; only a symlink entry adds a place where a symlink may sit. -/
theorem InvL.step {D : Path} {S T N : List Str → Prop} {fs fs' : Fs} {c0 : List Str} {isLink : Prop}
    (hI : InvL D S fs) (G : Grows D T N fs fs') (hN : ∀ c, N c → c = c0)
    (hnl : ¬ isLink → NoNewLink fs fs') :
    InvL D (fun c => (c = c0 ∧ isLink) ∨ S c) fs' := by
  refine ⟨G.destOk hI.dest, fun cs x hx => ?_⟩
  cases hn : fs.node (D ++ cs) with
  | some y =>
    obtain ⟨x', hx', hk'⟩ := G.kept _ y hn
    rw [hx] at hx'; cases hx'
    rw [hk']
    exact (hI.below cs y hn).imp id Or.inr
  | none =>
    by_cases hl : isLink
    · rcases G.fresh cs x hn hx with hk | hN'
      · exact Or.inl (by rw [hk]; decide)
      · exact Or.inr (Or.inl ⟨hN cs hN', hl⟩)
    · exact Or.inl (hnl hl _ x hn hx)

/-- The symlink entries of a listing, by relative path.  A symlink entry for the root apath never
becomes a symlink (the destination exists: EEXIST), so it does not count. -/
def linkAt (l : List RNode) : List Str → Prop :=
  fun c => ∃ m ∈ l, m.kind = .symlink ∧ comps m = c ∧ c ≠ []

/-- What later turns must respect about earlier ones. -/
def NotBelowLink (a b : RNode) : Prop := a.kind = .symlink → comps a ≠ [] → ¬ comps a <+: comps b

theorem restoreLoopFs_invL {uidOf gidOf : Str → Option Nat} {old : Bool} {D : Path} :
    ∀ (rest : List RNode) (fs : Fs) (S : List Str → Prop), InvL D S fs →
      (∀ n ∈ rest, isValid n.apath = true) →
      (∀ n ∈ rest, ∀ pre, pre <+: comps n → ¬ S pre) →
      rest.Pairwise NotBelowLink →
      InvL D (fun c => linkAt rest c ∨ S c) (restoreLoopFs uidOf gidOf old D fs rest).1 ∧
      (∀ q, ¬ D <+: q → (restoreLoopFs uidOf gidOf old D fs rest).1.node q = fs.node q) ∧
      (∀ d ∈ (restoreLoopFs uidOf gidOf old D fs rest).2.2,
        d.node ∈ rest ∧ d.node.kind = .dir ∧ d.path = joinDest D d.node.apath) := by
  intro rest
  induction rest with
  | nil =>
    intro fs S hI _ _ _
    exact ⟨hI.mono fun c h => Or.inr h, fun _ _ => rfl, fun d hd => by cases hd⟩
  | cons n rest ih =>
    intro fs S hI hv hcl hp
    obtain ⟨hpn, hpr⟩ := List.pairwise_cons.1 hp
    obtain ⟨G, hdef, hnl⟩ := restoreNodeFs_growsL (uidOf := uidOf) (gidOf := gidOf) (old := old) hI.dest
      (hv n List.mem_cons_self) (hI.cleanFullL (hcl n List.mem_cons_self))
    have I1 : InvL D (fun c => (c = comps n ∧ n.kind = .symlink ∧ c ≠ []) ∨ S c) _ :=
      (hI.step (isLink := n.kind = .symlink) G (fun c h => h.1) hnl).mono' fun c hc h =>
        h.imp (fun h => ⟨h.1, h.2, hc⟩) id
    obtain ⟨I2, hout, hdefs⟩ := ih (restoreNodeFs uidOf gidOf old D fs n).1 _ I1
      (fun m hm => hv m (List.mem_cons_of_mem _ hm))
      (fun m hm pre hpre hS => by
        rcases hS with ⟨rfl, hk, hne⟩ | hS
        · exact hpn m hm hk hne hpre
        · exact hcl m (List.mem_cons_of_mem _ hm) pre hpre hS)
      hpr
    simp only [restoreLoopFs]
    refine ⟨I2.mono ?_, fun q hq => (hout q hq).trans (G.outside q hq), fun d hd => ?_⟩
    · intro c hc
      rcases hc with ⟨m, hm, hk, e⟩ | ⟨e, hk, hne⟩ | hS
      · exact Or.inl ⟨m, List.mem_cons_of_mem _ hm, hk, e⟩
      · exact Or.inl ⟨n, List.mem_cons_self, hk, e.symm, hne⟩
      · exact Or.inr hS
    · rcases List.mem_append.1 hd with h | h
      · obtain ⟨e, hk, hp'⟩ := hdef d h
        exact ⟨e ▸ List.mem_cons_self, e ▸ hk, e ▸ hp'⟩
      · obtain ⟨hm, hk, hp'⟩ := hdefs d h
        exact ⟨List.mem_cons_of_mem _ hm, hk, hp'⟩

theorem applyDeferralsFs_invL {uidOf gidOf : Str → Option Nat} {D : Path} {S : List Str → Prop} :
    ∀ (ds : List Deferral) (fs : Fs), InvL D S fs →
      (∀ d ∈ ds, isValid d.node.apath = true ∧ d.path = joinDest D d.node.apath ∧
        ∀ pre, pre <+: comps d.node → ¬ S pre) →
      InvL D S (applyDeferralsFs uidOf gidOf fs ds).1 ∧
      (∀ q, ¬ D <+: q → (applyDeferralsFs uidOf gidOf fs ds).1.node q = fs.node q) := by
  intro ds
  induction ds with
  | nil => intro fs hI _; exact ⟨hI, fun _ _ => rfl⟩
  | cons d ds ih =>
    intro fs hI hd
    obtain ⟨hv, hp, hcl⟩ := hd d List.mem_cons_self
    have hfull := hI.cleanFullL hcl
    have hctx := ctx_of_cleanL hI.dest hv hfull
    have L := applyDeferralFs_local (uidOf := uidOf) (gidOf := gidOf) (n := d.node) hctx
      (hfull _ (List.prefix_refl _))
    have hj : d.path = D ++ comps d.node ++ (if d.node.apath = [slash] then [[]] else []) := by
      rw [hp, joinDest_valid D hv]; rfl
    rw [← hj] at L
    have L' : Local .dir fs (applyDeferralFs uidOf gidOf fs d).1 (D ++ comps d.node) := L
    have hDn : fs.node D ≠ none := by
      obtain ⟨x, hx, _⟩ := Fs.isDir_iff.1 (hI.dest.dirs D (List.prefix_refl _))
      rw [hx]; simp
    have G := L'.grows hDn
    have I1 : InvL D S (applyDeferralFs uidOf gidOf fs d).1 :=
      (hI.step (isLink := False) (c0 := comps d.node) G (fun c h => h.1)
        (fun _ => L'.noNewLink (by decide))).mono fun c h => h.elim (fun h => h.2.elim) id
    obtain ⟨I2, hout⟩ := ih _ I1 (fun d' hd' => hd d' (List.mem_cons_of_mem _ hd'))
    simp only [applyDeferralsFs]
    exact ⟨I2, fun q hq => (hout q hq).trans (G.outside q hq)⟩

/-- A listing restore can replay without leaving the destination — the weakest form: valid,
pairwise distinct apaths, and no entry (other than one for the root apath) that is a proper
ancestor of another entry is a SYMLINK (it may be a directory, or a file). -/
structure ConfinableL (nodes : List RNode) : Prop where
  valid : ∀ n ∈ nodes, isValid n.apath = true
  distinct : nodes.Pairwise (fun a b => comps a ≠ comps b)
  anc : ∀ m ∈ nodes, ∀ n ∈ nodes, comps m ≠ [] → comps m <+: comps n → comps m ≠ comps n →
    m.kind ≠ .symlink

theorem Confinable.toL {nodes : List RNode} (h : Confinable nodes) : ConfinableL nodes :=
  ⟨h.valid, h.distinct, fun m hm n hn _ hp hne => by rw [h.anc m hm n hn hp hne]; decide⟩

theorem restoreBody_outsideL {uidOf gidOf : Str → Option Nat} {old : Bool} {D : Path} {fs : Fs}
    {nodes : List RNode} (hC : ConfinableL nodes) (hI : InvL D (fun _ => False) fs) :
    ∀ q, ¬ D <+: q →
      (applyDeferralsFs uidOf gidOf (restoreLoopFs uidOf gidOf old D fs nodes).1
        (restoreLoopFs uidOf gidOf old D fs nodes).2.2).1.node q = fs.node q := by
  have hp : nodes.Pairwise NotBelowLink :=
    hC.distinct.imp_of_mem fun {a b} ha hb hne hk hne0 hpre => hC.anc a ha b hb hne0 hpre hne hk
  obtain ⟨I1, hout1, hdefs⟩ := restoreLoopFs_invL (uidOf := uidOf) (gidOf := gidOf) (old := old)
    nodes fs _ hI hC.valid (fun _ _ _ _ h => h) hp
  obtain ⟨_, hout2⟩ := applyDeferralsFs_invL (uidOf := uidOf) (gidOf := gidOf) _ _ I1 (fun d hd => by
    obtain ⟨hm, hk, hpath⟩ := hdefs d hd
    refine ⟨hC.valid _ hm, hpath, fun pre hpre hS => ?_⟩
    rcases hS with ⟨m, hmm, hmk, e, hne0⟩ | hS
    · subst e
      by_cases heq : comps m = comps d.node
      · have := pairwise_inj hC.distinct m hmm d.node hm heq
        rw [this, hk] at hmk
        cases hmk
      · exact hC.anc m hmm d.node hm hne0 hpre heq hmk
    · exact hS)
  intro q hq
  exact (hout2 q hq).trans (hout1 q hq)

/-- **Confinement** from the weakest hypothesis on the listing. -/
theorem restoreToFs_outsideL {uidOf gidOf : Str → Option Nat} {old : Bool} {fs : Fs} {D : Path}
    {nodes : List RNode} (hC : ConfinableL nodes) (hwf : fs.wf = true) (hP : DestPlain fs D) :
    ∀ q, ¬ D <+: q → (q ≠ D.dropLast ∨ fs.node D ≠ none) →
      (restoreToFs fs D false nodes uidOf gidOf old).1.node q = fs.node q := by
  intro q hq hor
  have L := ensureDir_local hP
  have hL := L.outside_dest q hq hor
  unfold restoreToFs
  rcases he : fs.ensureDir D with ⟨fs0, r⟩
  rw [he] at L hL
  cases r with
  | error e => exact hL
  | ok u =>
    dsimp only
    cases hr : fs0.readDirEmpty D with
    | error e => exact hL
    | ok empty =>
      dsimp only
      cases empty with
      | false => simpa using hL
      | true =>
        simp only [Bool.not_false, Bool.not_true, Bool.and_false, Bool.false_eq_true, if_false]
        have hI := (inv_initial hwf hP L hr).toL
        exact (restoreBody_outsideL hC hI q hq).trans hL

theorem restoreToFs_parentL {uidOf gidOf : Str → Option Nat} {old : Bool} {fs : Fs} {D : Path}
    {nodes : List RNode} (hC : ConfinableL nodes) (hwf : fs.wf = true) (hP : DestPlain fs D)
    (hD : D ≠ []) :
    EqMod (fs.node D.dropLast) ((restoreToFs fs D false nodes uidOf gidOf old).1.node D.dropLast) := by
  have hne : D.dropLast ≠ D := fun e => by
    have := length_dropLast_lt hD
    rw [e] at this; omega
  have hnp : ¬ D <+: D.dropLast := fun h => by
    have := h.length_le
    have := length_dropLast_lt hD
    omega
  have L := ensureDir_local hP
  have hL := (L.parent hne).1
  unfold restoreToFs
  rcases he : fs.ensureDir D with ⟨fs0, r⟩
  rw [he] at L hL
  cases r with
  | error e => exact hL
  | ok u =>
    dsimp only
    cases hr : fs0.readDirEmpty D with
    | error e => exact hL
    | ok empty =>
      dsimp only
      cases empty with
      | false => simpa using hL
      | true =>
        simp only [Bool.not_false, Bool.not_true, Bool.and_false, Bool.false_eq_true, if_false]
        have hI := (inv_initial hwf hP L hr).toL
        rw [restoreBody_outsideL hC hI _ hnp]
        exact hL

end Conserve
