import ConserveModel.Proofs.DeleteSpec
import ConserveModel.Proofs.FrameDelete
/-
The events a run APPENDS to the trace, with knowledge of the values earlier steps returned
(`AllOps` / `TraceProp` quantify over all values a step might return; here the continuation is
only examined for the value the first part really returned in this world).
Helper lemmas for Props/C07d.lean and Props/C05g.lean.
-/
namespace Conserve
open Prog

/-- Every event the run of `p` in world `w` appends to the trace satisfies `Q`. -/
def NewEvs {α : Type} (Q : TraceEv → Prop) (p : Prog α) (w : World) : Prop :=
  ∃ new, (p.run w).2.trace = new ++ w.trace ∧ ∀ ev ∈ new, Q ev

theorem NewEvs.of_allOps {α : Type} {P : Op → Prop} {Q : TraceEv → Prop} {p : Prog α}
    (hp : Prog.AllOps P p) (hQ : ∀ ev : TraceEv, P ev.op → Q ev) (w : World) : NewEvs Q p w := by
  obtain ⟨new, ht, hP⟩ := Prog.run_trace_ops hp w
  exact ⟨new, ht, fun ev hev => hQ ev (hP ev hev)⟩

theorem NewEvs.mono {α : Type} {Q Q' : TraceEv → Prop} {p : Prog α} {w : World}
    (h : NewEvs Q p w) (hq : ∀ ev, Q ev → Q' ev) : NewEvs Q' p w := by
  obtain ⟨new, ht, hn⟩ := h
  exact ⟨new, ht, fun ev hev => hq ev (hn ev hev)⟩

/-- Sequencing: the continuation is examined only for the value and world the first part produced. -/
theorem NewEvs.bind {α β : Type} {Q : TraceEv → Prop} {p : Prog α} {f : α → Prog β} {w : World}
    (hp : NewEvs Q p w) (hf : ∀ a w1, p.run w = (.ok a, w1) → NewEvs Q (f a) w1) :
    NewEvs Q (p.bind f) w := by
  obtain ⟨n1, ht1, hq1⟩ := hp
  rw [NewEvs, Prog.run_bind]
  rcases hpr : p.run w with ⟨out, w1⟩
  rw [hpr] at ht1
  simp only at ht1
  cases out with
  | ok a =>
    obtain ⟨n2, ht2, hq2⟩ := hf a w1 hpr
    refine ⟨n2 ++ n1, by simp only [ht2, ht1, List.append_assoc], ?_⟩
    intro ev hev
    rcases List.mem_append.1 hev with h | h
    · exact hq2 ev h
    · exact hq1 ev h
  | err e => exact ⟨n1, ht1, hq1⟩
  | panic s => exact ⟨n1, ht1, hq1⟩

theorem NewEvs.attemptAll {α : Type} {Q : TraceEv → Prop} {p : Prog α} {w : World}
    (hp : NewEvs Q p w) : NewEvs Q p.attemptAll w := by
  obtain ⟨n1, ht1, hq1⟩ := hp
  exact ⟨n1, by rw [Prog.run_attemptAll]; exact ht1, hq1⟩

/-- With an empty initial trace the new events are the whole trace. -/
theorem NewEvs.all {α : Type} {Q : TraceEv → Prop} {p : Prog α} {w : World}
    (hp : NewEvs Q p w) (h0 : w.trace = []) : ∀ ev ∈ (p.run w).2.trace, Q ev := by
  obtain ⟨new, ht, hq⟩ := hp
  rw [ht, h0, List.append_nil]
  exact hq

/-- A read-only program: store unchanged, and its events satisfy anything true of read-only operations. -/
theorem NewEvs.of_readOnly {α : Type} {Q : TraceEv → Prop} {p : Prog α} (hp : ReadOnlyProg p)
    (hQ : ∀ ev : TraceEv, ev.op.isMutating = false → Q ev) (w : World) : NewEvs Q p w :=
  NewEvs.of_allOps hp hQ w

end Conserve
