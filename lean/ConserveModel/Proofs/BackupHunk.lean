import ConserveModel.Proofs.BackupEntry
/-
A small Hoare logic over `Prog.run` for programs that may fail (`Sat`), and the index writer:
`finish_hunk`, `flush_group` in all worlds.  No property statements here.
-/
namespace Conserve.Inv
open Conserve Prog

section
variable {H : Str → Str} {src : List SrcEntry} {s0 : Store}

/-- `Sat p w Q`: running `p` in `w` ends — whatever the outcome — in a world that keeps the
invariant and extends `w`'s store; if it returns `a`, then `Q a` holds of the final world. -/
def Sat (H : Str → Str) (src : List SrcEntry) (s0 : Store) {α : Type} (p : Prog α) (w : World)
    (Q : α → World → Prop) : Prop :=
  Frame H src s0 w (p.run w).2 ∧ ∀ a, (p.run w).1 = .ok a → Q a (p.run w).2

theorem Sat.ret {α : Type} {a : α} {w : World} {Q : α → World → Prop} (hw : WOK H src s0 w) (hq : Q a w) :
    Sat H src s0 (.ret a) w Q := ⟨Frame.refl hw, fun _ h => by cases h; exact hq⟩

theorem Sat.fail {α : Type} {e : Err} {w : World} {Q : α → World → Prop} (hw : WOK H src s0 w) :
    Sat H src s0 (.fail e) w Q := ⟨Frame.refl hw, fun _ h => nomatch h⟩

theorem Sat.panic {α : Type} {s : String} {w : World} {Q : α → World → Prop} (hw : WOK H src s0 w) :
    Sat H src s0 (.panic s) w Q := ⟨Frame.refl hw, fun _ h => nomatch h⟩

theorem Sat.bind {α β : Type} {p : Prog α} {f : α → Prog β} {w : World} {Q : β → World → Prop}
    (hp : Sat H src s0 p w (fun a w' => Sat H src s0 (f a) w' Q)) : Sat H src s0 (p.bind f) w Q := by
  unfold Sat at hp ⊢
  rw [Prog.run_bind]
  obtain ⟨hf, hq⟩ := hp
  cases hrun : p.run w with
  | mk out w1 =>
    rw [hrun] at hf hq
    cases out with
    | ok a =>
      obtain ⟨hf2, hq2⟩ := hq a rfl
      exact ⟨hf.trans hf2, hq2⟩
    | err e => exact ⟨hf, fun _ h => nomatch h⟩
    | panic s => exact ⟨hf, fun _ h => nomatch h⟩

theorem Sat.mono {α : Type} {p : Prog α} {w : World} {Q Q' : α → World → Prop}
    (hp : Sat H src s0 p w Q) (h : ∀ a w', Frame H src s0 w w' → Q a w' → Q' a w') :
    Sat H src s0 p w Q' := ⟨hp.1, fun a ha => h a _ hp.1 (hp.2 a ha)⟩

theorem Sat.emit {α : Type} {ev : Event} {k : Prog α} {w : World} {Q : α → World → Prop}
    (hk : Sat H src s0 k { w with events := ev :: w.events } Q) : Sat H src s0 (.emit ev k) w Q :=
  ⟨⟨hk.1.wok, hk.1.ext⟩, hk.2⟩

theorem Sat.op {α : Type} {o : Op} {k : Resp → Prog α} {w : World} {Q : α → World → Prop}
    (hw : WOK H src s0 w) (ho : OpOK H src w.store o)
    (hk : ∀ r, Sat H src s0 (k r) (w.exec o).1 Q) : Sat H src s0 (.op o k) w Q := by
  have f1 := Frame.exec hw ho
  obtain ⟨hf, hq⟩ := hk (w.exec o).2
  exact ⟨f1.trans hf, hq⟩

/-- From the `∃`-style specifications of the programs that always return. -/
theorem Sat.of_ok {α : Type} {p : Prog α} {w : World} {Q : α → World → Prop}
    (h : ∃ a w', p.run w = (.ok a, w') ∧ Frame H src s0 w w' ∧ Q a w') : Sat H src s0 p w Q := by
  obtain ⟨a, w', hrun, hf, hq⟩ := h
  unfold Sat
  rw [hrun]
  exact ⟨hf, fun _ h => by cases h; exact hq⟩

/-- A unit-returning operation with `?`. -/
theorem Sat.performUnit {o : Op} {w : World} (hw : WOK H src s0 w) (ho : OpOK H src w.store o) :
    Sat H src s0 (performUnit o) w (fun _ _ => True) := by
  unfold Conserve.performUnit perform
  simp only [Prog.bind_def, Prog.op_bind, Prog.ret_bind]
  refine Sat.op hw ho (fun r => ?_)
  have hw1 := (Frame.exec hw ho).wok
  cases r <;> first | exact Sat.ret hw1 trivial | exact Sat.fail hw1

/-- `IndexWriter::finish_hunk` in every world: only correct entries are ever written into a hunk
(so at both micro-steps of the write, and after any fault, nothing dangles); afterwards the
writer is still fine. -/
theorem finishHunk_sat (wr : Writer) (w : World) (hw : WOK H src s0 w) (hwr : WriterOK H src w.store wr) :
    Sat H src s0 (finishHunk wr) w (fun wr' w' => WriterOK H src w'.store wr') := by
  unfold finishHunk
  simp only [Prog.bind_def, Prog.pure_def]
  split
  · exact Sat.ret hw hwr
  · have hdone : ∀ w', Frame H src s0 w w' →
        WriterOK H src w'.store { wr with pending := [], sequence := wr.sequence + 1,
                                          hunksWritten := wr.hunksWritten + 1 } := fun w' hf =>
      ⟨hwr.exists_.mono hf.ext, hwr.comb, fun _ h => (nomatch h), fun e he => (hwr.finished e he).mono hf.ext⟩
    have hwrite : ∀ w1, Frame H src s0 w w1 →
        Sat H src s0 ((performUnit (.write (.hunk wr.band wr.sequence)
            (.hunk (wr.pending.mergeSort fun a b => apathLe a.apath b.apath)) .createNew)).bind fun _ =>
            Prog.ret { wr with pending := [], sequence := wr.sequence + 1, hunksWritten := wr.hunksWritten + 1 })
          w1 (fun wr' w' => WriterOK H src w'.store wr') := by
      intro w1 hf1
      apply Sat.bind
      refine (Sat.performUnit hf1.wok (OpOK.writeHunk _ _ _ _ ?_)).mono ?_
      · intro e he
        exact (hwr.pending e (List.mem_mergeSort.mp he)).mono hf1.ext
      · intro _ w2 hf2 _
        exact Sat.ret hf2.wok (hdone w2 (hf1.trans hf2))
    split
    · apply Sat.bind
      refine (Sat.performUnit hw (OpOK.createDir _ (fun _ h => by cases h))).mono ?_
      intro _ w1 hf1 _
      exact hwrite w1 hf1
    · exact hwrite w (Frame.refl hw)

/-- `BackupWriter::flush_group` in every world. -/
theorem flushGroup_sat (hinj : Function.Injective H) (wr : Writer) (w : World) (hw : WOK H src s0 w)
    (hwr : WriterOK H src w.store wr) :
    Sat H src s0 (flushGroup H wr) w (fun wr' w' => WriterOK H src w'.store wr') := by
  unfold flushGroup
  simp only [Prog.bind_def]
  apply Sat.bind
  refine (Sat.of_ok (Q := fun x w' => WriterOK H src w'.store x.1) ?_).mono ?_
  · obtain ⟨wr', r, w', hrun, hf, hwr', _⟩ := combinerFlush_spec hinj wr w hw hwr
    exact ⟨(wr', r), w', hrun, hf, hwr'⟩
  · intro x w1 hf1 hwr1
    obtain ⟨wr1, r⟩ := x
    cases r with
    | error e => exact Sat.fail hf1.wok
    | ok u =>
      apply finishHunk_sat _ _ hf1.wok
      refine ⟨hwr1.exists_, hwr1.comb, ?_, fun _ h => nomatch h⟩
      intro e he
      rcases List.mem_append.mp he with he | he
      · exact hwr1.pending e he
      · exact hwr1.finished e he

end

end Conserve.Inv
