import ConserveModel.Proofs.FrameOps
/-
Facts about the *trace* of a run: compositional trace properties (`TraceProp`), the write-once
invariant `WInv` (every successful write found its key absent or zero-length, so no key is
written twice), and `HeadGuard` (a failed band-head write is the last thing a program does).
-/
namespace Conserve
open Prog

/-! ### Compositional properties of the new part of the trace -/

/-- `Q` holds of the events a run of `p` appends to the trace, in every world. -/
def TraceProp {α : Type} (Q : List TraceEv → Prop) (p : Prog α) : Prop :=
  ∀ w : World, ∃ new, (p.run w).2.trace = new ++ w.trace ∧ Q new

/-- `Q` holds of the empty list and of `later ++ earlier` whenever it holds of both. -/
def AppendClosed (Q : List TraceEv → Prop) : Prop :=
  Q [] ∧ ∀ earlier later, Q earlier → Q later → Q (later ++ earlier)

theorem TraceProp.bind {α β : Type} {Q : List TraceEv → Prop} (hQ : AppendClosed Q)
    {p : Prog α} {f : α → Prog β} (hp : TraceProp Q p) (hf : ∀ a, TraceProp Q (f a)) :
    TraceProp Q (p.bind f) := by
  intro w
  obtain ⟨n1, ht1, hq1⟩ := hp w
  rw [Prog.run_bind]
  rcases hpr : p.run w with ⟨out, w1⟩
  rw [hpr] at ht1
  simp only at ht1
  cases out with
  | ok a =>
    obtain ⟨n2, ht2, hq2⟩ := hf a w1
    exact ⟨n2 ++ n1, by simp only [ht2, ht1, List.append_assoc], hQ.2 _ _ hq1 hq2⟩
  | err e => exact ⟨n1, ht1, hq1⟩
  | panic s => exact ⟨n1, ht1, hq1⟩

theorem TraceProp.of_allOps {α : Type} {P : Op → Prop} {Q : List TraceEv → Prop}
    (hQ : ∀ new, (∀ ev ∈ new, P ev.op) → Q new) {p : Prog α} (hp : Prog.AllOps P p) : TraceProp Q p := by
  intro w
  obtain ⟨new, ht, hP⟩ := Prog.run_trace_ops hp w
  exact ⟨new, ht, hQ new hP⟩

theorem TraceProp.mono {α : Type} {Q Q' : List TraceEv → Prop} (h : ∀ l, Q l → Q' l) {p : Prog α}
    (hp : TraceProp Q p) : TraceProp Q' p := by
  intro w
  obtain ⟨new, ht, hq⟩ := hp w
  exact ⟨new, ht, h _ hq⟩

/-! ### The write-once invariant -/

/-- The key of a write that reported success. -/
def TraceEv.succWrite (ev : TraceEv) : Option Key :=
  match ev.op, ev.resp with
  | .write k _ _, .unit => some k
  | _, _ => none

/-- Not two successful writes to one key. -/
def NoClash (e1 e2 : TraceEv) : Prop := ∀ k, e1.succWrite = some k → e2.succWrite ≠ some k

theorem NoClash.symm {e1 e2 : TraceEv} (h : NoClash e1 e2) : NoClash e2 e1 :=
  fun k h2 h1 => h k h1 h2

def NonEmptyAt (s : Store) (k : Key) : Prop := ∃ v, s.get? k = some v ∧ v ≠ .empty

theorem NonEmptyAt.extends {s s' : Store} {k : Key} (h : NonEmptyAt s k) (hx : Extends s s') : NonEmptyAt s' k := by
  obtain ⟨v, hv, hne⟩ := h
  exact ⟨v, hx.keeps hv hne, hne⟩

/-- The events `T` (in any order, possibly of several actors) are `BackupOp`s; every key that
received a successful write holds a non-empty file in `s`; no two successful writes hit the same key. -/
def WInv (s : Store) (T : List TraceEv) : Prop :=
  (∀ ev ∈ T, BackupOp ev.op) ∧
  (∀ ev ∈ T, ∀ k, ev.succWrite = some k → NonEmptyAt s k) ∧
  T.Pairwise NoClash

theorem WInv.nil (s : Store) : WInv s [] := ⟨by simp, by simp, List.Pairwise.nil⟩

theorem WInv.extends {s s' : Store} {T : List TraceEv} (h : WInv s T) (hx : Extends s s') : WInv s' T :=
  ⟨h.1, fun ev hev k hk => (h.2.1 ev hev k hk).extends hx, h.2.2⟩

theorem WInv.perm {s : Store} {T T' : List TraceEv} (h : WInv s T) (hp : T.Perm T') : WInv s T' :=
  ⟨fun ev hev => h.1 ev (hp.mem_iff.mpr hev),
   fun ev hev => h.2.1 ev (hp.mem_iff.mpr hev),
   (List.Perm.pairwise_iff (fun h => NoClash.symm h) hp).mp h.2.2⟩

theorem WInv.cons_fail {s : Store} {T : List TraceEv} (h : WInv s T) {ev : TraceEv}
    (ho : BackupOp ev.op) (hn : ev.succWrite = none) : WInv s (ev :: T) := by
  refine ⟨?_, ?_, ?_⟩
  · intro e he
    rcases List.mem_cons.mp he with rfl | he
    · exact ho
    · exact h.1 e he
  · intro e he k hk
    rcases List.mem_cons.mp he with rfl | he
    · rw [hn] at hk; cases hk
    · exact h.2.1 e he k hk
  · refine List.pairwise_cons.mpr ⟨?_, h.2.2⟩
    intro e' _ k hk
    rw [hn] at hk; cases hk

theorem succWrite_err (o : Op) (e : ErrKind) : (⟨o, .err e⟩ : TraceEv).succWrite = none := by
  cases o <;> rfl

/-- Characterisation of a recorded successful write. -/
theorem succWrite_some {o : Op} {r : Resp} {k : Key} (h : (⟨o, r⟩ : TraceEv).succWrite = some k) :
    ∃ v m, o = .write k v m ∧ r = .unit := by
  unfold TraceEv.succWrite at h
  split at h
  · rename_i k' v m ho hr
    simp only at ho hr
    cases h
    exact ⟨v, m, ho, hr⟩
  · cases h

/-- One fault-free `BackupOp` step keeps the invariant, with the new event added. -/
theorem WInv.step {s : Store} {T : List TraceEv} (h : WInv s T) {o : Op} (ho : BackupOp o) :
    WInv (applyOp true s o).1 (⟨o, (applyOp true s o).2⟩ :: T) := by
  have hx : Extends s (applyOp true s o).1 := applyOp_extends ho.createOnly
  refine ⟨?_, ?_, ?_⟩
  · intro e he
    rcases List.mem_cons.mp he with rfl | he
    · exact ho
    · exact h.1 e he
  · intro e he k hk
    rcases List.mem_cons.mp he with rfl | he
    · obtain ⟨v, m, rfl, hr⟩ := succWrite_some hk
      rcases applyOp_write_store true s k v m with ⟨_, hs⟩ | ⟨⟨err, hr'⟩, _⟩
      · rw [hs]
        exact ⟨v, by simp [Store.get?_put], ho.2⟩
      · rw [hr'] at hr; cases hr
    · exact (h.2.1 e he k hk).extends hx
  · refine List.pairwise_cons.mpr ⟨?_, h.2.2⟩
    intro e' he' k hk hk'
    obtain ⟨v, m, rfl, hr⟩ := succWrite_some hk
    have hm : m = .createNew := ho.1
    subst hm
    obtain ⟨v', hv', hne⟩ := h.2.1 e' he' k hk'
    rcases applyOp_createNew_pre hr with h0 | h0
    · rw [h0] at hv'; cases hv'
    · rw [h0] at hv'; cases hv'; exact hne rfl

/-- One `exec` of a `BackupOp` in any world honouring `CreateNew` keeps the invariant over
"the events recorded since `t0`, plus the events `T` of anybody else". -/
theorem WInv.exec {w : World} {t0 new T : List TraceEv} (he : w.enforceCreateNew = true)
    (ht : w.trace = new ++ t0) (h : WInv w.store (new ++ T)) {o : Op} (ho : BackupOp o) :
    ∃ new', (w.exec o).1.trace = new' ++ t0 ∧ WInv (w.exec o).1.store (new' ++ T) := by
  rcases (World.exec_cases w o).2 with ⟨hs, htr, _⟩ | ⟨k, v, m, rfl, hr, hs, htr, _⟩ | ⟨e, hs, htr, _⟩ | ⟨hs, htr, _⟩
  · exact ⟨new, by rw [htr, ht], by rw [hs]; exact h⟩
  · refine ⟨new, by rw [htr, ht], ?_⟩
    rw [hs]
    have hm : m = .createNew := ho.1
    subst hm
    rw [he] at hr
    exact h.extends (Extends.put _ (applyOp_createNew_pre hr))
  · refine ⟨⟨o, .err e⟩ :: new, by rw [htr, ht]; rfl, ?_⟩
    rw [hs]
    exact h.cons_fail ho (succWrite_err o e)
  · refine ⟨⟨o, (applyOp true w.store o).2⟩ :: new, by rw [htr, ht, he]; rfl, ?_⟩
    rw [hs, he]
    exact h.step ho

/-- Running a program of `BackupOp`s keeps the invariant. -/
theorem WInv.run {α : Type} {p : Prog α} (hp : Prog.AllOps BackupOp p) {w : World} {t0 new T : List TraceEv}
    (he : w.enforceCreateNew = true) (ht : w.trace = new ++ t0) (h : WInv w.store (new ++ T)) :
    ∃ new', (p.run w).2.trace = new' ++ t0 ∧ WInv (p.run w).2.store (new' ++ T) := by
  have := Prog.run_world_inv (P := BackupOp)
    (I := fun w' => w'.enforceCreateNew = true ∧ ∃ new', w'.trace = new' ++ t0 ∧ WInv w'.store (new' ++ T))
    (fun _ _ h => h)
    (fun w' o ho ⟨he', new', ht', h'⟩ => ⟨by simpa using he', WInv.exec he' ht' h' ho⟩)
    hp w ⟨he, new, ht, h⟩
  exact this.2

/-! ### A failed head write ends the program -/

/-- After every write of a band head, any response but success leads straight to `fail`. -/
inductive HeadGuard {α : Type} : Prog α → Prop
  | ret (a : α) : HeadGuard (.ret a)
  | fail (e : Err) : HeadGuard (.fail e)
  | panic (s : String) : HeadGuard (.panic s)
  | emit (ev : Event) {k : Prog α} : HeadGuard k → HeadGuard (.emit ev k)
  | op {o : Op} {k : Resp → Prog α} : (∀ r, HeadGuard (k r)) →
      (isHeadWrite o → ∀ r, r ≠ .unit → ∃ e, k r = .fail e) → HeadGuard (.op o k)

theorem HeadGuard.bind {α β : Type} {p : Prog α} {f : α → Prog β}
    (hp : HeadGuard p) (hf : ∀ a, HeadGuard (f a)) : HeadGuard (p.bind f) := by
  induction hp with
  | ret a => exact hf a
  | fail e => exact .fail e
  | panic s => exact .panic s
  | emit ev _ ih => exact .emit ev ih
  | op _ hg ih =>
    refine .op ih ?_
    intro hw r hr
    obtain ⟨e, he⟩ := hg hw r hr
    exact ⟨e, by simp [he]⟩

theorem HeadGuard.of_allOps {α : Type} {p : Prog α} (hp : Prog.AllOps (fun o => ¬ isHeadWrite o) p) :
    HeadGuard p := by
  induction hp with
  | ret a => exact .ret a
  | fail e => exact .fail e
  | panic s => exact .panic s
  | emit ev _ ih => exact .emit ev ih
  | op ho _ ih => exact .op ih (fun hw => absurd hw ho)

theorem HeadGuard.of_writerOp {α : Type} {p : Prog α} (hp : Prog.AllOps WriterOp p) : HeadGuard p :=
  HeadGuard.of_allOps (hp.mono fun _ h => h.2.1)

theorem HeadGuard.of_readOnly {α : Type} {p : Prog α} (hp : Prog.AllOps ReadOnly p) : HeadGuard p :=
  HeadGuard.of_writerOp hp.ro_wr

/-- A recorded head write that did not succeed. -/
def FailedHead (ev : TraceEv) : Prop := isHeadWrite ev.op ∧ ev.resp ≠ .unit

/-- Shape of a list of events (newest first): only the newest one may be a failed head write,
and then `F` holds. -/
def HeadLastP (F : Prop) : List TraceEv → Prop
  | [] => True
  | ev :: rest => (∀ e ∈ rest, ¬ FailedHead e) ∧ (FailedHead ev → F)

/-- Shape of the events appended by a run: only the newest one may be a failed head write, and
then the run ended in an error. -/
def HeadLast {α : Type} (out : Outcome α) : List TraceEv → Prop := HeadLastP (∃ e, out = .err e)

/-- Readable consequence: a failed head write anywhere in the list is its newest element, and `F` holds. -/
theorem HeadLastP.of_mem {F : Prop} {l : List TraceEv} (h : HeadLastP F l) {ev : TraceEv} (hev : ev ∈ l)
    (hf : FailedHead ev) : (∃ rest, l = ev :: rest) ∧ F := by
  cases l with
  | nil => cases hev
  | cons e0 rest =>
    rcases List.mem_cons.mp hev with rfl | hin
    · exact ⟨⟨rest, rfl⟩, h.2 hf⟩
    · exact absurd hf (h.1 ev hin)

/-- `exec` records the response it returns. -/
theorem World.exec_trace_resp (w : World) (o : Op) :
    (w.exec o).1.trace = w.trace ∨ (w.exec o).1.trace = ⟨o, (w.exec o).2⟩ :: w.trace := by
  rcases (World.exec_cases w o).2 with ⟨_, ht, _⟩ | ⟨_, _, _, _, _, _, ht, _⟩ | ⟨e, _, ht, hr⟩ | ⟨_, ht, hr⟩
  · exact .inl ht
  · exact .inl ht
  · exact .inr (by rw [ht, hr])
  · exact .inr (by rw [ht, hr])

/-- In every world: if a `HeadGuard` program records a head write that did not succeed, that is the
last operation it records and it ends with a conserve error. -/
theorem HeadGuard.run {α : Type} {p : Prog α} (hp : HeadGuard p) (w : World) :
    ∃ new, (p.run w).2.trace = new ++ w.trace ∧ HeadLast (p.run w).1 new := by
  induction hp generalizing w with
  | ret a => exact ⟨[], rfl, trivial⟩
  | fail e => exact ⟨[], rfl, trivial⟩
  | panic s => exact ⟨[], rfl, trivial⟩
  | emit ev _ ih => simpa using ih { w with events := ev :: w.events }
  | @op o k _ hg ih =>
    rw [Prog.run_op]
    obtain ⟨n1, ht1, hl1⟩ := ih (w.exec o).2 (w.exec o).1
    rcases World.exec_trace_resp w o with ht | ht
    · exact ⟨n1, by rw [ht1, ht], hl1⟩
    · by_cases hfh : FailedHead ⟨o, (w.exec o).2⟩
      · obtain ⟨e, hk⟩ := hg hfh.1 _ hfh.2
        refine ⟨[⟨o, (w.exec o).2⟩], ?_, ?_⟩
        · rw [hk]; simpa using ht
        · rw [hk]; exact ⟨by simp, fun _ => ⟨e, rfl⟩⟩
      · refine ⟨n1 ++ [⟨o, (w.exec o).2⟩], by rw [ht1, ht]; simp, ?_⟩
        cases n1 with
        | nil => exact ⟨by simp, fun h => absurd h hfh⟩
        | cons e1 rest1 =>
          refine ⟨?_, hl1.2⟩
          intro e he
          rcases List.mem_append.mp he with he | he
          · exact hl1.1 e he
          · rw [List.mem_singleton.mp he]; exact hfh

end Conserve
