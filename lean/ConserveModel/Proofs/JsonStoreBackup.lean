import ConserveModel.Proofs.JsonStoreInv
/-
C13 k, part 2: `backup` keeps `StoreJsonGood` in EVERY world (`backup_sj`), and so does
`delete_bands` (`delete_sj`).

Hypotheses: `HashHex H` — the hash, as a file name, is 128 lower-case hex digits — and
`SrcJsonGood src` — what the source walk hands over are values of the Rust types (`String`s are
UTF-8, the mode is a `u32`, whole seconds of the modification time fit an `i64`), the contents of
the regular files add up to less than 2^64 bytes (the combiner's buffer holds a concatenation of
small files and records `u64` offsets into it; after a failed flush the buffer is put back and
keeps growing, so the bound is on the sum), and there are fewer than 2^64 entries (every hunk
holds at least one, and the tail records the number of hunks as a `u64`).

The development follows Proofs/ProducedRange.lean / ProducedBackup.lean (`Rng.WR`, `Rng.RSat`):
writer invariant `WJ remB remE` (entries buffered in `pending`/`finished` are `wfEntry`, queued
ones `MetaOK` with `u64` offsets, buffer length + bytes still to be read < 2^64, hunks written +
entries buffered + entries still to come < 2^64), pure facts about returned writers (`RetSpec`),
the operations of the block level are `BlockOp`s (which never write JSON), and `JSat` from
`finish_hunk` upwards.  Entries copied from the basis version are `wfEntry` because they were read
from a store that is `StoreJsonGood` (`listEntries_jsat`).  No property statements here.
-/
namespace Conserve.JStore
open Conserve Conserve.Inv Conserve.Conf Conserve.Rng Conserve.Json Prog

/-- The block hash, as a file name: 128 lower-case hex digits (BLAKE2b-512 printed by
`BlockHash`'s `Display`). -/
def HashHex (H : Str → Str) : Prop := ∀ d, wfHash (H d) = true

/-- One source entry holds values of the Rust types of `source::Entry`: `Apath(String)`,
`Owner { user: Option<String>, group: Option<String> }`, the symlink target (a `String` after
`to_str`), `UnixMode(Option<u32>)`; and the whole seconds of its modification time fit an `i64`
(any time jiff can represent is far inside: `-377705023201 ≤ seconds ≤ 253402207200`). -/
structure SrcEntryJsonGood (sf : SrcEntry) : Prop where
  apath : validUtf8 sf.apath = true
  user : wfOptStr sf.user = true
  group : wfOptStr sf.group = true
  target : wfOptStr sf.target = true
  mode : sf.unixMode < 4294967296
  mtimeLo : -9223372036854775808 * nanosPerSec ≤ sf.mtimeNs
  mtimeHi : sf.mtimeNs < 9223372036854775808 * nanosPerSec

/-- What `StoreJsonGood` needs of a source listing. -/
structure SrcJsonGood (src : List SrcEntry) : Prop where
  entries : ∀ sf ∈ src, SrcEntryJsonGood sf
  bytes : srcBytes src < u64
  count : src.length < u64

theorem metaOK_metaOf (o : BackupOpts) {sf : SrcEntry} (h : SrcEntryJsonGood sf) : MetaOK (metaOf o sf) := by
  have hpos : (0 : Int) < nanosPerSec := by decide
  have hlo := h.mtimeLo
  have hhi := h.mtimeHi
  have hf1 := Int.fmod_lt_of_pos sf.mtimeNs hpos
  have hf0 := Int.fmod_nonneg_of_pos sf.mtimeNs hpos
  have hdm := Int.fmod_add_mul_fdiv sf.mtimeNs nanosPerSec
  unfold nanosPerSec at *
  refine ⟨h.apath, ?_, ?_, ?_, ?_, ?_, ?_, h.target⟩
  · show -9223372036854775808 ≤ sf.mtimeNs.fdiv 1000000000
    omega
  · show sf.mtimeNs.fdiv 1000000000 < 9223372036854775808
    omega
  · show (sf.mtimeNs.fmod 1000000000).toNat < 4294967296
    omega
  · show wfOptU32 (some sf.unixMode) = true
    exact decide_eq_true h.mode
  · show wfOptStr (if o.owner then sf.user else none) = true
    split
    · exact h.user
    · rfl
  · show wfOptStr (if o.owner then sf.group else none) = true
    split
    · exact h.group
    · rfl

theorem wf_metaOf (o : BackupOpts) {sf : SrcEntry} (h : SrcEntryJsonGood sf) : wfEntry (metaOf o sf) = true :=
  (wfEntry_iff _).2 ⟨metaOK_metaOf o h, fun _ ha => nomatch ha⟩

theorem wf_metaOf_addrs (o : BackupOpts) {sf : SrcEntry} (h : SrcEntryJsonGood sf) {as : List Addr}
    (ha : ∀ a ∈ as, wfAddr a = true) : wfEntry { metaOf o sf with addrs := as } = true :=
  (wfEntry_iff _).2 ⟨(metaOK_metaOf o h).setAddrs as, ha⟩

/-! ### The writer invariant -/

/-- The writer part of the invariant; `remB` = bytes of the files still to be read, `remE` = source
entries still to come. -/
structure WJ (remB remE : Nat) (wr : Writer) : Prop where
  pending : ∀ e ∈ wr.pending, wfEntry e = true
  finished : ∀ e ∈ wr.finished, wfEntry e = true
  queue : ∀ q ∈ wr.queue, MetaOK q.2.2 ∧ q.1 + q.2.1 < u64
  buf : wr.buf.length + remB < u64
  count : wr.hunksWritten + wr.pending.length + wr.finished.length + wr.queue.length + remE < u64

theorem WJ.weaken {remB remE remB' remE' : Nat} {wr : Writer} (h : WJ remB remE wr) (hb : remB' ≤ remB)
    (he : remE' ≤ remE) : WJ remB' remE' wr :=
  ⟨h.pending, h.finished, h.queue, by have := h.buf; omega, by have := h.count; omega⟩

theorem WJ.setES {remB remE : Nat} {wr : Writer} (h : WJ remB remE wr) (ex : List Str) (st : Stats) :
    WJ remB remE { wr with exists_ := ex, stats := st } := ⟨h.pending, h.finished, h.queue, h.buf, h.count⟩

theorem WJ.setStats {remB remE : Nat} {wr : Writer} (h : WJ remB remE wr) (st : Stats) :
    WJ remB remE { wr with stats := st } := ⟨h.pending, h.finished, h.queue, h.buf, h.count⟩

/-- One more pending entry, taken from the entries still to come. -/
theorem WJ.pushPending {remB remE : Nat} {wr : Writer} (h : WJ remB (1 + remE) wr) {e : IndexEntry}
    (he : wfEntry e = true) (st : Stats) :
    WJ remB remE { wr with pending := wr.pending ++ [e], stats := st } := by
  refine ⟨?_, h.finished, h.queue, h.buf, ?_⟩
  · intro e' he'
    simp only [List.mem_append, List.mem_singleton] at he'
    rcases he' with he' | rfl
    · exact h.pending e' he'
    · exact he
  · have := h.count
    simp only [List.length_append, List.length_cons, List.length_nil]
    omega

/-! ### The block-level functions: pure facts about the writer they return -/

section
variable (H : Str → Str)

/-- `store_or_deduplicate` returns the writer with another `exists` set and other statistics, and
the hash it returns is the hash of the data. -/
theorem storeOrDedup_retH (wr : Writer) (data : Str) :
    RetSpec (storeOrDedup H wr data) (fun x =>
      (∃ ex st, x.1 = { wr with exists_ := ex, stats := st }) ∧ ∀ h, x.2 = .ok h → h = H data) := by
  unfold storeOrDedup perform
  simp only [Prog.bind_def, Prog.pure_def, Prog.op_bind, Prog.ret_bind]
  split
  · exact RetSpec.ret ⟨⟨_, _, rfl⟩, fun h hh => by cases hh; rfl⟩
  · apply RetSpec.op; intro r1
    split
    · exact RetSpec.ret ⟨⟨wr.exists_, wr.stats, rfl⟩, fun _ hh => nomatch hh⟩
    · apply RetSpec.op; intro r2
      split
      · exact RetSpec.ret ⟨⟨_, _, rfl⟩, fun h hh => by cases hh; rfl⟩
      · exact RetSpec.ret ⟨⟨wr.exists_, wr.stats, rfl⟩, fun _ hh => nomatch hh⟩
      · exact RetSpec.ret ⟨⟨wr.exists_, wr.stats, rfl⟩, fun _ hh => nomatch hh⟩

variable {H} (hH : HashHex H)
include hH

theorem combinerFlush_wj {remB remE : Nat} (wr : Writer) (hwr : WJ remB remE wr) :
    RetSpec (combinerFlush H wr) (fun x => WJ remB remE x.1) := by
  unfold combinerFlush
  simp only [Prog.bind_def, Prog.pure_def]
  split
  · exact RetSpec.ret hwr
  · refine RetSpec.bind (storeOrDedup_retH H _ _) ?_
    rintro ⟨w1, r⟩ ⟨⟨ex, st, hw1⟩, hh⟩
    simp only at hw1
    subst hw1
    cases r with
    | error e => exact RetSpec.ret ⟨hwr.pending, hwr.finished, hwr.queue, hwr.buf, hwr.count⟩
    | ok h =>
      have hwf : wfHash h = true := by rw [hh h rfl]; exact hH _
      refine RetSpec.ret ⟨hwr.pending, ?_, (by intro q hq; cases hq), ?_, ?_⟩
      · intro e he
        simp only [List.mem_append, List.mem_map] at he
        rcases he with he | ⟨q, hq, rfl⟩
        · exact hwr.finished e he
        · obtain ⟨start, len, e0⟩ := q
          obtain ⟨hm, hle⟩ := hwr.queue _ hq
          refine (wfEntry_iff _).2 ⟨hm.setAddrs _, ?_⟩
          intro a ha
          simp only [List.mem_singleton] at ha
          subst ha
          simp only at hle
          exact (wfAddr_iff _).2 ⟨hwf, by simp only; omega, by simp only; omega⟩
      · have := hwr.buf
        simp only [List.length_nil]
        omega
      · have := hwr.count
        simp only [List.length_append, List.length_map, List.length_nil]
        omega

theorem combinerPush_wj {remB remE : Nat} (o : BackupOpts) (wr : Writer) (sf : SrcEntry)
    (hwr : WJ (sf.content.length + remB) (1 + remE) wr) (hs : SrcEntryJsonGood sf) :
    RetSpec (combinerPush H o wr sf) (fun x => WJ remB remE x.1) := by
  unfold combinerPush
  simp only [metadataFrom_eq, Prog.pure_def]
  have hlen : (sf.content.take sf.size).length ≤ sf.content.length := by
    rw [List.length_take]; omega
  split
  · refine RetSpec.ret ⟨hwr.pending, ?_, hwr.queue,
      (by have := hwr.buf; show wr.buf.length + remB < u64; omega), ?_⟩
    · intro e he
      simp only [List.mem_append, List.mem_singleton] at he
      rcases he with he | rfl
      · exact hwr.finished e he
      · exact wf_metaOf o hs
    · have := hwr.count
      simp only [List.length_append, List.length_cons, List.length_nil]
      omega
  · have hwr2 : WJ remB remE
        { wr with buf := wr.buf ++ sf.content.take sf.size,
                  queue := wr.queue ++ [(wr.buf.length, (sf.content.take sf.size).length, metaOf o sf)],
                  stats := { wr.stats with smallCombinedFiles := wr.stats.smallCombinedFiles + 1 } } := by
      refine ⟨hwr.pending, hwr.finished, ?_, ?_, ?_⟩
      · intro q hq
        simp only [List.mem_append, List.mem_singleton] at hq
        rcases hq with hq | rfl
        · exact hwr.queue q hq
        · exact ⟨metaOK_metaOf o hs, by have := hwr.buf; simp only; omega⟩
      · have := hwr.buf
        simp only [List.length_append]
        omega
      · have := hwr.count
        simp only [List.length_append, List.length_cons, List.length_nil]
        omega
    split
    · exact combinerFlush_wj hH _ hwr2
    · exact RetSpec.ret hwr2

theorem storeChunks_addrs (cs : List Str) :
    ∀ (wr : Writer) (acc : List Addr), (∀ a ∈ acc, wfAddr a = true) → (∀ c ∈ cs, c.length < u64) →
      RetSpec (storeChunks H wr cs acc) (fun x =>
        (∃ ex st, x.1 = { wr with exists_ := ex, stats := st }) ∧
        ∀ addrs, x.2 = .ok addrs → ∀ a ∈ addrs, wfAddr a = true) := by
  induction cs with
  | nil =>
    intro wr acc hacc _
    exact RetSpec.ret ⟨⟨_, _, rfl⟩, fun addrs h => by cases h; exact hacc⟩
  | cons c cs ih =>
    intro wr acc hacc hcs
    unfold storeChunks
    simp only [Prog.bind_def, Prog.pure_def]
    refine RetSpec.bind (storeOrDedup_retH H _ _) ?_
    rintro ⟨w1, r⟩ ⟨⟨ex, st, hw1⟩, hh⟩
    simp only at hw1
    subst hw1
    cases r with
    | error e => exact RetSpec.ret ⟨⟨_, _, rfl⟩, fun _ h => nomatch h⟩
    | ok h =>
      refine (ih _ _ ?_ (fun c' hc' => hcs c' (List.mem_cons_of_mem _ hc'))).mono ?_
      · intro a ha
        simp only [List.mem_append, List.mem_singleton] at ha
        rcases ha with ha | rfl
        · exact hacc a ha
        · have := hcs c (List.mem_cons_self ..)
          exact (wfAddr_iff _).2 ⟨by rw [hh h rfl]; exact hH _, by show 0 < u64; decide, this⟩
      · rintro x ⟨⟨ex', st', hx⟩, hres⟩
        exact ⟨⟨ex', st', hx⟩, hres⟩

theorem storeFileContent_addrs (o : BackupOpts) (wr : Writer) (sf : SrcEntry)
    (hlen : sf.content.length < u64) :
    RetSpec (storeFileContent H o wr sf) (fun x =>
      (∃ ex st, x.1 = { wr with exists_ := ex, stats := st }) ∧
      ∀ addrs, x.2 = .ok addrs → ∀ a ∈ addrs, wfAddr a = true) := by
  unfold storeFileContent
  simp only [Prog.bind_def, Prog.pure_def]
  refine RetSpec.bind (storeChunks_addrs hH _ wr [] (fun _ h => nomatch h)
    (fun c hc => Nat.lt_of_le_of_lt (chunks_le _ _ c hc) hlen)) ?_
  rintro ⟨w1, r⟩ ⟨⟨ex, st, hw1⟩, hres⟩
  simp only at hw1
  subst hw1
  cases r with
  | error e => exact RetSpec.ret ⟨⟨_, _, rfl⟩, fun _ h => nomatch h⟩
  | ok addrs =>
    refine RetSpec.ret ⟨⟨_, _, rfl⟩, ?_⟩
    intro addrs' h
    cases h
    exact hres addrs rfl

theorem copyFileStore_wj {remB remE : Nat} (o : BackupOpts) (wr : Writer) (ck : ChangeKind) (sf : SrcEntry)
    (hwr : WJ (sf.content.length + remB) (1 + remE) wr) (hs : SrcEntryJsonGood sf) :
    RetSpec (copyFileStore H o wr ck sf) (fun x => WJ remB remE x.1) := by
  have hw1 : WJ remB (1 + remE) wr := hwr.weaken (by omega) (Nat.le_refl _)
  have hw0 : WJ remB remE wr := hwr.weaken (by omega) (by omega)
  unfold copyFileStore
  simp only [metadataFrom_eq, Prog.pure_def, Prog.bind_def]
  split
  · exact RetSpec.ret (hw1.pushPending (wf_metaOf o hs) _)
  · split
    · refine RetSpec.bind (combinerPush_wj hH o wr sf hwr hs) ?_
      rintro ⟨w1, r⟩ hwr1
      cases r with
      | error e => exact RetSpec.ret hwr1
      | ok u => exact RetSpec.ret hwr1
    · refine RetSpec.bind (storeFileContent_addrs hH o wr sf (by have := hwr.buf; omega)) ?_
      rintro ⟨w1, r⟩ ⟨⟨ex, st, hw1'⟩, hres⟩
      simp only at hw1'
      subst hw1'
      cases r with
      | error e => exact RetSpec.ret (hw0.setES ex st)
      | ok addrs =>
        exact RetSpec.ret ((hw1.setES ex st).pushPending (wf_metaOf_addrs o hs (hres addrs rfl)) st)

theorem copyFile_wj {remB remE : Nat} (o : BackupOpts) (wr : Writer) (basis : Option IndexEntry) (sf : SrcEntry)
    (hwr : WJ (sf.content.length + remB) (1 + remE) wr) (hs : SrcEntryJsonGood sf)
    (hbasis : ∀ b, basis = some b → ∀ a ∈ b.addrs, wfAddr a = true) :
    RetSpec (copyFile H o wr basis sf) (fun x => WJ remB remE x.1) := by
  cases basis with
  | none =>
    rw [copyFile_none]
    exact copyFileStore_wj hH o _ _ sf (hwr.setStats _) hs
  | some b =>
    cases hh : heuristicallyUnchanged sf b with
    | none => rw [copyFile_panic o wr b sf hh]; exact RetSpec.panic
    | some t =>
      cases t with
      | false =>
        rw [copyFile_changed o wr b sf hh]
        exact copyFileStore_wj hH o _ _ sf (hwr.setStats _) hs
      | true =>
        cases hall : b.addrs.all (fun a => wr.exists_.contains a.hash) with
        | false =>
          rw [copyFile_damaged o wr b sf hh hall]
          exact copyFileStore_wj hH o _ _ sf (hwr.setStats _) hs
        | true =>
          obtain ⟨st', ck, heq⟩ := copyFile_unchanged (H := H) o wr b sf hh hall
          rw [heq]
          exact RetSpec.ret ((hwr.weaken (by omega) (Nat.le_refl _)).pushPending
            (wf_metaOf_addrs o hs (hbasis b rfl)) st')

theorem copyEntry_wj {remB remE : Nat} (o : BackupOpts) (wr : Writer) (basis : Option IndexEntry) (sf : SrcEntry)
    (hwr : WJ (fileBytes sf + remB) (1 + remE) wr) (hs : SrcEntryJsonGood sf)
    (hbasis : ∀ b, basis = some b → ∀ a ∈ b.addrs, wfAddr a = true) :
    RetSpec (copyEntry H o wr basis sf) (fun x => WJ remB remE x.1) := by
  have hw1 : WJ remB (1 + remE) wr := hwr.weaken (by omega) (Nat.le_refl _)
  unfold copyEntry
  simp only [metadataFrom_eq, Prog.pure_def]
  cases hk : sf.kind with
  | file =>
    have : fileBytes sf = sf.content.length := by simp [fileBytes, hk]
    rw [this] at hwr
    exact copyFile_wj hH o wr basis sf hwr hs hbasis
  | dir => exact RetSpec.ret (hw1.pushPending (wf_metaOf o hs) _)
  | symlink => exact RetSpec.ret (hw1.pushPending (wf_metaOf o hs) _)
  | unknown => exact RetSpec.ret ((hw1.weaken (Nat.le_refl _) (by omega)).setStats _)

/-- `copy_entry` in every world: its operations are block operations, which write no JSON. -/
theorem copyEntry_jsat {remB remE : Nat} (o : BackupOpts) (wr : Writer) (basis : Option IndexEntry) (sf : SrcEntry)
    (hwr : WJ (fileBytes sf + remB) (1 + remE) wr) (hs : SrcEntryJsonGood sf)
    (hbasis : ∀ b, basis = some b → ∀ a ∈ b.addrs, wfAddr a = true) :
    JSat (copyEntry H o wr basis sf) (fun x => WJ remB remE x.1) :=
  JSat.of_ops (AllOps.blk_j (copyEntry_blk H o wr basis sf)) (copyEntry_wj hH o wr basis sf hwr hs hbasis)

/-- `FileCombiner::flush` in every world. -/
theorem combinerFlush_jsat {remB remE : Nat} (wr : Writer) (hwr : WJ remB remE wr) :
    JSat (combinerFlush H wr) (fun x => WJ remB remE x.1) :=
  JSat.of_ops (AllOps.blk_j (combinerFlush_blk H wr)) (combinerFlush_wj hH wr hwr)

omit hH in
/-- `IndexWriter::finish_hunk` in every world: the hunk written holds the pending entries, which
are `WfEntries`; it holds at least one, so the hunk count stays below the entry count. -/
theorem finishHunk_jsat {remB remE : Nat} (wr : Writer) (hwr : WJ remB remE wr) :
    JSat (finishHunk wr) (fun wr' => WJ remB remE wr') := by
  unfold finishHunk
  simp only [Prog.bind_def, Prog.pure_def]
  have hwrite : JOp (.write (.hunk wr.band wr.sequence)
      (.hunk (wr.pending.mergeSort fun a b => apathLe a.apath b.apath)) .createNew) :=
    jop_write (fun e he => hwr.pending e (List.mem_mergeSort.mp he))
  have hdir : JOp (.createDir (.hunkDir wr.band (wr.sequence / hunksPerSubdir))) := jop_createDir _
  split
  · exact JSat.ret hwr
  · rename_i hne
    have hdone : WJ remB remE
        { wr with pending := [], sequence := wr.sequence + 1, hunksWritten := wr.hunksWritten + 1 } := by
      refine ⟨(by intro e he; cases he), hwr.finished, hwr.queue, hwr.buf, ?_⟩
      have := hwr.count
      have hpos : 0 < wr.pending.length := by
        cases hp : wr.pending with
        | nil => simp [hp] at hne
        | cons _ _ => simp
      simp only [List.length_nil]
      omega
    split
    · refine JSat.bind (performUnit_jsat hdir) fun _ _ => ?_
      exact JSat.bind (performUnit_jsat hwrite) fun _ _ => JSat.ret hdone
    · exact JSat.bind (performUnit_jsat hwrite) fun _ _ => JSat.ret hdone

/-- `BackupWriter::flush_group` in every world. -/
theorem flushGroup_jsat {remB remE : Nat} (wr : Writer) (hwr : WJ remB remE wr) :
    JSat (flushGroup H wr) (fun wr' => WJ remB remE wr') := by
  unfold flushGroup
  simp only [Prog.bind_def]
  refine JSat.bind (combinerFlush_jsat hH wr hwr) ?_
  rintro ⟨wr1, r⟩ hwr1
  cases r with
  | error e => exact JSat.fail
  | ok u =>
    refine finishHunk_jsat _ ⟨?_, (by intro e he; cases he), hwr1.queue, hwr1.buf, ?_⟩
    · intro e he
      rcases List.mem_append.mp he with he | he
      · exact hwr1.pending e he
      · exact hwr1.finished e he
    · have := hwr1.count
      simp only [List.length_append, List.length_nil] at this ⊢
      omega

/-! ### The main loop -/

/-- What the loop needs of one merged pair: the basis entry's addresses are well-formed. -/
def MatchedJ : Matched → Prop
  | .both b _ => ∀ a ∈ b.addrs, wfAddr a = true
  | _ => True

omit hH in
theorem mergeTrees_matchedJ {basis : List IndexEntry} (hb : ∀ b ∈ basis, ∀ a ∈ b.addrs, wfAddr a = true)
    (bs : List IndexEntry) (ss : List SrcEntry) (hbs : ∀ b ∈ bs, b ∈ basis) :
    ∀ m ∈ mergeTrees bs ss, MatchedJ m := by
  fun_induction mergeTrees bs ss with
  | case1 ss =>
    intro m hm
    obtain ⟨x, _, rfl⟩ := List.mem_map.mp hm
    trivial
  | case2 bs _ =>
    intro m hm
    obtain ⟨x, _, rfl⟩ := List.mem_map.mp hm
    trivial
  | case3 b bs x ss hcmp ih =>
    intro m hm
    rcases List.mem_cons.mp hm with rfl | hm
    · exact hb b (hbs b (List.mem_cons_self ..))
    · exact ih (fun b' hb' => hbs b' (List.mem_cons_of_mem _ hb')) m hm
  | case4 b bs x ss hcmp ih =>
    intro m hm
    rcases List.mem_cons.mp hm with rfl | hm
    · trivial
    · exact ih (fun b' hb' => hbs b' (List.mem_cons_of_mem _ hb')) m hm
  | case5 b bs x ss hcmp ih =>
    intro m hm
    rcases List.mem_cons.mp hm with rfl | hm
    · trivial
    · exact ih hbs m hm

/-- After `copy_entry`: log or report, maybe flush the group, go on. -/
theorem loopCont_jsat (o : BackupOpts) (sf : SrcEntry) (rest : List Matched) {remB remE : Nat}
    (ih : ∀ wr, WJ remB remE wr → JSat (backupLoop H o wr rest) (fun wr' => WJ 0 0 wr'))
    (x : Writer × Except Err (Option ChangeKind)) (hx : WJ remB remE x.1) :
    JSat (loopCont H o sf rest x) (fun wr' => WJ 0 0 wr') := by
  obtain ⟨wr, r⟩ := x
  cases r with
  | error e =>
    simp only [loopCont, logError, Prog.emit_bind, Prog.ret_bind]
    exact JSat.emit (ih _ (hx.setStats _))
  | ok ch =>
    have hrest : JSat ((if wr.pending.length + wr.queue.length ≥ o.maxEntriesPerHunk then flushGroup H wr
        else Prog.ret wr).bind fun w => backupLoop H o w rest) (fun wr' => WJ 0 0 wr') := by
      refine JSat.bind (Q1 := fun w => WJ remB remE w) ?_ (fun w hw => ih w hw)
      split
      · exact flushGroup_jsat hH wr hx
      · exact JSat.ret hx
    cases ch with
    | none =>
      simp only [loopCont, Prog.ret_bind]
      exact hrest
    | some ck =>
      simp only [loopCont, report, Prog.emit_bind, Prog.ret_bind]
      exact JSat.emit hrest

/-- The main loop of `backup()` in every world. -/
theorem backupLoop_jsat (o : BackupOpts) (ms : List Matched) :
    ∀ (wr : Writer), WJ (srcBytes (srcOf ms)) (srcOf ms).length wr → (∀ sf ∈ srcOf ms, SrcEntryJsonGood sf) →
      (∀ m ∈ ms, MatchedJ m) → JSat (backupLoop H o wr ms) (fun wr' => WJ 0 0 wr') := by
  induction ms with
  | nil =>
    intro wr hwr _ _
    rw [backupLoop]
    exact JSat.ret (hwr.weaken (Nat.zero_le _) (Nat.zero_le _))
  | cons m rest ih =>
    intro wr hwr ht hms
    have hrest : ∀ m ∈ rest, MatchedJ m := fun m hm => hms m (List.mem_cons_of_mem _ hm)
    have hm := hms m (List.mem_cons_self ..)
    cases m with
    | left b =>
      rw [backupLoop_left]
      simp only [report, Prog.emit_bind, Prog.ret_bind]
      exact JSat.emit (ih wr hwr ht hrest)
    | right sf =>
      have ht' : ∀ x ∈ srcOf rest, SrcEntryJsonGood x := fun x hx => ht x (List.mem_cons_of_mem _ hx)
      have hwr' : WJ (fileBytes sf + srcBytes (srcOf rest)) (1 + (srcOf rest).length) wr := by
        simpa [srcOf, srcBytes, Nat.add_comm] using hwr
      rw [backupLoop_right]
      refine JSat.bind (copyEntry_jsat hH o wr none sf hwr' (ht sf (List.mem_cons_self ..))
        (fun _ h => nomatch h)) ?_
      intro x hx
      exact loopCont_jsat hH o sf rest (fun wr hwr => ih wr hwr ht' hrest) x hx
    | both b sf =>
      have ht' : ∀ x ∈ srcOf rest, SrcEntryJsonGood x := fun x hx => ht x (List.mem_cons_of_mem _ hx)
      have hwr' : WJ (fileBytes sf + srcBytes (srcOf rest)) (1 + (srcOf rest).length) wr := by
        simpa [srcOf, srcBytes, Nat.add_comm] using hwr
      rw [backupLoop_both]
      refine JSat.bind (copyEntry_jsat hH o wr (some b) sf hwr' (ht sf (List.mem_cons_self ..))
        (fun b' hb' => by cases hb'; exact hm)) ?_
      intro x hx
      exact loopCont_jsat hH o sf rest (fun wr hwr => ih wr hwr ht' hrest) x hx

/-- The main part of `backup()` in every world: the hunks hold `WfEntries`, and the tail a hunk
count below 2^64. -/
theorem backupMain_jsat (o : BackupOpts) {src : List SrcEntry} (hsrc : SrcJsonGood src)
    (x : Nat × List Str × List IndexEntry) (hb : ∀ b ∈ x.2.2, ∀ a ∈ b.addrs, wfAddr a = true) :
    JSat (backupMain H o src x) (fun _ => True) := by
  unfold backupMain
  have hwr0 : WJ (srcBytes (srcOf (mergeTrees x.2.2 src))) (srcOf (mergeTrees x.2.2 src)).length
      { band := x.1, exists_ := x.2.1 } := by
    rw [srcOf_mergeTrees]
    exact ⟨(by intro e he; cases he), (by intro e he; cases he), (by intro q hq; cases hq),
      (by have := hsrc.bytes; simpa using this), (by have := hsrc.count; simpa using this)⟩
  refine JSat.bind (backupLoop_jsat hH o _ _ hwr0 (by rw [srcOf_mergeTrees]; exact hsrc.entries)
    (mergeTrees_matchedJ hb _ _ (fun _ h => h))) ?_
  intro wr1 hwr1
  refine JSat.bind (flushGroup_jsat hH wr1 hwr1) ?_
  intro wr2 hwr2
  refine JSat.bind (finishHunk_jsat wr2 hwr2) ?_
  intro wr3 hwr3
  unfold bandClose
  have hcount : wr3.hunksWritten < u64 := by have := hwr3.count; omega
  exact JSat.bind (performUnit_jsat (jop_write (v := .tail (some wr3.hunksWritten)) hcount))
    fun _ _ => JSat.ret trivial

end

/-! ### The prelude -/

/-- `Band::create` writes the head `{…,"band_format_version":"<this version>","format_flags":[]}`. -/
theorem bandCreate_j : Prog.AllOps JOp bandCreate := by
  unfold bandCreate
  simp only [Prog.bind_def, Prog.pure_def]
  refine Prog.AllOps.bind (AllOps.ro_j _root_.Conserve.lastBandId_ro) fun _ => ?_
  refine Prog.AllOps.bind (performUnit_allOps (jop_createDir _)) fun _ => ?_
  refine Prog.AllOps.bind (performUnit_allOps (jop_createDir _)) fun _ => ?_
  exact Prog.AllOps.bind (performUnit_allOps (jop_write (v := .head .ok []) (fun _ h => nomatch h)))
    fun _ => .ret _

/-- Every entry a listing returns is an entry of some hunk of the store, hence `wfEntry`. -/
theorem listEntries_jsat (b : Nat) (subtree : Str) (excl : Str → Bool) :
    JSat (listEntries b subtree excl) (fun basis => ∀ e ∈ basis, wfEntry e = true) := by
  intro t0 w hw
  obtain ⟨_, hfh⟩ := listEntries_spec w.store b subtree excl w rfl
  refine ⟨run_winv (AllOps.ro_j (_root_.Conserve.listEntries_ro b subtree excl)) w hw, fun basis hb e he => ?_⟩
  obtain ⟨b', n, es, hes, hmem⟩ := hfh basis hb e he
  have hget : w.store.get? (.hunk b' n) = some (.hunk es) := by
    unfold hunkAt at hes
    split at hes
    · rename_i es' hg; cases hes; exact hg
    · cases hes
  exact hw.1.get hget e hmem

/-- The prelude in every world: the basis listing it returns consists of well-formed entries. -/
theorem backupPrelude_jsat :
    JSat backupPrelude (fun x => ∀ b ∈ x.2.2, ∀ a ∈ b.addrs, wfAddr a = true) := by
  unfold backupPrelude
  refine JSat.bind (ro_jsat _root_.Conserve.gcIsLocked_ro) fun locked _ => ?_
  split
  · exact JSat.fail
  · refine JSat.bind (ro_jsat _root_.Conserve.lastBandId_ro) fun basisBand _ => ?_
    refine JSat.bind (JSat.of_ops bandCreate_j (fun _ _ _ => trivial)) fun band _ => ?_
    refine JSat.bind (ro_jsat _root_.Conserve.gcLockListed_ro) fun locked2 _ => ?_
    split
    · exact JSat.fail
    refine JSat.bind (ro_jsat _root_.Conserve.listBlocks_ro) fun blocks _ => ?_
    cases basisBand with
    | none => exact JSat.ret (fun _ h => nomatch h)
    | some b =>
      refine JSat.bind (listEntries_jsat b _ _) fun basis hbasis => ?_
      exact JSat.ret (fun e he => ((wfEntry_iff e).1 (hbasis e he)).2)

/-- **`backup` keeps `StoreJsonGood` in every world, and attempts only `JOp` operations**: any
faults, any crash point, dead or alive, any options, sorted source or not, `CreateNew` enforced or not. -/
theorem backup_winv {H : Str → Str} (hH : HashHex H) (o : BackupOpts) {src : List SrcEntry}
    (hsrc : SrcJsonGood src) (w : World) (h : StoreJsonGood w.store) :
    WInv w.trace ((backup H o src).run w).2 := by
  rw [backup_eq]
  exact ((JSat.bind backupPrelude_jsat fun x hx => backupMain_jsat hH o hsrc x hx) _ w (WInv.start h)).1

theorem backup_sj {H : Str → Str} (hH : HashHex H) (o : BackupOpts) {src : List SrcEntry}
    (hsrc : SrcJsonGood src) (w : World) (h : StoreJsonGood w.store) :
    StoreJsonGood ((backup H o src).run w).2.store := (backup_winv hH o hsrc w h).1

/-! ### `delete_bands` -/

/-- Side goals `JOp o` for a concrete operation that is not a write of a hunk, head or tail. -/
macro "j_side" : tactic =>
  `(tactic| first
    | assumption
    | (intro _ _ _ h; cases h <;> trivial))

/-- Structural proof of `AllOps JOp prog` (as `nhwops` of Proofs/ProducedBackup.lean). -/
syntax "jops" ("[" term,* "]")? : tactic
macro_rules
  | `(tactic| jops) => `(tactic| jops [])
  | `(tactic| jops [$ts,*]) => do
    let mut alts : Array (Lean.TSyntax `Lean.Parser.Tactic.tacticSeq) := #[]
    for t in ts.getElems do
      alts := alts.push (← `(tacticSeq| apply $t))
      alts := alts.push (← `(tacticSeq| (apply AllOps.ro_j; apply $t)))
    `(tactic| repeat (first
      | exact Prog.AllOps.ret _
      | exact Prog.AllOps.fail _
      | exact Prog.AllOps.panic _
      | exact Prog.AllOps.logError _
      | exact Prog.AllOps.report _
      | assumption
      | (first $[| $alts]* | fail)
      | (apply Prog.AllOps.perform; j_side)
      | apply Prog.AllOps.emit
      | apply Prog.AllOps.bind
      | apply Prog.AllOps.attempt
      | apply Prog.AllOps.attemptAll
      | (apply Prog.AllOps.op; j_side)
      | j_side
      | intro _
      | split
      | simp only [Prog.bind_def, Prog.pure_def]
      | dsimp only))

theorem gcLockNew_j : Prog.AllOps JOp gcLockNew := by
  unfold gcLockNew
  jops [_root_.Conserve.lastBandId_ro, _root_.Conserve.bandIsClosed_ro, unwrapOr_allOps,
    _root_.Conserve.isFile_ro, performUnit_allOps]

theorem gcBreakLock_j : Prog.AllOps JOp gcBreakLock := by
  unfold gcBreakLock
  have h1 : Prog.AllOps JOp gcIsLocked := AllOps.ro_j _root_.Conserve.gcIsLocked_ro
  have h2 := gcLockNew_j
  jops [performUnit_allOps]

theorem gcLockRelease_j : Prog.AllOps JOp gcLockRelease := by
  unfold gcLockRelease
  exact performUnit_allOps (jop_removeFile _)

theorem gcLockDrop_j : Prog.AllOps JOp gcLockDrop := by
  unfold gcLockDrop
  jops

theorem gcLockReleaseOnError_j : Prog.AllOps JOp gcLockReleaseOnError := by
  unfold gcLockReleaseOnError
  have h4 := gcLockDrop_j
  jops

theorem bandDelete_j (b : Nat) : Prog.AllOps JOp (bandDelete b) := by
  unfold bandDelete
  jops

theorem delBands_j (bs : List Nat) (n : Nat) : Prog.AllOps JOp (deleteBody.delBands bs n) := by
  induction bs generalizing n with
  | nil => unfold deleteBody.delBands; jops
  | cons b bs ih =>
    unfold deleteBody.delBands
    have h1 := bandDelete_j b
    jops [ih]

theorem delBlocks_j (hs : List Str) (errs : Nat) : Prog.AllOps JOp (deleteBody.delBlocks hs errs) := by
  induction hs generalizing errs with
  | nil => unfold deleteBody.delBlocks; jops
  | cons h hs ih =>
    unfold deleteBody.delBlocks
    jops [ih]

theorem deleteBody_j (strict : Bool) (D : List Nat) (o : DeleteOpts) (held : Option Nat) :
    Prog.AllOps JOp (deleteBody strict D o held) := by
  unfold deleteBody
  have h1 : Prog.AllOps JOp listBandIds := AllOps.ro_j _root_.Conserve.listBandIds_ro
  have h2 := fun bs => AllOps.ro_j (referencedBlocks_ro strict bs)
  have h3 : Prog.AllOps JOp listBlocks := AllOps.ro_j _root_.Conserve.listBlocks_ro
  have h4 := fun hs => AllOps.ro_j (deleteBody_measure_ro hs)
  have h5 := AllOps.ro_j (gcLockCheck_ro held)
  have h6 := gcLockRelease_j
  jops [h2, h4, delBands_j, delBlocks_j]

/-- `delete_bands` writes nothing but the lock file. -/
theorem deleteBands_j (strict : Bool) (D : List Nat) (o : DeleteOpts) :
    Prog.AllOps JOp (deleteBands strict D o) := by
  unfold deleteBands
  have h1 := gcLockNew_j
  have h2 := gcBreakLock_j
  have h3 := gcLockDrop_j
  have h3' := gcLockReleaseOnError_j
  jops [deleteBody_j]

/-- **`delete_bands` (either mode) keeps `StoreJsonGood` in every world.** -/
theorem delete_sj (strict : Bool) (D : List Nat) (o : DeleteOpts) (w : World) (h : StoreJsonGood w.store) :
    StoreJsonGood ((deleteBands strict D o).run w).2.store :=
  run_sj (deleteBands_j strict D o) w h

end Conserve.JStore
