import ConserveModel.Proofs.StitchPure
/-
Store-level facts under `ArchWF`: what the two-level directory listing of
`IndexRead::hunks_available` returns, that every listed hunk file can be read, and that each
band's own entries are sorted.  No property statements.
-/
namespace Conserve

/-! ### Lookups in an association list -/

theorem get?_mem {s : Store} {k : Key} {v : FileVal} (h : s.get? k = some v) : (k, v) ∈ s := by
  unfold Store.get? at h
  induction s with
  | nil => simp [List.lookup] at h
  | cons kv t ih =>
    obtain ⟨k', v'⟩ := kv
    rw [List.lookup_cons] at h
    by_cases hk : k == k'
    · simp only [hk] at h
      have : k = k' := by simpa using hk
      simp_all
    · simp only [hk] at h
      exact List.mem_cons_of_mem _ (ih h)

theorem mem_get? {s : Store} (hn : (s.map (·.1)).Nodup) {k : Key} {v : FileVal} (h : (k, v) ∈ s) :
    s.get? k = some v := by
  unfold Store.get?
  induction s with
  | nil => simp at h
  | cons kv t ih =>
    obtain ⟨k', v'⟩ := kv
    rw [List.map_cons, List.nodup_cons] at hn
    rw [List.lookup_cons]
    rcases List.mem_cons.mp h with heq | hmem
    · simp only [Prod.mk.injEq] at heq
      simp [heq.1, heq.2]
    · have hne : (k == k') = false := by
        have : k ≠ k' := by
          intro e; subst e
          exact hn.1 (List.mem_map.mpr ⟨(k, v), hmem, rfl⟩)
        simpa using this
      simp only [hne]
      exact ih hn.2 hmem

theorem FileVal.isDir_iff (v : FileVal) : v.isDir = true ↔ v = .dir := by
  cases v <;> simp [FileVal.isDir]

theorem ArchWF.keys {s : Store} (h : ArchWF s) : (s.map (·.1)).Nodup := by
  simpa [keysNodup] using h.nodup

theorem ArchWF.parentOk {s : Store} (h : ArchWF s) {k : Key} {v : FileVal} (hm : (k, v) ∈ s) :
    s.parentOk k = true := by
  have := h.tree
  simp only [treeShaped, List.all_eq_true] at this
  exact this (k, v) hm

/-! ### Sorting numbers -/

theorem sortNat_perm (xs : List Nat) : (sortNat xs).Perm xs := List.mergeSort_perm _ _

theorem mem_sortNat {x : Nat} {xs : List Nat} : x ∈ sortNat xs ↔ x ∈ xs := List.mem_mergeSort

theorem sortNat_le (xs : List Nat) : (sortNat xs).Pairwise (· ≤ ·) := by
  have := List.pairwise_mergeSort (le := fun a b : Nat => decide (a ≤ b))
    (by intro a b c; simp; omega) (by intro a b; simp; omega) xs
  exact this.imp (by simp)

theorem sortNat_lt_of_nodup {xs : List Nat} (h : xs.Nodup) : (sortNat xs).Pairwise (· < ·) := by
  have h1 := sortNat_le xs
  have h2 : (sortNat xs).Nodup := (sortNat_perm xs).nodup_iff.mpr h
  exact (h1.and h2).imp (by intro a b ⟨h, h'⟩; omega)

theorem eq_of_pairwise_lt {l₁ l₂ : List Nat} (h₁ : l₁.Pairwise (· < ·)) (h₂ : l₂.Pairwise (· < ·))
    (h : ∀ x, x ∈ l₁ ↔ x ∈ l₂) : l₁ = l₂ := by
  have n₁ : l₁.Nodup := h₁.imp (by intro a b h; omega)
  have n₂ : l₂.Nodup := h₂.imp (by intro a b h; omega)
  have p := (List.perm_ext_iff_of_nodup n₁ n₂).mpr h
  exact List.Perm.eq_of_pairwise (le := (· ≤ ·)) (by intro a b _ _ h h'; omega)
    (h₁.imp (by intro a b h; omega)) (h₂.imp (by intro a b h; omega)) p

/-! ### Selecting numbers from the store -/

theorem nodup_filterMap_keys {s : Store} (hn : (s.map (·.1)).Nodup) (f : Key × FileVal → Option Nat)
    (hinj : ∀ kv kv' n, f kv = some n → f kv' = some n → kv.1 = kv'.1) : (s.filterMap f).Nodup := by
  have hp : s.Pairwise (fun kv kv' => kv.1 ≠ kv'.1) := List.pairwise_map.mp hn
  exact List.Pairwise.filterMap (S := fun x y : Nat => x ≠ y) f
    (fun a a' hR b hb b' hb' heq => hR (hinj a a' b hb (heq ▸ hb'))) hp

/-- Sub-directories of band `b`'s index. -/
def subdirSel (b : Nat) (kv : Key × FileVal) : Option Nat :=
  match kv.1 with
  | .hunkDir b' d => if b' = b ∧ kv.2.isDir = true then some d else none
  | _ => none

/-- Hunk files of band `b` in sub-directory `d`. -/
def hunkSel (b d : Nat) (kv : Key × FileVal) : Option Nat :=
  match kv.1 with
  | .hunk b' n => if b' = b ∧ n / hunksPerSubdir = d ∧ kv.2.isDir = false then some n else none
  | _ => none

/-- Hunk files of band `b`. -/
def hunkSelAll (b : Nat) (kv : Key × FileVal) : Option Nat :=
  match kv.1 with
  | .hunk b' n => if b' = b ∧ kv.2.isDir = false then some n else none
  | _ => none

theorem hunkSubdirsP_eq (s : Store) (b : Nat) : hunkSubdirsP s b = sortNat (s.filterMap (subdirSel b)) := by
  unfold hunkSubdirsP Store.children
  rw [List.filterMap_map, List.filterMap_filter]
  congr 2
  funext kv
  obtain ⟨k, v⟩ := kv
  cases k <;> simp [subdirSel, Key.parent]
  rename_i b' d
  by_cases hb : b' = b <;> simp [hb]

/-- The hunk numbers listed in sub-directory `d`. -/
def hunksOfSubdir (s : Store) (b d : Nat) : List Nat := sortNat (s.filterMap (hunkSel b d))

theorem hunksInSubdirP_eq {s : Store} {b d : Nat} (h : s.get? (.hunkDir b d) = some .dir) :
    hunksInSubdirP s b d = .ok (hunksOfSubdir s b d) := by
  unfold hunksInSubdirP hunksOfSubdir Store.children
  rw [h]
  simp only
  rw [List.filterMap_map, List.filterMap_filter]
  congr 3
  funext kv
  obtain ⟨k, v⟩ := kv
  cases k <;> simp [hunkSel, Key.parent]
  rename_i b' n
  by_cases hb : b' = b <;> simp [hb]
  by_cases hd : n / hunksPerSubdir = d <;> simp [hd]

theorem hunkNumsOf_eq (s : Store) (b : Nat) : hunkNumsOf s b = sortNat (s.filterMap (hunkSelAll b)) := by
  unfold hunkNumsOf
  congr 2
  funext kv
  obtain ⟨k, v⟩ := kv
  cases k <;> simp [hunkSelAll]

theorem hunksGoP_eq {s : Store} {b : Nat} (ds : List Nat)
    (h : ∀ d ∈ ds, s.get? (.hunkDir b d) = some .dir) (acc : List Nat) :
    hunksGoP s b ds acc = .ok (acc ++ ds.flatMap (hunksOfSubdir s b)) := by
  induction ds generalizing acc with
  | nil => simp [hunksGoP]
  | cons d ds ih =>
    unfold hunksGoP
    rw [hunksInSubdirP_eq (h d (List.mem_cons_self ..))]
    simp only
    rw [ih (fun d' hd' => h d' (List.mem_cons_of_mem _ hd'))]
    simp [List.flatMap_cons]

theorem mem_subdirs {s : Store} {b d : Nat} :
    d ∈ s.filterMap (subdirSel b) ↔ (Key.hunkDir b d, FileVal.dir) ∈ s := by
  rw [List.mem_filterMap]
  constructor
  · rintro ⟨⟨k, v⟩, hm, hf⟩
    cases k <;> simp [subdirSel] at hf
    obtain ⟨⟨rfl, hv⟩, rfl⟩ := hf
    rw [FileVal.isDir_iff] at hv; subst hv; exact hm
  · intro hm; exact ⟨_, hm, by simp [subdirSel, FileVal.isDir]⟩

theorem mem_hunkSel {s : Store} {b d n : Nat} :
    n ∈ s.filterMap (hunkSel b d) ↔ ∃ v, (Key.hunk b n, v) ∈ s ∧ n / hunksPerSubdir = d ∧ v.isDir = false := by
  rw [List.mem_filterMap]
  constructor
  · rintro ⟨⟨k, v⟩, hm, hf⟩
    cases k <;> simp [hunkSel] at hf
    obtain ⟨⟨rfl, hd, hv⟩, rfl⟩ := hf
    exact ⟨v, hm, hd, hv⟩
  · rintro ⟨v, hm, hd, hv⟩; exact ⟨_, hm, by simp [hunkSel, hd, hv]⟩

theorem mem_hunkSelAll {s : Store} {b n : Nat} :
    n ∈ s.filterMap (hunkSelAll b) ↔ ∃ v, (Key.hunk b n, v) ∈ s ∧ v.isDir = false := by
  rw [List.mem_filterMap]
  constructor
  · rintro ⟨⟨k, v⟩, hm, hf⟩
    cases k <;> simp [hunkSelAll] at hf
    obtain ⟨⟨rfl, hv⟩, rfl⟩ := hf
    exact ⟨v, hm, hv⟩
  · rintro ⟨v, hm, hv⟩; exact ⟨_, hm, by simp [hunkSelAll, hv]⟩

/-- The two-level listing of `hunks_available` finds exactly the hunk files of the band, in
ascending order, when the store is a tree without duplicate paths. -/
theorem hunksAvailableP_eq {s : Store} (wf : ArchWF s) {b : Nat} (hi : s.get? (.indexDir b) = some .dir) :
    hunksAvailableP s b = .ok (hunkNumsOf s b) := by
  have hk := wf.keys
  unfold hunksAvailableP
  rw [hi]
  simp only
  rw [hunksGoP_eq]
  · simp only [List.nil_append]
    congr 1
    rw [hunkSubdirsP_eq, hunkNumsOf_eq]
    apply eq_of_pairwise_lt
    · rw [List.pairwise_flatMap]
      constructor
      · intro d _
        exact sortNat_lt_of_nodup (nodup_filterMap_keys hk _ (by
          intro ⟨k, v⟩ ⟨k', v'⟩ n h1 h2
          cases k <;> simp [hunkSel] at h1
          cases k' <;> simp [hunkSel] at h2
          obtain ⟨⟨rfl, _, _⟩, rfl⟩ := h1
          obtain ⟨⟨rfl, _, _⟩, rfl⟩ := h2
          rfl))
      · have : (sortNat (s.filterMap (subdirSel b))).Pairwise (· < ·) :=
          sortNat_lt_of_nodup (nodup_filterMap_keys hk _ (by
            intro ⟨k, v⟩ ⟨k', v'⟩ n h1 h2
            cases k <;> simp [subdirSel] at h1
            cases k' <;> simp [subdirSel] at h2
            obtain ⟨⟨rfl, _⟩, rfl⟩ := h1
            obtain ⟨⟨rfl, _⟩, rfl⟩ := h2
            rfl))
        refine this.imp ?_
        intro d₁ d₂ hlt x hx y hy
        rw [hunksOfSubdir, mem_sortNat, mem_hunkSel] at hx hy
        obtain ⟨_, _, hx, _⟩ := hx
        obtain ⟨_, _, hy, _⟩ := hy
        apply Nat.lt_of_not_le
        intro hle
        have := Nat.div_le_div_right (c := hunksPerSubdir) hle
        omega
    · exact sortNat_lt_of_nodup (nodup_filterMap_keys hk _ (by
        intro ⟨k, v⟩ ⟨k', v'⟩ n h1 h2
        cases k <;> simp [hunkSelAll] at h1
        cases k' <;> simp [hunkSelAll] at h2
        obtain ⟨⟨rfl, _⟩, rfl⟩ := h1
        obtain ⟨⟨rfl, _⟩, rfl⟩ := h2
        rfl))
    · intro n
      rw [List.mem_flatMap, mem_sortNat, mem_hunkSelAll]
      constructor
      · rintro ⟨d, _, hn⟩
        rw [hunksOfSubdir, mem_sortNat, mem_hunkSel] at hn
        obtain ⟨v, hm, _, hv⟩ := hn
        exact ⟨v, hm, hv⟩
      · rintro ⟨v, hm, hv⟩
        refine ⟨n / hunksPerSubdir, ?_, ?_⟩
        · rw [mem_sortNat, mem_subdirs]
          have := wf.parentOk hm
          simp only [Store.parentOk, Key.parent] at this
          exact get?_mem (by simpa using this)
        · rw [hunksOfSubdir, mem_sortNat, mem_hunkSel]; exact ⟨v, hm, rfl, hv⟩
  · intro d hd
    rw [hunkSubdirsP_eq, mem_sortNat, mem_subdirs] at hd
    exact mem_get? hk hd

theorem subdirs_are_dirs {s : Store} (wf : ArchWF s) {b d : Nat} (hd : d ∈ hunkSubdirsP s b) :
    s.get? (.hunkDir b d) = some .dir := by
  rw [hunkSubdirsP_eq, mem_sortNat, mem_subdirs] at hd
  exact mem_get? wf.keys hd

theorem flatMap_hunksOfSubdir {s : Store} (wf : ArchWF s) {b : Nat} (hi : s.get? (.indexDir b) = some .dir) :
    (hunkSubdirsP s b).flatMap (hunksOfSubdir s b) = hunkNumsOf s b := by
  have h := hunksAvailableP_eq wf hi
  unfold hunksAvailableP at h
  rw [hi] at h
  simp only at h
  rw [hunksGoP_eq _ (fun d hd => subdirs_are_dirs wf hd)] at h
  simpa using h

/-! ### `hunk_lengths` -/

/-- Hunk files of band `b` in sub-directory `d`, with "not zero-length". -/
def hunkLenSel (b d : Nat) (kv : Key × FileVal) : Option (Nat × Bool) :=
  match kv.1 with
  | .hunk b' n =>
    if b' = b ∧ n / hunksPerSubdir = d ∧ kv.2.isDir = false then
      some (n, !kv.2.isDir && !kv.2.isEmptyFile) else none
  | _ => none

def hunkLensOfSubdir (s : Store) (b d : Nat) : List (Nat × Bool) :=
  (s.filterMap (hunkLenSel b d)).mergeSort fun x y => x.1 ≤ y.1

theorem hunkLensInSubdirP_eq {s : Store} {b d : Nat} (h : s.get? (.hunkDir b d) = some .dir) :
    hunkLensInSubdirP s b d = .ok (hunkLensOfSubdir s b d) := by
  unfold hunkLensInSubdirP hunkLensOfSubdir Store.children
  rw [h]
  simp only
  rw [List.filterMap_map, List.filterMap_filter]
  congr 3
  funext kv
  obtain ⟨k, v⟩ := kv
  cases k <;> simp [hunkLenSel, Key.parent]
  rename_i b' n
  by_cases hb : b' = b <;> simp [hb]
  by_cases hd : n / hunksPerSubdir = d <;> simp [hd]

theorem hunkLensGoP_eq {s : Store} {b : Nat} (ds : List Nat)
    (h : ∀ d ∈ ds, s.get? (.hunkDir b d) = some .dir) (acc : List (Nat × Bool)) :
    hunkLensGoP s b ds acc = .ok (acc ++ ds.flatMap (hunkLensOfSubdir s b)) := by
  induction ds generalizing acc with
  | nil => simp [hunkLensGoP]
  | cons d ds ih =>
    unfold hunkLensGoP
    rw [hunkLensInSubdirP_eq (h d (List.mem_cons_self ..))]
    simp only
    rw [ih (fun d' hd' => h d' (List.mem_cons_of_mem _ hd'))]
    simp [List.flatMap_cons]

theorem hunkLensOfSubdir_fst (s : Store) (b d : Nat) :
    (hunkLensOfSubdir s b d).map (·.1) = hunksOfSubdir s b d := by
  unfold hunkLensOfSubdir hunksOfSubdir sortNat
  rw [List.map_mergeSort (s := fun a b : Nat => decide (a ≤ b)) (fun _ _ _ _ => rfl), List.map_filterMap]
  congr 2
  funext kv
  obtain ⟨k, v⟩ := kv
  cases k <;> simp [hunkLenSel, hunkSel]

theorem hunkLensOfSubdir_snd {s : Store} (wf : ArchWF s) {b d : Nat} {p : Nat × Bool}
    (hp : p ∈ hunkLensOfSubdir s b d) : p.2 = hunkNonEmpty s b p.1 := by
  unfold hunkLensOfSubdir at hp
  rw [List.mem_mergeSort, List.mem_filterMap] at hp
  obtain ⟨⟨k, v⟩, hm, hf⟩ := hp
  cases k <;> simp [hunkLenSel] at hf
  obtain ⟨⟨rfl, _, hv⟩, rfl⟩ := hf
  have hg := mem_get? wf.keys hm
  simp only [hunkNonEmpty, hg, hv]
  cases v <;> simp [FileVal.isEmptyFile] <;> simp [FileVal.isDir] at hv

theorem eq_map_of_snd {f : Nat → Bool} (l : List (Nat × Bool)) (h : ∀ p ∈ l, p.2 = f p.1) :
    l = (l.map (·.1)).map fun n => (n, f n) := by
  induction l with
  | nil => rfl
  | cons p l ih =>
    have h1 := h p (List.mem_cons_self ..)
    have ih' := ih (fun q hq => h q (List.mem_cons_of_mem _ hq))
    simp only [List.map_cons]
    rw [← ih', ← h1]

/-- `hunk_lengths` finds the hunk files of the band in ascending order, each with its
"not zero-length" flag. -/
theorem hunkLengthsP_eq {s : Store} (wf : ArchWF s) {b : Nat} (hi : s.get? (.indexDir b) = some .dir) :
    hunkLengthsP s b = .ok ((hunkNumsOf s b).map fun n => (n, hunkNonEmpty s b n)) := by
  unfold hunkLengthsP
  rw [hi]
  simp only
  rw [hunkLensGoP_eq _ (fun d hd => subdirs_are_dirs wf hd)]
  simp only [List.nil_append]
  congr 1
  have hfst : ((hunkSubdirsP s b).flatMap (hunkLensOfSubdir s b)).map (·.1) = hunkNumsOf s b := by
    rw [List.map_flatMap]
    simp only [hunkLensOfSubdir_fst]
    exact flatMap_hunksOfSubdir wf hi
  have hsnd : ∀ p ∈ (hunkSubdirsP s b).flatMap (hunkLensOfSubdir s b), p.2 = hunkNonEmpty s b p.1 := by
    intro p hp
    obtain ⟨d, _, hpd⟩ := List.mem_flatMap.mp hp
    exact hunkLensOfSubdir_snd wf hpd
  rw [eq_map_of_snd _ hsnd, hfst]

theorem hunk_listed_get? {s : Store} (wf : ArchWF s) {b n : Nat} (hn : n ∈ hunkNumsOf s b) :
    ∃ v, s.get? (.hunk b n) = some v ∧ v.isDir = false := by
  rw [hunkNumsOf_eq, mem_sortNat, mem_hunkSelAll] at hn
  obtain ⟨v, hm, hv⟩ := hn
  exact ⟨v, mem_get? wf.keys hm, hv⟩

/-- Every hunk number of the listing has a file: reading it never says "not there". -/
theorem readHunkP_listed {s : Store} (wf : ArchWF s) {b n : Nat} (hn : n ∈ hunkNumsOf s b) :
    readHunkP s b n ≠ .ok none := by
  rw [hunkNumsOf_eq, mem_sortNat, mem_hunkSelAll] at hn
  obtain ⟨v, hm, _⟩ := hn
  have := mem_get? wf.keys hm
  unfold readHunkP
  rw [this]
  cases v with
  | hunk es => by_cases hu : es.all entryUsable = true <;> simp [hu]
  | _ => simp

/-! ### Sorted bands -/

theorem strictlySorted_iff (xs : List Str) :
    strictlySorted xs = true ↔ xs.Pairwise (fun a b => apathCmp a b = .lt) := by
  induction xs with
  | nil => simp [strictlySorted]
  | cons a rest ih =>
    cases rest with
    | nil => simp [strictlySorted]
    | cons b rest =>
      simp only [strictlySorted, Bool.and_eq_true, beq_iff_eq, ih]
      constructor
      · rintro ⟨hab, hrest⟩
        refine List.pairwise_cons.mpr ⟨?_, hrest⟩
        intro y hy
        rcases List.mem_cons.mp hy with rfl | hy
        · exact hab
        · exact C11.cmp_trans hab ((List.pairwise_cons.mp hrest).1 y hy)
      · intro h
        obtain ⟨h1, h2⟩ := List.pairwise_cons.mp h
        exact ⟨h1 b (by simp), h2⟩

theorem hunkNumsOf_nil_of_no_hunk {s : Store} {b : Nat}
    (h : ∀ kv ∈ s, ∀ n, kv.1 ≠ .hunk b n) : hunkNumsOf s b = [] := by
  have : s.filterMap (hunkSelAll b) = [] := by
    rw [List.filterMap_eq_nil_iff]
    intro ⟨k, v⟩ hm
    cases k <;> simp [hunkSelAll]
    rename_i b' n
    intro hb
    subst hb
    exact absurd rfl (h _ hm n)
  rw [hunkNumsOf_eq, this]; simp [sortNat]

/-- Under `ArchWF` each band's own entries are strictly increasing. -/
theorem ArchWF.sortedOwn {s : Store} (wf : ArchWF s) (b : Nat) : SortedE (ownEntries s b) := by
  by_cases hex : ∃ kv ∈ s, ∃ n, kv.1 = .hunk b n
  · obtain ⟨kv, hm, n, hk⟩ := hex
    have := wf.sorted
    simp only [bandsSorted, List.all_eq_true] at this
    have := this kv hm
    rw [hk] at this
    simp only at this
    rw [strictlySorted_iff, List.pairwise_map] at this
    exact this
  · have : hunkNumsOf s b = [] := hunkNumsOf_nil_of_no_hunk (by
      intro kv hm n hk; exact hex ⟨kv, hm, n, hk⟩)
    simp [ownEntries, this, SortedE]

end Conserve
