import ConserveModel.Proofs.FrameConc
import ConserveModel.Proofs.CleanWorld
/-
C06 on the full model — basics: the fault-free interpreter as a function of the store alone
(`Prog.solo`), stripping leading events (`Prog.strip`, what `Actor.settle` does to the program),
finished programs (`Prog.Done`), and the induction principle for `runSched`: a joint invariant of
(store, residual program of A, residual program of B) that each single storage operation of either
actor preserves holds when both have finished.  No property statements here.
-/
namespace Conserve
open Prog

/-- Fault-free, crash-free sequential run: outcome and final store. -/
def Prog.solo {α : Type} : Prog α → Store → Outcome α × Store
  | .ret a, s => (.ok a, s)
  | .fail e, s => (.err e, s)
  | .panic m, s => (.panic m, s)
  | .emit _ k, s => k.solo s
  | .op o k, s => (k (applyOp true s o).2).solo (applyOp true s o).1

@[simp] theorem Prog.solo_ret {α : Type} (a : α) (s : Store) : (Prog.ret a).solo s = (.ok a, s) := rfl
@[simp] theorem Prog.solo_fail {α : Type} (e : Err) (s : Store) : (Prog.fail e : Prog α).solo s = (.err e, s) := rfl
@[simp] theorem Prog.solo_panic {α : Type} (m : String) (s : Store) :
    (Prog.panic m : Prog α).solo s = (.panic m, s) := rfl
@[simp] theorem Prog.solo_emit {α : Type} (ev : Event) (k : Prog α) (s : Store) :
    (Prog.emit ev k).solo s = k.solo s := rfl
theorem Prog.solo_op {α : Type} (o : Op) (k : Resp → Prog α) (s : Store) :
    (Prog.op o k).solo s = (k (applyOp true s o).2).solo (applyOp true s o).1 := rfl

/-- On a clean world `run` is `solo`. -/
theorem Prog.run_eq_solo {α : Type} (p : Prog α) {w : World} (h : w.Clean) :
    (p.run w).1 = (p.solo w.store).1 ∧ (p.run w).2.store = (p.solo w.store).2 := by
  induction p generalizing w with
  | ret a => exact ⟨rfl, rfl⟩
  | fail e => exact ⟨rfl, rfl⟩
  | panic s => exact ⟨rfl, rfl⟩
  | emit ev k ih => exact ih (w := { w with events := ev :: w.events }) h
  | op o k ih =>
    rw [Prog.run_op, Prog.solo_op]
    have := ih (w.exec o).2 (World.exec_clean_Clean h o)
    rw [World.exec_clean_store h o, World.exec_clean_resp h o] at this
    rw [World.exec_clean_resp h o]
    exact this

theorem Prog.run_clean_eq_solo {α : Type} (p : Prog α) (s : Store) :
    (p.run (World.clean s)).1 = (p.solo s).1 ∧ (p.run (World.clean s)).2.store = (p.solo s).2 :=
  p.run_eq_solo (World.clean_Clean s)

theorem Prog.solo_bind {α β : Type} (p : Prog α) (f : α → Prog β) (s : Store) :
    (p.bind f).solo s =
      match p.solo s with
      | (.ok a, s') => (f a).solo s'
      | (.err e, s') => (.err e, s')
      | (.panic m, s') => (.panic m, s') := by
  induction p generalizing s with
  | ret a => simp
  | fail e => simp
  | panic m => simp
  | emit ev k ih => simp [ih]
  | op o k ih => simp [Prog.solo_op, ih]

/-- Drop leading events: the program part of `Actor.settle`. -/
def Prog.strip {α : Type} : Prog α → Prog α
  | .emit _ k => k.strip
  | p => p

@[simp] theorem Prog.strip_ret {α : Type} (a : α) : (Prog.ret a).strip = .ret a := rfl
@[simp] theorem Prog.strip_fail {α : Type} (e : Err) : (Prog.fail e : Prog α).strip = .fail e := rfl
@[simp] theorem Prog.strip_panic {α : Type} (m : String) : (Prog.panic m : Prog α).strip = .panic m := rfl
@[simp] theorem Prog.strip_emit {α : Type} (ev : Event) (k : Prog α) : (Prog.emit ev k).strip = k.strip := rfl
@[simp] theorem Prog.strip_op {α : Type} (o : Op) (k : Resp → Prog α) : (Prog.op o k).strip = .op o k := rfl

theorem Actor.settle_fst {α : Type} (p : Prog α) (evs : List Event) : (Actor.settle p evs).1 = p.strip := by
  induction p generalizing evs with
  | ret a => rfl
  | fail e => rfl
  | panic s => rfl
  | emit ev k ih => exact ih _
  | op o k _ => rfl

@[simp] theorem Prog.solo_strip {α : Type} (p : Prog α) (s : Store) : p.strip.solo s = p.solo s := by
  induction p with
  | ret a => rfl
  | fail e => rfl
  | panic s => rfl
  | emit ev k ih => exact ih
  | op o k _ => rfl

@[simp] theorem Prog.strip_strip {α : Type} (p : Prog α) : p.strip.strip = p.strip := by
  induction p with
  | ret a => rfl
  | fail e => rfl
  | panic s => rfl
  | emit ev k ih => exact ih
  | op o k _ => rfl

theorem Prog.AllOps.strip {α : Type} {P : Op → Prop} {p : Prog α} (h : AllOps P p) : AllOps P p.strip := by
  induction h with
  | ret a => exact .ret a
  | fail e => exact .fail e
  | panic s => exact .panic s
  | emit ev _ ih => exact ih
  | op ho hk _ => exact .op ho hk

/-- `strip` through `bind`. -/
theorem Prog.strip_bind {α β : Type} (p : Prog α) (f : α → Prog β) :
    (p.bind f).strip =
      match p.strip with
      | .ret a => (f a).strip
      | q => q.bind f := by
  induction p with
  | ret a => simp
  | fail e => simp
  | panic s => simp
  | emit ev k ih => simpa using ih
  | op o k _ => simp

/-- Finished: a result, an error or a panic (nothing left to do). -/
def Prog.Done {α : Type} : Prog α → Prop
  | .ret _ | .fail _ | .panic _ => True
  | _ => False

theorem Prog.Done.strip {α : Type} {p : Prog α} (h : p.Done) : p.strip = p := by
  cases p <;> first | rfl | cases h

theorem Prog.Done.solo {α : Type} {p : Prog α} (h : p.Done) (s : Store) : (p.solo s).2 = s := by
  cases p <;> first | rfl | cases h

/-- The program an actor is left with after `finish`. -/
def Outcome.toProg {α : Type} : Outcome α → Prog α
  | .ok x => .ret x
  | .err e => .fail e
  | .panic m => .panic m

theorem Outcome.toProg_done {α : Type} (o : Outcome α) : o.toProg.Done := by cases o <;> trivial

theorem Actor.finish_store {α : Type} (a : Actor α) (s : Store) : (a.finish true s).1 = (a.prog.solo s).2 := by
  unfold Actor.finish
  exact (a.prog.run_eq_solo (w := { store := s, enforceCreateNew := true }) ⟨rfl, rfl, rfl, rfl⟩).2

theorem Actor.finish_prog {α : Type} (a : Actor α) (s : Store) :
    (a.finish true s).2.prog = (a.prog.solo s).1.toProg := by
  unfold Actor.finish
  have := (a.prog.run_eq_solo (w := { store := s, enforceCreateNew := true }) ⟨rfl, rfl, rfl, rfl⟩).1
  simp only
  rw [← this]
  cases (a.prog.run { store := s, enforceCreateNew := true }).1 <;> rfl

theorem Actor.step_op {α : Type} {a : Actor α} {o : Op} {k : Resp → Prog α} (h : a.prog = .op o k) (s : Store) :
    (a.step true s).1 = (applyOp true s o).1 ∧ (a.step true s).2.prog = (k (applyOp true s o).2).strip := by
  unfold Actor.step
  rw [h]
  exact ⟨rfl, Actor.settle_fst _ _⟩

theorem Actor.step_done {α : Type} {a : Actor α} (h : ∀ o k, a.prog ≠ .op o k) (s : Store) :
    a.step true s = (s, a) := by
  unfold Actor.step
  split
  · rename_i o k hp; exact absurd hp (h o k)
  · rfl

/-- An invariant of (store, residual program) kept by every operation survives running the program
to its end. -/
theorem Prog.solo_inv {α : Type} {I : Store → Prog α → Prop}
    (hstep : ∀ s o k, I s (.op o k) → I (applyOp true s o).1 (k (applyOp true s o).2).strip)
    (p : Prog α) (s : Store) (h : I s p.strip) : I (p.solo s).2 (p.solo s).1.toProg := by
  induction p generalizing s with
  | ret a => exact h
  | fail e => exact h
  | panic m => exact h
  | emit ev k ih => exact ih s h
  | op o k ih => exact ih _ _ (hstep s o k h)

/-- **Induction over schedules.**  `J` relates the shared store and the two residual programs.  If
every single operation of either actor preserves it, it holds at the end of `runSched` (after the
schedule, then A to completion, then B), where both programs are finished. -/
theorem runSched_inv {α β : Type} (J : Store → Prog α → Prog β → Prop)
    (hA : ∀ s o k pB, J s (.op o k) pB → J (applyOp true s o).1 (k (applyOp true s o).2).strip pB)
    (hB : ∀ s pA o k, J s pA (.op o k) → J (applyOp true s o).1 pA (k (applyOp true s o).2).strip)
    (sched : List Bool) (s : Store) (a : Actor α) (b : Actor β)
    (ha : a.prog.strip = a.prog) (hb : b.prog.strip = b.prog) (h : J s a.prog b.prog) :
    J (runSched true sched s a b).1 (runSched true sched s a b).2.1.prog (runSched true sched s a b).2.2.prog ∧
    (runSched true sched s a b).2.1.prog.Done ∧ (runSched true sched s a b).2.2.prog.Done := by
  induction sched generalizing s a b with
  | nil =>
    simp only [runSched]
    rw [Actor.finish_store, Actor.finish_prog, Actor.finish_store, Actor.finish_prog]
    refine ⟨?_, Outcome.toProg_done _, Outcome.toProg_done _⟩
    have h1 : J (a.prog.solo s).2 (a.prog.solo s).1.toProg b.prog :=
      Prog.solo_inv (I := fun s p => J s p b.prog) (fun s o k hh => hA s o k _ hh) a.prog s (by rw [ha]; exact h)
    exact Prog.solo_inv (I := fun s p => J s (a.prog.solo _).1.toProg p) (fun s o k hh => hB s _ o k hh) b.prog _
      (by rw [hb]; exact h1)
  | cons t rest ih =>
    cases t with
    | false =>
      simp only [runSched]
      cases hp : a.prog with
      | op o k =>
        obtain ⟨h1, h2⟩ := Actor.step_op hp s
        refine ih _ _ _ (by rw [h2, Prog.strip_strip]) hb ?_
        rw [h1, h2]
        exact hA s o k _ (hp ▸ h)
      | ret x => rw [Actor.step_done (by rw [hp]; intro o k hh; cases hh) s]; exact ih s a b ha hb h
      | fail e => rw [Actor.step_done (by rw [hp]; intro o k hh; cases hh) s]; exact ih s a b ha hb h
      | panic m => rw [Actor.step_done (by rw [hp]; intro o k hh; cases hh) s]; exact ih s a b ha hb h
      | emit ev k => rw [Actor.step_done (by rw [hp]; intro o k hh; cases hh) s]; exact ih s a b ha hb h
    | true =>
      simp only [runSched]
      cases hp : b.prog with
      | op o k =>
        obtain ⟨h1, h2⟩ := Actor.step_op hp s
        refine ih _ _ _ ha (by rw [h2, Prog.strip_strip]) ?_
        rw [h1, h2]
        exact hB s _ o k (hp ▸ h)
      | ret x => rw [Actor.step_done (by rw [hp]; intro o k hh; cases hh) s]; exact ih s a b ha hb h
      | fail e => rw [Actor.step_done (by rw [hp]; intro o k hh; cases hh) s]; exact ih s a b ha hb h
      | panic m => rw [Actor.step_done (by rw [hp]; intro o k hh; cases hh) s]; exact ih s a b ha hb h
      | emit ev k => rw [Actor.step_done (by rw [hp]; intro o k hh; cases hh) s]; exact ih s a b ha hb h

theorem Actor.start_prog {α : Type} (p : Prog α) : (Actor.start p).prog = p.strip := by
  unfold Actor.start
  exact Actor.settle_fst p []

theorem Actor.outcome_of_done {α : Type} {a : Actor α} (h : a.prog.Done) : a.outcome ≠ none := by
  unfold Actor.outcome
  cases hp : a.prog <;> simp_all [Prog.Done]

end Conserve
