import ConserveModel.Invariants
import ConserveModel.Proofs.ProgLemmas
/-
Store-level facts for the backup invariant (C03/C04): how `get?` sees `put`, what one
`World.exec` step can do to the store when the operation only creates, and monotonicity of
everything that reads content (`blockContent`, `readAddrPure`, `readBack`, `hunkAt`) along
`Extends`.  No property statements here.
-/
namespace Conserve.Inv

/-! ### `get?` after `erase` / `put` -/

theorem _root_.Conserve.Store.inv_get?_erase (s : Store) (k k' : Key) :
    (Store.erase s k).get? k' = if k' = k then none else s.get? k' := by
  induction s with
  | nil => simp [Store.erase, Store.get?]
  | cons kv s ih =>
    obtain ⟨k0, v0⟩ := kv
    simp only [Store.erase, Store.get?] at ih ⊢
    by_cases h0 : k0 = k
    · subst h0
      by_cases h1 : k' = k0
      · subst h1; simpa [List.filter, List.lookup] using ih
      · have : (k' == k0) = false := by simpa using h1
        simp [List.filter, List.lookup, this, ih, h1]
    · have hne : (k0 != k) = true := by simpa using h0
      by_cases h1 : k' = k0
      · subst h1; simp [List.filter, hne, List.lookup, h0]
      · have : (k' == k0) = false := by simpa using h1
        simp [List.filter, hne, List.lookup, this, ih]

theorem _root_.Conserve.Store.inv_get?_append_single (s : Store) (k k' : Key) (v : FileVal) :
    Store.get? (s ++ [(k, v)]) k' = match s.get? k' with
      | some x => some x
      | none => if k' = k then some v else none := by
  induction s with
  | nil =>
    by_cases h : k' = k
    · subst h; simp [Store.get?, List.lookup]
    · have : (k' == k) = false := by simpa using h
      simp [Store.get?, List.lookup, this, h]
  | cons kv s ih =>
    obtain ⟨k0, v0⟩ := kv
    simp only [Store.get?] at ih ⊢
    by_cases h1 : k' = k0
    · subst h1; simp [List.lookup]
    · have : (k' == k0) = false := by simpa using h1
      simpa [List.lookup, this] using ih

theorem _root_.Conserve.Store.inv_get?_put (s : Store) (k k' : Key) (v : FileVal) :
    (Store.put s k v).get? k' = if k' = k then some v else s.get? k' := by
  unfold Store.put
  rw [Store.inv_get?_append_single, Store.inv_get?_erase]
  by_cases h : k' = k
  · simp [h]
  · simp only [h, if_false]
    cases s.get? k' <;> rfl

/-! ### The store is a map -/

/-- No path occurs twice in the store (it is a map). -/
def NoDupKeys (s : Store) : Prop := (s.map Prod.fst).Nodup

theorem NoDupKeys.put {s : Store} (h : NoDupKeys s) (k : Key) (v : FileVal) : NoDupKeys (s.put k v) := by
  unfold NoDupKeys Store.put Store.erase at *
  rw [List.map_append, List.nodup_append]
  refine ⟨?_, by simp, ?_⟩
  · exact List.Nodup.sublist (List.Sublist.map _ List.filter_sublist) h
  · intro a ha b hb
    simp only [List.map_cons, List.map_nil, List.mem_singleton] at hb
    subst hb
    obtain ⟨kv, hkv, rfl⟩ := List.mem_map.mp ha
    have := (List.mem_filter.mp hkv).2
    simpa using this

theorem NoDupKeys.get?_of_mem {s : Store} (h : NoDupKeys s) {k : Key} {v : FileVal} (hm : (k, v) ∈ s) :
    s.get? k = some v := by
  induction s with
  | nil => cases hm
  | cons kv s ih =>
    obtain ⟨k0, v0⟩ := kv
    unfold NoDupKeys at h
    simp only [List.map_cons, List.nodup_cons] at h
    rcases List.mem_cons.mp hm with heq | hm'
    · cases heq; simp [Store.get?, List.lookup]
    · have hne : k ≠ k0 := by
        intro e
        rw [← e] at h
        exact h.1 (List.mem_map.mpr ⟨(k, v), hm', rfl⟩)
      have : (k == k0) = false := by simpa using hne
      simp only [Store.get?, List.lookup, this]
      exact ih h.2 hm'

/-! ### What one `World.exec` step does to the store -/

/-- Operations that only read or create: reads, listings, metadata, `createDir`, and
`write … CreateNew`.  Every operation `backup` issues is of this kind. -/
def CreateOnly (o : Op) : Prop :=
  o.isMutating = false ∨ (∃ k, o = .createDir k) ∨ (∃ k v, o = .write k v .createNew)

@[simp] theorem _root_.Conserve.World.inv_exec_enforce (w : World) (o : Op) :
    (w.exec o).1.enforceCreateNew = w.enforceCreateNew := by
  unfold World.exec
  repeat' (first | rfl | split)

theorem applyOp_write_unit {s s1 : Store} {k : Key} {v : FileVal}
    (h : applyOp true s (.write k v .createNew) = (s1, .unit)) :
    (s.get? k = none ∨ s.get? k = some .empty) ∧ s1 = s.put k v := by
  simp only [applyOp] at h
  split at h
  · simp at h
  · split at h
    · simp at h
    · rename_i old hnd hold
      split at h
      · simp at h
      · rename_i hc
        simp only [Prod.mk.injEq, and_true] at h
        refine ⟨Or.inr ?_, h.symm⟩
        cases old <;> simp_all [FileVal.isEmptyFile]
    · rename_i hnone
      simp only [Prod.mk.injEq, and_true] at h
      exact ⟨Or.inl hnone, h.symm⟩

theorem applyOp_write_not_unit {s s1 : Store} {k : Key} {v : FileVal} {m : WriteMode} {r : Resp} {b : Bool}
    (h : applyOp b s (.write k v m) = (s1, r)) (hr : r ≠ .unit) : s1 = s ∧ ∃ e, r = .err e := by
  simp only [applyOp] at h
  split at h
  · simp only [Prod.mk.injEq] at h; exact ⟨h.1.symm, _, h.2.symm⟩
  · split at h
    · simp only [Prod.mk.injEq] at h; exact ⟨h.1.symm, _, h.2.symm⟩
    · split at h
      · simp only [Prod.mk.injEq] at h; exact ⟨h.1.symm, _, h.2.symm⟩
      · simp only [Prod.mk.injEq] at h; exact absurd h.2.symm hr
    · simp only [Prod.mk.injEq] at h; exact absurd h.2.symm hr

theorem applyOp_createDir {s : Store} {k : Key} {b : Bool} :
    (applyOp b s (.createDir k)).1 = s ∨
      (s.get? k = none ∧ (applyOp b s (.createDir k)).1 = s.put k .dir) := by
  simp only [applyOp]
  split
  · exact Or.inl rfl
  · rename_i hhas
    split
    · exact Or.inl rfl
    · refine Or.inr ⟨?_, rfl⟩
      simpa [Store.has] using hhas

/-- The store after one step of a creating operation, in every world (faults, crash points,
dead): unchanged; or a directory was created where nothing was; or a `CreateNew` write onto
nothing / a zero-length file got as far as the empty file (killed in between) or completed. -/
theorem _root_.Conserve.World.inv_exec_cases (w : World) (o : Op) (he : w.enforceCreateNew = true) (hc : CreateOnly o) :
    ((w.exec o).1.store = w.store ∧ ∀ k v m, o = .write k v m → ∃ e, (w.exec o).2 = .err e) ∨
    (∃ k, o = .createDir k ∧ w.store.get? k = none ∧ (w.exec o).1.store = w.store.put k .dir) ∨
    (∃ k v, o = .write k v .createNew ∧ (w.store.get? k = none ∨ w.store.get? k = some .empty) ∧
      (((w.exec o).1.store = w.store.put k .empty ∧ (w.exec o).2 = .err .other) ∨
       ((w.exec o).1.store = (w.store.put k .empty).put k v ∧ (w.exec o).2 = .unit))) := by
  unfold World.exec
  split
  · exact Or.inl ⟨rfl, fun _ _ _ _ => ⟨_, rfl⟩⟩
  · split
    · exact Or.inl ⟨rfl, fun _ _ _ _ => ⟨_, rfl⟩⟩
    · split
      · rename_i hmut
        refine Or.inl ⟨rfl, fun k v m ho => ?_⟩
        subst ho; simp [Op.isMutating] at hmut
      · rename_i hmut
        split
        · exact Or.inl ⟨rfl, fun _ _ _ _ => ⟨_, rfl⟩⟩
        · rcases hc with hc | ⟨k, rfl⟩ | ⟨k, v, rfl⟩
          · simp [hc] at hmut
          · simp only
            rcases applyOp_createDir (s := w.store) (k := k) (b := w.enforceCreateNew) with h | ⟨h1, h2⟩
            · exact Or.inl ⟨h, fun _ _ _ ho => by cases ho⟩
            · exact Or.inr (Or.inl ⟨k, rfl, h1, h2⟩)
          · simp only [he]
            cases h1 : applyOp true w.store (.write k .empty .createNew) with
            | mk s1 r1 =>
              by_cases hr : r1 = .unit
              · subst hr
                obtain ⟨hpre, hs1⟩ := applyOp_write_unit h1
                subst hs1
                refine Or.inr (Or.inr ⟨k, v, rfl, hpre, ?_⟩)
                simp only
                split
                · exact Or.inl ⟨rfl, rfl⟩
                · exact Or.inr ⟨rfl, rfl⟩
              · obtain ⟨_, e, rfl⟩ := applyOp_write_not_unit h1 hr
                refine Or.inl ⟨rfl, fun _ _ _ _ => ⟨e, rfl⟩⟩

/-! ### `Extends` -/

theorem _root_.Conserve.Extends.inv_trans {a b c : Store} (h1 : Extends a b) (h2 : Extends b c) : Extends a c := by
  intro k v hk
  rcases h1 k v hk with h | ⟨hv, hs⟩
  · exact h2 k v h
  · right
    refine ⟨hv, ?_⟩
    cases hb : b.get? k with
    | none => simp [hb] at hs
    | some v' =>
      rcases h2 k v' hb with h | ⟨_, h⟩
      · simp [h]
      · exact h

/-- Putting a value where there was nothing or a zero-length file extends the store. -/
theorem extends_put {s : Store} {k : Key} (v : FileVal)
    (hpre : s.get? k = none ∨ s.get? k = some .empty) : Extends s (s.put k v) := by
  intro k' v' hk'
  rw [Store.inv_get?_put]
  by_cases h : k' = k
  · subst h
    rcases hpre with hp | hp
    · rw [hp] at hk'; cases hk'
    · rw [hp] at hk'; cases hk'; right; simp
  · left; simpa [h] using hk'

/-- Every creating operation, in every world that enforces `CreateNew` (any faults, any crash
point, dead or alive), leaves a store that extends the previous one. -/
theorem _root_.Conserve.World.inv_exec_extends (w : World) (o : Op) (he : w.enforceCreateNew = true) (hc : CreateOnly o) :
    Extends w.store (w.exec o).1.store := by
  rcases w.inv_exec_cases o he hc with ⟨h, _⟩ | ⟨k, _, hk, h⟩ | ⟨k, v, _, hpre, ⟨h, _⟩ | ⟨h, _⟩⟩
  · rw [h]; exact Extends.refl _
  · rw [h]; exact extends_put _ (Or.inl hk)
  · rw [h]; exact extends_put _ hpre
  · rw [h]
    exact (extends_put .empty hpre).inv_trans (extends_put v (Or.inr (by simp [Store.inv_get?_put])))

section
variable (H : Str → Str)

/-! ### Monotonicity of reading along `Extends` -/

theorem blockContent_mono {s s' : Store} {h c : Str} (hb : blockContent H s h = some c)
    (hx : Extends s s') : blockContent H s' h = some c := by
  unfold blockContent at hb ⊢
  split at hb
  · rename_i c' hget
    rcases hx _ _ hget with h' | ⟨h', _⟩
    · simpa [h'] using hb
    · cases h'
  · cases hb

theorem readAddrPure_mono {s s' : Store} {a : Addr} {x : Str} (hb : readAddrPure H s a = some x)
    (hx : Extends s s') : readAddrPure H s' a = some x := by
  unfold readAddrPure at hb ⊢
  cases hc : blockContent H s a.hash with
  | none => simp [hc] at hb
  | some c => rw [blockContent_mono H hc hx]; simpa [hc] using hb

theorem readBack_mono {s s' : Store} {as : List Addr} {x : Str} (hb : readBack H s as = some x)
    (hx : Extends s s') : readBack H s' as = some x := by
  induction as generalizing x with
  | nil => simpa [readBack] using hb
  | cons a as ih =>
    simp only [readBack] at hb ⊢
    cases h1 : readAddrPure H s a with
    | none => simp [h1] at hb
    | some y =>
      cases h2 : readBack H s as with
      | none => simp [h1, h2] at hb
      | some z =>
        rw [readAddrPure_mono H h1 hx, ih h2]
        simpa [h1, h2] using hb

theorem hunkAt_mono {s s' : Store} {b n : Nat} {es : List IndexEntry} (hb : hunkAt s b n = some es)
    (hx : Extends s s') : hunkAt s' b n = some es := by
  unfold hunkAt at hb ⊢
  split at hb
  · rename_i es' hget
    rcases hx _ _ hget with h' | ⟨h', _⟩
    · simpa [h'] using hb
    · cases h'
  · cases hb

/-- A file's addresses read back ⇒ each one resolves. -/
theorem readBack_addr_isSome {s : Store} {as : List Addr} {x : Str} (hb : readBack H s as = some x) :
    ∀ a ∈ as, (readAddrPure H s a).isSome = true := by
  induction as generalizing x with
  | nil => intro a ha; cases ha
  | cons a as ih =>
    simp only [readBack] at hb
    cases h1 : readAddrPure H s a with
    | none => simp [h1] at hb
    | some y =>
      cases h2 : readBack H s as with
      | none => simp [h1, h2] at hb
      | some z =>
        intro a' ha'
        rcases List.mem_cons.mp ha' with rfl | ha'
        · simp [h1]
        · exact ih h2 a' ha'

theorem readBack_append {s : Store} {as bs : List Addr} {x y : Str}
    (h1 : readBack H s as = some x) (h2 : readBack H s bs = some y) :
    readBack H s (as ++ bs) = some (x ++ y) := by
  induction as generalizing x with
  | nil => simp only [readBack] at h1; cases h1; simpa using h2
  | cons a as ih =>
    simp only [readBack, List.cons_append] at h1 ⊢
    cases h3 : readAddrPure H s a with
    | none => simp [h3] at h1
    | some u =>
      cases h4 : readBack H s as with
      | none => simp [h3, h4] at h1
      | some z =>
        rw [ih h4]
        simp only [h3, h4, Option.some.injEq] at h1
        simp [← h1]

/-! ### The predicates of the invariant -/

/-- Every block file is named by the hash of its content, or is a zero-length leftover
(what `blocksConform` says, through `get?`). -/
def BlocksGood (s : Store) : Prop :=
  ∀ h v, s.get? (.block h) = some v → v = .empty ∨ ∃ c, v = .blockData c ∧ H c = h

/-- Every hash in the in-memory `exists` set names a present, intact block. -/
def ExistsOK (s : Store) (ex : List Str) : Prop :=
  ∀ h ∈ ex, ∃ c, blockContent H s h = some c

/-- A recorded file entry restores to exactly the bytes its source file had. -/
def RecOK (src : List SrcEntry) (s : Store) (e : IndexEntry) : Prop :=
  ∃ sf ∈ src, sf.apath = e.apath ∧ sf.kind = .file ∧
    readBack H s e.addrs = some (sf.content.take sf.size)

/-- What the writer may record: files read back to their source, nothing else has addresses. -/
def EntryOK (src : List SrcEntry) (s : Store) (e : IndexEntry) : Prop :=
  (e.kind = .file → RecOK H src s e) ∧ (e.kind ≠ .file → e.addrs = [])

/-- Hunks that were not (decodably) there in `s0` hold only correct file entries. -/
def NewRec (src : List SrcEntry) (s0 s : Store) : Prop :=
  ∀ b n es, hunkAt s0 b n = none → hunkAt s b n = some es →
    ∀ e ∈ es, e.kind = .file → RecOK H src s e

/-- The store part of the backup invariant, relative to the store `s0` the backup started on. -/
structure Good (src : List SrcEntry) (s0 s : Store) : Prop where
  noDup : NoDupKeys s
  blocks : BlocksGood H s
  /-- relative, so that the theorems that do not talk about dangling references need not assume it -/
  noDangling : NoDangling H s0 → NoDangling H s
  newRec : NewRec H src s0 s

variable {H}

theorem ExistsOK.mono {s s' : Store} {ex : List Str} (h : ExistsOK H s ex) (hx : Extends s s') :
    ExistsOK H s' ex := fun a ha => by
  obtain ⟨c, hc⟩ := h a ha
  exact ⟨c, blockContent_mono H hc hx⟩

theorem RecOK.mono {src : List SrcEntry} {s s' : Store} {e : IndexEntry} (h : RecOK H src s e)
    (hx : Extends s s') : RecOK H src s' e := by
  obtain ⟨sf, h1, h2, h3, h4⟩ := h
  exact ⟨sf, h1, h2, h3, readBack_mono H h4 hx⟩

theorem EntryOK.mono {src : List SrcEntry} {s s' : Store} {e : IndexEntry} (h : EntryOK H src s e)
    (hx : Extends s s') : EntryOK H src s' e :=
  ⟨fun hk => (h.1 hk).mono hx, h.2⟩

theorem EntryOK.addr_isSome {src : List SrcEntry} {s : Store} {e : IndexEntry} (h : EntryOK H src s e) :
    ∀ a ∈ e.addrs, (readAddrPure H s a).isSome = true := by
  by_cases hk : e.kind = .file
  · obtain ⟨sf, _, _, _, h4⟩ := h.1 hk
    exact readBack_addr_isSome H h4
  · rw [h.2 hk]; intro a ha; cases ha

theorem hunkAt_put (s : Store) (k : Key) (v : FileVal) (b n : Nat) :
    hunkAt (s.put k v) b n =
      if Key.hunk b n = k then (match v with | .hunk es => some es | _ => none) else hunkAt s b n := by
  unfold hunkAt
  rw [Store.inv_get?_put]
  by_cases h : Key.hunk b n = k
  · simp only [h, if_true]; cases v <;> rfl
  · simp [h]

/-- One `put` onto nothing / a zero-length file keeps the invariant, if a block key gets
(nothing or) content hashing to its name and a hunk key gets only correct entries. -/
theorem Good.put {src : List SrcEntry} {s0 s : Store} {k : Key} {v : FileVal}
    (hg : Good H src s0 s) (hpre : s.get? k = none ∨ s.get? k = some .empty)
    (hblock : ∀ h, k = .block h → v = .empty ∨ ∃ c, v = .blockData c ∧ H c = h)
    (hhunk : ∀ b n es, k = .hunk b n → v = .hunk es → ∀ e ∈ es, EntryOK H src s e) :
    Good H src s0 (s.put k v) := by
  have hx : Extends s (s.put k v) := extends_put v hpre
  refine ⟨hg.noDup.put k v, ?_, ?_, ?_⟩
  · intro h v' hv'
    rw [Store.inv_get?_put] at hv'
    split at hv'
    · rename_i hk
      cases hv'
      exact hblock h hk.symm
    · exact hg.blocks h v' hv'
  · intro h0 b n es hes e he a ha
    rw [hunkAt_put] at hes
    split at hes
    · rename_i hk
      cases v <;> simp at hes
      subst hes
      have := (hhunk b n _ hk.symm rfl e he).addr_isSome a ha
      obtain ⟨x, hx'⟩ := Option.isSome_iff_exists.mp this
      rw [readAddrPure_mono H hx' hx]; rfl
    · have := hg.noDangling h0 b n es hes e he a ha
      obtain ⟨x, hx'⟩ := Option.isSome_iff_exists.mp this
      rw [readAddrPure_mono H hx' hx]; rfl
  · intro b n es h0 hes e he hk
    rw [hunkAt_put] at hes
    split at hes
    · rename_i hkey
      cases v <;> simp at hes
      subst hes
      exact ((hhunk b n _ hkey.symm rfl e he).1 hk).mono hx
    · exact (hg.newRec b n es h0 hes e he hk).mono hx

/-- What an operation of `backup` must satisfy in the store it is issued on. -/
structure OpOK (H : Str → Str) (src : List SrcEntry) (s : Store) (o : Op) : Prop where
  createOnly : CreateOnly o
  dir : ∀ h, o ≠ .createDir (.block h)
  block : ∀ h v m, o = .write (.block h) v m → ∃ c, v = .blockData c ∧ H c = h
  hunk : ∀ b n v m, o = .write (.hunk b n) v m → ∃ es, v = .hunk es ∧ ∀ e ∈ es, EntryOK H src s e

/-- Every admissible operation keeps the invariant, in every world: after a fault, at either
micro-step of a killed write, in a dead world. -/
theorem _root_.Conserve.World.inv_exec_good {src : List SrcEntry} {s0 : Store} (w : World) (o : Op)
    (he : w.enforceCreateNew = true) (ho : OpOK H src w.store o) (hg : Good H src s0 w.store) :
    Good H src s0 (w.exec o).1.store := by
  rcases w.inv_exec_cases o he ho.createOnly with ⟨h, _⟩ | ⟨k, rfl, hk, h⟩ | ⟨k, v, rfl, hpre, hh⟩
  · rw [h]; exact hg
  · rw [h]
    exact hg.put (Or.inl hk) (fun h' hk' => absurd (hk' ▸ rfl) (ho.dir h')) (fun _ _ _ _ hv => by cases hv)
  · have h1 : Good H src s0 (w.store.put k .empty) :=
      hg.put hpre (fun _ _ => Or.inl rfl) (fun _ _ _ _ hv => by cases hv)
    rcases hh with ⟨h, _⟩ | ⟨h, _⟩
    · rw [h]; exact h1
    · rw [h]
      refine h1.put (Or.inr (by simp [Store.inv_get?_put])) ?_ ?_
      · intro h' hk'
        subst hk'
        exact Or.inr (ho.block h' v _ rfl)
      · intro b n es hk' hv e hee
        subst hk'
        obtain ⟨es', hv', hall⟩ := ho.hunk b n v _ rfl
        rw [hv] at hv'; cases hv'
        exact (hall e hee).mono (extends_put .empty hpre)

end

end Conserve.Inv
