import ConserveModel.Proofs.ExactStore
import ConserveModel.Restore
/-
`restore()` up to the filesystem as a pure function of the store: what `get_block_content`,
`read_address`, the per-file content loop and the per-entry loop of `restore()` return in a
fault-free world (`getBlockP`, `readAddressP`, `readContentP`, `restoreP`), and how they relate to
the specification-side `readBack`.  No property statements here.
-/
set_option linter.unusedSimpArgs false
namespace Conserve.Exact
open Conserve Prog

variable (H : Str → Str)

/-- `BlockDir::get_block_content` on a store. -/
def getBlockP (s : Store) (h : Str) : Except Err Str :=
  match s.get? (.block h) with
  | none => .error (.transport .notFound)
  | some .dir => .error (.transport .other)
  | some (.blockData c) => if H c = h then .ok c else .error (.blockCorrupt h)
  | some _ => .error .json

/-- `BlockDir::read_address` on a store. -/
def readAddressP (s : Store) (a : Addr) : Except Err Str :=
  match getBlockP H s a.hash with
  | .error e => .error e
  | .ok c => if a.start + a.len > c.length then .error (.blockTooShort a.hash)
             else .ok ((c.drop a.start).take a.len)

/-- The content loop of `restore_file` on a store. -/
def readContentP (s : Store) : List Addr → Str → Str × Option (Str × Err)
  | [], acc => (acc, none)
  | a :: as, acc =>
    match readAddressP H s a with
    | .error e => (acc, some (a.hash, e))
    | .ok bytes => readContentP s as (acc ++ bytes)

def Outcome.map {α β : Type} (f : α → β) : Outcome α → Outcome β
  | .ok a => .ok (f a)
  | .err e => .err e
  | .panic m => .panic m

/-- The per-entry loop of `restore()` on a store: outcome and the events reported (newest first). -/
def restoreP (s : Store) : List Str → List IndexEntry → Outcome (List RNode) × List Event
  | _, [] => (.ok [], [])
  | syms, e :: es =>
    if belowSymlink syms e.apath then
      ((restoreP s syms es).1, (restoreP s syms es).2 ++ [.error .invalidMetadata])
    else
    match e.kind with
    | .dir =>
      match entryTimeNs e.mtime e.mtimeNanos with
      | none => (.panic "IndexEntry::mtime: Timestamp::new expect", [])
      | some _ => (Outcome.map (RNode.ofEntry e :: ·) (restoreP s syms es).1, (restoreP s syms es).2)
    | .file =>
      match (readContentP H s e.addrs []).2 with
      | some (h, _) =>
        (Outcome.map ({ RNode.ofEntry e with content := (readContentP H s e.addrs []).1, complete := false } :: ·)
            (restoreP s syms es).1,
          (restoreP s syms es).2 ++ [.error (.restoreFileBlock e.apath h)])
      | none =>
        match entryTimeNs e.mtime e.mtimeNanos with
        | none => (.panic "IndexEntry::mtime: Timestamp::new expect", [])
        | some _ =>
          (Outcome.map ({ RNode.ofEntry e with content := (readContentP H s e.addrs []).1 } :: ·)
              (restoreP s syms es).1, (restoreP s syms es).2)
    | .symlink =>
      match e.target with
      | none => ((restoreP s syms es).1, (restoreP s syms es).2 ++ [.error .invalidMetadata])
      | some _ =>
        match entryTimeNs e.mtime e.mtimeNanos with
        | none => (.panic "IndexEntry::mtime: Timestamp::new expect", [])
        | some _ =>
          (Outcome.map (RNode.ofEntry e :: ·) (restoreP s (e.apath :: syms) es).1,
            (restoreP s (e.apath :: syms) es).2)
    | .unknown => ((restoreP s syms es).1, (restoreP s syms es).2 ++ [.error .invalidMetadata])

variable {H}

/-! ### The programs compute these functions -/

theorem getBlockContent_runs (s : Store) (h : Str) :
    RunsAt (getBlockContent H h) s (.ok (getBlockP H s h)) s [] := by
  simp only [getBlockContent, perform, Prog.bind_def, Prog.op_bind, Prog.ret_bind, Prog.pure_def]
  refine RunsAt.op_ro rfl ?_
  simp only [roResp, readResp, getBlockP]
  cases hg : s.get? (.block h) with
  | none => exact RunsAt.ret _ _
  | some v =>
    cases v with
    | blockData c =>
      simp only
      split
      · exact RunsAt.ret _ _
      · exact RunsAt.ret _ _
    | _ => exact RunsAt.ret _ _

theorem readAddress_runs (s : Store) (a : Addr) :
    RunsAt (readAddress H a) s (.ok (readAddressP H s a)) s [] := by
  simp only [readAddress, Prog.bind_def, Prog.pure_def]
  refine RunsAt.bind0 (getBlockContent_runs s a.hash) ?_
  simp only [readAddressP]
  cases getBlockP H s a.hash with
  | error e => exact RunsAt.ret _ _
  | ok c =>
    simp only
    split
    · exact RunsAt.ret _ _
    · exact RunsAt.ret _ _

theorem readContent_runs (s : Store) (as : List Addr) :
    ∀ acc, RunsAt (readContent H as acc) s (.ok (readContentP H s as acc)) s [] := by
  induction as with
  | nil => intro acc; exact RunsAt.ret _ _
  | cons a as ih =>
    intro acc
    simp only [readContent, Prog.bind_def, Prog.pure_def]
    refine RunsAt.bind0 (readAddress_runs s a) ?_
    simp only [readContentP]
    cases readAddressP H s a with
    | error e => exact RunsAt.ret _ _
    | ok bytes => exact ih _

/-- Mapping the result of a program that may fail or panic. -/
theorem RunsAt.bind_map {α β : Type} {p : Prog α} {f : α → β} {s s' : Store} {out : Outcome α}
    {ev : List Event} (hp : RunsAt p s out s' ev) :
    RunsAt (p.bind fun a => Prog.ret (f a)) s (Outcome.map f out) s' ev := by
  intro w hw
  cases out with
  | ok a => simpa [Outcome.map] using hw.bind (f := fun a => Prog.ret (f a)) (hp w hw) (fun w1 hw1 => hw1.ret (f a))
  | err e => exact Runs.bind_err (hp w hw)
  | panic m => exact Runs.bind_panic (hp w hw)

theorem RunsAt.panic {α : Type} (m : String) (s : Store) : RunsAt (.panic m : Prog α) s (.panic m) s [] :=
  fun w hw => by
    have := Runs.panic (α := α) hw.quiet m
    rwa [hw.store] at this

/-- Sequencing when the first part may end in any outcome is not needed; but a prefix that returns
followed by anything: -/
theorem RunsAt.bind_any {α β : Type} {p : Prog α} {f : α → Prog β} {s s1 s2 : Store} {a : α}
    {e2 : List Event} {out : Outcome β} (hp : RunsAt p s (.ok a) s1 []) (hf : RunsAt (f a) s1 out s2 e2) :
    RunsAt (p.bind f) s out s2 e2 := RunsAt.bind0 hp hf

theorem restoreEntries_runs (s : Store) (es : List IndexEntry) :
    ∀ syms, RunsAt (restoreEntries H syms es) s (restoreP H s syms es).1 s (restoreP H s syms es).2 := by
  induction es with
  | nil => intro syms; exact RunsAt.ret _ _
  | cons e es ih =>
    intro syms
    rw [restoreEntries]
    simp only [restoreP]
    by_cases hb : belowSymlink syms e.apath = true
    · simp only [hb, if_true, logError, Prog.bind_def, Prog.emit_bind, Prog.ret_bind]
      exact RunsAt.emit (ih syms)
    · simp only [hb, Bool.false_eq_true, if_false]
      cases hk : e.kind with
      | dir =>
        simp only
        cases entryTimeNs e.mtime e.mtimeNanos with
        | none => exact RunsAt.panic _ _
        | some t =>
          simp only [Prog.bind_def, Prog.pure_def]
          exact RunsAt.bind_map (ih syms)
      | file =>
        simp only [Prog.bind_def, Prog.pure_def]
        refine RunsAt.bind_any (readContent_runs s e.addrs []) ?_
        cases hbad : (readContentP H s e.addrs []).2 with
        | some p =>
          obtain ⟨h, er⟩ := p
          simp only [logError, Prog.emit_bind, Prog.ret_bind]
          exact RunsAt.emit (RunsAt.bind_map (ih syms))
        | none =>
          simp only []
          cases entryTimeNs e.mtime e.mtimeNanos with
          | none => exact RunsAt.panic _ _
          | some t => exact RunsAt.bind_map (ih syms)
      | symlink =>
        simp only
        cases e.target with
        | none =>
          simp only [logError, Prog.bind_def, Prog.emit_bind, Prog.ret_bind]
          exact RunsAt.emit (ih syms)
        | some tg =>
          simp only
          cases entryTimeNs e.mtime e.mtimeNanos with
          | none => exact RunsAt.panic _ _
          | some t =>
            simp only [Prog.bind_def, Prog.pure_def]
            exact RunsAt.bind_map (ih _)
      | unknown =>
        simp only [logError, Prog.bind_def, Prog.emit_bind, Prog.ret_bind]
        exact RunsAt.emit (ih syms)

/-! ### Relation to `readBack` -/

theorem readAddressP_of_pure {s : Store} {a : Addr} {x : Str} (h : readAddrPure H s a = some x) :
    readAddressP H s a = .ok x := by
  unfold readAddrPure blockContent at h
  unfold readAddressP getBlockP
  cases hg : s.get? (.block a.hash) with
  | none => simp [hg] at h
  | some v =>
    cases v with
    | blockData c =>
      simp only [hg] at h ⊢
      by_cases hc : H c = a.hash
      · simp only [hc, if_true, Option.bind_some, sliceOf] at h ⊢
        split at h
        · rename_i hle
          have : ¬ (a.start + a.len > c.length) := by omega
          simp only [this, if_false]
          cases h; rfl
        · cases h
      · simp [hc] at h
    | _ => simp [hg] at h

theorem readContentP_of_readBack {s : Store} {as : List Addr} {x : Str} (h : readBack H s as = some x) :
    ∀ acc, readContentP H s as acc = (acc ++ x, none) := by
  induction as generalizing x with
  | nil =>
    intro acc
    simp only [readBack, Option.some.injEq] at h
    subst h
    simp [readContentP]
  | cons a as ih =>
    intro acc
    simp only [readBack] at h
    cases h1 : readAddrPure H s a with
    | none => simp [h1] at h
    | some y =>
      cases h2 : readBack H s as with
      | none => simp [h1, h2] at h
      | some z =>
        simp only [h1, h2, Option.some.injEq] at h
        subst h
        simp only [readContentP, readAddressP_of_pure h1]
        rw [ih h2]
        simp

/-- Two stores that hold the same block files under the names an entry list refers to restore alike. -/
theorem readContentP_congr {s s' : Store} {as : List Addr}
    (h : ∀ a ∈ as, s'.get? (.block a.hash) = s.get? (.block a.hash)) :
    ∀ acc, readContentP H s' as acc = readContentP H s as acc := by
  induction as with
  | nil => intro acc; rfl
  | cons a as ih =>
    intro acc
    have ha : readAddressP H s' a = readAddressP H s a := by
      simp only [readAddressP, getBlockP, h a (List.mem_cons_self ..)]
    simp only [readContentP, ha]
    cases readAddressP H s a with
    | error e => rfl
    | ok bytes => exact ih (fun a' ha' => h a' (List.mem_cons_of_mem _ ha')) _

theorem restoreP_congr {s s' : Store} {es : List IndexEntry}
    (h : ∀ e ∈ es, ∀ a ∈ e.addrs, s'.get? (.block a.hash) = s.get? (.block a.hash)) :
    ∀ syms, restoreP H s' syms es = restoreP H s syms es := by
  induction es with
  | nil => intro syms; rfl
  | cons e es ih =>
    intro syms
    have ih' := ih (fun e' he' => h e' (List.mem_cons_of_mem _ he'))
    have hc := readContentP_congr (H := H) (h e (List.mem_cons_self ..)) []
    simp only [restoreP, ih', hc]

end Conserve.Exact
