import ConserveModel.Proofs.CrashRestore
/-
A run killed at a crash point SIMULATES the uninterrupted run until it dies (`run_twin`): as long as the
killed world is alive it holds the same store, has made the same number of micro-steps and has got the
same responses as the fault-free world.  Used for the gap of C03r: the tail write is the LAST thing
`backup` does, so a killed run whose store has the tail key went through everything before it exactly
as the uninterrupted run did (`crashed_tail_started`).  No property statements here.
-/
set_option linter.unusedSimpArgs false
namespace Conserve.Crash
open Conserve Conserve.Exact Conserve.Inv Prog

/-! ### Twin simulation -/

/-- A dead world stays dead. -/
theorem run_dead_dead {α : Type} (p : Prog α) : ∀ (w : World), w.dead = true → (p.run w).2.dead = true := by
  induction p with
  | ret a => intro _ h; exact h
  | fail e => intro _ h; exact h
  | panic s => intro _ h; exact h
  | emit ev k ih => intro w h; exact ih _ h
  | op o k ih =>
    intro w h
    have : w.exec o = (w, .err .other) := by simp [World.exec, h]
    rw [Prog.run_op, this]
    exact ih _ w h

/-- One operation: the killed world dies, or answers and moves exactly as the fault-free world. -/
theorem exec_twin {w c : World} (h : Twin w c) (o : Op) :
    ((c.exec o).1.dead = true ∧
        (c.crashAt = some w.steps ∨ (c.crashAt = some (w.steps + 1) ∧ (w.exec o).1.steps = w.steps + 2))) ∨
      ((c.exec o).2 = (w.exec o).2 ∧ Twin (w.exec o).1 (c.exec o).1) := by
  obtain ⟨hwe, hwf, hwc, hwd⟩ := h.clean
  have hffc : c.faultFor o = none := by simp [World.faultFor, h.noFaults]
  have hffw : w.faultFor o = none := by simp [World.faultFor, hwf]
  have hcw : ∀ n, w.crashesAt n = false := by intro n; simp [World.crashesAt, hwc]
  have hclean' : (w.exec o).1.Clean := World.exec_clean_Clean h.clean o
  by_cases hm : o.isMutating = true
  · by_cases hc : c.crashesAt c.steps = true
    · left
      refine ⟨by simp [World.exec, h.alive, hffc, hm, hc], Or.inl ?_⟩
      rw [← h.steps]
      simpa [World.crashesAt] using hc
    · have hc' : c.crashesAt c.steps = false := by simpa using hc
      cases o with
      | write key v m =>
        have hcx := World.exec_write_eq c key v m h.alive hffc hc'
        have hwx := World.exec_write_eq w key v m hwd hffw (hcw _)
        rw [h.ecn.trans hwe.symm, h.store] at hcx
        by_cases hr : (applyOp w.enforceCreateNew w.store (.write key v m)).2 = .unit
        · rw [if_pos hr] at hcx hwx
          rw [if_neg (by rw [hcw]; simp)] at hwx
          by_cases hc1 : c.crashesAt (c.steps + 1) = true
          · left; rw [if_pos hc1] at hcx; rw [hcx, hwx]
            refine ⟨rfl, Or.inr ⟨?_, rfl⟩⟩
            rw [← h.steps]
            simpa [World.crashesAt] using hc1
          · right
            rw [if_neg hc1] at hcx
            rw [hcx, hwx]
            exact ⟨rfl, ⟨hwe, hwf, hwc, hwd⟩, h.noFaults, h.alive, hwe, rfl, by simp [h.steps]⟩
        · right
          rw [if_neg hr] at hcx hwx
          rw [hcx, hwx]
          exact ⟨rfl, ⟨hwe, hwf, hwc, hwd⟩, h.noFaults, h.alive, hwe, rfl, h.steps⟩
      | createDir key =>
        right
        have hc'' : c.crashesAt w.steps = false := h.steps ▸ hc'
        have e1 : c.exec (.createDir key) =
            ({ c with store := (w.exec (.createDir key)).1.store, steps := (w.exec (.createDir key)).1.steps,
                      trace := ⟨.createDir key, (w.exec (.createDir key)).2⟩ :: c.trace },
             (w.exec (.createDir key)).2) := by
          simp [World.exec, h.alive, hffc, Op.isMutating, hc'', h.ecn, h.store, h.steps, hwd, hffw, hcw, hwe]
        rw [e1]
        exact ⟨rfl, hclean', h.noFaults, h.alive, h.ecn, rfl, rfl⟩
      | removeFile key =>
        right
        have hc'' : c.crashesAt w.steps = false := h.steps ▸ hc'
        have e1 : c.exec (.removeFile key) =
            ({ c with store := (w.exec (.removeFile key)).1.store, steps := (w.exec (.removeFile key)).1.steps,
                      trace := ⟨.removeFile key, (w.exec (.removeFile key)).2⟩ :: c.trace },
             (w.exec (.removeFile key)).2) := by
          simp [World.exec, h.alive, hffc, Op.isMutating, hc'', h.ecn, h.store, h.steps, hwd, hffw, hcw, hwe]
        rw [e1]
        exact ⟨rfl, hclean', h.noFaults, h.alive, h.ecn, rfl, rfl⟩
      | removeDirAll key =>
        right
        have hc'' : c.crashesAt w.steps = false := h.steps ▸ hc'
        have e1 : c.exec (.removeDirAll key) =
            ({ c with store := (w.exec (.removeDirAll key)).1.store,
                      steps := (w.exec (.removeDirAll key)).1.steps,
                      trace := ⟨.removeDirAll key, (w.exec (.removeDirAll key)).2⟩ :: c.trace },
             (w.exec (.removeDirAll key)).2) := by
          simp [World.exec, h.alive, hffc, Op.isMutating, hc'', h.ecn, h.store, h.steps, hwd, hffw, hcw, hwe]
        rw [e1]
        exact ⟨rfl, hclean', h.noFaults, h.alive, h.ecn, rfl, rfl⟩
      | read key => simp [Op.isMutating] at hm
      | listDir key => simp [Op.isMutating] at hm
      | metadata key => simp [Op.isMutating] at hm
  · right
    have e1 : c.exec o = ({ c with trace := ⟨o, (applyOp true w.store o).2⟩ :: c.trace },
        (applyOp true w.store o).2) := by
      simp [World.exec, h.alive, hffc, hm, h.ecn, h.store]
    have e2 : w.exec o = ({ w with trace := ⟨o, (applyOp true w.store o).2⟩ :: w.trace },
        (applyOp true w.store o).2) := by
      simp [World.exec, hwd, hffw, hm, hwe]
    rw [e1, e2]
    exact ⟨rfl, ⟨hwe, hwf, hwc, hwd⟩, h.noFaults, h.alive, h.ecn, h.store, h.steps⟩

/-- **A killed run simulates the uninterrupted run until it dies**: at the end of ANY program the
killed world is dead, or it returned the same outcome and is still the twin of the fault-free world
(same store, same number of micro-steps). -/
theorem run_twin {α : Type} (p : Prog α) : ∀ {w c : World}, Twin w c →
    (p.run c).2.dead = true ∨ ((p.run c).1 = (p.run w).1 ∧ Twin (p.run w).2 (p.run c).2) := by
  induction p with
  | ret a => intro w c h; exact Or.inr ⟨rfl, h⟩
  | fail e => intro w c h; exact Or.inr ⟨rfl, h⟩
  | panic s => intro w c h; exact Or.inr ⟨rfl, h⟩
  | emit ev k ih => intro w c h; exact ih (h.events ev)
  | op o k ih =>
    intro w c h
    simp only [Prog.run_op]
    rcases exec_twin h o with ⟨hd, _⟩ | ⟨hr, ht⟩
    · exact Or.inl (run_dead_dead _ _ hd)
    · rw [hr]; exact ih _ ht

/-- The first part of a sequence issues only operations the whole sequence may issue. -/
theorem allOps_of_bind {α β : Type} {P : Op → Prop} {p : Prog α} {f : α → Prog β}
    (h : Prog.AllOps P (p.bind f)) : Prog.AllOps P p := by
  induction p with
  | ret a => exact .ret a
  | fail e => exact .fail e
  | panic s => exact .panic s
  | emit ev k ih =>
    cases h with
    | emit _ hk => exact .emit ev (ih hk)
  | op o k ih =>
    cases h with
    | op ho hk => exact .op ho fun r => ih r (hk r)

/-- Sequencing in a world that is dead after the first part: the store is the first part's. -/
theorem run_bind_dead_store {α β : Type} (p : Prog α) (f : α → Prog β) (w : World)
    (hd : (p.run w).2.dead = true) : ((p.bind f).run w).2.store = (p.run w).2.store := by
  rw [Prog.run_bind]
  rcases hp : p.run w with ⟨out, w'⟩
  rw [hp] at hd
  cases out with
  | ok a => exact run_dead_store _ _ hd
  | err e => rfl
  | panic s => rfl

/-! ### `backup` = everything before the tail write, then the tail write -/

/-- The main part of `backup()` up to and including the second `finish_hunk`. -/
def backupBody (H : Str → Str) (o : BackupOpts) (src : List SrcEntry) (x : Nat × List Str × List IndexEntry) :
    Prog Writer :=
  (backupLoop H o { band := x.1, exists_ := x.2.1 } (mergeTrees x.2.2 src)).bind fun w =>
  (flushGroup H w).bind fun w => finishHunk w

/-- `Band::close` and the return of the statistics. -/
def backupClose (w : Writer) : Prog Stats :=
  (bandClose w.band w.hunksWritten).bind fun _ => Prog.ret w.stats

/-- Everything `backup` does before `Band::close`. -/
def backupBefore (H : Str → Str) (o : BackupOpts) (src : List SrcEntry) : Prog Writer :=
  Inv.backupPrelude.bind (backupBody H o src)

theorem backup_eq_before_close (H : Str → Str) (o : BackupOpts) (src : List SrcEntry) :
    backup H o src = (backupBefore H o src).bind backupClose := by
  rw [Inv.backup_eq]
  unfold backupBefore backupBody backupClose Inv.backupMain
  simp only [Prog.inv_bind_assoc]

theorem backupBefore_createOnly (H : Str → Str) (o : BackupOpts) (src : List SrcEntry) :
    Prog.AllOps CreateOnly (backupBefore H o src) :=
  allOps_of_bind (backup_eq_before_close H o src ▸ backup_createOnly H o src)

variable {H : Str → Str} {o : BackupOpts}

/-- The main part up to the tail write, from the state the prelude leaves (the proof of
`Exact.backupMain_runs`, stopped before `Band::close`): the store `s2` it leaves has no tail for the
new version, and putting the tail there gives the final store. -/
theorem backupBody_runs (hmax : 0 < o.maxBlockSize) {nb : Nat} {s0 s : Store} {src : List SrcEntry}
    (x : Nat × List Str × List IndexEntry)
    (hl : LInv H o nb s0 s { band := x.1, exists_ := x.2.1 } [] [] [] 0)
    (hsrc : ∀ sf ∈ src, EntryGood sf)
    (hbasis : ∀ b ∈ x.2.2, (entryTimeNs b.mtime b.mtimeNanos).isSome = true)
    (hsorted : (src.map (·.apath)).Pairwise fun a b => apathCmp a b = .lt)
    (hB : totalSize src < 18446744073709551616) :
    ∃ s2 wr2 hs evs, RunsAt (backupBody H o src x) s (.ok wr2) s2 evs ∧
      wr2.band = nb ∧ wr2.hunksWritten = hs.length ∧ s2.get? (.bandTail nb) = none ∧
      s2.parentOk (.bandTail nb) = true ∧
      Final H o nb s0 (s2.put (.bandTail nb) (.tail (some hs.length))) hs src := by
  have hsrcs := srcsOf_mergeTrees x.2.2 src
  obtain ⟨s1, wr1, hs1, pre1, grp1, bytes1, evs, hr1, hl1, heq1, hb1, hne, hsg1⟩ :=
    backupLoop_runs hmax (mergeTrees x.2.2 src) s _ [] [] [] 0 hl (by rwa [hsrcs])
      (matchedGood_mergeTrees _ _ hbasis) (by simpa [hsrcs] using hsorted) (by simpa [hsrcs] using hB)
  rw [hsrcs] at heq1
  obtain ⟨s2, wr2, hs2, hr2, hl2, hp2, hq2, hf2⟩ := flushGroup_runs hl1 hb1 hsg1
  have heq2 : pre1 ++ grp1 = src := by simpa using heq1
  rw [heq2] at hl2
  have hr3 : RunsAt (finishHunk wr2) s2 (.ok wr2) s2 [] := by
    unfold finishHunk
    simp only [hp2, List.isEmpty_nil, if_true, Prog.pure_def]
    exact RunsAt.ret _ _
  have hpar : s2.parentOk (.bandTail nb) = true := by
    simp [Store.parentOk, Key.parent, hl2.bi.bandDir]
  have hst3 : StoreOK H (s2.put (.bandTail nb) (.tail (some hs2.length))) :=
    hl2.b.st.put hpar (Or.inl hl2.bi.tail) (by simp [kindOk, isDirKey, FileVal.isDir]) (fun _ hk => by cases hk)
  have hne' : ∀ k, k ≠ Key.bandTail nb → (s2.put (.bandTail nb) (.tail (some hs2.length))).get? k = s2.get? k :=
    fun k hk => by simp [get?_put, hk]
  refine ⟨s2, wr2, hs2, evs, ?_, hl2.band, hl2.hw, hl2.bi.tail, hpar, ?_⟩
  · unfold backupBody
    refine RunsAt.bind_r0 hr1 ?_
    exact RunsAt.bind0 hr2 hr3
  · refine ⟨hst3, ?_, ?_, ?_, ?_, by simp [get?_put], hl2.shape, hl2.hsNonfile, ?_⟩
    · intro n; rw [hne' _ (by simp)]; exact hl2.bi.hunk n
    · rw [hne' _ (by simp)]; exact hl2.bi.indexDir
    · rw [hne' _ (by simp)]; exact hl2.bi.bandDir
    · rw [hne' _ (by simp)]; exact hl2.bi.head
    · intro k hk
      have : k ≠ Key.bandTail nb := by
        intro e; subst e; simp [newKey, Key.isUnder, Key.parent] at hk
      rw [hne' _ this]
      exact hl2.frame k hk

/-- Everything before `Band::close`, on a good archive with a good source. -/
theorem backupBefore_runs (hlen : ∀ d, subdirNameChars ≤ (H d).length) (hmax : 0 < o.maxBlockSize)
    {src : List SrcEntry} {s : Store} (hsrc : SrcGood src) (hg : ArchiveGood H src s) :
    ∃ s2 wr2 hs evs, RunsAt (backupBefore H o src) s (.ok wr2) s2 evs ∧
      wr2.band = newBandOf s ∧ wr2.hunksWritten = hs.length ∧ s2.get? (.bandTail (newBandOf s)) = none ∧
      s2.parentOk (.bandTail (newBandOf s)) = true ∧
      Final H o (newBandOf s) s (s2.put (.bandTail (newBandOf s)) (.tail (some hs.length))) hs src := by
  obtain ⟨hr1, hbasis, hl⟩ := backupPrelude_runs (o := o) hlen hg
  obtain ⟨s2, wr2, hs, evs, hr2, h1, h2, h3, h4, h5⟩ :=
    backupBody_runs hmax (newBandOf s, blockNamesOf (withNewBand s), basisListing s) hl hsrc.entryGood hbasis
      hsrc.sorted hsrc.bytes
  exact ⟨s2, wr2, hs, evs, RunsAt.bind0 hr1 hr2, h1, h2, h3, h4, h5⟩

/-! ### The killed run whose store has the tail key -/

/-- The tail write in a world that is the twin of the fault-free world holding `s2` (no tail yet): the
store it leaves is `s2` (killed before), `s2` with a zero-length tail (killed between the two
micro-steps), or `s2` with the tail (not killed). -/
theorem backupClose_twin {w c : World} (h : Twin w c) {wr : Writer} {s2 : Store} (hs2 : w.store = s2)
    (hpar : s2.parentOk (.bandTail wr.band) = true) (hnone : s2.get? (.bandTail wr.band) = none) :
    ((backupClose wr).run c).2.store = s2 ∨
      ((backupClose wr).run c).2.store = s2.put (.bandTail wr.band) .empty ∨
      ((backupClose wr).run c).2.store = s2.put (.bandTail wr.band) (.tail (some wr.hunksWritten)) := by
  have hcs : c.store = s2 := h.store.trans hs2
  have hffc : c.faultFor (.write (.bandTail wr.band) (.tail (some wr.hunksWritten)) .createNew) = none := by
    simp [World.faultFor, h.noFaults]
  have hres : (applyOp c.enforceCreateNew c.store
      (.write (.bandTail wr.band) (.tail (some wr.hunksWritten)) .createNew)).2 = .unit := by
    simp [applyOp, hcs, hpar, hnone]
  unfold backupClose bandClose performUnit
  simp only [Prog.bind_def, Prog.perform, Prog.op_bind, Prog.run_op, Prog.ret_bind]
  by_cases hc : c.crashesAt c.steps = true
  · left
    have hce : c.exec (.write (.bandTail wr.band) (.tail (some wr.hunksWritten)) .createNew) =
        ({ c with dead := true }, .err .other) := by
      simp [World.exec, h.alive, hffc, Op.isMutating, hc]
    rw [hce]
    simp [hcs]
  · have hc' : c.crashesAt c.steps = false := by simpa using hc
    have hcx := World.exec_write_eq c _ (.tail (some wr.hunksWritten)) .createNew h.alive hffc hc'
    rw [if_pos hres] at hcx
    by_cases hc1 : c.crashesAt (c.steps + 1) = true
    · right; left
      rw [if_pos hc1] at hcx
      rw [hcx]
      simp [hcs]
    · right; right
      rw [if_neg hc1] at hcx
      rw [hcx]
      simp [hcs]

end Conserve.Crash
