import ConserveModel.Proofs.GapFsDir
/-
ORDER-AWARE confinement of `restoreToFs` (the C16e gap).

`ConfinableL` (Proofs/FsLink.lean) asks that NO entry anywhere in the list is a symlink and an
ancestor of another entry.  What the guard of `restoreEntries` gives for an unsorted index is weaker
and ordered: no LATER entry lies at or below an EARLIER symlink entry (`NotBelowLink`, pairwise).  The
loop invariant of FsLink.lean (`restoreLoopFs_invL`) already needs only that; the order-free clause
was used for the DEFERRED directory metadata (`apply_deferrals`, which runs after ALL entries, so a
symlink entry listed after `/a/b` but naming `/a` is "earlier" from its point of view).

The missing argument: when `restore_dir(dest/P)` succeeds, every prefix of `dest/P` exists afterwards
and is no symlink (`SolidTo`), or the path runs into a file (`Blocked`); nothing is ever removed or
changes kind; `symlink()` refuses an existing name.  So at deferral time `dest/P` still has no symlink
on it (or still does not resolve), whatever symlink entries came later.
-/
namespace Conserve

/-- After a successful `restore_dir`: the path is all there without symlinks, or runs into a file. -/
def SolidOrBlocked (fs : Fs) (D : Path) (cs : List Str) : Prop := SolidTo fs D cs ∨ Blocked fs D cs

theorem SolidOrBlocked.kept {fs fs' : Fs} {D : Path} {cs : List Str} (h : SolidOrBlocked fs D cs)
    (hk : Kept fs fs') : SolidOrBlocked fs' D cs :=
  h.imp (fun h => h.kept hk) (fun h => h.kept hk)

theorem solidTo_nil {fs : Fs} {D : Path} (hD : DestOk fs D) : SolidTo fs D [] := by
  intro pre hp
  rw [List.prefix_nil.1 hp, List.append_nil]
  obtain ⟨x, hx, hk⟩ := Fs.isDir_iff.1 (hD.dirs D (List.prefix_refl _))
  exact ⟨x, hx, by rw [hk]; decide⟩

/-- The deferral one turn of the loop registers (a directory entry whose `restore_dir` succeeded, or
the root entry) names a path that is solid or blocked in the file system the turn leaves. -/
theorem restoreNodeFs_deferral_sob {uidOf gidOf : Str → Option Nat} {old : Bool} {D : Path}
    {fs : Fs} {n : RNode} (hD : DestOk fs D) (hv : isValid n.apath = true)
    (hfull : CleanFullL fs D (comps n)) :
    ∀ d ∈ (restoreNodeFs uidOf gidOf old D fs n).2.2,
      SolidOrBlocked (restoreNodeFs uidOf gidOf old D fs n).1 D (comps n) := by
  have hgood : ∀ c ∈ comps n, goodName c = true := (ctx_of_cleanL hD hv hfull).good
  have hpath := joinDest_valid D hv
  unfold restoreNodeFs
  cases hk : n.kind with
  | dir =>
    dsimp only
    by_cases hr : n.apath = [slash]
    · simp only [hr, ne_eq, not_true_eq_false, if_false]
      intro d _
      have : comps n = [] := comps_root_of_eq hr
      rw [this]
      exact Or.inl (solidTo_nil hD)
    · simp only [hr, ne_eq, not_false_eq_true, if_true]
      rcases hrd : restoreDirFs fs (joinDest D n.apath) with ⟨fs1, r⟩
      cases r with
      | error e => intro d hd; cases hd
      | ok u =>
        intro d _
        dsimp only
        have hj : joinDest D n.apath = D ++ comps n := by
          rw [hpath, if_neg hr, List.append_nil]; rfl
        rw [hj] at hrd
        rcases restoreDirFs_ok hrd with hm | hm
        · exact Or.inl ((mkdirAll_result _ fs (comps n) hD hgood hfull fs1 _ hm).1 rfl)
        · exact Or.inr ((mkdirAll_result _ fs (comps n) hD hgood hfull fs1 _ hm).2 rfl)
  | file => intro d hd; cases hd
  | symlink => intro d hd; cases hd
  | unknown => intro d hd; cases hd

/-- **The loop, order-aware.**  From the invariant of FsLink.lean and the ORDERED hypothesis (no later
entry at or below an earlier symlink entry): nothing outside the destination changes, no node is
removed or changes kind, and every deferral registered names the path of a valid entry that is solid
or blocked in the final file system of the loop. -/
theorem restoreLoopFs_ord {uidOf gidOf : Str → Option Nat} {old : Bool} {D : Path} :
    ∀ (rest : List RNode) (fs : Fs) (S : List Str → Prop), InvL D S fs →
      (∀ n ∈ rest, isValid n.apath = true) →
      (∀ n ∈ rest, ∀ pre, pre <+: comps n → ¬ S pre) →
      rest.Pairwise NotBelowLink →
      Kept fs (restoreLoopFs uidOf gidOf old D fs rest).1 ∧
      (∀ q, ¬ D <+: q → (restoreLoopFs uidOf gidOf old D fs rest).1.node q = fs.node q) ∧
      (∀ d ∈ (restoreLoopFs uidOf gidOf old D fs rest).2.2,
        isValid d.node.apath = true ∧ d.path = joinDest D d.node.apath ∧
        SolidOrBlocked (restoreLoopFs uidOf gidOf old D fs rest).1 D (comps d.node)) := by
  intro rest
  induction rest with
  | nil =>
    intro fs S _ _ _ _
    exact ⟨Kept.refl _, fun _ _ => rfl, fun d hd => by cases hd⟩
  | cons n rest ih =>
    intro fs S hI hv hcl hp
    obtain ⟨hpn, hpr⟩ := List.pairwise_cons.1 hp
    have hvn := hv n List.mem_cons_self
    have hfull := hI.cleanFullL (hcl n List.mem_cons_self)
    obtain ⟨G, hdef, hnl⟩ := restoreNodeFs_growsL (uidOf := uidOf) (gidOf := gidOf) (old := old) hI.dest
      hvn hfull
    have hsob := restoreNodeFs_deferral_sob (uidOf := uidOf) (gidOf := gidOf) (old := old) hI.dest hvn hfull
    have I1 : InvL D (fun c => (c = comps n ∧ n.kind = .symlink ∧ c ≠ []) ∨ S c) _ :=
      (hI.step (isLink := n.kind = .symlink) G (fun c h => h.1) hnl).mono' fun c hc h =>
        h.imp (fun h => ⟨h.1, h.2, hc⟩) id
    obtain ⟨hkept, hout, hdefs⟩ := ih (restoreNodeFs uidOf gidOf old D fs n).1 _ I1
      (fun m hm => hv m (List.mem_cons_of_mem _ hm))
      (fun m hm pre hpre hS => by
        rcases hS with ⟨rfl, hk, hne⟩ | hS
        · exact hpn m hm hk hne hpre
        · exact hcl m (List.mem_cons_of_mem _ hm) pre hpre hS)
      hpr
    simp only [restoreLoopFs]
    refine ⟨Kept.trans G.kept hkept, fun q hq => (hout q hq).trans (G.outside q hq), fun d hd => ?_⟩
    rcases List.mem_append.1 hd with h | h
    · obtain ⟨e, _, hp'⟩ := hdef d h
      refine ⟨e ▸ hvn, e ▸ hp', ?_⟩
      rw [e]
      exact (hsob d h).kept hkept
    · exact hdefs d h

/-- **The deferrals, order-aware.**  Each deferred path is solid — then the three calls act on the
directory itself — or does not resolve — then they do nothing.  Either way nothing outside the
destination changes. -/
theorem applyDeferralsFs_sob {uidOf gidOf : Str → Option Nat} {D : Path} :
    ∀ (ds : List Deferral) (fs : Fs), DestOk fs D →
      (∀ d ∈ ds, isValid d.node.apath = true ∧ d.path = joinDest D d.node.apath ∧
        SolidOrBlocked fs D (comps d.node)) →
      ∀ q, ¬ D <+: q → (applyDeferralsFs uidOf gidOf fs ds).1.node q = fs.node q := by
  intro ds
  induction ds with
  | nil => intro fs _ _ q _; rfl
  | cons d ds ih =>
    intro fs hD hd q hq
    obtain ⟨hv, hp, hsob⟩ := hd d List.mem_cons_self
    have hj : d.path = D ++ comps d.node ++ (if d.node.apath = [slash] then [[]] else []) := by
      rw [hp, joinDest_valid D hv]; rfl
    simp only [applyDeferralsFs]
    by_cases hs : SolidTo fs D (comps d.node)
    · have hfull := hs.cleanFullL
      have hctx := ctx_of_cleanL hD hv hfull
      have L := applyDeferralFs_local (uidOf := uidOf) (gidOf := gidOf) (n := d.node) hctx
        (hfull _ (List.prefix_refl _))
      rw [← hj] at L
      have L' : Local .dir fs (applyDeferralFs uidOf gidOf fs d).1 (D ++ comps d.node) := L
      have hDn : fs.node D ≠ none := by
        obtain ⟨x, hx, _⟩ := Fs.isDir_iff.1 (hD.dirs D (List.prefix_refl _))
        rw [hx]; simp
      have G := L'.grows hDn
      have := ih _ (L'.destOk hD) (fun d' hd' => by
        obtain ⟨a, b, c⟩ := hd d' (List.mem_cons_of_mem _ hd')
        exact ⟨a, b, c.kept L'.kept⟩) q hq
      exact this.trans (G.outside q hq)
    · have hb : Blocked fs D (comps d.node) := hsob.resolve_left hs
      have hgood : ∀ c ∈ comps d.node, goodName c = true := (valid_eq_pathOf hv).1
      have hun : (applyDeferralFs uidOf gidOf fs d).1 = fs :=
        applyDeferralFs_unresolved fun follow p => by
          rw [hj]; exact resolve_blocked hD hgood hb hs p
      rw [hun]
      exact ih fs hD (fun d' hd' => hd d' (List.mem_cons_of_mem _ hd')) q hq

/-- Loop and deferrals together, from a destination that is an empty directory, for a list of valid
entries none of which lies at or below an EARLIER symlink entry. -/
theorem restoreBody_outside_ord {uidOf gidOf : Str → Option Nat} {old : Bool} {D : Path} {fs : Fs}
    {nodes : List RNode} (hv : ∀ n ∈ nodes, isValid n.apath = true) (hp : nodes.Pairwise NotBelowLink)
    (hI : InvL D (fun _ => False) fs) :
    ∀ q, ¬ D <+: q →
      (applyDeferralsFs uidOf gidOf (restoreLoopFs uidOf gidOf old D fs nodes).1
        (restoreLoopFs uidOf gidOf old D fs nodes).2.2).1.node q = fs.node q := by
  obtain ⟨hkept, hout1, hdefs⟩ := restoreLoopFs_ord (uidOf := uidOf) (gidOf := gidOf) (old := old)
    nodes fs _ hI hv (fun _ _ _ _ h => h) hp
  have hD1 : DestOk (restoreLoopFs uidOf gidOf old D fs nodes).1 D :=
    ⟨hI.dest.good, fun pre hpre => isDir_kept hkept (hI.dest.dirs pre hpre)⟩
  intro q hq
  exact (applyDeferralsFs_sob (uidOf := uidOf) (gidOf := gidOf) _ _ hD1 hdefs q hq).trans (hout1 q hq)

/-- **Confinement, order-aware** (`restoreToFs_outsideL` with the ordered hypothesis): valid apaths,
and no entry at or below an EARLIER symlink entry (the root apath never counts).  Entries may come in
any order, may lie below LATER symlink entries, and non-symlink apaths may even repeat. -/
theorem restoreToFs_outside_ord {uidOf gidOf : Str → Option Nat} {old : Bool} {fs : Fs} {D : Path}
    {nodes : List RNode} (hv : ∀ n ∈ nodes, isValid n.apath = true) (hp : nodes.Pairwise NotBelowLink)
    (hwf : fs.wf = true) (hP : DestPlain fs D) :
    ∀ q, ¬ D <+: q → (q ≠ D.dropLast ∨ fs.node D ≠ none) →
      (restoreToFs fs D false nodes uidOf gidOf old).1.node q = fs.node q := by
  intro q hq hor
  have L := ensureDir_local hP
  have hL := L.outside_dest q hq hor
  unfold restoreToFs
  rcases he : fs.ensureDir D with ⟨fs0, r⟩
  rw [he] at L hL
  cases r with
  | error e => exact hL
  | ok u =>
    dsimp only
    cases hr : fs0.readDirEmpty D with
    | error e => exact hL
    | ok empty =>
      dsimp only
      cases empty with
      | false => simpa using hL
      | true =>
        simp only [Bool.not_false, Bool.not_true, Bool.and_false, Bool.false_eq_true, if_false]
        have hI := (inv_initial hwf hP L hr).toL
        exact (restoreBody_outside_ord hv hp hI q hq).trans hL

/-- The parent of the destination keeps everything but (possibly) its mtime — order-aware. -/
theorem restoreToFs_parent_ord {uidOf gidOf : Str → Option Nat} {old : Bool} {fs : Fs} {D : Path}
    {nodes : List RNode} (hv : ∀ n ∈ nodes, isValid n.apath = true) (hp : nodes.Pairwise NotBelowLink)
    (hwf : fs.wf = true) (hP : DestPlain fs D) (hD : D ≠ []) :
    EqMod (fs.node D.dropLast) ((restoreToFs fs D false nodes uidOf gidOf old).1.node D.dropLast) := by
  have hne : D.dropLast ≠ D := fun e => by
    have := length_dropLast_lt hD
    rw [e] at this; omega
  have hnp : ¬ D <+: D.dropLast := fun h => by
    have := h.length_le
    have := length_dropLast_lt hD
    omega
  have L := ensureDir_local hP
  have hL := (L.parent hne).1
  unfold restoreToFs
  rcases he : fs.ensureDir D with ⟨fs0, r⟩
  rw [he] at L hL
  cases r with
  | error e => exact hL
  | ok u =>
    dsimp only
    cases hr : fs0.readDirEmpty D with
    | error e => exact hL
    | ok empty =>
      dsimp only
      cases empty with
      | false => simpa using hL
      | true =>
        simp only [Bool.not_false, Bool.not_true, Bool.and_false, Bool.false_eq_true, if_false]
        have hI := (inv_initial hwf hP L hr).toL
        rw [restoreBody_outside_ord hv hp hI _ hnp]
        exact hL

/-! ### From the guard and "no apath repeats after a symlink entry" to `NotBelowLink` -/

/-- Valid apaths with the same components are equal. -/
theorem apath_eq_of_comps_eq {a b : RNode} (ha : isValid a.apath = true) (hb : isValid b.apath = true)
    (e : comps a = comps b) : a.apath = b.apath := by
  have ea := (valid_eq_pathOf ha).2
  have eb := (valid_eq_pathOf hb).2
  rw [ea, eb]; unfold comps at e; rw [e]

/-- The guard's property (a later entry below an earlier symlink entry can only be AT it) together with
"no later entry repeats the apath of an earlier symlink entry" is the ordered hypothesis. -/
theorem notBelowLink_of_guard {nodes : List RNode} (hv : ∀ n ∈ nodes, isValid n.apath = true)
    (hg : nodes.Pairwise fun m n => m.kind = .symlink → comps m ≠ [] → comps m <+: comps n →
      comps m = comps n)
    (hd : nodes.Pairwise fun m n => m.kind = .symlink → m.apath ≠ n.apath) :
    nodes.Pairwise NotBelowLink := by
  have h2 := hg.and hd
  exact h2.imp_of_mem fun {a b} ha hb h hk hne hpre =>
    h.2 hk (apath_eq_of_comps_eq (hv a ha) (hv b hb) (h.1 hk hne hpre))

end Conserve
