import ConserveModel.Proofs.ConformsBlock
/-
C13: the Hoare logic `CSat` over `Prog.run` (world invariant: `CreateNew` enforced and the store
invariant `CI`; frame: the store only grows), the pure order/shape invariant of the buffered
entries (`BufOK`), and sorting a hunk.  No property statements here.
-/
namespace Conserve.Conf
open Conserve Conserve.Inv Prog

section
variable {H : Str → Str}

/-- World invariant: `CreateNew` is enforced and the store satisfies `CI`. -/
structure CWOK (H : Str → Str) (w : World) : Prop where
  enforce : w.enforceCreateNew = true
  ci : CI H w.store

/-- What every piece of `backup` guarantees about the world it ends in, whatever the outcome. -/
structure CFrame (H : Str → Str) (w w' : World) : Prop where
  wok : CWOK H w'
  ext : Extends w.store w'.store

theorem CFrame.ci {w w' : World} (h : CFrame H w w') : CI H w'.store := h.wok.ci

theorem CFrame.refl {w : World} (hw : CWOK H w) : CFrame H w w := ⟨hw, Extends.refl _⟩

theorem CFrame.trans {a b c : World} (h1 : CFrame H a b) (h2 : CFrame H b c) :
    CFrame H a c := ⟨h2.wok, h1.ext.inv_trans h2.ext⟩

/-- `CSat p w Q`: running `p` in `w` ends — whatever the outcome, whatever faults, wherever the
world is killed — in a world that keeps the invariant and extends `w`'s store; if it returns `a`
then `Q a` holds of the final world. -/
def CSat (H : Str → Str) {α : Type} (p : Prog α) (w : World) (Q : α → World → Prop) : Prop :=
  CFrame H w (p.run w).2 ∧ ∀ a, (p.run w).1 = .ok a → Q a (p.run w).2

theorem CSat.ret {α : Type} {a : α} {w : World} {Q : α → World → Prop} (hw : CWOK H w)
    (hq : Q a w) : CSat H (.ret a) w Q := ⟨CFrame.refl hw, fun _ h => by cases h; exact hq⟩

theorem CSat.fail {α : Type} {e : Err} {w : World} {Q : α → World → Prop} (hw : CWOK H w) :
    CSat H (.fail e) w Q := ⟨CFrame.refl hw, fun _ h => nomatch h⟩

theorem CSat.panic {α : Type} {s : String} {w : World} {Q : α → World → Prop} (hw : CWOK H w) :
    CSat H (.panic s) w Q := ⟨CFrame.refl hw, fun _ h => nomatch h⟩

theorem CSat.bind {α β : Type} {p : Prog α} {f : α → Prog β} {w : World} {Q : β → World → Prop}
    (hp : CSat H p w (fun a w' => CSat H (f a) w' Q)) : CSat H (p.bind f) w Q := by
  unfold CSat at hp ⊢
  rw [Prog.run_bind]
  obtain ⟨hf, hq⟩ := hp
  cases hrun : p.run w with
  | mk out w1 =>
    rw [hrun] at hf hq
    cases out with
    | ok a =>
      obtain ⟨hf2, hq2⟩ := hq a rfl
      exact ⟨hf.trans hf2, hq2⟩
    | err e => exact ⟨hf, fun _ h => nomatch h⟩
    | panic s => exact ⟨hf, fun _ h => nomatch h⟩

theorem CSat.mono {α : Type} {p : Prog α} {w : World} {Q Q' : α → World → Prop}
    (hp : CSat H p w Q) (h : ∀ a w', CFrame H w w' → Q a w' → Q' a w') :
    CSat H p w Q' := ⟨hp.1, fun a ha => h a _ hp.1 (hp.2 a ha)⟩

theorem CWOK.events {w : World} (hw : CWOK H w) (ev : Event) :
    CWOK H { w with events := ev :: w.events } := ⟨hw.enforce, hw.ci⟩

theorem CSat.emit {α : Type} {ev : Event} {k : Prog α} {w : World} {Q : α → World → Prop}
    (hk : CSat H k { w with events := ev :: w.events } Q) : CSat H (.emit ev k) w Q :=
  ⟨⟨hk.1.wok, hk.1.ext⟩, hk.2⟩

/-- Add a fact about the returned value proved directly on `run`. -/
theorem CSat.and_run {α : Type} {p : Prog α} {w : World} {Q Q' : α → World → Prop}
    (hp : CSat H p w Q) (h : ∀ a, (p.run w).1 = .ok a → Q' a (p.run w).2) :
    CSat H p w (fun a w' => Q a w' ∧ Q' a w') := ⟨hp.1, fun a ha => ⟨hp.2 a ha, h a ha⟩⟩

/-- Read-only programs keep everything. -/
theorem CSat.of_ro {α : Type} {p : Prog α} (hp : Prog.AllOps RO p) {w : World} (hw : CWOK H w) :
    CSat H p w (fun _ w' => w'.store = w.store) := by
  have hst := run_ro_store hp w
  refine ⟨⟨⟨?_, ?_⟩, ?_⟩, fun _ _ => hst⟩
  · rw [Prog.run_enforce]; exact hw.enforce
  · rw [hst]; exact hw.ci
  · rw [hst]; exact Extends.refl _

/-- Programs built from block operations keep `CI` and all non-block keys. -/
theorem CSat.of_blk (hlen : HashLen H) {α : Type} {p : Prog α} (hp : Prog.AllOps (BlockOp H) p)
    {w : World} (hw : CWOK H w) :
    CSat H p w (fun _ w' => NonBlockSame w.store w'.store) := by
  obtain ⟨h1, h2, h3⟩ := run_blockOps hlen hp w hw.enforce hw.ci
  exact ⟨⟨⟨by rw [Prog.run_enforce]; exact hw.enforce, h1⟩, h3⟩, fun _ _ => h2⟩

/-- Add a pure fact about the returned value. -/
theorem CSat.and_ret {α : Type} {p : Prog α} {w : World} {Q : α → World → Prop} {P : α → Prop}
    (hp : CSat H p w Q) (h : RetSpec p P) :
    CSat H p w (fun a w' => Q a w' ∧ P a) := hp.and_run (fun a ha => h w a ha)

/-- Add the postcondition of another specification of the same run. -/
theorem CSat.and_post {α : Type} {p : Prog α} {w : World} {Q Q' : α → World → Prop}
    (hp : CSat H p w Q) (h : CSat H p w Q') : CSat H p w (fun a w' => Q a w' ∧ Q' a w') :=
  hp.and_run h.2

/-- One creating operation: `CI` shown for the resulting store. -/
theorem CSat.op {α : Type} {o : Op} {k : Resp → Prog α} {w : World} {Q : α → World → Prop}
    (hw : CWOK H w) (ho : Inv.CreateOnly o) (hci : CI H (w.exec o).1.store)
    (hk : ∀ r, r = (w.exec o).2 → CSat H (k r) (w.exec o).1 Q) : CSat H (.op o k) w Q := by
  have f1 : CFrame H w (w.exec o).1 :=
    ⟨⟨by simpa using hw.enforce, hci⟩, w.inv_exec_extends o hw.enforce ho⟩
  obtain ⟨hf, hq⟩ := hk (w.exec o).2 rfl
  exact ⟨f1.trans hf, hq⟩

/-- A unit-returning operation with `?`: if it returns, the world is the one after the operation
and the operation answered `unit`. -/
theorem CSat.performUnit {o : Op} {w : World} (hw : CWOK H w) (ho : Inv.CreateOnly o)
    (hci : CI H (w.exec o).1.store) :
    CSat H (performUnit o) w (fun _ w' => w' = (w.exec o).1 ∧ (w.exec o).2 = .unit) := by
  unfold Conserve.performUnit perform
  simp only [Prog.bind_def, Prog.op_bind, Prog.ret_bind]
  refine CSat.op hw ho hci (fun r hr => ?_)
  have hw1 : CWOK H (w.exec o).1 := ⟨by simpa using hw.enforce, hci⟩
  cases r <;> first | exact CSat.ret hw1 ⟨rfl, hr.symm⟩ | exact CSat.fail hw1

theorem createOnly_createDir (k : Key) : Inv.CreateOnly (.createDir k) := Or.inr (Or.inl ⟨k, rfl⟩)

theorem createOnly_write (k : Key) (v : FileVal) : Inv.CreateOnly (.write k v .createNew) :=
  Or.inr (Or.inr ⟨k, v, rfl⟩)

end

/-! ### The order / shape invariant of the buffered entries -/

/-- What an index entry must satisfy besides its addresses: valid path, a target exactly for
symlinks, a known kind. -/
def MetaOKs (g : Sig) : Prop := isValid g.1 = true ∧ (g.2.1 = .symlink ↔ g.2.2.isSome = true) ∧ g.2.1 ≠ .unknown

/-- What is assumed of one source entry. -/
def SrcEntryOK (sf : SrcEntry) : Prop := isValid sf.apath = true ∧ (sf.kind = .symlink ↔ sf.target.isSome = true)

/-- The source listing still to be processed: strictly increasing, each entry well-formed. -/
structure SrcOK (todo : List SrcEntry) : Prop where
  sorted : (todo.map (·.apath)).Pairwise (fun a b => apathCmp a b = .lt)
  each : ∀ sf ∈ todo, SrcEntryOK sf

theorem SrcOK.tail {sf : SrcEntry} {todo : List SrcEntry} (h : SrcOK (sf :: todo)) : SrcOK todo :=
  ⟨(List.pairwise_cons.mp h.sorted).2, fun x hx => h.each x (List.mem_cons_of_mem _ hx)⟩

/-- The invariant relating the buffered entries (`sigs`), the paths already written to the band
(`written`) and the source entries still to come (`todo`). -/
structure BufOK (todo : List SrcEntry) (written : List Str) (sigs : List Sig) : Prop where
  shape : ∀ g ∈ sigs, MetaOKs g
  nodup : (sigs.map (·.1)).Nodup
  lt_todo : ∀ g ∈ sigs, ∀ t ∈ todo, apathCmp g.1 t.apath = .lt
  written_lt : ∀ a ∈ written, ∀ g ∈ sigs, apathCmp a g.1 = .lt
  written_todo : ∀ a ∈ written, ∀ t ∈ todo, apathCmp a t.apath = .lt

theorem BufOK.init (todo : List SrcEntry) : BufOK todo [] [] :=
  ⟨(by intro g hg; cases hg), List.nodup_nil, (by intro g hg; cases hg), (by intro a ha; cases ha),
   (by intro a ha; cases ha)⟩

theorem BufOK.perm {todo : List SrcEntry} {written : List Str} {a b : List Sig} (h : BufOK todo written a)
    (hp : b.Perm a) : BufOK todo written b :=
  ⟨fun g hg => h.shape g (hp.mem_iff.mp hg), (hp.map _).nodup_iff.mpr h.nodup,
   fun g hg => h.lt_todo g (hp.mem_iff.mp hg), fun x hx g hg => h.written_lt x hx g (hp.mem_iff.mp hg),
   h.written_todo⟩

/-- Going past one source entry: nothing, or exactly its entry, joined the buffer. -/
theorem BufOK.step {o : BackupOpts} {sf : SrcEntry} {todo : List SrcEntry} {written : List Str}
    {a b xs : List Sig} (h : BufOK (sf :: todo) written a) (hsrc : SrcOK (sf :: todo))
    (hxs : xs = [] ∨ (xs = [sig (metaOf o sf)] ∧ sf.kind ≠ .unknown)) (hp : b.Perm (a ++ xs)) :
    BufOK todo written b := by
  have hweak : BufOK todo written a :=
    ⟨h.shape, h.nodup, fun g hg t ht => h.lt_todo g hg t (List.mem_cons_of_mem _ ht), h.written_lt,
     fun x hx t ht => h.written_todo x hx t (List.mem_cons_of_mem _ ht)⟩
  rcases hxs with rfl | ⟨rfl, hk⟩
  · exact hweak.perm (by simpa using hp)
  · refine BufOK.perm ?_ hp
    have hsf := hsrc.each sf (List.mem_cons_self ..)
    have hsig : sig (metaOf o sf) = (sf.apath, sf.kind, sf.target) := rfl
    refine ⟨?_, ?_, ?_, ?_, hweak.written_todo⟩
    · intro g hg
      rcases List.mem_append.mp hg with hg | hg
      · exact h.shape g hg
      · simp only [List.mem_singleton] at hg
        subst hg
        exact ⟨hsf.1, hsf.2, hk⟩
    · rw [List.map_append, List.nodup_append]
      refine ⟨h.nodup, by simp, ?_⟩
      intro x hx y hy
      obtain ⟨g, hg, rfl⟩ := List.mem_map.mp hx
      simp only [List.map_cons, List.map_nil, List.mem_singleton] at hy
      subst hy
      intro heq
      have := h.lt_todo g hg sf (List.mem_cons_self ..)
      rw [heq, hsig] at this
      exact C11.cmp_irrefl _ this
    · intro g hg t ht
      rcases List.mem_append.mp hg with hg | hg
      · exact hweak.lt_todo g hg t ht
      · simp only [List.mem_singleton] at hg
        subst hg
        exact (List.pairwise_cons.mp hsrc.sorted).1 _ (List.mem_map.mpr ⟨t, ht, rfl⟩)
    · intro x hx g hg
      rcases List.mem_append.mp hg with hg | hg
      · exact h.written_lt x hx g hg
      · simp only [List.mem_singleton] at hg
        subst hg
        exact h.written_todo x hx sf (List.mem_cons_self ..)

/-! ### Sorting a hunk -/

theorem apathLe_trans (a b c : Str) : apathLe a b = true → apathLe b c = true → apathLe a c = true := by
  unfold apathLe
  simp only [bne_iff_ne, ne_eq]
  intro h1 h2 h3
  -- a > c, a ≤ b, b ≤ c
  have hca : apathCmp c a = .lt := by rw [C11.cmp_swap, h3]; rfl
  by_cases hab : a = b
  · subst hab; exact h2 h3
  · by_cases hbc : b = c
    · subst hbc; exact h1 h3
    · have hab' : apathCmp a b = .lt := by
        rcases C11.cmp_total a b hab with h | h
        · exact h
        · exfalso; apply h1; rw [C11.cmp_swap, h]; rfl
      have hbc' : apathCmp b c = .lt := by
        rcases C11.cmp_total b c hbc with h | h
        · exact h
        · exfalso; apply h2; rw [C11.cmp_swap, h]; rfl
      exact C11.cmp_irrefl _ (C11.cmp_trans (C11.cmp_trans hab' hbc') hca)

theorem apathLe_total (a b : Str) : (apathLe a b || apathLe b a) = true := by
  unfold apathLe
  by_cases hab : a = b
  · subst hab
    have : apathCmp a a = .eq := (C11.cmp_eq_iff a a).2 rfl
    simp [this]
  · rcases C11.cmp_total a b hab with h | h
    · simp [h]
    · simp [h]

/-- `finish_hunk`'s sort yields strictly increasing paths when the paths are distinct. -/
theorem sorted_hunk {es : List IndexEntry} (hnd : (es.map (·.apath)).Nodup) :
    ((es.mergeSort fun a b => apathLe a.apath b.apath).map (·.apath)).Pairwise
      (fun a b => apathCmp a b = .lt) := by
  have hle := List.pairwise_mergeSort (le := fun a b : IndexEntry => apathLe a.apath b.apath)
    (fun a b c => apathLe_trans _ _ _) (fun a b => apathLe_total _ _) es
  have hnd' : ((es.mergeSort fun a b => apathLe a.apath b.apath).map (·.apath)).Nodup :=
    ((List.mergeSort_perm es _).map _).nodup_iff.mpr hnd
  rw [List.pairwise_map]
  rw [List.Nodup, List.pairwise_map] at hnd'
  refine (hle.and hnd').imp ?_
  intro a b ⟨h1, h2⟩
  rcases C11.cmp_total a.apath b.apath h2 with h | h
  · exact h
  · exfalso
    unfold apathLe at h1
    simp only [bne_iff_ne, ne_eq] at h1
    apply h1
    rw [C11.cmp_swap, h]; rfl

end Conserve.Conf
