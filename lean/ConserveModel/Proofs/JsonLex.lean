import ConserveModel.Json
/-
Helper lemmas for the JSON round trip (Props/C13j.lean): the lexical level — strings and numbers.
-/
namespace Conserve.Json
open Conserve

/-! ### whitespace and literals -/

theorem skipWs_cons_of_ne {c : Nat} {r : Str} (h32 : c ≠ 32) (h10 : c ≠ 10) (h9 : c ≠ 9) (h13 : c ≠ 13) :
    skipWs (c :: r) = c :: r := by
  simp [skipWs, h32, h10, h9, h13]

theorem expectLit_append (l rest : Str) : expectLit l (l ++ rest) = some rest := by
  induction l with
  | nil => cases rest <;> simp [expectLit]
  | cons a l ih => simp [expectLit, ih]

/-! ### strings -/

theorem hexDigitVal_hexLower {x : Nat} (h : x < 16) : hexDigitVal (hexLower x) = some x := by
  unfold hexLower hexDigitVal
  split
  · simp; omega
  · have h1 : ¬ (48 ≤ 87 + x ∧ 87 + x ≤ 57) := by omega
    have h2 : (97 ≤ 87 + x ∧ 87 + x ≤ 102) := by omega
    simp [h1, h2]

theorem hex4_control {b : Nat} (hb : b < 32) (r : Str) :
    hex4 (48 :: 48 :: hexLower (b / 16) :: hexLower (b % 16) :: r) = some (b, r) := by
  have h1 : hexDigitVal (hexLower (b / 16)) = some (b / 16) := hexDigitVal_hexLower (by omega)
  have h2 : hexDigitVal (hexLower (b % 16)) = some (b % 16) := hexDigitVal_hexLower (by omega)
  have h0 : hexDigitVal 48 = some 0 := by decide
  simp only [hex4, h0, h1, h2]
  congr 2
  omega

theorem parseUnicode_control {b : Nat} (hb : b < 32) (r : Str) :
    parseUnicode (48 :: 48 :: hexLower (b / 16) :: hexLower (b % 16) :: r) = some ([b], r) := by
  have h1 : ¬ (56320 ≤ b ∧ b ≤ 57343) := by omega
  have h2 : b < 55296 ∨ b > 56319 := by omega
  have h3 : b < 128 := by omega
  simp [parseUnicode, hex4_control hb, h1, h2, utf8Encode, h3]

/-- One source byte, written by `escByte`, is read back by one step of `parseCharsF`. -/
theorem parseCharsF_escByte (b : Nat) (tail : Str) (f : Nat) :
    parseCharsF (f + 1) (escByte b ++ tail) =
      (parseCharsF f tail).map (fun p => (b :: p.1, p.2)) := by
  unfold escByte
  cases hp : parseCharsF f tail with
  | none =>
    repeat' split
    all_goals first
      | (subst_vars; simp [parseCharsF, parseEscape, hp]; done)
      | (rename_i hlt; simp [parseCharsF, parseEscape, parseUnicode_control hlt, hp]; done)
      | (simp_all [parseCharsF]; done)
  | some p =>
    obtain ⟨s, r⟩ := p
    repeat' split
    all_goals first
      | (subst_vars; simp [parseCharsF, parseEscape, hp]; done)
      | (rename_i hlt; simp [parseCharsF, parseEscape, parseUnicode_control hlt, hp]; done)
      | (simp_all [parseCharsF]; done)

theorem parseCharsF_render (s rest : Str) : ∀ f, s.length < f →
    parseCharsF f (renderChars s ++ rest) = some (s, rest) := by
  induction s with
  | nil =>
    intro f hf
    cases f with
    | zero => omega
    | succ f => simp [renderChars, parseCharsF]
  | cons b bs ih =>
    intro f hf
    cases f with
    | zero => omega
    | succ f =>
      simp only [renderChars, List.append_assoc]
      rw [parseCharsF_escByte, ih f (by simpa using hf)]
      rfl

theorem escByte_length_pos (b : Nat) : 1 ≤ (escByte b).length := by
  unfold escByte
  repeat' split
  all_goals simp

theorem renderChars_length (s : Str) : s.length + 1 ≤ (renderChars s).length := by
  induction s with
  | nil => simp [renderChars]
  | cons b bs ih =>
    have := escByte_length_pos b
    simp [renderChars]
    omega

theorem parseStrBody_render (s rest : Str) (hs : validUtf8 s = true) (f : Nat)
    (hf : (renderChars s ++ rest).length ≤ f) :
    parseStrBody f (renderChars s ++ rest) = some (s, rest) := by
  have := renderChars_length s
  have hlt : s.length < f := by simp at hf; omega
  simp [parseStrBody, parseCharsF_render s rest f hlt, hs]

theorem parseStr_render (s rest : Str) (hs : validUtf8 s = true) (f : Nat)
    (hf : (renderString s ++ rest).length ≤ f) :
    parseStr f (renderString s ++ rest) = some (s, rest) := by
  have hf' : (renderChars s ++ rest).length ≤ f := by simp [renderString] at hf ⊢; omega
  simp [parseStr, renderString, skipWs, parseStrBody_render s rest hs f hf']

theorem parseOptStr_render (o : Option Str) (rest : Str) (ho : ∀ s, o = some s → validUtf8 s = true) (f : Nat)
    (hf : (renderOptStr o ++ rest).length ≤ f) :
    parseOptStr f (renderOptStr o ++ rest) = some (o, rest) := by
  cases o with
  | none => simp [parseOptStr, renderOptStr, kNull, skipWs, expectLit]
  | some s =>
    have hf' : (renderChars s ++ rest).length ≤ f := by simp [renderOptStr, renderString] at hf ⊢; omega
    simp [parseOptStr, renderOptStr, renderString, skipWs, parseStrBody_render s rest (ho s rfl) f hf']

/-! ### numbers -/

/-- What may follow an integer literal for it to be read as that integer: the end of the input, or a
byte that is neither a digit nor `.`, `e`, `E`. -/
def NumEnd (rest : Str) : Prop :=
  ∀ c r, rest = c :: r → isDigit c = false ∧ c ≠ 46 ∧ c ≠ 101 ∧ c ≠ 69

/-- What follows a value in compact JSON: a comma or a closing bracket. -/
def Delim (rest : Str) : Prop := ∃ c r, rest = c :: r ∧ (c = 44 ∨ c = 125 ∨ c = 93)

theorem Delim.cons44 (r : Str) : Delim (44 :: r) := ⟨44, r, rfl, by simp⟩
theorem Delim.cons125 (r : Str) : Delim (125 :: r) := ⟨125, r, rfl, by simp⟩
theorem Delim.cons93 (r : Str) : Delim (93 :: r) := ⟨93, r, rfl, by simp⟩

theorem Delim.numEnd {rest : Str} (h : Delim rest) : NumEnd rest := by
  obtain ⟨c, r, rfl, hc⟩ := h
  intro c' r' heq
  cases heq
  rcases hc with rfl | rfl | rfl <;> simp [isDigit]

theorem NumEnd.nil : NumEnd [] := by intro c r h; cases h

theorem takeDigits_numEnd {rest : Str} (h : NumEnd rest) (acc : Nat) : takeDigits acc rest = (acc, rest) := by
  cases rest with
  | nil => rfl
  | cons c r => simp [takeDigits, (h c r rfl).1]

theorem noFraction_numEnd {rest : Str} (h : NumEnd rest) : noFraction rest = true := by
  cases rest with
  | nil => rfl
  | cons c r =>
    obtain ⟨_, h1, h2, h3⟩ := h c r rfl
    simp [noFraction, h1, h2, h3]

theorem renderNatF_fuel : ∀ (f g n : Nat), n ≤ f → n ≤ g → renderNatF f n = renderNatF g n := by
  intro f
  induction f with
  | zero =>
    intro g n hf hg
    have : n = 0 := by omega
    subst this
    cases g <;> simp [renderNatF]
  | succ f ih =>
    intro g n hf hg
    cases g with
    | zero =>
      have : n = 0 := by omega
      subst this
      simp [renderNatF]
    | succ g =>
      simp only [renderNatF]
      split
      · rfl
      · rw [ih g (n / 10) (by omega) (by omega)]

/-- The defining equation of decimal rendering. -/
theorem renderNat_unfold (n : Nat) :
    renderNat n = if n < 10 then [48 + n] else renderNat (n / 10) ++ [48 + n % 10] := by
  unfold renderNat
  cases n with
  | zero => simp [renderNatF]
  | succ m =>
    simp only [renderNatF]
    split
    · rfl
    · rw [renderNatF_fuel m ((m + 1) / 10) ((m + 1) / 10) (by omega) (by omega)]

theorem takeDigits_renderNat (n : Nat) : ∀ acc rest,
    takeDigits acc (renderNat n ++ rest) = takeDigits (acc * 10 ^ (renderNat n).length + n) rest := by
  induction n using Nat.strongRecOn with
  | ind n ih =>
    intro acc rest
    rw [renderNat_unfold]
    split
    · have hd : isDigit (48 + n) = true := by simp [isDigit]; omega
      simp [takeDigits, hd]
    · rename_i h
      have hd : isDigit (48 + n % 10) = true := by simp [isDigit]; omega
      rw [List.append_assoc, ih (n / 10) (by omega)]
      simp only [List.cons_append, List.nil_append, takeDigits, hd, if_true, List.length_append, List.length_cons,
        List.length_nil, Nat.pow_succ]
      congr 1
      have : 48 + n % 10 - 48 = n % 10 := by omega
      rw [this, ← Nat.mul_assoc]
      generalize acc * 10 ^ (renderNat (n / 10)).length = X
      omega

/-- The first digit of a rendered number; it is `0` only for the number zero. -/
theorem renderNat_head (n : Nat) :
    ∃ c ds, renderNat n = c :: ds ∧ 48 ≤ c ∧ c ≤ 57 ∧ (c = 48 → n = 0) := by
  induction n using Nat.strongRecOn with
  | ind n ih =>
    rw [renderNat_unfold]
    split
    · exact ⟨48 + n, [], rfl, by omega, by omega, by omega⟩
    · obtain ⟨c, ds, heq, h1, h2, h3⟩ := ih (n / 10) (by omega)
      refine ⟨c, ds ++ [48 + n % 10], by simp [heq], h1, h2, ?_⟩
      intro hc
      have := h3 hc
      omega

theorem renderNat_zero : renderNat 0 = [48] := by
  rw [renderNat_unfold]; simp

theorem parseMagnitude_render (n : Nat) (rest : Str) (hd : NumEnd rest) :
    parseMagnitude (renderNat n ++ rest) = some (n, rest) := by
  obtain ⟨c, ds, heq, h1, h2, h3⟩ := renderNat_head n
  by_cases hc : c = 48
  · have hn := h3 hc
    subst hn
    rw [renderNat_zero]
    cases rest with
    | nil => simp [parseMagnitude]
    | cons d r =>
      have hnd : isDigit d = false := (hd d r rfl).1
      have hnf : noFraction (d :: r) = true := noFraction_numEnd hd
      simp [parseMagnitude, hnd, hnf]
  · have hdig : isDigit c = true := by simp [isDigit]; omega
    have key := takeDigits_renderNat n 0 rest
    rw [heq] at key
    simp only [List.cons_append, takeDigits, hdig, if_true, Nat.zero_mul, Nat.zero_add] at key
    rw [takeDigits_numEnd hd] at key
    rw [heq]
    simp only [List.cons_append, parseMagnitude, hc, if_false, hdig, if_true]
    rw [key]
    simp [noFraction_numEnd hd]

theorem skipWs_renderNat (n : Nat) (rest : Str) : skipWs (renderNat n ++ rest) = renderNat n ++ rest := by
  obtain ⟨c, ds, heq, h1, h2, _⟩ := renderNat_head n
  rw [heq]
  exact skipWs_cons_of_ne (by omega) (by omega) (by omega) (by omega)

theorem parseUnsigned_render (bound n : Nat) (hn : n < bound) (rest : Str) (hd : NumEnd rest) :
    parseUnsigned bound (renderNat n ++ rest) = some (n, rest) := by
  simp [parseUnsigned, skipWs_renderNat, parseMagnitude_render n rest hd, hn]

theorem parseI64_render (i : Int) (h1 : -9223372036854775808 ≤ i) (h2 : i < 9223372036854775808)
    (rest : Str) (hd : NumEnd rest) :
    parseI64 (renderInt i ++ rest) = some (i, rest) := by
  cases i with
  | ofNat n =>
    obtain ⟨c, ds, heq, hc1, hc2, _⟩ := renderNat_head n
    have hsk := skipWs_renderNat n rest
    have hm := parseMagnitude_render n rest hd
    rw [heq] at hsk hm
    have hn : n < 9223372036854775808 := by
      simp only [Int.ofNat_eq_natCast] at h2; omega
    have hc45 : c ≠ 45 := by omega
    simp only [renderInt, parseI64, heq, hsk, List.cons_append] at *
    simp [hc45, hm, hn]
  | negSucc n =>
    have hm := parseMagnitude_render (n + 1) rest hd
    have hn : ¬ (n + 1 > 9223372036854775808) := by omega
    simp only [renderInt, parseI64, List.cons_append]
    rw [skipWs_cons_of_ne (by decide) (by decide) (by decide) (by decide)]
    simp [hm, hn]
    omega

theorem parseOptU32_render (o : Option Nat) (ho : ∀ n, o = some n → n < 4294967296) (rest : Str) (hd : NumEnd rest) :
    parseOptU32 (renderOptNat o ++ rest) = some (o, rest) := by
  cases o with
  | none => simp [parseOptU32, renderOptNat, kNull, skipWs, expectLit]
  | some n =>
    obtain ⟨c, ds, heq, hc1, hc2, _⟩ := renderNat_head n
    have hsk := skipWs_renderNat n rest
    have hp := parseUnsigned_render 4294967296 n (ho n rfl) rest hd
    rw [heq] at hsk hp
    have hc : c ≠ 110 := by omega
    simp only [renderOptNat, parseOptU32, heq, hsk, List.cons_append] at *
    simp [hc, hp]

theorem parseOptU64_render (o : Option Nat) (ho : ∀ n, o = some n → n < 18446744073709551616) (rest : Str) (hd : NumEnd rest) :
    parseOptU64 (renderOptNat o ++ rest) = some (o, rest) := by
  cases o with
  | none => simp [parseOptU64, renderOptNat, kNull, skipWs, expectLit]
  | some n =>
    obtain ⟨c, ds, heq, hc1, hc2, _⟩ := renderNat_head n
    have hsk := skipWs_renderNat n rest
    have hp := parseUnsigned_render 18446744073709551616 n (ho n rfl) rest hd
    rw [heq] at hsk hp
    have hc : c ≠ 110 := by omega
    simp only [renderOptNat, parseOptU64, heq, hsk, List.cons_append] at *
    simp [hc, hp]

end Conserve.Json
