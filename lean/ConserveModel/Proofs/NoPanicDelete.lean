import ConserveModel.Proofs.NoPanicBackup
/-
No panic in `delete_bands` after the repair of D6 (`strict = true`): the only panic on that
path was `iter_available_hunks`' `expect`, which the strict code no longer calls.
No property statements here.
-/
namespace Conserve.NP
open Conserve Prog

theorem bandHunkEntries_strict_safe (b : Nat) (ns : List Nat) :
    Safe AllUsable (bandHunkEntries true b ns) := by
  induction ns with
  | nil => exact .ret AllUsable.nil
  | cons n rest ih =>
    unfold bandHunkEntries
    simp only [Prog.bind_def, Prog.pure_def, if_true]
    refine Safe.bind (readHunk_safe b n).attempt (fun r hr => ?_)
    split
    · exact .fail _
    · exact .fail _
    · exact Safe.bind ih (fun more hm => .ret ((hr _ rfl _ rfl).append hm))

theorem referencedBlocks_strict_safe (bs : List Nat) : Safe (fun _ => True) (referencedBlocks true bs) := by
  induction bs with
  | nil => exact .ret trivial
  | cons b bs ih =>
    unfold referencedBlocks
    simp only [Prog.bind_def, Prog.pure_def, if_true]
    refine Safe.bind' (bandOpen_safe b) (fun _ => ?_)
    refine Safe.bind' (hunksAvailable_safe b) (fun hunks => ?_)
    refine Safe.bind' (bandHunkEntries_strict_safe b hunks) (fun es => ?_)
    exact Safe.bind' ih (fun _ => .ret trivial)

theorem gcLockNew_safe : Safe (fun _ => True) gcLockNew := by
  unfold gcLockNew
  simp only [Prog.bind_def, Prog.pure_def]
  safe_using [lastBandId_safe, bandIsClosed_safe _, unwrapOr_safe _ (isFile_safe _), performUnit_safe _]

theorem gcBreakLock_safe : Safe (fun _ => True) gcBreakLock := by
  unfold gcBreakLock
  simp only [Prog.bind_def]
  safe_using [gcIsLocked_safe, performUnit_safe _, gcLockNew_safe]

theorem gcLockCheck_safe (held : Option Nat) : Safe (fun _ => True) (gcLockCheck held) := by
  unfold gcLockCheck
  simp only [Prog.bind_def, Prog.pure_def]
  refine Safe.bind' lastBandId_safe (fun l => ?_)
  split
  · exact .ret trivial
  · exact .fail _

theorem gcLockDrop_safe : Safe (fun _ => True) gcLockDrop := by
  unfold gcLockDrop
  simp only [Prog.bind_def, Prog.pure_def]
  exact Safe.bind' (Safe.perform _) (fun _ => .ret trivial)

theorem gcLockReleaseOnError_safe : Safe (fun _ => True) gcLockReleaseOnError := by
  unfold gcLockReleaseOnError
  simp only [Prog.bind_def, Prog.pure_def]
  refine Safe.bind' (Safe.perform _) (fun r => ?_)
  split
  · exact .ret trivial
  · exact gcLockDrop_safe

theorem bandDelete_safe (b : Nat) : Safe (fun _ => True) (bandDelete b) := by
  unfold bandDelete
  simp only [Prog.bind_def, Prog.pure_def]
  repeat safe_step

theorem deleteBody_measure_safe (hs : List Str) : Safe (fun _ => True) (deleteBody.measure hs) := by
  induction hs with
  | nil => exact .ret trivial
  | cons h hs ih =>
    unfold deleteBody.measure
    simp only [Prog.bind_def]
    refine Safe.bind' (Safe.perform _) (fun r => ?_)
    split
    · exact ih
    · exact .fail _
    · exact .fail _

theorem deleteBody_delBands_safe (bs : List Nat) (n : Nat) : Safe (fun _ => True) (deleteBody.delBands bs n) := by
  induction bs generalizing n with
  | nil => exact .ret trivial
  | cons b bs ih =>
    unfold deleteBody.delBands
    simp only [Prog.bind_def]
    exact Safe.bind' (bandDelete_safe b) (fun _ => ih _)

theorem deleteBody_delBlocks_safe (hs : List Str) (n : Nat) : Safe (fun _ => True) (deleteBody.delBlocks hs n) := by
  induction hs generalizing n with
  | nil => exact .ret trivial
  | cons h hs ih =>
    unfold deleteBody.delBlocks
    simp only [Prog.bind_def]
    refine Safe.bind' (Safe.perform _) (fun r => ?_)
    split
    · exact ih _
    · exact ih _

theorem deleteBody_strict_safe (D : List Nat) (o : DeleteOpts) (held : Option Nat) :
    Safe (fun _ => True) (deleteBody true D o held) := by
  unfold deleteBody
  simp only [Prog.bind_def, Prog.pure_def]
  safe_using [listBandIds_safe, referencedBlocks_strict_safe _, listBlocks_safe, deleteBody_measure_safe _,
    gcLockCheck_safe held, deleteBody_delBands_safe _ _, deleteBody_delBlocks_safe _ _,
    Safe.bind' (performUnit_safe _) (fun _ => .ret trivial)]

theorem deleteBands_strict_safe (D : List Nat) (o : DeleteOpts) :
    Safe (fun _ => True) (deleteBands true D o) := by
  have hbody : ∀ held, Safe (fun _ => True) ((deleteBody true D o held).attemptAll.bind fun r =>
      match r with
      | .ok st => Prog.ret st
      | .err e => gcLockReleaseOnError.bind fun _ => Prog.fail e
      | .panic site => gcLockDrop.bind fun _ => Prog.panic site) := by
    intro held
    refine Safe.bind (deleteBody_strict_safe D o held).attemptAll (fun r hr => ?_)
    split
    · exact .ret trivial
    · exact Safe.bind' gcLockReleaseOnError_safe (fun _ => .fail _)
    · exact hr.elim
  unfold deleteBands
  simp only [Prog.bind_def, Prog.pure_def]
  split
  · exact Safe.bind' gcBreakLock_safe (fun held => hbody held)
  · exact Safe.bind' gcLockNew_safe (fun held => hbody held)

end Conserve.NP
