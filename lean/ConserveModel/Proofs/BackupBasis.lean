import ConserveModel.Proofs.BackupReadOnly
/-
Where the basis listing comes from: every entry `listEntries` (the stitched index reader)
returns is an entry of some decodable hunk of the store.  With that, the assumption `backup`
makes about unchanged files can be stated on the initial store alone.
No property statements here.
-/
namespace Conserve.Inv
open Conserve Prog

/-- `ROSpec s p Q`: in every world whose store is `s` — any faults, any crash point — the
program leaves the store alone and, if it returns `a`, then `Q a`. -/
def ROSpec (s : Store) {α : Type} (p : Prog α) (Q : α → Prop) : Prop :=
  ∀ w : World, w.store = s → (p.run w).2.store = s ∧ ∀ a, (p.run w).1 = .ok a → Q a

namespace ROSpec
variable {s : Store}

theorem ret {α : Type} {a : α} {Q : α → Prop} (h : Q a) : ROSpec s (.ret a) Q :=
  fun _ hw => ⟨hw, fun _ h' => by cases h'; exact h⟩

theorem fail {α : Type} {e : Err} {Q : α → Prop} : ROSpec s (.fail e : Prog α) Q :=
  fun _ hw => ⟨hw, fun _ h' => nomatch h'⟩

theorem panic {α : Type} {m : String} {Q : α → Prop} : ROSpec s (.panic m : Prog α) Q :=
  fun _ hw => ⟨hw, fun _ h' => nomatch h'⟩

theorem emit {α : Type} {ev : Event} {k : Prog α} {Q : α → Prop} (h : ROSpec s k Q) :
    ROSpec s (.emit ev k) Q := fun w hw => h { w with events := ev :: w.events } hw

theorem bind {α β : Type} {p : Prog α} {f : α → Prog β} {Q1 : α → Prop} {Q : β → Prop}
    (hp : ROSpec s p Q1) (hf : ∀ a, Q1 a → ROSpec s (f a) Q) : ROSpec s (p.bind f) Q := by
  intro w hw
  rw [Prog.run_bind]
  obtain ⟨h1, h2⟩ := hp w hw
  cases hrun : p.run w with
  | mk out w1 =>
    rw [hrun] at h1 h2
    cases out with
    | ok a => exact hf a (h2 a rfl) w1 h1
    | err e => exact ⟨h1, fun _ h' => nomatch h'⟩
    | panic m => exact ⟨h1, fun _ h' => nomatch h'⟩

theorem attempt {α : Type} {p : Prog α} {Q : α → Prop} (hp : ROSpec s p Q) :
    ROSpec s p.attempt (fun r => ∀ a, r = .ok a → Q a) := by
  intro w hw
  rw [Prog.run_attempt]
  obtain ⟨h1, h2⟩ := hp w hw
  cases hrun : p.run w with
  | mk out w1 =>
    rw [hrun] at h1 h2
    cases out with
    | ok a => exact ⟨h1, fun r hr a' ha' => by cases hr; cases ha'; exact h2 a rfl⟩
    | err e => exact ⟨h1, fun r hr a' ha' => by cases hr; cases ha'⟩
    | panic m => exact ⟨h1, fun _ h' => nomatch h'⟩

theorem mono {α : Type} {p : Prog α} {Q Q' : α → Prop} (hp : ROSpec s p Q) (h : ∀ a, Q a → Q' a) :
    ROSpec s p Q' := fun w hw => ⟨(hp w hw).1, fun a ha => h a ((hp w hw).2 a ha)⟩

/-- A read-only program, when nothing is needed of its result. -/
theorem of_ro {α : Type} {p : Prog α} (hp : Prog.AllOps RO p) : ROSpec s p (fun _ => True) :=
  fun w hw => ⟨(run_ro_store hp w).trans hw, fun _ _ => trivial⟩

end ROSpec

/-- A read that returns a value returns what the store holds. -/
theorem _root_.Conserve.World.inv_exec_read (w : World) (k : Key) :
    ∀ v, (w.exec (.read k)).2 = .val v → w.store.get? k = some v := by
  intro v h
  unfold World.exec at h
  split at h
  · cases h
  · split at h
    · cases h
    · simp only [Op.isMutating, Bool.not_false, if_true, applyOp] at h
      split at h
      · cases h
      · cases h
      · rename_i v' hne hget
        cases h
        exact hget

theorem ROSpec.read (s : Store) (k : Key) :
    ROSpec s (perform (.read k)) (fun r => ∀ v, r = .val v → s.get? k = some v) := by
  intro w hw
  unfold perform
  simp only [Prog.run_op, Prog.run_ret]
  refine ⟨(w.inv_exec_ro_store _ rfl).trans hw, fun r hr v hv => ?_⟩
  cases hr
  exact hw ▸ w.inv_exec_read k v hv

/-- Every entry of the list sits in some decodable hunk of the store. -/
def FromHunks (s : Store) (es : List IndexEntry) : Prop :=
  ∀ e ∈ es, ∃ b n hes, hunkAt s b n = some hes ∧ e ∈ hes

theorem FromHunks.nil (s : Store) : FromHunks s [] := fun _ h => nomatch h

theorem FromHunks.append {s : Store} {xs ys : List IndexEntry} (hx : FromHunks s xs) (hy : FromHunks s ys) :
    FromHunks s (xs ++ ys) := fun e he => by
  rcases List.mem_append.mp he with h | h
  · exact hx e h
  · exact hy e h

theorem FromHunks.sub {s : Store} {xs ys : List IndexEntry} (hy : FromHunks s ys) (h : ∀ e ∈ xs, e ∈ ys) :
    FromHunks s xs := fun e he => hy e (h e he)

theorem readHunk_spec (s : Store) (b n : Nat) :
    ROSpec s (readHunk b n) (fun r => ∀ es, r = some es → hunkAt s b n = some es ∨ es = []) := by
  unfold readHunk
  simp only [Prog.bind_def, Prog.pure_def]
  refine ROSpec.bind (ROSpec.read s _) (fun r hr => ?_)
  split
  · exact ROSpec.ret (fun _ h => nomatch h)
  · exact ROSpec.fail
  · rename_i es
    split
    · refine ROSpec.ret (fun es' h => ?_)
      cases h
      left
      simp [hunkAt, hr _ rfl]
    · exact ROSpec.fail
  · refine ROSpec.ret (fun es' h => ?_)
    cases h
    right; rfl
  · exact ROSpec.fail
  · exact ROSpec.fail

theorem readHunks_spec (s : Store) (b : Nat) (ns : List Nat) (after last : Option Str) :
    ROSpec s (readHunks b ns after last) (fun r => FromHunks s r.1) := by
  induction ns generalizing after last with
  | nil => exact ROSpec.ret (FromHunks.nil s)
  | cons n rest ih =>
    unfold readHunks
    simp only [Prog.bind_def, Prog.pure_def, logError]
    refine ROSpec.bind (readHunk_spec s b n).attempt (fun r hr => ?_)
    have hcat : ∀ (part : List IndexEntry) a l, FromHunks s part →
        ROSpec s ((readHunks b rest a l).bind fun x => Prog.ret (part ++ x.1, x.2))
          (fun r => FromHunks s r.1) := fun part a l hp =>
      ROSpec.bind (ih a l) (fun x hx => ROSpec.ret (hp.append hx))
    split
    · exact ROSpec.ret (FromHunks.nil s)
    · exact ROSpec.emit (ROSpec.bind (Q1 := fun _ => True) (ROSpec.ret trivial) (fun _ _ => ih _ _))
    · rename_i es
      have hes : FromHunks s es := fun e he => by
        rcases hr _ rfl es rfl with h | h
        · exact ⟨b, n, es, h, he⟩
        · subst h; cases he
      have htrim : ∀ a, FromHunks s (trimAfter a es) := fun a =>
        hes.sub fun e he => (List.dropWhile_sublist _).subset he
      repeat (first
        | exact ih _ _
        | exact hcat es _ _ hes
        | exact hcat _ _ _ (htrim _)
        | split)


theorem readBand_spec (s : Store) (b : Nat) (last : Option Str) :
    ROSpec s (readBand b last) (fun r => FromHunks s r.1) := by
  unfold readBand
  simp only [Prog.bind_def, Prog.pure_def, logError]
  refine ROSpec.bind (ROSpec.of_ro (bandOpen_ro b).attempt) (fun r _ => ?_)
  split
  · exact ROSpec.emit (ROSpec.bind (Q1 := fun _ => True) (ROSpec.ret trivial)
      (fun _ _ => ROSpec.ret (FromHunks.nil s)))
  · refine ROSpec.bind (ROSpec.of_ro (hunksAvailable_ro b).attempt) (fun r _ => ?_)
    split
    · exact ROSpec.emit (ROSpec.bind (Q1 := fun _ => True) (ROSpec.ret trivial)
        (fun _ _ => ROSpec.ret (FromHunks.nil s)))
    · refine ROSpec.bind (ROSpec.of_ro (checkIndexHunks_ro b).attempt) (fun r _ => ?_)
      split
      · exact ROSpec.emit (ROSpec.bind (Q1 := fun _ => True) (ROSpec.ret trivial)
          (fun _ _ => readHunks_spec s b _ _ _))
      · exact readHunks_spec s b _ _ _

theorem stitchDown_spec (s : Store) (b : Nat) (last : Option Str) :
    ROSpec s (stitchDown b last) (FromHunks s) := by
  induction b generalizing last with
  | zero => exact ROSpec.ret (FromHunks.nil s)
  | succ b ih =>
    unfold stitchDown
    simp only [Prog.bind_def, Prog.pure_def]
    refine ROSpec.bind (ROSpec.of_ro (unwrapOr_ro _ (isFile_ro _))) (fun r _ => ?_)
    split
    · refine ROSpec.bind (readBand_spec s _ _) (fun x hx => ?_)
      refine ROSpec.bind (ROSpec.of_ro (unwrapOr_ro _ (isFile_ro _))) (fun r _ => ?_)
      split
      · exact ROSpec.ret hx
      · exact ROSpec.bind (ih _) (fun more hm => ROSpec.ret (hx.append hm))
    · refine ROSpec.bind (ROSpec.of_ro (unwrapOr_ro _ (isFile_ro _))) (fun r _ => ?_)
      split
      · exact ROSpec.emit (ih _)
      · exact ih _

theorem stitchAll_spec (s : Store) (b : Nat) : ROSpec s (stitchAll b) (FromHunks s) := by
  unfold stitchAll
  simp only [Prog.bind_def, Prog.pure_def]
  refine ROSpec.bind (readBand_spec s _ _) (fun x hx => ?_)
  refine ROSpec.bind (ROSpec.of_ro (unwrapOr_ro _ (isFile_ro _))) (fun r _ => ?_)
  split
  · exact ROSpec.ret hx
  · exact ROSpec.bind (stitchDown_spec s _ _) (fun more hm => ROSpec.ret (hx.append hm))

theorem filterEntries_spec (s : Store) (subtree : Str) (excl : Str → Bool) (es : List IndexEntry) :
    ROSpec s (filterEntries subtree excl es) (fun r => ∀ e ∈ r, e ∈ es) := by
  induction es with
  | nil => exact ROSpec.ret (fun _ h => nomatch h)
  | cons e es ih =>
    unfold filterEntries
    simp only [Prog.bind_def, Prog.pure_def]
    have hskip : ROSpec s (filterEntries subtree excl es) (fun r => ∀ x ∈ r, x ∈ e :: es) :=
      ih.mono fun r hr x hx => List.mem_cons_of_mem _ (hr x hx)
    split
    · exact hskip
    · split
      · exact ROSpec.panic
      · split
        · exact hskip
        · refine ROSpec.bind ih (fun rest hrest => ROSpec.ret ?_)
          intro x hx
          rcases List.mem_cons.mp hx with rfl | hx
          · exact List.mem_cons_self ..
          · exact List.mem_cons_of_mem _ (hrest x hx)

/-- Every entry of a listing comes out of a decodable hunk of the store. -/
theorem listEntries_spec (s : Store) (b : Nat) (subtree : Str) (excl : Str → Bool) :
    ROSpec s (listEntries b subtree excl) (FromHunks s) := by
  unfold listEntries
  simp only [Prog.bind_def]
  exact ROSpec.bind (stitchAll_spec s b) (fun es hes => (filterEntries_spec s _ _ es).mono fun r hr => hes.sub hr)

end Conserve.Inv
