import ConserveModel.Proofs.FsTop
/-
Tree-consistent listings can be replayed safely (`Confinable`), and decidable forms of the
side conditions.
-/
namespace Conserve

theorem prefix_dropLast_of_ne {α : Type} {a b : List α} (h : a <+: b) (hne : a ≠ b) : a <+: b.dropLast := by
  obtain ⟨t, rfl⟩ := h
  have ht : t ≠ [] := fun e => hne (by rw [e, List.append_nil])
  rw [List.dropLast_append_of_ne_nil ht]
  exact List.prefix_append _ _

theorem prefix_antisymm' {α : Type} {a b : List α} (h1 : a <+: b) (h2 : b <+: a) : a = b :=
  h1.eq_of_length_le h2.length_le

/-- What `tcFrom` says about each of the remaining entries. -/
theorem tcFrom_spec {head : RNode} : ∀ (rest earlier : List RNode), tcFrom head earlier rest = true →
    ∀ n ∈ rest, comps head <+: comps n ∧
      ∃ d ∈ earlier ++ rest, d.kind = .dir ∧ comps d = (comps n).dropLast := by
  intro rest
  induction rest with
  | nil => intro _ _ n hn; cases hn
  | cons x rest ih =>
    intro earlier h n hn
    simp only [tcFrom, Bool.and_eq_true] at h
    obtain ⟨⟨h1, h2⟩, h3⟩ := h
    rcases List.mem_cons.1 hn with rfl | hn
    · refine ⟨List.isPrefixOf_iff_prefix.1 h1, ?_⟩
      obtain ⟨d, hd, hd2⟩ := List.any_eq_true.1 h2
      simp only [Bool.and_eq_true, beq_iff_eq] at hd2
      exact ⟨d, List.mem_append_left _ hd, hd2.1, hd2.2⟩
    · obtain ⟨hp, d, hd, hk, hc⟩ := ih (earlier ++ [x]) h3 n hn
      refine ⟨hp, d, ?_, hk, hc⟩
      simpa using hd

theorem confinable_of_treeConsistent {nodes : List RNode} (h : treeConsistent nodes = true) :
    Confinable nodes := by
  simp only [treeConsistent, Bool.and_eq_true, List.all_eq_true, decide_eq_true_eq] at h
  obtain ⟨⟨hv, hs⟩, ht⟩ := h
  have hdist : nodes.Pairwise (fun a b => comps a ≠ comps b) :=
    hs.imp_of_mem fun {a b} ha hb hlt e => by
      have ea := (valid_eq_pathOf (hv a ha)).2
      have eb := (valid_eq_pathOf (hv b hb)).2
      have : a.apath = b.apath := by rw [ea, eb]; unfold comps at e; rw [e]
      rw [this] at hlt
      exact C11.cmp_irrefl _ hlt
  refine ⟨hv, hdist, ?_⟩
  cases nodes with
  | nil => intro m hm; cases hm
  | cons hd rest =>
    have hspec := tcFrom_spec rest [hd] ht
    -- induction on the length of the descendant's path
    have key : ∀ (k : Nat) (n : RNode), n ∈ hd :: rest → (comps n).length = k →
        ∀ m ∈ hd :: rest, comps m <+: comps n → comps m ≠ comps n → m.kind = .dir := by
      intro k
      induction k using Nat.strongRecOn with
      | _ k ih =>
        intro n hn hk m hm hpre hne
        rcases List.mem_cons.1 hn with rfl | hn'
        · -- n is the head: nothing listed is a proper ancestor of it
          rcases List.mem_cons.1 hm with rfl | hm'
          · exact absurd rfl hne
          · exact absurd (prefix_antisymm' hpre (hspec m hm').1) hne
        · obtain ⟨_, d, hdm, hdk, hdc⟩ := hspec n hn'
          have hdmem : d ∈ hd :: rest := by simpa using hdm
          have hpd : comps m <+: comps d := hdc ▸ prefix_dropLast_of_ne hpre hne
          by_cases heq : comps m = comps d
          · rw [pairwise_inj hdist m hm d hdmem heq]; exact hdk
          · have hlen : (comps d).length < k := by
              rw [hdc, List.length_dropLast, ← hk]
              have : comps n ≠ [] := by
                intro e
                rw [e] at hpre
                exact hne (by rw [e]; exact List.prefix_nil.1 hpre)
              have := List.length_pos_iff.2 this
              omega
            exact ih _ hlen d hdmem rfl m hm hpd heq
    intro m hm n hn hpre hne
    exact key _ n hn rfl m hm hpre hne

/-- Decidable form of `DestPlain`. -/
def destPlainB (fs : Fs) (D : Path) : Bool :=
  D.all goodName && ((List.range (D.length + 1)).all fun i => D.take i == D || fs.isDir (D.take i)) &&
  (match fs.node D with
   | some x => x.kind == .dir
   | none => true)

theorem destPlain_of_B {fs : Fs} {D : Path} (h : destPlainB fs D = true) : DestPlain fs D := by
  simp only [destPlainB, Bool.and_eq_true, List.all_eq_true] at h
  obtain ⟨⟨h1, h2⟩, h3⟩ := h
  refine ⟨h1, fun pre hp hne => ?_, fun x hx => ?_⟩
  · have e := List.prefix_iff_eq_take.1 hp
    have := h2 pre.length (List.mem_range.2 (Nat.lt_succ_of_le hp.length_le))
    rw [← e] at this
    simpa [hne] using this
  · rw [hx] at h3
    simpa using h3

end Conserve
