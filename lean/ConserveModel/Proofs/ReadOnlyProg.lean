import ConserveModel.Proofs.CleanWorldDel
/-
Which operations the archive-level programs can issue (`Prog.AllOps`), in particular which of
them are read-only, and what a read-only operation can answer in ANY world (faults, crash point,
dead): the real answer or an error.  No property statements here.
-/
set_option linter.unusedSimpArgs false
namespace Conserve
open Prog

theorem Prog.AllOps.mono' {α : Type} {P Q : Op → Prop} {p : Prog α} (h : ∀ o, P o → Q o)
    (hp : Prog.AllOps P p) : Prog.AllOps Q p := by
  induction hp with
  | ret a => exact .ret a
  | fail e => exact .fail e
  | panic s => exact .panic s
  | emit ev _ ih => exact .emit ev ih
  | op ho _ ih => exact .op (h _ ho) ih

theorem Prog.AllOps.attemptAll' {α : Type} {P : Op → Prop} {p : Prog α}
    (hp : Prog.AllOps P p) : Prog.AllOps P p.attemptAll := by
  induction hp with
  | ret a => exact .ret _
  | fail e => exact .ret _
  | panic s => exact .ret _
  | emit ev _ ih => exact .emit ev ih
  | op ho _ ih => exact .op ho ih

/-- The program issues no mutating operation, whatever the responses. -/
def ReadOnlyProg {α : Type} (p : Prog α) : Prop := Prog.AllOps (fun o => o.isMutating = false) p

theorem ReadOnlyProg.bind {α β : Type} {p : Prog α} {f : α → Prog β} (hp : ReadOnlyProg p)
    (hf : ∀ a, ReadOnlyProg (f a)) : ReadOnlyProg (p.bind f) := Prog.AllOps.bind hp hf

theorem ReadOnlyProg.allOps {α : Type} {P : Op → Prop} {p : Prog α} (hp : ReadOnlyProg p)
    (h : ∀ o, o.isMutating = false → P o) : Prog.AllOps P p := Prog.AllOps.mono' h hp

/-- A read-only program never changes the store, in any world. -/
theorem ReadOnlyProg.store_eq {α : Type} {p : Prog α} (hp : ReadOnlyProg p) (w : World) :
    (p.run w).2.store = w.store := by
  have := Prog.run_store_rel (R := fun a b => b = a) (fun _ => rfl) (fun a b c h1 h2 => h2.trans h1)
    (fun w o ho => World.exec_store_of_ro w o ho) hp w
  exact this

theorem readOnly_isFile (k : Key) : ReadOnlyProg (isFile k) := by
  simp only [isFile, perform, bind_def, op_bind, ret_bind, pure_def]
  refine .op rfl fun r => ?_
  split <;> first | exact .ret _ | exact .fail _

theorem readOnly_listBandIds : ReadOnlyProg listBandIds := by
  simp only [listBandIds, perform, bind_def, op_bind, ret_bind, pure_def]
  refine .op rfl fun r => ?_
  split <;> first | exact .ret _ | exact .fail _

theorem readOnly_lastBandId : ReadOnlyProg lastBandId := by
  simp only [lastBandId, bind_def, pure_def]
  exact readOnly_listBandIds.bind fun _ => .ret _

theorem readOnly_bandOpen (b : Nat) : ReadOnlyProg (bandOpen b) := by
  simp only [bandOpen, perform, bind_def, op_bind, ret_bind, pure_def]
  refine .op rfl fun r => ?_
  split
  · exact .fail _
  · exact .fail _
  · split
    · exact .fail _
    · exact .fail _
    · split <;> first | exact .ret _ | exact .fail _
  · exact .fail _
  · exact .fail _

theorem readOnly_hunksAvailable_go (b : Nat) (ds : List Nat) :
    ∀ acc, ReadOnlyProg (hunksAvailable.go b ds acc) := by
  induction ds with
  | nil => intro acc; simp only [hunksAvailable.go, pure_def]; exact .ret _
  | cons d ds ih =>
    intro acc
    simp only [hunksAvailable.go, perform, bind_def, op_bind, ret_bind]
    refine .op rfl fun r => ?_
    split <;> first | exact ih _ | exact .fail _

theorem readOnly_hunksAvailable (b : Nat) : ReadOnlyProg (hunksAvailable b) := by
  simp only [hunksAvailable, perform, bind_def, op_bind, ret_bind]
  refine .op rfl fun r => ?_
  split <;> first | exact readOnly_hunksAvailable_go _ _ _ | exact .fail _

theorem readOnly_iterAvailableHunks (b : Nat) : ReadOnlyProg (iterAvailableHunks b) := by
  simp only [iterAvailableHunks, bind_def, pure_def]
  refine ReadOnlyProg.bind (Prog.AllOps.attempt (readOnly_hunksAvailable b)) fun r => ?_
  split <;> first | exact .ret _ | exact .panic _

theorem readOnly_readHunk (b n : Nat) : ReadOnlyProg (readHunk b n) := by
  simp only [readHunk, perform, bind_def, op_bind, ret_bind, pure_def]
  refine .op rfl fun r => ?_
  split <;> first | exact .ret _ | exact .fail _ | (split <;> first | exact .ret _ | exact .fail _)

theorem readOnly_bandHunkEntries (strict : Bool) (b : Nat) (ns : List Nat) :
    ReadOnlyProg (bandHunkEntries strict b ns) := by
  induction ns with
  | nil => simp only [bandHunkEntries, pure_def]; exact .ret _
  | cons n ns ih =>
    simp only [bandHunkEntries, bind_def, pure_def]
    refine ReadOnlyProg.bind (Prog.AllOps.attempt (readOnly_readHunk b n)) fun r => ?_
    split
    · split <;> first | exact .ret _ | exact .fail _
    · split <;> first | exact ih | exact .fail _
    · exact ih.bind fun _ => .ret _

theorem readOnly_referencedBlocks (strict : Bool) (bs : List Nat) : ReadOnlyProg (referencedBlocks strict bs) := by
  induction bs with
  | nil => simp only [referencedBlocks, pure_def]; exact .ret _
  | cons b bs ih =>
    simp only [referencedBlocks, bind_def, pure_def]
    refine (readOnly_bandOpen b).bind fun _ => ?_
    split
    · exact (readOnly_hunksAvailable b).bind fun hunks =>
        (readOnly_bandHunkEntries strict b hunks).bind fun _ => ih.bind fun _ => .ret _
    · exact (readOnly_iterAvailableHunks b).bind fun hunks =>
        (readOnly_bandHunkEntries strict b hunks).bind fun _ => ih.bind fun _ => .ret _

theorem readOnly_listBlocks_go (ps : List Str) : ∀ acc, ReadOnlyProg (listBlocks.go ps acc) := by
  induction ps with
  | nil => intro acc; simp only [listBlocks.go, pure_def]; exact .ret _
  | cons p ps ih =>
    intro acc
    simp only [listBlocks.go, perform, bind_def, op_bind, ret_bind]
    refine .op rfl fun r => ?_
    split <;> first | exact ih _ | exact .fail _

theorem readOnly_listBlocks : ReadOnlyProg listBlocks := by
  simp only [listBlocks, perform, bind_def, op_bind, ret_bind]
  refine .op rfl fun r => ?_
  split <;> first | exact readOnly_listBlocks_go _ _ | exact .fail _

theorem readOnly_measure (hs : List Str) : ReadOnlyProg (deleteBody.measure hs) := by
  induction hs with
  | nil => simp only [deleteBody.measure, pure_def]; exact .ret _
  | cons h hs ih =>
    simp only [deleteBody.measure, perform, bind_def, op_bind, ret_bind]
    refine .op rfl fun r => ?_
    split <;> first | exact ih | exact .fail _

theorem readOnly_gcLockCheck (held : Option Nat) : ReadOnlyProg (gcLockCheck held) := by
  simp only [gcLockCheck, bind_def, pure_def]
  refine readOnly_lastBandId.bind fun _ => ?_
  split <;> first | exact .ret _ | exact .fail _

/-! ### What a read-only operation can answer in any world -/

/-- In any world a non-mutating operation leaves the store alone and answers either what local
storage answers, or an error (injected fault, or the world is dead). -/
theorem World.exec_ro_cases (w : World) {o : Op} (h : o.isMutating = false) :
    (w.exec o).1.store = w.store ∧ ((w.exec o).2 = roResp w.store o ∨ ∃ e, (w.exec o).2 = .err e) := by
  refine ⟨World.exec_store_of_ro w o h, ?_⟩
  unfold World.exec
  split
  · exact Or.inr ⟨_, rfl⟩
  · split
    · exact Or.inr ⟨_, rfl⟩
    · simp [h, applyOp_ro _ _ _ h]

/-- Inversion of a successful `bind`. -/
theorem Prog.run_bind_ok_split {α β : Type} {p : Prog α} {f : α → Prog β} {w : World} {c : β}
    (h : ((p.bind f).run w).1 = .ok c) :
    ∃ a, (p.run w).1 = .ok a ∧ (p.bind f).run w = (f a).run (p.run w).2 := by
  rw [Prog.run_bind] at h ⊢
  rcases hp : p.run w with ⟨o, w'⟩
  rw [hp] at h
  cases o with
  | ok a => exact ⟨a, rfl, rfl⟩
  | err e => simp at h
  | panic s => simp at h

/-- The final store of `p.bind f`: the one `p` leaves when it does not return, else the one `f a` leaves. -/
theorem Prog.run_bind_store {α β : Type} (p : Prog α) (f : α → Prog β) (w : World) (R : Store → Prop)
    (hp : (∀ a, (p.run w).1 ≠ .ok a) → R (p.run w).2.store)
    (hf : ∀ a, (p.run w).1 = .ok a → R ((f a).run (p.run w).2).2.store) :
    R ((p.bind f).run w).2.store := by
  rw [Prog.run_bind]
  rcases hr : p.run w with ⟨o, w'⟩
  rw [hr] at hp hf
  cases o with
  | ok a => exact hf a rfl
  | err e => exact hp (by intro a h; cases h)
  | panic s => exact hp (by intro a h; cases h)

end Conserve
