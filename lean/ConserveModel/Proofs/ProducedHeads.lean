import ConserveModel.Proofs.ProducedOps
/-
C09 (first sentence), "interrupted-WITH-header": in a world without injected faults whose crash
point (if any) lies at least four mutating micro-steps ahead — `mkdir bNNNN`, `mkdir bNNNN/i`, and
the two micro-steps of the head write — `backup` keeps "every version directory has a readable head
and an index directory" (`backup_headsOK`); `delete_bands` keeps it in every world
(`delete_headsOK`).  No property statements here.
-/
namespace Conserve.Rng
open Conserve Conserve.Inv Conserve.Conf Prog

/-- Alive, no injected faults, `CreateNew` honoured, and the next `n` mutating micro-steps are not
the crash point. -/
def Late (n : Nat) (w : World) : Prop :=
  w.dead = false ∧ w.faults = [] ∧ w.enforceCreateNew = true ∧ ∀ j, w.crashAt = some j → w.steps + n ≤ j

theorem Late.faultFor {n : Nat} {w : World} (h : Late n w) (o : Op) : w.faultFor o = none := by
  simp [World.faultFor, h.2.1]

theorem Late.noCrash {n : Nat} {w : World} (h : Late n w) (i : Nat) (hi : i < n) :
    w.crashesAt (w.steps + i) = false := by
  simp only [World.crashesAt, beq_eq_false_iff_ne, ne_eq]
  intro hj
  have := h.2.2.2 _ hj
  omega

theorem Late.mono {n m : Nat} {w : World} (h : Late n w) (hm : m ≤ n) : Late m w :=
  ⟨h.1, h.2.1, h.2.2.1, fun j hj => by have := h.2.2.2 j hj; omega⟩

/-- A read-only operation in such a world: the store and the distance to the crash point stay. -/
theorem late_exec_ro {n : Nat} {w : World} (h : Late n w) {o : Op} (ho : ReadOnly o) :
    Late n (w.exec o).1 ∧ (w.exec o).1.store = w.store := by
  have hm : o.isMutating = false := ho.not_mutating
  obtain ⟨hd, hf, he, hc⟩ := h
  have hff : w.faultFor o = none := by simp [World.faultFor, hf]
  have key : (w.exec o).1.dead = false ∧ (w.exec o).1.faults = [] ∧ (w.exec o).1.enforceCreateNew = true ∧
      (w.exec o).1.crashAt = w.crashAt ∧ (w.exec o).1.steps = w.steps ∧ (w.exec o).1.store = w.store := by
    simp [World.exec, hd, hff, hm, hf, he]
  obtain ⟨k1, k2, k3, k4, k5, k6⟩ := key
  exact ⟨⟨k1, k2, k3, by rw [k4, k5]; exact hc⟩, k6⟩

theorem late_run_ro {α : Type} {n : Nat} {p : Prog α} (hp : Prog.AllOps ReadOnly p) (w : World) (h : Late n w) :
    Late n (p.run w).2 ∧ (p.run w).2.store = w.store :=
  Prog.run_world_inv (P := ReadOnly) (I := fun w' => Late n w' ∧ w'.store = w.store)
    (fun _ _ h => h)
    (fun _ _ ho ⟨hl, hs⟩ => ⟨(late_exec_ro hl ho).1, (late_exec_ro hl ho).2.trans hs⟩) hp w ⟨h, rfl⟩

/-- `createDir` with the crash point at least one micro-step ahead is `applyOp`. -/
theorem late_exec_createDir {n : Nat} {w : World} (h : Late (n + 1) w) (k : Key) :
    (w.exec (.createDir k)).2 = (applyOp true w.store (.createDir k)).2 ∧
    (w.exec (.createDir k)).1.store = (applyOp true w.store (.createDir k)).1 ∧
    Late n (w.exec (.createDir k)).1 := by
  have hc0 := h.noCrash 0 (by omega)
  obtain ⟨hd, hf, he, hc⟩ := h
  have hff : w.faultFor (.createDir k) = none := by simp [World.faultFor, hf]
  simp only [Nat.add_zero] at hc0
  have key : (w.exec (.createDir k)).2 = (applyOp true w.store (.createDir k)).2 ∧
      (w.exec (.createDir k)).1.store = (applyOp true w.store (.createDir k)).1 ∧
      (w.exec (.createDir k)).1.dead = false ∧ (w.exec (.createDir k)).1.faults = [] ∧
      (w.exec (.createDir k)).1.enforceCreateNew = true ∧ (w.exec (.createDir k)).1.crashAt = w.crashAt ∧
      (w.exec (.createDir k)).1.steps ≤ w.steps + 1 := by
    simp only [World.exec, hd, hff, Op.isMutating, hc0, he, hf]
    simp only [Bool.false_eq_true, if_false, Bool.not_true, true_and]
    split <;> omega
  obtain ⟨k1, k2, k3, k4, k5, k6, k7⟩ := key
  refine ⟨k1, k2, k3, k4, k5, ?_⟩
  intro j hj
  rw [k6] at hj
  have := hc j hj
  omega

/-- A `write` with the crash point at least two micro-steps ahead: both micro-steps happen. -/
theorem late_exec_write {n : Nat} {w : World} (h : Late (n + 2) w) (k : Key) (v : FileVal) (m : WriteMode) :
    ((applyOp true w.store (.write k v m)).2 = .unit →
      (w.exec (.write k v m)).2 = .unit ∧ (w.exec (.write k v m)).1.store = w.store.put k v) ∧
    ((applyOp true w.store (.write k v m)).2 ≠ .unit →
      (w.exec (.write k v m)).2 ≠ .unit ∧ (w.exec (.write k v m)).1.store = w.store) := by
  have hc0 := h.noCrash 0 (by omega)
  have hc1 := h.noCrash 1 (by omega)
  obtain ⟨hd, hf, he, hc⟩ := h
  have hff : w.faultFor (.write k v m) = none := by simp [World.faultFor, hf]
  simp only [Nat.add_zero] at hc0
  rw [World.exec_write_eq w k v m hd hff hc0, he]
  constructor
  · intro hu
    simp [hu, hc1]
  · intro hu
    simp [hu]

/-! ### `performUnit` followed by something -/

theorem run_performUnit_bind_unit {β : Type} (o : Op) (f : Unit → Prog β) (w : World)
    (h : (w.exec o).2 = .unit) : ((performUnit o).bind f).run w = (f ()).run (w.exec o).1 := by
  unfold performUnit perform
  simp only [Prog.bind_def, Prog.op_bind, Prog.ret_bind, Prog.run_op, h, Prog.pure_def]

theorem run_performUnit_bind_fail {β : Type} (o : Op) (f : Unit → Prog β) (w : World)
    (h : (w.exec o).2 ≠ .unit) : (((performUnit o).bind f).run w).2 = (w.exec o).1 := by
  unfold performUnit perform
  simp only [Prog.bind_def, Prog.op_bind, Prog.ret_bind, Prog.run_op, Prog.pure_def]
  cases hr : (w.exec o).2 with
  | unit => exact absurd hr h
  | err e => simp
  | val v => simp
  | listing xs => simp
  | stat a b => simp

theorem applyOp_createDir_fail {e : Bool} {s : Store} {k : Key} (h : (applyOp e s (.createDir k)).2 ≠ .unit) :
    (applyOp e s (.createDir k)).1 = s := by
  simp only [applyOp] at h ⊢
  split
  · rfl
  · split
    · rfl
    · rename_i h1 h2
      simp [h1, h2] at h

/-- `createDir k` answering `unit` when `k`'s parent is not a directory: `k` was there already. -/
theorem applyOp_createDir_unit {e : Bool} {s : Store} {k : Key} (h : (applyOp e s (.createDir k)).2 = .unit) :
    (s.has k = true ∧ (applyOp e s (.createDir k)).1 = s) ∨
    (s.get? k = none ∧ s.parentOk k = true ∧ (applyOp e s (.createDir k)).1 = s.put k .dir) := by
  simp only [applyOp] at h ⊢
  split
  · rename_i h1; exact Or.inl ⟨h1, rfl⟩
  · rename_i h1
    split
    · rename_i h2; simp [h1, h2] at h
    · rename_i h2
      refine Or.inr ⟨by simpa [Store.has] using h1, by simpa using h2, rfl⟩

/-! ### `Band::create` -/

/-- Nothing lies directly below a version directory that is not there. -/
theorem fresh_children {s : Store} (hd : DirsOk s) {b : Nat} (hf : s.get? (.bandDir b) ≠ some .dir) :
    s.get? (.indexDir b) = none ∧ s.get? (.bandHead b) = none := by
  constructor
  · cases hv : s.get? (.indexDir b) with
    | none => rfl
    | some v =>
      have := hd.parent_of_get? hv
      simp only [Store.parentOk, Key.parent, beq_iff_eq] at this
      exact absurd this hf
  · cases hv : s.get? (.bandHead b) with
    | none => rfl
    | some v =>
      have := hd.parent_of_get? hv
      simp only [Store.parentOk, Key.parent, beq_iff_eq] at this
      exact absurd this hf

/-- `Band::create` (after its listing) with the crash point at least four micro-steps ahead: either it
fails before the new directory exists, or it leaves the directory with its index directory and head. -/
theorem bandCreateTail_headsOK {w : World} {b : Nat} (hl : Late 4 w) (hd : DirsOk w.store)
    (hfresh : w.store.get? (.bandDir b) ≠ some .dir) (h : HeadsOK w.store) :
    HeadsOK ((bandCreateTail b).run w).2.store := by
  obtain ⟨hci, hhead⟩ := fresh_children hd hfresh
  unfold bandCreateTail
  obtain ⟨hr1, hs1, hl1⟩ := late_exec_createDir (n := 3) hl (.bandDir b)
  by_cases hu1 : (w.exec (.createDir (.bandDir b))).2 = .unit
  · rw [run_performUnit_bind_unit _ _ _ hu1]
    rw [hr1] at hu1
    obtain ⟨hr2, hs2, hl2⟩ := late_exec_createDir (n := 2) hl1 (.indexDir b)
    rcases applyOp_createDir_unit hu1 with ⟨hhas, hst1⟩ | ⟨hnone, _, hst1⟩
    · -- something that is not a directory sits at `bNNNN`: `mkdir bNNNN/i` fails, nothing changed
      have hw1 : (w.exec (.createDir (.bandDir b))).1.store = w.store := hs1.trans hst1
      have hu2 : (((w.exec (.createDir (.bandDir b))).1).exec (.createDir (.indexDir b))).2 ≠ .unit := by
        rw [hr2, hw1]
        simp [applyOp, Store.has, hci, Store.parentOk, Key.parent, hfresh]
      rw [run_performUnit_bind_fail _ _ _ hu2, hs2, hw1]
      have : (applyOp true w.store (.createDir (.indexDir b))).1 = w.store :=
        applyOp_createDir_fail (by rw [hr2, hw1] at hu2; exact hu2)
      rw [this]; exact h
    · have hw1 : (w.exec (.createDir (.bandDir b))).1.store = w.store.put (.bandDir b) .dir := hs1.trans hst1
      -- `mkdir bNNNN/i` succeeds
      have ha2 : applyOp true (w.store.put (.bandDir b) .dir) (.createDir (.indexDir b)) =
          ((w.store.put (.bandDir b) .dir).put (.indexDir b) .dir, .unit) := by
        simp [applyOp, Store.has, Store.inv_get?_put, hci, Store.parentOk, Key.parent]
      have hu2 : (((w.exec (.createDir (.bandDir b))).1).exec (.createDir (.indexDir b))).2 = .unit := by
        rw [hr2, hw1, ha2]
      rw [run_performUnit_bind_unit _ _ _ hu2]
      have hw2 : (((w.exec (.createDir (.bandDir b))).1).exec (.createDir (.indexDir b))).1.store =
          (w.store.put (.bandDir b) .dir).put (.indexDir b) .dir := by
        rw [hs2, hw1, ha2]
      -- the head write succeeds, both micro-steps
      obtain ⟨hwu, _⟩ := late_exec_write (n := 0) hl2 (.bandHead b) (.head .ok []) .createNew
      have ha3 : (applyOp true ((w.store.put (.bandDir b) .dir).put (.indexDir b) .dir)
          (.write (.bandHead b) (.head .ok []) .createNew)).2 = .unit := by
        simp [applyOp, Store.inv_get?_put, hhead, Store.parentOk, Key.parent]
      rw [hw2] at hwu
      obtain ⟨hu3, hs3⟩ := hwu ha3
      rw [run_performUnit_bind_unit _ _ _ hu3]
      simp only [Prog.run_ret]
      rw [hs3]
      intro b' hb'
      by_cases hbb : b' = b
      · subst hbb
        simp [bandReadable, Store.inv_get?_put]
      · have hdir : w.store.get? (.bandDir b') = some .dir := by
          simpa [Store.inv_get?_put, hbb] using hb'
        have := h b' hdir
        rw [← this]
        apply bandReadable_congr <;> simp [Store.inv_get?_put, hbb]
  · rw [run_performUnit_bind_fail _ _ _ hu1, hs1]
    rw [hr1] at hu1
    rw [applyOp_createDir_fail hu1]; exact h

/-- Running `p` then `f`: a property of the final world. -/
theorem run_bind_inv {α β : Type} {A : World → Prop} (p : Prog α) (f : α → Prog β) (w : World)
    (h1 : A (p.run w).2) (h2 : ∀ a, (p.run w).1 = .ok a → A ((f a).run (p.run w).2).2) :
    A ((p.bind f).run w).2 := by
  rw [Prog.run_bind]
  cases hrun : p.run w with
  | mk out w1 =>
    rw [hrun] at h1 h2
    cases out with
    | ok a => exact h2 a rfl
    | err e => exact h1
    | panic m => exact h1

/-- The prelude of `backup` in such a world. -/
theorem backupPrelude_headsOK (w : World) (hl : Late 4 w) (hn : NoDupKeys w.store) (hd : DirsOk w.store)
    (h : HeadsOK w.store) : HeadsOK (backupPrelude.run w).2.store := by
  unfold backupPrelude
  obtain ⟨hl1, hs1⟩ := late_run_ro _root_.Conserve.gcIsLocked_ro w hl
  refine run_bind_inv (A := fun w' => HeadsOK w'.store) _ _ w (by rw [hs1]; exact h) ?_
  intro locked _
  split
  · simp only [Prog.run_fail]; rw [hs1]; exact h
  · obtain ⟨hl2, hs2⟩ := late_run_ro _root_.Conserve.lastBandId_ro _ hl1
    refine run_bind_inv (A := fun w' => HeadsOK w'.store) _ _ _ (by rw [hs2, hs1]; exact h) ?_
    intro basisBand _
    have hbc : HeadsOK (bandCreate.run (lastBandId.run (gcIsLocked.run w).2).2).2.store := by
      rw [bandCreate_eq]
      obtain ⟨hl3, hs3⟩ := late_run_ro _root_.Conserve.lastBandId_ro _ hl2
      refine run_bind_inv (A := fun w' => HeadsOK w'.store) _ _ _ (by rw [hs3, hs2, hs1]; exact h) ?_
      intro r hr
      have hrr := lastBandId_result _ r hr
      have hst : (lastBandId.run (lastBandId.run (gcIsLocked.run w).2).2).2.store = w.store := by
        rw [hs3, hs2, hs1]
      refine bandCreateTail_headsOK hl3 (by rw [hst]; exact hd) ?_ (by rw [hst]; exact h)
      rw [hst, hrr, hs2, hs1]
      exact next_band_fresh hn
    refine run_bind_inv (A := fun w' => HeadsOK w'.store) _ _ _ hbc ?_
    intro band _
    refine run_headsOK (AllOps.ro_fine2 ?_) _ hbc
    refine Prog.AllOps.bind _root_.Conserve.gcLockListed_ro fun locked2 => ?_
    split
    · exact .fail _
    refine Prog.AllOps.bind _root_.Conserve.listBlocks_ro fun blocks => ?_
    cases basisBand with
    | none => exact .ret _
    | some b => exact Prog.AllOps.bind (_root_.Conserve.listEntries_ro b _ _) fun _ => .ret _

/-- **`backup` keeps `HeadsOK`** in every world without injected faults whose crash point, if any, is
at least four mutating micro-steps away (the new directory, its index directory, and the two
micro-steps of the head write); any options, any source. -/
theorem backup_headsOK (H : Str → Str) (o : BackupOpts) (src : List SrcEntry) (w : World) (hl : Late 4 w)
    (hn : NoDupKeys w.store) (hd : DirsOk w.store) (h : HeadsOK w.store) :
    HeadsOK ((backup H o src).run w).2.store := by
  rw [backup_eq]
  have hp := backupPrelude_headsOK w hl hn hd h
  refine run_bind_inv (A := fun w' => HeadsOK w'.store) _ _ w hp ?_
  intro x _
  exact run_headsOK (backupMain_fine2 H o src x) _ hp

/-- **`delete_bands` keeps `HeadsOK` in every world**: a version directory goes with everything
below it, in one step. -/
theorem delete_headsOK (strict : Bool) (D : List Nat) (o : DeleteOpts) (w : World) (h : HeadsOK w.store) :
    HeadsOK ((deleteBands strict D o).run w).2.store :=
  run_headsOK (deleteBands_fine2 strict D o) w h

end Conserve.Rng
