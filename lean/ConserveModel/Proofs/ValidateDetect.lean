import ConserveModel.Proofs.ValidateDamage
/-
Damage is reported: for each kind of single-file damage to a healthy archive, which error is in
`validateErrors` of the damaged store.  Specification side only (no programs).
-/
set_option linter.unusedSimpArgs false
namespace Conserve

/-! ### Where errors sit in `validateErrors` -/

section
variable {H : Str → Str} {s : Store}

theorem mem_validateErrors_band {quick : Bool} {b : Nat} {e : Err} (hb : b ∈ bandIdsOf s)
    (he : e ∈ bandValidateErrors s b) : e ∈ validateErrors H quick s := by
  unfold validateErrors
  exact List.mem_append_left _ (List.mem_flatMap.mpr ⟨b, hb, he⟩)

theorem mem_validateErrors_ref_full {p : Str × Nat} {e : Err} (hp : p ∈ referencedOf s)
    (he : refErrorFull H s p = some e) : e ∈ validateErrors H false s := by
  unfold validateErrors
  simp only [Bool.false_eq_true, if_false]
  exact List.mem_append_right _ (List.mem_append_right _ (List.mem_filterMap.mpr ⟨p, hp, he⟩))

theorem mem_validateErrors_ref_quick {p : Str × Nat} {e : Err} (hp : p ∈ referencedOf s)
    (he : refErrorQuick s p = some e) : e ∈ validateErrors H true s := by
  unfold validateErrors
  simp only [if_true]
  exact List.mem_append_right _ (List.mem_filterMap.mpr ⟨p, hp, he⟩)

theorem mem_validateErrors_block {h : Str} {e : Err} (hh : h ∈ blockNamesOf s)
    (he : blockReadError H s h = some e) : e ∈ validateErrors H false s := by
  unfold validateErrors
  simp only [Bool.false_eq_true, if_false]
  refine List.mem_append_right _ (List.mem_append_left _ (List.mem_filterMap.mpr ⟨h, ?_, he⟩))
  simpa [presentSorted, List.mem_mergeSort] using hh

theorem refErrorFull_missing {h : Str} {n : Nat} (hr : ∀ c, blockRead H s h ≠ .ok c) :
    refErrorFull H s (h, n) = some (.blockMissing h) := by
  unfold refErrorFull
  cases hb : blockRead H s h with
  | ok c => exact absurd hb (hr c)
  | error e => simp

theorem indexCheckError_of {b : Nat}
    (h : (hunkNumsOf s b != List.range (hunkNumsOf s b).length) = true ∨
      countMismatch (tailInfo s b).2 (hunkNumsOf s b).length = true ∨
      badEmptyHunk (tailInfo s b).1 ((hunkNumsOf s b).map fun n => (n, hunkNonEmpty s b n)) = true) :
    indexCheckError s b = some .invalidMetadata := by
  unfold indexCheckError
  simp only
  split
  · rfl
  · split
    · rfl
    · split
      · rfl
      · rename_i h1 h2 h3
        rcases h with h | h | h
        · exact absurd h h1
        · exact absurd h h2
        · exact absurd h h3

theorem mem_listErrors_of_bandErrors {b : Nat} {e : Err} (he : e ∈ bandErrors s b) : e ∈ listErrors s b := by
  unfold listErrors
  exact List.mem_append_left _ he

end

theorem badEmptyHunk_of_mem_init (c : Bool) (l : List (Nat × Bool)) (x : Nat × Bool) {p : Nat × Bool}
    (hp : p ∈ l) (he : p.2 = false) : badEmptyHunk c (l ++ [x]) = true := by
  induction l with
  | nil => simp at hp
  | cons q l ih =>
    obtain ⟨n, ne⟩ := q
    have hcons : badEmptyHunk c ((n, ne) :: l ++ [x]) = (!ne || badEmptyHunk c (l ++ [x])) := by
      cases l <;> simp [badEmptyHunk]
    rw [hcons]
    rcases List.mem_cons.mp hp with rfl | hp
    · simp only at he; simp [he]
    · simp [ih hp]

/-! ### Blocks -/

section
variable {H : Str → Str} {s s' : Store} {h : Str} {d : Option FileVal}

theorem block_indexSame (g : Good H s) (dm : DamagedAt (.block h) d s s') : IndexSame s s' :=
  dm.indexSame g.uniqueKeys (by intro b n; simp)

/-- After damage to block `h`, the table of referenced blocks still has an entry for `h`. -/
theorem block_still_referenced (g : Good H s) (dm : DamagedAt (.block h) d s s') (href : Referenced s h) :
    ∃ n, (h, n) ∈ referencedOf s' := by
  have idx := block_indexSame g dm
  obtain ⟨b, hb, e, he, hk, a, ha, rfl⟩ := href
  have hb' : b ∈ bandIdsOf s' := by rw [dm.bandIdsOf_eq g.uniqueKeys]; exact hb
  have hh : headError s' b = none := by rw [idx.headError_eq]; exact g.headError_none hb
  have he' : e ∈ listSpec s' b := by rw [idx.listSpec_eq]; exact he
  obtain ⟨n, hn, _⟩ := referenced_covers hb' hh he' hk ha
  exact ⟨n, hn⟩

/-- Full validation reports `blockMissing h` whenever block `h` is referenced and no longer reads
back (removed, emptied, undecodable, or content whose hash is not `h`). -/
theorem block_damage_detected (g : Good H s) (dm : DamagedAt (.block h) d s s') (href : Referenced s h)
    (hbad : ∀ c, d = some (.blockData c) → H c ≠ h) : Err.blockMissing h ∈ validateErrors H false s' := by
  obtain ⟨n, hn⟩ := block_still_referenced g dm href
  apply mem_validateErrors_ref_full hn
  apply refErrorFull_missing
  intro c
  unfold blockRead
  rw [dm.now]
  cases hd : d with
  | none => simp
  | some v =>
    cases v with
    | blockData c' => simp [hbad c' hd]
    | _ => simp

theorem block_not_listed (g : Good H s) (dm : DamagedAt (.block h) d s s')
    (hd : d = none ∨ d = some .empty) : h ∉ blockNamesOf s' := by
  intro hm
  obtain ⟨⟨v, hv, _, hne⟩, _⟩ :=
    (mem_blockNamesOf dm.uniqueKeys' (dm.dirsOk' (Key.isLeaf_block h) g.dirsOk)).mp hm
  rw [dm.now] at hv
  rcases hd with hd | hd
  · rw [hd] at hv; cases hv
  · rw [hd] at hv; cases hv; simp [FileVal.isEmptyFile] at hne

/-- Quick validation reports `blockMissing h` when a referenced block file is removed or emptied. -/
theorem block_missing_detected_quick (g : Good H s) (dm : DamagedAt (.block h) d s s') (href : Referenced s h)
    (hd : d = none ∨ d = some .empty) : Err.blockMissing h ∈ validateErrors H true s' := by
  obtain ⟨n, hn⟩ := block_still_referenced g dm href
  apply mem_validateErrors_ref_quick hn
  have := block_not_listed g dm hd
  simp [refErrorQuick, this]

theorem block_listed (g : Good H s) (dm : DamagedAt (.block h) d s s') {v : FileVal} (hd : d = some v)
    (hne : v.isEmptyFile = false) : h ∈ blockNamesOf s' := by
  apply (mem_blockNamesOf dm.uniqueKeys' (dm.dirsOk' (Key.isLeaf_block h) g.dirsOk)).mpr
  obtain ⟨v0, hv0, _⟩ := dm.was
  refine ⟨⟨v, by rw [dm.now, hd], ?_, hne⟩, g.blockName_len hv0⟩
  cases v <;> first | rfl | exact absurd hd dm.notDir

/-- Altered content is also reported as such: `blockCorrupt h` (the hash of what is read is not the name). -/
theorem block_corrupt_detected (g : Good H s) {c' : Str} (dm : DamagedAt (.block h) (some (.blockData c')) s s')
    (hbad : H c' ≠ h) : Err.blockCorrupt h ∈ validateErrors H false s' := by
  apply mem_validateErrors_block (block_listed g dm rfl rfl)
  simp [blockReadError, blockRead, dm.now, hbad]

/-- A block whose content was replaced by something SHORTER than some listed address needs, under a
hash collision (`H c' = h`, so the hash check passes): step 3b's length comparison reports it. -/
theorem block_too_short_detected (g : Good H s) {c' : Str} (dm : DamagedAt (.block h) (some (.blockData c')) s s')
    (hcol : H c' = h) {b : Nat} {e : IndexEntry} {a : Addr} (hb : b ∈ bandIdsOf s) (he : e ∈ listSpec s b)
    (hk : e.kind = .file) (ha : a ∈ e.addrs) (hah : a.hash = h) (hshort : c'.length < a.start + a.len) :
    Err.blockTooShort h ∈ validateErrors H false s' := by
  have idx := block_indexSame g dm
  have hb' : b ∈ bandIdsOf s' := by rw [dm.bandIdsOf_eq g.uniqueKeys]; exact hb
  have hh : headError s' b = none := by rw [idx.headError_eq]; exact g.headError_none hb
  have he' : e ∈ listSpec s' b := by rw [idx.listSpec_eq]; exact he
  obtain ⟨n, hn, hle⟩ := referenced_covers hb' hh he' hk ha
  rw [hah] at hn
  apply mem_validateErrors_ref_full hn
  have hl := block_listed g dm rfl rfl
  have hgt : n > c'.length := by omega
  simp [refErrorFull, hl, blockRead, dm.now, hcol, hgt]

/-- A block file that no longer decompresses is reported as such (`json` = decode error class). -/
theorem block_junk_detected (g : Good H s) {i : Nat} (dm : DamagedAt (.block h) (some (.junk i)) s s') :
    Err.json ∈ validateErrors H false s' := by
  apply mem_validateErrors_block (block_listed g dm rfl rfl)
  simp [blockReadError, blockRead, dm.now]

end

/-- Damage to anything but a block leaves every present block reading back fine. -/
theorem present_ok_of_nonblock_damage {H : Str → Str} {s s' : Store} {k : Key} {d : Option FileVal}
    (g : Good H s) (dm : DamagedAt k d s s') (leaf : k.isLeaf) (hk : ∀ h, k ≠ .block h) :
    (presentSorted s').filterMap (blockReadError H s') = [] := by
  rw [List.filterMap_eq_nil_iff]
  intro h hh
  have hh' : h ∈ blockNamesOf s' := by simpa [presentSorted, List.mem_mergeSort] using hh
  obtain ⟨⟨v, hg, _, hne⟩, _⟩ := (mem_blockNamesOf dm.uniqueKeys' (dm.dirsOk' leaf g.dirsOk)).mp hh'
  have hg0 := hg
  rw [dm.same _ (Ne.symm (hk h))] at hg0
  rcases g.block hg0 with rfl | ⟨c, rfl, hc⟩
  · simp [FileVal.isEmptyFile] at hne
  · simp [blockReadError, blockRead, hg, hc]

/-! ### Index hunks -/

section
variable {H : Str → Str} {s s' : Store} {b n : Nat} {d : Option FileVal}

theorem hunk_damage_detected (g : Good H s) (dm : DamagedAt (.hunk b n) d s s')
    (hd : d = none ∨ d = some .empty ∨ ∃ i, d = some (.junk i))
    (hdet : (∃ i, d = some (.junk i)) ∨ (∃ c, s.get? (.bandTail b) = some (.tail (some c))) ∨
      n + 1 < (hunkNumsOf s b).length) (quick : Bool) :
    ∃ e, e ∈ validateErrors H quick s' ∧ (e = .invalidMetadata ∨ e = .json) := by
  obtain ⟨v0, hv0, hnd0⟩ := dm.was
  have hn := g.uniqueKeys
  have hn' := dm.uniqueKeys'
  have hb : b ∈ bandIdsOf s := bandDir_of_hunk g.dirsOk hv0
  have hb' : b ∈ bandIdsOf s' := by rw [dm.bandIdsOf_eq hn]; exact hb
  have ok := g.bandOK hb
  have hmem : n ∈ hunkNumsOf s b := (mem_hunkNumsOf_get? hn).mpr ⟨v0, hv0, hnd0⟩
  have hhead : s'.get? (.bandHead b) = s.get? (.bandHead b) := dm.same _ (by simp)
  have hidir : s'.get? (.indexDir b) = s.get? (.indexDir b) := dm.same _ (by simp)
  have htail : s'.get? (.bandTail b) = s.get? (.bandTail b) := dm.same _ (by simp)
  have hread : bandReadable s' b = true := by
    have := g.heads b hb
    simpa only [bandReadable, hhead, hidir] using this
  have hherr : headError s' b = none := by
    have := g.headError_none hb
    simpa only [headError, hhead] using this
  have hti : tailInfo s' b = tailInfo s b := by simp only [tailInfo, htail]
  -- it is enough to find the error among the errors of version `b`
  suffices hs : ∃ e, e ∈ bandErrors s' b ∧ (e = .invalidMetadata ∨ e = .json) by
    obtain ⟨e, he, hk⟩ := hs
    refine ⟨e, mem_validateErrors_band hb' ?_, hk⟩
    simp only [bandValidateErrors, hherr]
    exact mem_listErrors_of_bandErrors he
  simp only [bandErrors, hread, if_true]
  -- the two `check_index_hunks` situations
  have hcheck : indexCheckError s' b = some .invalidMetadata →
      ∃ e, e ∈ (indexCheckError s' b).toList ++ (hunkNumsOf s' b).filterMap (hunkError s' b) ∧
        (e = .invalidMetadata ∨ e = .json) := by
    intro h; exact ⟨.invalidMetadata, by simp [h], Or.inl rfl⟩
  rcases hd with hd | hd | ⟨i, hd⟩
  · -- deleted
    have hnot : n ∉ hunkNumsOf s' b := by
      rw [mem_hunkNumsOf_get? hn', dm.now, hd]; simp
    have hsub := dm.hunkNumsOf_sublist hn b
    rcases hdet with ⟨i, hi⟩ | ⟨c, hc⟩ | hmid
    · rw [hd] at hi; cases hi
    · -- the tail states the count
      apply hcheck
      apply indexCheckError_of
      right; left
      have hc' : c = (hunkNumsOf s b).length := by
        rcases ok.tail with ht | ⟨ht | ht, _⟩
        · rw [ht] at hc; cases hc
        · rw [ht] at hc; cases hc; rfl
        · rw [ht] at hc; cases hc
      have hlt : (hunkNumsOf s' b).length ≠ (hunkNumsOf s b).length := by
        intro heq
        have := hsub.eq_of_length heq
        rw [this] at hnot
        exact hnot hmem
      rw [hti]
      simp only [tailInfo, hc, countMismatch, hc']
      simpa using hlt
    · -- a gap: `n + 1` is still there, `n` is not
      apply hcheck
      apply indexCheckError_of
      left
      simp only [bne_iff_ne, ne_eq]
      intro hr
      have hnext : n + 1 ∈ hunkNumsOf s' b := by
        have h1 : n + 1 ∈ hunkNumsOf s b := by rw [ok.range]; exact List.mem_range.mpr hmid
        rw [mem_hunkNumsOf_get? hn] at h1
        rw [mem_hunkNumsOf_get? hn', dm.same _ (by simp)]
        exact h1
      rw [hr] at hnext hnot
      rw [List.mem_range] at hnext hnot
      omega
  · -- emptied: a zero-length hunk where no interrupted write leaves one
    have hnums : hunkNumsOf s' b = hunkNumsOf s b := dm.hunkNumsOf_eq hn b (Or.inr (by simp [hd]))
    have hne : hunkNonEmpty s' b n = false := by simp [hunkNonEmpty, dm.now, hd]
    apply hcheck
    apply indexCheckError_of
    right; right
    rw [hnums, hti]
    rcases hdet with ⟨i, hi⟩ | ⟨c, hc⟩ | hmid
    · rw [hd] at hi; cases hi
    · have : (tailInfo s b).1 = true := by simp [tailInfo, hc]
      rw [this]
      exact badEmptyHunk_closed_of_mem (p := (n, hunkNonEmpty s' b n))
        (List.mem_map.mpr ⟨n, hmem, rfl⟩) hne
    · generalize hm : (hunkNumsOf s b).length = m at hmid
      have hrange := ok.range
      rw [hm] at hrange
      cases m with
      | zero => omega
      | succ m =>
        rw [hrange, List.range_succ, List.map_append, List.map_singleton]
        exact badEmptyHunk_of_mem_init _ _ _ (p := (n, hunkNonEmpty s' b n))
          (List.mem_map.mpr ⟨n, List.mem_range.mpr (by omega), rfl⟩) hne
  · -- undecodable
    have hnums : hunkNumsOf s' b = hunkNumsOf s b := dm.hunkNumsOf_eq hn b (Or.inr (by simp [hd]))
    refine ⟨.json, List.mem_append_right _ (List.mem_filterMap.mpr ⟨n, by rw [hnums]; exact hmem, ?_⟩),
      Or.inr rfl⟩
    simp [hunkError, dm.now, hd]

end

/-! ### Band heads -/

section
variable {H : Str → Str} {s s' : Store} {b : Nat} {d : Option FileVal}

theorem head_damage_detected (g : Good H s) (dm : DamagedAt (.bandHead b) d s s')
    (hd : d = none ∨ d = some .empty ∨ ∃ i, d = some (.junk i)) (quick : Bool) :
    (if d = none then Err.bandHeadMissing b else Err.json) ∈ validateErrors H quick s' := by
  obtain ⟨v0, hv0, _⟩ := dm.was
  have hb : b ∈ bandIdsOf s := bandDir_of_head g.dirsOk hv0
  have hb' : b ∈ bandIdsOf s' := by rw [dm.bandIdsOf_eq g.uniqueKeys]; exact hb
  apply mem_validateErrors_band hb'
  unfold bandValidateErrors headError
  rw [dm.now]
  rcases hd with hd | hd | ⟨i, hd⟩ <;> simp [hd]

end

end Conserve
