import ConserveModel.Proofs.StitchRun
import ConserveModel.Props.C11
/-
The skip-ahead logic of `IndexHunkIter::next` on sorted hunks: whatever the alignment of hunk
boundaries with the resume path, reading a band after `a` yields exactly the band's entries
that sort after `a`.  Pure list reasoning; no programs, no property statements.
-/
namespace Conserve

/-- Strict path order on entries. -/
def eLt (x y : IndexEntry) : Prop := apathCmp x.apath y.apath = .lt

/-- Strictly increasing in path order. -/
abbrev SortedE (es : List IndexEntry) : Prop := es.Pairwise eLt

theorem gt_iff_lt (x a : Str) : apathCmp x a = .gt ↔ apathCmp a x = .lt := by
  rw [C11.cmp_swap x a]; cases apathCmp a x <;> simp [Ordering.swap]

theorem apathLe_iff (x a : Str) : apathLe x a = true ↔ apathCmp a x ≠ .lt := by
  unfold apathLe
  rw [C11.cmp_swap x a]; cases apathCmp a x <;> simp [Ordering.swap]

theorem sortsAfter_some (a : Str) (e : IndexEntry) :
    sortsAfter (some a) e = true ↔ apathCmp a e.apath = .lt := by
  simp [sortsAfter, gt_iff_lt]

theorem sortsAfter_some_eq (a : Str) (e : IndexEntry) :
    sortsAfter (some a) e = !apathLe e.apath a := by
  simp only [sortsAfter, apathLe]; generalize apathCmp e.apath a = o; cases o <;> rfl

theorem sortsAfter_of_eLt {last : Option Str} {x y : IndexEntry} (h : sortsAfter last x = true)
    (hxy : eLt x y) : sortsAfter last y = true := by
  cases last with
  | none => rfl
  | some a => rw [sortsAfter_some] at *; exact C11.cmp_trans h hxy

theorem not_sortsAfter_of_eLt {a : Str} {x y : IndexEntry} (h : sortsAfter (some a) y = false)
    (hxy : eLt x y) : sortsAfter (some a) x = false := by
  cases hx : sortsAfter (some a) x with
  | false => rfl
  | true => rw [sortsAfter_of_eLt hx hxy] at h; cases h

/-! ### Trimming a sorted hunk -/

theorem trimAfter_eq_filter (a : Str) {es : List IndexEntry} (hs : SortedE es) :
    trimAfter a es = es.filter (sortsAfter (some a)) := by
  induction es with
  | nil => rfl
  | cons e rest ih =>
    obtain ⟨h1, h2⟩ := List.pairwise_cons.mp hs
    unfold trimAfter
    rw [List.dropWhile_cons, List.filter_cons]
    by_cases hle : apathLe e.apath a = true
    · have : sortsAfter (some a) e = false := by rw [sortsAfter_some_eq, hle]; rfl
      simp only [hle, this, if_true]
      exact ih h2
    · have hsa : sortsAfter (some a) e = true := by
        rw [sortsAfter_some_eq]; simpa using hle
      simp only [hle, hsa, if_true]
      have : rest.filter (sortsAfter (some a)) = rest :=
        List.filter_eq_self.mpr fun y hy => sortsAfter_of_eLt hsa (h1 y hy)
      rw [this]; rfl

theorem filter_of_allBefore {a : Str} {es : List IndexEntry} (hs : SortedE es)
    (h : hunkAllBefore a es = true) : es.filter (sortsAfter (some a)) = [] := by
  unfold hunkAllBefore at h
  split at h
  · rename_i l hl
    obtain ⟨ys, rfl⟩ := List.getLast?_eq_some_iff.mp hl
    have hl' : sortsAfter (some a) l = false := by rw [sortsAfter_some_eq, h]; rfl
    rw [List.filter_eq_nil_iff]
    intro e he
    rcases List.mem_append.mp he with he | he
    · have := (List.pairwise_append.mp hs).2.2 e he l (by simp)
      simp [not_sortsAfter_of_eLt hl' this]
    · simp only [List.mem_singleton] at he; subst he; simp [hl']
  · cases h

theorem filter_of_allAfter {a : Str} {es : List IndexEntry} (hs : SortedE es)
    (h : hunkAllAfter a es = true) :
    es ≠ [] ∧ ∀ y, (∀ x ∈ es, eLt x y) ∨ y ∈ es → sortsAfter (some a) y = true := by
  unfold hunkAllAfter at h
  split at h
  · rename_i f hf
    cases es with
    | nil => simp at hf
    | cons f' tl =>
      simp only [List.head?_cons, Option.some.injEq] at hf; subst hf
      have hfa : sortsAfter (some a) f' = true := by simpa [sortsAfter] using h
      refine ⟨by simp, ?_⟩
      intro y hy
      rcases hy with hy | hy
      · exact sortsAfter_of_eLt hfa (hy f' (by simp))
      · rcases List.mem_cons.mp hy with rfl | hy
        · exact hfa
        · exact sortsAfter_of_eLt hfa ((List.pairwise_cons.mp hs).1 y hy)
  · cases h

/-! ### `lastOr` -/

theorem lastOr_nil (l : Option Str) : lastOr [] l = l := rfl

theorem lastOr_append (xs ys : List IndexEntry) (l : Option Str) :
    lastOr (xs ++ ys) l = lastOr ys (lastOr xs l) := by
  unfold lastOr
  rw [List.getLast?_append]
  cases ys.getLast? <;> simp

theorem lastApath?_eq_lastOr {es : List IndexEntry} (h : es ≠ []) (l : Option Str) :
    lastApath? es = lastOr es l := by
  unfold lastApath? lastOr
  cases hg : es.getLast? with
  | none => exact absurd (List.getLast?_eq_none_iff.mp hg) h
  | some x => rfl

/-! ### Reading all hunks of a band -/

/-- What the decodable ones among the hunks `ns` hold, concatenated. -/
def decodedOf (s : Store) (b : Nat) (ns : List Nat) : List IndexEntry :=
  (ns.filterMap (usableHunk s b)).flatten

theorem readHunkP_cases (s : Store) (b n : Nat) :
    readHunkP s b n = .ok none ∨
    (∃ es, readHunkP s b n = .ok (some es) ∧ usableHunk s b n = some es) ∨
    (∃ e, readHunkP s b n = .error e ∧ usableHunk s b n = none) := by
  unfold readHunkP usableHunk
  cases s.get? (.hunk b n) with
  | none => simp
  | some v =>
    cases v with
    | hunk es => by_cases hu : es.all entryUsable = true <;> simp [hu]
    | _ => simp

theorem decodedOf_cons_some {s : Store} {b n : Nat} {es : List IndexEntry} (h : usableHunk s b n = some es)
    (rest : List Nat) : decodedOf s b (n :: rest) = es ++ decodedOf s b rest := by
  simp [decodedOf, h]

theorem decodedOf_cons_none {s : Store} {b n : Nat} (h : usableHunk s b n = none)
    (rest : List Nat) : decodedOf s b (n :: rest) = decodedOf s b rest := by
  simp [decodedOf, h]

/-- Without a resume path, all decodable hunks are returned. -/
theorem readHunksP_none (s : Store) (b : Nat) (ns : List Nat)
    (hp : ∀ n ∈ ns, readHunkP s b n ≠ .ok none) (last : Option Str) :
    readHunksP s b ns none last = (decodedOf s b ns, lastOr (decodedOf s b ns) last) := by
  induction ns generalizing last with
  | nil => rfl
  | cons n rest ih =>
    have ih' := ih (fun m hm => hp m (List.mem_cons_of_mem _ hm))
    unfold readHunksP
    rcases readHunkP_cases s b n with h | ⟨es, h, hd⟩ | ⟨e, h, hd⟩
    · exact absurd h (hp n (List.mem_cons_self ..))
    · rw [h, decodedOf_cons_some hd]
      by_cases hemp : es.isEmpty = true
      · have : es = [] := List.isEmpty_iff.mp hemp
        subst this
        simp [ih']
      · have hne : es ≠ [] := fun h => hemp (List.isEmpty_iff.mpr h)
        simp only [hemp, ih', lastOr_append]
        rw [lastApath?_eq_lastOr hne last]
        rfl
    · rw [h, decodedOf_cons_none hd]; exact ih' last

/-- With a resume path `a`: on a sorted band, whatever the hunk boundaries, exactly the entries
after `a` are returned (three cases of `IndexHunkIter::next`: whole hunk skipped, whole hunk
taken and the search switched off, hunk straddling `a` trimmed). -/
theorem readHunksP_some (s : Store) (b : Nat) (ns : List Nat)
    (hp : ∀ n ∈ ns, readHunkP s b n ≠ .ok none) (hs : SortedE (decodedOf s b ns))
    (a : Str) (last : Option Str) :
    readHunksP s b ns (some a) last =
      ((decodedOf s b ns).filter (sortsAfter (some a)),
        lastOr ((decodedOf s b ns).filter (sortsAfter (some a))) last) := by
  induction ns generalizing last with
  | nil => rfl
  | cons n rest ih =>
    have hp' := fun m hm => hp m (List.mem_cons_of_mem n hm)
    unfold readHunksP
    rcases readHunkP_cases s b n with h | ⟨es, h, hd⟩ | ⟨e, h, hd⟩
    · exact absurd h (hp n (List.mem_cons_self ..))
    · rw [decodedOf_cons_some hd] at hs ⊢
      obtain ⟨hs1, hs2, hs3⟩ := List.pairwise_append.mp hs
      have ih' := ih hp' hs2
      rw [h]
      simp only [List.filter_append, lastOr_append]
      by_cases hc1 : hunkAllBefore a es = true
      · simp only [hc1, if_true, filter_of_allBefore hs1 hc1, List.nil_append, lastOr_nil]
        exact ih' last
      · by_cases hc2 : hunkAllAfter a es = true
        · obtain ⟨hne, hall⟩ := filter_of_allAfter hs1 hc2
          have e1 : es.filter (sortsAfter (some a)) = es :=
            List.filter_eq_self.mpr fun y hy => hall y (Or.inr hy)
          have e2 : (decodedOf s b rest).filter (sortsAfter (some a)) = decodedOf s b rest :=
            List.filter_eq_self.mpr fun y hy => hall y (Or.inl fun x hx => hs3 x hx y hy)
          simp only [hc1, hc2, if_true, e1, e2, readHunksP_none s b rest hp']
          rw [lastApath?_eq_lastOr hne last]
          simp
        · simp only [hc1, hc2, ih', trimAfter_eq_filter a hs1]
          simp
    · rw [decodedOf_cons_none hd] at hs ⊢
      rw [h]; exact ih hp' hs last

/-- Both cases at once. -/
theorem readHunksP_eq (s : Store) (b : Nat) (ns : List Nat)
    (hp : ∀ n ∈ ns, readHunkP s b n ≠ .ok none) (hs : SortedE (decodedOf s b ns))
    (last : Option Str) :
    readHunksP s b ns last last =
      ((decodedOf s b ns).filter (sortsAfter last),
        lastOr ((decodedOf s b ns).filter (sortsAfter last)) last) := by
  cases last with
  | none =>
    rw [readHunksP_none s b ns hp]
    have : (decodedOf s b ns).filter (sortsAfter none) = decodedOf s b ns :=
      List.filter_eq_self.mpr fun _ _ => rfl
    rw [this]
  | some a => exact readHunksP_some s b ns hp hs a (some a)

end Conserve
